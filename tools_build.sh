#!/bin/bash
# developer helper: regenerate Gen/*.v and build the given targets (default: everything)
cd /verif && PYTHONPATH=/verif:/repo /venv/bin/python harness/regen_all.py 2>&1 | grep -v conda
PYTHONPATH=/verif:/repo /venv/bin/python -c "
from harness import core
import sys
core.ensure_makefile()
" 2>&1 | grep -v conda
cd /verif/coq && make -j16 "${@:-all}" 2>&1 | grep -B2 -A14 -i "error" | head -${LINES_MAX:-50}
