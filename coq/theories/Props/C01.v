(* C01 — parsing and rendering are total and terminate.  PARTIAL (see DESIGN.md):
   the models are total Gallina functions, so what a theorem can say is that the
   model's loops are not cut short by their fuel and that every reader makes
   progress; that the IMPLEMENTATION raises nowhere is decided by the oracle (all
   renderers, options, input forms) and by correspondence of outcomes. *)
From Coq Require Import ZArith List Bool.
From Mistletoe Require Import Base.Sx Gen.GenConfig Model.Tree Model.CoreTokens Model.Block Model.HtmlRenderer Model.LatexRenderer
     Model.MarkdownRenderer Proofs.BlockProgress.
Import ListNotations.

(* the dispatch loop is never ended by its fuel: any larger fuel gives the same result,
   for every token configuration, nested tokenizer, buffer and state *)
Theorem C01_fuel_suffices : forall types rec n m after ln acc loose st,
  (length after < n)%nat -> (n <= m)%nat ->
  dispatch_loop types rec n after ln acc loose st = dispatch_loop types rec m after ln acc loose st.
Proof. exact fuel_suffices. Qed.
Print Assumptions C01_fuel_suffices.

(* whenever a reader (other than the link-definition scanner) accepts a line it consumes
   at least one line, so the loop advances on every iteration *)
Theorem C01_readers_progress : forall types rec k after ln st p c st',
  is_definition_kind k = false ->
  start_read types rec k after ln st = Some (p, c, st') -> (1 <= c)%nat.
Proof. exact readers_progress. Qed.
Print Assumptions C01_readers_progress.

(* the renderer models are functions of the tree alone: for every tree and option set
   there is an output (LaTeX: or the documented refusal) *)
Theorem C01_renderers_total : forall t,
  (forall o, exists s, render_html o t = s) /\
  (forall o L, exists s, render_md o L t = s) /\
  (exists r, render_latex t = r).
Proof. intros t. repeat split; intros; eexists; reflexivity. Qed.
Print Assumptions C01_renderers_total.
