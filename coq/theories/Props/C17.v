(* C17 — LaTeX output keeps its group/environment structure whatever the text
   says.  Over ALL token trees.  Model: Model/LatexRenderer.v with the escape
   table, URL safe set/chain, hole fillers and \verb delimiters regenerated from
   latex_renderer.py (Gen/GenLatex.v). *)
From Coq Require Import ZArith List Bool.
From Mistletoe Require Import Base.Sx Base.PyStr Model.Tree Model.LatexRenderer Spec.LatexSpec Proofs.LatexSafe.
Import ListNotations.

(* brace groups and \begin/\end pairs emitted by the templates are properly
   nested, for every tree (whole document included) *)
Theorem C17_groups_envs_balanced : forall t, kf_free t = true -> lbalancedb (render_latex_items t) = true.
Proof. intros t H. apply lbal_balancedb. apply (proj2 (render_latex_items_ok t H)). Qed.
Print Assumptions C17_groups_envs_balanced.

Theorem C17_body_balanced : forall t, lbalancedb (lrender t) = true.
Proof. intros t. apply lbal_balancedb. apply lrender_balanced. Qed.
Print Assumptions C17_body_balanced.

(* every piece of document text is a sequence of ordinary characters and
   escape sequences; every URL argument has braces/backslash/^/$ percent-encoded
   and % # escaped; template text contains no brace; attributes written raw are
   plain (the hypothesis kf_free sets the two recorded findings aside) *)
Theorem C17_items_ok : forall t, kf_free t = true -> Forall litem_ok (render_latex_items t).
Proof. intros t H. exact (proj1 (render_latex_items_ok t H)). Qed.
Print Assumptions C17_items_ok.

Theorem C17_text_escaped : forall s, Esc (latex_escape s).
Proof. intros s. apply latex_escape_Esc. exact (proj1 lsc). Qed.
Print Assumptions C17_text_escaped.

Theorem C17_url_safe : forall s, UrlOk (latex_escape_url s).
Proof. intros s. apply latex_escape_url_ok. exact (proj1 (proj2 lsc)). Qed.
Print Assumptions C17_url_safe.

Theorem C17_verb_delimiter : forall content d, find_delim content = Some d -> mem d content = false.
Proof. exact verb_delimiter_free. Qed.
Print Assumptions C17_verb_delimiter.

(* known findings kf_latex_image_src / kf_latex_code_language: the image
   source and the code language are written raw into an argument *)
Theorem C17_raw_args_refuted :
  kf_free kf_witness_image = false /\
  (exists s, render_latex kf_witness_image = Some s /\ check_latex s <> 0%Z) /\
  kf_free kf_witness_language = false /\
  (exists s, render_latex kf_witness_language = Some s /\ check_latex s <> 0%Z).
Proof. exact kf_raw_args_refuted. Qed.
Print Assumptions C17_raw_args_refuted.
