(* C12 — the token tree is well-formed and its generic views are faithful. *)
From Coq Require Import ZArith List Bool.
From Mistletoe Require Import Base.Sx Base.PyStr Base.PyText Model.Tree Model.Block Model.Traverse Model.Parser Proofs.TraverseBfs Proofs.Shape Proofs.HeadingLevel.
Import ListNotations.

(* every tree the parser model produces, under every token configuration and for
   every input: containers hold only the documented kinds of children (lists hold
   items, tables rows, rows cells, leaf blocks inline tokens only), inline tokens
   never contain block tokens, code/HTML blocks hold exactly one raw text (by type);
   attribute ranges: every ATX heading has level 1-6, every setext heading level 1 or 2
   and every list's start agrees with its first item's marker: None for a bullet, the marker's
   number otherwise (wf_shape checks all of these) *)
Theorem C12_shape : forall cfg lines, wf_shape (fst (fst (parse_lines cfg lines))) = true.
Proof. exact parse_well_shaped. Qed.
Print Assumptions C12_shape.

(* what wf_shape says about a list, spelled out *)
Theorem C12_list_start_agrees : forall start loose a ch rest, wf_shape (List start loose (ListItem a ch :: rest)) = true ->
  start = if (slen (i_leader a) =? 1)%Z then None else Some (int_of_digits (removelast (i_leader a))).
Proof.
  intros start loose a ch rest H. cbn [wf_shape list_start_agrees] in H. apply andb_true_iff in H as [H _]. apply andb_true_iff in H as [H _].
  unfold start_of_leader in H. destruct (slen (i_leader a) =? 1)%Z; destruct start as [x|]; try discriminate; try reflexivity.
  cbn [opt_z_eqb] in H. apply Z.eqb_eq in H. subst x. reflexivity.
Qed.
Print Assumptions C12_list_start_agrees.

(* the fact behind the heading range: for the Heading.pattern regenerated from /repo, whatever the line *)
Theorem C12_heading_level_range : forall line lv ct cl, heading_start line = Some (lv, ct, cl) -> (1 <= lv <= 6)%Z.
Proof. exact heading_level. Qed.
Print Assumptions C12_heading_level_range.

(* utils.traverse yields exactly the proper descendants that pass the class filter
   and the depth limit, with depth = distance from the source ... *)
Theorem C12_traverse : forall t keep limit q c d,
  In (q, c, d) (traverse t keep limit false) <->
  q <> [] /\ subtree t q = Some c /\ keep c = true /\ d = length q /\
  match limit with Some L => length q <= L | None => True end.
Proof. exact traverse_spec. Qed.
Print Assumptions C12_traverse.

(* ... each exactly once ... *)
Theorem C12_traverse_once : forall t keep limit,
  NoDup (map (fun x : path * utree * nat => fst (fst x)) (traverse t keep limit false)).
Proof. exact traverse_once. Qed.
Print Assumptions C12_traverse_once.

(* ... and the parent yielded with a node lists it among its children *)
Theorem C12_true_parent : forall t i p c, subtree t (i :: p) = Some c ->
  exists s, subtree t p = Some s /\ nth_error (uchildren s) i = Some c.
Proof. exact parent_is_true_parent. Qed.
Print Assumptions C12_true_parent.

(* The heading level the range theorem speaks about is the one Heading.start computes in the source as it is now:
   Gen/GenBlockStart.v is written from block_token.py on every run (harness/gen/gen_blockstart.py) and the model's
   heading_start - level, content and closing sequence - is equal to it on every line (Proofs/BlockStartRegen.v). *)
From Mistletoe Require Import Model.Block Gen.GenBlockStart Proofs.BlockStartRegen.
Theorem C12_heading_start_is_the_source : forall line, g_Heading_start line = heading_start line.
Proof. exact heading_start_regen. Qed.
Print Assumptions C12_heading_start_is_the_source.
