(* C02 — all 652 CommonMark 0.30 examples render exactly as specified.
   The quantifier domain is finite and is enumerated completely inside the
   kernel: model(example) = expected for every example.  The other half,
   implementation(example) = model(example), is checked for every example on
   every run (exhaustive correspondence). *)
From Coq Require Import ZArith List Bool.
From Mistletoe Require Import Base.Sx Base.PyStr Model.HtmlRenderer Model.Parser Gen.GenCorpus Proofs.SpecCorpus.
Import ListNotations.

Theorem C02_spec_conformance : forallb example_ok corpus = true.
Proof. exact corpus_conforms. Qed.
Print Assumptions C02_spec_conformance.

Theorem C02_all : forall n md html, In (n, md, html) corpus -> markdown_html dq_opts true md = html.
Proof. exact every_example. Qed.
Print Assumptions C02_all.

Theorem C02_corpus_complete : Z.of_nat (length corpus) = 652%Z /\ corpus_size = 652%Z.
Proof. exact corpus_complete. Qed.
Print Assumptions C02_corpus_complete.
