(* C08 — HTML output is well-formed and document text cannot inject markup.
   Stated over ALL token trees (so over every input, whatever the parser does)
   and all option sets.  Model: Model/HtmlRenderer.v, with the escape chain,
   the URL safe set and the escaping applied at every template hole
   REGENERATED from html_renderer.py (Gen/GenEscapes.v). *)
From Coq Require Import ZArith List Bool.
From Mistletoe Require Import Base.Sx Base.PyStr Model.Tree Model.HtmlRenderer Spec.HtmlSpec Proofs.HtmlSafe.
Import ListNotations.

(* tags are properly nested *)
Theorem C08_balanced : forall o sup hdr t, balancedb (render o sup hdr t) = true.
Proof. intros. apply bal_balancedb. apply render_balanced. Qed.
Print Assumptions C08_balanced.

(* every tag is in the renderer's vocabulary, carries only the attributes that
   tag may carry, every attribute value is free of double quotes and angle
   brackets, and every text item contains '<' '>' '&' only in escaped form *)
Theorem C08_items_ok : forall o sup hdr t, wf_attrs t = true ->
  Forall (fun i => item_okb i = true) (render o sup hdr t).
Proof. intros. apply render_items_ok. assumption. Qed.
Print Assumptions C08_items_ok.

(* with raw-HTML processing disabled (no HtmlBlock/HtmlSpan token in the tree)
   nothing verbatim reaches the output *)
Theorem C08_raw_origin : forall o sup hdr t, no_html_tokens t = true -> no_raw (render o sup hdr t) = true.
Proof. intros. apply render_no_raw. assumption. Qed.
Print Assumptions C08_raw_origin.

(* the helpers themselves, for every string *)
Theorem C08_escapers : forall o s,
  safe_valueb (html_escape s) = true /\ safe_valueb (escape_url s) = true /\
  safe_textb (escape_html_text o s) = true /\ safe_textb (html_escape s) = true.
Proof. exact escapers_safe. Qed.
Print Assumptions C08_escapers.
