(* C08 — HTML output is well-formed and document text cannot inject markup.
   Stated over ALL token trees (so over every input, whatever the parser does)
   and all option sets.  Model: Model/HtmlRenderer.v, with the escape chain,
   the URL safe set and the escaping applied at every template hole
   REGENERATED from html_renderer.py (Gen/GenEscapes.v). *)
From Coq Require Import ZArith List Bool.
From Mistletoe Require Import Base.Sx Base.PyStr Model.Tree Model.HtmlRenderer Model.Parser Spec.HtmlSpec Proofs.HtmlSafe Proofs.ParsedSafe.
Import ListNotations.

(* tags are properly nested *)
Theorem C08_balanced : forall o sup hdr t, balancedb (render o sup hdr t) = true.
Proof. intros. apply bal_balancedb. apply render_balanced. Qed.
Print Assumptions C08_balanced.

(* every tag is in the renderer's vocabulary, carries only the attributes that
   tag may carry, every attribute value is free of double quotes and angle
   brackets, and every text item contains '<' '>' '&' only in escaped form *)
Theorem C08_items_ok : forall o sup hdr t, wf_attrs t = true ->
  Forall (fun i => item_okb i = true) (render o sup hdr t).
Proof. intros. apply render_items_ok. assumption. Qed.
Print Assumptions C08_items_ok.

(* with raw-HTML processing disabled (no HtmlBlock/HtmlSpan token in the tree)
   nothing verbatim reaches the output *)
Theorem C08_raw_origin : forall o sup hdr t, no_html_tokens t = true -> no_raw (render o sup hdr t) = true.
Proof. intros. apply render_no_raw. assumption. Qed.
Print Assumptions C08_raw_origin.

(* the helpers themselves, for every string *)
Theorem C08_escapers : forall o s,
  safe_valueb (html_escape s) = true /\ safe_valueb (escape_url s) = true /\
  safe_textb (escape_html_text o s) = true /\ safe_textb (html_escape s) = true.
Proof. exact escapers_safe. Qed.
Print Assumptions C08_escapers.

(* the hypothesis wf_attrs (heading level 1-6) holds for EVERY tree the parser model produces, under every
   token configuration and for every list of lines: the level is the length of the '#' group of Heading.pattern,
   bounded by a group-length analysis of the regex engine (Proofs/ReGroups.v) evaluated on the regenerated pattern.
   So the vocabulary / attribute / escaping theorem holds for every input text. *)
Theorem C08_parsed_trees_have_ranged_attributes : forall cfg lines, wf_attrs (fst (fst (parse_lines cfg lines))) = true.
Proof. exact parsed_attrs. Qed.
Print Assumptions C08_parsed_trees_have_ranged_attributes.

Theorem C08_items_ok_for_every_input : forall cfg lines o sup hdr,
  Forall (fun i => item_okb i = true) (render o sup hdr (fst (fst (parse_lines cfg lines)))).
Proof. exact parsed_items_ok. Qed.
Print Assumptions C08_items_ok_for_every_input.
