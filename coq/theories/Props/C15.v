(* C15 — the same text gives the same result however it is supplied.
   Everything downstream of Document.__init__ is a function of the prepared
   line list, so equality of line lists is the whole content.  Model:
   Model/DocLines.v (tied by X-lines: the list the real constructor hands to
   the block tokenizer is captured and compared). *)
From Coq Require Import ZArith List Bool.
From Mistletoe Require Import Base.Sx Base.PyStr Model.DocLines Proofs.LinesOfDoc.
Import ListNotations.

Theorem C15_str_eq_file : forall s, only_lf s = true -> doc_lines_of_str s = doc_lines_of_file s.
Proof. exact str_eq_file. Qed.
Print Assumptions C15_str_eq_file.

Theorem C15_list_eq_file : forall s, s <> [] -> ends_with_lf s = false ->
  doc_lines_of_list (split_lf s) = doc_lines_of_file s.
Proof. exact list_without_ends_eq_file. Qed.
Print Assumptions C15_list_eq_file.

Theorem C15_final_newline : forall s, only_lf s = true -> s <> [] -> ends_with_lf s = false ->
  doc_lines_of_str (s ++ [10%Z]) = doc_lines_of_str s.
Proof. exact final_newline_irrelevant. Qed.
Print Assumptions C15_final_newline.

Theorem C15_only_lf_needed : exists s, only_lf s = false /\ doc_lines_of_str s <> doc_lines_of_file s.
Proof. exact only_lf_needed. Qed.
Print Assumptions C15_only_lf_needed.

Theorem C15_empty_vs_newline : doc_lines_of_str [] = [] /\ doc_lines_of_str [10%Z] = [[10%Z]].
Proof. exact empty_vs_newline. Qed.
Print Assumptions C15_empty_vs_newline.
