(* C07 — link reference definitions: position-independent, first wins, case-folded.
   Model: the block phase (Model/Block.v) collects the definitions of the whole
   document, containers included, in document order; the inline phase
   (Model/Build.v) parses every piece of inline content with that complete map. *)
From Coq Require Import ZArith List Bool.
From Mistletoe Require Import Base.Sx Base.PyStr Base.PyText Model.Tree Model.CoreTokens Model.Block Model.Build Model.Parser
     Proofs.Footnotes.
Import ListNotations.

Theorem C07_first_wins : forall defs fn k,
  fn_get k (append_footnotes defs fn) =
  match fn_get k fn with
  | Some v => Some v
  | None => option_map def_value (find (fun d => str_eqb (normalize_label (def_label d)) k) defs)
  end.
Proof. exact first_definition_wins. Qed.
Print Assumptions C07_first_wins.

(* the map every reference of the document is resolved against: the first
   definition in document order with that normalised label, wherever it sits *)
Theorem C07_document_lookup : forall cfg lines k,
  fn_get k (snd (block_phase cfg lines)) =
  option_map def_value (find (fun d => str_eqb (normalize_label (def_label d)) k)
                             (flat_map defs_of (fst (block_phase cfg lines)))).
Proof. exact document_lookup. Qed.
Print Assumptions C07_document_lookup.

Theorem C07_containers_transparent : forall ln es lo i p ld,
  defs_of (PQuote ln es) = flat_map defs_of es /\ defs_of (PList ln es) = flat_map defs_of es /\
  defs_of (PItem ln es lo i p ld) = flat_map defs_of es.
Proof. exact defs_of_containers. Qed.
Print Assumptions C07_containers_transparent.

Theorem C07_two_phase : forall cfg lines,
  parse_lines cfg lines =
  let '(es, fn) := block_phase cfg lines in
  (Document (make_tokens (cfg_span cfg) (cfg_keep_defs cfg) fn es), fn, flat_map (lnums (cfg_keep_defs cfg)) es).
Proof. exact two_phase. Qed.
Print Assumptions C07_two_phase.

Theorem C07_no_output : forall span_types fn ln defs, build span_types false fn (PFootnote ln defs) = None.
Proof. exact definition_builds_nothing. Qed.
Print Assumptions C07_no_output.

(* Which text is a link reference definition: the three scanners Footnote.match_reference calls - match_link_label
   (the `[label]`, at most three spaces before it, escapes, no nested bracket), match_link_dest (angle form; plain form
   with balanced parentheses, ended by `break` at white space or by exhaustion) and match_link_title (three quoting styles) -
   are translated from block_token.py on every run, loop by loop, and the model's scanners are equal to them on every
   string and offset (harness/gen/gen_core.py, Gen/GenCore.v, Proofs/CoreRegen.v). *)
From Mistletoe Require Import Model.Block Gen.GenCore Proofs.CoreRegen.
Theorem C07_definition_scanners_are_the_source : forall s offset,
  g_fn_match_link_label s offset = fn_match_label s offset /\
  g_fn_match_link_dest s offset = fn_match_dest s offset /\
  g_fn_match_link_title s offset = fn_match_title s offset.
Proof. intros. split; [apply fn_match_label_regen|]. split; [apply fn_match_dest_regen|apply fn_match_title_regen]. Qed.
Print Assumptions C07_definition_scanners_are_the_source.

(* ... down to the resolved link itself (Proofs/RefSentence.v): a shortcut reference [w] inside a sentence - text free of trigger
   characters before, inside and after, w not blank, no "(" right after - tokenizes, under ANY footnote map that holds the
   normalised label of w, to the text before, ONE Link holding w with the target and title the map returns, the text after: scanner,
   bracket stack, label lookup, every span finder and the candidate tokenizer; and against the document's own map that is the
   FIRST definition in document order - wherever it stands - whose label normalises to the same key (normalize_label: case-folded,
   white space collapsed): the three clauses of the property on the link that comes out *)
From Mistletoe Require Import Gen.GenConfig Model.Inline Proofs.EmphSentence Proofs.RefSentence.
Theorem C07_reference_in_sentence : forall types fn pre w post dest title,
  ref_spans types = true -> ref_ok pre w post = true -> fn_get (normalize_label w) fn = Some (dest, title) ->
  tokenize_inner types fn (pre ++ [91%Z] ++ w ++ [93%Z] ++ post) = raw_if pre ++ [link_of w dest title] ++ raw_if post.
Proof. exact reference_in_sentence. Qed.
Print Assumptions C07_reference_in_sentence.

Theorem C07_reference_resolves : forall cfg lines pre w post d,
  ref_spans (cfg_span cfg) = true -> ref_ok pre w post = true ->
  find (fun d => str_eqb (normalize_label (def_label d)) (normalize_label w)) (flat_map defs_of (fst (block_phase cfg lines))) = Some d ->
  tokenize_inner (cfg_span cfg) (snd (block_phase cfg lines)) (pre ++ [91%Z] ++ w ++ [93%Z] ++ post) =
  raw_if pre ++ [link_of w (fst (def_value d)) (snd (def_value d))] ++ raw_if post.
Proof. exact reference_resolves. Qed.
Print Assumptions C07_reference_resolves.

Theorem C07_reference_hypotheses :
  forallb (fun c => ref_spans (cfg_span c)) [cfg_html; cfg_html_nohtml; cfg_markdown; cfg_latex; cfg_mathjax; cfg_default] = true /\
  (ref_ok ($"see ") ($"The  Label") ($", ok") = true /\ ref_ok ($"see ") ($"x") ($"(y)") = false /\ ref_ok [] ($"a*b") [] = false /\
   normalize_label ($"The  Label") = normalize_label ($"the label")).
Proof. split; [exact ref_configs|exact reference_instance]. Qed.
Print Assumptions C07_reference_hypotheses.

(* ... the other two reference forms, [text][label] and [label][], resolve the same way (the label scanner followed over a label of
   any length), and a reference whose label has NO definition stays literal text, brackets included *)
Theorem C07_full_reference_in_sentence : forall types fn pre t lab post dest title,
  ref_spans types = true -> full_ok pre t lab post = true -> fn_get (normalize_label lab) fn = Some (dest, title) ->
  tokenize_inner types fn (pre ++ [91%Z] ++ t ++ [93%Z; 91%Z] ++ lab ++ [93%Z] ++ post) =
  raw_if pre ++ [Link (mkLink (Unescape.escape_strip (strip dest)) (Unescape.escape_strip title) $"full" (Some lab) []) [RawText t]] ++ raw_if post.
Proof. exact full_reference_in_sentence. Qed.
Print Assumptions C07_full_reference_in_sentence.

Theorem C07_collapsed_reference_in_sentence : forall types fn pre t post dest title,
  ref_spans types = true -> full_ok pre t t post = true -> fn_get (normalize_label t) fn = Some (dest, title) ->
  tokenize_inner types fn (pre ++ [91%Z] ++ t ++ [93%Z; 91%Z; 93%Z] ++ post) =
  raw_if pre ++ [Link (mkLink (Unescape.escape_strip (strip dest)) (Unescape.escape_strip title) $"collapsed" None []) [RawText t]] ++ raw_if post.
Proof. exact collapsed_reference_in_sentence. Qed.
Print Assumptions C07_collapsed_reference_in_sentence.

From Mistletoe Require Import Proofs.PlainProse.
Theorem C07_reference_without_definition : forall types fn pre w post,
  ref_spans_q types = true -> plain_text pre && plain_text w && plain_text post && negb (hd 0%Z post =? 40)%Z = true ->
  fn_get (normalize_label w) fn = None ->
  tokenize_inner types fn (pre ++ [91%Z] ++ w ++ [93%Z] ++ post) = [RawText (pre ++ [91%Z] ++ w ++ [93%Z] ++ post)].
Proof. exact reference_without_definition. Qed.
Print Assumptions C07_reference_without_definition.
