(* C10 — reflowing to a maximum line length.  The wrapping core for ALL fragment
   lists and ALL limits; containers for all trees.  Model: Model/MarkdownRenderer.v
   (tied by X-wrap: the real classmethods on synthetic Fragment lists; X-md). *)
From Coq Require Import ZArith List Bool.
From Mistletoe Require Import Base.Sx Base.PyStr Model.Tree Model.MarkdownRenderer Proofs.WrapBound.
Import ListNotations.
Local Open Scope Z_scope.

(* every line of a wrapped block fits the limit or is one single unbreakable word *)
Theorem C10_bound : forall frs lim line, 0 <= lim ->
  In line (fragments_to_lines (Some lim) frs) -> len line <= lim \/ In line (make_words frs).
Proof. exact wrap_bound. Qed.
Print Assumptions C10_bound.

(* the lines are groups of the words, joined by single spaces; no word is
   dropped, added or reordered (hard-break markers end a line) *)
Theorem C10_words_preserved : forall frs lim,
  fragments_to_lines (Some lim) frs = map (join SP) (fill_struct lim [] (make_words frs)) /\
  filter nonempty (concat (fill_struct lim [] (make_words frs))) = filter real_word (make_words frs).
Proof. exact wrap_words_preserved. Qed.
Print Assumptions C10_words_preserved.

Theorem C10_fill_determined_by_words : forall frs1 frs2 lim,
  make_words frs1 = make_words frs2 -> fragments_to_lines (Some lim) frs1 = fragments_to_lines (Some lim) frs2.
Proof. exact wrap_determined_by_words. Qed.
Print Assumptions C10_fill_determined_by_words.

(* code blocks, HTML blocks, tables, ATX headings (and rules, blank lines) are
   rendered independently of the limit *)
Theorem C10_not_rebroken : forall o L t, fixed_kind t = true -> block_lines o L t = block_lines o None t.
Proof. exact not_rebroken. Qed.
Print Assumptions C10_not_rebroken.

(* containers shrink the budget by exactly the width of the prefix they add *)
Theorem C10_quote_budget : forall o L ch line,
  In line (block_lines o (Some L) (Quote ch)) ->
  line = [] \/ exists l, In l (flat_map (block_lines o (Some (L - 2))) ch) /\ line = $"> " ++ l.
Proof. exact quote_budget. Qed.
Print Assumptions C10_quote_budget.

Theorem C10_list_item_budget : forall o L a ch line,
  let prepend := if normalize_ws o then len (i_leader a) + 1 else i_prepend a in
  let indentation := if normalize_ws o then 0 else i_indentation a in
  0 <= indentation -> len (i_leader a) + indentation <= prepend ->
  In line (block_lines o (Some L) (ListItem a ch)) ->
  line = [] \/ exists pre l, In l (or_blank (flat_map (block_lines o (Some (L - prepend))) ch)) /\
                             line = pre ++ l /\ len pre = prepend.
Proof. exact list_item_budget. Qed.
Print Assumptions C10_list_item_budget.
