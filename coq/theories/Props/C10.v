(* C10 — reflowing to a maximum line length.  The wrapping core for ALL fragment
   lists and ALL limits; containers for all trees.  Model: Model/MarkdownRenderer.v
   (tied by X-wrap: the real classmethods on synthetic Fragment lists; X-md). *)
From Coq Require Import ZArith List Bool.
From Mistletoe Require Import Base.Sx Base.PyStr Model.Tree Model.MarkdownRenderer Proofs.WrapBound.
Import ListNotations.
Local Open Scope Z_scope.

(* every line of a wrapped block fits the limit or is one single unbreakable word *)
Theorem C10_bound : forall frs lim line, 0 <= lim ->
  In line (fragments_to_lines (Some lim) frs) -> len line <= lim \/ In line (make_words frs).
Proof. exact wrap_bound. Qed.
Print Assumptions C10_bound.

(* the lines are groups of the words, joined by single spaces; no word is
   dropped, added or reordered (hard-break markers end a line) *)
Theorem C10_words_preserved : forall frs lim,
  fragments_to_lines (Some lim) frs = map (join SP) (fill_struct lim [] (make_words frs)) /\
  filter nonempty (concat (fill_struct lim [] (make_words frs))) = filter real_word (make_words frs).
Proof. exact wrap_words_preserved. Qed.
Print Assumptions C10_words_preserved.

Theorem C10_fill_determined_by_words : forall frs1 frs2 lim,
  make_words frs1 = make_words frs2 -> fragments_to_lines (Some lim) frs1 = fragments_to_lines (Some lim) frs2.
Proof. exact wrap_determined_by_words. Qed.
Print Assumptions C10_fill_determined_by_words.

(* code blocks, HTML blocks, tables, ATX headings (and rules, blank lines) are
   rendered independently of the limit *)
Theorem C10_not_rebroken : forall o L t, fixed_kind t = true -> block_lines o L t = block_lines o None t.
Proof. exact not_rebroken. Qed.
Print Assumptions C10_not_rebroken.

(* containers shrink the budget by exactly the width of the prefix they add *)
Theorem C10_quote_budget : forall o L ch line,
  In line (block_lines o (Some L) (Quote ch)) ->
  line = [] \/ exists l, In l (flat_map (block_lines o (Some (L - 2))) ch) /\ line = $"> " ++ l.
Proof. exact quote_budget. Qed.
Print Assumptions C10_quote_budget.

Theorem C10_list_item_budget : forall o L a ch line,
  let prepend := if normalize_ws o then len (i_leader a) + 1 else i_prepend a in
  let indentation := if normalize_ws o then 0 else i_indentation a in
  0 <= indentation -> len (i_leader a) + indentation <= prepend ->
  In line (block_lines o (Some L) (ListItem a ch)) ->
  line = [] \/ exists pre l, In l (or_blank (flat_map (block_lines o (Some (L - prepend))) ch)) /\
                             line = pre ++ l /\ len pre = prepend.
Proof. exact list_item_budget. Qed.
Print Assumptions C10_list_item_budget.

(* Clauses 1 and 4 of the property, PROVED for paragraphs of plain words and EVERY maximum line length
   (Proofs/ReflowProse.v): a word is plain when it holds no white space and none of the inline trigger characters and
   begins with a character that can start neither a block, a list item nor a setext underline (so that it may begin a
   line).  With a limit the renderer writes the paragraph as lines that are groups of its words (word_lines); that
   text parses to ONE paragraph holding those lines; its HTML is the original's with newlines where some of the
   spaces were (joining the lines' escaped texts by spaces gives back the original's escaped text); and reflowing the
   reflowed paragraph with the same limit gives the same lines. *)
From Mistletoe Require Import Model.Tree Model.HtmlRenderer Model.Parser Proofs.PlainProse Proofs.ProseLines Proofs.ReflowProse.
Local Open Scope Z_scope.

Theorem C10_plain_words_reflow : forall ws lim cfg o,
  ws <> [] -> Forall (fun w => word_okb w = true) ws -> quiet_config cfg = true -> prose_config cfg = true ->
  let T := join SP ws in
  let out := word_lines lim ws in
  (* what the renderer writes with the limit *)
  block_lines (mkMopts false) (Some lim) (Paragraph [RawText T]) = out /\
  fst (fst (parse_lines cfg [T ++ [10]])) = Document [Paragraph [RawText T]] /\
  (* the reflowed text parses to one paragraph of those lines ... *)
  fst (fst (parse_lines cfg (nl_lines out))) = Document [Paragraph (prose_toks out)] /\
  (* ... with the same meaning up to the position of soft line breaks *)
  render_html o (fst (fst (parse_lines cfg [T ++ [10]]))) = $"<p>" ++ escape_html_text o T ++ $"</p>" ++ [10] /\
  render_html o (fst (fst (parse_lines cfg (nl_lines out)))) = $"<p>" ++ join [10] (map (escape_html_text o) out) ++ $"</p>" ++ [10] /\
  join SP (map (escape_html_text o) out) = escape_html_text o T /\
  (* and reflowing again changes nothing *)
  block_lines (mkMopts false) (Some lim) (Paragraph (prose_toks out)) = out.
Proof.
  intros ws lim cfg o Hne Hws Hq Hp T out.
  destruct (reflow_parses ws lim Hne Hws cfg Hq Hp) as [P1 P2].
  destruct (reflow_same_meaning ws lim Hne Hws cfg o Hq Hp) as (M1 & M2 & M3).
  repeat split; try assumption; [apply (reflow_lines ws lim Hne Hws)|apply (reflow_idempotent ws lim Hne Hws)].
Qed.
Print Assumptions C10_plain_words_reflow.

Theorem C10_plain_words_instance :
  let ws := [ $"Lorem"; $"ipsum,"; $"(dolor)"; $"sit"; $"amet;"; $"a.b"; $"c:d"; $"e%f"; $"verylongword" ] in
  forallb word_okb ws = true /\
  word_lines 12 ws = [ $"Lorem ipsum,"; $"(dolor) sit"; $"amet; a.b"; $"c:d e%f"; $"verylongword" ] /\
  word_okb ($"2") = false /\ word_okb ($"-") = false /\ word_okb ($"=") = false /\ word_okb ($"a*b") = false /\
  quiet_config cfg_markdown && prose_config cfg_markdown && quiet_config cfg_html && prose_config cfg_html = true.
Proof. vm_compute. repeat split; reflexivity. Qed.
Print Assumptions C10_plain_words_instance.

(* Clauses 1 and 4 AT EVERY NESTING DEPTH (Proofs/ReflowTree.v): trees of block quotes and lists (any markers and paddings, several
   items, tight or loose) whose paragraphs are lines of plain words, with fenced code blocks, ATX headings and thematic breaks between
   them (wtree; wwf is its computable well-formedness: the word condition of C10_plain_words_reflow, the marker and sibling conditions
   of the C03 fragment, and - after a bullet - content that does not begin with the same bullet).  For EVERY maximum line length L:
   the Markdown renderer writes the parsed source as the text of reflow L t - the same tree with the words of every paragraph
   regrouped under the budget its containers leave (L - 2 in a quote, L minus marker and padding in a list item); that tree is in the
   C03 fragment again (wwf_fragment: everything wf_b asks, including that no item's first line reads as a thematic break, is DERIVED -
   ThematicItem.v evaluates ThematicBreak.pattern on marker, spaces, x0 ...), so the reflowed text parses to it; its HTML is the
   original's up to line endings exchanged for spaces (unl); and reflowing the reflowed text with the same limit gives it back. *)
From Mistletoe Require Import Model.MarkdownRenderer Proofs.ListLaw Spec.Fragment Proofs.FragmentP Proofs.FragmentHtml Proofs.InertProse Proofs.ReflowTree.
Theorem C10_tree_reflow : forall t L cfg o,
  wwf t = true ->
  fragment_config (cfg_block cfg) = true -> prose_spans (cfg_span cfg) = true -> EmphSimple.emph_spans (cfg_span cfg) = true ->
  inert_spans (cfg_span cfg) = true -> LeafSpans.leaf_spans (cfg_span cfg) = true ->
  let src := text_of (spell (to_f t)) in
  let t' := reflow L t in
  let out := text_of (spell (to_f t')) in
  render_md (mkMopts false) (Some L) (fst (fst (parse_lines cfg_markdown src))) = concat out /\
  wf_b (to_f t') = true /\
  fst (fst (parse_lines cfg out)) = Document [tok_of false (to_f t')] /\
  render_html o (fst (fst (parse_lines cfg src))) = html_f o false (to_f t) ++ [10] /\
  render_html o (fst (fst (parse_lines cfg out))) = html_f o false (to_f t') ++ [10] /\
  unl (html_f o false (to_f t')) = unl (html_f o false (to_f t)) /\
  render_md (mkMopts false) (Some L) (fst (fst (parse_lines cfg_markdown out))) = concat out.
Proof. exact tree_reflow. Qed.
Print Assumptions C10_tree_reflow.

Theorem C10_tree_reflow_pieces :
  (forall t, wwf t = true -> wf_b (to_f t) = true) /\
  (forall L t, wwf t = true -> wwf (reflow L t) = true) /\
  (forall L t, wwf t = true -> block_lines (mkMopts false) (Some L) (tok_of true (to_f t)) = map bare (spell (to_f (reflow L t)))) /\
  (forall L t, wwf t = true -> reflow L (reflow L t) = reflow L t).
Proof.
  split; [exact wwf_fragment|]. split; [intros L t H; apply (reflow_in_fragment L t H)|]. split; [exact reflow_renders|exact reflow_idempotent_tree].
Qed.
Print Assumptions C10_tree_reflow_pieces.

Theorem C10_tree_reflow_instance :
  let p := WPara [[ $"Lorem"; $"ipsum,"; $"(dolor)" ]; [ $"sit"; $"amet;" ]] in
  let t := WQuote [p; WItem (MBullet 45) 1 [WPara [[ $"consectetur"; $"adipiscing"; $"elit" ]]; WFence 96 3 [SLine 0 120 $" = 1 + 2 + 3 + 4 + 5"]];
                   WHead 2 110 $"ext";
                   WMore (MOrdered $"1" 46) 2 [WPara [[ $"sed"; $"do" ]; [ $"eiusmod" ]]] false (WItem (MOrdered $"2" 46) 2 [WQuote [WPara [[ $"tempor"; $"incididunt"; $"ut" ]]]])] in
  wwf t = true /\
  text_of (spell (to_f t)) =
    [ $"> Lorem ipsum, (dolor)" ++ [10]; $"> sit amet;" ++ [10]; $"> " ++ [10];
      $"> - consectetur adipiscing elit" ++ [10]; $"> " ++ [10]; $">   ```" ++ [10]; $">   x = 1 + 2 + 3 + 4 + 5" ++ [10]; $">   ```" ++ [10]; $"> " ++ [10];
      $"> ## next" ++ [10]; $"> " ++ [10];
      $"> 1.  sed do" ++ [10]; $">     eiusmod" ++ [10]; $"> 2.  > tempor incididunt ut" ++ [10] ] /\
  text_of (spell (to_f (reflow 16 t))) =
    [ $"> Lorem ipsum," ++ [10]; $"> (dolor) sit" ++ [10]; $"> amet;" ++ [10]; $"> " ++ [10];
      $"> - consectetur" ++ [10]; $">   adipiscing" ++ [10]; $">   elit" ++ [10]; $"> " ++ [10]; $">   ```" ++ [10]; $">   x = 1 + 2 + 3 + 4 + 5" ++ [10]; $">   ```" ++ [10]; $"> " ++ [10];
      $"> ## next" ++ [10]; $"> " ++ [10];
      $"> 1.  sed do" ++ [10]; $">     eiusmod" ++ [10]; $"> 2.  > tempor" ++ [10]; $">     > incididunt" ++ [10]; $">     > ut" ++ [10] ] /\
  wwf (WItem (MBullet 45) 1 [WItem (MBullet 45) 1 [p]]) = false /\ wwf (WItem (MBullet 45) 1 [WItem (MBullet 42) 1 [p]]) = true /\
  wwf (WItem (MBullet 45) 1 [WRule 45 0]) = false /\ wwf (WPara [[ $"-" ]]) = false.
Proof. vm_compute. repeat split; reflexivity. Qed.
Print Assumptions C10_tree_reflow_instance.

(* Clause 3 AT EVERY NESTING DEPTH, on the same trees: pw_lines lists the paragraph lines of the reflowed tree with the width of the
   container prefix that stands in front of each (2 per block quote, marker and padding per list item).  Every one of them is a line of
   the written text behind a prefix of exactly that width, and prefix and words together fit the limit - or the line holds ONE word,
   nothing that could have been broken (fill_struct_fits: by induction over the words) *)
Theorem C10_tree_long_lines : forall L t, wwf t = true ->
  Forall (fun x => (exists p, len p = fst x /\ In (p ++ join WrapBound.SP (snd x)) (map bare (spell (to_f (reflow L t))))) /\
                   (fst x + len (join WrapBound.SP (snd x)) <= L \/ exists w, snd x = [w])) (pw_lines 0 (reflow L t)).
Proof. exact reflow_long_lines. Qed.
Print Assumptions C10_tree_long_lines.

Theorem C10_tree_long_lines_instance :
  let t := WQuote [WItem (MBullet 45) 1 [WPara [[ $"consectetur"; $"adipiscing"; $"elit" ]]]] in
  wwf t = true /\
  pw_lines 0 (reflow 12 t) = [ (4, [ $"consectetur" ]); (4, [ $"adipiscing" ]); (4, [ $"elit" ]) ] /\
  pw_lines 0 (reflow 31 t) = [ (4, [ $"consectetur"; $"adipiscing"; $"elit" ]) ] /\ pw_lines 0 (reflow 30 t) = [ (4, [ $"consectetur"; $"adipiscing" ]); (4, [ $"elit" ]) ].
Proof. vm_compute. repeat split; reflexivity. Qed.
Print Assumptions C10_tree_long_lines_instance.

(* The same trees under MarkdownRenderer(max_line_length=L, normalize_whitespace=True): the renderer writes norm t - every list marker
   followed by ONE space, whatever padding the source had - reflowed under the budgets that leaves; that tree is in the fragment again,
   and its HTML is the original's up to line endings exchanged for spaces (the padding of a marker is not seen in the HTML) *)
Theorem C10_tree_reflow_normalized : forall o L t, wwf t = true ->
  block_lines (mkMopts true) (Some L) (tok_of true (to_f t)) = map bare (spell (to_f (reflow L (norm t)))) /\
  wwf (reflow L (norm t)) = true /\ wf_b (to_f (reflow L (norm t))) = true /\
  unl (html_f o false (to_f (reflow L (norm t)))) = unl (html_f o false (to_f t)).
Proof.
  intros o L t H. destruct (reflow_renders_normalized L t H) as (A & B & C). repeat split; try assumption. apply normalized_same_html. exact H.
Qed.
Print Assumptions C10_tree_reflow_normalized.

Theorem C10_tree_reflow_normalized_instance :
  let t := WItem (MOrdered $"12" 41) 3 [WPara [[ $"consectetur"; $"adipiscing" ]; [ $"elit" ]]; WQuote [WItem (MBullet 42) 4 [WPara [[ $"sed"; $"do"; $"eiusmod" ]]]]] in
  wwf t = true /\
  text_of (spell (to_f t)) = [ $"12)   consectetur adipiscing" ++ [10]; $"      elit" ++ [10]; [10]; $"      > *    sed do eiusmod" ++ [10] ] /\
  text_of (spell (to_f (reflow 16 (norm t)))) =
    [ $"12) consectetur" ++ [10]; $"    adipiscing" ++ [10]; $"    elit" ++ [10]; [10]; $"    > * sed do" ++ [10]; $"    >   eiusmod" ++ [10] ].
Proof. vm_compute. repeat split; reflexivity. Qed.
Print Assumptions C10_tree_reflow_normalized_instance.
