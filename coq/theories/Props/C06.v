(* C06 — emphasis nesting equals the specification's delimiter-run algorithm.
   Spec/Delims.v is written from the CommonMark 0.30 appendix, independently of the
   model of core_tokens.py.  Unbounded: the flanking classification and the
   rule-of-three predicate.  Bounded, inside the kernel: the complete inline parse
   of the model equals the specification algorithm on every string of the finite
   sets below (the bound is part of the statement).  Longer strings: exhaustive /
   random comparison of the implementation with the extracted specification. *)
From Coq Require Import ZArith List Bool.
From Mistletoe Require Import Base.Sx Base.PyStr Base.PyText Gen.GenTables Model.CoreTokens Spec.Delims Proofs.EmphBounded Proofs.EmphAll.
Import ListNotations.

Theorem C06_tables : uws_ranges = spec_ws_ranges /\ punct_ranges = spec_punct_ranges.
Proof. exact tables_agree. Qed.
Print Assumptions C06_tables.

Theorem C06_flanking : forall s a b,
  is_opener a b s = can_open (char_at s a) (char_before s a) (char_after s b) /\
  is_closer a b s = can_close (char_at s a) (char_before s a) (char_after s b).
Proof. exact flanking_agrees. Qed.
Print Assumptions C06_flanking.

Theorem C06_closed_by : forall o c, type0 o = type0 c ->
  closed_by o c = negb (((d_open o && d_close o) || (d_open c && d_close c)) &&
                        ((d_orig o + d_orig c) mod 3 =? 0)%Z && negb ((d_orig o mod 3 =? 0)%Z && (d_orig c mod 3 =? 0)%Z)).
Proof. exact closed_by_spec. Qed.
Print Assumptions C06_closed_by.

(* every string over {a, space, *, _, .} of length <= 7 *)
Theorem C06_bounded_alpha5_7 : forall s, In s (strings_up_to alpha5 7) -> model_emphasis s = spec_emphasis s.
Proof. intros s H. apply str_eqb_eq. exact (alpha5_up_to_7 s H). Qed.
Print Assumptions C06_bounded_alpha5_7.

(* every string over {a,*} and over {a,_} of length <= 12 *)
Theorem C06_bounded_star_under_12 : forall s,
  In s (strings_up_to alpha_star 12) \/ In s (strings_up_to alpha_under 12) -> model_emphasis s = spec_emphasis s.
Proof. intros s H. apply str_eqb_eq. exact (star_under_up_to_12 s H). Qed.
Print Assumptions C06_bounded_star_under_12.

(* UNBOUNDED, end to end through the inline phase, for the simplest emphasis: the text "*w*", "_w_", "**w**" or "__w__"
   whose inside w is free of trigger characters and begins and ends with a character that is neither white space nor
   punctuation tokenizes to exactly one Emphasis (Strong for the doubled forms) holding w as raw text, and renders as
   <em>w</em> / <strong>w</strong> - for every w of any length: the delimiter scanner builds the two delimiter runs, the
   first can only open and the second only close (flanking), process_emphasis pairs them, every other span finder finds
   nothing, the candidate tokenizer nests the raw text inside the one match (Proofs/EmphSimple.v). *)
From Mistletoe Require Import Model.Tree Model.Inline Model.HtmlRenderer Model.Parser Proofs.EmphSimple.
Theorem C06_simple_emphasis : forall types fn o ch (double : bool) w,
  (ch = 42 \/ ch = 95)%Z -> emph_word w = true -> emph_spans types = true ->
  let run := if double then [ch; ch] else [ch] in
  let tag := if double then $"strong" else $"em" in
  tokenize_inner types fn (run ++ w ++ run) = [if double then Strong [ch] [RawText w] else Emphasis [ch] [RawText w]] /\
  serialize (flat_map (render o false false) (tokenize_inner types fn (run ++ w ++ run))) =
    $"<" ++ tag ++ $">" ++ escape_html_text o w ++ $"</" ++ tag ++ $">".
Proof. exact simple_emphasis. Qed.
Print Assumptions C06_simple_emphasis.

Theorem C06_simple_emphasis_hypotheses :
  forallb (fun c => emph_spans (cfg_span c)) [cfg_html; cfg_html_nohtml; cfg_markdown; cfg_latex; cfg_mathjax; cfg_default] = true /\
  (emph_word ($"really") = true /\ emph_word ($"two words, or 3") = true /\ emph_word ($"é") = true /\
   emph_word ($" x") = false /\ emph_word ($"x.") = false /\ emph_word ($"a*b") = false).
Proof. split; [exact emph_configs|exact emph_words]. Qed.
Print Assumptions C06_simple_emphasis_hypotheses.

(* The same pair of runs inside a sentence: text before and after it, any length.  The text before ends with
   (and the text after starts with) whitespace or punctuation, or is empty, so the flanking of the two runs is
   the same for `*` and `_`; neither contains a trigger character (Proofs/EmphSentence.v). *)
From Mistletoe Require Import Proofs.PlainProse Proofs.EmphSentence.
Theorem C06_emphasis_in_sentence : forall types fn o ch (double : bool) pre w post,
  (ch = 42 \/ ch = 95)%Z -> emph_word w = true -> plain_text pre = true -> plain_text post = true ->
  edge_pre pre = true -> edge_post post = true -> emph_spans types = true ->
  let run := if double then [ch; ch] else [ch] in
  let tag := if double then $"strong" else $"em" in
  let s := pre ++ run ++ w ++ run ++ post in
  tokenize_inner types fn s = raw_if pre ++ [if double then Strong [ch] [RawText w] else Emphasis [ch] [RawText w]] ++ raw_if post /\
  serialize (flat_map (render o false false) (tokenize_inner types fn s)) =
    escape_html_text o pre ++ $"<" ++ tag ++ $">" ++ escape_html_text o w ++ $"</" ++ tag ++ $">" ++ escape_html_text o post.
Proof. exact emphasis_in_sentence. Qed.
Print Assumptions C06_emphasis_in_sentence.

Theorem C06_emphasis_in_sentence_hypotheses :
  let pre := $"this is " in let post := $", and (more) follows" in
  plain_text pre = true /\ plain_text post = true /\ edge_pre pre = true /\ edge_post post = true /\ emph_word ($"really so") = true /\
  edge_post ($"x") = false /\ edge_pre ($"x") = false.
Proof. exact sentence_instance. Qed.
Print Assumptions C06_emphasis_in_sentence_hypotheses.

(* The model's flanking predicates and closed_by are the functions of core_tokens.py: Gen/GenCore.v is written
   from the source text on every run (harness/gen/gen_core.py, Python ast, fails closed), and the hand-written
   definitions the theorems above speak about are equal to it on every argument (Proofs/CoreRegen.v). *)
From Mistletoe Require Import Gen.GenCore Proofs.CoreRegen.
Theorem C06_flanking_is_the_source :
  (forall a b s, g_is_opener a b s = is_opener a b s /\ g_is_closer a b s = is_closer a b s /\
                 g_is_left_delimiter a b s = is_left_delimiter a b s /\ g_is_right_delimiter a b s = is_right_delimiter a b s) /\
  (forall i s p, g_preceded_by i s p = preceded_by i s p /\ g_succeeded_by i s p = succeeded_by i s p) /\
  (forall s i c, g_follows s i c = follows s i c) /\ (forall c, g_is_control_char c = is_control_char c) /\
  (forall o c, g_closed_by o c = closed_by o c).
Proof. exact core_functions_regenerated. Qed.
Print Assumptions C06_flanking_is_the_source.

(* SOUNDNESS FOR EVERY TEXT without backslash, backtick and completed links (Proofs/EmphSound.v): each emphasis the inline
   scanner finds pairs a maximal run of * or _ that can open (is_opener: the specification's left-flanking rules, proved
   above; the source's function, proved above) with a later-processed run that can close, of the same character, not
   excluded by the rule of three on the ORIGINAL run lengths (closed_by), and the emphasis starts inside the opening run
   and ends inside the closing run.  By invariants of the two loops: the scanner's stack holds the delimiters of the
   maximal runs of the text; every delimiter process_emphasis works on is what is left of one of them. *)
From Mistletoe Require Import Proofs.InertProse Proofs.EmphSound.
Theorem C06_emphasis_sound : forall s,
  mem 92 s = false -> mem 96 s = false -> (forall i, 0 <= i < slen s -> char_at s i = 93 -> follows s i 40 = false)%Z ->
  forall m, In m (fst (find_core_tokens s [])) ->
  exists a b a' b', run_at s a b /\ run_at s a' b' /\ is_opener a b s = true /\ is_closer a' b' s = true /\
                    char_at s a = char_at s a' /\ closed_by (new_delim a b s) (new_delim a' b' s) = true /\
                    (a <= m_start m /\ m_start m < b /\ a' < m_end m /\ m_end m <= b')%Z.
Proof. exact emphasis_sound. Qed.
Print Assumptions C06_emphasis_sound.

(* ... and for EVERY delimiter stack handed to process_emphasis (any stack bottom): the emitted matches pair original
   delimiters that may be paired *)
Theorem C06_process_emphasis_sound : forall s ds0 fuel lowest ob curr ds ms, (-1 <= lowest)%Z ->
  stack_ok ds0 ds -> Forall (match_ok ds0) ms -> curr_ok ds curr ->
  stack_ok ds0 (fst (emph_loop fuel s lowest ob curr ds ms)) /\ Forall (match_ok ds0) (snd (emph_loop fuel s lowest ob curr ds ms)).
Proof. exact emph_loop_sound. Qed.
Print Assumptions C06_process_emphasis_sound.

Theorem C06_emphasis_sound_hypotheses :
  let s := $"*a **b** c* and _d_ [x] y*" in
  mem 92 s = false /\ mem 96 s = false /\ no_link_paren s = true /\
  map (fun m => (m_start m, m_end m)) (fst (find_core_tokens s [])) = [(3, 8); (0, 11); (16, 19)]%Z.
Proof. exact sound_instance. Qed.
Print Assumptions C06_emphasis_sound_hypotheses.

(* ANY NUMBER of emphasised phrases (Proofs/EmphPairs.v, EmphPhrases.v, ChainTokens.v): the pairing itself - on a delimiter stack
   that is a sequence of n pairs opener, closer (the opener a run that can only open, the closer a run of the same character and
   length, one or two, that can only close) process_emphasis matches every closer with the opener before it, in order, and leaves
   nothing, for every n (induction over the code's loop) ... *)
From Mistletoe Require Import Proofs.EmphPairs Proofs.EmphPhrases.
Theorem C06_sequential_pairs : forall s pairs ms, Forall pair_ok pairs -> (length pairs <= 3 * length s + 3)%nat ->
  process_emphasis s None (flat pairs) ms = ([], ms ++ map (match_of s) pairs).
Proof. exact sequential_pairs. Qed.
Print Assumptions C06_sequential_pairs.

(* ... and end to end: the text  t0 R1 w1 R1 t1 ... Rn wn Rn tn  (every Ri a run of one or two * or _, every wi free of trigger
   characters and beginning and ending with a character that is neither white space nor punctuation, every ti non-empty trigger-free
   text that begins and ends with white space or punctuation, t0 empty or ending so) tokenizes to t0, then for every phrase one
   Emphasis / Strong holding wi followed by the text ti - scanner, flanking of all 2n runs, the pairing, every span finder, the
   candidate tokenizer on n candidates that parse their content - for every n *)
Theorem C06_emphasis_phrases : forall types fn t0 ps,
  emph_spans types = true -> sentence_ok t0 ps = true ->
  tokenize_inner types fn (t0 ++ body ps) = raw_if t0 ++ phrase_toks ps.
Proof. exact emphasis_phrases. Qed.
Print Assumptions C06_emphasis_phrases.

Theorem C06_emphasis_phrases_hypotheses :
  let ps : list phrase := [(42%Z, 0%nat, $"one", $" and "); (95%Z, 1%nat, $"two words", $", then "); (42%Z, 1%nat, $"3", $".")] in
  sentence_ok ($"Say ") ps = true /\ body ps = $"*one* and __two words__, then **3**." /\
  sentence_ok ($"Say ") [(42%Z, 0%nat, $"one", $"and")] = false.
Proof. exact phrases_instance. Qed.
Print Assumptions C06_emphasis_phrases_hypotheses.

(* NESTED emphasis (Proofs/NestedEmph.v): an emphasised phrase whose content is itself a sentence with ANY NUMBER of emphasised phrases -
   pre, a run R of one or two * or _, the text h (beginning with a letter-like character, ending in white space or punctuation), the
   inner phrases, the text z (ending in a letter-like character), R again, post.  The scanner leaves O, o1, c1, ..., on, cn, C on the
   delimiter stack; process_emphasis matches every inner closer with the opener next to it and then the outer pair (nested_pairs: by
   induction on the number of inner pairs); the candidates arrive inner-first, the stable sort puts the outer one in front, the span
   tokenizer nests the inner chain in its parse group (tokenize_nested); the tokens are ONE Emphasis / Strong holding h, the inner
   phrases with the text between them, z *)
From Mistletoe Require Import Proofs.NestedEmph.
Theorem C06_nested_emphasis : forall types fn CH KK pre h ps z post,
  emph_spans types = true -> nest_ok CH KK pre h ps z post = true ->
  Inline.tokenize_inner types fn (nest_text CH KK pre h ps z post) = EmphSentence.raw_if pre ++ [nest_of CH KK h ps z] ++ EmphSentence.raw_if post.
Proof. exact nested_emphasis. Qed.
Print Assumptions C06_nested_emphasis.

Theorem C06_nested_pairs : forall s O C pairs ms, pair_ok (O, C) -> Forall pair_ok pairs -> (S (length pairs) <= 3 * length s + 3)%nat ->
  CoreTokens.process_emphasis s None (O :: flat pairs ++ [C]) ms = ([], ms ++ map (match_of s) pairs ++ [match_of s (O, C)]).
Proof. exact nested_pairs. Qed.
Print Assumptions C06_nested_pairs.

Theorem C06_nested_emphasis_instance :
  let ps := [(95, 0%nat, $"two", $" and "); (42, 1%nat, $"three words", $", ")]%Z in
  nest_ok 42 0 ($"Say ") ($"one ") ps ($"four") ($".") = true /\
  nest_text 42 0 ($"Say ") ($"one ") ps ($"four") ($".") = $"Say *one _two_ and **three words**, four*." /\
  nest_of 42 0 ($"one ") ps ($"four") =
    Emphasis [42%Z] [RawText ($"one "); Emphasis [95%Z] [RawText ($"two")]; RawText ($" and "); Strong [42%Z] [RawText ($"three words")]; RawText ($", four")] /\
  nest_ok 42 0 ($"Say ") ($"one") ps ($"four") ($".") = false.
Proof. exact nested_instance. Qed.
Print Assumptions C06_nested_emphasis_instance.

(* EMPHASIS INSIDE A LINK'S TEXT: when a "]" closes a link, process_emphasis runs with the bracket as the bottom of the stack.  Every pair of
   runs above the bracket is matched, in order, the bracket itself is never looked at, and nothing of the stack from the bracket up is
   left (Proofs/LinkEmph.v: emph_loop_link, by induction on the number of pairs); with it the whole sentence theorem - a link whose
   text holds emphasised phrases tokenizes to ONE Link holding the phrases (C03_link_with_emphasis) *)
From Mistletoe Require Import Proofs.LinkEmph.
Theorem C06_emphasis_above_a_bracket : forall s B pairs ms,
  CoreTokens.d_close B = false -> Forall pair_ok pairs -> (length pairs <= 3 * length s + 3)%nat ->
  CoreTokens.process_emphasis s (Some 0%Z) (B :: flat pairs) ms = ([], ms ++ map (match_of s) pairs).
Proof. intros s B pairs ms HB. apply process_above_bracket; [rewrite HB; apply andb_false_r|exact HB]. Qed.
Print Assumptions C06_emphasis_above_a_bracket.

Theorem C06_link_with_emphasis : forall types fn pre h ps z dest post,
  RefSentence.ref_spans types = true -> elink_ok pre h ps z dest post = true ->
  Inline.tokenize_inner types fn (pre ++ [91%Z] ++ (h ++ EmphPhrases.body ps ++ z) ++ [93%Z; 40%Z] ++ dest ++ [41%Z] ++ post) =
  EmphSentence.raw_if pre ++ [elink_of h ps z dest] ++ EmphSentence.raw_if post.
Proof. exact link_with_emphasis. Qed.
Print Assumptions C06_link_with_emphasis.
