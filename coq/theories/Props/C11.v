(* C11 — results depend only on input and renderer, never on earlier library use.
   PARTIAL.  What is proved is the token-list half: after any history of sessions
   (each renderer used as a context manager, bodies may add custom tokens or end in
   an exception) the active block and span token sets are exactly the defaults.
   The other half - that no scratch state leaks from one parse into the next - is
   built into the model by construction (the parser model is a pure function of
   configuration and text: the class-level scratch attributes are fused into the
   start/read steps, see Model/Block.v), so it is NOT a theorem but an assumption of
   the model; it is what the X-hist correspondence run and the fresh-interpreter
   oracle check on the implementation. *)
From Coq Require Import ZArith List Bool.
From Mistletoe Require Import Model.History Proofs.HistoryP.

Theorem C11_exit_resets : forall h, run h defaults = defaults.
Proof. exact exit_resets. Qed.
Print Assumptions C11_exit_resets.

Theorem C11_one_session_resets : forall st r body, run_op st (Session r body) = defaults.
Proof. exact one_session_resets. Qed.
Print Assumptions C11_one_session_resets.
