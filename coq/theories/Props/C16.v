(* C16 — inline tokenization tiles the source; custom tokens obey precedence.
   ONLY statements, each closed by `exact`, each followed by Print Assumptions.
   Model: Model/SpanTokenizer.v (tied to mistletoe/span_tokenizer.py by the
   X-span correspondence run).  Domain: ALL candidate lists. *)
From Coq Require Import ZArith List Bool Sorting.Sorted.
From Mistletoe Require Import Model.SpanTokenizer Proofs.SpanTiling.
Import ListNotations.
Local Open Scope Z_scope.

(* the inline tokens are in source order, pairwise disjoint and tile [0,len];
   recursively, the children of every parse_inner token tile its parse group *)
Theorem C16_tiling : forall cands len,
  0 <= len -> Forall (wf_cand len) cands -> tiles 0 len (tokenize cands len).
Proof. exact tokenize_tiles. Qed.
Print Assumptions C16_tiling.

Theorem C16_sorted_disjoint : forall cands len,
  0 <= len -> Forall (wf_cand len) cands ->
  StronglySorted (fun a b => oend a <= ostart b) (tokenize cands len) /\
  Forall (fun o => 0 <= ostart o /\ ostart o <= oend o /\ oend o <= len) (tokenize cands len).
Proof.
  intros cands len H0 Hwf. pose proof (tokenize_tiles cands len H0 Hwf) as Ht.
  split; [exact (tiles_sorted _ _ _ Ht)|exact (tiles_bounds _ _ _ Ht)].
Qed.
Print Assumptions C16_sorted_disjoint.

Theorem C16_children_inside : forall cands len,
  0 <= len -> Forall (wf_cand len) cands ->
  Forall children_inside (tokenize cands len).
Proof.
  intros cands len H0 Hwf. pose proof (tokenize_tiles cands len H0 Hwf) as Ht.
  eapply Forall_impl; [exact ok_children_inside|exact (tiles_all_ok _ _ _ Ht)].
Qed.
Print Assumptions C16_children_inside.

(* the source text is recovered exactly *)
Theorem C16_text_recovered : forall (s : list Z) cands,
  Forall (wf_cand (Z.of_nat (length s))) cands ->
  flat_map (flatten s) (tokenize cands (Z.of_nat (length s))) = s.
Proof.
  intros s cands Hwf.
  rewrite (flatten_tiles s 0 (Z.of_nat (length s))).
  - exact (slice_full s).
  - apply Z.le_refl.
  - apply tokenize_tiles; [apply Zle_0_nat|exact Hwf].
Qed.
Print Assumptions C16_text_recovered.

(* no token is invented or duplicated; registration order matters only
   through the stable sort *)
Theorem C16_subset : forall cands len,
  0 <= len -> Forall (wf_cand len) cands ->
  subseq (flat_map ocands (tokenize cands len)) (sort_cands cands).
Proof. exact tokenize_subseq. Qed.
Print Assumptions C16_subset.

Theorem C16_pair_rule : forall x y,
  wfc x -> wfc y -> cs x <= cs y ->
  buffer_rev (sort_cands [x; y]) =
    if ce x <=? cs y then [PT y []; PT x []]
    else if inside_group x y then [PT x (if inner x then [PT y []] else [])]
    else if trailing_region x y then [PT x []]
    else if prec y <=? prec x then [PT x []] else [PT y []].
Proof. exact pair_rule. Qed.
Print Assumptions C16_pair_rule.

Theorem C16_pair_rule_as_stated : forall x y,
  wfc x -> wfc y -> cs x <= cs y -> kf_trailing_region x y = false ->
  buffer_rev (sort_cands [x; y]) = stated_rule x y.
Proof. exact pair_rule_as_stated. Qed.
Print Assumptions C16_pair_rule_as_stated.

(* known finding kf_trailing_region: on this class the code ignores the
   later match whatever its precedence *)
Theorem C16_trailing_region_refuted :
  exists x y, wfc x /\ wfc y /\ cs x <= cs y /\ kf_trailing_region x y = true /\
              buffer_rev (sort_cands [x; y]) <> stated_rule x y.
Proof. exact trailing_region_refuted. Qed.
Print Assumptions C16_trailing_region_refuted.

(* `relation`, which every theorem above rests on, is the function of span_tokenizer.py as the source has it now:
   Gen/GenSpan.v is written from the source text on every run (harness/gen/gen_core.py, fails closed) and the
   model's definition is equal to it on every pair of candidates (Proofs/SpanRegen.v). *)
From Mistletoe Require Import Gen.GenSpan Proofs.SpanRegen.
Theorem C16_relation_is_the_source : forall x y, g_relation x y = rel_code (relation x y).
Proof. exact relation_regenerated. Qed.
Print Assumptions C16_relation_is_the_source.
