(* C19 — the table of contents lists exactly the qualifying headings, in order.
   Model: Model/Contrib.v (toc_headings = what TocRenderer.render_heading appends
   to _headings while the HTML model renders the tree), tied by X-toc. *)
From Coq Require Import ZArith List Bool.
From Mistletoe Require Import Base.Sx Base.PyStr Model.Tree Model.HtmlRenderer Model.Contrib Proofs.Toc.
Import ListNotations.
Local Open Scope Z_scope.

(* the order in which rendering reaches the headings is document order *)
Theorem C19_render_order : forall t, headings_ok t = true -> headings_in_render_order t = doc_order_headings t.
Proof. exact render_order_is_document_order. Qed.
Print Assumptions C19_render_order.

(* one entry per heading of the document, in document order, filtered by the
   configuration (depth, omit_title, arbitrary user filters) *)
Theorem C19_collect : forall cfg filters o t, headings_ok t = true ->
  toc_headings cfg filters o t = filter (qualifies cfg filters) (map (toc_entry o) (doc_order_headings t)).
Proof. exact toc_collect. Qed.
Print Assumptions C19_collect.

Theorem C19_only_qualifying : forall cfg filters o t e, In e (toc_headings cfg filters o t) ->
  (toc_omit_title cfg = true -> fst e <> 1) /\ fst e <= toc_depth cfg /\ forall f, In f filters -> f (snd e) = false.
Proof. exact toc_entries_qualify. Qed.
Print Assumptions C19_only_qualifying.

(* the entry carries the heading's level and, for a plain-word title, exactly its text *)
Theorem C19_plain_text : forall o l c s, 1 <= l <= 6 -> plain_title s = true ->
  toc_entry o (Heading l c [RawText s]) = (l, s) /\ toc_entry o (SetextHeading l c [RawText s]) = (l, s).
Proof. exact toc_entry_plain. Qed.
Print Assumptions C19_plain_text.

(* The nesting of the rebuilt list, PROVED: TocRenderer.toc writes "    " * (level - base) + "- " + title for every
   collected heading and tokenizes the lines (model: Parser.toc_tokens = block_token.tokenize under the HTML token
   sets, with the depth fuel Document would give - proved sufficient).  For EVERY list of headings that forms an
   outline (first heading at the shallowest level, levels never deepen by more than one: outline_okb) with plain
   titles (titles_okb: free of inline trigger characters and tabs, not beginning with a block-marker character, not
   ending in white space), the tokens are exactly ONE list, nested as the forest the outline denotes:
   flatten (forest_of hs) = hs, every item holding its title as a paragraph and its sub-headings as one tight
   sub-list.  Any number of headings, any depth. *)
From Mistletoe Require Import Model.Parser Spec.Outline Proofs.OutlineP Proofs.TocNest.
Local Open Scope Z_scope.

Theorem C19_nesting : forall fn hs, outline_okb hs = true -> titles_okb hs = true ->
  flatten_forest (base_level hs) (forest_of hs) = hs /\
  toc_tokens fn (toc_lines hs) = [List None false (map (Outline.otok 45 1 2 0) (forest_of hs))].
Proof. exact toc_nested. Qed.
Print Assumptions C19_nesting.

Theorem C19_nesting_hypotheses :
  let hs := [(2, $"Intro"); (3, $"Why"); (3, $"How so"); (4, $"Details"); (2, $"Usage"); (3, $"API")] in
  outline_okb hs = true /\ titles_okb hs = true /\
  forest_of hs = [ONode 73 $"ntro" [ONode 87 $"hy" []; ONode 72 $"ow so" [ONode 68 $"etails" []]]; ONode 85 $"sage" [ONode 65 $"PI" []]] /\
  toc_lines hs = [ $"- Intro" ++ [10]; $"    - Why" ++ [10]; $"    - How so" ++ [10]; $"        - Details" ++ [10]; $"- Usage" ++ [10]; $"    - API" ++ [10] ].
Proof. exact toc_instance. Qed.
Print Assumptions C19_nesting_hypotheses.
