(* C19 — the table of contents lists exactly the qualifying headings, in order.
   Model: Model/Contrib.v (toc_headings = what TocRenderer.render_heading appends
   to _headings while the HTML model renders the tree), tied by X-toc. *)
From Coq Require Import ZArith List Bool.
From Mistletoe Require Import Base.Sx Base.PyStr Model.Tree Model.HtmlRenderer Model.Contrib Proofs.Toc.
Import ListNotations.
Local Open Scope Z_scope.

(* the order in which rendering reaches the headings is document order *)
Theorem C19_render_order : forall t, headings_ok t = true -> headings_in_render_order t = doc_order_headings t.
Proof. exact render_order_is_document_order. Qed.
Print Assumptions C19_render_order.

(* one entry per heading of the document, in document order, filtered by the
   configuration (depth, omit_title, arbitrary user filters) *)
Theorem C19_collect : forall cfg filters o t, headings_ok t = true ->
  toc_headings cfg filters o t = filter (qualifies cfg filters) (map (toc_entry o) (doc_order_headings t)).
Proof. exact toc_collect. Qed.
Print Assumptions C19_collect.

Theorem C19_only_qualifying : forall cfg filters o t e, In e (toc_headings cfg filters o t) ->
  (toc_omit_title cfg = true -> fst e <> 1) /\ fst e <= toc_depth cfg /\ forall f, In f filters -> f (snd e) = false.
Proof. exact toc_entries_qualify. Qed.
Print Assumptions C19_only_qualifying.

(* the entry carries the heading's level and, for a plain-word title, exactly its text *)
Theorem C19_plain_text : forall o l c s, 1 <= l <= 6 -> plain_title s = true ->
  toc_entry o (Heading l c [RawText s]) = (l, s) /\ toc_entry o (SetextHeading l c [RawText s]) = (l, s).
Proof. exact toc_entry_plain. Qed.
Print Assumptions C19_plain_text.
