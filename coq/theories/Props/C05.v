(* C05 — blocks separated by a blank line are parsed independently of each other.
   Model: Model/Block.v (dispatch loop and readers).

   PARTIAL.  Proved for every list of lines A, every B, every fuel and every token
   configuration without a BlankLine token: if every top-level block of A is of a
   closed kind (paragraph, setext/ATX heading, thematic break, block quote, table) then
   the blocks of A + blank line + B are the blocks of A followed by the blocks of B
   with every line number (nested ones included) shifted by the lines that precede B.
   C05_stable_blocks_independent extends this: the blocks before A's closed last block may
   also be indented code, fenced code and HTML blocks (a leaf block after which A goes on
   has stopped at a line of A).  C05_any_blocks_independent adds LISTS (a list that was
   ended by a line of A, not by the end of A - the computable flag list_runs_off - cannot
   see what follows A) and lets the parse start in any state: with it every kind of block
   may precede A's last block.  What the theorems take as a computable hypothesis
   (stable_run3) rather than derive is that "A's last block is closed" implies that every
   earlier leaf block / list was ended inside A; the kernel sweep (C05_bounded_pairs, full
   statement, bound stated there) and the oracle on the implementation cover that link.
   The theorems are about the block phase; with no link definitions the inline phase is
   applied to each block's own lines. *)
From Coq Require Import ZArith List Bool.
From Mistletoe Require Import Base.Sx Base.PyStr Base.PyText Gen.GenConfig Model.Tree Model.CoreTokens Model.Block Model.Build
     Model.Parser Proofs.Laws Proofs.Independence Proofs.Independence2 Proofs.IndepP.
Import ListNotations.
Local Open Scope Z_scope.

Theorem C05_closed_blocks_independent : forall types f A B,
  no_blankline_kind types = true ->
  closed_run types (tokenize_block types f) (S (length A)) A 1 (mkPs true) = true ->
  entries (tokenize_block types (S f) (A ++ NL :: B) 1 (mkPs true)) =
  entries (tokenize_block types (S f) A 1 (mkPs true)) ++
  map (shift_pre (Z.of_nat (length A) + 1)) (entries (tokenize_block types (S f) B 1 (mkPs true))).
Proof. exact closed_blocks_independent. Qed.
Print Assumptions C05_closed_blocks_independent.

Theorem C05_stable_blocks_independent : forall types f A B,
  no_blankline_kind types = true ->
  stable_run types (tokenize_block types f) (S (length A)) A 1 (mkPs true) = true ->
  entries (tokenize_block types (S f) (A ++ NL :: B) 1 (mkPs true)) =
  entries (tokenize_block types (S f) A 1 (mkPs true)) ++
  map (shift_pre (Z.of_nat (length A) + 1)) (entries (tokenize_block types (S f) B 1 (mkPs true))).
Proof. exact stable_blocks_independent. Qed.
Print Assumptions C05_stable_blocks_independent.

Theorem C05_any_blocks_independent : forall types f A B st,
  no_blankline_kind types = true ->
  stable_run3 types (tokenize_block types f) (S (length A)) A 1 st = true ->
  let '(esA, _, stA) := tokenize_block types (S f) A 1 st in
  entries (tokenize_block types (S f) (A ++ NL :: B) 1 st) =
  esA ++ map (shift_pre (Z.of_nat (length A) + 1)) (entries (tokenize_block types (S f) B 1 stA)).
Proof. exact any_blocks_independent. Qed.
Print Assumptions C05_any_blocks_independent.

(* line numbers derive from the start line alone: tokenizing the same lines from another start line shifts every number *)
Theorem C05_line_numbers_shift : forall types d f lines ln st,
  tokenize_block types f lines (ln + d) st = shift_res d (tokenize_block types f lines ln st).
Proof. exact tokenize_shift. Qed.
Print Assumptions C05_line_numbers_shift.

Theorem C05_blank_line_skipped :
  (forall types rec m B ln acc lo st, no_blankline_kind types = true ->
     dispatch_loop types rec (S m) (NL :: B) ln acc lo st = dispatch_loop types rec m B (ln + 1) acc true st) /\
  forallb (fun c => no_blankline_kind (cfg_block c)) [cfg_html; cfg_html_nohtml; cfg_latex; cfg_mathjax; cfg_default] = true.
Proof. split; [exact dispatch_nl|exact configs_without_blankline]. Qed.
Print Assumptions C05_blank_line_skipped.

(* the law at full strength (only A's last block closed), whole pipeline incl. the inline phase and the
   line numbers, on every pair from indep_As (781 texts: all strings over {a, newline, -, `, space} up to
   length 4, newline-terminated) x indep_Bs (13 continuations) *)
Theorem C05_bounded_pairs : forall a b,
  In a indep_As -> In b indep_Bs -> independence_premises cfg_html a b = true -> independence_law cfg_html a b = true.
Proof. exact bounded_pairs. Qed.
Print Assumptions C05_bounded_pairs.

(* The law in the property's own terms: A's LAST block is closed (a paragraph, heading, thematic break, quote or
   table).  The flags of C05_any_blocks_independent then follow for every code, fence and HTML block of A (one
   after which only blank lines remained would itself be A's last block: a line of white space starts no block -
   the `needs a non-space character` analysis of the regex engine on the regenerated patterns).  What remains as a
   computable side condition (stable_run4): no top-level block of A is a link-definition block (the property
   excludes definitions), and every top-level LIST of A is ended by a line of A. *)
From Mistletoe Require Import Proofs.ClosedLast.
Theorem C05_closed_last_independent : forall types f A B st,
  no_blankline_kind types = true ->
  stable_run4 types (tokenize_block types f) (S (length A)) A 1 st = true ->
  closed_last (entries (tokenize_block types (S f) A 1 st)) = true ->
  let '(esA, _, stA) := tokenize_block types (S f) A 1 st in
  entries (tokenize_block types (S f) (A ++ NL :: B) 1 st) =
  esA ++ map (shift_pre (Z.of_nat (length A) + 1)) (entries (tokenize_block types (S f) B 1 stA)).
Proof. exact closed_last_independent. Qed.
Print Assumptions C05_closed_last_independent.

Theorem C05_closed_last_hypotheses :
  let A := [ $"    code" ++ [10]; [10]; $"```" ++ [10]; $"x" ++ [10]; $"```" ++ [10]; $"<div>" ++ [10]; [10]; $"# h" ++ [10]; $"para" ++ [10] ] in
  stable_run4 block_types_html (tokenize_block block_types_html 5) (S (length A)) A 1 (mkPs true) = true /\
  closed_last (entries (tokenize_block block_types_html 6 A 1 (mkPs true))) = true /\
  length (entries (tokenize_block block_types_html 6 A 1 (mkPs true))) = 5%nat.
Proof. exact closed_last_somewhere. Qed.
Print Assumptions C05_closed_last_hypotheses.

(* a line of white space starts no block, whatever follows it *)
Theorem C05_blank_lines_start_nothing : forall types rec k line rest ln st,
  is_blank line = true -> kind_eqb k BK_BlankLine = false -> start_read types rec k (line :: rest) ln st = None.
Proof. exact BlankLines.start_read_blank. Qed.
Print Assumptions C05_blank_lines_start_nothing.

(* The `start` predicates of the block model are the `start` methods of block_token.py as the source has them now:
   Gen/GenBlockStart.v is written from the source text on every run (harness/gen/gen_blockstart.py, Python ast, fails
   closed); the model's definitions are equal to it on every line, the class attributes Heading.start and
   CodeFence.start and HtmlBlock.start leave behind for read() included (Proofs/BlockStartRegen.v). *)
From Mistletoe Require Import Model.Block Gen.GenBlockStart Proofs.BlockStartRegen.
Theorem C05_block_starts_are_the_source : forall line,
  g_Quote_start line = quote_start line /\ g_Paragraph_start line = paragraph_start line /\
  g_BlockCode_start line = blockcode_start line /\ g_Table_start line = table_start line /\
  g_Footnote_start line = footnote_start line /\ g_ThematicBreak_start line = thematic_start line /\
  g_List_start line = list_start line /\ g_BlankLine_start line = blankline_start line /\
  g_Heading_start line = heading_start line /\ g_CodeFence_start line = codefence_start line /\ g_HtmlBlock_start line = htmlblock_start line.
Proof. exact block_starts_regenerated. Qed.
Print Assumptions C05_block_starts_are_the_source.

(* ... and so are ListItem.parse_marker, ListItem.parse_continuation and List.check_interrupts_paragraph (as a function of
   the line it peeks at): the list readers of the model call exactly what the source defines now. *)
Theorem C05_list_markers_are_the_source : forall line prepend,
  g_ListItem_parse_marker line = parse_marker line /\ g_ListItem_parse_continuation line prepend = parse_continuation line prepend /\
  g_List_check_interrupts_paragraph line = list_interrupts line.
Proof. exact list_markers_regenerated. Qed.
Print Assumptions C05_list_markers_are_the_source.

(* THE PROPERTY'S OWN HYPOTHESES AND NOTHING ELSE.  For lines as Document prepares them (each ends with its only newline:
   `proper`) the flag kept for lists above follows too: a top-level list whose reading ran off the end of A is followed by
   blank lines only (Proofs/ListEnds.v - ListItem.read gives back at most one line, a blank one; the continuation pattern,
   evaluated exactly on a line with any mix of leading spaces and tabs, answers "\n" only for a line of white space), so it
   would be A's last block.  What is left: A's last block is closed, and no top-level block of A is a link-definition block
   (stable_run5 - the property excludes definitions). *)
From Mistletoe Require Import Proofs.ListEnds.
Theorem C05_last_block_closed_independent : forall types f A B st,
  no_blankline_kind types = true -> Forall proper A ->
  stable_run5 types (tokenize_block types f) (S (length A)) A 1 st = true ->
  closed_last (entries (tokenize_block types (S f) A 1 st)) = true ->
  let '(esA, _, stA) := tokenize_block types (S f) A 1 st in
  entries (tokenize_block types (S f) (A ++ NL :: B) 1 st) =
  esA ++ map (shift_pre (Z.of_nat (length A) + 1)) (entries (tokenize_block types (S f) B 1 stA)).
Proof. exact last_block_closed_independent. Qed.
Print Assumptions C05_last_block_closed_independent.

Theorem C05_last_block_closed_hypotheses :
  let A := [ $"- a" ++ [10]; $"- b" ++ [10]; [10]; $"  c" ++ [10]; $"1. x" ++ [10]; $"   - y" ++ [10]; [10]; $"+" ++ [10]; [10]; $"```" ++ [10]; $"z" ++ [10]; $"```" ++ [10]; $"para" ++ [10] ] in
  stable_run5 block_types_html (tokenize_block block_types_html 5) (S (length A)) A 1 (mkPs true) = true /\
  closed_last (entries (tokenize_block block_types_html 6 A 1 (mkPs true))) = true /\
  length (entries (tokenize_block block_types_html 6 A 1 (mkPs true))) = 5%nat.
Proof. exact last_block_closed_somewhere. Qed.
Print Assumptions C05_last_block_closed_hypotheses.

(* a list that ran off the end of the lines is followed by blank lines only *)
Theorem C05_list_ran_off_is_last : forall types rec x X ln st p c st',
  Forall proper (x :: X) -> list_runs_off types rec (S (length (x :: X))) (x :: X) ln None None st = true ->
  start_read types rec BK_List (x :: X) ln st = Some (p, c, st') ->
  has_nonblank (skipn c (x :: X)) = false.
Proof. exact list_ran_off_is_last. Qed.
Print Assumptions C05_list_ran_off_is_last.
