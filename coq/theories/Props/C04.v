(* C04 — quoting or list-indenting any document wraps its parse unchanged.
   Model: Model/Block.v (Quote.read, ListItem.read, the dispatch loop), Model/Build.v, Model/Parser.v.

   QUOTE: proved for every list of tab-free lines, every line length and every fuel, for
   both markers — against the content parsed WITH SETEXT HEADINGS OFF, which is what
   Quote.read does.  The statement at full strength (content = the plain parse of the text)
   is refuted in the model by "Foo\n---" (C04_full_statement_refuted): known finding
   kf_setext_in_quote.  The link definitions and the line numbers are part of the statement.

   LIST: proved for every marker (+ - * and one to nine digits followed by . or )), every
   padding 1-4, every text given as structured tab-free lines (a first line starting with a
   non-space character; further lines either empty or spaces + a character that is not space,
   tab or newline + a body; the last line not blank; parse_sline turns raw lines into this
   form), every fuel and every token configuration that tries List before Paragraph and Table,
   excluding the marker / thematic-break coincidences (hypothesis thematic_start = false):
   the block tokenizer returns exactly one list with one item whose content is the
   tokenization of the text (C04_list_wraps).  The three list patterns regenerated from /repo
   enter by their exact shape (Proofs/ListLaw.v: cont_shape, item_shape, list_shape - a
   changed pattern breaks these reflexivity lemmas) and are evaluated with verified lemmas
   about greedy repetition in the backtracking matcher (Proofs/ReExact.v).  The bounded sweep
   (C04_bounded_list) is kept as a second, independent check through the inline phase. *)
From Coq Require Import ZArith List Bool.
From Mistletoe Require Import Base.Sx Base.PyStr Base.PyText Gen.GenConfig Model.Tree Model.CoreTokens Model.Block Model.Build
     Model.Parser Proofs.Laws Proofs.QuoteLaw Proofs.LawsP Proofs.ListLaw.
Import ListNotations.
Local Open Scope Z_scope.

Theorem C04_quote_wraps : forall types sp ls f ln st,
  quote_first types = true -> ls <> [] -> Forall (ok_line sp) ls ->
  tokenize_block types (S f) (map (qline sp) ls) ln st =
  ([PQuote ln (fst (fst (tokenize_block types f ls ln (mkPs false))))], false, mkPs true).
Proof. exact quote_wraps. Qed.
Print Assumptions C04_quote_wraps.

Theorem C04_quote_wraps_document : forall cfg sp ls,
  quote_first (cfg_block cfg) = true -> ls <> [] -> Forall (ok_line sp) ls ->
  let qs := map (qline sp) ls in
  let es := fst (fst (tokenize_block (cfg_block cfg) (pred (depth_fuel qs)) ls 1 (mkPs false))) in
  let fn := footnotes_of es in
  parse_lines cfg qs =
  (Document [Quote (make_tokens (cfg_span cfg) (cfg_keep_defs cfg) fn es)], fn, 1 :: flat_map (lnums (cfg_keep_defs cfg)) es).
Proof. exact quote_wraps_document. Qed.
Print Assumptions C04_quote_wraps_document.

(* the hypothesis on the configuration holds for every token configuration that is modelled *)
Theorem C04_configs_try_quote_first :
  forallb (fun c => quote_first (cfg_block c)) [cfg_html; cfg_html_nohtml; cfg_markdown; cfg_latex; cfg_mathjax; cfg_default] = true.
Proof. exact configs_try_quote_first. Qed.
Print Assumptions C04_configs_try_quote_first.

Theorem C04_full_statement_refuted :
  exists text, quote_law_premises text = true /\ quote_law cfg_html true [62; 32] text = false /\ quote_law cfg_html false [62; 32] text = true.
Proof. exact full_statement_refuted. Qed.
Print Assumptions C04_full_statement_refuted.

Theorem C04_bounded_list : forall marker pad text,
  In (marker, pad) [([45], 1%nat); ([45], 3%nat); ([49; 46], 2%nat); ([49; 46], 4%nat)] ->
  In text (strings_up_to law_alpha 4) -> list_law_premises marker pad text = true ->
  list_law cfg_html marker pad text = true.
Proof. exact bounded_list_law. Qed.
Print Assumptions C04_bounded_list.

Theorem C04_list_wraps : forall types mk pad c0 body0 rest f ln st,
  list_first types = true -> marker_ok mk -> (1 <= pad <= 4)%nat -> nonspace c0 = true -> mem 10 body0 = false ->
  Forall sline_ok rest -> last_not_blank (SLine 0 c0 body0 :: rest) ->
  let ms := marker_str mk in
  let w := (length ms + pad)%nat in
  let first_line := ms ++ repeat 32 pad ++ c0 :: body0 ++ [10] in
  thematic_start first_line = false ->
  let text := map render_line (SLine 0 c0 body0 :: rest) in
  tokenize_block types (S f) (first_line :: map (embed_line w) rest) ln st =
  let '(es, lo, st') := tokenize_block types f text ln st in
  ([PList ln [PItem ln es ((1 <? nlines (length es)) && lo) 0 (Z.of_nat w) ms]], false, st').
Proof. exact list_wraps. Qed.
Print Assumptions C04_list_wraps.

(* the hypotheses are satisfiable, raw lines are recovered by parse_sline, and every modelled configuration qualifies *)
Theorem C04_list_law_hypotheses :
  forallb (fun c => list_first (cfg_block c)) [cfg_html; cfg_html_nohtml; cfg_markdown; cfg_latex; cfg_mathjax; cfg_default] = true /\
  (forall l sl, parse_sline l = Some sl -> render_line sl = l /\ sline_ok sl) /\
  (let rest := [SBlank; SLine 4 99 $"ode"; SLine 0 62 $" q"] in
   let emb := ($"12)  a b" ++ [10]) :: map (embed_line 5) rest in
   marker_ok (MOrdered $"12" 41) /\ Forall sline_ok rest /\ last_not_blank (SLine 0 97 $" b" :: rest) /\
   nonspace 97 = true /\ thematic_start ($"12)  a b" ++ [10]) = false /\
   emb = [ $"12)  a b" ++ [10]; [10]; $"         code" ++ [10]; $"     > q" ++ [10] ] /\
   map parse_sline [ $"a b" ++ [10]; [10]; $"    code" ++ [10]; $"> q" ++ [10] ] = map Some (SLine 0 97 $" b" :: rest)).
Proof. split; [exact configs_list_first|]. split; [exact parse_sline_sound|exact list_law_instance]. Qed.
Print Assumptions C04_list_law_hypotheses.

(* The `start` predicates of the block model are the `start` methods of block_token.py as the source has them now:
   Gen/GenBlockStart.v is written from the source text on every run (harness/gen/gen_blockstart.py, Python ast, fails
   closed); the model's definitions are equal to it on every line, the class attributes Heading.start and
   CodeFence.start and HtmlBlock.start leave behind for read() included (Proofs/BlockStartRegen.v). *)
From Mistletoe Require Import Model.Block Gen.GenBlockStart Proofs.BlockStartRegen.
Theorem C04_block_starts_are_the_source : forall line,
  g_Quote_start line = quote_start line /\ g_Paragraph_start line = paragraph_start line /\
  g_BlockCode_start line = blockcode_start line /\ g_Table_start line = table_start line /\
  g_Footnote_start line = footnote_start line /\ g_ThematicBreak_start line = thematic_start line /\
  g_List_start line = list_start line /\ g_BlankLine_start line = blankline_start line /\
  g_Heading_start line = heading_start line /\ g_CodeFence_start line = codefence_start line /\ g_HtmlBlock_start line = htmlblock_start line.
Proof. exact block_starts_regenerated. Qed.
Print Assumptions C04_block_starts_are_the_source.

(* ... and so are ListItem.parse_marker, ListItem.parse_continuation and List.check_interrupts_paragraph (as a function of
   the line it peeks at): the list readers of the model call exactly what the source defines now. *)
Theorem C04_list_markers_are_the_source : forall line prepend,
  g_ListItem_parse_marker line = parse_marker line /\ g_ListItem_parse_continuation line prepend = parse_continuation line prepend /\
  g_List_check_interrupts_paragraph line = list_interrupts line.
Proof. exact list_markers_regenerated. Qed.
Print Assumptions C04_list_markers_are_the_source.
