(* C04 — quoting or list-indenting any document wraps its parse unchanged.
   Model: Model/Block.v (Quote.read, ListItem.read, the dispatch loop), Model/Build.v, Model/Parser.v.

   QUOTE: proved for every list of tab-free lines, every line length and every fuel, for
   both markers — against the content parsed WITH SETEXT HEADINGS OFF, which is what
   Quote.read does.  The statement at full strength (content = the plain parse of the text)
   is refuted in the model by "Foo\n---" (C04_full_statement_refuted): known finding
   kf_setext_in_quote.  The link definitions and the line numbers are part of the statement.

   LIST (PARTIAL): kernel-checked on every text over a 9-symbol alphabet up to length 4,
   for the markers "-" and "1." with padding 1-4; beyond the bound the law is decided
   on the implementation by the oracle, the model being tied to it by X-doc. *)
From Coq Require Import ZArith List Bool.
From Mistletoe Require Import Base.Sx Base.PyStr Base.PyText Gen.GenConfig Model.Tree Model.CoreTokens Model.Block Model.Build
     Model.Parser Proofs.Laws Proofs.QuoteLaw Proofs.LawsP.
Import ListNotations.
Local Open Scope Z_scope.

Theorem C04_quote_wraps : forall types sp ls f ln st,
  quote_first types = true -> ls <> [] -> Forall (ok_line sp) ls ->
  tokenize_block types (S f) (map (qline sp) ls) ln st =
  ([PQuote ln (fst (fst (tokenize_block types f ls ln (mkPs false))))], false, mkPs true).
Proof. exact quote_wraps. Qed.
Print Assumptions C04_quote_wraps.

Theorem C04_quote_wraps_document : forall cfg sp ls,
  quote_first (cfg_block cfg) = true -> ls <> [] -> Forall (ok_line sp) ls ->
  let qs := map (qline sp) ls in
  let es := fst (fst (tokenize_block (cfg_block cfg) (pred (depth_fuel qs)) ls 1 (mkPs false))) in
  let fn := footnotes_of es in
  parse_lines cfg qs =
  (Document [Quote (make_tokens (cfg_span cfg) (cfg_keep_defs cfg) fn es)], fn, 1 :: flat_map (lnums (cfg_keep_defs cfg)) es).
Proof. exact quote_wraps_document. Qed.
Print Assumptions C04_quote_wraps_document.

(* the hypothesis on the configuration holds for every token configuration that is modelled *)
Theorem C04_configs_try_quote_first :
  forallb (fun c => quote_first (cfg_block c)) [cfg_html; cfg_html_nohtml; cfg_markdown; cfg_latex; cfg_mathjax; cfg_default] = true.
Proof. exact configs_try_quote_first. Qed.
Print Assumptions C04_configs_try_quote_first.

Theorem C04_full_statement_refuted :
  exists text, quote_law_premises text = true /\ quote_law cfg_html true [62; 32] text = false /\ quote_law cfg_html false [62; 32] text = true.
Proof. exact full_statement_refuted. Qed.
Print Assumptions C04_full_statement_refuted.

Theorem C04_bounded_list : forall marker pad text,
  In (marker, pad) [([45], 1%nat); ([45], 3%nat); ([49; 46], 2%nat); ([49; 46], 4%nat)] ->
  In text (strings_up_to law_alpha 4) -> list_law_premises marker pad text = true ->
  list_law cfg_html marker pad text = true.
Proof. exact bounded_list_law. Qed.
Print Assumptions C04_bounded_list.
