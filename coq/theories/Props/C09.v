(* C09 — Markdown round trip.  What is PROVED here is the renderer half, for all
   token trees: without a line limit the renderer writes the fragment texts
   verbatim, raw blocks verbatim, blank lines and definitions in place, and
   container prefixes exactly in front of the children's lines.  The parse half
   (that this text parses back to the same tree) is decided by the oracle on the
   implementation only (PARTIAL). *)
From Coq Require Import ZArith List Bool.
From Mistletoe Require Import Base.Sx Base.PyStr Model.Tree Model.MarkdownRenderer Proofs.WrapBound Proofs.MdVerbatim.
Import ListNotations.

Theorem C09_plain_lines : forall frs cur, no_nl cur ->
  lines_text (plain_from cur frs) = end_nl (cur ++ concat (map ftext frs)).
Proof. exact plain_verbatim. Qed.
Print Assumptions C09_plain_lines.

Theorem C09_span_verbatim : forall ch,
  lines_text (span_to_lines None ch) = end_nl (concat (map ftext (flat_map frags ch))).
Proof. exact span_verbatim. Qed.
Print Assumptions C09_span_verbatim.

Theorem C09_html_block_verbatim : forall o L c, join NL (block_lines o L (HtmlBlock c)) = c.
Proof. exact html_block_verbatim. Qed.
Print Assumptions C09_html_block_verbatim.

Theorem C09_blank_lines_kept : forall o L, block_lines o L BlankLine = [[]].
Proof. exact blank_line_kept. Qed.
Print Assumptions C09_blank_lines_kept.

Theorem C09_definitions_in_place : forall o L ch,
  block_lines o L (LinkRefDefBlock ch) = flat_map (fun c => span_to_lines L [c]) ch.
Proof. exact definitions_in_place. Qed.
Print Assumptions C09_definitions_in_place.

Theorem C09_prefix_lines : forall first p q lines line,
  In line (prefix_from first p q lines) -> line = [] \/ exists l, In l lines /\ (line = p ++ l \/ line = q ++ l).
Proof. exact prefix_from_lines. Qed.
Print Assumptions C09_prefix_lines.

Theorem C09_prefix_count : forall first p q lines, length (prefix_from first p q lines) = length lines.
Proof. exact prefix_from_length. Qed.
Print Assumptions C09_prefix_count.
