(* C09 — Markdown round trip.  What is PROVED here is the renderer half, for all
   token trees: without a line limit the renderer writes the fragment texts
   verbatim, raw blocks verbatim, blank lines and definitions in place, and
   container prefixes exactly in front of the children's lines.  The parse half
   (that this text parses back to the same tree) is decided by the oracle on the
   implementation only (PARTIAL). *)
From Coq Require Import ZArith List Bool.
From Mistletoe Require Import Base.Sx Base.PyStr Model.Tree Model.MarkdownRenderer Proofs.WrapBound Proofs.MdVerbatim.
Import ListNotations.

Theorem C09_plain_lines : forall frs cur, no_nl cur ->
  lines_text (plain_from cur frs) = end_nl (cur ++ concat (map ftext frs)).
Proof. exact plain_verbatim. Qed.
Print Assumptions C09_plain_lines.

Theorem C09_span_verbatim : forall ch,
  lines_text (span_to_lines None ch) = end_nl (concat (map ftext (flat_map frags ch))).
Proof. exact span_verbatim. Qed.
Print Assumptions C09_span_verbatim.

Theorem C09_html_block_verbatim : forall o L c, join NL (block_lines o L (HtmlBlock c)) = c.
Proof. exact html_block_verbatim. Qed.
Print Assumptions C09_html_block_verbatim.

Theorem C09_blank_lines_kept : forall o L, block_lines o L BlankLine = [[]].
Proof. exact blank_line_kept. Qed.
Print Assumptions C09_blank_lines_kept.

Theorem C09_definitions_in_place : forall o L ch,
  block_lines o L (LinkRefDefBlock ch) = flat_map (fun c => span_to_lines L [c]) ch.
Proof. exact definitions_in_place. Qed.
Print Assumptions C09_definitions_in_place.

Theorem C09_prefix_lines : forall first p q lines line,
  In line (prefix_from first p q lines) -> line = [] \/ exists l, In l lines /\ (line = p ++ l \/ line = q ++ l).
Proof. exact prefix_from_lines. Qed.
Print Assumptions C09_prefix_lines.

Theorem C09_prefix_count : forall first p q lines, length (prefix_from first p q lines) = length lines.
Proof. exact prefix_from_length. Qed.
Print Assumptions C09_prefix_count.

(* The whole round trip, PROVED on the fragment of Spec/Fragment.v (trees of any size and depth built from
   plain paragraphs of one or more lines, ATX headings, fenced code blocks, block quotes and lists of one or more items, each followed by a blank line or directly by the next (same bullet, or same delimiter with any numbers; an item followed by a blank line or holding two blocks is loose, the list is tight only if no item is)): parsing the spelled
   text with the Markdown renderer's token sets (Document(lines), with the fuel Document really gives) and
   rendering the tree without a line limit writes back exactly the text - so the output has the same
   meaning, is a fixed point, and the normal form is reproduced exactly.  There is no side condition: the two the
   theorem first needed (a fenced block is not empty; its lines do not begin with white space) were defects of the
   renderer, found as the hypotheses the proof forced, and are repaired (fix: 50fc060, 1070095) -
   C09_fragment_round_trip_former_findings evaluates the two inputs. *)
From Mistletoe Require Import Model.Parser Spec.Fragment Proofs.ListLaw Proofs.FragmentP Proofs.RoundTrip.
Local Open Scope Z_scope.

Theorem C09_fragment_round_trip : forall t, wf_b t = true ->
  render_md (mkMopts false) None (fst (fst (parse_lines cfg_markdown (text_of (spell t))))) = concat (text_of (spell t)).
Proof. exact fragment_round_trip. Qed.
Print Assumptions C09_fragment_round_trip.

Theorem C09_fragment_round_trip_hypotheses :
  let fence := FFence 96 3 [SLine 2 120 $" = 1"; SBlank; SLine 0 35 $" not a heading"] in
  let t1 := FItem (MBullet 45) 2 [FPara 97 $"b" [ $"second line" ]; FQuote [FHead 3 99 $"d"; FItem (MOrdered $"12" 41) 1 [FPara 101 [] []; fence]; FPara 103 [] []]; FPara 102 [] []] in
  let t2 := FQuote [FQuote [FPara 97 [] []]; fence; FPara 98 [] []; t1] in
  wf_b t2 = true /\ depth t2 = 4%nat.
Proof. exact round_trip_instance. Qed.
Print Assumptions C09_fragment_round_trip_hypotheses.

Theorem C09_fragment_round_trip_former_findings :
  let empty := FFence 126 3 [] in
  let ws := FFence 96 3 [SLine 1 12288 []] in
  (wf_b empty = true /\ concat (text_of (spell empty)) = $"~~~" ++ [10] ++ $"~~~" ++ [10] /\
   render_md (mkMopts false) None (fst (fst (parse_lines cfg_markdown (text_of (spell empty))))) = $"~~~" ++ [10] ++ $"~~~" ++ [10]) /\
  (wf_b ws = true /\ concat (text_of (spell ws)) = $"```" ++ [10; 32; 12288; 10] ++ $"```" ++ [10] /\
   render_md (mkMopts false) None (fst (fst (parse_lines cfg_markdown (text_of (spell ws))))) = $"```" ++ [10; 32; 12288; 10] ++ $"```" ++ [10]).
Proof. exact round_trip_former_findings. Qed.
Print Assumptions C09_fragment_round_trip_former_findings.

(* ... and with the text given as one string, as MarkdownRenderer().render(Document(text)) takes it *)
From Mistletoe Require Import Proofs.FragmentHtml.
Theorem C09_fragment_round_trip_text : forall t, wf_b t = true -> one_string_ok t = true ->
  render_md (mkMopts false) None (fst (fst (parse_document cfg_markdown (concat (text_of (spell t)))))) = concat (text_of (spell t)).
Proof. exact fragment_round_trip_text. Qed.
Print Assumptions C09_fragment_round_trip_text.

(* ... and for whole documents of several such blocks separated by blank lines *)
Theorem C09_fragment_seq_round_trip : forall ts, seq_ok_b ts = true -> forallb wf_b ts = true ->
  render_md (mkMopts false) None (fst (fst (parse_lines cfg_markdown (text_of (join_blank (map spell ts)))))) = concat (text_of (join_blank (map spell ts))).
Proof. exact fragment_seq_round_trip. Qed.
Print Assumptions C09_fragment_seq_round_trip.

(* ... and on the outline lists of Spec/Outline.v (tight nested bullet lists, one item per line, any size and depth; any
   bullet, 1-4 spaces after it, sub-lists indented 0-3 columns inside their item, the whole list indented 0-3): the
   round trip is the identity *)
From Mistletoe Require Import Proofs.IndentLaw Spec.Outline Proofs.OutlineP Proofs.OutlineMore.
Theorem C09_outline_round_trip : forall b pad sub k ns,
  bullet_ok b -> (1 <= pad <= 4)%nat -> (sub <= 3)%nat -> (k <= 3)%nat -> ns <> [] -> forallb owf ns = true ->
  render_md (mkMopts false) None (fst (fst (parse_lines cfg_markdown (text_of (Outline.oforest b pad sub k ns))))) =
  concat (text_of (Outline.oforest b pad sub k ns)).
Proof. intros b pad sub k ns Hb Hp Hs. exact (outline_round_trip b pad sub Hb Hp Hs k ns). Qed.
Print Assumptions C09_outline_round_trip.

(* WITH normalize_whitespace=True, on the trees of quotes and lists over paragraphs of plain words (Proofs/ReflowTree.v, any depth, any markers
   and paddings): the renderer writes norm t - the same tree with every list marker followed by ONE space; that text is in the fragment
   again (so it parses to norm t: C03), its HTML is EXACTLY the original's (the padding of a marker is not seen in the HTML - same
   meaning), and normalizing the normalized tree changes nothing (fixed point, byte for byte: norm t is in normal form) *)
From Mistletoe Require Import Proofs.ReflowTree.
Theorem C09_normalize_whitespace_round_trip : forall o t, wwf t = true ->
  render_md (mkMopts true) None (fst (fst (parse_lines cfg_markdown (text_of (spell (to_f t)))))) = concat (text_of (spell (to_f (norm t)))) /\
  wwf (norm t) = true /\ wf_b (to_f (norm t)) = true /\ html_f o false (to_f (norm t)) = html_f o false (to_f t) /\ norm (norm t) = norm t.
Proof. exact normalize_round_trip. Qed.
Print Assumptions C09_normalize_whitespace_round_trip.

Theorem C09_normalize_whitespace_instance :
  let t := WItem (MOrdered $"12" 41) 3 [WPara [[ $"consectetur"; $"adipiscing" ]; [ $"elit" ]]; WQuote [WItem (MBullet 42) 4 [WPara [[ $"sed"; $"do"; $"eiusmod" ]]]]] in
  wwf t = true /\
  text_of (spell (to_f t)) = [ $"12)   consectetur adipiscing" ++ [10%Z]; $"      elit" ++ [10%Z]; [10%Z]; $"      > *    sed do eiusmod" ++ [10%Z] ] /\
  text_of (spell (to_f (norm t))) = [ $"12) consectetur adipiscing" ++ [10%Z]; $"    elit" ++ [10%Z]; [10%Z]; $"    > * sed do eiusmod" ++ [10%Z] ].
Proof. vm_compute. repeat split; reflexivity. Qed.
Print Assumptions C09_normalize_whitespace_instance.
