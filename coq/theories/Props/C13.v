(* C13 — every block token reports the line on which it starts.
   Model: Model/Block.v; the dispatch loop captures `ln` before read(), containers
   hand a line-aligned buffer to the nested loop.  PARTIAL: what is proved is that
   (1) every entry of a buffer is exactly what the readers produce when started on
   the suffix of that buffer that begins at the entry's recorded line, (2) line
   numbers strictly increase along a buffer, (3) a quote's content buffer has one
   line per consumed line and is numbered from the quote's own line, (4) a list
   item's buffer is a prefix-aligned copy of the lines it consumed.  That these
   facts compose to "the recorded number is the index of the input line holding the
   block's first character" for nested blocks is decided by the generator oracle - and is
   PROVED on the fragment of Spec/Fragment.v (C13_fragment_line_numbers): there every block,
   at any depth, reports ln0 + the index of the line of the spelled text on which its first
   character was written (pre_of / pre_seq place a block `height` + 1 lines after its
   predecessor, exactly as spell / join_blank place its lines). *)
From Coq Require Import ZArith List Bool.
From Mistletoe Require Import Base.Sx Base.PyStr Gen.GenConfig Model.CoreTokens Model.Block Proofs.LineTags Proofs.ListLaw Spec.Fragment Proofs.FragmentP.
Import ListNotations.

Theorem C13_entries_start_at_their_line : forall types rec n lines ln0 st es lo st',
  dispatch_loop types rec n lines ln0 [] false st = (es, lo, st') -> Forall (produced_at types rec lines ln0) es.
Proof. exact entries_start_at_their_line. Qed.
Print Assumptions C13_entries_start_at_their_line.

Theorem C13_line_numbers_increase : forall types rec n lines ln0 st es lo st',
  dispatch_loop types rec n lines ln0 [] false st = (es, lo, st') -> increasing ln0 (map pre_ln es).
Proof. exact line_numbers_increase. Qed.
Print Assumptions C13_line_numbers_increase.

Theorem C13_quote_aligned : forall types after buf n, quote_lines types after = (buf, n) -> length buf = n.
Proof. exact quote_aligned. Qed.
Print Assumptions C13_quote_aligned.

Theorem C13_item_aligned : forall types leader after prepend buf_rev taken newlines buf n nm,
  (newlines <= length buf_rev)%nat -> (1 <= taken)%nat ->
  item_loop types leader after prepend buf_rev taken newlines = (buf, n, nm) ->
  (length buf + taken <= n + length buf_rev)%nat /\ (n <= taken + length after)%nat.
Proof. exact item_loop_aligned. Qed.
Print Assumptions C13_item_aligned.

(* on the fragment (plain paragraphs, quotes, lists of one or more items, each followed by a blank line or directly by the next (same bullet, or same delimiter with any numbers; an item followed by a blank line or holding two blocks is loose, the list is tight only if no item is); any size and depth): the line numbers of ALL blocks, nested
   ones included, are the positions at which the generator-side function `spell` wrote them *)
Theorem C13_fragment_line_numbers : forall types t f ln st,
  fragment_config types = true -> wf_b t = true -> (depth t <= f)%nat ->
  fst (fst (tokenize_block types (S f) (text_of (spell t)) ln st)) = [pre_of false ln t].
Proof. intros. rewrite fragment_tree_cfg by assumption. reflexivity. Qed.
Print Assumptions C13_fragment_line_numbers.

(* where `spell` puts the lines of the k-th of several siblings: after the lines of its predecessors and one blank line each *)
Theorem C13_fragment_sibling_offset : forall (t : ftree) (r : list ftree),
  spell_seq (t :: r) = spell t ++ match r with [] => [] | _ => SBlank :: spell_seq r end.
Proof. intros t [|t2 r]; unfold spell_seq; cbn [map join_blank flat_map]; [rewrite app_nil_r|]; reflexivity. Qed.
Print Assumptions C13_fragment_sibling_offset.

(* on the outline lists of Spec/Outline.v (tight nested bullet lists, one item per line; any size and depth): every list,
   item and title paragraph reports the line its marker line was written on - an item `osize x` lines after its
   predecessor x (one line per node of x's subtree), a sub-list one line below its item *)
From Mistletoe Require Import Proofs.IndentLaw Spec.Outline Proofs.OutlineP.
Theorem C13_outline_line_numbers : forall b pad sub types f ns ln st k,
  bullet_ok b -> (1 <= pad <= 4)%nat -> (sub <= 3)%nat -> list_first types = true -> In BK_Paragraph types ->
  ns <> [] -> Forall (fun n => (odepth n <= f)%nat /\ owf n = true) ns -> (k <= 3)%nat ->
  fst (fst (tokenize_block types (S f) (text_of (Outline.oforest b pad sub k ns)) ln st)) = [PList ln (Outline.oitems b pad sub k ln ns)].
Proof. intros b pad sub types f ns ln st k Hb Hp Hs Hl Hpar Hne Hok Hk. rewrite (outline_tokenizes b pad sub Hb Hp Hs types Hl Hpar f ns ln st Hne Hok k Hk). reflexivity. Qed.
Print Assumptions C13_outline_line_numbers.

Theorem C13_outline_one_line_per_node : forall b pad sub f n k, (1 <= pad <= 4)%nat -> (sub <= 3)%nat -> (odepth n <= f)%nat ->
  length (Outline.olines b pad sub k n) = osize n.
Proof. intros b pad sub f n k Hp Hs Hd. exact (olines_length b pad sub Hp Hs f n k Hd). Qed.
Print Assumptions C13_outline_one_line_per_node.
