(* C13 — every block token reports the line on which it starts.
   Model: Model/Block.v; the dispatch loop captures `ln` before read(), containers
   hand a line-aligned buffer to the nested loop.  PARTIAL: what is proved is that
   (1) every entry of a buffer is exactly what the readers produce when started on
   the suffix of that buffer that begins at the entry's recorded line, (2) line
   numbers strictly increase along a buffer, (3) a quote's content buffer has one
   line per consumed line and is numbered from the quote's own line, (4) a list
   item's buffer is a prefix-aligned copy of the lines it consumed.  That these
   facts compose to "the recorded number is the index of the input line holding the
   block's first character" for nested blocks is decided by the generator oracle. *)
From Coq Require Import ZArith List Bool.
From Mistletoe Require Import Base.Sx Base.PyStr Gen.GenConfig Model.CoreTokens Model.Block Proofs.LineTags.
Import ListNotations.

Theorem C13_entries_start_at_their_line : forall types rec n lines ln0 st es lo st',
  dispatch_loop types rec n lines ln0 [] false st = (es, lo, st') -> Forall (produced_at types rec lines ln0) es.
Proof. exact entries_start_at_their_line. Qed.
Print Assumptions C13_entries_start_at_their_line.

Theorem C13_line_numbers_increase : forall types rec n lines ln0 st es lo st',
  dispatch_loop types rec n lines ln0 [] false st = (es, lo, st') -> increasing ln0 (map pre_ln es).
Proof. exact line_numbers_increase. Qed.
Print Assumptions C13_line_numbers_increase.

Theorem C13_quote_aligned : forall types after buf n, quote_lines types after = (buf, n) -> length buf = n.
Proof. exact quote_aligned. Qed.
Print Assumptions C13_quote_aligned.

Theorem C13_item_aligned : forall types leader after prepend buf_rev taken newlines buf n nm,
  (newlines <= length buf_rev)%nat -> (1 <= taken)%nat ->
  item_loop types leader after prepend buf_rev taken newlines = (buf, n, nm) ->
  (length buf + taken <= n + length buf_rev)%nat /\ (n <= taken + length after)%nat.
Proof. exact item_loop_aligned. Qed.
Print Assumptions C13_item_aligned.
