(* C03 — documents built from Markdown constructs parse to the tree they were built from.
   Model: the whole pipeline; yardstick: Spec/Spell.v (tree grammar, spellings, HTML of a tree),
   which does not use the parser model.

   UNBOUNDED on a fragment (C03_fragment_parses): for every tree - any number of blocks, any
   depth - built from plain paragraphs of one or more lines, ATX headings, fenced code blocks (` or ~ fences of any length, any content lines),
   block quotes and lists of one or more items separated by blank lines (same bullet, or same delimiter with any numbers; the items but the last loose) (markers
   + - * and 1-9 digits with . or ), padding 1-4), siblings separated by one blank line, two
   lists never being adjacent siblings, the block tokenizer returns on the spelled text exactly
   the pre-token tree written from the tree: kinds, nesting, the line every block starts on,
   list attributes, loose flags.  wf_b is a computable well-formedness predicate (plain lines,
   tab-free, no marker / thematic-break coincidence).  The proof composes the laws of C04, C05
   and C14.  Beyond the fragment: PARTIAL.  Kernel-checked: for every tree of a finite family
   (314 one-block documents with containers nested two deep - quotes, tight bullet lists,
   fences/headings/breaks inside them - under all 48 spelling choices; 4356 two-block
   documents under 6 choices; adjacent same-marker lists excluded) the model renders the
   spelled text to exactly the HTML written from the tree.  The property's full grammar is
   decided on the implementation by the generator oracle, the model tied to it by X-doc. *)
From Coq Require Import ZArith List Bool.
From Mistletoe Require Import Base.Sx Base.PyStr Gen.GenConfig Model.Tree Model.CoreTokens Model.Block Model.Build Proofs.PlainProse Model.HtmlRenderer Model.Parser Spec.Spell Proofs.SpellLaw Proofs.SpellP
     Proofs.ListLaw Proofs.ProseLines Spec.Fragment Proofs.FragmentP.
Import ListNotations.
Local Open Scope Z_scope.

Theorem C03_bounded_trees : forall c d,
  (In d docs1 /\ In c all_choices) \/ (In d docs2 /\ In c few_choices) -> in_family d = true ->
  markdown_html (mkHopts false false) true (spell_doc c d) = html_doc d.
Proof. exact bounded_trees. Qed.
Print Assumptions C03_bounded_trees.

Theorem C03_family_is_not_vacuous :
  let d := [SQuote [SPara $"e"; SBullet [(SPara $"a", Some (SFence [ $"d" ])); (SFence [ $"c" ], None)]]] in
  in_family d = true /\
  spell_doc (mkCh 42 3 false true 126 true) d =
    $">e" ++ [10] ++ $">" ++ [10] ++ $">*   a" ++ [10] ++ $">     ~~~" ++ [10] ++ $">     d" ++ [10] ++ $">     ~~~" ++ [10] ++
    $">*   ~~~" ++ [10] ++ $">     c" ++ [10] ++ $">     ~~~" ++ [10] /\
  length (filter in_family (docs1 ++ docs2)) = 2906%nat.
Proof. exact a_composition. Qed.
Print Assumptions C03_family_is_not_vacuous.

Theorem C03_fragment_parses : forall types t f ln st,
  fragment_config types = true -> wf_b t = true -> (depth t <= f)%nat ->
  tokenize_block types (S f) (text_of (spell t)) ln st = ([pre_of false ln t], false, st_after st t).
Proof. exact fragment_tree_cfg. Qed.
Print Assumptions C03_fragment_parses.

Theorem C03_fragment_hypotheses :
  forallb (fun c => fragment_config (cfg_block c)) [cfg_html; cfg_html_nohtml; cfg_latex; cfg_mathjax; cfg_default] = true /\
  (let fence := FFence 96 3 [SLine 2 120 $" = 1"; SBlank; SLine 0 35 $" not a heading"] in
   let t1 := FItem (MBullet 45) 2 [FPara 97 $"b" []; FQuote [FPara 99 $"d" []; FItem (MOrdered $"12" 41) 1 [FPara 101 [] []; fence]; FPara 103 [] []]; FPara 102 [] []] in
   let t2 := FQuote [FQuote [FPara 97 [] []]; fence; FPara 98 [] []; t1] in
   wf_b t2 = true /\ depth t2 = 4%nat /\ length (spell t2) = 25%nat /\
   text_of (spell (FItem (MOrdered $"12" 41) 1 [FPara 101 [] []; fence])) =
     [ $"12) e" ++ [10]; [10]; $"    ```" ++ [10]; $"      x = 1" ++ [10]; [10]; $"    # not a heading" ++ [10]; $"    ```" ++ [10] ]).
Proof. split; [exact fragment_configs|exact fragment_instance]. Qed.
Print Assumptions C03_fragment_hypotheses.

(* ... and through the inline phase: the token tree of the spelled text is the tree it was written from
   (tok_of: paragraphs holding their lines as raw text separated by soft line breaks, one-line paragraphs holding raw text, one Emphasis / Strong, raw text
   (leaf FEm: the span types must also satisfy emph_spans), quotes, lists of one or more items separated by blank lines (same bullet, or same delimiter with any numbers; the items but the last loose) with the marker's attributes) *)
From Mistletoe Require Import Proofs.EmphSimple Proofs.InertProse Proofs.RefSentence Proofs.LinkSentence Proofs.CodeSpan Proofs.StrikeSentence Proofs.EscSentence Proofs.LeafSpans.
Theorem C03_fragment_token_tree : forall types span_types keep t f ln st,
  fragment_config types = true -> prose_spans span_types = true -> emph_spans span_types = true -> inert_spans span_types = true -> leaf_spans span_types = true ->
  wf_b t = true -> (depth t <= f)%nat ->
  make_tokens span_types keep [] (fst (fst (tokenize_block types (S f) (text_of (spell t)) ln st))) = [tok_of false t].
Proof. exact fragment_token_tree. Qed.
Print Assumptions C03_fragment_token_tree.

(* ... and for whole documents: Document(lines) gives the tokenizer fuel enough for every tree of the
   fragment (the fuel is the longest line's length plus two; a tree nested d deep has a line of d + 2
   characters or more), so the document parsed from the spelled text is exactly the tree written *)
From Mistletoe Require Import Model.Tree Proofs.FragmentDoc.
Theorem C03_fragment_fuel_suffices : forall t, wf_b t = true -> (S (depth t) <= depth_fuel (text_of (spell t)))%nat.
Proof. exact fuel_suffices. Qed.
Print Assumptions C03_fragment_fuel_suffices.

Theorem C03_fragment_document : forall cfg t,
  fragment_config (cfg_block cfg) = true -> prose_spans (cfg_span cfg) = true -> emph_spans (cfg_span cfg) = true ->
  inert_spans (cfg_span cfg) = true -> leaf_spans (cfg_span cfg) = true -> wf_b t = true ->
  fst (fst (parse_lines cfg (text_of (spell t)))) = Document [tok_of false t].
Proof. exact fragment_document. Qed.
Print Assumptions C03_fragment_document.

Theorem C03_fragment_document_markdown : forall t,
  wf_b t = true -> fst (fst (parse_lines cfg_markdown (text_of (spell t)))) = Document [tok_of true t].
Proof. exact fragment_document_markdown. Qed.
Print Assumptions C03_fragment_document_markdown.

Theorem C03_fragment_document_configs :
  forallb (fun c => fragment_config (cfg_block c) && prose_spans (cfg_span c) && emph_spans (cfg_span c) && inert_spans (cfg_span c) && leaf_spans (cfg_span c))
          [cfg_html; cfg_html_nohtml; cfg_latex; cfg_mathjax; cfg_default] = true.
Proof. exact document_configs. Qed.
Print Assumptions C03_fragment_document_configs.

(* ... down to the HTML, which is what the property observes: the HTML renderer model writes, for the document
   parsed from the spelled text, exactly html_f - the HTML written directly from the tree (Proofs/FragmentHtml.v:
   CommonMark's layout; tight items without <p>; text escaped) - for lines handed over as a list and for the
   text handed over as ONE string (mistletoe.markdown(text)), provided no line holds another of str.splitlines'
   break characters *)
From Mistletoe Require Import Proofs.FragmentHtml.
Theorem C03_fragment_html : forall cfg o t,
  fragment_config (cfg_block cfg) = true -> prose_spans (cfg_span cfg) = true -> emph_spans (cfg_span cfg) = true ->
  inert_spans (cfg_span cfg) = true -> leaf_spans (cfg_span cfg) = true -> wf_b t = true ->
  render_html o (fst (fst (parse_lines cfg (text_of (spell t))))) = html_f o false t ++ [10].
Proof. exact fragment_html. Qed.
Print Assumptions C03_fragment_html.

Theorem C03_fragment_markdown_html : forall o process_html t, wf_b t = true -> one_string_ok t = true ->
  markdown_html o process_html (concat (text_of (spell t))) = html_f o false t ++ [10].
Proof. exact fragment_markdown_html. Qed.
Print Assumptions C03_fragment_markdown_html.

Theorem C03_fragment_html_instance :
  let fence := FFence 96 3 [SLine 2 120 $" < 1"; SBlank; SLine 0 35 $" not a heading"] in
  let t := FQuote [FItem (MOrdered $"12" 41) 1 [FPara 101 [] []; fence]; FPara 120 [] []; FItem (MBullet 45) 2 [FPara 97 $" > b" []]] in
  wf_b t = true /\ one_string_ok t = true /\
  html_f (mkHopts false false) false t =
    $"<blockquote>" ++ [10] ++ $"<ol start=""12"">" ++ [10] ++ $"<li>" ++ [10] ++ $"<p>e</p>" ++ [10] ++
    $"<pre><code>  x &lt; 1" ++ [10; 10] ++ $"# not a heading" ++ [10] ++ $"</code></pre>" ++ [10] ++ $"</li>" ++ [10] ++ $"</ol>" ++ [10] ++ $"<p>x</p>" ++ [10] ++
    $"<ul>" ++ [10] ++ $"<li>a &gt; b</li>" ++ [10] ++ $"</ul>" ++ [10] ++ $"</blockquote>".
Proof. exact html_instance. Qed.
Print Assumptions C03_fragment_html_instance.

(* A second unbounded fragment: tight nested bullet lists written one item per line (bullet + - or *, 1-4 spaces,
   a plain title), the sub-items of an item directly below it and indented 0-3 columns beyond its content - any number
   of items, any depth: the tokens are exactly one list nested as the forest written (Proofs/OutlineP.v; a
   paragraph ended by the list that interrupts it, items ended by the next sibling's marker). *)
From Mistletoe Require Import Spec.Outline Proofs.IndentLaw Proofs.OutlineP.
Theorem C03_outline_lists : forall b pad sub span_types keep fn types f ns ln st k,
  forallb kind_quiet (removelast span_types) = true ->
  bullet_ok b -> (1 <= pad <= 4)%nat -> (sub <= 3)%nat -> (k <= 3)%nat -> list_first types = true -> In BK_Paragraph types ->
  ns <> [] -> Forall (fun n => (odepth n <= f)%nat /\ owf n = true) ns ->
  make_tokens span_types keep fn (fst (fst (tokenize_block types (S f) (text_of (Outline.oforest b pad sub k ns)) ln st))) =
  [List None false (map (Outline.otok b pad sub k) ns)].
Proof. intros b pad sub span_types keep fn types f ns ln st k Hq. exact (outline_tokens b pad sub span_types keep fn Hq types f ns ln st k). Qed.
Print Assumptions C03_outline_lists.

(* ... as whole documents (Document's own fuel, proved sufficient) and down to the HTML: html_list is the HTML written
   directly from the forest (a tight list: titles without <p>, the sub-list inside its item) *)
From Mistletoe Require Import Proofs.OutlineMore.
Theorem C03_outline_html : forall b pad sub cfg o k ns,
  bullet_ok b -> (1 <= pad <= 4)%nat -> (sub <= 3)%nat ->
  list_first (cfg_block cfg) = true -> In BK_Paragraph (cfg_block cfg) -> forallb kind_quiet (removelast (cfg_span cfg)) = true ->
  (k <= 3)%nat -> ns <> [] -> forallb owf ns = true ->
  fst (fst (parse_lines cfg (text_of (Outline.oforest b pad sub k ns)))) = Document [List None false (map (Outline.otok b pad sub k) ns)] /\
  render_html o (fst (fst (parse_lines cfg (text_of (Outline.oforest b pad sub k ns))))) = html_list o ns ++ [10].
Proof.
  intros b pad sub cfg o k ns Hb Hp Hs Hl Hpar Hq Hk Hne Hw. split.
  - exact (outline_document b pad sub Hb Hp Hs cfg k ns Hl Hpar Hq Hk Hne Hw).
  - exact (outline_html b pad sub Hb Hp Hs cfg o k ns Hl Hpar Hq Hk Hne Hw).
Qed.
Print Assumptions C03_outline_html.

Theorem C03_outline_instance :
  let ns := [ONode 73 $"ntro" [ONode 87 $"hy > ""so""" []; ONode 72 $"ow so" [ONode 68 $"etails" []]]; ONode 85 $"sage" []] in
  forallb owf ns = true /\
  text_of (Outline.oforest 42 2 1 3 ns) = [ $"   *  Intro" ++ [10]; $"       *  Why > ""so""" ++ [10]; $"       *  How so" ++ [10]; $"           *  Details" ++ [10]; $"   *  Usage" ++ [10] ] /\
  html_list (mkHopts false false) ns =
    $"<ul>" ++ [10] ++ $"<li>Intro" ++ [10] ++ $"<ul>" ++ [10] ++ $"<li>Why &gt; ""so""</li>" ++ [10] ++ $"<li>How so" ++ [10] ++ $"<ul>" ++ [10] ++ $"<li>Details</li>" ++ [10] ++
    $"</ul>" ++ [10] ++ $"</li>" ++ [10] ++ $"</ul>" ++ [10] ++ $"</li>" ++ [10] ++ $"<li>Usage</li>" ++ [10] ++ $"</ul>".
Proof. vm_compute. repeat split; reflexivity. Qed.
Print Assumptions C03_outline_instance.

(* paragraphs of several lines inside the fragment: an instance with its text, its HTML and the round-trip condition *)
From Mistletoe Require Import Proofs.RoundTrip.
Theorem C03_fragment_paragraph_lines_instance :
  let t := FQuote [FPara 97 $"b" [ $"second line"; $"third, (line)" ]; FItem (MBullet 45) 2 [FPara 99 [] [ $"d e" ]; FPara 102 [] []]] in
  wf_b t = true /\ one_string_ok t = true /\
  concat (text_of (spell t)) =
    $"> ab" ++ [10] ++ $"> second line" ++ [10] ++ $"> third, (line)" ++ [10] ++ $"> " ++ [10] ++ $"> -  c" ++ [10] ++ $">    d e" ++ [10] ++ $"> " ++ [10] ++ $">    f" ++ [10] /\
  html_f (mkHopts false false) false t =
    $"<blockquote>" ++ [10] ++ $"<p>ab" ++ [10] ++ $"second line" ++ [10] ++ $"third, (line)</p>" ++ [10] ++ $"<ul>" ++ [10] ++ $"<li>" ++ [10] ++
    $"<p>c" ++ [10] ++ $"d e</p>" ++ [10] ++ $"<p>f</p>" ++ [10] ++ $"</li>" ++ [10] ++ $"</ul>" ++ [10] ++ $"</blockquote>".
Proof. vm_compute. repeat split; reflexivity. Qed.
Print Assumptions C03_fragment_paragraph_lines_instance.

Theorem C03_fragment_headings_instance :
  let t := FQuote [FHead 2 84 $"itle: 2 + 2"; FPara 97 $"b" [ $"second line" ]; FItem (MBullet 45) 2 [FHead 6 100 $"eep"; FPara 102 [] []]] in
  wf_b t = true /\ one_string_ok t = true /\
  concat (text_of (spell t)) =
    $"> ## Title: 2 + 2" ++ [10] ++ $"> " ++ [10] ++ $"> ab" ++ [10] ++ $"> second line" ++ [10] ++ $"> " ++ [10] ++ $"> -  ###### deep" ++ [10] ++ $"> " ++ [10] ++ $">    f" ++ [10] /\
  html_f (mkHopts false false) false t =
    $"<blockquote>" ++ [10] ++ $"<h2>Title: 2 + 2</h2>" ++ [10] ++ $"<p>ab" ++ [10] ++ $"second line</p>" ++ [10] ++ $"<ul>" ++ [10] ++ $"<li>" ++ [10] ++
    $"<h6>deep</h6>" ++ [10] ++ $"<p>f</p>" ++ [10] ++ $"</li>" ++ [10] ++ $"</ul>" ++ [10] ++ $"</blockquote>".
Proof. vm_compute. repeat split; reflexivity. Qed.
Print Assumptions C03_fragment_headings_instance.

(* The character scanners of the inline-link parser are the source's: shift_whitespace, match_link_dest (both of its loops,
   with the escape flag and the parenthesis count) and match_link_title are translated from core_tokens.py on every run -
   each `for i, c in enumerate(string[E:], start=E)` loop becomes a Fixpoint over the suffix (harness/gen/gen_core.py,
   Gen/GenCore.v) - and the model's hand-written scanners are proved equal to them wherever the callers can call them
   (an offset inside the string).  Proofs/CoreRegen.v. *)
From Mistletoe Require Import Base.PyText Model.CoreTokens Gen.GenCore Proofs.CoreRegen.
Theorem C03_link_scanners_are_the_source : forall s offset,
  ((0 <= offset + 1 <= slen s)%Z -> g_match_link_dest s offset = match_link_dest s offset) /\
  ((0 <= offset <= slen s)%Z -> g_match_link_title s offset = match_link_title s offset /\ g_shift_whitespace s offset = shift_whitespace s offset).
Proof.
  intros s offset. split; [apply match_link_dest_regen|]. intros H. split; [apply match_link_title_regen; exact H|apply shift_whitespace_regen; exact H].
Qed.
Print Assumptions C03_link_scanners_are_the_source.

(* INDENTED CODE BLOCKS, any number of lines and any content (Proofs/CodeBlock.v): lines that begin with four spaces and are
   not blank - whatever follows the four spaces: markers of lists, quotes, headings, fences, definitions, tables - are read
   by BlockCode alone; the token holds the lines without the four spaces, one final newline; the HTML renderer writes
   <pre><code> + the escaped text + </code></pre>.  For every configuration that tries BlockCode first or right after
   HtmlBlock (all but the Markdown renderer's, which tries link reference definitions first). *)
From Mistletoe Require Import Proofs.CodeBlock.
Theorem C03_indented_code_block : forall cfg o l ls, Forall code_text (l :: ls) -> code_config cfg = true ->
  parse_lines cfg (map code_line (l :: ls)) = (Document [BlockCode (join [10] (l :: ls) ++ [10])], [], [1%Z]) /\
  render_html o (fst (fst (parse_lines cfg (map code_line (l :: ls))))) =
  $"<pre><code>" ++ escape_html_text o (join [10] (l :: ls) ++ [10]) ++ $"</code></pre>" ++ [10%Z].
Proof. intros. split; [apply indented_code_parses|apply indented_code_renders]; assumption. Qed.
Print Assumptions C03_indented_code_block.

Theorem C03_indented_code_hypotheses :
  (forallb code_config [cfg_html; cfg_html_nohtml; cfg_latex; cfg_mathjax; cfg_default] = true /\ code_config cfg_markdown = false) /\
  (Forall code_text [$"def f(x):"; $"    return <x> & 1"; $"- not a list"; $"> not a quote"; $"# not a heading"] /\
   ~ code_text ($"  ") /\ code_line ($"x = 1") = $"    x = 1" ++ [10%Z]).
Proof. split; [exact code_configs|exact code_instance]. Qed.
Print Assumptions C03_indented_code_hypotheses.

(* SETEXT HEADINGS (Proofs/SetextLaw.v): plain text lines - any number - followed by an underline of `=` or of `-` of any
   length are one heading of level 1 or 2 holding the lines; Paragraph.read finds that nothing else interrupts the
   paragraph at the underline ("--...-" is no list marker line: ListItem.pattern evaluated on it) and that
   Paragraph.setext_pattern matches it (a greedy repetition of a capture group, evaluated exactly); the HTML is <h1> / <h2>
   + the escaped lines.  At top level; inside a block quote the implementation switches the rule off (recorded finding). *)
From Mistletoe Require Import Proofs.PlainProse Proofs.ProseLines Proofs.SetextLaw.
Theorem C03_setext_heading : forall cfg o l ls c n,
  plain_line l -> Forall cont_line ls -> (c = 61 \/ c = 45)%Z -> prose_config cfg = true ->
  fst (fst (parse_lines cfg (setext_lines l ls c n))) = Document [SetextHeading (setext_level c) (repeat c (S n)) (prose_toks (l :: ls))] /\
  render_html o (fst (fst (parse_lines cfg (setext_lines l ls c n)))) =
  $"<h" ++ str_of_Z (setext_level c) ++ $">" ++ join [10%Z] (map (escape_html_text o) (l :: ls)) ++ $"</h" ++ str_of_Z (setext_level c) ++ $">" ++ [10%Z].
Proof. intros. split; [apply setext_heading_parses|apply setext_heading_renders]; assumption. Qed.
Print Assumptions C03_setext_heading.

Theorem C03_setext_hypotheses :
  plain_line ($"A title, (really)") /\ cont_line ($"over two lines") /\
  setext_lines ($"A title") [$"two"] 45 2 = [$"A title" ++ [10%Z]; $"two" ++ [10%Z]; $"---" ++ [10%Z]] /\
  str_of_Z (setext_level 61) = $"1" /\ str_of_Z (setext_level 45) = $"2".
Proof. exact setext_instance. Qed.
Print Assumptions C03_setext_hypotheses.

(* THEMATIC BREAKS (Proofs/ThematicLaw.v): a line of three or more `-`, `_` or `*` - any length - is a thematic break for every
   modelled configuration: ThematicBreak.pattern, with its capture group, the back-reference to it inside a greedy repetition
   and the lazy repetitions of white space, is evaluated exactly on the line; no block kind tried before ThematicBreak starts
   on it; the HTML is <hr />. *)
From Mistletoe Require Import Proofs.ThematicLaw.
Theorem C03_thematic_break : forall cfg o c n, (c = 45 \/ c = 95 \/ c = 42)%Z -> thematic_config cfg = true ->
  parse_lines cfg [tline c n] = (Document [ThematicBreak (repeat c (S (S (S n))))], [], [1%Z]) /\
  render_html o (fst (fst (parse_lines cfg [tline c n]))) = $"<hr />" ++ [10%Z].
Proof. intros. split; [apply thematic_break_parses|apply thematic_break_renders]; assumption. Qed.
Print Assumptions C03_thematic_break.

Theorem C03_thematic_configs :
  forallb thematic_config [cfg_html; cfg_html_nohtml; cfg_markdown; cfg_latex; cfg_mathjax; cfg_default] = true /\ tline 42 1 = $"****" ++ [10%Z].
Proof. split; [exact thematic_configs|reflexivity]. Qed.
Print Assumptions C03_thematic_configs.

(* thematic breaks are leaves of the fragment too (FRule): at every nesting depth, with the line numbers, the HTML and the
   Markdown round trip of the fragment theorems above *)
Theorem C03_fragment_rules_instance :
  let t := FItem (MBullet 45) 2 [FPara 97 $"b" []; FRule 42 0; FQuote [FRule 45 2; FHead 2 99 $"d"; FItem (MBullet 43) 1 [FRule 95 1; FPara 101 [] []]]; FRule 95 0] in
  wf_b t = true /\ depth t = 3%nat /\
  text_of (spell t) = [ $"-  ab" ++ [10%Z]; [10%Z]; $"   ***" ++ [10%Z]; [10%Z]; $"   > -----" ++ [10%Z]; $"   > " ++ [10%Z]; $"   > ## cd" ++ [10%Z]; $"   > " ++ [10%Z];
                        $"   > + ____" ++ [10%Z]; $"   > " ++ [10%Z]; $"   >   e" ++ [10%Z]; [10%Z]; $"   ___" ++ [10%Z] ].
Proof. vm_compute. repeat split; reflexivity. Qed.
Print Assumptions C03_fragment_rules_instance.

(* inline markup inside the block structure: a one-line paragraph with an emphasised phrase (leaf FEm: text, a run of * or _ once or
   twice, a word group, the run again, text - C06_emphasis_in_sentence) is a leaf of the fragment too, at every nesting depth *)
Theorem C03_fragment_emphasis_instance :
  let t := FQuote [FEm 115 $"ee " 42 false $"this" $" (now)"; FItem (MBullet 45) 1 [FEm 97 $" " 95 true $"b c" []; FRule 42 0]] in
  wf_b t = true /\
  text_of (spell t) = [ $"> see *this* (now)" ++ [10%Z]; $"> " ++ [10%Z]; $"> - a __b c__" ++ [10%Z]; $"> " ++ [10%Z]; $">   ***" ++ [10%Z] ] /\
  html_f (mkHopts false false) false t =
    $"<blockquote>" ++ [10%Z] ++ $"<p>see <em>this</em> (now)</p>" ++ [10%Z] ++ $"<ul>" ++ [10%Z] ++ $"<li>" ++ [10%Z] ++ $"<p>a <strong>b c</strong></p>" ++ [10%Z] ++
    $"<hr />" ++ [10%Z] ++ $"</li>" ++ [10%Z] ++ $"</ul>" ++ [10%Z] ++ $"</blockquote>".
Proof. vm_compute. repeat split; reflexivity. Qed.
Print Assumptions C03_fragment_emphasis_instance.

(* paragraphs of the fragment (leaf FPara) may hold delimiter characters - * _ [ ] ! > & ( ) - as long as none of them can open or
   close anything where it stands (inert_para_b of Proofs/InertProse.v: no backslash, backtick, ~, <, $, {, |; no "](" ; no run of
   * or _ that can close; & and ; not both): they are raw text of the paragraph, at every nesting depth *)
Theorem C03_fragment_inert_instance :
  let t := FQuote [FPara 115 $"o 2 * 3 = 6 and snake_case stays," [ $"a [b] c, ![d], e] and [f *"; $"then x > y _ z and **open" ];
                   FItem (MBullet 42) 1 [FPara 102 $"(x)[i] = a_b * c_d" [ $"AT&T & co" ]]] in
  wf_b t = true /\
  text_of (spell t) = [ $"> so 2 * 3 = 6 and snake_case stays," ++ [10%Z]; $"> a [b] c, ![d], e] and [f *" ++ [10%Z]; $"> then x > y _ z and **open" ++ [10%Z];
                        $"> " ++ [10%Z]; $"> * f(x)[i] = a_b * c_d" ++ [10%Z]; $">   AT&T & co" ++ [10%Z] ] /\
  html_f (mkHopts false false) false t =
    $"<blockquote>" ++ [10%Z] ++ $"<p>so 2 * 3 = 6 and snake_case stays," ++ [10%Z] ++ $"a [b] c, ![d], e] and [f *" ++ [10%Z] ++ $"then x &gt; y _ z and **open</p>" ++ [10%Z] ++
    $"<ul>" ++ [10%Z] ++ $"<li>f(x)[i] = a_b * c_d" ++ [10%Z] ++ $"AT&amp;T &amp; co</li>" ++ [10%Z] ++ $"</ul>" ++ [10%Z] ++ $"</blockquote>" /\
  wf_b (FPara 97 $" *b* c" []) = false /\ wf_b (FPara 97 $" [b](c)" []) = false /\ wf_b (FPara 97 $" `b`" []) = false.
Proof. vm_compute. repeat split; reflexivity. Qed.
Print Assumptions C03_fragment_inert_instance.

(* lists of SEVERAL items (leaf-ward constructor FMore: an item, a blank line or nothing, the rest of the same list - same bullet, or
   same delimiter with any numbers): one List; an item followed by a blank line is loose (the blank line is the item's own; under the
   Markdown token set it is the item's last child, a BlankLine), otherwise loose only with two blocks or more; the list is tight - items
   without <p> - only if none of its items is loose; start number from the first marker; all of it again at every depth *)
Theorem C03_fragment_lists_instance :
  let t := FQuote [FMore (MOrdered $"7" 41) 1 [FPara 97 [] []] true (FMore (MOrdered $"12" 41) 2 [FPara 98 [] []; FRule 42 0] true (FItem (MOrdered $"0" 41) 1 [FItem (MBullet 45) 1 [FPara 99 [] []]]))] in
  let u := FMore (MBullet 45) 1 [FPara 97 [] []] false (FMore (MBullet 45) 3 [FPara 98 [] [ $"c" ]] false (FItem (MBullet 45) 1 [FFence 96 3 []])) in
  wf_b t = true /\ wf_b u = true /\
  text_of (spell t) = [ $"> 7) a" ++ [10%Z]; $"> " ++ [10%Z]; $"> 12)  b" ++ [10%Z]; $"> " ++ [10%Z]; $">      ***" ++ [10%Z]; $"> " ++ [10%Z]; $"> 0) - c" ++ [10%Z] ] /\
  text_of (spell u) = [ $"- a" ++ [10%Z]; $"-   b" ++ [10%Z]; $"    c" ++ [10%Z]; $"- ```" ++ [10%Z]; $"  ```" ++ [10%Z] ] /\
  html_f (mkHopts false false) false t =
    $"<blockquote>" ++ [10%Z] ++ $"<ol start=""7"">" ++ [10%Z] ++ $"<li>" ++ [10%Z] ++ $"<p>a</p>" ++ [10%Z] ++ $"</li>" ++ [10%Z] ++
    $"<li>" ++ [10%Z] ++ $"<p>b</p>" ++ [10%Z] ++ $"<hr />" ++ [10%Z] ++ $"</li>" ++ [10%Z] ++
    $"<li>" ++ [10%Z] ++ $"<ul>" ++ [10%Z] ++ $"<li>c</li>" ++ [10%Z] ++ $"</ul>" ++ [10%Z] ++ $"</li>" ++ [10%Z] ++ $"</ol>" ++ [10%Z] ++ $"</blockquote>" /\
  html_f (mkHopts false false) false u =
    $"<ul>" ++ [10%Z] ++ $"<li>a</li>" ++ [10%Z] ++ $"<li>b" ++ [10%Z] ++ $"c</li>" ++ [10%Z] ++ $"<li>" ++ [10%Z] ++ $"<pre><code></code></pre>" ++ [10%Z] ++ $"</li>" ++ [10%Z] ++ $"</ul>" /\
  wf_b (FMore (MBullet 45) 1 [FPara 97 [] []] true (FItem (MBullet 43) 1 [FPara 98 [] []])) = false.
Proof. vm_compute. repeat split; reflexivity. Qed.
Print Assumptions C03_fragment_lists_instance.

(* ... and whole documents of SEVERAL such blocks separated by blank lines (any number, two lists never neighbours): Document(lines)
   returns exactly the trees written, in order, and the HTML is their HTML joined by newlines *)
Theorem C03_fragment_seq_document : forall cfg ts,
  fragment_config (cfg_block cfg) = true -> prose_spans (cfg_span cfg) = true -> emph_spans (cfg_span cfg) = true ->
  inert_spans (cfg_span cfg) = true -> leaf_spans (cfg_span cfg) = true -> seq_ok_b ts = true -> forallb wf_b ts = true ->
  fst (fst (parse_lines cfg (text_of (join_blank (map spell ts))))) = Document (tok_seq false ts).
Proof. exact fragment_seq_document. Qed.
Print Assumptions C03_fragment_seq_document.

Theorem C03_fragment_seq_html : forall cfg o ts,
  fragment_config (cfg_block cfg) = true -> prose_spans (cfg_span cfg) = true -> emph_spans (cfg_span cfg) = true ->
  inert_spans (cfg_span cfg) = true -> leaf_spans (cfg_span cfg) = true -> seq_ok_b ts = true -> forallb wf_b ts = true ->
  render_html o (fst (fst (parse_lines cfg (text_of (join_blank (map spell ts)))))) = join [10%Z] (map (html_f o false) ts) ++ [10%Z].
Proof. exact fragment_seq_html. Qed.
Print Assumptions C03_fragment_seq_html.

(* inline LINKS inside the block structure: a one-line paragraph with one inline link (leaf FLink: text, [w](dest), text - the
   inline theorem link_in_sentence of Proofs/LinkSentence.v: scanner, bracket stack, destination and title scanners, every span
   finder, candidate tokenizer) is a leaf of the fragment too, at every nesting depth; the span types must also satisfy ref_spans *)
Theorem C03_link_in_sentence : forall types fn pre w dest post,
  ref_spans types = true -> ilink_ok pre w dest post = true ->
  Inline.tokenize_inner types fn (pre ++ [91%Z] ++ w ++ [93%Z; 40%Z] ++ dest ++ [41%Z] ++ post) = EmphSentence.raw_if pre ++ [ilink_of w dest] ++ EmphSentence.raw_if post.
Proof. exact link_in_sentence. Qed.
Print Assumptions C03_link_in_sentence.

Theorem C03_fragment_link_instance :
  let t := FQuote [FLink 115 $"ee " $"the site" $"http://ex.am/a_b*c?d=e#f" $", ok"; FMore (MBullet 45) 1 [FLink 97 $" " $"x" $"/y" []] false (FItem (MBullet 45) 1 [FPara 122 [] []])] in
  wf_b t = true /\
  text_of (spell t) = [ $"> see [the site](http://ex.am/a_b*c?d=e#f), ok" ++ [10%Z]; $"> " ++ [10%Z]; $"> - a [x](/y)" ++ [10%Z]; $"> - z" ++ [10%Z] ] /\
  wf_b (FLink 97 [] $"x" $"a b" []) = false /\ wf_b (FLink 97 [] $"x" $"a(b)" []) = false.
Proof. vm_compute. repeat split; reflexivity. Qed.
Print Assumptions C03_fragment_link_instance.

(* ANY NUMBER of inline links in one sentence (Proofs/LinkPhrases.v): t0 [w1](d1) t1 ... [wn](dn) tn tokenizes to t0 and, for every
   link, one Link to di holding wi followed by the text ti - for every n *)
From Mistletoe Require Import Proofs.LinkPhrases.
Theorem C03_link_phrases : forall types fn t0 gs,
  ref_spans types = true -> PlainProse.plain_text t0 && forallb lseg_okb gs = true ->
  Inline.tokenize_inner types fn (t0 ++ lbody gs) = EmphSentence.raw_if t0 ++ link_toks gs.
Proof. exact link_phrases. Qed.
Print Assumptions C03_link_phrases.

Theorem C03_link_phrases_instance :
  let gs : list lseg := [($"one", $"/a", $" and "); ($"two words", $"http://x.y/z_1", []); ($"3", $"#f", $".")] in
  (forallb lseg_okb gs = true) /\ (lbody gs = $"[one](/a) and [two words](http://x.y/z_1)[3](#f).") /\ (lseg_okb ($"x", $"a b", []) = false).
Proof. exact links_instance. Qed.
Print Assumptions C03_link_phrases_instance.

(* ... and sentences that MIX any number of emphasised phrases and inline links, in any order (Proofs/MixPhrases.v): the scanner
   keeps the phrases' delimiters on the stack while find_link_image matches each link on the bracket on top of it;
   process_emphasis pairs the phrases (Proofs/EmphPairs.v); the candidates come as "all links, then all emphases" and the
   stable sort by start puts them into source order (Proofs/ChainTokens.v: sort_to); the tokens are the text, the phrases and
   the links in the order written - for every number of each *)
From Mistletoe Require Import Proofs.MixPhrases.
Theorem C03_mixed_phrases : forall types fn t0 gs,
  ref_spans types = true -> mixed_ok t0 gs = true ->
  Inline.tokenize_inner types fn (t0 ++ mbody gs) = EmphSentence.raw_if t0 ++ mix_toks gs.
Proof. exact mixed_phrases. Qed.
Print Assumptions C03_mixed_phrases.

Theorem C03_mixed_phrases_instance :
  let gs := [MEm 42 0 ($"one") ($" and "); MLk ($"a link") ($"http://x.y/z_1") ($", then "); MEm 95 1 ($"two words") ($" "); MLk ($"3") ($"#f") []; MEm 42 1 ($"x") ($".")] in
  (mixed_ok ($"Say ") gs = true) /\ (mbody gs = $"*one* and [a link](http://x.y/z_1), then __two words__ [3](#f)**x**.") /\
  (mixed_ok ($"Say ") [MLk ($"3") ($"#f") ($"x"); MEm 42 1 ($"x") ($".")] = false).
Proof. exact mixed_instance. Qed.
Print Assumptions C03_mixed_phrases_instance.

(* ... and such a sentence is a LEAF of the fragment (FSent: a one-line paragraph with any number of emphasised phrases and links in any
   order), at every nesting depth: the tokens, the HTML (seg_html per segment) and the Markdown round trip compose with the block laws *)
Theorem C03_fragment_sentence_instance :
  let gs := [MEm 42 0 ($"one") ($" and "); MLk ($"a link") ($"http://x.y/z_1") ($", then "); MEm 95 1 ($"two words") ($".")] in
  let t := FQuote [FSent 83 $"ay " gs; FMore (MBullet 45) 1 [FSent 97 $" " [MLk $"x" $"/y" []]] false (FItem (MBullet 45) 1 [FPara 122 [] []])] in
  wf_b t = true /\
  text_of (spell t) = [ $"> Say *one* and [a link](http://x.y/z_1), then __two words__." ++ [10%Z]; $"> " ++ [10%Z]; $"> - a [x](/y)" ++ [10%Z]; $"> - z" ++ [10%Z] ] /\
  wf_b (FSent 83 $"ay" [MEm 42 0 ($"one") ($" and ")]) = false.
Proof. vm_compute. repeat split; reflexivity. Qed.
Print Assumptions C03_fragment_sentence_instance.

(* a CODE SPAN inside a sentence (Proofs/CodeSpan.v): pre `code` post - the text before and after free of trigger characters, the
   code of ANY characters (every delimiter of the core tokens included: * _ [ ] ( ) !) but backticks and the characters a regex span
   finder needs - tokenizes to the text, ONE InlineCode holding the content (one space stripped on each side when both are there
   and the content is not all spaces), the text: core_tokens.code_pattern - two look-behinds, two look-aheads, a lazy repetition and
   the BACK-REFERENCE to the opening run - evaluated exactly by the regex matcher model on every such sentence; pattern.search skipping
   the text before; the scanner jumping over the span without looking at its delimiters; InlineCode.find taking the matches
   CoreTokens.find left; the candidate tokenizer.  leaf_spans = ref_spans and code_spans (every other span type needs a character absent
   from the sentence; CoreTokens comes before InlineCode) - both hold of every configuration (C03_fragment_document_configs) *)
Theorem C03_code_in_sentence : forall types fn n pre code post,      (* ticks n: n + 1 backticks - a span may be delimited by any number of them *)
  code_spans types = true -> code_ok pre code post = true ->
  Inline.tokenize_inner types fn (pre ++ ticks n ++ code ++ ticks n ++ post) = EmphSentence.raw_if pre ++ [code_of n code] ++ EmphSentence.raw_if post.
Proof. exact code_in_sentence. Qed.
Print Assumptions C03_code_in_sentence.

Theorem C03_code_in_sentence_hypotheses :
  (forallb (fun c => code_spans (cfg_span c)) [cfg_html; cfg_html_nohtml; cfg_markdown; cfg_latex; cfg_mathjax; cfg_default] = true) /\
  (code_ok ($"call ") ($"f(a, *b, **c)[0] _x_ ![i](u)") ($" now.") = true) /\
  (code_of 0 ($" x ") = InlineCode (mkCode [96%Z] [32%Z] ($"x"))) /\ (code_of 1 ($"  ") = InlineCode (mkCode [96%Z; 96%Z] [] ($"  "))) /\
  (code_ok [] ($"a`b") [] = false) /\ (code_ok [] [] [] = false) /\ (code_ok [] ($"a<b") [] = false).
Proof. split; [exact code_span_configs|exact code_span_instance]. Qed.
Print Assumptions C03_code_in_sentence_hypotheses.

(* ... and such a sentence is a LEAF of the fragment (FTick), at every nesting depth: tokens, HTML (<code> around the escaped content)
   and the Markdown round trip (delimiter, padding, content, padding, delimiter give the text back) compose with the block laws *)
Theorem C03_fragment_code_instance :
  let t := FQuote [FTick 99 $"all " 0 $"f(a, *b, **c)[0] _x_" $" now."; FMore (MBullet 45) 1 [FTick 97 $" " 1 $" x " []] false (FItem (MBullet 45) 1 [FPara 122 [] []])] in
  wf_b t = true /\
  text_of (spell t) = [ $"> call `f(a, *b, **c)[0] _x_` now." ++ [10%Z]; $"> " ++ [10%Z]; $"> - a `` x ``" ++ [10%Z]; $"> - z" ++ [10%Z] ] /\
  html_f (mkHopts false false) false (FTick 97 $" " 2 $" x>y " []) = $"<p>a <code>x&gt;y</code></p>" /\
  wf_b (FTick 97 [] 0 $"x`y" []) = false /\ wf_b (FTick 97 [] 0 $"x" $" ") = false.
Proof. vm_compute. repeat split; reflexivity. Qed.
Print Assumptions C03_fragment_code_instance.

(* a STRUCK-THROUGH phrase inside a sentence (Proofs/StrikeSentence.v): pre ~~w~~ post - the three texts free of trigger characters, w not
   empty - tokenizes to the text, one Strikethrough holding w, the text: Strikethrough.pattern (look-behind, escaped backslashes, the lazy
   content closed by the first ~~) evaluated exactly, pattern.finditer finding this match and no other, the core-token scanner passing
   over the tildes, the candidate tokenizer parsing the content of the match; strike_spans holds of all six configurations *)
From Mistletoe Require Import Proofs.StrikeSentence Proofs.EscSentence.
Theorem C03_strike_in_sentence : forall types fn pre w post,
  strike_spans types = true -> strike_ok pre w post = true ->
  Inline.tokenize_inner types fn (pre ++ [126%Z; 126%Z] ++ w ++ [126%Z; 126%Z] ++ post) = EmphSentence.raw_if pre ++ [Strikethrough [RawText w]] ++ EmphSentence.raw_if post.
Proof. exact strike_in_sentence. Qed.
Print Assumptions C03_strike_in_sentence.

Theorem C03_strike_in_sentence_hypotheses :
  (map (fun c => strike_spans (cfg_span c)) [cfg_html; cfg_html_nohtml; cfg_markdown; cfg_latex; cfg_mathjax; cfg_default] = [true; true; true; true; true; true]) /\
  (strike_ok ($"this is ") ($"gone, really") ($" now.") = true) /\ (strike_ok [] ($"a~b") [] = false) /\ (strike_ok [] [] [] = false).
Proof. split; [exact strike_configs|exact strike_instance]. Qed.
Print Assumptions C03_strike_in_sentence_hypotheses.

(* a BACKSLASH ESCAPE inside a sentence (Proofs/EscSentence.v): pre \c post - c one of ! (double quote) # % (quote) ( ) * + , - . / : ; = > ? @ [ (backslash) ] ^ _ }
   (the ASCII punctuation EscapeSequence.pattern accepts, less the seven characters another span finder needs), pre and post free of
   trigger characters - tokenizes to the text, one EscapeSequence holding c as raw text, the text: the scanner of the core tokens takes
   the backslash as an escape, so that an escaped * _ [ ] or ! opens, closes and starts nothing *)
Theorem C03_escape_in_sentence : forall types fn pre c post,
  esc_spans types = true -> esc_ok pre c post = true ->
  Inline.tokenize_inner types fn (pre ++ [92%Z; c] ++ post) = EmphSentence.raw_if pre ++ [EscapeSequence [RawText [c]]] ++ EmphSentence.raw_if post.
Proof. exact escape_in_sentence. Qed.
Print Assumptions C03_escape_in_sentence.

Theorem C03_escape_in_sentence_hypotheses :
  (map (fun c => esc_spans (cfg_span c)) [cfg_html; cfg_html_nohtml; cfg_markdown; cfg_latex; cfg_mathjax; cfg_default] = [true; true; true; true; true; true]) /\
  (filter esc_char (map Z.of_nat (seq 0 128)) = [33; 34; 35; 37; 39; 40; 41; 42; 43; 44; 45; 46; 47; 58; 59; 61; 62; 63; 64; 91; 92; 93; 94; 95; 125]%Z) /\
  (esc_ok ($"not ") 42%Z ($"emphasis") = true) /\ (esc_ok [] 96%Z [] = false) /\ (esc_ok [] 97%Z [] = false).
Proof. split; [exact esc_configs|]. vm_compute. repeat split; reflexivity. Qed.
Print Assumptions C03_escape_in_sentence_hypotheses.

(* an IMAGE inside a sentence (Proofs/ImageSentence.v): pre ![w](dest) post under the hypotheses of C03_link_in_sentence tokenizes to the
   text, one Image of dest holding w as its description, the text: the scanner's two steps at "!" and "[" (the image flag, ONE delimiter
   for the two characters), match_link_image on that delimiter, no deactivation of earlier brackets *)
From Mistletoe Require Import Proofs.ImageSentence.
Theorem C03_image_in_sentence : forall types fn pre w dest post,
  ref_spans types = true -> ilink_ok pre w dest post = true ->
  Inline.tokenize_inner types fn (pre ++ [33%Z; 91%Z] ++ w ++ [93%Z; 40%Z] ++ dest ++ [41%Z] ++ post) = EmphSentence.raw_if pre ++ [image_of w dest] ++ EmphSentence.raw_if post.
Proof. exact image_in_sentence. Qed.
Print Assumptions C03_image_in_sentence.

(* LINE BREAKS of every spelling with spaces (Proofs/HardBreaks.v): the text of a paragraph whose lines - free of trigger characters, not
   empty, not ending in a space of their own - are each followed by k spaces (any k, another one for every line) and a newline gives the
   lines as raw text and between two of them ONE LineBreak holding the k spaces: soft for k < 2, HARD from two spaces on.
   LineBreak.pattern evaluated exactly (no match starts inside a line; the match at the first trailing space is greedy), finditer,
   the candidates tile the text - for any number of lines *)
From Mistletoe Require Import Proofs.HardBreaks.
Theorem C03_breaks_in_paragraph_text : forall types fn ls,
  prose_spans types = true -> ls <> [] -> forallb bline_okb ls = true ->
  Inline.tokenize_inner types fn (brk_join ls) = brk_toks ls.
Proof. exact breaks_in_paragraph_text. Qed.
Print Assumptions C03_breaks_in_paragraph_text.

Theorem C03_breaks_instance :
  let ls := [($"first line", 0%nat); ($"soft after one space", 1%nat); ($"hard", 2%nat); ($"harder", 5%nat); ($"the end.", 0%nat)] in
  forallb bline_okb ls = true /\
  brk_toks ls = [RawText ($"first line"); LineBreak [] true; RawText ($"soft after one space"); LineBreak [32%Z] true; RawText ($"hard"); LineBreak [32%Z; 32%Z] false;
                 RawText ($"harder"); LineBreak [32%Z; 32%Z; 32%Z; 32%Z; 32%Z] false; RawText ($"the end.")] /\
  bline_okb ($"ends in a space ", 2%nat) = false.
Proof. exact breaks_instance. Qed.
Print Assumptions C03_breaks_instance.

(* ... and such a paragraph is a LEAF of the fragment (FBrk: lines each followed by any number of spaces), at every nesting depth: the block
   phase accepts lines whatever they end in (Proofs/BreakBlocks.v: the paragraph reader asks only for the first character and the absence
   of a pipe), Paragraph's stripping keeps the inner spaces, the tokens are C03_breaks_in_paragraph_text's, the HTML ends a line followed
   by two spaces or more in <br /> (brk_html), the Markdown round trip writes the spaces back *)
Theorem C03_fragment_breaks_instance :
  let t := FQuote [FBrk 102 $"irst" 2 [($"second, soft", 0%nat); ($"third", 3%nat); ($"last.", 0%nat)];
                   FMore (MBullet 45) 1 [FBrk 97 [] 2 [($"b", 0%nat)]] false (FItem (MBullet 45) 1 [FPara 122 [] []])] in
  wf_b t = true /\
  text_of (spell t) = [ $"> first  " ++ [10%Z]; $"> second, soft" ++ [10%Z]; $"> third   " ++ [10%Z]; $"> last." ++ [10%Z]; $"> " ++ [10%Z];
                        $"> - a  " ++ [10%Z]; $">   b" ++ [10%Z]; $"> - z" ++ [10%Z] ] /\
  html_f (mkHopts false false) false (FBrk 102 $"irst" 2 [($"second, soft", 0%nat); ($"third", 3%nat); ($"last.", 0%nat)]) =
    $"<p>first<br />" ++ [10%Z] ++ $"second, soft" ++ [10%Z] ++ $"third<br />" ++ [10%Z] ++ $"last.</p>" /\
  wf_b (FBrk 97 $" " 2 [($"b", 0%nat)]) = false.
Proof. vm_compute. repeat split; reflexivity. Qed.
Print Assumptions C03_fragment_breaks_instance.

(* ... and a struck-through phrase, a backslash escape or an image in a one-line paragraph is a LEAF of the fragment (FOne), at every nesting
   depth: the three sentence theorems under one statement (Proofs/OneInline.v), the HTML (<del>, the escaped character, <img> with the
   description as alt text) and the Markdown round trip compose with the block laws; leaf_spans = ref_spans, code_spans, strike_spans
   and esc_spans together, which every configuration meets (C03_fragment_document_configs) *)
From Mistletoe Require Import Proofs.OneInline.
Theorem C03_one_in_sentence : forall types fn pre x post,
  leaf_spans types = true -> EmphSimple.emph_spans types = true -> inl_ok pre x post = true ->
  Inline.tokenize_inner types fn (pre ++ inl_text x ++ post) = EmphSentence.raw_if pre ++ [inl_tok x] ++ EmphSentence.raw_if post.
Proof. exact one_in_sentence. Qed.
Print Assumptions C03_one_in_sentence.

Theorem C03_fragment_one_instance :
  let t := FQuote [FOne 119 $"as " (IStrike $"gone") $" now."; FOne 110 $"ot " (IEsc 42%Z) $"emphasis"; FMore (MBullet 45) 1 [FOne 115 $"ee " (IImg $"a cat" $"/c.png") []] false (FItem (MBullet 45) 1 [FPara 122 [] []])] in
  wf_b t = true /\
  text_of (spell t) = [ $"> was ~~gone~~ now." ++ [10%Z]; $"> " ++ [10%Z]; $"> not \*emphasis" ++ [10%Z]; $"> " ++ [10%Z]; $"> - see ![a cat](/c.png)" ++ [10%Z]; $"> - z" ++ [10%Z] ] /\
  html_f (mkHopts false false) true (FOne 115 $"ee " (IImg $"a cat" $"/c.png") []) = $"see <img src=" ++ [34%Z] ++ $"/c.png" ++ [34%Z] ++ $" alt=" ++ [34%Z] ++ $"a cat" ++ [34%Z] ++ $" />" /\
  wf_b (FOne 97 [] (IEsc 96%Z) []) = false /\ wf_b (FOne 97 [] (IStrike []) []) = false.
Proof. vm_compute. repeat split; reflexivity. Qed.
Print Assumptions C03_fragment_one_instance.

(* the HARD LINE BREAK written with a backslash (Proofs/BackslashBreak.v): l1, a backslash, a newline, l2 - both lines free of trigger
   characters, not empty, not ending in a space - is the first line, one hard LineBreak holding the backslash, the second line:
   LineBreak.pattern's second alternative evaluated exactly, EscapeSequence.pattern finding nothing (a newline cannot be escaped), the
   scanner of the core tokens taking the backslash as an escape of the newline; bs_spans holds of all six configurations *)
From Mistletoe Require Import Proofs.BackslashBreak.
Theorem C03_backslash_break : forall types fn l1 l2,
  bs_spans types = true -> bline_okb (l1, 0%nat) = true -> bline_okb (l2, 0%nat) = true ->
  Inline.tokenize_inner types fn (l1 ++ [92%Z; 10%Z] ++ l2) = [RawText l1; LineBreak [92%Z] false; RawText l2].
Proof. exact backslash_break. Qed.
Print Assumptions C03_backslash_break.

Theorem C03_backslash_break_hypotheses :
  (map (fun c => bs_spans (cfg_span c)) [cfg_html; cfg_html_nohtml; cfg_markdown; cfg_latex; cfg_mathjax; cfg_default] = [true; true; true; true; true; true]) /\
  (bline_okb ($"first line", 0%nat) = true) /\ (bline_okb ($"ends in a space ", 0%nat) = false).
Proof. split; [exact bs_configs|]. vm_compute. split; reflexivity. Qed.
Print Assumptions C03_backslash_break_hypotheses.

(* ... and NESTED EMPHASIS (C06_nested_emphasis) is an inline element of leaf FOne too: an emphasised phrase holding emphasised phrases in a
   one-line paragraph, at every nesting depth of blocks - tokens, HTML (nest_html: the inner tags inside the outer one) and Markdown round trip *)
Theorem C03_fragment_nested_emphasis_instance :
  let x := INest 42 0 ($"one ") [(95, 0%nat, $"two", $" and "); (42, 1%nat, $"three words", $", ")]%Z ($"four") in
  let t := FQuote [FOne 83 $"ay " x $"."; FItem (MBullet 45) 1 [FOne 83 $"ay " x []]] in
  wf_b t = true /\
  text_of (spell t) = [ $"> Say *one _two_ and **three words**, four*." ++ [10%Z]; $"> " ++ [10%Z]; $"> - Say *one _two_ and **three words**, four*" ++ [10%Z] ] /\
  html_f (mkHopts false false) true (FOne 83 $"ay " x $".") = $"Say <em>one <em>two</em> and <strong>three words</strong>, four</em>." /\
  wf_b (FOne 83 $"ay " (INest 42 0 ($"one") [] ($"four")) []) = false.
Proof. vm_compute. repeat split; reflexivity. Qed.
Print Assumptions C03_fragment_nested_emphasis_instance.

(* an inline link WITH A TITLE (Proofs/TitleLink.v): pre [w](dest "title") post - the destination ended by the space, match_link_title
   skipping the white space and scanning the title up to its closing delimiter, the closing parenthesis after it; the title written in
   ANY OF THE THREE WAYS (q = 34: double quotes, 39: single quotes, 40: parentheses; closer q what ends it), free of q and closer q;
   the Link holds destination, title and the delimiter (so the Markdown renderer writes it back the same way); HTML with the title
   attribute through the renderer's own filler; also an inline element of leaf FOne *)
From Mistletoe Require Import Proofs.TitleLink.
Theorem C03_titled_link_in_sentence : forall types fn pre w dest q title post,
  ref_spans types = true -> tlink_ok pre w dest q title post = true ->
  Inline.tokenize_inner types fn (pre ++ [91%Z] ++ w ++ [93%Z; 40%Z] ++ dest ++ [32%Z; q] ++ title ++ [closer q; 41%Z] ++ post) =
  EmphSentence.raw_if pre ++ [tlink_of w dest q title] ++ EmphSentence.raw_if post.
Proof. exact titled_link_in_sentence. Qed.
Print Assumptions C03_titled_link_in_sentence.

Theorem C03_titled_link_instance :
  (tlink_ok ($"see ") ($"the site") ($"http://ex.am/a?b=c") 34 ($"Its title, here") ($", ok") = true) /\
  (tlink_ok ($"see ") ($"the site") ($"/s") 39 ($"Its ""title"", (here)") [] = true) /\
  (tlink_ok [] ($"x") ($"/y") 40 ($"it's ""so""") ($".") = true) /\
  (tlink_ok [] ($"x") ($"/y") 34 ([34%Z]) [] = false) /\ (tlink_ok [] ($"x") ($"/y") 34 ($"a&b") [] = false) /\
  (tlink_ok [] ($"x") ($"/y") 40 ($"a(b") [] = false) /\ (tlink_ok [] ($"x") ($"/y") 40 ($"a)b") [] = false) /\
  (tlink_ok [] ($"x") ($"/y") 39 ($"it's") [] = false) /\ (tlink_ok [] ($"x") ($"/y") 60 ($"a") [] = false) /\
  (let t := FQuote [FOne 115 $"ee " (ILinkT $"the site" $"/s" 34 $"Its title") $"."; FOne 115 $"ee " (ILinkT $"the site" $"/s" 40 $"Its 'title'") $"."] in
   wf_b t = true /\
   text_of (spell t) = [ $"> see [the site](/s " ++ [34%Z] ++ $"Its title" ++ [34%Z] ++ $")." ++ [10%Z]; $"> " ++ [10%Z]; $"> see [the site](/s (Its 'title'))." ++ [10%Z] ] /\
   html_f (mkHopts false false) true (FOne 115 $"ee " (ILinkT $"the site" $"/s" 40 $"Its 'title'") $".") =
     $"see <a href=" ++ [34%Z] ++ $"/s" ++ [34%Z] ++ $" title=" ++ [34%Z] ++ $"Its &#x27;title&#x27;" ++ [34%Z] ++ $">the site</a>.").
Proof. vm_compute. repeat split; reflexivity. Qed.
Print Assumptions C03_titled_link_instance.

(* an AUTOLINK inside a sentence (Proofs/AutoLinkSentence.v): pre <scheme:rest> post - the scheme a letter and 1 to 31 letters, digits or
   hyphens, the rest free of white space, angle brackets and trigger characters - is the text, one AutoLink holding the address, the text.
   AutoLink.pattern evaluated exactly (the bounded greedy scheme, the lazy rest); HtmlSpan.pattern - six alternatives, the first with nested
   repetitions - PROVED TO FAIL at the "<" (hs_fails: after a tag-like name nothing of its first alternative can go on; the others need
   "/", "!" or "?"), so the two finders that both begin at "<" do not collide; the core scanner finds nothing *)
From Mistletoe Require Import Proofs.AutoLinkSentence.
Theorem C03_autolink_in_sentence : forall types fn pre c0 sc r post,
  auto_spans types = true -> auto_ok pre c0 sc r post = true ->
  Inline.tokenize_inner types fn (pre ++ [60%Z] ++ (c0 :: sc ++ 58%Z :: r) ++ [62%Z] ++ post) =
  EmphSentence.raw_if pre ++ [auto_of (c0 :: sc ++ 58%Z :: r)] ++ EmphSentence.raw_if post.
Proof. exact autolink_in_sentence. Qed.
Print Assumptions C03_autolink_in_sentence.

Theorem C03_autolink_hypotheses :
  (map (fun c => auto_spans (cfg_span c)) [cfg_html; cfg_html_nohtml; cfg_markdown; cfg_latex; cfg_mathjax; cfg_default] = [true; true; true; true; true; true]) /\
  (auto_ok ($"see ") 104%Z ($"ttps") ($"//ex.am/a-b?c=d#e") ($", ok") = true) /\ (auto_ok [] 109%Z ($"ailto") ($"me@ex.am") [] = true) /\
  (auto_ok [] 104%Z ($"ttp") ($"//a b") [] = false) /\ (auto_ok [] 104%Z [] ($"x") [] = false) /\ (auto_ok [] 49%Z ($"a") ($"x") [] = false).
Proof. split; [exact auto_configs|exact auto_instance]. Qed.
Print Assumptions C03_autolink_hypotheses.

(* ... and the autolink is an inline element of leaf FOne (IAuto): tokens, HTML and Markdown round trip at every nesting depth *)
Theorem C03_fragment_autolink_instance :
  let t := FQuote [FOne 115 $"ee " (IAuto 104 $"ttp" $"//user@host.ex/p") $"."] in
  wf_b t = true /\ text_of (spell t) = [ $"> see <http://user@host.ex/p>." ++ [10%Z] ] /\
  html_f (mkHopts false false) true (FOne 115 $"ee " (IAuto 104 $"ttp" $"//user@host.ex/p") $".") =
    $"see <a href=" ++ [34%Z] ++ $"http://user@host.ex/p" ++ [34%Z] ++ $">http://user@host.ex/p</a>.".
Proof. vm_compute. repeat split; reflexivity. Qed.
Print Assumptions C03_fragment_autolink_instance.

(* an inline link whose DESTINATION STANDS BETWEEN ANGLE BRACKETS (Proofs/AngleLink.v): pre [w](<dest>) post - the destination may hold
   spaces and parentheses (it begins with a character that is neither a letter nor "/", "!", "?", holds no "@", "<", ">", backslash,
   line ending; the text after it holds no "@").  match_link_dest's loop for the angle form runs to the ">"; the Link has dest_type
   angle_uri, so the Markdown renderer writes the brackets back.  The "<" is where AutoLink.pattern and HtmlSpan.pattern begin: both are
   PROVED TO FAIL there (al_fails: the e-mail alternative's greedy local part meets no "@" wherever it stops - greedy_none_all;
   hs_fails_first: none of the six alternatives can read the character after "<"), so the link is the only candidate *)
From Mistletoe Require Import Proofs.AngleLink.
Theorem C03_angle_link_in_sentence : forall types fn pre w c0 d post,
  ref_spans types = true -> auto_spans types = true -> alink_ok pre w c0 d post = true ->
  Inline.tokenize_inner types fn (pre ++ [91%Z] ++ w ++ [93%Z; 40%Z] ++ [60%Z] ++ (c0 :: d) ++ [62%Z] ++ [41%Z] ++ post) =
  EmphSentence.raw_if pre ++ [alink_of w (c0 :: d)] ++ EmphSentence.raw_if post.
Proof. exact angle_link_in_sentence. Qed.
Print Assumptions C03_angle_link_in_sentence.

Theorem C03_angle_link_instance :
  (alink_ok ($"see ") ($"the site") 46 ($"/my docs/a (b).html") ($", ok") = true) /\
  (alink_ok [] ($"x") 35 ($"part one") [] = true) /\ (alink_ok [] ($"x") 50 ($"024/q r") ($".") = true) /\
  (alink_ok [] ($"x") 104 ($"ttp://a b") [] = false) /\ (alink_ok [] ($"x") 47 ($"a") [] = false) /\ (alink_ok [] ($"x") 46 ($"/a ") [] = false) /\
  (alink_ok [] ($"x") 46 ($"/a@b") [] = false) /\ (alink_ok [] ($"x") 46 ($"/a>b") [] = false) /\ (alink_ok [] ($"x") 46 ($"/a") ($" me@ex.am") = false) /\
  (let x := ILinkA $"the site" 46 $"/my docs/a (b).html" in
   let t := FQuote [FOne 115 $"ee " x $", ok"; FItem (MBullet 45) 1 [FOne 115 $"ee " x []]] in
   wf_b t = true /\
   text_of (spell t) = [ $"> see [the site](<./my docs/a (b).html>), ok" ++ [10%Z]; $"> " ++ [10%Z]; $"> - see [the site](<./my docs/a (b).html>)" ++ [10%Z] ] /\
   html_f (mkHopts false false) true (FOne 115 $"ee " x $", ok") =
     $"see <a href=" ++ [34%Z] ++ $"./my%20docs/a%20(b).html" ++ [34%Z] ++ $">the site</a>, ok").
Proof. vm_compute. repeat split; reflexivity. Qed.
Print Assumptions C03_angle_link_instance.

(* an inline link whose TEXT HOLDS EMPHASISED PHRASES (Proofs/LinkEmph.v): pre [h *w1* t1 __w2__ t2 ... z](dest) post is the text, ONE Link
   whose children are h, the phrases (Emphasis / Strong, any number, * or _) each with the text after it, and z, then the text.  At "]"
   find_link_image walks down over the delimiter runs to the bracket (li_down_skip), the destination is matched, and process_emphasis WITH
   THE BRACKET AS STACK BOTTOM pairs the runs above it (emph_loop_link); the span tokenizer nests the phrase candidates into the link's
   parse group (tokenize_nested).  Also an inline element of leaf FOne: HTML with the phrases inside the <a>, Markdown round trip *)
From Mistletoe Require Import Proofs.EmphPhrases Proofs.NestedEmph Proofs.LinkEmph.
Theorem C03_link_with_emphasis : forall types fn pre h ps z dest post,
  ref_spans types = true -> elink_ok pre h ps z dest post = true ->
  Inline.tokenize_inner types fn (pre ++ [91%Z] ++ (h ++ body ps ++ z) ++ [93%Z; 40%Z] ++ dest ++ [41%Z] ++ post) =
  EmphSentence.raw_if pre ++ [elink_of h ps z dest] ++ EmphSentence.raw_if post.
Proof. exact link_with_emphasis. Qed.
Print Assumptions C03_link_with_emphasis.

Theorem C03_link_with_emphasis_instance :
  (elink_ok ($"see ") ($"the ") [(42, 0%nat, $"new", $" and "); (95, 1%nat, $"very good", $" ")]%Z ($"site") ($"http://ex.am/a?b=c") ($", ok") = true) /\
  (elink_ok [] [] [(42, 1%nat, $"all", $".")]%Z [] ($"/x") [] = true) /\
  (elink_ok [] ($"a") [(42, 0%nat, $"b", $" ")]%Z [] ($"/x") [] = false) /\ (elink_ok [] [] [] ($"z") ($"/x") [] = false) /\
  (let x := ILinkE ($"the ") [(42, 0%nat, $"new", $" and "); (95, 1%nat, $"very good", $" ")]%Z ($"site") ($"/s") in
   let t := FQuote [FOne 115 $"ee " x $", ok"; FItem (MBullet 45) 1 [FOne 115 $"ee " x []]] in
   wf_b t = true /\
   text_of (spell t) = [ $"> see [the *new* and __very good__ site](/s), ok" ++ [10%Z]; $"> " ++ [10%Z]; $"> - see [the *new* and __very good__ site](/s)" ++ [10%Z] ] /\
   html_f (mkHopts false false) true (FOne 115 $"ee " x $", ok") =
     $"see <a href=" ++ [34%Z] ++ $"/s" ++ [34%Z] ++ $">the <em>new</em> and <strong>very good</strong> site</a>, ok").
Proof. vm_compute. repeat split; reflexivity. Qed.
Print Assumptions C03_link_with_emphasis_instance.

(* an inline HTML TAG inside a sentence (Proofs/HtmlSentence.v): pre <name> post - the name a letter followed by letters, digits or hyphens.
   WITH HtmlSpan among the span types (HtmlRenderer, MarkdownRenderer, MathJax) the tokens are the text, one HtmlSpan holding "<name>" as it
   stands, the text: HtmlSpan.pattern evaluated exactly on its first alternative, AutoLink.pattern PROVED TO FAIL at the same "<" (after a
   tag-like name no ":" follows wherever the bounded greedy scheme stops; the e-mail alternative meets no "@").  WITHOUT HtmlSpan (raw HTML
   switched off, LaTeX, the default token set) nothing is found and everything stays ONE RawText, so the renderer's escaping sees the "<"
   (C08: document text does not become markup) *)
From Mistletoe Require Import Proofs.HtmlSentence.
Theorem C03_html_span_in_sentence : forall types fn pre c0 run post,
  html_spans types = true -> html_ok pre c0 run post = true ->
  Inline.tokenize_inner types fn (pre ++ (60 :: c0 :: run ++ [62])%Z ++ post) = EmphSentence.raw_if pre ++ [HtmlSpan (60 :: c0 :: run ++ [62])%Z] ++ EmphSentence.raw_if post.
Proof. exact html_span_in_sentence. Qed.
Print Assumptions C03_html_span_in_sentence.

Theorem C03_html_tag_without_html_spans : forall types fn pre c0 run post,
  nohtml_spans types = true -> html_ok pre c0 run post = true ->
  Inline.tokenize_inner types fn (pre ++ (60 :: c0 :: run ++ [62])%Z ++ post) = [RawText (pre ++ (60 :: c0 :: run ++ [62])%Z ++ post)].
Proof. exact html_tag_without_html_spans. Qed.
Print Assumptions C03_html_tag_without_html_spans.

Theorem C03_html_span_hypotheses :
  (html_ok ($"so ") 98 [] ($" bold") = true) /\ (html_ok [] 109 ($"y-widget2") ($".") = true) /\
  (html_ok [] 49 [] [] = false) /\ (html_ok [] 98 ($" x") [] = false) /\ (html_ok [] 98 [] ($" me@ex.am") = false) /\
  map (fun c => html_spans (cfg_span c)) [cfg_html; cfg_html_nohtml; cfg_markdown; cfg_latex; cfg_mathjax; cfg_default] = [true; false; true; false; true; false] /\
  map (fun c => nohtml_spans (cfg_span c)) [cfg_html; cfg_html_nohtml; cfg_markdown; cfg_latex; cfg_mathjax; cfg_default] = [false; true; false; true; false; true].
Proof. exact html_span_instance. Qed.
Print Assumptions C03_html_span_hypotheses.
