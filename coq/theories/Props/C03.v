(* C03 — documents built from Markdown constructs parse to the tree they were built from.
   Model: the whole pipeline; yardstick: Spec/Spell.v (tree grammar, spellings, HTML of a tree),
   which does not use the parser model.

   PARTIAL.  Kernel-checked: for every tree of the finite family (314 one-block documents
   with containers nested two deep - quotes, tight bullet lists, fences/headings/breaks
   inside them - under all 48 spelling choices; 4356 two-block documents under 6 choices;
   adjacent same-marker lists excluded) the model renders the spelled text to exactly the
   HTML written from the tree.  The property's full grammar (inline constructs, ordered and
   loose lists, tables, HTML blocks, link definitions, lazy lines, indentation 0-3, depth 4,
   ~40 blocks) is decided on the implementation by the generator oracle, the model being
   tied to the implementation by X-doc on the generated texts. *)
From Coq Require Import ZArith List Bool.
From Mistletoe Require Import Base.Sx Base.PyStr Model.HtmlRenderer Model.Parser Spec.Spell Proofs.SpellLaw Proofs.SpellP.
Import ListNotations.
Local Open Scope Z_scope.

Theorem C03_bounded_trees : forall c d,
  (In d docs1 /\ In c all_choices) \/ (In d docs2 /\ In c few_choices) -> in_family d = true ->
  markdown_html (mkHopts false false) true (spell_doc c d) = html_doc d.
Proof. exact bounded_trees. Qed.
Print Assumptions C03_bounded_trees.

Theorem C03_family_is_not_vacuous :
  let d := [SQuote [SPara $"e"; SBullet [(SPara $"a", Some (SFence [ $"d" ])); (SFence [ $"c" ], None)]]] in
  in_family d = true /\
  spell_doc (mkCh 42 3 false true 126 true) d =
    $">e" ++ [10] ++ $">" ++ [10] ++ $">*   a" ++ [10] ++ $">     ~~~" ++ [10] ++ $">     d" ++ [10] ++ $">     ~~~" ++ [10] ++
    $">*   ~~~" ++ [10] ++ $">     c" ++ [10] ++ $">     ~~~" ++ [10] /\
  length (filter in_family (docs1 ++ docs2)) = 2906%nat.
Proof. exact a_composition. Qed.
Print Assumptions C03_family_is_not_vacuous.
