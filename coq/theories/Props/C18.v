(* C18 — the HTML-based contrib renderers conservatively extend the HTML renderer.
   Model: Model/Contrib.v (method resolution over the HTML model, driven by the
   method-resolution tables regenerated from the live classes, Gen/GenDispatch.v). *)
From Coq Require Import ZArith List Bool.
From Mistletoe Require Import Base.Sx Base.PyStr Model.Tree Gen.GenDispatch Model.HtmlRenderer Model.Contrib
     Model.SpanTokenizer Proofs.Dispatch.
Import ListNotations.

(* every method of HtmlRenderer's namespace that is not the renderer's own
   extension resolves, in each contrib class, to the class that supplies it for
   HtmlRenderer (the MathJax diamond included) *)
Theorem C18_dispatch : dispatch_ok = true.
Proof. exact dispatch_ok_hold. Qed.
Print Assumptions C18_dispatch.

Theorem C18_options_forwarded :
  forwards_kwargs_toc && forwards_kwargs_wiki && forwards_kwargs_mathjax && forwards_kwargs_pygments = true.
Proof. exact kwargs_forwarded. Qed.
Print Assumptions C18_options_forwarded.

(* on every tree that does not reach the renderer's own overrides (no code block
   for Pygments, no Math token and no nested Document for MathJax; any tree for
   Toc and GithubWiki) the contrib renderer produces exactly the HTML renderer's
   items, for every option set and whatever Pygments' highlight does *)
Theorem C18_render : forall hl k o t,
  avoids k (ext_of k) t = true ->
  forall sup hdr, render_with hl k (table_of k) o sup hdr t = render o sup hdr t.
Proof. exact contrib_conservative. Qed.
Print Assumptions C18_render.

Theorem C18_toc_any_tree : forall hl o t sup hdr, render_with hl KToc (table_of KToc) o sup hdr t = render o sup hdr t.
Proof.
  intros. apply render_with_plain.
  assert (H : forall t, plain_for KToc (table_of KToc) t = true).
  { intros t0. apply (avoids_plain KToc (table_of KToc) [] t0 (table_ok_k KToc)).
    induction t0 using tok_ind'; cbn; auto;
      repeat match goal with H : Tree.AllP _ _ |- _ => unfold Tree.AllP in H end;
      try (apply forallb_forall; intros x Hx; rewrite Forall_forall in H; auto).
    apply andb_true_iff. split.
    - destruct h; auto.
    - apply forallb_forall; intros x Hx; rewrite Forall_forall in H0; auto. }
  apply H.
Qed.
Print Assumptions C18_toc_any_tree.

Theorem C18_mathjax_document : forall hl o ch,
  forallb (avoids KMathJax (ext_of KMathJax)) ch = true ->
  render_contrib hl KMathJax o (Document ch) = render_html o (Document ch) ++ mathjax_src.
Proof. exact mathjax_document. Qed.
Print Assumptions C18_mathjax_document.

Theorem C18_parse : forall before ext after len,
  ext = [] -> tokenize (before ++ ext ++ after) len = tokenize (before ++ after) len.
Proof. exact empty_finder_changes_nothing. Qed.
Print Assumptions C18_parse.

(* ... and the extension tokens do find nothing on a text that does not use the extension: every match of
   Math.pattern consumes a '$', every match of GithubWiki.pattern a '[', a '|' and a ']' (the `needs` analysis of
   the regex engine, sound for every pattern, evaluated on the patterns regenerated from /repo) *)
From Mistletoe Require Import Re.ReMatch Gen.GenRegex Proofs.ReNeeds.
Local Open Scope Z_scope.

Theorem C18_math_needs_dollar : forall s, mem 36 s = false ->
  finditer fl_latex_token_Math_pattern re_latex_token_Math_pattern s = [].
Proof. intros s H. apply (finditer_none _ _ 36 s); [vm_compute; reflexivity|exact H]. Qed.
Print Assumptions C18_math_needs_dollar.

Theorem C18_wiki_needs_brackets_and_bar : forall s, mem 91 s && mem 124 s && mem 93 s = false ->
  finditer fl_github_wiki_GithubWiki_pattern re_github_wiki_GithubWiki_pattern s = [].
Proof.
  intros s H. apply andb_false_iff in H as [H|H]; [apply andb_false_iff in H as [H|H]|].
  - apply (finditer_none _ _ 91 s); [vm_compute; reflexivity|exact H].
  - apply (finditer_none _ _ 124 s); [vm_compute; reflexivity|exact H].
  - apply (finditer_none _ _ 93 s); [vm_compute; reflexivity|exact H].
Qed.
Print Assumptions C18_wiki_needs_brackets_and_bar.
