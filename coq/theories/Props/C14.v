(* C14 — ordinary prose passes through unchanged.
   Model: the whole pipeline (Model/Block.v, Inline.v, CoreTokens.v, Build.v, HtmlRenderer.v).

   (0) Unbounded, whole pipeline: every line that contains none of the 14 trigger characters
   \ * _ [ ] ! ` ~ < newline $ & { | , begins with a character that cannot open a block and does not
   end in white space is rendered as <p> + that text, HTML-escaped + </p> - for every token
   configuration that is modelled (C14_plain_line_passes_through).  This is the part of the
   property that needs no case analysis on neighbours; what remains PARTIAL is the class of
   paragraphs in which trigger characters DO occur in inert positions (isolated *, intraword _,
   unpaired brackets, & without a reference, several lines).

   PARTIAL for that class.  (a) Unbounded: for the block-start patterns regenerated from /repo, a line whose
   first character is not a marker character cannot start any block kind other than a
   paragraph or a table (a table needs a delimiter row as its second line), and the ASCII
   marker characters are exactly white space # * + - 0-9 < > [ _ ` ~ — so '.', ')' and
   letters never open a list, which is the defect the property records.  (b) Bounded: the
   pipeline renders every paragraph of the stated family that passes the inertness
   predicate (written from the CommonMark rules, independent of the parser model) as
   <p> + escaped text + </p>.  The 143-token vocabulary and 1-4 lines are decided on the
   implementation by the oracle. *)
From Coq Require Import ZArith List Bool.
From Mistletoe Require Import Base.Sx Base.PyStr Base.PyText Gen.GenConfig Model.Tree Model.CoreTokens Model.Block Model.HtmlRenderer Model.Parser
     Proofs.Laws Proofs.Prose Proofs.ProseP Proofs.PlainProse.
Import ListNotations.
Local Open Scope Z_scope.

Theorem C14_block_starts_need_their_marker :
  (forall types rec k c t rest ln st,
     plain_first c = true -> non_paragraph_non_table k = true ->
     start_read types rec k ((c :: t) :: rest) ln st = None) /\
  filter (fun c => negb (plain_first c)) ascii_codes =
  [9; 10; 11; 12; 13; 28; 29; 30; 31; 32; 35; 42; 43; 45; 48; 49; 50; 51; 52; 53; 54; 55; 56; 57; 60; 62; 91; 95; 96; 126].
Proof. split; [exact block_starts_need_marker|exact marker_characters]. Qed.
Print Assumptions C14_block_starts_need_their_marker.

(* every paragraph of one line of 1-3 tokens, or two lines of 1-2 tokens each, over the 16-token vocabulary
   prose_vocab = a b_c * - + # > = | 1. 2) . ) & [ ] (tokens joined by single spaces) *)
Theorem C14_bounded_prose : forall lines,
  prose_family lines -> inert_text lines = true ->
  markdown_html (mkHopts false false) true (join [10] lines) = prose_expected (mkHopts false false) lines.
Proof.
  intros lines F Hi. pose proof (bounded_prose lines F Hi) as H. unfold prose_law in H.
  apply str_eqb_eq. exact H.
Qed.
Print Assumptions C14_bounded_prose.

Theorem C14_inert_predicate_is_not_vacuous :
  length (filter (fun l => inert_text [l]) (prose_lines12 ++ prose_lines3)) = 2172%nat /\
  inert_text [ $". a"; $") b_c & ]" ] = true /\
  inert_text [ $"1. a" ] = false /\ inert_text [ $"a"; $"-" ] = false /\ inert_text [ $"* a" ] = false /\
  inert_text [ $"a *b* c" ] = false /\ inert_text [ $"[ a ]" ] = false /\ inert_text [ $"# a" ] = false.
Proof. exact inert_counts. Qed.
Print Assumptions C14_inert_predicate_is_not_vacuous.

(* the 14 trigger characters, the plain lines, and the theorem through block phase, inline phase and renderer *)
Theorem C14_plain_line_passes_through : forall cfg o l,
  plain_line l -> quiet_config cfg = true ->
  render_html o (fst (fst (parse_lines cfg [l ++ [10]]))) = $"<p>" ++ escape_html_text o l ++ $"</p>" ++ [10].
Proof. exact plain_line_renders. Qed.
Print Assumptions C14_plain_line_passes_through.

Theorem C14_plain_line_parses : forall cfg l,
  plain_line l -> quiet_config cfg = true -> parse_lines cfg [l ++ [10]] = (Document [Paragraph [RawText l]], [], [1]).
Proof. exact plain_line_parses. Qed.
Print Assumptions C14_plain_line_parses.

Theorem C14_plain_hypotheses_hold :
  forallb quiet_config [cfg_html; cfg_html_nohtml; cfg_markdown; cfg_latex; cfg_mathjax; cfg_default] = true /\
  plain_line ($"e.g. 2 + 2 = 4 (nearly) #tag 50% @you a-b a.b) -1 :-") /\
  plain_line ($". x") /\ plain_line ($") x") /\ ~ plain_line ($"1. x") /\ ~ plain_line ($"a *b*").
Proof. split; [exact configs_quiet|exact a_plain_line]. Qed.
Print Assumptions C14_plain_hypotheses_hold.

(* ... and for paragraphs of SEVERAL lines (Proofs/ProseLines.v): a first plain line, then any number of continuation lines
   - plain lines whose first character can, besides, be neither a setext underline nor a list-item marker - parse to ONE
   paragraph holding the lines as raw text separated by soft line breaks, and render as <p> + the lines, escaped, joined
   by newlines + </p>.  The paragraph reader goes on over every line (no block interrupts it); the LineBreak pattern
   finds exactly the newlines (evaluated in the regex engine); every other span finder and the delimiter scanner find
   nothing; the candidates tile the text. *)
From Mistletoe Require Import Proofs.ProseLines.
Theorem C14_prose_paragraph_passes_through : forall cfg o l ls,
  plain_line l -> Forall cont_line ls -> prose_config cfg = true ->
  render_html o (fst (fst (parse_lines cfg (nl_lines (l :: ls))))) =
  $"<p>" ++ join [10] (map (escape_html_text o) (l :: ls)) ++ $"</p>" ++ [10].
Proof. exact prose_paragraph_renders. Qed.
Print Assumptions C14_prose_paragraph_passes_through.

Theorem C14_prose_paragraph_parses : forall cfg l ls,
  plain_line l -> Forall cont_line ls -> prose_config cfg = true ->
  fst (fst (parse_lines cfg (nl_lines (l :: ls)))) = Document [Paragraph (prose_toks (l :: ls))].
Proof. exact prose_paragraph_parses. Qed.
Print Assumptions C14_prose_paragraph_parses.

Theorem C14_prose_hypotheses_hold :
  forallb prose_config [cfg_html; cfg_html_nohtml; cfg_markdown; cfg_latex; cfg_mathjax; cfg_default] = true /\
  (plain_line ($"Of course 2 + 2 = 4 (nearly),") /\ cont_line ($"e.g. 50% @home; see #tag") /\ cont_line ($"and so on: a-b a.b) -1 :-") /\
   ~ cont_line ($"=== underline") /\ ~ cont_line ($"1986. A year") /\
   escape_html_text (mkHopts false false) ($"a > b ""c""") = $"a &gt; b ""c""").
Proof. split; [exact prose_configs|exact prose_instance]. Qed.
Print Assumptions C14_prose_hypotheses_hold.

(* ... and for paragraphs in which DELIMITER CHARACTERS STAND WHERE THEY MEAN NOTHING (Proofs/InertProse.v): any number of
   lines; the joined text has no backslash or backtick, no & or no ; (no character reference can be completed), no ] directly followed by ( - the document defines no link
   references - and no run of * or _ that could close emphasis by the flanking rules (isolated runs, intraword underscores,
   runs that can only open): however many runs, [ ![ and ] it holds, the delimiter scanner ends with no match (an invariant
   of its loop), every regex-defined span token of the configuration needs a character the text lacks (so `a < b` with
   no > is inert), and the paragraph is its text, escaped, between <p> and </p>. *)
From Mistletoe Require Import Proofs.InertProse.
Theorem C14_inert_delimiters_pass_through : forall cfg o l ls,
  inert_paragraph l ls -> lacks_nl_config cfg (join [10] (l :: ls)) = true ->
  render_html o (fst (fst (parse_lines cfg (nl_lines (l :: ls))))) =
  $"<p>" ++ join [10] (map (escape_html_text o) (l :: ls)) ++ $"</p>" ++ [10].
Proof. exact inert_paragraph_renders. Qed.
Print Assumptions C14_inert_delimiters_pass_through.

(* the same with every hypothesis a computable check *)
Theorem C14_inert_delimiters_decidable : forall cfg o l ls,
  inert_paragraph_b l ls = true -> lacks_nl_config cfg (join [10] (l :: ls)) = true ->
  render_html o (fst (fst (parse_lines cfg (nl_lines (l :: ls))))) =
  $"<p>" ++ join [10] (map (escape_html_text o) (l :: ls)) ++ $"</p>" ++ [10].
Proof. exact inert_paragraph_b_renders. Qed.
Print Assumptions C14_inert_delimiters_decidable.

(* the scanner alone: no match, whatever the number of runs and brackets *)
Theorem C14_scanner_finds_nothing : forall s,
  mem 92 s = false -> mem 96 s = false ->
  (forall i, 0 <= i < slen s -> char_at s i = 93 -> follows s i 40 = false)%Z ->
  (forall a b, run_at s a b -> is_closer a b s = false) ->
  find_core_tokens s [] = ([], []).
Proof. exact core_inert. Qed.
Print Assumptions C14_scanner_finds_nothing.

Theorem C14_inert_hypotheses_hold :
  let l := $"so 2 * 3 = 6 and snake_case stays," in
  let ls := [$"a [b] c, ![d], e] and [f *"; $"then x < y _ z and **open"; $"f(x)[i] = a_b * c_d"; $"AT&T & co"] in
  inert_paragraph_b l ls = true /\
  forallb (fun c => lacks_nl_config c (join [10] (l :: ls))) [cfg_html; cfg_html_nohtml; cfg_markdown; cfg_latex; cfg_mathjax; cfg_default] = true /\
  inert_paragraph_b ($"a *b") [$"c* d"] = false /\ inert_paragraph_b ($"a [b](c)") [$"d"] = false.
Proof. exact inert_paragraph_instance. Qed.
Print Assumptions C14_inert_hypotheses_hold.

(* is_closer in the hypothesis above, and follows, are the functions of core_tokens.py as the source has them now
   (Gen/GenCore.v, regenerated on every run; Proofs/CoreRegen.v) *)
From Mistletoe Require Import Gen.GenCore Proofs.CoreRegen.
Theorem C14_closer_is_the_source : forall a b s i c, g_is_closer a b s = is_closer a b s /\ g_follows s i c = follows s i c.
Proof. intros. split; [apply is_closer_regen|apply follows_regen]. Qed.
Print Assumptions C14_closer_is_the_source.

(* The `start` predicates of the block model are the `start` methods of block_token.py as the source has them now:
   Gen/GenBlockStart.v is written from the source text on every run (harness/gen/gen_blockstart.py, Python ast, fails
   closed); the model's definitions are equal to it on every line, the class attributes Heading.start and
   CodeFence.start and HtmlBlock.start leave behind for read() included (Proofs/BlockStartRegen.v). *)
From Mistletoe Require Import Model.Block Gen.GenBlockStart Proofs.BlockStartRegen.
Theorem C14_block_starts_are_the_source : forall line,
  g_Quote_start line = quote_start line /\ g_Paragraph_start line = paragraph_start line /\
  g_BlockCode_start line = blockcode_start line /\ g_Table_start line = table_start line /\
  g_Footnote_start line = footnote_start line /\ g_ThematicBreak_start line = thematic_start line /\
  g_List_start line = list_start line /\ g_BlankLine_start line = blankline_start line /\
  g_Heading_start line = heading_start line /\ g_CodeFence_start line = codefence_start line /\ g_HtmlBlock_start line = htmlblock_start line.
Proof. exact block_starts_regenerated. Qed.
Print Assumptions C14_block_starts_are_the_source.

(* A BACKSLASH THAT ESCAPES NOTHING IS ORDINARY TEXT (Proofs/LiteralBackslash.v): text, a backslash, a character c, text - c not one
   of the characters EscapeSequence.pattern lets a backslash escape and not a trigger character (so: a letter, a digit, a space,
   anything beyond ASCII; lit_chars settles the 32 punctuation characters and the line ending as outside, letters and digits as
   inside) - tokenizes to ONE RawText holding all of it, the backslash included (CommonMark 2.4).  The pattern - regenerated from
   span_token.py on every run - is evaluated at the backslash and fails on c; the scanner steps over both characters. *)
From Mistletoe Require Import Model.Inline Proofs.EscSentence Proofs.LiteralBackslash.
Theorem C14_literal_backslash : forall types fn pre c post,
  lit_spans types = true -> lit_ok pre c post = true ->
  tokenize_inner types fn (pre ++ [92; c] ++ post) = [RawText (pre ++ [92; c] ++ post)].
Proof. exact literal_backslash. Qed.
Print Assumptions C14_literal_backslash.

Theorem C14_literal_backslash_hypotheses :
  (forallb lit_char ($"azAZ09 ") = true /\ lit_char 233 = true /\ lit_char 20013 = true /\
   forallb (fun c => negb (lit_char c)) ($"!""#$%&'()*+,-./:;<=>?@[\]^_`{|}~") = true /\ lit_char 10 = false) /\
  map (fun cf => lit_spans (cfg_span cf)) [cfg_html; cfg_html_nohtml; cfg_markdown; cfg_latex; cfg_mathjax; cfg_default] = [true; true; true; true; true; true] /\
  lit_ok ($"the C:") 50 ($"024 reports") = true /\ lit_ok ($"a ") 42 ($" b") = false.
Proof. split; [exact lit_chars|]. split; [exact lit_configs|]. vm_compute. split; reflexivity. Qed.
Print Assumptions C14_literal_backslash_hypotheses.
