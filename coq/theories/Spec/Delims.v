(* The CommonMark 0.30 delimiter-run algorithm ("process emphasis"), written from
   the specification's appendix, independently of the model of core_tokens.py:
   delimiter runs with their ORIGINAL length, left/right flanking, the underscore
   restrictions, the rule of three on original lengths, openers_bottom keyed by
   (character, closer can open, original length mod 3).  Input: a string whose only
   inline-significant characters are '*' and '_'.  Output: its rendering with
   <em>/<strong>. *)
From Coq Require Import ZArith List Bool.
From Mistletoe Require Import Base.Sx Base.PyStr Base.PyText Gen.GenTables.
Import ListNotations.
Local Open Scope Z_scope.

Definition spec_ws (c : Z) : bool := in_rs spec_ws_ranges c.
Definition spec_punct (c : Z) : bool := in_rs spec_punct_ranges c.

(* flanking, from section 6.2: the characters before and after the run (line ends count as whitespace) *)
Definition left_flanking (before after : Z) : bool :=
  negb (spec_ws after) && (negb (spec_punct after) || spec_ws before || spec_punct before).
Definition right_flanking (before after : Z) : bool :=
  negb (spec_ws before) && (negb (spec_punct before) || spec_ws after || spec_punct after).
Definition can_open (ch before after : Z) : bool :=
  if ch =? 42 then left_flanking before after
  else left_flanking before after && (negb (right_flanking before after) || spec_punct before).
Definition can_close (ch before after : Z) : bool :=
  if ch =? 42 then right_flanking before after
  else right_flanking before after && (negb (left_flanking before after) || spec_punct after).

Inductive node :=
| NText (c : Z)
| NDelim (ch : Z) (n orig : Z) (opens closes active : bool) (pos : Z)
| NEm (strong : bool) (children : list node).

(* lexing into text characters and delimiter runs *)
Fixpoint run_length (ch : Z) (s : str) : nat :=
  match s with c :: r => if c =? ch then S (run_length ch r) else O | [] => O end.

Fixpoint lex_runs (fuel : nat) (prev : Z) (s : str) (pos : Z) : list node :=
  match fuel with
  | O => []
  | S f =>
    match s with
    | [] => []
    | c :: r =>
      if (c =? 42) || (c =? 95) then
        let k := run_length c r in
        let rest := skipn k r in
        let after := match rest with x :: _ => x | [] => 32 end in
        let n := Z.of_nat (S k) in
        NDelim c n n (can_open c prev after) (can_close c prev after) true pos :: lex_runs f c rest (pos + n)
      else NText c :: lex_runs f c r (pos + 1)
    end
  end.

Definition is_closer_node (d : node) : bool :=
  match d with NDelim _ _ _ _ closes active _ => closes && active | _ => false end.

Fixpoint next_closer_idx (l : list node) (i : nat) : option nat :=
  match l with
  | [] => None
  | d :: r => if is_closer_node d then Some i else next_closer_idx r (S i)
  end.
Definition next_closer_from (out : list node) (p : nat) : option nat := next_closer_idx (skipn p out) p.

Definition bkey := (Z * bool * Z)%type.
Definition bkey_eq (a b : bkey) : bool :=
  match a, b with (c1, o1, m1), (c2, o2, m2) => (c1 =? c2) && Bool.eqb o1 o2 && (m1 =? m2) end.
Fixpoint bottom_get (k : bkey) (bs : list (bkey * Z)) : Z :=
  match bs with [] => -1 | (k', v) :: r => if bkey_eq k k' then v else bottom_get k r end.

(* look back from index q for an opener that matches the closer *)
Fixpoint find_opener (rev_prefix : list node) (q : nat) (cch corig : Z) (copens : bool) (bpos : Z) : option nat :=
  match rev_prefix with
  | [] => None
  | d :: r =>
    let continue_ := match q with O => None | S q' => find_opener r q' cch corig copens bpos end in
    match d with
    | NDelim ch n orig opens closes true pos =>
      if pos <? bpos then None
      else if opens && (ch =? cch) then
        let odd := (closes || copens) && ((orig + corig) mod 3 =? 0) && negb ((orig mod 3 =? 0) && (corig mod 3 =? 0)) in
        if negb odd then Some q else continue_
      else continue_
    | _ => continue_
    end
  end.

Definition deactivate (d : node) : node :=
  match d with NDelim ch n orig o c _ pos => NDelim ch n orig o c false pos | _ => d end.

Fixpoint process (fuel : nat) (out : list node) (bottoms : list (bkey * Z)) (p : option nat) : list node :=
  match fuel with
  | O => out
  | S f =>
    match p with
    | None => out
    | Some p =>
      match nth_error out p with
      | Some (NDelim cch cn corig copens ccloses cactive cpos) =>
        let k := (cch, copens, corig mod 3) in
        match p with
        | O => (* nothing before the closer *)
          let out' := if copens then out else firstn p out ++ deactivate (NDelim cch cn corig copens ccloses cactive cpos) :: skipn (S p) out in
          process f out' ((k, cpos) :: bottoms) (next_closer_from out' (S p))
        | S pm =>
          match find_opener (rev (firstn p out)) pm cch corig copens (bottom_get k bottoms) with
          | Some q =>
            match nth_error out q with
            | Some (NDelim och on oorig oopens ocloses oactive opos) =>
              let n := if (2 <=? on) && (2 <=? cn) then 2 else 1 in
              let inner := map deactivate (firstn (p - q - 1) (skipn (S q) out)) in
              let nd := NEm (n =? 2) inner in
              let opener' := if 0 <? on - n then [NDelim och (on - n) oorig oopens ocloses oactive opos] else [] in
              let closer' := if 0 <? cn - n then [NDelim cch (cn - n) corig copens ccloses cactive (cpos + n)] else [] in
              let new := firstn q out ++ opener' ++ [nd] in
              let out' := new ++ closer' ++ skipn (S p) out in
              process f out' bottoms (next_closer_from out' (length new))
            | _ => out
            end
          | None =>
            let out' := if copens then out else firstn p out ++ deactivate (NDelim cch cn corig copens ccloses cactive cpos) :: skipn (S p) out in
            process f out' ((k, cpos) :: bottoms) (next_closer_from out' (S p))
          end
        end
      | _ => out
      end
    end
  end.

Fixpoint render_node (fuel : nat) (d : node) : str :=
  match fuel with
  | O => []
  | S f =>
    match d with
    | NText c => [c]
    | NDelim ch n _ _ _ _ _ => repeat ch (Z.to_nat n)
    | NEm strong ch =>
      (if strong then $"<strong>" else $"<em>") ++ flat_map (render_node f) ch ++ (if strong then $"</strong>" else $"</em>")
    end
  end.

Definition spec_emphasis (s : str) : str :=
  let out := lex_runs (S (length s)) 32 s 0 in
  let out' := process (3 * length s + 3) out [] (next_closer_from out O) in
  flat_map (render_node (S (length s))) out'.
