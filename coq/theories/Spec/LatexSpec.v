(* Specification side of C17: when is escaped text / a URL argument / an item
   list structurally harmless, and a checker for an output STRING (oracle on the
   implementation's output, verbatim and math material set aside by the caller). *)
From Coq Require Import ZArith List Bool.
From Mistletoe Require Import Base.Sx Base.PyStr Model.LatexRenderer Spec.HtmlSpec.
Import ListNotations.
Local Open Scope Z_scope.

(* $ # { } & _ % ^ \ *)
Definition specials : list Z := [36; 35; 123; 125; 38; 95; 37; 94; 92].
Definition is_special (c : Z) : bool := mem c specials.

(* after a backslash: one of  $ # { } & _ %   or  ^{}  or  textbackslash{} *)
Definition escape_tails : list str :=
  [[36]; [35]; [123]; [125]; [38]; [95]; [37]; $"^{}"; $"textbackslash{}"].

(* Declarative: escaped text is a sequence of ordinary characters and escape
   sequences (backslash + tail). *)
Inductive Esc : str -> Prop :=
| Esc_nil : Esc []
| Esc_plain c s : is_special c = false -> Esc s -> Esc (c :: s)
| Esc_seq e s : In e escape_tails -> Esc s -> Esc (92 :: e ++ s).

(* executable counterpart (used on regenerated data by vm_compute) *)
Fixpoint escb (fuel : nat) (s : str) : bool :=
  match fuel with
  | O => false
  | S f =>
    match s with
    | [] => true
    | c :: r =>
      if c =? 92 then
        existsb (fun e => match strip_prefix e r with Some rest => escb f rest | None => false end) escape_tails
      else negb (is_special c) && escb f r
    end
  end.
Definition latex_escapedb (s : str) : bool := escb (S (length s)) s.

(* argument of \href / \url: braces, backslash, ^, $ never raw; % and # only
   as \% \# ; & _ ~ are left raw there by design (hyperref reads the argument
   with verbatim catcodes) *)
Definition url_plain (c : Z) : bool :=
  negb ((c =? 92) || (c =? 123) || (c =? 125) || (c =? 94) || (c =? 36) || (c =? 37) || (c =? 35)).

Inductive UrlOk : str -> Prop :=
| UrlOk_nil : UrlOk []
| UrlOk_plain c s : url_plain c = true -> UrlOk s -> UrlOk (c :: s)
| UrlOk_esc c s : c = 37 \/ c = 35 -> UrlOk s -> UrlOk (92 :: c :: s).

Fixpoint urlb (s : str) : bool :=
  match s with
  | [] => true
  | c :: r =>
    if c =? 92 then
      match r with
      | c2 :: r2 => ((c2 =? 37) || (c2 =? 35)) && urlb r2
      | [] => false
      end
    else url_plain c && urlb r
  end.
Definition url_arg_safeb (s : str) : bool := urlb s.

Definition no_braceb (s : str) : bool := forallb (fun c => negb ((c =? 123) || (c =? 125))) s.
Definition plain_argb (s : str) : bool := forallb (fun c => negb (is_special c)) s.

Definition litem_okb (i : litem) : bool :=
  match i with
  | LText s => latex_escapedb s
  | LCmd s => no_braceb s
  | LUrl s => url_arg_safeb s
  | LArg s => plain_argb s
  | _ => true
  end.

(* groups and environments: one stack; None marks a brace group *)
Fixpoint lbalanced_from (stack : list (option str)) (l : list litem) : bool :=
  match l with
  | [] => match stack with [] => true | _ => false end
  | LOpen :: r => lbalanced_from (None :: stack) r
  | LClose :: r => match stack with None :: st => lbalanced_from st r | _ => false end
  | LBegin e :: r => lbalanced_from (Some e :: stack) r
  | LEnd e :: r => match stack with
                   | Some e' :: st => str_eqb e e' && lbalanced_from st r
                   | _ => false
                   end
  | _ :: r => lbalanced_from stack r
  end.
Definition lbalancedb (l : list litem) : bool := lbalanced_from [] l.

(* ---------------- string-level checker (oracle) ----------------
   Input: output of the renderer on a tree whose verbatim and math material was
   replaced by alphanumeric placeholders.  0 = ok; 1 unbalanced group/environment;
   2 raw special character; 3 malformed \begin/\end. *)
Definition is_letter (c : Z) : bool := ((65 <=? c) && (c <=? 90)) || ((97 <=? c) && (c <=? 122)).

Inductive frame := FGroup | FUrl | FEnv (e : str).

Definition in_url (st : list frame) : bool := match st with FUrl :: _ => true | _ => false end.

Fixpoint scan (fuel : nat) (st : list frame) (pending_url : bool) (prev : Z) (s : str) : Z :=
  match fuel with
  | O => 1
  | S f =>
    match s with
    | [] => match st with [] => 0 | _ => 1 end
    | 92 :: r =>
      let '(name, r1) := span is_letter r in
      match name with
      | [] => match r1 with
              | c :: r2 => scan f st pending_url c r2          (* escaped character *)
              | [] => 2
              end
      | _ =>
        if str_eqb name $"begin" || str_eqb name $"end" then
          match r1 with
          | 123 :: r2 =>
            let '(env, r3) := span is_alnum_ascii r2 in
            match r3 with
            | 125 :: r4 =>
              if str_eqb name $"begin" then scan f (FEnv env :: st) false 125 r4
              else match st with
                   | FEnv e' :: st' => if str_eqb env e' then scan f st' false 125 r4 else 1
                   | _ => 1
                   end
            | _ => 3
            end
          | _ => 3
          end
        else scan f st (str_eqb name $"href" || str_eqb name $"url") 97 r1
      end
    | 123 :: r => scan f ((if pending_url then FUrl else FGroup) :: st) false 123 r
    | 125 :: r => match st with
                  | FGroup :: st' | FUrl :: st' => scan f st' false 125 r
                  | _ => 1
                  end
    | c :: r =>
      if (c =? 36) || (c =? 35) || (c =? 37) || (c =? 94) then 2
      else if c =? 38 then
        if in_url st || ((prev =? 32) && match r with 32 :: _ => true | _ => false end)
        then scan f st pending_url c r else 2
      else if c =? 95 then (if in_url st then scan f st pending_url c r else 2)
      else scan f st pending_url c r
    end
  end.

Definition check_latex (s : str) : Z := scan (S (length s)) [] false 10 s.
