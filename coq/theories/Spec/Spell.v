(* C03: a small grammar of block trees, the spellings CommonMark leaves free for them, and
   the HTML written directly from the tree.  Nothing here uses the parser model: the
   kernel sweep of Proofs/SpellSweep/*.v compares markdown_html (spell c t) with html_of t. *)
From Coq Require Import ZArith List Bool.
From Mistletoe Require Import Base.Sx Base.PyStr Base.PyText.
Import ListNotations.
Local Open Scope Z_scope.

Inductive sblk :=
| SPara (w : str)                         (* one line of plain words *)
| SAtx (level : nat) (w : str)
| SHr
| SFence (lines : list str)
| SQuote (bs : list sblk)
| SBullet (items : list (sblk * option sblk)).   (* a TIGHT bullet list: each item is a first block and, optionally, a block that may follow it without a blank line *)

(* the free choices, applied uniformly *)
Record choices := mkCh {
  ch_bullet : Z;          (* 45 '-', 42 '*', 43 '+' *)
  ch_pad : nat;           (* spaces after a list marker, 1..4 *)
  ch_qspace : bool;       (* "> " or ">" *)
  ch_blank : bool;        (* a blank line between blocks where it is optional *)
  ch_fence : Z;           (* 96 '`' or 126 '~' *)
  ch_closing : bool       (* closing # run on ATX headings *)
}.

Definition is_para (b : sblk) : bool := match b with SPara _ => true | _ => false end.
Definition is_container (b : sblk) : bool := match b with SQuote _ | SBullet _ => true | _ => false end.

(* a blank line is REQUIRED between a and b (a before b) *)
Definition blank_required (a b : sblk) : bool := is_container a || (is_para a && is_para b).

Definition hr_line (c : choices) (after_para : bool) : str :=
  (* "---" right after a paragraph line would be a setext underline; '*' is also the bullet: use '_' when it must differ *)
  if after_para || (ch_bullet c =? 45) then $"___" else $"---".

Section Spell.
  Variable c : choices.

  Fixpoint spell_block (fuel : nat) (after_para : bool) (b : sblk) : list str :=
    match fuel with
    | O => []
    | S f =>
      let spell_seq :=
        (fix go (prev : option sblk) (bs : list sblk) : list str :=
           match bs with
           | [] => []
           | b :: r =>
             let sep := match prev with
                        | None => []
                        | Some a => if blank_required a b || ch_blank c then [[]] else []
                        end in
             let ap := match prev, sep with Some a, [] => is_para a | _, _ => false end in
             sep ++ spell_block f ap b ++ go (Some b) r
           end) in
      match b with
      | SPara w => [w]
      | SAtx n w => [repeat 35 n ++ [32] ++ w ++ (if ch_closing c then $" ##" else [])]
      | SHr => [hr_line c after_para]
      | SFence lines => [repeat (ch_fence c) 3] ++ lines ++ [repeat (ch_fence c) 3]
      | SQuote bs =>
        map (fun l => match l with
                      | [] => [62]
                      | _ => if ch_qspace c then 62 :: 32 :: l else (match l with 32 :: _ => 62 :: 32 :: l | _ => 62 :: l end)
                      end) (spell_seq None bs)
      | SBullet items =>
        flat_map (fun it =>
                    let first := spell_block f false (fst it) in
                    let second := match snd it with Some s => spell_block f (is_para (fst it)) s | None => [] end in
                    let w := S (ch_pad c) in
                    match first ++ second with
                    | [] => []
                    | l0 :: rest =>
                      ([ch_bullet c] ++ repeat 32 (ch_pad c) ++ l0) ::
                      map (fun l => match l with [] => [] | _ => repeat 32 w ++ l end) rest
                    end) items
      end
    end.

  Definition spell_doc (bs : list sblk) : str :=
    let lines :=
      (fix go (prev : option sblk) (bs : list sblk) : list str :=
         match bs with
         | [] => []
         | b :: r =>
           let sep := match prev with
                      | None => []
                      | Some a => if blank_required a b || ch_blank c then [[]] else []
                      end in
           let ap := match prev, sep with Some a, [] => is_para a | _, _ => false end in
           sep ++ spell_block 6 ap b ++ go (Some b) r
         end) None bs in
    concat (map (fun l => l ++ [10]) lines).
End Spell.

(* ---- the HTML of a tree, written directly (the renderer's layout) ---- *)
Fixpoint html_of (fuel : nat) (tight : bool) (b : sblk) : str :=
  match fuel with
  | O => []
  | S f =>
    match b with
    | SPara w => if tight then w else $"<p>" ++ w ++ $"</p>"
    | SAtx n w => $"<h" ++ [48 + Z.of_nat n] ++ $">" ++ w ++ $"</h" ++ [48 + Z.of_nat n] ++ $">"
    | SHr => $"<hr />"
    | SFence lines => $"<pre><code>" ++ concat (map (fun l => l ++ [10]) lines) ++ $"</code></pre>"
    | SQuote bs => $"<blockquote>" ++ [10] ++ concat (map (fun x => html_of f false x ++ [10]) bs) ++ $"</blockquote>"
    | SBullet items =>
      $"<ul>" ++ [10] ++
      concat (map (fun it =>
                     let first := fst it in
                     let kids := first :: match snd it with Some s => [s] | None => [] end in
                     let last_is_para := match snd it with Some s => is_para s | None => is_para first end in
                     $"<li>" ++ (if is_para first then [] else [10]) ++
                     join [10] (map (html_of f true) kids) ++
                     (if last_is_para then [] else [10]) ++ $"</li>" ++ [10]) items) ++
      $"</ul>"
    end
  end.

Definition html_doc (bs : list sblk) : str := concat (map (fun b => html_of 6 false b ++ [10]) bs).

(* ---- the finite families ---- *)
Definition leaves : list sblk := [SPara $"a"; SAtx 2 $"b"; SHr; SFence [ $"c" ]].
Definition item_firsts : list sblk := [SPara $"a"; SAtx 1 $"b"; SFence [ $"c" ]].
Definition pairs {A} (l : list A) : list (list A) := map (fun x => [x]) l ++ flat_map (fun x => map (fun y => [x; y]) l) l.

Definition level1_containers : list sblk :=
  map SQuote (pairs leaves) ++
  map SBullet (pairs (flat_map (fun f => [(f, None); (f, Some (SFence [ $"d" ]))]) item_firsts)).
Definition level1 : list sblk := leaves ++ level1_containers.
Definition level2_containers : list sblk :=
  map (fun x => SQuote [x]) level1_containers ++
  map (fun x => SQuote [SPara $"e"; x]) level1_containers ++
  map (fun x => SBullet [(SPara $"a", Some x)]) level1_containers ++
  map (fun x => SBullet [(x, None); (SPara $"f", None)]) level1_containers.

Definition docs1 : list (list sblk) := map (fun b => [b]) (level1 ++ level2_containers).
Definition docs2 : list (list sblk) := flat_map (fun x => map (fun y => [x; y]) level1) level1.

Definition all_choices : list choices :=
  flat_map (fun b => flat_map (fun p => flat_map (fun q => flat_map (fun bl =>
     [mkCh b p q bl 96 false; mkCh b p q bl 126 true]) [true; false]) [true; false]) [1%nat; 3%nat]) [45; 42; 43].

(* two adjacent bullet lists written with the same marker are one list: the speller has no per-list choice,
   so such documents are outside the family *)
Definition is_bullet (b : sblk) : bool := match b with SBullet _ => true | _ => false end.
Fixpoint adjacent_lists (bs : list sblk) : bool :=
  match bs with
  | a :: ((b :: _) as r) => (is_bullet a && is_bullet b) || adjacent_lists r
  | _ => false
  end.
Fixpoint deep_adjacent (fuel : nat) (b : sblk) : bool :=
  match fuel with
  | O => false
  | S f =>
    match b with
    | SQuote bs => adjacent_lists bs || existsb (deep_adjacent f) bs
    | SBullet items =>
      existsb (fun it => deep_adjacent f (fst it) ||
                         match snd it with Some s => deep_adjacent f s || (is_bullet (fst it) && is_bullet s) | None => false end) items
    | _ => false
    end
  end.
Definition in_family (bs : list sblk) : bool := negb (adjacent_lists bs) && negb (existsb (deep_adjacent 6) bs).

Definition few_choices : list choices :=
  flat_map (fun b => [mkCh b 1 true false 96 false; mkCh b 2 false true 126 true]) [45; 42; 43].
