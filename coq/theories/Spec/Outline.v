(* Tight nested bullet lists written one item per line, the way TocRenderer.toc writes a
   table of contents: every item is "<indent><bullet><pad spaces><title>", its sub-items
   follow directly, indented `sub` columns beyond the parent's content.  This file holds the
   tree grammar (a forest of titled nodes), its spelling as structured lines and the
   pre-token / token trees expected from it.  Nothing here uses the tokenizer. *)
From Coq Require Import ZArith List Bool Lia.
From Mistletoe Require Import Base.Sx Base.PyStr Base.PyText Model.Tree Model.Block Proofs.ListLaw Spec.Fragment.
Import ListNotations.
Local Open Scope Z_scope.

Inductive onode := ONode (c : Z) (body : str) (kids : list onode).      (* title = c :: body *)

Section Outline.
  Variables (b : Z) (pad sub : nat).      (* bullet, spaces after it, indentation of a sub-list inside its item *)

  Fixpoint olines (k : nat) (n : onode) : list sline :=
    match n with
    | ONode c body kids => SLine k b (repeat 32 pad ++ c :: body) :: map (embed_s (k + 1 + pad)) (flat_map (olines sub) kids)
    end.
  Definition oforest (k : nat) (ns : list onode) : list sline := flat_map (olines k) ns.

  Fixpoint osize (n : onode) : nat := match n with ONode _ _ kids => S (fold_right (fun x m => (osize x + m)%nat) 0%nat kids) end.
  Fixpoint odepth (n : onode) : nat := match n with ONode _ _ kids => S (fold_right (fun x m => Nat.max (odepth x) m) 0%nat kids) end.

  (* the pre-token tree: an item holds its title as a paragraph and, if it has sub-items, one list *)
  Fixpoint opre (k : nat) (ln : Z) (n : onode) : pre :=
    let items := (fix items (ln : Z) (ns : list onode) : list pre :=
                    match ns with [] => [] | x :: r => opre sub ln x :: items (ln + Z.of_nat (osize x)) r end) in
    match n with
    | ONode c body kids =>
      PItem ln (PParagraph ln [c :: body ++ [10]] :: match kids with [] => [] | _ => [PList (ln + 1) (items (ln + 1) kids)] end)
            false (Z.of_nat k) (Z.of_nat (k + 1 + pad)) [b]
    end.
  Fixpoint oitems (k : nat) (ln : Z) (ns : list onode) : list pre :=
    match ns with [] => [] | x :: r => opre k ln x :: oitems k (ln + Z.of_nat (osize x)) r end.

  (* the token tree *)
  Fixpoint otok (k : nat) (n : onode) : tok :=
    match n with
    | ONode c body kids =>
      ListItem (mkItem [b] (Z.of_nat k) (Z.of_nat (k + 1 + pad)) false)
               (Paragraph [RawText (c :: body)] :: match kids with [] => [] | _ => [List None false (map (otok sub) kids)] end)
    end.
End Outline.
