(* C03, the fragment on which parse-after-write is PROVED for trees of any size and depth:
   plain paragraphs of one or more lines, fenced code blocks (fence of ` or ~, any length >= 3, any content
   lines), block quotes and lists of one or more items separated by blank lines (any marker, padding 1-4), nested arbitrarily,
   sibling blocks separated by one blank line.  This file holds the
   tree grammar, its spelling as structured lines and the pre-token tree / HTML expected
   from it.  Nothing here uses the tokenizer. *)
From Coq Require Import ZArith List Bool Lia.
From Mistletoe Require Import Base.Sx Base.PyStr Base.PyText Model.Block Proofs.ListLaw Proofs.EmphPhrases Proofs.MixPhrases Proofs.ProseLines Proofs.HardBreaks Proofs.BreakBlocks.
Import ListNotations.
Local Open Scope Z_scope.

(* one inline element of a one-line paragraph (leaf FOne): a struck-through phrase, a backslash escape, an image, nested emphasis *)
Inductive inl := IStrike (w : str) | IEsc (c : Z) | IImg (w dest : str)
  | INest (ch : Z) (k : nat) (h : str) (ps : list EmphPhrases.phrase) (z : str)
  | ILinkT (w dest : str) (q : Z) (title : str)
  | IAuto (c0 : Z) (sc r : str)
  | ILinkA (w : str) (c0 : Z) (d : str)
  | ILinkE (h : str) (ps : list EmphPhrases.phrase) (z dest : str).            (* an inline link whose destination c0 :: d stands between angle brackets *)                                                    (* an autolink <scheme:rest>, the scheme c0 :: sc *)                                                    (* an inline link with a title between double quotes, single quotes (q = 39) or parentheses (q = 40) *)     (* an emphasised phrase holding emphasised phrases *)
(* what closes a title opened by q (core_tokens.match_link_title) *)
Definition title_closer (q : Z) : Z := if q =? 34 then 34 else if q =? 39 then 39 else if q =? 40 then 41 else -1.
Definition inl_text (x : inl) : str :=
  match x with
  | IStrike w => [126; 126] ++ w ++ [126; 126]
  | IEsc c => [92; c]
  | IImg w d => [33; 91] ++ w ++ [93; 40] ++ d ++ [41]
  | INest ch k h ps z => repeat ch (S k) ++ (h ++ EmphPhrases.body ps ++ z) ++ repeat ch (S k)
  | ILinkT w d q tl => [91] ++ w ++ [93; 40] ++ d ++ [32; q] ++ tl ++ [title_closer q; 41]
  | IAuto c0 sc r => [60] ++ (c0 :: sc ++ 58 :: r) ++ [62]
  | ILinkA w c0 d => [91] ++ w ++ [93; 40] ++ [60] ++ (c0 :: d) ++ [62] ++ [41]
  | ILinkE h ps z d => [91] ++ (h ++ EmphPhrases.body ps ++ z) ++ [93; 40] ++ d ++ [41]
  end.
Definition one_body (pre : str) (x : inl) (post : str) : str := pre ++ inl_text x ++ post.

Inductive ftree :=
| FPara (c : Z) (body : str) (more : list str)       (* the first line c :: body, then the continuation lines *)
| FFence (ch : Z) (n : nat) (content : list sline)      (* fence ch^n, the content lines, the same fence *)
| FQuote (ts : list ftree)
| FItem (mk : marker) (pad : nat) (ts : list ftree)      (* a list of one item; or the last item of a list *)
| FMore (mk : marker) (pad : nat) (ts : list ftree) (bl : bool) (next : ftree)   (* an item, a blank line if bl, and the rest of the same list (FItem or FMore) *)
| FHead (lv : nat) (c : Z) (body : str)                  (* an ATX heading: lv hashes, a space, the title c :: body *)
| FRule (c : Z) (n : nat)                                (* a thematic break: 3 + n times the character c *)
| FEm (c0 : Z) (pre : str) (ch : Z) (double : bool) (w post : str)    (* a one-line paragraph: c0 :: pre, a run of ch, w, the run again, post *)
| FLink (c0 : Z) (pre w dest post : str)                             (* a one-line paragraph: c0 :: pre, [w](dest), post *)
| FSent (c0 : Z) (t0 : str) (gs : list mseg)                         (* a one-line paragraph: c0 :: t0, then emphasised phrases and links in any order, each with the text after it *)
| FTick (c0 : Z) (pre : str) (n : nat) (code post : str)
| FBrk (c : Z) (body : str) (k : nat) (more : list (str * nat))
| FOne (c0 : Z) (pre : str) (x : inl) (post : str).                              (* a one-line paragraph: c0 :: pre, `code`, post - the code of any characters but backticks and regex triggers *)

(* the text of an FEm line after its first character *)
Definition em_run (ch : Z) (double : bool) : str := if double then [ch; ch] else [ch].
Definition em_body (pre : str) (ch : Z) (double : bool) (w post : str) : str := pre ++ em_run ch double ++ w ++ em_run ch double ++ post.

(* the text of an FLink line after its first character *)
Definition link_body (pre w dest post : str) : str := pre ++ [91] ++ w ++ [93; 40] ++ dest ++ [41] ++ post.

(* the text of an FTick line after its first character *)
Definition tick_body (pre : str) (n : nat) (code post : str) : str := pre ++ repeat 96 (S n) ++ code ++ repeat 96 (S n) ++ post.

Definition quote_s (l : sline) : sline :=
  match l with
  | SBlank => SLine 0 62 [32]
  | SLine k c body => SLine 0 62 (32 :: repeat 32 k ++ c :: body)
  end.
Definition embed_s (w : nat) (l : sline) : sline :=
  match l with SBlank => SBlank | SLine k c body => SLine (w + k) c body end.

Definition join_blank (ls : list (list sline)) : list sline :=
  match ls with
  | [] => []
  | x :: r => x ++ flat_map (fun y => SBlank :: y) r
  end.

Definition item_lines (mk : marker) (pad : nat) (inner : list sline) : list sline :=
  match inner, marker_str mk with
  | SLine 0 c0 body0 :: rest, m0 :: mr =>
    SLine 0 m0 (mr ++ repeat 32 pad ++ c0 :: body0) :: map (embed_s (length (marker_str mk) + pad)) rest
  | _, _ => []
  end.

Fixpoint spell (t : ftree) : list sline :=
  match t with
  | FPara c body more => SLine 0 c body :: map (fun l => SLine 0 (hd 0 l) (tl l)) more
  | FFence ch n content => SLine 0 ch (repeat ch (n - 1)) :: content ++ [SLine 0 ch (repeat ch (n - 1))]
  | FQuote ts => map quote_s (join_blank (map spell ts))
  | FItem mk pad ts => item_lines mk pad (join_blank (map spell ts))
  | FMore mk pad ts bl next => item_lines mk pad (join_blank (map spell ts)) ++ (if bl then [SBlank] else []) ++ spell next
  | FHead lv c body => [SLine 0 35 (repeat 35 (lv - 1) ++ 32 :: c :: body)]
  | FRule c n => [SLine 0 c (repeat c (S (S n)))]
  | FEm c0 pre ch double w post => [SLine 0 c0 (em_body pre ch double w post)]
  | FLink c0 pre w dest post => [SLine 0 c0 (link_body pre w dest post)]
  | FSent c0 t0 gs => [SLine 0 c0 (t0 ++ mbody gs)]
  | FTick c0 pre n code post => [SLine 0 c0 (tick_body pre n code post)]
  | FBrk c body k more => map (fun l => SLine 0 (hd 0 l) (tl l)) (brk_lines ((c :: body, k) :: more))
  | FOne c0 pre x post => [SLine 0 c0 (one_body pre x post)]
  end.
Definition spell_seq (ts : list ftree) : list sline := join_blank (map spell ts).
Definition text_of (ls : list sline) : list str := map render_line ls.

(* the pre-token tree the block tokenizer must return, with the line every block starts on.
   md = the Markdown renderer's token set: there a blank line is itself a block (BlankLine) and never makes a list loose *)
Definition height (t : ftree) : Z := Z.of_nat (length (spell t)).

Section Mode.
  Variable md : bool.

  Definition blank_entry (ln : Z) : list pre := if md then [PBlankLine ln] else [].

  Fixpoint pre_of (ln : Z) (t : ftree) : pre :=
    let seq := (fix seq (ln : Z) (ts : list ftree) : list pre :=
                  match ts with
                  | [] => []
                  | t :: r => pre_of ln t :: match r with [] => [] | _ => blank_entry (ln + height t) ++ seq (ln + height t + 1) r end
                  end) in
    match t with
    | FPara c body more => PParagraph ln ((c :: body ++ [10]) :: map (fun l => l ++ [10]) more)
    | FFence ch n content => PCodeFence ln (map render_line content) 0 (repeat ch n) [] []
    | FQuote ts => PQuote ln (seq ln ts)
    | FItem mk pad ts =>
      PList ln [PItem ln (seq ln ts) (negb md && (1 <? Z.of_nat (length ts))) 0 (Z.of_nat (length (marker_str mk) + pad)) (marker_str mk)]
    | FMore mk pad ts bl next =>
      (* a blank line after an item that is not the last belongs to the item: it makes it loose (or is its last child, a BlankLine) *)
      let h := Z.of_nat (length (item_lines mk pad (join_blank (map spell ts)))) in
      match pre_of (ln + h + (if bl then 1 else 0)) next with
      | PList _ items =>
        PList ln (PItem ln (seq ln ts ++ (if bl then blank_entry (ln + h) else []))
                        (if bl then negb md else negb md && (1 <? Z.of_nat (length ts))) 0 (Z.of_nat (length (marker_str mk) + pad)) (marker_str mk) :: items)
      | other => other
      end
    | FHead lv c body => PHeading ln (Z.of_nat lv) (c :: body) []
    | FRule c n => PThematic ln [c :: repeat c (S (S n)) ++ [10]]
    | FEm c0 pre ch double w post => PParagraph ln [c0 :: em_body pre ch double w post ++ [10]]
    | FLink c0 pre w dest post => PParagraph ln [c0 :: link_body pre w dest post ++ [10]]
    | FSent c0 t0 gs => PParagraph ln [c0 :: (t0 ++ mbody gs) ++ [10]]
    | FTick c0 pre n code post => PParagraph ln [c0 :: tick_body pre n code post ++ [10]]
    | FBrk c body k more => PParagraph ln (nl_lines (brk_lines ((c :: body, k) :: more)))
    | FOne c0 pre x post => PParagraph ln [c0 :: one_body pre x post ++ [10]]
    end.
  Fixpoint pre_seq (ln : Z) (ts : list ftree) : list pre :=
    match ts with
    | [] => []
    | t :: r => pre_of ln t :: match r with [] => [] | _ => blank_entry (ln + height t) ++ pre_seq (ln + height t + 1) r end
    end.
End Mode.

(* Paragraph.parse_setext after the block *)
Fixpoint st_after (st : pstate) (t : ftree) : pstate :=
  match t with
  | FPara _ _ _ | FFence _ _ _ | FHead _ _ _ | FRule _ _ | FEm _ _ _ _ _ _ | FLink _ _ _ _ _ | FSent _ _ _ | FTick _ _ _ _ _ | FBrk _ _ _ _ | FOne _ _ _ _ => st
  | FQuote _ => mkPs true
  | FItem _ _ ts => fold_left st_after ts st
  | FMore _ _ ts _ next => st_after (fold_left st_after ts st) next
  end.
Definition st_seq (st : pstate) (ts : list ftree) : pstate := fold_left st_after ts st.

Fixpoint depth (t : ftree) : nat :=
  match t with
  | FPara _ _ _ | FFence _ _ _ | FHead _ _ _ | FRule _ _ | FEm _ _ _ _ _ _ | FLink _ _ _ _ _ | FSent _ _ _ | FTick _ _ _ _ _ | FBrk _ _ _ _ | FOne _ _ _ _ => 0%nat
  | FQuote ts | FItem _ _ ts => S (fold_right (fun t m => Nat.max (depth t) m) 0%nat ts)
  | FMore _ _ ts _ next => Nat.max (S (fold_right (fun t m => Nat.max (depth t) m) 0%nat ts)) (depth next)
  end.

(* the marker of the first item of a list *)
Definition marker_of (t : ftree) : marker := match t with FItem mk _ _ | FMore mk _ _ _ _ => mk | _ => MBullet 0 end.
