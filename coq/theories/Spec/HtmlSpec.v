(* Specification side of C08, independent of the renderer model: what a
   well-formed, injection-free item list is, and a lexer that recovers items
   from an output STRING (used as the oracle on the implementation's output and
   in the string-level theorem). *)
From Coq Require Import ZArith List Bool.
From Mistletoe Require Import Base.Sx Base.PyStr Model.HtmlRenderer.
Import ListNotations.
Local Open Scope Z_scope.

(* ---- text: '<' '>' never; '&' only as the start of one of five entities ---- *)
Fixpoint strip_prefix (p s : str) : option str :=
  match p, s with
  | [], _ => Some s
  | x :: p', y :: s' => if x =? y then strip_prefix p' s' else None
  | _ :: _, [] => None
  end.

Definition entity_tails : list str := [$"amp;"; $"lt;"; $"gt;"; $"quot;"; $"#x27;"].

Definition after_amp (s : str) : bool :=
  existsb (fun e => match strip_prefix e s with Some _ => true | None => false end) entity_tails.

Fixpoint safe_textb (s : str) : bool :=
  match s with
  | [] => true
  | c :: r =>
    if (c =? 60) || (c =? 62) then false
    else if c =? 38 then after_amp r && safe_textb r
    else safe_textb r
  end.

(* attribute values: no double quote, no angle bracket *)
Definition safe_attr_char (c : Z) : bool := negb ((c =? 34) || (c =? 60) || (c =? 62)).
Definition safe_valueb (s : str) : bool := forallb safe_attr_char s.

(* ---- vocabulary: the tags the renderer may emit and their attributes ---- *)
Definition vocab : list (str * list str) :=
  [($"strong", []); ($"em", []); ($"del", []); ($"code", [$"class"]); ($"pre", []);
   ($"a", [$"href"; $"title"]); ($"img", [$"src"; $"alt"; $"title"]); ($"br", []); ($"hr", []);
   ($"h1", []); ($"h2", []); ($"h3", []); ($"h4", []); ($"h5", []); ($"h6", []);
   ($"blockquote", []); ($"p", []); ($"ul", []); ($"ol", [$"start"]); ($"li", []);
   ($"table", []); ($"thead", []); ($"tbody", []); ($"tr", []);
   ($"th", [$"align"]); ($"td", [$"align"])].

Fixpoint lookup (k : str) (l : list (str * list str)) : option (list str) :=
  match l with
  | [] => None
  | (k', v) :: r => if str_eqb k k' then Some v else lookup k r
  end.

Definition attrs_okb (allowed : list str) (attrs : list (str * str)) : bool :=
  forallb (fun kv => existsb (str_eqb (fst kv)) allowed && safe_valueb (snd kv)) attrs.

Definition tag_okb (tag : str) (attrs : list (str * str)) : bool :=
  match lookup tag vocab with
  | Some allowed => attrs_okb allowed attrs
  | None => false
  end.

Definition item_okb (i : item) : bool :=
  match i with
  | IOpen t a => tag_okb t a
  | IVoid t a => tag_okb t a
  | IClose t => match lookup t vocab with Some _ => true | None => false end
  | IText s => safe_textb s
  | IRaw _ => true
  end.

(* ---- nesting: a stack machine ---- *)
Fixpoint balanced_from (stack : list str) (l : list item) : bool :=
  match l with
  | [] => match stack with [] => true | _ => false end
  | IOpen t _ :: r => balanced_from (t :: stack) r
  | IClose t :: r => match stack with
                     | t' :: st => str_eqb t t' && balanced_from st r
                     | [] => false
                     end
  | _ :: r => balanced_from stack r
  end.
Definition balancedb (l : list item) : bool := balanced_from [] l.

Definition no_raw (l : list item) : bool :=
  forallb (fun i => match i with IRaw _ => false | _ => true end) l.

(* ---- lexer: output string -> items (no IRaw: raw regions are set aside by
        the caller before lexing) ---- *)
Definition is_name_char (c : Z) : bool := is_alnum_ascii c.

Fixpoint span (p : Z -> bool) (s : str) : str * str :=
  match s with
  | c :: r => if p c then let '(a, b) := span p r in (c :: a, b) else ([], s)
  | [] => ([], [])
  end.

(* attributes:  ( ' ' name '="' value '"' )*  *)
Fixpoint lex_attrs (fuel : nat) (s : str) : list (str * str) * str :=
  match fuel with
  | O => ([], s)
  | S f =>
    match s with
    | 32 :: r =>
      let '(name, r1) := span is_name_char r in
      match name, r1 with
      | _ :: _, 61 :: 34 :: r2 =>
        let '(v, r3) := span (fun c => negb (c =? 34)) r2 in
        match r3 with
        | 34 :: r4 => let '(more, rest) := lex_attrs f r4 in ((name, v) :: more, rest)
        | _ => ([], s)
        end
      | _, _ => ([], s)
      end
    | _ => ([], s)
    end
  end.

Fixpoint lex (fuel : nat) (s : str) : option (list item) :=
  match fuel with
  | O => match s with [] => Some [] | _ => None end
  | S f =>
    match s with
    | [] => Some []
    | 60 :: 47 :: r =>                                  (* </name> *)
      let '(name, r1) := span is_name_char r in
      match name, r1 with
      | _ :: _, 62 :: r2 => option_map (cons (IClose name)) (lex f r2)
      | _, _ => None
      end
    | 60 :: r =>                                        (* <name attrs> | <name attrs /> *)
      let '(name, r1) := span is_name_char r in
      match name with
      | [] => None
      | _ =>
        let '(attrs, r2) := lex_attrs (length r1) r1 in
        match r2 with
        | 62 :: r3 => option_map (cons (IOpen name attrs)) (lex f r3)
        | 32 :: 47 :: 62 :: r3 => option_map (cons (IVoid name attrs)) (lex f r3)
        | _ => None
        end
      end
    | _ =>
      let '(txt, r) := span (fun c => negb (c =? 60)) s in
      option_map (cons (IText txt)) (lex f r)
    end
  end.

Definition lex_html (s : str) : option (list item) := lex (S (length s)) s.

(* verdict on an output string: 0 ok, 1 does not lex, 2 not balanced,
   3 tag/attribute outside the vocabulary or unsafe attribute value, 4 unsafe text *)
Definition check_html (s : str) : Z :=
  match lex_html s with
  | None => 1
  | Some its =>
    if negb (balancedb its) then 2
    else if negb (forallb (fun i => match i with IText _ => true | _ => item_okb i end) its) then 3
    else if negb (forallb (fun i => match i with IText t => safe_textb t | _ => true end) its) then 4
    else 0
  end.
