(* More of Python's str used by the parser model.  Each function names its
   Python counterpart; differential-tested by the X-str stream. *)
From Coq Require Import ZArith List Bool.
From Mistletoe Require Import Base.Sx Base.PyStr Gen.GenTables.
Import ListNotations.
Local Open Scope Z_scope.

Definition in_rs (rs : list (Z * Z)) (c : Z) : bool := existsb (fun r => (fst r <=? c) && (c <=? snd r)) rs.

Definition is_space_c (c : Z) : bool := in_rs space_ranges c.      (* c.isspace() *)
Definition is_upper_c (c : Z) : bool := in_rs upper_ranges c.      (* c.isupper() *)
Definition is_decimal_c (c : Z) : bool := in_rs digit_ranges c.    (* c.isdecimal(); also what \d matches *)

Definition slen (s : str) : Z := Z.of_nat (length s).

(* s[i] for 0 <= i < len(s); -1 stands for IndexError (see DESIGN: partial operations) *)
Definition char_at (s : str) (i : Z) : Z := if i <? 0 then -1 else nth (Z.to_nat i) s (-1).
(* s[a:b] for 0 <= a *)
Definition substr (s : str) (a b : Z) : str := firstn (Z.to_nat (b - a)) (skipn (Z.to_nat a) s).
Definition drop (n : Z) (s : str) : str := skipn (Z.to_nat n) s.
Definition take (n : Z) (s : str) : str := firstn (Z.to_nat n) s.

(* s.lstrip() / s.rstrip() / s.strip(): Unicode whitespace *)
Fixpoint lstrip_by (p : Z -> bool) (s : str) : str :=
  match s with c :: r => if p c then lstrip_by p r else s | [] => [] end.
Definition rstrip_by (p : Z -> bool) (s : str) : str := rev (lstrip_by p (rev s)).
Definition strip_by (p : Z -> bool) (s : str) : str := rstrip_by p (lstrip_by p s).
Definition lstrip (s : str) : str := lstrip_by is_space_c s.
Definition rstrip (s : str) : str := rstrip_by is_space_c s.
Definition strip (s : str) : str := strip_by is_space_c s.
(* s.lstrip(chars) etc. for a set of characters *)
Definition lstrip_set (cs : str) (s : str) : str := lstrip_by (fun c => mem c cs) s.
Definition rstrip_set (cs : str) (s : str) : str := rstrip_by (fun c => mem c cs) s.
Definition strip_set (cs : str) (s : str) : str := strip_by (fun c => mem c cs) s.

Definition is_blank (s : str) : bool := match strip s with [] => true | _ => false end.   (* s.strip() == '' *)

Definition endswith (p s : str) : bool := startswith (rev p) (rev s).

(* s.find(sub) as an option: offset of the first occurrence *)
Fixpoint find_sub (sub s : str) (i : Z) : option Z :=
  if startswith sub s then Some i
  else match s with [] => None | _ :: r => find_sub sub r (i + 1) end.
Definition contains (sub s : str) : bool := match find_sub sub s 0 with Some _ => true | None => false end.

Definition count_char (c : Z) (s : str) : Z := slen (filter (Z.eqb c) s).

(* s.replace(old, new, 1) *)
Fixpoint replace_first (old new s : str) : str :=
  if startswith old s then new ++ skipn (length old) s
  else match s with [] => [] | c :: r => c :: replace_first old new r end.

(* s.split(sep, 1) for a one-character separator: (head, Some tail) or (s, None) *)
Fixpoint split_once (sep : Z) (s : str) : str * option str :=
  match s with
  | [] => ([], None)
  | c :: r => if c =? sep then ([], Some r)
              else let '(h, t) := split_once sep r in (c :: h, t)
  end.

(* s.split(): maximal runs of non-whitespace *)
Fixpoint split_ws_aux (cur_rev : str) (s : str) : list str :=
  match s with
  | [] => match cur_rev with [] => [] | _ => [rev cur_rev] end
  | c :: r => if is_space_c c then (match cur_rev with [] => [] | _ => [rev cur_rev] end) ++ split_ws_aux [] r
              else split_ws_aux (c :: cur_rev) r
  end.
Definition split_ws (s : str) : list str := split_ws_aux [] s.

(* len(s.split(maxsplit=1)) == 1 : exactly one whitespace-separated word *)
Definition single_word (s : str) : bool :=
  match split_ws s with [_] => true | _ => false end.

(* s.expandtabs(4) *)
Fixpoint expandtabs_aux (col : Z) (s : str) : str :=
  match s with
  | [] => []
  | c :: r =>
    if c =? 9 then let n := 4 - col mod 4 in repeat 32 (Z.to_nat n) ++ expandtabs_aux 0 r
    else if (c =? 10) || (c =? 13) then c :: expandtabs_aux 0 r
    else c :: expandtabs_aux (col + 1) r
  end.
Definition expandtabs4 (s : str) : str := expandtabs_aux 0 s.

(* s.casefold() *)
Fixpoint assocZ {A} (k : Z) (l : list (Z * A)) : option A :=
  match l with [] => None | (k', v) :: r => if k =? k' then Some v else assocZ k r end.
Definition casefold_char (c : Z) : str :=
  match assocZ (c / 256) casefold_table with
  | Some blk => match assocZ c blk with Some f => f | None => [c] end
  | None => [c]
  end.
Definition casefold (s : str) : str := flat_map casefold_char s.

(* int(s) for a string of decimal digits *)
Definition digit_value (c : Z) : Z :=
  match find (fun r => (fst r <=? c) && (c <=? snd r)) digit_ranges with
  | Some r => (c - fst r) mod 10
  | None => 0
  end.
Definition int_of_digits (s : str) : Z := fold_left (fun acc c => acc * 10 + digit_value c) s 0.

Definition all_decimal (s : str) : bool := match s with [] => false | _ => forallb is_decimal_c s end.  (* s.isdigit() on \d matches *)

Definition removelast_n (n : Z) (s : str) : str := firstn (length s - Z.to_nat n) s.

Definition str_in (x : str) (l : list str) : bool := existsb (str_eqb x) l.

Definition last_char (s : str) : Z := last s (-1).
