(* Generic wire values: everything that crosses the model/implementation
   boundary is an integer or a list.  A Python string is the list of its code
   points; booleans are 0/1; None is the empty list where a list is expected
   or a tagged pair (see the per-interface encoders in Extract/Driver.v). *)
From Coq Require Import ZArith List.
Import ListNotations.
Local Open Scope Z_scope.

Inductive sx : Type :=
| SxZ (z : Z)
| SxL (l : list sx).

Definition str := list Z.

Definition sx_of_str (s : str) : sx := SxL (map SxZ s).
Definition sx_of_bool (b : bool) : sx := SxZ (if b then 1 else 0).

Definition z_of_sx (x : sx) : Z := match x with SxZ z => z | SxL _ => 0 end.
Definition l_of_sx (x : sx) : list sx := match x with SxL l => l | SxZ _ => [] end.
Definition str_of_sx (x : sx) : str := map z_of_sx (l_of_sx x).
Definition bool_of_sx (x : sx) : bool := negb (Z.eqb (z_of_sx x) 0).

Definition sx_nth (x : sx) (n : nat) : sx := nth n (l_of_sx x) (SxL []).
