(* Python string semantics used by the renderer models.  A string is the list
   of its code points (Z).  Each function names its Python counterpart; each is
   differential-tested against CPython by the X-str stream of the checks. *)
From Coq Require Import ZArith List Bool.
From Coq Require Ascii String.
Export String.StringSyntax.
Delimit Scope string_scope with string.
From Mistletoe Require Import Base.Sx.
Import ListNotations.
Local Open Scope Z_scope.

(* Coq string literal -> code points (ASCII only; used for templates) *)
Fixpoint s2l (s : String.string) : str :=
  match s with
  | String.EmptyString => []
  | String.String a r => Z.of_N (Ascii.N_of_ascii a) :: s2l r
  end.
Notation "$ s" := (s2l s%string) (at level 0, s at level 0, only parsing).

Fixpoint str_eqb (a b : str) : bool :=
  match a, b with
  | [], [] => true
  | x :: a', y :: b' => (x =? y) && str_eqb a' b'
  | _, _ => false
  end.

Lemma str_eqb_eq a b : str_eqb a b = true <-> a = b.
Proof.
  revert b; induction a as [|x a IH]; destruct b as [|y b]; cbn; split; intros H; try discriminate; auto.
  - apply andb_true_iff in H. destruct H as [H1 H2]. apply Z.eqb_eq in H1. apply IH in H2. congruence.
  - inversion H; subst. rewrite Z.eqb_refl. cbn. apply IH. reflexivity.
Qed.

Definition mem (c : Z) (s : str) : bool := existsb (Z.eqb c) s.

(* s.replace(c, r) for a ONE-character pattern c *)
Definition replace_char (c : Z) (r : str) (s : str) : str :=
  flat_map (fun x => if x =? c then r else [x]) s.

(* ''.join(l) and sep.join(l) *)
Definition concat_str (l : list str) : str := concat l.
Fixpoint join (sep : str) (l : list str) : str :=
  match l with
  | [] => []
  | [x] => x
  | x :: rest => x ++ sep ++ join sep rest
  end.

(* str(n) for an int *)
Fixpoint digits_fuel (fuel : nat) (n : Z) (acc : str) : str :=
  match fuel with
  | O => acc
  | S f => let d := 48 + n mod 10 in
           if n <? 10 then d :: acc else digits_fuel f (n / 10) (d :: acc)
  end.
Definition str_of_nonneg (n : Z) : str := digits_fuel (S (Z.to_nat (Z.log2 n))) n [].
Definition str_of_Z (z : Z) : str :=
  if z <? 0 then 45 :: str_of_nonneg (- z) else str_of_nonneg z.

(* html.escape(s, quote=True) *)
Definition html_escape_char (c : Z) : str :=
  if c =? 38 then $"&amp;" else if c =? 60 then $"&lt;" else if c =? 62 then $"&gt;"
  else if c =? 34 then $"&quot;" else if c =? 39 then $"&#x27;" else [c].
Definition html_escape (s : str) : str := flat_map html_escape_char s.

(* s.encode('utf-8') for a scalar value (surrogates are outside the domain:
   CPython raises UnicodeEncodeError on them) *)
Definition utf8 (c : Z) : list Z :=
  if c <? 128 then [c]
  else if c <? 2048 then [192 + c / 64; 128 + c mod 64]
  else if c <? 65536 then [224 + c / 4096; 128 + (c / 64) mod 64; 128 + c mod 64]
  else [240 + c / 262144; 128 + (c / 4096) mod 64; 128 + (c / 64) mod 64; 128 + c mod 64].
(* '%XX' of a byte; the `mod 16` on the high digit is the identity on bytes
   (0..255) and makes the function's range independent of its argument *)

Definition hex_digit (d : Z) : Z := if d <? 10 then 48 + d else 55 + d.
Definition pct (b : Z) : str := [37; hex_digit ((b / 16) mod 16); hex_digit (b mod 16)].

Definition is_alnum_ascii (c : Z) : bool :=
  ((48 <=? c) && (c <=? 57)) || ((65 <=? c) && (c <=? 90)) || ((97 <=? c) && (c <=? 122)).
(* urllib.parse._ALWAYS_SAFE *)
Definition always_safe (c : Z) : bool :=
  is_alnum_ascii c || (c =? 95) || (c =? 46) || (c =? 45) || (c =? 126).

(* urllib.parse.quote(s, safe=safe) with an ASCII safe string *)
Definition quote_char (safe : str) (c : Z) : str :=
  if (c <? 128) && (always_safe c || mem c safe) then [c] else flat_map pct (utf8 c).
Definition quote (safe : str) (s : str) : str := flat_map (quote_char safe) s.

Definition is_scalar (c : Z) : bool := (0 <=? c) && (c <? 1114112) && negb ((55296 <=? c) && (c <=? 57343)).

(* s.startswith(p) *)
Fixpoint startswith (p s : str) : bool :=
  match p, s with
  | [], _ => true
  | x :: p', y :: s' => (x =? y) && startswith p' s'
  | _ :: _, [] => false
  end.

(* s.strip(chr c) for a one-character set *)
Fixpoint lstrip_char (c : Z) (s : str) : str :=
  match s with x :: r => if x =? c then lstrip_char c r else s | [] => [] end.
Definition strip_char (c : Z) (s : str) : str := rev (lstrip_char c (rev (lstrip_char c s))).
