(* Regular expressions with CPython `re` semantics (the constructs that
   re._parser reports for mistletoe's patterns) and a backtracking matcher in
   continuation-passing style.  Patterns are NOT written here: Gen/GenRegex.v
   is regenerated from the compiled patterns of /repo on every run.
   Tied to CPython by the X-re correspondence run (all spans and groups). *)
From Coq Require Import ZArith List Bool.
From Mistletoe Require Import Base.Sx Gen.GenTables.
Import ListNotations.
Local Open Scope Z_scope.

Inductive cat := CatSpace | CatNotSpace | CatDigit | CatNotDigit | CatWord | CatNotWord.
Inductive citem := CLit (c : Z) | CRange (a b : Z) | CCat (k : cat).

Inductive re :=
| Eps
| Lit (c : Z)
| NotLit (c : Z)
| Any
| Set_ (neg : bool) (items : list citem)
| Seq (a b : re)
| Alt (a b : re)
| Rep (greedy : bool) (mn : nat) (mx : option nat) (r : re)
| Grp (n : nat) (r : re)
| Bref (n : nat)
| Look (ahead : bool) (neg : bool) (width : nat) (r : re)   (* width: fixed width of a look-behind *)
| Bol
| Eol.

Record flags := mkFlags { dotall : bool; multiline : bool }.

Definition in_ranges (rs : list (Z * Z)) (c : Z) : bool :=
  existsb (fun r => (fst r <=? c) && (c <=? snd r)) rs.

Definition cat_match (k : cat) (c : Z) : bool :=
  match k with
  | CatSpace => in_ranges space_ranges c
  | CatNotSpace => negb (in_ranges space_ranges c)
  | CatDigit => in_ranges digit_ranges c
  | CatNotDigit => negb (in_ranges digit_ranges c)
  | CatWord => in_ranges word_ranges c
  | CatNotWord => negb (in_ranges word_ranges c)
  end.

Definition citem_match (i : citem) (c : Z) : bool :=
  match i with
  | CLit d => c =? d
  | CRange a b => (a <=? c) && (c <=? b)
  | CCat k => cat_match k c
  end.

(* match state: `bef` is the text before the cursor, REVERSED (including
   whatever precedes the start of a search); `grp` maps a group number to the
   (start, end) of its last participation *)
Record mst := mkMst { bef : str; aft : str; pos : Z; grp : list (nat * (Z * Z)) }.

Definition advance (s : mst) (c : Z) (t : str) : mst :=
  mkMst (c :: bef s) t (pos s + 1) (grp s).

Fixpoint lookup_grp (n : nat) (g : list (nat * (Z * Z))) : option (Z * Z) :=
  match g with
  | [] => None
  | (k, v) :: r => if Nat.eqb k n then Some v else lookup_grp n r
  end.

Definition set_grp (n : nat) (a b : Z) (s : mst) : mst :=
  mkMst (bef s) (aft s) (pos s) ((n, (a, b)) :: grp s).

(* the text of [a,b) for a <= b <= pos *)
Definition segment (s : mst) (a b : Z) : str :=
  firstn (Z.to_nat (b - a)) (rev (firstn (Z.to_nat (pos s - a)) (bef s))).

Fixpoint eat (seg : str) (s : mst) : option mst :=
  match seg with
  | [] => Some s
  | c :: seg' =>
    match aft s with
    | d :: t => if c =? d then eat seg' (advance s d t) else None
    | [] => None
    end
  end.

(* step back w characters (for look-behind); None when fewer are available *)
Fixpoint retreat (w : nat) (s : mst) : option mst :=
  match w with
  | O => Some s
  | S w' =>
    match bef s with
    | c :: b => retreat w' (mkMst b (c :: aft s) (pos s - 1) (grp s))
    | [] => None
    end
  end.

Definition orelse {A} (x : option A) (y : unit -> option A) : option A :=
  match x with Some _ => x | None => y tt end.

Definition under (mx : option nat) (cnt : nat) : bool :=
  match mx with Some x => Nat.ltb cnt x | None => true end.

Section Loop.
  Variable body : mst -> (mst -> option mst) -> option mst.
  Variables (greedy : bool) (mn : nat) (mx : option nat) (k : mst -> option mst).
  (* fuel: a list at least as long as the number of iterations that can ever be
     useful (the mandatory ones plus one per remaining character) *)
  Fixpoint loop (fuel : list Z) (cnt : nat) (s : mst) {struct fuel} : option mst :=
    match fuel with
    | [] => if Nat.ltb cnt mn then None else k s
    | _ :: fuel' =>
      let more := fun (_ : unit) =>
        if under mx cnt then
          body s (fun s' =>
                    (* an iteration that consumed nothing once the minimum is reached ends the repetition *)
                    if Nat.leb mn cnt && (pos s' =? pos s) then None
                    else loop fuel' (S cnt) s')
        else None in
      if Nat.ltb cnt mn then more tt
      else if greedy then orelse (more tt) (fun _ => k s) else orelse (k s) more
    end.
End Loop.

Section Match.
  Variable fl : flags.

  Definition char_ok (r : re) (c : Z) : bool :=
    match r with
    | Lit d => c =? d
    | NotLit d => negb (c =? d)
    | Any => dotall fl || negb (c =? 10)
    | Set_ neg items => xorb neg (existsb (fun i => citem_match i c) items)
    | _ => false
    end.

  Definition at_bol (s : mst) : bool :=
    match bef s with
    | [] => true
    | c :: _ => multiline fl && (c =? 10)
    end.

  Definition at_eol (s : mst) : bool :=
    match aft s with
    | [] => true
    | [10] => true
    | c :: _ => multiline fl && (c =? 10)
    end.

  Fixpoint m (r : re) (s : mst) (k : mst -> option mst) {struct r} : option mst :=
    match r with
    | Eps => k s
    | Lit _ | NotLit _ | Any | Set_ _ _ =>
      match aft s with
      | c :: t => if char_ok r c then k (advance s c t) else None
      | [] => None
      end
    | Seq a b => m a s (fun s' => m b s' k)
    | Alt a b => orelse (m a s k) (fun _ => m b s k)
    | Rep greedy mn mx r' => loop (m r') greedy mn mx k (repeat 0 mn ++ 0 :: aft s) 0 s
    | Grp n r' => let a := pos s in m r' s (fun s' => k (set_grp n a (pos s') s'))
    | Bref n =>
      match lookup_grp n (grp s) with
      | Some (a, b) => match eat (segment s a b) s with Some s' => k s' | None => None end
      | None => None
      end
    | Look ahead neg w r' =>
      let inner :=
        if ahead then m r' s (fun s' => Some s')
        else match retreat w s with
             | Some s0 => m r' s0 (fun s' => if pos s' =? pos s then Some s' else None)
             | None => None
             end in
      match inner with
      | Some s' => if neg then None else k (mkMst (bef s) (aft s) (pos s) (grp s'))
      | None => if neg then k s else None
      end
    | Bol => if at_bol s then k s else None
    | Eol => if at_eol s then k s else None
    end.

  Definition start_at (before_rev after : str) : mst :=
    mkMst before_rev after (Z.of_nat (length before_rev)) [].

  (* pattern.match(string[, pos]) seen from a state *)
  Definition match_here (r : re) (s : mst) : option mst := m r (mkMst (bef s) (aft s) (pos s) []) (fun s' => Some s').
  Definition fullmatch_here (r : re) (s : mst) : option mst :=
    m r (mkMst (bef s) (aft s) (pos s) []) (fun s' => match aft s' with [] => Some s' | _ => None end).

  (* pattern.search: leftmost; `must_advance` forbids an empty match at the
     very first position (finditer after an empty match) *)
  Fixpoint search_from (r : re) (fuel : list Z) (must_advance : bool) (s : mst) : option (mst * mst) :=
    let here := m r (mkMst (bef s) (aft s) (pos s) [])
                  (fun s' => if must_advance && (pos s' =? pos s) then None else Some s') in
    match here with
    | Some s' => Some (s, s')
    | None =>
      match fuel, aft s with
      | _ :: fuel', c :: t => search_from r fuel' false (advance s c t)
      | _, _ => None
      end
    end.
  Definition search (r : re) (s : mst) : option (mst * mst) := search_from r (aft s) false s.

  (* pattern.finditer: (start state, end state) of the successive matches *)
  Fixpoint finditer_from (r : re) (fuel : list Z) (must_advance : bool) (s : mst) : list (mst * mst) :=
    match fuel with
    | [] => match search_from r (aft s) must_advance s with Some p => [p] | None => [] end
    | _ :: fuel' =>
      match search_from r (aft s) must_advance s with
      | Some (s0, s1) => (s0, s1) :: finditer_from r fuel' (pos s1 =? pos s0) (mkMst (bef s1) (aft s1) (pos s1) [])
      | None => []
      end
    end.
  Definition finditer (r : re) (text : str) : list (mst * mst) :=
    finditer_from r (0 :: text) false (start_at [] text).
End Match.

(* m.group(n) / m.start(n) / m.end(n) of a finished match *)
Definition group_span (res : mst) (n : nat) : option (Z * Z) := lookup_grp n (grp res).
Definition group_text (res : mst) (n : nat) : option str :=
  match lookup_grp n (grp res) with Some (a, b) => Some (segment res a b) | None => None end.
Definition whole_text (s0 s1 : mst) : str := segment s1 (pos s0) (pos s1).
