(* Executable statements of the block-structure laws (C04, C05) and of prose
   pass-through (C14) on the parser model, for kernel evaluation on finite
   families of documents. *)
From Coq Require Import ZArith List Bool.
From Mistletoe Require Import Base.Sx Base.PyStr Base.PyText Gen.GenConfig Model.Tree Model.TreeWire Model.CoreTokens Model.Block
     Model.Build Model.Parser Model.DocLines Model.HtmlRenderer.
Import ListNotations.
Local Open Scope Z_scope.

Fixpoint sx_eqb (a b : sx) : bool :=
  match a, b with
  | SxZ x, SxZ y => x =? y
  | SxL l1, SxL l2 =>
    (fix go (l1 l2 : list sx) : bool :=
       match l1, l2 with
       | [], [] => true
       | x :: r1, y :: r2 => sx_eqb x y && go r1 r2
       | _, _ => false
       end) l1 l2
  | _, _ => false
  end.

Definition toks_eqb (a b : list tok) : bool := sx_eqb (SxL (map sx_of_tok a)) (SxL (map sx_of_tok b)).
Definition fn_eqb (a b : footnotes) : bool :=
  sx_eqb (SxL (map (fun e => SxL [sx_of_str (fst e); sx_of_str (fst (snd e)); sx_of_str (snd (snd e))]) a))
         (SxL (map (fun e => SxL [sx_of_str (fst e); sx_of_str (fst (snd e)); sx_of_str (snd (snd e))]) b)).

(* the blocks of a document whose lines are `lines`, tokenized with Paragraph.parse_setext = setext *)
Definition blocks_of (cfg : pconfig) (setext : bool) (lines : list str) : list tok * footnotes :=
  let '(es, _, _) := tokenize_block (cfg_block cfg) (depth_fuel lines) lines 1 (mkPs setext) in
  let fn := footnotes_of es in
  (make_tokens (cfg_span cfg) (cfg_keep_defs cfg) fn es, fn).

(* ---- C04: quoting ---- *)
Definition quote_lines_with (marker : str) (lines : list str) : list str := map (fun l => marker ++ l) lines.

(* parse (quote T) = [Quote (parse T)], with the definitions found unchanged.  The quote's
   content is tokenized with setext headings switched off (Quote.read): `setext_inside`
   says which parse of T the law is compared with *)
Definition quote_law (cfg : pconfig) (setext_inside : bool) (marker : str) (text : str) : bool :=
  let lines := doc_lines_of_str text in
  let '(inner, fn1) := blocks_of cfg setext_inside lines in
  let '(outer, fn2) := blocks_of cfg true (quote_lines_with marker lines) in
  toks_eqb outer [Quote inner] && fn_eqb fn1 fn2.

(* ---- C04: list embedding ---- *)
Definition indent_lines (marker : str) (pad : nat) (lines : list str) : list str :=
  match lines with
  | [] => []
  | first :: rest =>
    (marker ++ repeat 32 pad ++ first)
      :: map (fun l => if is_blank l then l else repeat 32 (length marker + pad) ++ l) rest
  end.

Definition single_item (ts : list tok) (inner : list tok) : bool :=
  match ts with
  | [List _ _ [ListItem _ ch]] => toks_eqb ch inner
  | _ => false
  end.

Definition list_law (cfg : pconfig) (marker : str) (pad : nat) (text : str) : bool :=
  let lines := doc_lines_of_str text in
  let '(inner, fn1) := blocks_of cfg true lines in
  let '(outer, fn2) := blocks_of cfg true (indent_lines marker pad lines) in
  single_item outer inner && fn_eqb fn1 fn2.

(* ---- C05: blank-line independence ---- *)
Definition independence_law (cfg : pconfig) (a b : str) : bool :=
  let la := doc_lines_of_str a in
  let lb := doc_lines_of_str b in
  let '(ta, _, na) := parse_lines cfg la in
  let '(tb, _, nb) := parse_lines cfg lb in
  let '(tab, _, nab) := parse_lines cfg (la ++ [[10]] ++ lb) in
  match ta, tb, tab with
  | Document ca, Document cb, Document cab =>
    toks_eqb cab (ca ++ cb) &&
    sx_eqb (SxL (map SxZ nab)) (SxL (map SxZ (na ++ map (fun n => n + Z.of_nat (length la) + 1) nb)))
  | _, _, _ => false
  end.

(* ---- C14: prose passes through ---- *)
Definition rstrip_spaces_tabs (s : str) : str := rstrip_set [32; 9] s.
(* "<p>" + escape(text with each line stripped and joined by newlines) + "</p>\n" *)
Definition prose_expected (o : hopts) (lines : list str) : str :=
  $"<p>" ++ escape_html_text o (join [10] (map strip lines)) ++ $"</p>" ++ [10].
Definition prose_law (o : hopts) (lines : list str) : bool :=
  str_eqb (markdown_html o true (join [10] lines)) (prose_expected o lines).

(* all strings over an alphabet up to a length *)
Fixpoint strings_of_length (alpha : str) (n : nat) : list str :=
  match n with
  | O => [[]]
  | S k => flat_map (fun s => map (fun c => c :: s) alpha) (strings_of_length alpha k)
  end.
Fixpoint strings_up_to (alpha : str) (n : nat) : list str :=
  match n with
  | O => [[]]
  | S k => strings_up_to alpha k ++ strings_of_length alpha (S k)
  end.

(* the premises of the list law, as a guard: the text starts with a non-space character, its last
   line is not blank, no line consists of spaces only, and marker + first line is not a thematic break *)
Definition list_law_premises (marker : str) (pad : nat) (text : str) : bool :=
  let lines := doc_lines_of_str text in
  match lines with
  | [] => false
  | first :: _ =>
    negb (is_space_c (char_at first 0)) &&
    negb (is_blank (last lines [])) &&
    forallb (fun l => str_eqb l [10] || negb (is_blank l)) lines &&
    negb (mem 9 text) &&
    negb (thematic_start (marker ++ repeat 32 pad ++ first))
  end.
Definition list_law_guarded (cfg : pconfig) (marker : str) (pad : nat) (text : str) : bool :=
  if list_law_premises marker pad text then list_law cfg marker pad text else true.
Definition quote_law_premises (text : str) : bool :=
  let lines := doc_lines_of_str text in
  match lines with [] => false | _ => negb (is_blank (last lines [])) && negb (mem 9 text) end.

(* the alphabet of the bounded sweeps: a, space, newline, - # > ` 1 . *)
Definition law_alpha : str := [97; 32; 10; 45; 35; 62; 96; 49; 46].

(* ---- C05: premises (A's last top-level block is of a closed kind, no link definitions) ---- *)
Definition closed_tok (t : tok) : bool :=
  match t with
  | Paragraph _ | Heading _ _ _ | SetextHeading _ _ _ | ThematicBreak _ | Quote _ | Table _ _ _ => true
  | _ => false
  end.
Definition independence_premises (cfg : pconfig) (a b : str) : bool :=
  let '(ta, fa, _) := parse_lines cfg (doc_lines_of_str a) in
  let '(_, fb, _) := parse_lines cfg (doc_lines_of_str b) in
  match ta with
  | Document ca => match rev ca with last :: _ => closed_tok last | [] => false end
  | _ => false
  end && match fa with [] => true | _ => false end && match fb with [] => true | _ => false end.
Definition independence_guarded (cfg : pconfig) (a b : str) : bool :=
  if independence_premises cfg a b then independence_law cfg a b else true.

(* texts A: all strings over indep_alpha up to length 4 that end in a newline; continuations B *)
Definition indep_alpha : str := [97; 10; 45; 96; 32].
Definition indep_As : list str := map (fun s => s ++ [10]) (strings_up_to indep_alpha 4).
Definition indep_Bs : list str :=
  [ $"    a"; $"  - a"; $"---"; $"==="; $"```"; $"> a"; $"- a"; $"a"; $" a"; [10; 32; 32; 32; 32; 97]; $"`"; $"   ---"; $"a" ++ [10] ++ $"===" ].

(* every fourth element, starting at k: the shards of a sweep *)
Fixpoint every4 {A} (k : nat) (l : list A) : list A :=
  match l with
  | a :: b :: c :: d :: r => nth k [a; b; c; d] a :: every4 k r
  | _ => match k with O => l | _ => [] end
  end.
