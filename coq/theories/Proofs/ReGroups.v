(* A third analysis of the regex engine, sound for every pattern whose only look-around is negative look-ahead:
   how many characters a pattern consumes (len_k) and, from it, bounds on the length of
   what a capture group holds in a finished match (group_bounds).  Used to prove that a
   heading's level - the length of the '#' group - lies between 1 and 6 for the pattern
   regenerated from /repo, whatever the line is. *)
From Coq Require Import ZArith List Bool Lia.
From Mistletoe Require Import Base.Sx Base.PyStr Base.PyText Gen.GenTables Re.ReMatch Proofs.ReFirst Proofs.ReNeeds.
Import ListNotations.
Local Open Scope Z_scope.

(* lower and upper bound (None = unbounded) on the number of characters consumed *)
Fixpoint minlen (r : re) : Z :=
  match r with
  | Lit _ | NotLit _ | Any | Set_ _ _ => 1
  | Seq a b => minlen a + minlen b
  | Alt a b => Z.min (minlen a) (minlen b)
  | Rep _ mn _ r' => Z.of_nat mn * minlen r'
  | Grp _ r' => minlen r'
  | _ => 0
  end.

Definition oadd (a b : option Z) : option Z := match a, b with Some x, Some y => Some (x + y) | _, _ => None end.
Definition omax (a b : option Z) : option Z := match a, b with Some x, Some y => Some (Z.max x y) | _, _ => None end.

Fixpoint maxlen (r : re) : option Z :=
  match r with
  | Lit _ | NotLit _ | Any | Set_ _ _ => Some 1
  | Seq a b => oadd (maxlen a) (maxlen b)
  | Alt a b => omax (maxlen a) (maxlen b)
  | Rep _ _ mx r' => match mx, maxlen r' with Some x, Some h => Some (Z.of_nat x * h) | _, _ => None end
  | Grp _ r' => maxlen r'
  | Bref _ => None
  | _ => Some 0
  end.

Definition within (p lo : Z) (hi : option Z) (p' : Z) : Prop :=
  p + lo <= p' /\ match hi with Some h => p' <= p + h | None => True end.

Lemma minlen_nonneg r : 0 <= minlen r.
Proof. induction r; cbn [minlen]; lia. Qed.

Lemma maxlen_nonneg r h : maxlen r = Some h -> 0 <= h.
Proof.
  revert h. induction r as [|c|c| |neg items|a IHa b IHb|a IHa b IHb|g mn mx r IHr|n r IHr|n|ahead neg w r IHr| |]; intros h H; cbn [maxlen] in H;
    try (injection H as <-; lia); try discriminate.
  - destruct (maxlen a) as [x|]; [|discriminate]. destruct (maxlen b) as [y|]; [|discriminate].
    injection H as <-. specialize (IHa x eq_refl). specialize (IHb y eq_refl). lia.
  - destruct (maxlen a) as [x|]; [|discriminate]. destruct (maxlen b) as [y|]; [|discriminate].
    injection H as <-. specialize (IHa x eq_refl). lia.
  - destruct mx as [x|]; [|discriminate]. destruct (maxlen r) as [y|]; [|discriminate].
    injection H as <-. specialize (IHr y eq_refl). nia.
  - apply IHr. exact H.
Qed.

Fixpoint no_lookbehind (r : re) : bool :=
  match r with
  | Seq a b | Alt a b => no_lookbehind a && no_lookbehind b
  | Rep _ _ _ r' | Grp _ r' => no_lookbehind r'
  | Look ahead neg _ r' => ahead && neg && no_lookbehind r'        (* only negative look-ahead: it records no groups *)
  | _ => true
  end.

Lemma eat_pos : forall seg s s', eat seg s = Some s' -> pos s <= pos s'.
Proof.
  induction seg as [|c seg IH]; intros s s' H; cbn [eat] in H.
  - injection H as <-. lia.
  - destruct (aft s) as [|d t]; [discriminate|]. destruct (c =? d); [|discriminate].
    apply IH in H. cbn [advance pos] in H. lia.
Qed.

Section Len.
  Variable fl : flags.

  (* the loop: after cnt iterations the position lies within cnt times the body's bounds *)
  Lemma loop_len body g mn mx k k' (p0 lo : Z) (hi : option Z) :
    0 <= lo -> (forall h, hi = Some h -> 0 <= h) ->
    (forall s k1 k2, (forall s', within (pos s) lo hi (pos s') -> k1 s' = k2 s') -> body s k1 = body s k2) ->
    (forall s', within p0 (Z.of_nat mn * lo) (match mx, hi with Some x, Some h => Some (Z.of_nat x * h) | _, _ => None end) (pos s') -> k s' = k' s') ->
    forall fuel cnt s,
      within p0 (Z.of_nat cnt * lo) (match hi with Some h => Some (Z.of_nat cnt * h) | None => None end) (pos s) ->
      (match mx with Some x => (cnt <= x)%nat | None => True end) ->
      loop body g mn mx k fuel cnt s = loop body g mn mx k' fuel cnt s.
  Proof.
    intros Hlo Hhi Hb Hk. induction fuel as [|x fuel IH]; intros cnt s Hs Hmx; cbn [loop].
    - destruct (Nat.ltb cnt mn) eqn:E; [reflexivity|]. apply Nat.ltb_ge in E. apply Hk.
      destruct Hs as [H1 H2]. split; [nia|].
      destruct mx as [xm|]; [|exact I]. destruct hi as [h|]; [|exact I]. specialize (Hhi h eq_refl). nia.
    - assert (Kk : Nat.ltb cnt mn = false -> k s = k' s).
      { intros E. apply Nat.ltb_ge in E. apply Hk. destruct Hs as [H1 H2]. split; [nia|].
        destruct mx as [xm|]; [|exact I]. destruct hi as [h|]; [|exact I]. specialize (Hhi h eq_refl). nia. }
      assert (More : (if under mx cnt
                      then body s (fun s' => if Nat.leb mn cnt && (pos s' =? pos s) then None else loop body g mn mx k fuel (S cnt) s')
                      else None) =
                     (if under mx cnt
                      then body s (fun s' => if Nat.leb mn cnt && (pos s' =? pos s) then None else loop body g mn mx k' fuel (S cnt) s')
                      else None)).
      { destruct (under mx cnt) eqn:Eu; [|reflexivity]. apply Hb. intros s' Hs'.
        destruct (Nat.leb mn cnt && (pos s' =? pos s)); [reflexivity|]. apply IH.
        - destruct Hs as [H1 H2]. destruct Hs' as [H3 H4]. split; [nia|].
          destruct hi as [h|]; [|exact I]. nia.
        - destruct mx as [xm|]; [|exact I]. unfold under in Eu. apply Nat.ltb_lt in Eu. lia. }
      destruct (Nat.ltb cnt mn) eqn:E; [exact More|].
      destruct g; rewrite More, (Kk eq_refl); reflexivity.
  Qed.

  Theorem len_k : forall r, no_lookbehind r = true -> forall s k k',
    (forall s', within (pos s) (minlen r) (maxlen r) (pos s') -> k s' = k' s') -> m fl r s k = m fl r s k'.
  Proof.
    induction r as [|c|c| |neg items|a IHa b IHb|a IHa b IHb|g mn mx r IHr|n r IHr|n|ahead neg w r IHr| |]; intros Hs s k k' Hk; cbn [m]; cbn [no_lookbehind] in Hs.
    - apply Hk. cbn [minlen maxlen]. split; lia.
    - destruct (aft s) as [|d t]; [reflexivity|]. destruct (char_ok fl (Lit c) d); [|reflexivity]. apply Hk. cbn [advance pos minlen maxlen]. split; lia.
    - destruct (aft s) as [|d t]; [reflexivity|]. destruct (char_ok fl (NotLit c) d); [|reflexivity]. apply Hk. cbn [advance pos minlen maxlen]. split; lia.
    - destruct (aft s) as [|d t]; [reflexivity|]. destruct (char_ok fl Any d); [|reflexivity]. apply Hk. cbn [advance pos minlen maxlen]. split; lia.
    - destruct (aft s) as [|d t]; [reflexivity|]. destruct (char_ok fl (Set_ neg items) d); [|reflexivity]. apply Hk. cbn [advance pos minlen maxlen]. split; lia.
    - apply andb_true_iff in Hs as [Ha Hb]. apply (IHa Ha). intros s1 [H1 H2]. apply (IHb Hb). intros s2 [H3 H4]. apply Hk.
      cbn [minlen maxlen]. split; [lia|]. destruct (maxlen a) as [x|]; [|exact I]. destruct (maxlen b) as [y|]; [|exact I]. cbn [oadd]. lia.
    - apply andb_true_iff in Hs as [Ha Hb].
      rewrite (IHa Ha s k k'), (IHb Hb s k k'); [reflexivity| |].
      + intros s' [H1 H2]. apply Hk. cbn [minlen maxlen]. split; [lia|].
        destruct (maxlen a) as [x|]; [|exact I]. destruct (maxlen b) as [y|]; [|exact I]. cbn [omax]. lia.
      + intros s' [H1 H2]. apply Hk. cbn [minlen maxlen]. split; [lia|].
        destruct (maxlen a) as [x|]; [|exact I]. destruct (maxlen b) as [y|]; [|exact I]. cbn [omax]. lia.
    - apply (loop_len (m fl r) g mn mx k k' (pos s) (minlen r) (maxlen r)).
      + apply minlen_nonneg.
      + apply maxlen_nonneg.
      + intros s0 k1 k2 H12. apply (IHr Hs). exact H12.
      + intros s' Hs'. apply Hk. cbn [minlen maxlen]. exact Hs'.
      + cbn [Z.of_nat]. split; [lia|]. destruct (maxlen r); [lia|exact I].
      + destruct mx; [lia|exact I].
    - apply (IHr Hs). intros s' Hs'. apply Hk. cbn [set_grp pos minlen maxlen]. exact Hs'.
    - destruct (lookup_grp n (grp s)) as [[a b]|]; [|reflexivity].
      destruct (eat (segment s a b) s) as [s'|] eqn:E; [|reflexivity]. apply Hk. cbn [minlen maxlen]. apply eat_pos in E. split; [lia|exact I].
    - apply andb_true_iff in Hs as [Ha _]. apply andb_true_iff in Ha as [-> ->].
      destruct (m fl r s (fun s' => Some s')); [reflexivity|]. apply Hk. cbn [pos minlen maxlen]. split; lia.
    - destruct (at_bol fl s); [|reflexivity]. apply Hk. cbn [minlen maxlen]. split; lia.
    - destruct (at_eol fl s); [|reflexivity]. apply Hk. cbn [minlen maxlen]. split; lia.
  Qed.

  Corollary pos_mono r s k k' : no_lookbehind r = true ->
    (forall s', pos s <= pos s' -> k s' = k' s') -> m fl r s k = m fl r s k'.
  Proof.
    intros Hs Hk. apply (len_k r Hs). intros s' [H1 _]. apply Hk. pose proof (minlen_nonneg r). lia.
  Qed.
End Len.

(* ---- the groups of a finished match ---- *)
(* every recorded group lies inside the text read so far, and group n0 has a length between lo and hi *)
Definition grp_entry_ok (n0 : nat) (lo hi : Z) (p : Z) (e : nat * (Z * Z)) : bool :=
  let '(n, (a, b)) := e in
  (0 <=? a) && (a <=? b) && (b <=? p) && (if Nat.eqb n n0 then (lo <=? b - a) && (b - a <=? hi) else true).
Definition state_ok (n0 : nat) (lo hi : Z) (s : mst) : bool :=
  (Z.of_nat (length (bef s)) =? pos s) && forallb (grp_entry_ok n0 lo hi (pos s)) (grp s).

(* every capture of group n0 in r consumes between lo and hi characters *)
Fixpoint grp_bounded (n0 : nat) (lo hi : Z) (r : re) : bool :=
  match r with
  | Seq a b | Alt a b => grp_bounded n0 lo hi a && grp_bounded n0 lo hi b
  | Rep _ _ _ r' | Look _ _ _ r' => grp_bounded n0 lo hi r'
  | Grp n r' =>
    grp_bounded n0 lo hi r' &&
    (if Nat.eqb n n0 then (lo <=? minlen r') && match maxlen r' with Some h => h <=? hi | None => false end else true)
  | _ => true
  end.

Lemma entries_weaken n0 lo hi p p' g : p <= p' -> forallb (grp_entry_ok n0 lo hi p) g = true -> forallb (grp_entry_ok n0 lo hi p') g = true.
Proof.
  intros Hp. induction g as [|[n [a b]] g IH]; [reflexivity|]. cbn [forallb grp_entry_ok]. intros H.
  apply andb_true_iff in H as [H1 H2]. rewrite (IH H2), andb_true_r.
  repeat rewrite andb_true_iff in H1. destruct H1 as [[[Ha Hab] Hb] Hn].
  repeat rewrite andb_true_iff. repeat split; try assumption. apply Z.leb_le in Hb. apply Z.leb_le. lia.
Qed.

Section Groups.
  Variable fl : flags.
  Variables (n0 : nat) (lo hi : Z).

  Lemma loop_ok body g mn mx k k' (p0 : Z) :
    (forall s k1 k2, state_ok n0 lo hi s = true -> p0 <= pos s ->
        (forall s', state_ok n0 lo hi s' = true -> pos s <= pos s' -> k1 s' = k2 s') -> body s k1 = body s k2) ->
    (forall s', state_ok n0 lo hi s' = true -> p0 <= pos s' -> k s' = k' s') ->
    forall fuel cnt s, state_ok n0 lo hi s = true -> p0 <= pos s ->
      loop body g mn mx k fuel cnt s = loop body g mn mx k' fuel cnt s.
  Proof.
    intros Hb Hk. induction fuel as [|x fuel IH]; intros cnt s Hs Hp; cbn [loop].
    - destruct (Nat.ltb cnt mn); [reflexivity|apply Hk; assumption].
    - assert (More : (if under mx cnt
                      then body s (fun s' => if Nat.leb mn cnt && (pos s' =? pos s) then None else loop body g mn mx k fuel (S cnt) s')
                      else None) =
                     (if under mx cnt
                      then body s (fun s' => if Nat.leb mn cnt && (pos s' =? pos s) then None else loop body g mn mx k' fuel (S cnt) s')
                      else None)).
      { destruct (under mx cnt); [|reflexivity]. apply Hb; [exact Hs|exact Hp|]. intros s' Hs' Hp'.
        destruct (Nat.leb mn cnt && (pos s' =? pos s)); [reflexivity|apply IH; [exact Hs'|lia]]. }
      destruct (Nat.ltb cnt mn); [exact More|].
      destruct g; rewrite More, (Hk s Hs Hp); reflexivity.
  Qed.

  Lemma advance_ok s c t : aft s = c :: t -> state_ok n0 lo hi s = true -> state_ok n0 lo hi (advance s c t) = true.
  Proof.
    intros _ H. unfold state_ok in *. apply andb_true_iff in H as [H1 H2]. cbn [advance bef pos grp length].
    apply andb_true_iff. split.
    - apply Z.eqb_eq in H1. apply Z.eqb_eq. lia.
    - apply (entries_weaken n0 lo hi (pos s)); [lia|exact H2].
  Qed.

  Theorem groups_k : forall r, no_lookbehind r = true -> grp_bounded n0 lo hi r = true -> forall s k k',
    state_ok n0 lo hi s = true ->
    (forall s', state_ok n0 lo hi s' = true -> pos s <= pos s' -> k s' = k' s') -> m fl r s k = m fl r s k'.
  Proof.
    induction r as [|c|c| |neg items|a IHa b IHb|a IHa b IHb|g mn mx r IHr|n r IHr|n|ahead neg w r IHr| |];
      intros Hl Hg s k k' Hs Hk; cbn [m]; cbn [no_lookbehind grp_bounded] in Hl, Hg.
    - apply Hk; [exact Hs|lia].
    - destruct (aft s) as [|d t] eqn:E; [reflexivity|]. destruct (char_ok fl (Lit c) d); [|reflexivity].
      apply Hk; [apply advance_ok; assumption|cbn [advance pos]; lia].
    - destruct (aft s) as [|d t] eqn:E; [reflexivity|]. destruct (char_ok fl (NotLit c) d); [|reflexivity].
      apply Hk; [apply advance_ok; assumption|cbn [advance pos]; lia].
    - destruct (aft s) as [|d t] eqn:E; [reflexivity|]. destruct (char_ok fl Any d); [|reflexivity].
      apply Hk; [apply advance_ok; assumption|cbn [advance pos]; lia].
    - destruct (aft s) as [|d t] eqn:E; [reflexivity|]. destruct (char_ok fl (Set_ neg items) d); [|reflexivity].
      apply Hk; [apply advance_ok; assumption|cbn [advance pos]; lia].
    - apply andb_true_iff in Hl as [La Lb]. apply andb_true_iff in Hg as [Ga Gb].
      apply (IHa La Ga s _ _ Hs). intros s1 Hs1 Hp1. apply (IHb Lb Gb s1 _ _ Hs1). intros s2 Hs2 Hp2. apply Hk; [exact Hs2|lia].
    - apply andb_true_iff in Hl as [La Lb]. apply andb_true_iff in Hg as [Ga Gb].
      rewrite (IHa La Ga s k k' Hs Hk), (IHb Lb Gb s k k' Hs Hk). reflexivity.
    - apply (loop_ok (m fl r) g mn mx k k' (pos s)); [|exact Hk|exact Hs|lia].
      intros s0 k1 k2 Hs0 Hp0 H12. apply (IHr Hl Hg s0 _ _ Hs0). exact H12.
    - apply andb_true_iff in Hg as [Gr Gn].
      (* first restrict to the lengths the body can consume, then to well-formed states *)
      rewrite (len_k fl r Hl s _ (fun s' => if (pos s + minlen r <=? pos s') && match maxlen r with Some h => pos s' <=? pos s + h | None => true end
                                              then k (set_grp n (pos s) (pos s') s') else None)).
      2:{ intros s' [H1 H2]. assert (pos s + minlen r <=? pos s' = true) as -> by (apply Z.leb_le; lia).
          destruct (maxlen r) as [h|]; [assert (pos s' <=? pos s + h = true) as -> by (apply Z.leb_le; lia)|]; reflexivity. }
      rewrite (len_k fl r Hl s (fun s' => k' (set_grp n (pos s) (pos s') s'))
                     (fun s' => if (pos s + minlen r <=? pos s') && match maxlen r with Some h => pos s' <=? pos s + h | None => true end
                                then k' (set_grp n (pos s) (pos s') s') else None)).
      2:{ intros s' [H1 H2]. assert (pos s + minlen r <=? pos s' = true) as -> by (apply Z.leb_le; lia).
          destruct (maxlen r) as [h|]; [assert (pos s' <=? pos s + h = true) as -> by (apply Z.leb_le; lia)|]; reflexivity. }
      apply (IHr Hl Gr s _ _ Hs). intros s' Hs' Hp'.
      destruct ((pos s + minlen r <=? pos s') && _) eqn:Eb; [|reflexivity].
      apply andb_true_iff in Eb as [E1 E2]. apply Z.leb_le in E1.
      apply Hk; [|cbn [set_grp pos]; exact Hp'].
      unfold state_ok in *. cbn [set_grp bef pos grp forallb]. apply andb_true_iff in Hs' as [W1 W2].
      apply andb_true_iff in Hs as [V1 V2]. apply Z.eqb_eq in V1.
      rewrite W1, W2, andb_true_r. cbn [andb grp_entry_ok].
      pose proof (minlen_nonneg r) as Mn.
      assert (0 <=? pos s = true) as -> by (apply Z.leb_le; lia).
      assert (pos s <=? pos s' = true) as -> by (apply Z.leb_le; lia).
      rewrite Z.leb_refl. cbn [andb].
      destruct (Nat.eqb n n0); [|reflexivity].
      apply andb_true_iff in Gn as [G1 G2]. apply Z.leb_le in G1.
      destruct (maxlen r) as [h|]; [|discriminate]. apply Z.leb_le in G2, E2.
      apply andb_true_iff. split; apply Z.leb_le; lia.
    - destruct (lookup_grp n (grp s)) as [[a b]|]; [|reflexivity].
      destruct (eat (segment s a b) s) as [s'|] eqn:E; [|reflexivity].
      assert (EO : forall seg s0 s1, eat seg s0 = Some s1 -> state_ok n0 lo hi s0 = true -> state_ok n0 lo hi s1 = true).
      { induction seg as [|c seg IH]; intros s0 s1 H0 H1; cbn [eat] in H0; [injection H0 as <-; exact H1|].
        destruct (aft s0) as [|d t] eqn:E0; [discriminate|]. destruct (c =? d); [|discriminate].
        apply IH in H0; [exact H0|apply advance_ok; assumption]. }
      apply Hk; [eapply EO; eassumption|apply eat_pos in E; exact E].
    - apply andb_true_iff in Hl as [La _]. apply andb_true_iff in La as [-> ->].
      destruct (m fl r s (fun s' => Some s')); [reflexivity|]. apply Hk; [exact Hs|lia].
    - destruct (at_bol fl s); [|reflexivity]. apply Hk; [exact Hs|lia].
    - destruct (at_eol fl s); [|reflexivity]. apply Hk; [exact Hs|lia].
  Qed.
End Groups.

(* ---- a finished match comes from a continuation call ---- *)
Section Result.
  Variable fl : flags.

  Lemma orelse_some {A} (x : option A) y v : orelse x y = Some v -> x = Some v \/ (x = None /\ y tt = Some v).
  Proof. destruct x; cbn; intros H; [left|right]; auto. Qed.

  Lemma loop_result body g mn mx k :
    (forall s k0 v, body s k0 = Some v -> exists s', k0 s' = Some v) ->
    forall fuel cnt s v, loop body g mn mx k fuel cnt s = Some v -> exists s', k s' = Some v.
  Proof.
    intros Hb. induction fuel as [|x fuel IH]; intros cnt s v H; cbn [loop] in H.
    - destruct (Nat.ltb cnt mn); [discriminate|]. eauto.
    - assert (More : forall w, (if under mx cnt then body s (fun s' => if Nat.leb mn cnt && (pos s' =? pos s) then None else loop body g mn mx k fuel (S cnt) s') else None) = Some w ->
                               exists s', k s' = Some w).
      { intros w Hw. destruct (under mx cnt); [|discriminate]. apply Hb in Hw as (s2 & Hw).
        destruct (Nat.leb mn cnt && (pos s2 =? pos s)); [discriminate|]. eapply IH. exact Hw. }
      destruct (Nat.ltb cnt mn); [apply More; exact H|].
      destruct g; apply orelse_some in H as [H|[_ H]]; eauto.
  Qed.

  Theorem m_result : forall r s k v, m fl r s k = Some v -> exists s', k s' = Some v.
  Proof.
    induction r as [|c|c| |neg items|a IHa b IHb|a IHa b IHb|g mn mx r IHr|n r IHr|n|ahead neg w r IHr| |]; intros s k v H; cbn [m] in H.
    - eauto.
    - destruct (aft s) as [|d t]; [discriminate|]. destruct (char_ok fl (Lit c) d); [eauto|discriminate].
    - destruct (aft s) as [|d t]; [discriminate|]. destruct (char_ok fl (NotLit c) d); [eauto|discriminate].
    - destruct (aft s) as [|d t]; [discriminate|]. destruct (char_ok fl Any d); [eauto|discriminate].
    - destruct (aft s) as [|d t]; [discriminate|]. destruct (char_ok fl (Set_ neg items) d); [eauto|discriminate].
    - apply IHa in H as (s1 & H). apply IHb in H. exact H.
    - apply orelse_some in H as [H|[_ H]]; [apply IHa in H|apply IHb in H]; exact H.
    - eapply loop_result; [|exact H]. intros s0 k0 v0 H0. eapply IHr. exact H0.
    - apply IHr in H as (s' & H). eauto.
    - destruct (lookup_grp n (grp s)) as [[a b]|]; [|discriminate]. destruct (eat _ s); [eauto|discriminate].
    - destruct (if ahead then _ else _); destruct neg; try discriminate; eauto.
    - destruct (at_bol fl s); [eauto|discriminate].
    - destruct (at_eol fl s); [eauto|discriminate].
  Qed.
End Result.

Lemma m_ext fl r s k k' : (forall s', k s' = k' s') -> m fl r s k = m fl r s k'.
Proof. intros H. apply suffix_k. intros s' _. apply H. Qed.

(* ---- which groups are certainly set ---- *)
Definition has_grp (n0 : nat) (s : mst) : bool := match lookup_grp n0 (grp s) with Some _ => true | None => false end.

Fixpoint sets (n0 : nat) (r : re) : bool :=
  match r with
  | Seq a b => sets n0 a || sets n0 b
  | Alt a b => sets n0 a && sets n0 b
  | Rep _ mn _ r' => match mn with O => false | S _ => sets n0 r' end
  | Grp n r' => Nat.eqb n n0 || sets n0 r'
  | _ => false
  end.

Section Sets.
  Variable fl : flags.
  Variable n0 : nat.

  Lemma loop_has body g mn mx k k' :
    (forall s k1 k2, has_grp n0 s = true -> (forall s', has_grp n0 s' = true -> k1 s' = k2 s') -> body s k1 = body s k2) ->
    (forall s', has_grp n0 s' = true -> k s' = k' s') ->
    forall fuel cnt s, has_grp n0 s = true -> loop body g mn mx k fuel cnt s = loop body g mn mx k' fuel cnt s.
  Proof.
    intros Hb Hk. induction fuel as [|x fuel IH]; intros cnt s Hs; cbn [loop].
    - destruct (Nat.ltb cnt mn); [reflexivity|apply Hk; exact Hs].
    - assert (More : (if under mx cnt
                      then body s (fun s' => if Nat.leb mn cnt && (pos s' =? pos s) then None else loop body g mn mx k fuel (S cnt) s')
                      else None) =
                     (if under mx cnt
                      then body s (fun s' => if Nat.leb mn cnt && (pos s' =? pos s) then None else loop body g mn mx k' fuel (S cnt) s')
                      else None)).
      { destruct (under mx cnt); [|reflexivity]. apply Hb; [exact Hs|]. intros s' Hs'.
        destruct (Nat.leb mn cnt && (pos s' =? pos s)); [reflexivity|apply IH; exact Hs']. }
      destruct (Nat.ltb cnt mn); [exact More|].
      destruct g; rewrite More, (Hk s Hs); reflexivity.
  Qed.

  Lemma eat_grp : forall seg s s', eat seg s = Some s' -> grp s' = grp s.
  Proof.
    induction seg as [|c seg IH]; intros s s' H; cbn [eat] in H; [injection H as <-; reflexivity|].
    destruct (aft s) as [|d t]; [discriminate|]. destruct (c =? d); [|discriminate]. apply IH in H. exact H.
  Qed.

  (* a group that is set stays set *)
  Theorem has_k : forall r, no_lookbehind r = true -> forall s k k', has_grp n0 s = true ->
    (forall s', has_grp n0 s' = true -> k s' = k' s') -> m fl r s k = m fl r s k'.
  Proof.
    induction r as [|c|c| |neg items|a IHa b IHb|a IHa b IHb|g mn mx r IHr|n r IHr|n|ahead neg w r IHr| |]; intros Hl s k k' Hs Hk; cbn [m]; cbn [no_lookbehind] in Hl.
    - apply Hk. exact Hs.
    - destruct (aft s) as [|d t]; [reflexivity|]. destruct (char_ok fl (Lit c) d); [|reflexivity]. apply Hk. exact Hs.
    - destruct (aft s) as [|d t]; [reflexivity|]. destruct (char_ok fl (NotLit c) d); [|reflexivity]. apply Hk. exact Hs.
    - destruct (aft s) as [|d t]; [reflexivity|]. destruct (char_ok fl Any d); [|reflexivity]. apply Hk. exact Hs.
    - destruct (aft s) as [|d t]; [reflexivity|]. destruct (char_ok fl (Set_ neg items) d); [|reflexivity]. apply Hk. exact Hs.
    - apply andb_true_iff in Hl as [La Lb]. apply (IHa La s _ _ Hs). intros s1 Hs1. apply (IHb Lb s1 _ _ Hs1). exact Hk.
    - apply andb_true_iff in Hl as [La Lb]. rewrite (IHa La s k k' Hs Hk), (IHb Lb s k k' Hs Hk). reflexivity.
    - apply (loop_has (m fl r) g mn mx k k'); [|exact Hk|exact Hs].
      intros s0 k1 k2 Hs0 H12. apply (IHr Hl s0 _ _ Hs0). exact H12.
    - apply (IHr Hl s _ _ Hs). intros s' Hs'. apply Hk. unfold has_grp in *. cbn [set_grp grp lookup_grp].
      destruct (Nat.eqb n n0); [reflexivity|exact Hs'].
    - destruct (lookup_grp n (grp s)) as [[a b]|]; [|reflexivity].
      destruct (eat (segment s a b) s) as [s'|] eqn:E; [|reflexivity]. apply Hk. unfold has_grp in *. rewrite (eat_grp _ _ _ E). exact Hs.
    - apply andb_true_iff in Hl as [La _]. apply andb_true_iff in La as [-> ->].
      destruct (m fl r s (fun s' => Some s')); [reflexivity|]. apply Hk. exact Hs.
    - destruct (at_bol fl s); [|reflexivity]. apply Hk. exact Hs.
    - destruct (at_eol fl s); [|reflexivity]. apply Hk. exact Hs.
  Qed.

  Theorem sets_k : forall r, no_lookbehind r = true -> sets n0 r = true -> forall s k k',
    (forall s', has_grp n0 s' = true -> k s' = k' s') -> m fl r s k = m fl r s k'.
  Proof.
    induction r as [|c|c| |neg items|a IHa b IHb|a IHa b IHb|g mn mx r IHr|n r IHr|n|ahead neg w r IHr| |]; intros Hl Hst s k k' Hk;
      cbn [sets] in Hst; try discriminate; cbn [m]; cbn [no_lookbehind] in Hl.
    - apply andb_true_iff in Hl as [La Lb]. apply orb_true_iff in Hst as [Hst|Hst].
      + apply (IHa La Hst). intros s1 Hs1. apply (has_k b Lb s1 _ _ Hs1). exact Hk.
      + (* whatever a does, b sets the group *)
        assert (E : forall s1, m fl b s1 k = m fl b s1 k') by (intros s1; apply (IHb Lb Hst); exact Hk).
        apply m_ext. exact E.
    - apply andb_true_iff in Hl as [La Lb]. apply andb_true_iff in Hst as [Ha Hb].
      rewrite (IHa La Ha s k k' Hk), (IHb Lb Hb s k k' Hk). reflexivity.
    - destruct mn as [|mn]; [discriminate|].
      cbn [repeat app loop]. replace (Nat.ltb 0 (S mn)) with true by reflexivity.
      destruct (under mx 0); [|reflexivity].
      apply (IHr Hl Hst). intros s1 Hs1.
      destruct (Nat.leb (S mn) 0 && (pos s1 =? pos s)); [reflexivity|].
      apply (loop_has (m fl r) g (S mn) mx k k'); [|exact Hk|exact Hs1].
      intros s0 k1 k2 Hs0 H12. apply (has_k r Hl s0 _ _ Hs0). exact H12.
    - apply orb_true_iff in Hst as [Hst|Hst].
      + apply Nat.eqb_eq in Hst. subst n.
        (* the body's continuation sets the group before calling k *)
        assert (E : forall s', k (set_grp n0 (pos s) (pos s') s') = k' (set_grp n0 (pos s) (pos s') s')).
        { intros s'. apply Hk. unfold has_grp. cbn [set_grp grp lookup_grp]. rewrite Nat.eqb_refl. reflexivity. }
        apply m_ext. exact E.
      + apply (IHr Hl Hst). intros s' Hs'. apply Hk. unfold has_grp in *. cbn [set_grp grp lookup_grp].
        destruct (Nat.eqb n n0); [reflexivity|exact Hs'].
  Qed.
End Sets.

(* ---- the length of a group's text in a finished match ---- *)
Lemma lookup_in n g v : lookup_grp n g = Some v -> In (n, v) g.
Proof.
  induction g as [|[k w] g IH]; cbn [lookup_grp]; [discriminate|].
  destruct (Nat.eqb k n) eqn:E; intros H.
  - injection H as <-. apply Nat.eqb_eq in E. subst k. left. reflexivity.
  - right. apply IH. exact H.
Qed.

Lemma segment_length s a b : Z.of_nat (length (bef s)) = pos s -> 0 <= a -> a <= b -> b <= pos s ->
  slen (segment s a b) = b - a.
Proof.
  intros Hw Ha Hab Hb. unfold slen, segment. rewrite firstn_length, rev_length, firstn_length. lia.
Qed.

Theorem group_length fl r n0 lo hi line res :
  no_lookbehind r = true -> grp_bounded n0 lo hi r = true -> sets n0 r = true ->
  match_here fl r (start_at [] line) = Some res ->
  exists t, group_text res n0 = Some t /\ lo <= slen t <= hi.
Proof.
  intros Hl Hg Hs H. unfold match_here, start_at in H. cbn [bef aft pos length Z.of_nat] in H.
  set (s0 := mkMst [] line 0 []) in H.
  assert (Ok0 : state_ok n0 lo hi s0 = true) by reflexivity.
  set (k1 := fun s' : mst => if state_ok n0 lo hi s' then Some s' else None).
  set (k2 := fun s' : mst => if state_ok n0 lo hi s' && has_grp n0 s' then Some s' else None).
  assert (E1 : m fl r s0 (fun s' => Some s') = m fl r s0 k1).
  { apply (groups_k fl n0 lo hi r Hl Hg s0 _ _ Ok0). intros s' Hs' _. unfold k1. rewrite Hs'. reflexivity. }
  assert (E2 : m fl r s0 k1 = m fl r s0 k2).
  { apply (sets_k fl n0 r Hl Hs). intros s' Hs'. unfold k1, k2. rewrite Hs', andb_true_r. reflexivity. }
  rewrite E1, E2 in H. apply m_result in H as (s' & H). unfold k2 in H.
  destruct (state_ok n0 lo hi s' && has_grp n0 s') eqn:E; [|discriminate]. injection H as ->.
  apply andb_true_iff in E as [Ok Has]. unfold has_grp in Has.
  destruct (lookup_grp n0 (grp res)) as [[a b]|] eqn:EL; [|discriminate].
  unfold state_ok in Ok. apply andb_true_iff in Ok as [W G]. apply Z.eqb_eq in W.
  rewrite forallb_forall in G. specialize (G _ (lookup_in _ _ _ EL)). cbn [grp_entry_ok] in G.
  rewrite Nat.eqb_refl in G. repeat rewrite andb_true_iff in G. destruct G as [[[Ha Hab] Hb] [L1 L2]].
  apply Z.leb_le in Ha, Hab, Hb, L1, L2.
  exists (segment res a b). unfold group_text. rewrite EL. split; [reflexivity|].
  rewrite segment_length by assumption. lia.
Qed.
