(* Document-level form of the quote law, the refutation of its full-strength form, and the
   bounded list law assembled from the sweep shards. *)
From Coq Require Import ZArith List Bool Lia.
From Mistletoe Require Import Base.Sx Base.PyStr Base.PyText Gen.GenConfig Model.Tree Model.CoreTokens Model.Block Model.Build
     Model.Parser Proofs.Laws Proofs.QuoteLaw.
From Mistletoe Require Proofs.ListLaw.SweepA Proofs.ListLaw.SweepB Proofs.ListLaw.SweepC Proofs.ListLaw.SweepD.
Import ListNotations.
Local Open Scope Z_scope.

Lemma depth_fuel_S lines : exists f, depth_fuel lines = S f /\ f = pred (depth_fuel lines).
Proof. unfold depth_fuel. eexists. split; reflexivity. Qed.

Theorem quote_wraps_document cfg sp ls :
  quote_first (cfg_block cfg) = true -> ls <> [] -> Forall (ok_line sp) ls ->
  let qs := map (qline sp) ls in
  let es := fst (fst (tokenize_block (cfg_block cfg) (pred (depth_fuel qs)) ls 1 (mkPs false))) in
  let fn := footnotes_of es in
  parse_lines cfg qs =
  (Document [Quote (make_tokens (cfg_span cfg) (cfg_keep_defs cfg) fn es)], fn, 1 :: flat_map (lnums (cfg_keep_defs cfg)) es).
Proof.
  intros Hq Hne H qs es fn. unfold parse_lines, block_phase.
  destruct (depth_fuel_S qs) as (f & Ef & Ep). rewrite Ef.
  subst qs. rewrite (quote_wraps (cfg_block cfg) sp ls f 1 (mkPs true) Hq Hne H).
  subst es fn. rewrite <- Ep.
  set (es := fst (fst (tokenize_block (cfg_block cfg) f ls 1 (mkPs false)))).
  assert (Efn : footnotes_of [PQuote 1 es] = footnotes_of es).
  { unfold footnotes_of. cbn [flat_map defs_of]. rewrite app_nil_r. reflexivity. }
  rewrite Efn. unfold make_tokens at 1. cbn [flat_map build app lnums]. rewrite !app_nil_r. reflexivity.
Qed.

Lemma configs_try_quote_first :
  forallb (fun c => quote_first (cfg_block c)) [cfg_html; cfg_html_nohtml; cfg_markdown; cfg_latex; cfg_mathjax; cfg_default] = true.
Proof. vm_compute. reflexivity. Qed.

(* the law as the property states it (content = the plain parse, setext headings included) is false *)
Lemma full_statement_refuted :
  exists text, quote_law_premises text = true /\ quote_law cfg_html true [62; 32] text = false /\ quote_law cfg_html false [62; 32] text = true.
Proof. exists [70; 111; 111; 10; 45; 45; 45; 10]. vm_compute. repeat split; reflexivity. Qed.

Lemma bounded_list_law marker pad text :
  In (marker, pad) [([45], 1%nat); ([45], 3%nat); ([49; 46], 2%nat); ([49; 46], 4%nat)] ->
  In text (strings_up_to law_alpha 4) -> list_law_premises marker pad text = true ->
  list_law cfg_html marker pad text = true.
Proof.
  intros Hm Ht Hp.
  assert (G : list_law_guarded cfg_html marker pad text = true).
  { cbn [In] in Hm. destruct Hm as [E|[E|[E|[E|[]]]]]; injection E as <- <-;
      [pose proof SweepA.sweep as S|pose proof SweepB.sweep as S|pose proof SweepC.sweep as S|pose proof SweepD.sweep as S];
      rewrite forallb_forall in S; apply S; exact Ht. }
  unfold list_law_guarded in G. rewrite Hp in G. exact G.
Qed.

(* non-vacuity: the premises hold for a text with two blocks, and the sweep covers it *)
Example premises_hold_somewhere :
  existsb (fun t => str_eqb t [97; 10; 10; 62] && list_law_premises [45] 1%nat t) (strings_up_to law_alpha 4) = true.
Proof. vm_compute. reflexivity. Qed.
