(* C03 / C08: ONE inline link WITH A TITLE inside a sentence.  pre [w](dest "title") post - as Proofs/LinkSentence.v, the destination
   now ended by the space, the title scanner (match_link_title: white space skipped, the opening delimiter - a double quote, a single
   quote or a parenthesis -, the loop over the title up to the closing delimiter) finding the title, the closing parenthesis after
   it; the Link token holds destination, title and the delimiter the title was written with. *)
From Coq Require Import ZArith List Bool Lia.
From Mistletoe Require Import Base.Sx Base.PyStr Base.PyText Gen.GenTables Gen.GenRegex Gen.GenConfig Re.ReMatch
     Model.SpanTokenizer Model.Tree Model.Unescape Model.CoreTokens Model.Inline Model.Block Model.Build Model.Parser Model.HtmlRenderer
     Proofs.ReFirst Proofs.ReNeeds Proofs.Prose Proofs.PlainProse Proofs.ListLaw Proofs.ProseLines Proofs.EmphSimple Proofs.EmphSentence Proofs.RefSentence Proofs.LinkSentence.
Import ListNotations.
Local Open Scope Z_scope.

Module Ttl.
Section TitleS.
  Variables (pre w dest title post : str) (q qc : Z) (fn : footnotes).
  Hypothesis Hpre : plain_text pre = true.
  Hypothesis Hw : plain_text w = true.
  Hypothesis Hpost : plain_text post = true.
  Hypothesis Hwne : w <> [].
  Hypothesis Hd : forallb dest_char dest = true.
  Hypothesis Hdne : dest <> [].
  Hypothesis Ht : plain_text title = true.
  Hypothesis Htq : mem qc title = false.
  (* the delimiter of the title and what closes it, as match_link_title pairs them *)
  Hypothesis Hcl : (if q =? 34 then 34 else if q =? 39 then 39 else if q =? 40 then 41 else -1) = qc.
  Hypothesis Hqws : is_ws q = false.
  Hypothesis Hq41 : (q =? 41) = false.
  Hypothesis Hqc1 : (qc =? -1) = false.
  Hypothesis Hqc92 : (qc =? 92) = false.
  Hypothesis Hqt : mem q triggers_r = false.
  Hypothesis Hqct : mem qc triggers_r = false.

  (* what stands between "(" and ")": the destination, a space, the title between its delimiters *)
  Let blob := dest ++ [32; q] ++ title ++ [qc].

  Let s := pre ++ [91] ++ w ++ [93; 40] ++ blob ++ [41] ++ post.
  Let a := slen pre.
  Let b := a + 1 + slen w.
  Let off := b + 2.
  Let de := off + slen blob.

  Lemma l_len : slen s = de + 1 + slen post.
  Proof. unfold s, de, off, b, a. rewrite !slen_app. unfold slen. cbn [length]. lia. Qed.
  Lemma l_a0 : 0 <= a.  Proof. unfold a, slen. lia. Qed.
  Lemma l_w0 : 0 < slen w.
  Proof. unfold slen. destruct (length w) eqn:El; [apply length_zero_iff_nil in El; contradiction|lia]. Qed.
  Lemma l_d0 : 0 < slen blob.
  Proof. unfold blob, slen. rewrite !app_length. cbn [length]. lia. Qed.
  Let dd := off + slen dest.
  Lemma l_dd : de = dd + 1 + 1 + slen title + 1.
  Proof. unfold de, dd, blob. rewrite !slen_app. unfold slen. cbn [length]. lia. Qed.
  Lemma l_dest0 : 0 < slen dest.
  Proof. unfold slen. destruct (length dest) eqn:El; [apply length_zero_iff_nil in El; contradiction|lia]. Qed.
  Lemma l_p0 : 0 <= slen post.  Proof. unfold slen. lia. Qed.

  (* the text split at the places the scanners look at *)
  Lemma s_at_b : s = (pre ++ [91] ++ w) ++ 93 :: (40 :: blob ++ [41] ++ post).
  Proof. unfold s. rewrite <- !app_assoc. reflexivity. Qed.
  Lemma s_at_p : s = (pre ++ [91] ++ w ++ [93]) ++ 40 :: (blob ++ [41] ++ post).
  Proof. unfold s. rewrite <- !app_assoc. reflexivity. Qed.
  Lemma s_at_off : s = (pre ++ [91] ++ w ++ [93; 40]) ++ blob ++ 41 :: post.
  Proof. unfold s. rewrite <- !app_assoc. reflexivity. Qed.
  Lemma s_at_de : s = (pre ++ [91] ++ w ++ [93; 40] ++ blob) ++ 41 :: post.
  Proof. unfold s. rewrite <- !app_assoc. reflexivity. Qed.

  Lemma len_b : slen (pre ++ [91] ++ w) = b.
  Proof. unfold b, a. rewrite !slen_app. unfold slen. cbn [length]. lia. Qed.
  Lemma len_p : slen (pre ++ [91] ++ w ++ [93]) = b + 1.
  Proof. unfold b, a. rewrite !slen_app. unfold slen. cbn [length]. lia. Qed.
  Lemma len_off : slen (pre ++ [91] ++ w ++ [93; 40]) = off.
  Proof. unfold off, b, a. rewrite !slen_app. unfold slen. cbn [length]. lia. Qed.
  Lemma len_de : slen (pre ++ [91] ++ w ++ [93; 40] ++ blob) = de.
  Proof. unfold de, off, b, a. rewrite !slen_app. unfold slen. cbn [length]. lia. Qed.

  Lemma l_at_b : char_at s b = 93.
  Proof. rewrite s_at_b, <- len_b. apply char_at_mid. Qed.
  Lemma l_at_p : char_at s (b + 1) = 40.
  Proof. rewrite s_at_p, <- len_p. apply char_at_mid. Qed.
  Lemma l_at_de : char_at s de = 41.
  Proof. rewrite s_at_de, <- len_de. apply char_at_mid. Qed.

  Lemma dest_first : exists c r, dest = c :: r /\ is_ws c = false /\ (c =? 60) = false.
  Proof.
    assert (Hcase : exists c r, dest = c :: r) by (destruct dest as [|c r]; [contradiction|exists c, r; reflexivity]).
    destruct Hcase as (c & r & E). exists c, r. split; [exact E|]. pose proof Hd as H. rewrite E in H. cbn [forallb] in H. apply andb_true_iff in H as [Hc _].
    unfold dest_char in Hc. repeat rewrite andb_true_iff in Hc. destruct Hc as [[[[H1 _] _] H4] _]. apply negb_true_iff in H1, H4. split; [exact H1|].
    unfold mem, triggers_r in H4. cbn [existsb] in H4. repeat (apply orb_false_iff in H4; destruct H4 as [? H4]).
    assumption.
  Qed.

  Lemma l_paren : follows s b 40 = true.
  Proof.
    unfold follows. rewrite l_at_p. assert (b + 1 <? slen s = true) as -> by (apply Z.ltb_lt; rewrite l_len; unfold de, off; pose proof l_d0; pose proof l_p0; lia). reflexivity.
  Qed.

  Lemma l_inner_w : substr s (a + 1) b = w.
  Proof.
    pose proof (substr_mid (pre ++ [91]) w ([93; 40] ++ blob ++ [41] ++ post)) as M.
    replace (slen (pre ++ [91])) with (a + 1) in M by (rewrite slen_app; reflexivity).
    replace (a + 1 + slen w) with b in M by (unfold b; lia).
    unfold s. replace (pre ++ [91] ++ w ++ [93; 40] ++ blob ++ [41] ++ post) with ((pre ++ [91]) ++ w ++ [93; 40] ++ blob ++ [41] ++ post) by (rewrite <- !app_assoc; reflexivity). exact M.
  Qed.

  Lemma l_bracket_text : substr s a (a + 1) = [91].
  Proof. pose proof (substr_mid pre [91] (w ++ [93; 40] ++ blob ++ [41] ++ post)) as M. fold a in M. exact M. Qed.

  Lemma l_dest_text : substr s off de = blob.
  Proof.
    pose proof (substr_mid (pre ++ [91] ++ w ++ [93; 40]) blob ([41] ++ post)) as M. rewrite len_off in M. fold de in M.
    rewrite s_at_off. exact M.
  Qed.

  Definition LD : delim := mkDelim [91] 1 1 true a (a + 1) false false false.
  Lemma LD_eq : new_delim a (a + 1) s = LD.
  Proof. unfold new_delim. rewrite l_bracket_text. cbn [andb]. unfold LD. f_equal; lia. Qed.

  (* the text from the destination on *)
  Lemma s_at_dest : s = (pre ++ [91] ++ w ++ [93; 40]) ++ dest ++ 32 :: (q :: title ++ [qc; 41] ++ post).
  Proof. unfold s, blob. rewrite <- !app_assoc. reflexivity. Qed.
  Lemma s_at_dd : s = (pre ++ [91] ++ w ++ [93; 40] ++ dest) ++ 32 :: q :: (title ++ [qc; 41] ++ post).
  Proof. unfold s, blob. rewrite <- !app_assoc. reflexivity. Qed.
  Lemma len_dd : slen (pre ++ [91] ++ w ++ [93; 40] ++ dest) = dd.
  Proof. unfold dd, off, b, a. rewrite !slen_app. unfold slen. cbn [length]. lia. Qed.
  Lemma s_at_title : s = (pre ++ [91] ++ w ++ [93; 40] ++ dest ++ [32; q]) ++ title ++ qc :: (41 :: post).
  Proof. unfold s, blob. rewrite <- !app_assoc. reflexivity. Qed.
  Lemma len_title : slen (pre ++ [91] ++ w ++ [93; 40] ++ dest ++ [32; q]) = dd + 1 + 1.
  Proof. unfold dd, off, b, a. rewrite !slen_app. unfold slen. cbn [length]. lia. Qed.

  Lemma dest_plain_run_ws : forall d i rest, forallb dest_char d = true -> dest_plain (d ++ 32 :: rest) i false 1 = Some (i + slen d).
  Proof.
    induction d as [|c d IH]; intros i rest H.
    - cbn [app dest_plain]. change (32 =? 92) with false. change (is_ws 32) with true. cbn [andb negb]. unfold slen. cbn [length Z.of_nat]. f_equal. lia.
    - cbn [forallb] in H. apply andb_true_iff in H as [Hc Hd']. unfold dest_char in Hc. repeat rewrite andb_true_iff in Hc. destruct Hc as [[[[H1 H2] H3] H4] _].
      apply negb_true_iff in H1, H2, H3, H4.
      assert (H92 : c =? 92 = false).
      { unfold mem, triggers_r in H4. cbn [existsb] in H4. apply orb_false_iff in H4 as [H4 _]. exact H4. }
      cbn [app dest_plain]. rewrite H92, H1. cbn [andb negb]. rewrite H2, H3. cbv iota. change (1 =? 0) with false. cbv iota.
      rewrite (IH (i + 1) rest Hd'). f_equal. unfold slen. cbn [length]. lia.
  Qed.

  Lemma title_scan_run : forall (tl : str) i rest, mem qc tl = false -> mem 92 tl = false -> title_scan (tl ++ qc :: rest) i qc false = Some (i + slen tl).
  Proof.
    induction tl as [|c tl IH]; intros i rest H34 H92.
    - cbn [app title_scan]. rewrite Hqc92, Z.eqb_refl. cbn [andb negb]. unfold slen. cbn [length Z.of_nat]. f_equal. lia.
    - unfold mem in H34, H92. cbn [existsb] in H34, H92. apply orb_false_iff in H34 as [A1 A2]. apply orb_false_iff in H92 as [B1 B2].
      cbn [app title_scan]. rewrite (Z.eqb_sym c 92), B1, (Z.eqb_sym c qc), A1. cbn [andb].
      rewrite (IH (i + 1) rest A2 B2). f_equal. unfold slen. cbn [length]. lia.
  Qed.

  Lemma l_dest_only : substr s off dd = dest.
  Proof.
    pose proof (substr_mid (pre ++ [91] ++ w ++ [93; 40]) dest (32 :: (q :: title ++ [qc; 41] ++ post))) as M. rewrite len_off in M. fold dd in M.
    rewrite s_at_dest. exact M.
  Qed.

  Lemma l_title_text : substr s (dd + 1 + 1) (dd + 1 + 1 + slen title) = title.
  Proof.
    pose proof (substr_mid (pre ++ [91] ++ w ++ [93; 40] ++ dest ++ [32; q]) title (qc :: (41 :: post))) as M. rewrite len_title in M.
    rewrite s_at_title. exact M.
  Qed.

  Lemma dest_found : match_link_dest s (b + 1) = Some (off, dd, dest).
  Proof.
    destruct dest_first as (c & r & Ed & Hws & H60).
    unfold match_link_dest.
    assert (Esh : shift_whitespace s (b + 1 + 1) = off).
    { unfold shift_whitespace. replace (b + 1 + 1) with off by (unfold off; lia). rewrite s_at_dest at 1. rewrite <- len_off at 1. rewrite drop_app_len.
      apply shift_ws_stop; [rewrite Ed; exact Hws|rewrite Ed; discriminate]. }
    rewrite Esh.
    assert (off =? slen s = false) as -> by (apply Z.eqb_neq; rewrite l_len; unfold de; pose proof l_d0; pose proof l_p0; lia).
    assert (Ec : char_at s off = c).
    { rewrite s_at_dest, Ed. rewrite <- len_off. cbn [app]. apply char_at_mid. }
    rewrite Ec, H60.
    assert (Edrop : drop off s = dest ++ 32 :: (q :: title ++ [qc; 41] ++ post)) by (rewrite s_at_dest at 1; rewrite <- len_off; apply drop_app_len).
    rewrite Edrop, (dest_plain_run_ws dest off _ Hd). fold dd. rewrite l_dest_only. reflexivity.
  Qed.

  Lemma title_found : match_link_title s dd = Some (dd + 1, de, title).
  Proof.
    unfold match_link_title.
    assert (Esh : shift_whitespace s dd = dd + 1).
    { unfold shift_whitespace. rewrite s_at_dd at 1. rewrite <- len_dd at 1. rewrite drop_app_len. cbn [shift_ws_aux]. change (is_ws 32) with true. rewrite Hqws. cbv iota. reflexivity. }
    rewrite Esh.
    assert (dd + 1 =? slen s = false) as -> by (apply Z.eqb_neq; rewrite l_len, l_dd; pose proof l_p0; unfold slen; lia).
    assert (Eq : char_at s (dd + 1) = q).
    { replace (dd + 1) with (slen (pre ++ [91] ++ w ++ [93; 40] ++ dest ++ [32])) by (rewrite <- len_dd, !slen_app; unfold slen; cbn [length]; lia).
      replace s with ((pre ++ [91] ++ w ++ [93; 40] ++ dest ++ [32]) ++ q :: (title ++ [qc; 41] ++ post)) by (unfold s, blob; rewrite <- !app_assoc; reflexivity).
      apply char_at_mid. }
    rewrite Eq, Hq41, Hcl, Hqc1.
    assert (Edrop : drop (dd + 1 + 1) s = title ++ qc :: (41 :: post)) by (rewrite s_at_title at 1; rewrite <- len_title; apply drop_app_len).
    rewrite Edrop, (title_scan_run title (dd + 1 + 1) _ Htq (plain_no 92 title eq_refl Ht)).
    rewrite l_title_text, l_dd. reflexivity.
  Qed.

  Definition the_ilink : mobj :=
    link_mobj false a (de + 1) (a + 1, b, w) (off, dd, dest) (dd + 1, de, title) $"uri" None [q].

  Lemma ilink_found : match_link_image s b LD fn = Some the_ilink.
  Proof.
    destruct dest_first as (c & r & Ed & Hws & H60).
    unfold match_link_image. cbn [LD d_type d_start d_number].
    rewrite l_paren, l_inner_w, dest_found, title_found.
    assert (Esh : shift_whitespace s de = de).
    { unfold shift_whitespace. rewrite s_at_de at 1. rewrite <- len_de at 1. rewrite drop_app_len. apply shift_ws_stop; [reflexivity|discriminate]. }
    rewrite Esh.
    assert (de <? slen s = true) as -> by (apply Z.ltb_lt; rewrite l_len; pose proof l_p0; lia).
    rewrite l_at_de. cbn [andb Z.eqb Pos.eqb].
    assert (Ec : char_at s off = c) by (rewrite s_at_dest, Ed; rewrite <- len_off; cbn [app]; apply char_at_mid).
    rewrite Ec, H60. rewrite andb_false_r.
    assert (dd + 1 <? de = true) as -> by (apply Z.ltb_lt; rewrite l_dd; unfold slen; lia).
    assert (Eq : char_at s (dd + 1) = q).
    { replace (dd + 1) with (slen (pre ++ [91] ++ w ++ [93; 40] ++ dest ++ [32])) by (rewrite <- len_dd, !slen_app; unfold slen; cbn [length]; lia).
      replace s with ((pre ++ [91] ++ w ++ [93; 40] ++ dest ++ [32]) ++ q :: (title ++ [qc; 41] ++ post)) by (unfold s, blob; rewrite <- !app_assoc; reflexivity).
      apply char_at_mid. }
    rewrite Eq. reflexivity.
  Qed.

  Lemma find_ilink : find_link_image s b [LD] [] fn = (de, [], [the_ilink]).
  Proof.
    unfold find_link_image. change (Z.of_nat (length [LD]) - 1) with 0. change (length [LD]) with 1%nat.
    cbn [find_li_down]. change (nthd [LD] 0 dummy) with LD.
    change (is_bracket LD) with true. cbn [d_active LD negb]. cbv iota. rewrite ilink_found.
    assert (PE : process_emphasis s (Some 0) [LD] [] = ([], [])).
    { unfold process_emphasis. change (next_closer 0 [LD]) with (@None Z). destruct (3 * length s + 3)%nat; reflexivity. }
    rewrite PE. change (str_eqb (d_type LD) ($"[")) with true. cbv iota. unfold deactivate. cbn [Z.to_nat firstn skipn map app].
    unfold the_ilink, link_mobj. cbn [m_end]. replace (de + 1 - 1) with de by lia. reflexivity.
  Qed.

  Lemma l_no c : mem c triggers_r = true -> mem c s = false.
  Proof.
    intros Hc.
    assert (P : forall t, plain_text t = true -> mem c t = false).
    { intros t0 Ht0. apply plain_no; [|exact Ht0]. unfold mem, triggers_r, triggers in *. cbn [existsb] in *.
      repeat (apply orb_true_iff in Hc; destruct Hc as [Hc|Hc]); try discriminate; rewrite Hc; cbn [orb]; rewrite ?orb_true_r; reflexivity. }
    assert (C4 : c <> 91 /\ c <> 93 /\ c <> 40 /\ c <> 41).
    { repeat split; intros ->; vm_compute in Hc; discriminate. }
    assert (PD : mem c blob = false).
    { assert (Ht' : mem c triggers = true).
      { unfold mem, triggers_r, triggers in *. cbn [existsb] in *.
        repeat (apply orb_true_iff in Hc; destruct Hc as [Hc|Hc]); try discriminate; rewrite Hc; cbn [orb]; rewrite ?orb_true_r; reflexivity. }
      assert (C32 : (c =? 32) = false) by (destruct (c =? 32) eqn:E; [apply Z.eqb_eq in E; subst c; vm_compute in Hc; discriminate|reflexivity]).
      assert (C34 : (c =? q) = false) by (destruct (c =? q) eqn:E; [apply Z.eqb_eq in E; rewrite E, Hqt in Hc; discriminate|reflexivity]).
      assert (C35 : (c =? qc) = false) by (destruct (c =? qc) eqn:E; [apply Z.eqb_eq in E; rewrite E, Hqct in Hc; discriminate|reflexivity]).
      unfold blob, mem. rewrite !existsb_app. fold (mem c dest). fold (mem c title). rewrite (dest_no c dest Hc Hd), (plain_no c title Ht' Ht). cbn [existsb orb]. rewrite C32, C34, C35. reflexivity. }
    unfold s, mem. rewrite !existsb_app. fold (mem c pre). fold (mem c w). fold (mem c blob). fold (mem c post).
    rewrite (P pre Hpre), (P w Hw), (P post Hpost), PD. cbn [existsb orb].
    destruct C4 as (C1 & C2 & C3 & C5). apply Z.eqb_neq in C1, C2, C3, C5. rewrite C1, C2, C3, C5. reflexivity.
  Qed.

  Lemma l_no_code i : code_search s i = None.
  Proof.
    unfold code_search. apply (search_state_none _ _ 96); [vm_compute; reflexivity|]. unfold seek. cbn [aft].
    apply mem_drop. apply l_no. reflexivity.
  Qed.

  (* ---- the scanner ---- *)
  Lemma scan_ilink : exists st, scan_loop (S (S (length s))) s fn 0 None (mkScan [] [] false None false 0 []) = st /\
                                sc_ds st = [] /\ sc_ms st = [the_ilink] /\ sc_code st = [].
  Proof.
    assert (El : (S (S (length s)) = length pre + S (length w + S (length blob + 2 + (length post + 2))))%nat).
    { unfold s. rewrite !app_length. cbn [length]. lia. }
    rewrite El.
    set (st0 := mkScan [] [] false None false 0 []).
    rewrite (scan_inert_any s fn pre _ [] ([91] ++ w ++ [93; 40] ++ blob ++ [41] ++ post) st0 eq_refl (plain_inert pre Hpre)) by (repeat split).
    change (slen [] + slen pre) with (slen pre).
    rewrite (scan_bracket_step _ s fn pre (w ++ [93; 40] ++ blob ++ [41] ++ post) st0 eq_refl) by (repeat split).
    fold a. rewrite LD_eq. cbn [st0 sc_ds sc_ms sc_start sc_code app].
    set (st1 := mkScan [LD] [] false None false 0 []).
    replace (a + 1) with (slen (pre ++ [91])) by (rewrite slen_app; reflexivity).
    rewrite (scan_inert_any s fn w _ (pre ++ [91]) ([93; 40] ++ blob ++ [41] ++ post) st1); [|unfold s; rewrite <- !app_assoc; reflexivity|exact (plain_inert w Hw)|repeat split].
    replace (slen (pre ++ [91]) + slen w) with b by (unfold b, a; rewrite slen_app; unfold slen; cbn [length]; lia).
    (* the closing bracket *)
    cbn [scan_loop].
    assert (Hlt : b <? slen s = true) by (apply Z.ltb_lt; rewrite l_len; unfold de, off; pose proof l_p0; pose proof l_d0; lia).
    rewrite Hlt. cbn [negb]. rewrite l_at_b. cbn [st1 sc_escaped sc_run sc_ds sc_ms sc_in_image sc_start sc_code andb negb orb Z.eqb Pos.eqb].
    rewrite find_ilink. rewrite l_no_code.
    set (st2 := mkScan [] [the_ilink] false None false 0 []).
    assert (Hcase : post = [] \/ post <> []) by (destruct post; [left; reflexivity|right; discriminate]).
    destruct Hcase as [Ep|Ep].
    - assert (Lp : length post = 0%nat) by (rewrite Ep; reflexivity). rewrite Lp.
      assert (Ee : de + 1 = slen s) by (rewrite l_len, Ep; unfold slen; cbn [length]; lia).
      rewrite Ee. replace (length blob + 2 + (0 + 2))%nat with (S (length blob + 3)) by lia. rewrite scan_end. cbn [st2 sc_run]. eexists. split; [reflexivity|]. repeat split.
    - replace (de + 1) with (slen (pre ++ [91] ++ w ++ [93; 40] ++ blob ++ [41])) by (unfold de, off, b, a; rewrite !slen_app; unfold slen; cbn [length]; lia).
      replace (length blob + 2 + (length post + 2))%nat with (length post + (length blob + 4))%nat by lia.
      rewrite (scan_inert_any s fn post _ (pre ++ [91] ++ w ++ [93; 40] ++ blob ++ [41]) [] st2); [|unfold s; rewrite app_nil_r, <- !app_assoc; reflexivity|exact (plain_inert post Hpost)|repeat split].
      replace (slen (pre ++ [91] ++ w ++ [93; 40] ++ blob ++ [41]) + slen post) with (slen s) by (rewrite l_len; unfold de, off, b, a; rewrite !slen_app; unfold slen; cbn [length]; lia).
      replace (length blob + 4)%nat with (S (length blob + 3)) by lia.
      rewrite scan_end. cbn [st2 sc_run]. eexists. split; [reflexivity|]. repeat split.
  Qed.

  Theorem core_finds_ilink : find_core_tokens s fn = ([the_ilink], []).
  Proof.
    unfold find_core_tokens. rewrite l_no_code. destruct scan_ilink as (st & -> & Hds & Hm & Hc). rewrite Hds, Hm, Hc.
    unfold process_emphasis. change (next_closer 0 []) with (@None Z). destruct (3 * length s + 3)%nat; reflexivity.
  Qed.

  Lemma find_all_ilink : forall types, forallb kind_quiet_r types = true ->
    find_all types s fn [] = flat_map (fun kd => match kd with SK_CoreTokens => [CCore the_ilink] | _ => [] end) types.
  Proof.
    induction types as [|kd ts IH]; intros Hq; [reflexivity|].
    cbn [forallb] in Hq. apply andb_true_iff in Hq as [Hkq Hts]. cbn [find_all flat_map].
    assert (F : match kd with SK_CoreTokens | SK_InlineCode | SK_RawText => True | _ => finditer (snd (re_of kd)) (fst (re_of kd)) s = [] end).
    { destruct kd; try exact I; cbn [kind_quiet_r] in Hkq; apply existsb_exists in Hkq as (c & Hin & Hn);
        (apply (finditer_none _ _ c s Hn); apply l_no; unfold mem; apply existsb_exists; exists c; split; [exact Hin|apply Z.eqb_refl]). }
    destruct kd; cbn [find_kind];
      try (rewrite core_finds_ilink; cbn [map app]; f_equal; apply IH; exact Hts);
      try (cbn [map app]; apply IH; exact Hts);
      (cbn [re_of fst snd] in F |- *; rewrite F; cbn [map app]; apply IH; exact Hts).
  Qed.

  Definition ilink_tok : tok := Link (mkLink (escape_strip (strip dest)) (escape_strip title) $"uri" None [q]) [RawText w].

  Theorem tokenize_inner_ilink types : forallb kind_quiet_r (removelast types) = true ->
    filter (fun kd => match kd with SK_CoreTokens => true | _ => false end) (removelast types) = [SK_CoreTokens] ->
    tokenize_inner types fn s = raw_if pre ++ [ilink_tok] ++ raw_if post.
  Proof.
    intros Hq Hc. unfold tokenize_inner. rewrite (find_all_ilink _ Hq).
    assert (Es : flat_map (fun kd => match kd with SK_CoreTokens => [CCore the_ilink] | _ => [] end) (removelast types) = [CCore the_ilink]).
    { clear Hq. revert Hc. generalize (removelast types) as ts.
      assert (G : forall ts n, length (filter (fun kd => match kd with SK_CoreTokens => true | _ => false end) ts) = n ->
                flat_map (fun kd => match kd with SK_CoreTokens => [CCore the_ilink] | _ => [] end) ts = repeat (CCore the_ilink) n).
      { induction ts as [|kd ts IH]; intros n Hn; [cbn in Hn; subst n; reflexivity|]. cbn [flat_map filter] in *.
        destruct kd; try (cbn [app]; apply IH; exact Hn). destruct n as [|n]; [discriminate|]. cbn [length] in Hn. cbn [repeat app]. f_equal. apply IH. lia. }
      intros ts H. rewrite (G ts 1%nat) by (rewrite H; reflexivity). reflexivity. }
    rewrite Es.
    cbn [number_from map fst snd cand_of sk_parse_group field_span the_ilink link_mobj m_fields nth_error m_start m_end sk_precedence sk_parse_inner].
    pose proof l_len as Hs. pose proof l_a0 as Ha0. pose proof l_p0 as Hp0. pose proof l_w0 as Hw0. pose proof l_d0 as Hd0.
    unfold tokenize, SpanTokenizer.make_tokens, make_tokens_with.
    cbn [sort_cands fold_right insert_stable buffer_rev eval_loop last_end pc ce mk_rev cs make inner ps pe app rev].
    unfold make_tokens_with. cbn [last_end mk_rev app rev].
    assert (a + 1 =? b = false) as -> by (apply Z.eqb_neq; unfold b; lia).
    assert (Gb : (if a >? 0 then [ORaw 0 a] else []) = match pre with [] => [] | _ => [ORaw 0 a] end) by (unfold a; apply gap_before).
    assert (Ga : (if de + 1 =? slen s then [] else [ORaw (de + 1) (slen s)]) = match post with [] => [] | _ => [ORaw (de + 1) (slen s)] end) by (rewrite Hs; apply gap_after).
    rewrite Gb, Ga. rewrite rev_app_distr. cbn [rev app]. rewrite rev_app_distr. cbn [rev app].
    rewrite !map_app. cbn [map build_otok cid src_at Z.to_nat nth].
    rewrite l_inner_w, (unescape_plain w Hw).
    assert (Tk : build_inner (CCore the_ilink) [RawText w] = ilink_tok) by reflexivity.
    rewrite Tk. rewrite <- app_assoc. cbn [app]. f_equal; [|f_equal].
    - apply raw_gap. cbn [build_otok]. f_equal.
      pose proof (substr_mid [] pre ([91] ++ w ++ [93; 40] ++ blob ++ [41] ++ post)) as M. cbn [app] in M. unfold slen at 1 2 in M. cbn [length Z.of_nat] in M.
      fold a in M. replace (0 + a) with a in M by lia. unfold s. cbn [app]. rewrite M. apply unescape_plain. exact Hpre.
    - apply raw_gap. cbn [build_otok]. f_equal.
      pose proof (substr_mid (pre ++ [91] ++ w ++ [93; 40] ++ blob ++ [41]) post []) as M.
      replace (slen (pre ++ [91] ++ w ++ [93; 40] ++ blob ++ [41])) with (de + 1) in M by (unfold de, off, b, a; rewrite !slen_app; unfold slen; cbn [length]; lia).
      rewrite app_nil_r in M. replace ((pre ++ [91] ++ w ++ [93; 40] ++ blob ++ [41]) ++ post) with s in M by (unfold s; rewrite <- !app_assoc; reflexivity).
      rewrite Hs. rewrite M. apply unescape_plain. exact Hpost.
  Qed.
End TitleS.
End Ttl.

(* the three ways of writing a title: "...", '...', (...) *)
Definition closer (q : Z) : Z := if q =? 34 then 34 else if q =? 39 then 39 else if q =? 40 then 41 else -1.
Definition delim_ok (q : Z) : bool := (q =? 34) || (q =? 39) || (q =? 40).

Definition tlink_ok (pre w dest : str) (q : Z) (title post : str) : bool :=
  ilink_ok pre w dest post && plain_text title && delim_ok q && negb (mem q title) && negb (mem (closer q) title).
Definition tlink_of (w dest : str) (q : Z) (title : str) : tok := Link (mkLink dest title $"uri" None [q]) [RawText w].

Theorem titled_link_in_sentence types fn pre w dest q title post :
  ref_spans types = true -> tlink_ok pre w dest q title post = true ->
  tokenize_inner types fn (pre ++ [91] ++ w ++ [93; 40] ++ dest ++ [32; q] ++ title ++ [closer q; 41] ++ post) = raw_if pre ++ [tlink_of w dest q title] ++ raw_if post.
Proof.
  intros Hs Ho. unfold ref_spans in Hs. apply andb_true_iff in Hs as [Hq Hc].
  unfold tlink_ok in Ho. repeat rewrite andb_true_iff in Ho. destruct Ho as [[[[Hi Ht] Hdl] _] Hq34]. apply negb_true_iff in Hq34.
  unfold ilink_ok in Hi. repeat rewrite andb_true_iff in Hi. destruct Hi as [[[[[H1 H2] H3] H4] H5] H6].
  assert (Hdne : dest <> []) by (destruct dest; [discriminate|discriminate]).
  assert (Hwne : w <> []) by (destruct w; [discriminate|discriminate]).
  assert (Hc' : filter (fun kd => match kd with SK_CoreTokens => true | _ => false end) (removelast types) = [SK_CoreTokens]).
  { destruct (filter _ _) as [|[] [|? ?]]; try discriminate. reflexivity. }
  assert (Hqq : q = 34 \/ q = 39 \/ q = 40).
  { unfold delim_ok in Hdl. repeat (apply orb_true_iff in Hdl; destruct Hdl as [Hdl|Hdl]); apply Z.eqb_eq in Hdl; tauto. }
  assert (T : tokenize_inner types fn (pre ++ [91] ++ w ++ [93; 40] ++ (dest ++ [32; q] ++ title ++ [closer q]) ++ [41] ++ post) =
              raw_if pre ++ [Ttl.ilink_tok w dest title q] ++ raw_if post).
  { destruct Hqq as [->|[->| ->]];
      [apply (Ttl.tokenize_inner_ilink pre w dest title post 34 34 fn H1 H2 H3 Hwne H5 Hdne Ht Hq34 eq_refl eq_refl eq_refl eq_refl eq_refl eq_refl eq_refl types Hq Hc')|apply (Ttl.tokenize_inner_ilink pre w dest title post 39 39 fn H1 H2 H3 Hwne H5 Hdne Ht Hq34 eq_refl eq_refl eq_refl eq_refl eq_refl eq_refl eq_refl types Hq Hc')|apply (Ttl.tokenize_inner_ilink pre w dest title post 40 41 fn H1 H2 H3 Hwne H5 Hdne Ht Hq34 eq_refl eq_refl eq_refl eq_refl eq_refl eq_refl eq_refl types Hq Hc')]. }
  replace (pre ++ [91] ++ w ++ [93; 40] ++ dest ++ [32; q] ++ title ++ [closer q; 41] ++ post)
    with (pre ++ [91] ++ w ++ [93; 40] ++ (dest ++ [32; q] ++ title ++ [closer q]) ++ [41] ++ post) by (rewrite <- !app_assoc; reflexivity).
  rewrite T. unfold Ttl.ilink_tok, tlink_of. rewrite (dest_clean dest H5 Hdne).
  rewrite (escape_strip_quiet title) by (apply plain_no; [reflexivity|exact Ht]). reflexivity.
Qed.

Example titled_instance :
  (tlink_ok ($"see ") ($"the site") ($"http://ex.am/a?b=c") 34 ($"Its title, here") ($", ok") = true) /\
  (tlink_ok ($"see ") ($"the site") ($"/s") 39 ($"Its ""title"", (here)") [] = true) /\
  (tlink_ok [] ($"x") ($"/y") 40 ($"it's ""so""") ($".") = true) /\
  (tlink_ok [] ($"x") ($"/y") 34 ([34]) [] = false) /\ (tlink_ok [] ($"x") ($"/y") 40 ($"a(b") [] = false) /\ (tlink_ok [] ($"x") ($"/y") 40 ($"a)b") [] = false) /\
  (tlink_ok [] ($"x") ($"/y") 39 ($"it's") [] = false) /\ (tlink_ok [] ($"x") ($"/y") 60 ($"a") [] = false) /\ (tlink_ok [] ($"x") ($"/y") 34 ($"a&b") [] = false).
Proof. vm_compute. repeat split; reflexivity. Qed.
