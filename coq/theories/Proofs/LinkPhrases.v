(* C03 / C16, unbounded: sentences with ANY NUMBER of inline links.  The text  t0 [w1](d1) t1 [w2](d2) t2 ... [wn](dn) tn
   - every wi non-empty trigger-free text, every di a non-empty plain destination (Proofs/LinkSentence.v), every ti
   trigger-free text (possibly empty) - tokenizes to t0 and, for every link, one Link to di holding wi followed by
   the text ti, for every n: the scanner (a bracket, the text, the closing bracket where find_link_image matches the
   inline form and the scanner jumps behind the closing parenthesis), all span finders, and the candidate tokenizer
   on n candidates that parse their content (Proofs/ChainTokens.v). *)
From Coq Require Import ZArith List Bool Lia.
From Mistletoe Require Import Base.Sx Base.PyStr Base.PyText Gen.GenTables Gen.GenRegex Gen.GenConfig Re.ReMatch
     Model.SpanTokenizer Model.Tree Model.Unescape Model.CoreTokens Model.Inline
     Proofs.ReFirst Proofs.ReNeeds Proofs.Prose Proofs.PlainProse Proofs.ListLaw Proofs.ProseLines Proofs.EmphSimple Proofs.EmphSentence
     Proofs.RefSentence Proofs.LinkSentence Proofs.ChainTokens Proofs.EmphPhrases.
Import ListNotations.
Local Open Scope Z_scope.

Definition lseg := (str * str * str)%type.        (* the link text, the destination, the text after the link *)

Definition lseg_ok (g : lseg) : Prop :=
  match g with (w, d, t) => plain_text w = true /\ w <> [] /\ forallb dest_char d = true /\ d <> [] /\ plain_text t = true end.

Fixpoint lbody (gs : list lseg) : str :=
  match gs with
  | [] => []
  | (w, d, t) :: r => [91] ++ w ++ [93; 40] ++ d ++ [41] ++ t ++ lbody r
  end.

(* the match of a link that starts at a *)
Definition mk_ilink (a : Z) (w d : str) : mobj :=
  let b := a + 1 + slen w in let off := b + 2 in let de := off + slen d in
  link_mobj false a (de + 1) (a + 1, b, w) (off, de, d) (de, de, []) $"uri" None [].

Fixpoint links_at (a : Z) (gs : list lseg) : list mobj :=
  match gs with
  | [] => []
  | (w, d, t) :: r => mk_ilink a w d :: links_at (a + 1 + slen w + 2 + slen d + 1 + slen t) r
  end.

Lemma the_ilink_at pre w d : the_ilink pre w d = mk_ilink (slen pre) w d.
Proof. reflexivity. Qed.

(* one link, scanned from a state with no delimiter pending *)
Lemma find_ilink_ms pre w d post fn ms : forallb dest_char d = true -> d <> [] ->
  let s := pre ++ [91] ++ w ++ [93; 40] ++ d ++ [41] ++ post in
  find_link_image s (slen pre + 1 + slen w) [LD pre] ms fn = (slen pre + 1 + slen w + 2 + slen d, [], ms ++ [mk_ilink (slen pre) w d]).
Proof.
  intros Hd Hdne s. unfold find_link_image. change (Z.of_nat (length [LD pre]) - 1) with 0. change (length [LD pre]) with 1%nat.
  cbn [find_li_down]. change (nthd [LD pre] 0 dummy) with (LD pre).
  change (is_bracket (LD pre)) with true. cbn [d_active LD negb]. cbv iota.
  pose proof (ilink_found pre w d post fn Hd Hdne) as F. cbv zeta in F. fold s in F. rewrite F.
  assert (PE : process_emphasis s (Some 0) [LD pre] ms = ([], ms)).
  { unfold process_emphasis. change (next_closer 0 [LD pre]) with (@None Z). destruct (3 * length s + 3)%nat; reflexivity. }
  rewrite PE. change (str_eqb (d_type (LD pre)) ($"[")) with true. cbv iota. unfold deactivate. cbn [Z.to_nat firstn skipn map app].
  rewrite the_ilink_at. unfold mk_ilink, link_mobj. cbn [m_end]. f_equal. f_equal. lia.
Qed.

Lemma scan_link_step s fn pre w d post st fuel :
  s = pre ++ [91] ++ w ++ [93; 40] ++ d ++ [41] ++ post -> plain_text w = true -> forallb dest_char d = true -> d <> [] ->
  clean st -> sc_ds st = [] -> (forall i, code_search s i = None) ->
  scan_loop (S (length w + S fuel)) s fn (slen pre) None st =
  scan_loop fuel s fn (slen pre + 1 + slen w + 2 + slen d + 1) None
            (mkScan [] (sc_ms st ++ [mk_ilink (slen pre) w d]) false None false (sc_start st) (sc_code st)).
Proof.
  intros Es Hw Hd Hdne Hc Hds Hcode.
  rewrite (scan_bracket_step _ s fn pre (w ++ [93; 40] ++ d ++ [41] ++ post) st Es Hc).
  rewrite Hds. cbn [app].
  pose proof (LD_eq pre w d post) as HD. cbv zeta in HD. rewrite <- Es in HD. rewrite HD. clear HD.
  set (st1 := mkScan [LD pre] (sc_ms st) false None false (sc_start st) (sc_code st)).
  replace (slen pre + 1) with (slen (pre ++ [91])) by (rewrite slen_app; reflexivity).
  rewrite (scan_inert_any s fn w _ (pre ++ [91]) ([93; 40] ++ d ++ [41] ++ post) st1); [|rewrite Es, <- !app_assoc; reflexivity|exact (plain_inert w Hw)|repeat split].
  replace (slen (pre ++ [91]) + slen w) with (slen pre + 1 + slen w) by (rewrite slen_app; unfold slen; cbn [length]; lia).
  cbn [scan_loop].
  assert (Hlen : slen s = slen pre + 1 + slen w + 2 + slen d + 1 + slen post) by (rewrite Es, !slen_app; unfold slen; cbn [length]; lia).
  assert (Hlt : slen pre + 1 + slen w <? slen s = true) by (apply Z.ltb_lt; rewrite Hlen; unfold slen; lia).
  rewrite Hlt. cbn [negb].
  pose proof (l_at_b pre w d post) as HB. cbv zeta in HB. rewrite <- Es in HB. rewrite HB. clear HB.
  cbn [st1 sc_escaped sc_run sc_ds sc_ms sc_in_image sc_start sc_code andb negb orb Z.eqb Pos.eqb].
  pose proof (find_ilink_ms pre w d post fn (sc_ms st) Hd Hdne) as F. cbv zeta in F. rewrite <- Es in F. rewrite F. clear F.
  rewrite Hcode. reflexivity.
Qed.

Lemma lbody_no c : mem c triggers_r = true -> forall gs, Forall lseg_ok gs -> mem c (lbody gs) = false.
Proof.
  intros Hc. assert (C4 : c <> 91 /\ c <> 93 /\ c <> 40 /\ c <> 41) by (repeat split; intros ->; vm_compute in Hc; discriminate).
  assert (P : forall t, plain_text t = true -> mem c t = false).
  { intros t Ht. apply plain_no; [|exact Ht]. unfold mem, triggers_r, triggers in *. cbn [existsb] in *.
    repeat (apply orb_true_iff in Hc; destruct Hc as [Hc|Hc]); try discriminate; rewrite Hc; cbn [orb]; rewrite ?orb_true_r; reflexivity. }
  induction gs as [|[[w d] t] r IH]; intros Hok; [reflexivity|].
  apply Forall_cons_iff in Hok as [(Hw & _ & Hd & _ & Ht) Hr]. cbn [lbody].
  unfold mem. rewrite !existsb_app. fold (mem c w). fold (mem c d). fold (mem c t). fold (mem c (lbody r)).
  rewrite (P w Hw), (P t Ht), (dest_no c d Hc Hd), (IH Hr). cbn [existsb orb].
  destruct C4 as (C1 & C2 & C3 & C5). apply Z.eqb_neq in C1, C2, C3, C5. rewrite C1, C2, C3, C5. reflexivity.
Qed.

Fixpoint lsteps (gs : list lseg) : nat :=
  match gs with [] => 0%nat | (w, d, t) :: r => (S (length w + S (length t + lsteps r)))%nat end.

Lemma scan_links s fn : (forall i, code_search s i = None) -> forall gs pre st fuel, s = pre ++ lbody gs -> clean st -> sc_ds st = [] -> Forall lseg_ok gs ->
  exists st', scan_loop (lsteps gs + fuel) s fn (slen pre) None st = scan_loop fuel s fn (slen s) None st' /\ clean st' /\
              sc_ds st' = [] /\ sc_ms st' = sc_ms st ++ links_at (slen pre) gs /\ sc_code st' = sc_code st.
Proof.
  intros Hcode. induction gs as [|[[w d] t] r IH]; intros pre st fuel Es Hc Hds Hok.
  - cbn [lbody lsteps Nat.add links_at]. cbn [lbody] in Es. rewrite app_nil_r in Es. rewrite Es. exists st. rewrite app_nil_r.
    split; [reflexivity|]. split; [exact Hc|]. split; [exact Hds|split; reflexivity].
  - apply Forall_cons_iff in Hok as [(Hw & Hwne & Hd & Hdne & Ht) Hr]. cbn [lbody lsteps links_at] in *.
    replace (S (length w + S (length t + lsteps r)) + fuel)%nat with (S (length w + S (length t + (lsteps r + fuel))))%nat by lia.
    rewrite (scan_link_step s fn pre w d (t ++ lbody r) st _ Es Hw Hd Hdne Hc Hds Hcode).
    set (st1 := mkScan [] (sc_ms st ++ [mk_ilink (slen pre) w d]) false None false (sc_start st) (sc_code st)).
    set (pre1 := pre ++ [91] ++ w ++ [93; 40] ++ d ++ [41]).
    assert (E1 : slen pre + 1 + slen w + 2 + slen d + 1 = slen pre1) by (unfold pre1; rewrite !slen_app; unfold slen; cbn [length]; lia).
    rewrite E1.
    rewrite (scan_inert_any s fn t _ pre1 (lbody r) st1); [|rewrite Es; unfold pre1; rewrite <- !app_assoc; reflexivity|exact (plain_inert t Ht)|repeat split].
    replace (slen pre1 + slen t) with (slen (pre1 ++ t)) by (rewrite slen_app; reflexivity).
    destruct (IH (pre1 ++ t) st1 fuel) as (st' & E' & Hc' & Hd' & Hm' & Hco'); [rewrite Es; unfold pre1; rewrite <- !app_assoc; reflexivity|repeat split|reflexivity|exact Hr|].
    exists st'. split; [exact E'|]. split; [exact Hc'|]. split; [exact Hd'|]. split; [|exact Hco'].
    rewrite Hm'. unfold st1. cbn [sc_ms]. rewrite <- app_assoc. cbn [app].
    replace (slen (pre1 ++ t)) with (slen pre + 1 + slen w + 2 + slen d + 1 + slen t) by (rewrite slen_app, <- E1; reflexivity). reflexivity.
Qed.

Lemma lsteps_bound gs : (lsteps gs <= length (lbody gs))%nat.
Proof. induction gs as [|[[w d] t] r IH]; [cbn; lia|]. cbn [lsteps lbody]. rewrite !app_length. cbn [length]. lia. Qed.

Definition link_toks (gs : list lseg) : list tok :=
  flat_map (fun g => match g with (w, d, t) => ilink_of w d :: raw_if t end) gs.

Section Sentence.
  Variables (t0 : str) (gs : list lseg) (fn : footnotes) (types : list span_kind).
  Hypothesis Ht0 : plain_text t0 = true.
  Hypothesis Hgs : Forall lseg_ok gs.
  Hypothesis Hq : forallb kind_quiet_r (removelast types) = true.
  Hypothesis Hc : filter (fun kd => match kd with SK_CoreTokens => true | _ => false end) (removelast types) = [SK_CoreTokens].
  Let s := t0 ++ lbody gs.
  Let ms := links_at (slen t0) gs.

  Lemma ls_no c : mem c triggers_r = true -> mem c s = false.
  Proof.
    intros H. unfold s, mem. rewrite existsb_app. fold (mem c t0). fold (mem c (lbody gs)). rewrite (lbody_no c H gs Hgs).
    assert (P : mem c t0 = false).
    { apply plain_no; [|exact Ht0]. unfold mem, triggers_r, triggers in *. cbn [existsb] in *.
      repeat (apply orb_true_iff in H; destruct H as [H|H]); try discriminate; rewrite H; cbn [orb]; rewrite ?orb_true_r; reflexivity. }
    rewrite P. reflexivity.
  Qed.

  Lemma ls_no_code i : code_search s i = None.
  Proof.
    unfold code_search. apply (search_state_none _ _ 96); [vm_compute; reflexivity|]. unfold seek. cbn [aft]. apply mem_drop. apply ls_no. reflexivity.
  Qed.

  Theorem core_finds_links : find_core_tokens s fn = (ms, []).
  Proof.
    unfold find_core_tokens. rewrite ls_no_code.
    set (st0 := mkScan [] [] false None false 0 []).
    pose proof (lsteps_bound gs) as Hb.
    assert (El : exists extra, (S (S (length s)) = length t0 + (lsteps gs + S extra))%nat).
    { exists (S (length (lbody gs) - lsteps gs))%nat. unfold s. rewrite app_length. lia. }
    destruct El as (extra & El). rewrite El.
    rewrite (scan_inert_any s fn t0 _ [] (lbody gs) st0 eq_refl (plain_inert t0 Ht0)) by (repeat split).
    change (slen [] + slen t0) with (slen t0).
    destruct (scan_links s fn ls_no_code gs t0 st0 (S extra) eq_refl ltac:(repeat split) eq_refl Hgs) as (st' & E & (Hr & He & Hi) & Hd & Hm & Hco).
    rewrite E, scan_end, Hr, Hd, Hm, Hco. cbn [st0 sc_ms sc_code app]. fold ms.
    unfold process_emphasis. change (next_closer 0 []) with (@None Z). destruct (3 * length s + 3)%nat; reflexivity.
  Qed.

  Lemma find_all_links : forall ts, forallb kind_quiet_r ts = true ->
    find_all ts s fn [] = flat_map (fun kd => match kd with SK_CoreTokens => map CCore ms | _ => [] end) ts.
  Proof.
    induction ts as [|kd ts IH]; intros Hq'; [reflexivity|].
    cbn [forallb] in Hq'. apply andb_true_iff in Hq' as [Hkq Hts]. cbn [find_all flat_map].
    assert (F : match kd with SK_CoreTokens | SK_InlineCode | SK_RawText => True | _ => finditer (snd (re_of kd)) (fst (re_of kd)) s = [] end).
    { destruct kd; try exact I; cbn [kind_quiet_r] in Hkq; apply existsb_exists in Hkq as (c & Hin & Hn);
        (apply (finditer_none _ _ c s Hn); apply ls_no; unfold mem; apply existsb_exists; exists c; split; [exact Hin|apply Z.eqb_refl]). }
    destruct kd; cbn [find_kind];
      try (rewrite core_finds_links; cbn [map app fst snd]; f_equal; apply IH; exact Hts);
      try (cbn [map app]; apply IH; exact Hts);
      (cbn [re_of fst snd] in F |- *; rewrite F; cbn [map app]; apply IH; exact Hts).
  Qed.
End Sentence.

(* ---- the tokens ---- *)
Lemma links_chain : forall gs a i, Forall lseg_ok gs -> 0 <= a -> chain (cands_from i (links_at a gs)).
Proof.
  induction gs as [|[[w d] t] r IH]; intros a i Hok Ha; [exact I|].
  apply Forall_cons_iff in Hok as [Hp Hr]. cbn [links_at]. unfold cands_from. cbn [map number_from fst snd].
  fold (cands_from (i + 1) (links_at (a + 1 + slen w + 2 + slen d + 1 + slen t) r)).
  specialize (IH (a + 1 + slen w + 2 + slen d + 1 + slen t) (i + 1) Hr ltac:(unfold slen; lia)).
  destruct r as [|[[w2 d2] t2] r']; [exact I|].
  cbn [links_at] in *. unfold cands_from in *. cbn [map number_from fst snd] in *. cbn [chain] in *.
  split; [|split; [|exact IH]]; cbn [cand_of mk_ilink link_mobj field_span sk_parse_group nth_error m_fields m_start m_end cs ce]; unfold slen; lia.
Qed.

Lemma links_tokens s srcs : forall gs p0 gtxt done,
  s = p0 ++ gtxt ++ lbody gs -> plain_text gtxt = true -> Forall lseg_ok gs ->
  srcs = done ++ map CCore (links_at (slen (p0 ++ gtxt)) gs) ->
  map (build_otok s srcs) (out_g (slen p0) (cands_from (Z.of_nat (length done)) (links_at (slen (p0 ++ gtxt)) gs)) (slen s)) =
  raw_if gtxt ++ link_toks gs.
Proof.
  induction gs as [|[[w d] t] r IH]; intros p0 gtxt done Es Hg Hok Hsrc.
  - cbn [links_at map cands_from number_from link_toks flat_map]. rewrite app_nil_r. unfold cands_from. cbn [map number_from]. unfold out_g. cbn [body_g app]. unfold end_of. cbn [rev].
    cbn [lbody] in Es. rewrite app_nil_r in Es.
    assert (El : slen s = slen p0 + slen gtxt) by (rewrite Es, slen_app; reflexivity). rewrite El.
    assert (Eg : (if slen p0 =? slen p0 + slen gtxt then [] else [ORaw (slen p0) (slen p0 + slen gtxt)]) = match gtxt with [] => [] | _ => [ORaw (slen p0) (slen p0 + slen gtxt)] end).
    { destruct gtxt as [|c g']; [unfold slen at 2; cbn [length Z.of_nat]; rewrite Z.add_0_r, Z.eqb_refl; reflexivity|].
      assert (slen p0 =? slen p0 + slen (c :: g') = false) as -> by (apply Z.eqb_neq; unfold slen; cbn [length]; lia). reflexivity. }
    rewrite Eg. apply (raw_gap_tok s srcs p0 gtxt []); [rewrite app_nil_r; exact Es|exact Hg].
  - apply Forall_cons_iff in Hok as [(Hw & Hwne & Hd & Hdne & Ht) Hr].
    assert (Hwp : 0 < slen w) by (unfold slen; destruct (length w) eqn:Elw; [apply length_zero_iff_nil in Elw; contradiction|lia]).
    set (a := slen (p0 ++ gtxt)) in *.
    set (b := a + 1 + slen w). set (off := b + 2). set (de := off + slen d).
    cbn [links_at map] in *.
    replace (a + 1 + slen w + 2 + slen d + 1 + slen t) with (de + 1 + slen t) in * by (unfold de, off, b; lia).
    set (m1 := mk_ilink a w d) in *.
    unfold cands_from. cbn [map number_from fst snd]. fold (cands_from (Z.of_nat (length done) + 1) (links_at (de + 1 + slen t) r)).
    rewrite out_g_cons.
    assert (Ec : cand_of (Z.of_nat (length done)) (CCore m1) = mkCand a (de + 1) (a + 1) b 3 true (Z.of_nat (length done))) by reflexivity.
    rewrite Ec. cbn [cs ce]. rewrite leaf_otok_inner by reflexivity. cbn [ps pe].
    assert (a + 1 =? b = false) as -> by (apply Z.eqb_neq; unfold b; lia).
    set (pre1 := p0 ++ gtxt ++ [91] ++ w ++ [93; 40] ++ d ++ [41]).
    assert (Es' : s = pre1 ++ t ++ lbody r) by (rewrite Es; cbn [lbody]; unfold pre1; rewrite <- !app_assoc; reflexivity).
    assert (Ea : slen pre1 = de + 1) by (unfold pre1, de, off, b, a; rewrite !slen_app; unfold slen; cbn [length]; lia).
    assert (Einner : substr s (a + 1) b = w).
    { pose proof (substr_mid (p0 ++ gtxt ++ [91]) w ([93; 40] ++ d ++ [41] ++ t ++ lbody r)) as M.
      replace (slen (p0 ++ gtxt ++ [91])) with (a + 1) in M by (unfold a; rewrite !slen_app; unfold slen; cbn [length]; lia).
      replace (a + 1 + slen w) with b in M by reflexivity.
      replace ((p0 ++ gtxt ++ [91]) ++ w ++ [93; 40] ++ d ++ [41] ++ t ++ lbody r) with s in M by (rewrite Es; cbn [lbody]; rewrite <- !app_assoc; reflexivity). exact M. }
    assert (Eat : slen (pre1 ++ t) = de + 1 + slen t) by (rewrite slen_app, Ea; reflexivity).
    assert (H4 : srcs = (done ++ [CCore m1]) ++ map CCore (links_at (slen (pre1 ++ t)) r)) by (rewrite Eat, Hsrc, <- app_assoc; reflexivity).
    pose proof (IH pre1 t (done ++ [CCore m1]) Es' Ht Hr H4) as IH'.
    rewrite Eat, Ea in IH'. rewrite app_length in IH'. cbn [length] in IH'. replace (Z.of_nat (length done + 1)) with (Z.of_nat (length done) + 1) in IH' by lia.
    rewrite map_app. cbn [map]. rewrite IH'.
    cbn [link_toks flat_map app]. fold (link_toks r).
    assert (Eraw : map (build_otok s srcs) (gap (slen p0) a) = raw_if gtxt).
    { unfold gap, a. rewrite slen_app, gap_raw. apply (raw_gap_tok s srcs p0 gtxt (lbody ((w, d, t) :: r)) Es Hg). }
    rewrite Eraw. f_equal. cbn [map build_otok cid]. rewrite Hsrc, src_at_app.
    rewrite Einner, (unescape_plain w Hw). cbn [map build_otok].
    assert (Tk : build_inner (CCore m1) [RawText w] = ilink_of w d).
    { unfold m1, mk_ilink, link_mobj, ilink_of. cbn [build_inner m_type m_delimiter field_text m_fields nth_error pred m_dest_type m_label m_title_delim].
      change (str_eqb ($"Link") ($"Strong")) with false. change (str_eqb ($"Link") ($"Emphasis")) with false. change (str_eqb ($"Link") ($"Image")) with false. cbv iota.
      rewrite (dest_clean d Hd Hdne). f_equal. }
    rewrite Tk. reflexivity.
Qed.

Theorem tokenize_inner_links t0 gs fn types :
  plain_text t0 = true -> Forall lseg_ok gs -> forallb kind_quiet_r (removelast types) = true ->
  filter (fun kd => match kd with SK_CoreTokens => true | _ => false end) (removelast types) = [SK_CoreTokens] ->
  tokenize_inner types fn (t0 ++ lbody gs) = raw_if t0 ++ link_toks gs.
Proof.
  intros Ht0 Hgs Hq Hc. set (s := t0 ++ lbody gs). set (ms := links_at (slen t0) gs).
  unfold tokenize_inner. fold s. pose proof (find_all_links t0 gs fn Ht0 Hgs _ Hq) as FA. fold s in FA. fold ms in FA. rewrite FA. clear FA.
  assert (Es : flat_map (fun kd => match kd with SK_CoreTokens => map CCore ms | _ => [] end) (removelast types) = map CCore ms).
  { clear Hq. revert Hc. generalize (removelast types) as ts.
    assert (G : forall ts n, length (filter (fun kd => match kd with SK_CoreTokens => true | _ => false end) ts) = n ->
              flat_map (fun kd => match kd with SK_CoreTokens => map CCore ms | _ => [] end) ts = concat (repeat (map CCore ms) n)).
    { induction ts as [|kd ts IH]; intros n Hn; [cbn in Hn; subst n; reflexivity|]. cbn [flat_map filter] in *.
      destruct kd; try (cbn [app]; apply IH; exact Hn). destruct n as [|n]; [discriminate|]. cbn [length] in Hn. cbn [repeat concat]. f_equal. apply IH. lia. }
    intros ts H. rewrite (G ts 1%nat) by (rewrite H; reflexivity). cbn [repeat concat]. apply app_nil_r. }
  rewrite Es. fold (cands_from 0 ms).
  rewrite (tokenize_chain_g (cands_from 0 ms) (slen s)) by (apply links_chain; [exact Hgs|unfold slen; lia]).
  fold (out_g 0 (cands_from 0 ms) (slen s)).
  pose proof (links_tokens s (map CCore ms) gs [] t0 [] eq_refl Ht0 Hgs eq_refl) as T.
  cbn [app length Z.of_nat] in T. unfold slen at 1 in T. cbn [length Z.of_nat] in T. exact T.
Qed.

(* ---- the statement with computable hypotheses ---- *)
Definition lseg_okb (g : lseg) : bool :=
  match g with (w, d, t) => plain_text w && (match w with [] => false | _ => true end) && forallb dest_char d && (match d with [] => false | _ => true end) && plain_text t end.

Theorem link_phrases types fn t0 gs :
  ref_spans types = true -> plain_text t0 && forallb lseg_okb gs = true ->
  tokenize_inner types fn (t0 ++ lbody gs) = raw_if t0 ++ link_toks gs.
Proof.
  intros Hs Ho. unfold ref_spans in Hs. apply andb_true_iff in Hs as [Hq Hc]. apply andb_true_iff in Ho as [H1 H2].
  apply tokenize_inner_links; try assumption.
  - apply Forall_forall. intros [[w d] t] Hin. rewrite forallb_forall in H2. specialize (H2 _ Hin). unfold lseg_okb in H2.
    repeat rewrite andb_true_iff in H2. destruct H2 as [[[[A B] C] D] E]. repeat split; try assumption; [destruct w; discriminate|destruct d; discriminate].
  - destruct (filter _ _) as [|[] [|? ?]]; try discriminate. reflexivity.
Qed.

Example links_instance :
  let gs : list lseg := [($"one", $"/a", $" and "); ($"two words", $"http://x.y/z_1", []); ($"3", $"#f", $".")] in
  (forallb lseg_okb gs = true) /\ (lbody gs = $"[one](/a) and [two words](http://x.y/z_1)[3](#f).") /\ (lseg_okb ($"x", $"a b", []) = false).
Proof. vm_compute. repeat split; reflexivity. Qed.
