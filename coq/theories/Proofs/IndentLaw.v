(* Lines that begin with up to three spaces and then a marker character: what the block
   tokenizer does with them.  The patterns that allow " {0,3}" of indentation are evaluated
   with a lemma on a greedy repetition followed by something that cannot start (the verified
   first-character analysis applied after every possible split of the run of spaces). *)
From Coq Require Import ZArith List Bool Lia.
From Mistletoe Require Import Base.Sx Base.PyStr Base.PyText Gen.GenTables Gen.GenRegex Gen.GenConfig Re.ReMatch
     Proofs.ReFirst Proofs.ReExact Model.Block Proofs.Prose Proofs.ListLaw.
Import ListNotations.
Local Open Scope Z_scope.

Section Rep.
  Variable fl : flags.

  Lemma in_skipn_head {A} (z : A) l j r : skipn j l = z :: r -> In z l.
  Proof. intros E. apply (in_skipn z j). rewrite E. left. reflexivity. Qed.

  (* a greedy repetition of a class over a maximal run, followed by something that can start neither with a
     character of the run nor with the character after it *)
  Lemma rep_then_none C mn mx body s run c t k :
    is_char_re C = true -> aft s = run ++ c :: t -> forallb (char_ok fl C) run = true -> char_ok fl C c = false ->
    (forall x, In x (run ++ [c]) -> nomatch fl body x = true) ->
    m fl (Seq (Rep true mn mx C) body) s k = None.
  Proof.
    intros HC Ha Hrun Hc Hno. rewrite m_seq.
    eapply (m_greedy_none fl C mn mx s _ run (c :: t)); [exact HC|exact Hc|exact Ha|exact Hrun|].
    intros j Hj. destruct (skipn j run) as [|z r] eqn:E.
    - eapply nomatch_sound; [apply Hno; apply in_or_app; right; left; reflexivity|reflexivity].
    - eapply nomatch_sound; [apply Hno; apply in_or_app; left; eapply in_skipn_head; exact E|reflexivity].
  Qed.

  Lemma grp_rep_then_none n C mn mx body s run c t k :
    is_char_re C = true -> aft s = run ++ c :: t -> forallb (char_ok fl C) run = true -> char_ok fl C c = false ->
    (forall x, In x (run ++ [c]) -> nomatch fl body x = true) ->
    m fl (Seq (Grp n (Rep true mn mx C)) body) s k = None.
  Proof.
    intros HC Ha Hrun Hc Hno. rewrite m_seq, m_grp.
    eapply (m_greedy_none fl C mn mx s _ run (c :: t)); [exact HC|exact Hc|exact Ha|exact Hrun|].
    intros j Hj. destruct (skipn j run) as [|z r] eqn:E.
    - eapply nomatch_sound; [apply Hno; apply in_or_app; right; left; reflexivity|reflexivity].
    - eapply nomatch_sound; [apply Hno; apply in_or_app; left; eapply in_skipn_head; exact E|reflexivity].
  Qed.
End Rep.

(* the part of a pattern after its leading " {0,3}" *)
Definition tail_of (r : re) : re := match r with Seq _ b => b | _ => r end.

Lemma indent_shapes :
  re_block_token_Heading_pattern = Seq (Rep true 0 (Some 3%nat) (Lit 32)) (tail_of re_block_token_Heading_pattern) /\
  re_block_token_CodeFence_pattern = Seq (Grp 1 (Rep true 0 (Some 3%nat) (Lit 32))) (tail_of re_block_token_CodeFence_pattern) /\
  re_markdown_renderer_BlankLine_pattern = Seq (Rep true 0 None (Set_ false [CCat CatSpace])) (tail_of re_markdown_renderer_BlankLine_pattern).
Proof. repeat split; reflexivity. Qed.

(* what the character after the indentation must be like *)
Definition ifirst_ok (c : Z) : bool :=
  mfirst_ok c &&
  forallb (fun x => nomatch fl_block_token_Heading_pattern (tail_of re_block_token_Heading_pattern) x &&
                    nomatch fl_block_token_CodeFence_pattern (tail_of re_block_token_CodeFence_pattern) x &&
                    nomatch fl_markdown_renderer_BlankLine_pattern (tail_of re_markdown_renderer_BlankLine_pattern) x) [32; c].

Lemma marker_ifirsts_ok : forallb ifirst_ok marker_firsts = true.
Proof. vm_compute. reflexivity. Qed.

Definition iline (k : nat) (m0 : Z) (t : str) : str := repeat 32 k ++ m0 :: t.

Lemma lstrip_iline k m0 t : is_space_c m0 = false -> lstrip (iline k m0 t) = m0 :: t.
Proof.
  intros H. unfold lstrip, iline. induction k as [|k IH]; cbn [repeat app lstrip_by]; [rewrite H; reflexivity|].
  change (is_space_c 32) with true. exact IH.
Qed.

Lemma slen_iline k m0 t : slen (iline k m0 t) = Z.of_nat k + slen (m0 :: t).
Proof. unfold iline. rewrite slen_app, slen_repeat. reflexivity. Qed.

Lemma in_spaces_c k c x : In x (repeat 32 k ++ [c]) -> x = 32 \/ x = c.
Proof. intros H. apply in_app_or in H as [H|[H|[]]]; [left; apply (repeat_spec k 32 x H)|right; symmetry; exact H]. Qed.

Lemma start_read_other_kind_ind types rec k' k m0 t rest ln st :
  (k <= 3)%nat -> ifirst_ok m0 = true -> thematic_start (iline k m0 t) = false -> other_kind k' = true ->
  start_read types rec k' (iline k m0 t :: rest) ln st = None.
Proof.
  unfold ifirst_ok. intros Hk H Hth Hk'. apply andb_true_iff in H as [H HI]. cbn [forallb] in HI.
  repeat rewrite andb_true_iff in HI. destruct HI as [[[A1 A2] A3] [[[B1 B2] B3] _]].
  pose proof H as Hm. unfold mfirst_ok in H. repeat rewrite andb_true_iff in H.
  destruct H as [[[[[[[[[N1 N2] N3] N4] N5] N6] H3] H62] H91] H60].
  apply negb_true_iff in H3, H62, H91, H60.
  assert (E9 : 9 =? m0 = false) by (apply Z.eqb_neq; intros <-; vm_compute in H3; discriminate).
  assert (E32 : 32 =? m0 = false) by (apply Z.eqb_neq; intros <-; vm_compute in H3; discriminate).
  pose proof (lstrip_iline k m0 t H3) as L.
  destruct indent_shapes as (ShH & ShF & ShB).
  assert (Sp : forallb (char_ok fl_block_token_Heading_pattern (Lit 32)) (repeat 32 k) = true) by (apply forallb_repeat; reflexivity).
  assert (Sp2 : forallb (char_ok fl_block_token_CodeFence_pattern (Lit 32)) (repeat 32 k) = true) by (apply forallb_repeat; reflexivity).
  assert (Sp3 : forallb (char_ok fl_markdown_renderer_BlankLine_pattern (Set_ false [CCat CatSpace])) (repeat 32 k) = true) by (apply forallb_repeat; reflexivity).
  destruct k'; try discriminate; cbn [start_read].
  - (* BlockCode *)
    unfold blockcode_start, tabs_to_spaces_once.
    assert (R : exists u, replace_first [9] ($"    ") (iline k m0 t) = repeat 32 k ++ m0 :: u).
    { unfold iline. clear -E9. induction k as [|k IH]; cbn [repeat app].
      - cbn [replace_first startswith]. rewrite E9. cbn [andb]. eexists. reflexivity.
      - cbn [replace_first startswith]. change (9 =? 32) with false. cbn [andb]. destruct IH as [u ->]. eexists. reflexivity. }
    destruct R as [u ->]. replace ($"    ") with [32; 32; 32; 32] by reflexivity.
    destruct k as [|[|[|[|k]]]]; [| | |  |lia]; cbn [repeat app startswith]; change (32 =? 32) with true; rewrite E32; reflexivity.
  - (* Heading *)
    unfold heading_start, rmatch, match_here. rewrite ShH.
    rewrite (rep_then_none _ (Lit 32) 0 (Some 3%nat) _ _ (repeat 32 k) m0 t); [reflexivity|reflexivity|reflexivity|exact Sp| |].
    + cbn [char_ok]. rewrite Z.eqb_sym. exact E32.
    + intros x Hx. apply in_spaces_c in Hx as [->| ->]; assumption.
  - (* Quote *)
    unfold quote_start.
    assert (LS : lstrip_set [32] (iline k m0 t) = m0 :: t).
    { unfold lstrip_set, iline. clear -E32. induction k as [|k IH]; cbn [repeat app lstrip_by mem existsb].
      - rewrite Z.eqb_sym, E32. reflexivity.
      - change (32 =? 32) with true. cbn [orb]. exact IH. }
    rewrite LS, slen_iline. replace (Z.of_nat k + slen (m0 :: t) - slen (m0 :: t)) with (Z.of_nat k) by lia.
    assert (3 <? Z.of_nat k = false) as -> by (apply Z.ltb_ge; lia). cbn [startswith]. rewrite Z.eqb_sym, H62. reflexivity.
  - (* CodeFence *)
    unfold codefence_start, rmatch, match_here. rewrite ShF.
    rewrite (grp_rep_then_none _ 1 (Lit 32) 0 (Some 3%nat) _ _ (repeat 32 k) m0 t); [reflexivity|reflexivity|reflexivity|exact Sp2| |].
    + cbn [char_ok]. rewrite Z.eqb_sym. exact E32.
    + intros x Hx. apply in_spaces_c in Hx as [->| ->]; assumption.
  - rewrite Hth. reflexivity.
  - unfold footnote_start. rewrite L. cbn [startswith]. rewrite Z.eqb_sym, H91. reflexivity.
  - (* HtmlBlock *)
    unfold htmlblock_start. rewrite L, slen_iline. replace (Z.of_nat k + slen (m0 :: t) - slen (m0 :: t)) with (Z.of_nat k) by lia.
    assert (4 <=? Z.of_nat k = false) as -> by (apply Z.leb_gt; lia).
    rewrite rmatch_first by assumption.
    assert (LL : forall p, startswith (60 :: p) (m0 :: t) = false) by (intros; cbn [startswith]; rewrite Z.eqb_sym, H60; reflexivity).
    cbn [s2l]. rewrite !LL. cbn [andb]. rewrite !rmatch_first by assumption. reflexivity.
  - (* BlankLine *)
    unfold blankline_start, rmatch, match_here. rewrite ShB.
    rewrite (rep_then_none _ (Set_ false [CCat CatSpace]) 0 None _ _ (repeat 32 k) m0 t); [reflexivity|reflexivity|reflexivity|exact Sp3| |].
    + cbn [char_ok existsb citem_match xorb orb]. change (cat_match CatSpace m0) with (is_space_c m0). rewrite H3. reflexivity.
    + intros x Hx. apply in_spaces_c in Hx as [->| ->]; assumption.
  - unfold footnote_start. rewrite L. cbn [startswith]. rewrite Z.eqb_sym, H91. reflexivity.
Qed.

(* ---- ListItem.parse_marker and List.start on an indented marker line ---- *)
Lemma parse_marker_line_ind k mk pad c body :
  (k <= 3)%nat -> marker_ok mk -> (1 <= pad <= 4)%nat -> nonspace c = true ->
  parse_marker (repeat 32 k ++ marker_str mk ++ repeat 32 pad ++ c :: body ++ [10]) =
  Some (Z.of_nat k, Z.of_nat k + slen (marker_str mk) + Z.of_nat pad, marker_str mk, c :: body ++ [10]).
Proof.
  intros Hk Hok Hpad Hc. destruct item_shape as [Sh Fl]. destruct (marker_no_tab mk Hok) as (Htab & m0 & mr & Em & Hm0).
  set (ms := marker_str mk) in *. set (tail := c :: body ++ [10]).
  destruct pad as [|p]; [lia|]. cbn [repeat app].
  set (rest := ms ++ 32 :: repeat 32 p ++ tail).
  set (line := repeat 32 k ++ rest).
  unfold parse_marker, rmatch, match_here, start_at. rewrite Sh, Fl. cbn [bef aft pos length Z.of_nat].
  set (fl := mkFlags false false). set (s0 := mkMst [] line 0 []).
  set (L := repeat 32 k ++ ms ++ repeat 32 (S p)).
  assert (M : exists res, m fl (Seq (Grp 1 (Rep true 0 (Some 3%nat) (Lit 32))) (Seq (Grp 2 MARK) (Grp 3 (Alt Eol (Rep true 1 None SPACE))))) s0 (fun s' => Some s') = Some res /\
                          bef res = rev L /\ pos res = slen L /\
                          lookup_grp 1 (grp res) = Some (0, Z.of_nat k) /\ lookup_grp 2 (grp res) = Some (Z.of_nat k, Z.of_nat k + slen ms)).
  { eexists. split.
    - rewrite m_seq, m_grp.
      eapply (m_greedy fl (Lit 32) 0 (Some 3%nat) s0 _ _ (repeat 32 k) rest); [reflexivity| |reflexivity|apply forallb_repeat; reflexivity|lia|intros x Hx; injection Hx as <-; rewrite repeat_length; exact Hk|].
      + unfold rest. rewrite Em. cbn [app stops char_ok]. exact Hm0.
      + rewrite m_seq.
        eapply (marker_group mk (set_grp 1 (pos s0) (pos (adv_run s0 (repeat 32 k) rest)) (adv_run s0 (repeat 32 k) rest)) (repeat 32 p ++ tail) _ _ Hok); [reflexivity|].
        rewrite m_grp, m_alt, m_eol.
        set (s2 := set_grp 2 _ _ _).
        assert (Eo : at_eol fl s2 = false) by reflexivity.
        rewrite Eo. cbn [orelse].
        eapply (m_greedy fl SPACE 1 None s2 _ _ (repeat 32 (S p)) tail); [reflexivity| |reflexivity| |cbn [length]; rewrite repeat_length; lia|discriminate|reflexivity].
        * unfold tail. cbn [stops char_ok SPACE existsb citem_match xorb]. unfold nonspace in Hc. apply negb_true_iff in Hc. rewrite Hc. reflexivity.
        * apply forallb_repeat. vm_compute. reflexivity.
    - cbn [set_grp adv_run bef aft pos grp lookup_grp Nat.eqb]. subst s0. cbn [bef pos]. unfold L.
      fold ms. rewrite !slen_repeat. split; [|split; [|split]].
      + rewrite !rev_app_distr, app_nil_r, <- !app_assoc. reflexivity.
      + rewrite !slen_app, !slen_repeat. lia.
      + reflexivity.
      + reflexivity. }
  destruct M as (res & Hm & Hbef & Hpos & G1 & G2). rewrite Hm.
  unfold gtxt, group_text, group_span. rewrite G1, G2.
  assert (P0 : 0 <= slen ms) by (unfold slen; lia).
  assert (SL : slen L = Z.of_nat k + slen ms + Z.of_nat (S p)) by (unfold L; rewrite !slen_app, !slen_repeat; lia).
  assert (S1 : segment res 0 (Z.of_nat k) = repeat 32 k).
  { rewrite (segment_known res L) by (try assumption; lia). rewrite Z.sub_0_r, Nat2Z.id. cbn [Z.to_nat skipn]. unfold L. apply firstn_repeat_app. }
  assert (S2 : segment res (Z.of_nat k) (Z.of_nat k + slen ms) = ms).
  { rewrite (segment_known res L) by (try assumption; lia).
    replace (Z.of_nat k + slen ms - Z.of_nat k) with (slen ms) by lia. rewrite Nat2Z.id. unfold L. rewrite skipn_repeat_app.
    unfold slen. rewrite Nat2Z.id. rewrite firstn_app, firstn_all, Nat.sub_diag. cbn [firstn]. apply app_nil_r. }
  rewrite S1, S2, Hpos, SL.
  assert (T : take (Z.of_nat k + slen ms + Z.of_nat (S p)) line = L).
  { unfold take, line, rest, L. replace (Z.to_nat (Z.of_nat k + slen ms + Z.of_nat (S p))) with (k + (length ms + S p))%nat by (unfold slen; lia).
    change (32 :: repeat 32 p ++ tail) with (repeat 32 (S p) ++ tail).
    rewrite firstn_app, repeat_length. replace (k + (length ms + S p) - k)%nat with (length ms + S p)%nat by lia.
    rewrite (firstn_all2 (n := (k + (length ms + S p))%nat)) by (rewrite repeat_length; lia). f_equal.
    rewrite firstn_app_2. f_equal. apply firstn_repeat_app. }
  rewrite T. unfold expandtabs4. rewrite expandtabs_notab.
  2:{ unfold L, mem. rewrite !existsb_app. fold (mem 9 (repeat 32 k)). fold (mem 9 ms). fold (mem 9 (repeat 32 (S p))).
      rewrite Htab, !(mem_repeat 9 32) by lia. reflexivity. }
  rewrite SL, slen_repeat.
  replace (Z.of_nat k + slen ms + Z.of_nat (S p) - (Z.of_nat k + slen ms)) with (Z.of_nat (S p)) by lia.
  assert (4 <? Z.of_nat (S p) = false) as -> by (apply Z.ltb_ge; lia).
  f_equal. f_equal.
  unfold drop, line, rest. replace (Z.to_nat (Z.of_nat k + slen ms + Z.of_nat (S p))) with (k + (length ms + S p))%nat by (unfold slen; lia).
  change (32 :: repeat 32 p ++ tail) with (repeat 32 (S p) ++ tail).
  rewrite skipn_app, repeat_length. rewrite skipn_all2 by (rewrite repeat_length; lia). cbn [app].
  replace (k + (length ms + S p) - k)%nat with (length ms + S p)%nat by lia.
  rewrite skipn_app, skipn_all2 by lia. replace (length ms + S p - length ms)%nat with (S p) by lia.
  cbn [app]. apply skipn_repeat_app.
Qed.

Lemma list_start_line_ind k mk pad c body : (k <= 3)%nat -> marker_ok mk -> (1 <= pad)%nat -> first_ok c = true ->
  list_start (repeat 32 k ++ marker_str mk ++ repeat 32 pad ++ c :: body ++ [10]) = true.
Proof.
  intros Hk Hok Hpad Hc. destruct list_shape as [Sh Fl]. destruct (marker_no_tab mk Hok) as (_ & m0 & mr & Em & Hm0).
  assert (E32 : (c =? 32) = false /\ (c =? 9) = false /\ (c =? 10) = false).
  { unfold first_ok in Hc. apply negb_true_iff in Hc. apply orb_false_iff in Hc as [Hc H10]. apply orb_false_iff in Hc as [H32 H9]. auto. }
  destruct E32 as (H32 & H9 & H10).
  set (tail := c :: body ++ [10]). destruct pad as [|p]; [lia|]. cbn [repeat app].
  set (rest := marker_str mk ++ 32 :: repeat 32 p ++ tail).
  set (line := repeat 32 k ++ rest).
  unfold list_start, rmatch, match_here, start_at. rewrite Sh, Fl. cbn [bef aft pos length Z.of_nat].
  set (fl := mkFlags false false). set (s0 := mkMst [] line 0 []).
  assert (M : exists res, m fl (Seq (Rep true 0 (Some 3%nat) (Lit 32)) (Seq MARK (Alt (Seq (Rep true 0 None SPTAB) Eol) (Rep true 1 None SPTAB)))) s0 (fun s' => Some s') = Some res).
  { eexists. rewrite m_seq.
    eapply (m_greedy fl (Lit 32) 0 (Some 3%nat) s0 _ _ (repeat 32 k) rest); [reflexivity| |reflexivity|apply forallb_repeat; reflexivity|lia|intros x Hx; injection Hx as <-; rewrite repeat_length; exact Hk|].
    - unfold rest. rewrite Em. cbn [app stops char_ok]. exact Hm0.
    - rewrite m_seq.
      eapply (marker_plain mk (adv_run s0 (repeat 32 k) rest) (repeat 32 p ++ tail) _ _ Hok); [reflexivity|].
      set (s2 := adv_run _ (marker_str mk) (32 :: repeat 32 p ++ tail)).
      rewrite m_alt, m_seq.
      assert (N : m fl (Rep true 0 None SPTAB) s2 (fun s' => m fl Eol s' (fun s'0 => Some s'0)) = None).
      { apply (m_greedy_none fl SPTAB 0 None s2 _ (repeat 32 (S p)) tail); [reflexivity| |reflexivity| |].
        - unfold tail. cbn [stops char_ok SPTAB existsb citem_match xorb]. rewrite H32, H9. reflexivity.
        - apply forallb_repeat. reflexivity.
        - intros j Hj. rewrite m_eol.
          destruct (skipn j (repeat 32 (S p))) as [|x r] eqn:Es.
          + erewrite at_eol_not_nl; [reflexivity|cbn [adv_run aft app]; unfold tail; reflexivity|exact H10].
          + assert (x = 32).
            { assert (In x (skipn j (repeat 32 (S p)))) by (rewrite Es; left; reflexivity).
              apply (repeat_spec (S p) 32 x). eapply in_skipn. eassumption. }
            subst x. erewrite at_eol_not_nl; [reflexivity|cbn [adv_run aft app]; reflexivity|reflexivity]. }
      rewrite N. cbn [orelse].
      eapply (m_greedy fl SPTAB 1 None s2 _ _ (repeat 32 (S p)) tail); [reflexivity| |reflexivity| |cbn [length]; rewrite repeat_length; lia|discriminate|reflexivity].
      + unfold tail. cbn [stops char_ok SPTAB existsb citem_match xorb]. rewrite H32, H9. reflexivity.
      + apply forallb_repeat. reflexivity. }
  destruct M as (res & ->). reflexivity.
Qed.

(* ---- ThematicBreak.start on a marker line ---- *)
Section Rep2.
  Variable fl : flags.

  (* greedy or lazy: when what follows rejects every prefix of the run, the repetition fails *)
  Lemma rep_none g r mn mx k rest : is_char_re r = true -> stops fl r rest ->
    forall fuel run s cnt,
      aft s = run ++ rest -> forallb (char_ok fl r) run = true ->
      (forall j, (j <= length run)%nat -> k (adv_run s (firstn j run) (skipn j run ++ rest)) = None) ->
      loop (m fl r) g mn mx k fuel cnt s = None.
  Proof.
    intros Hr Hst. induction fuel as [|x fuel IH]; intros run s cnt Ha Hall Hk.
    - cbn [loop]. destruct (Nat.ltb cnt mn); [reflexivity|].
      specialize (Hk 0%nat (Nat.le_0_l _)). cbn [firstn skipn] in Hk. rewrite <- Ha, adv_run_nil in Hk. exact Hk.
    - cbn [loop].
      assert (K0 : k s = None).
      { specialize (Hk 0%nat (Nat.le_0_l _)). cbn [firstn skipn] in Hk. rewrite <- Ha, adv_run_nil in Hk. exact Hk. }
      assert (More : (if under mx cnt then m fl r s (fun s' => if Nat.leb mn cnt && (pos s' =? pos s) then None else loop (m fl r) g mn mx k fuel (S cnt) s') else None) = None).
      { destruct (under mx cnt); [|reflexivity]. destruct run as [|c run].
        - cbn [app] in Ha. destruct rest as [|d t].
          + apply m_char_nil; assumption.
          + rewrite (m_char fl r s d t _ Hr Ha). cbn [stops] in Hst. rewrite Hst. reflexivity.
        - cbn [app] in Ha. cbn [forallb] in Hall. apply andb_true_iff in Hall as [Hc Hall].
          rewrite (m_char fl r s c (run ++ rest) _ Hr Ha), Hc.
          destruct (Nat.leb mn cnt && _); [reflexivity|].
          apply (IH run (advance s c (run ++ rest)) (S cnt) eq_refl Hall).
          intros j Hj. specialize (Hk (S j) (le_n_S _ _ Hj)). cbn [firstn skipn] in Hk.
          rewrite <- adv_run_cons in Hk.
          replace (firstn j run ++ skipn j run ++ rest) with (run ++ rest) in Hk by (rewrite app_assoc, firstn_skipn; reflexivity).
          exact Hk. }
      destruct (Nat.ltb cnt mn); [exact More|]. destruct g.
      + rewrite More. cbn [orelse]. exact K0.
      + rewrite K0. cbn [orelse]. exact More.
  Qed.

  Corollary m_rep_none g r mn mx s k run rest : is_char_re r = true -> stops fl r rest ->
    aft s = run ++ rest -> forallb (char_ok fl r) run = true ->
    (forall j, (j <= length run)%nat -> k (adv_run s (firstn j run) (skipn j run ++ rest)) = None) ->
    m fl (Rep g mn mx r) s k = None.
  Proof. intros Hr Hst Ha Hall Hk. cbn [m]. eapply rep_none; eassumption. Qed.

  (* a repetition that must run at least once and whose body cannot *)
  Lemma m_rep_body_none g body mn mx s k : (1 <= mn)%nat -> (forall k', m fl body s k' = None) -> m fl (Rep g mn mx body) s k = None.
  Proof.
    intros Hmn Hb. cbn [m]. destruct mn as [|mn']; [lia|]. cbn [repeat app loop Nat.ltb Nat.leb].
    destruct (under mx 0); [apply Hb|reflexivity].
  Qed.

  Lemma m_bref_mismatch n s k a b g0 gs d t :
    lookup_grp n (grp s) = Some (a, b) -> segment s a b = g0 :: gs -> aft s = d :: t -> (g0 =? d) = false -> m fl (Bref n) s k = None.
  Proof. intros Hl Hs Ha Hd. cbn [m]. rewrite Hl, Hs. cbn [eat]. rewrite Ha, Hd. reflexivity. Qed.
End Rep2.

Definition SPC : re := Set_ false [CCat CatSpace].
Definition TB_CLS : re := Set_ false [CLit 45; CLit 95; CLit 42].
Lemma thematic_shape :
  re_block_token_ThematicBreak_pattern =
  Seq (Rep true 0 (Some 3%nat) (Lit 32)) (Seq (Grp 1 TB_CLS) (Seq (Rep false 0 None SPC) (Seq (Rep true 2 None (Seq (Bref 1) (Rep false 0 None SPC))) Eol))) /\
  fl_block_token_ThematicBreak_pattern = mkFlags false false.
Proof. split; reflexivity. Qed.

(* a bullet, spaces, then a character that is neither white space nor the bullet: not a thematic break *)
Lemma thematic_marker_line k m0 pad c t :
  (k <= 3)%nat -> is_space_c m0 = false -> is_space_c c = false -> (m0 =? c) = false ->
  thematic_start (repeat 32 k ++ m0 :: repeat 32 pad ++ c :: t) = false.
Proof.
  intros Hk Hm0 Hc Hne. destruct thematic_shape as [Sh Fl].
  unfold thematic_start, rmatch, match_here, start_at. rewrite Sh, Fl. cbn [bef aft pos length Z.of_nat].
  set (fl := mkFlags false false).
  set (rest := m0 :: repeat 32 pad ++ c :: t). set (line := repeat 32 k ++ rest). set (s0 := mkMst [] line 0 []).
  assert (E32 : (m0 =? 32) = false) by (apply Z.eqb_neq; intros ->; vm_compute in Hm0; discriminate).
  assert (N : m fl (Seq (Rep true 0 (Some 3%nat) (Lit 32)) (Seq (Grp 1 TB_CLS) (Seq (Rep false 0 None SPC) (Seq (Rep true 2 None (Seq (Bref 1) (Rep false 0 None SPC))) Eol)))) s0 (fun s' => Some s') = None).
  { rewrite m_seq. apply (m_greedy_none fl (Lit 32) 0 (Some 3%nat) s0 _ (repeat 32 k) rest); [reflexivity|exact E32|reflexivity|apply forallb_repeat; reflexivity|].
    intros j Hj. rewrite repeat_length in Hj.
    assert (F : firstn j (repeat 32 k) = repeat 32 j) by (replace k with (j + (k - j))%nat by lia; rewrite repeat_app; apply firstn_repeat_app).
    assert (Sk : skipn j (repeat 32 k) = repeat 32 (k - j)) by (replace k with (j + (k - j))%nat at 1 by lia; rewrite repeat_app; apply skipn_repeat_app).
    rewrite F, Sk. destruct (k - j)%nat as [|d] eqn:Ed.
    - (* the whole indentation was read: the class reads the bullet, then nothing fits *)
      assert (j = k) by lia. subst j. cbn [repeat app].
      set (s1 := adv_run s0 (repeat 32 k) rest).
      rewrite m_seq, m_grp. rewrite (m_char fl TB_CLS s1 m0 (repeat 32 pad ++ c :: t) _ eq_refl eq_refl).
      destruct (char_ok fl TB_CLS m0); [|reflexivity].
      set (s2 := set_grp 1 (pos s1) (pos (advance s1 m0 (repeat 32 pad ++ c :: t))) (advance s1 m0 (repeat 32 pad ++ c :: t))).
      rewrite m_seq.
      apply (m_rep_none fl false SPC 0 None s2 _ (repeat 32 pad) (c :: t)); [reflexivity| |reflexivity|apply forallb_repeat; reflexivity|].
      + cbn [stops char_ok SPC existsb citem_match xorb orb]. change (cat_match CatSpace c) with (is_space_c c). rewrite Hc. reflexivity.
      + intros i Hi. rewrite repeat_length in Hi.
        assert (Fi : firstn i (repeat 32 pad) = repeat 32 i) by (replace pad with (i + (pad - i))%nat by lia; rewrite repeat_app; apply firstn_repeat_app).
        assert (Si : skipn i (repeat 32 pad) = repeat 32 (pad - i)) by (replace pad with (i + (pad - i))%nat at 1 by lia; rewrite repeat_app; apply skipn_repeat_app).
        rewrite Fi, Si. rewrite m_seq. apply m_rep_body_none; [lia|]. intros k'. rewrite m_seq.
        set (s3 := adv_run s2 (repeat 32 i) (repeat 32 (pad - i) ++ c :: t)).
        assert (Sg : segment s3 (Z.of_nat k) (Z.of_nat k + 1) = [m0]).
        { rewrite (segment_known s3 (repeat 32 k ++ m0 :: repeat 32 i)).
          - replace (Z.of_nat k + 1 - Z.of_nat k) with 1 by lia. rewrite Nat2Z.id, skipn_repeat_app. reflexivity.
          - unfold s3, s2, s1, s0, adv_run, advance, set_grp. cbn [bef]. rewrite !rev_app_distr. cbn [rev app]. rewrite <- !app_assoc. cbn [app]. rewrite app_nil_r. reflexivity.
          - unfold s3, s2, s1, s0, adv_run, advance, set_grp. cbn [pos]. rewrite !slen_app, slen_cons, !slen_repeat. lia.
          - lia.
          - lia.
          - rewrite slen_app, slen_cons, !slen_repeat. lia. }
        assert (Lg : lookup_grp 1 (grp s3) = Some (Z.of_nat k, Z.of_nat k + 1)).
        { unfold s3, s2, s1, s0, adv_run, advance, set_grp. cbn [grp pos lookup_grp Nat.eqb]. rewrite slen_repeat. reflexivity. }
        destruct (pad - i)%nat as [|e].
        * apply (m_bref_mismatch fl 1 s3 _ _ _ m0 [] c t Lg Sg); [reflexivity|exact Hne].
        * apply (m_bref_mismatch fl 1 s3 _ _ _ m0 [] 32 (repeat 32 e ++ c :: t) Lg Sg); [reflexivity|exact E32].
    - (* part of the indentation is left: the class does not read a space *)
      cbn [repeat app]. rewrite m_seq, m_grp.
      erewrite (m_char fl TB_CLS _ 32 (repeat 32 d ++ rest) _ eq_refl); [reflexivity|reflexivity]. }
  rewrite N. reflexivity.
Qed.

(* ---- ListItem.parse_continuation on a line indented less than the item's content ---- *)
Lemma parse_continuation_low n c body prepend :
  first_ok c = true -> mem 10 body = false -> Z.of_nat n < prepend ->
  parse_continuation (line_of n c body) prepend = None.
Proof.
  intros Hc Hb Hp. destruct (cont_match n c body Hc Hb) as (res & Hm & Hbef & Hpos & G1 & G2).
  unfold parse_continuation. rewrite Hm. unfold gtxt, group_text. rewrite G1, G2.
  assert (L : slen (line_of n c body) = Z.of_nat n + (1 + slen body + 1)).
  { unfold line_of, slen. rewrite app_length, repeat_length. cbn [length]. rewrite app_length. cbn [length]. lia. }
  assert (B0 : 0 <= slen body) by (unfold slen; lia).
  assert (S1 : segment res 0 (Z.of_nat n) = repeat 32 n).
  { rewrite (segment_known res (line_of n c body)) by (try assumption; lia).
    rewrite Z.sub_0_r, Nat2Z.id. cbn [Z.to_nat skipn]. unfold line_of. apply firstn_repeat_app. }
  assert (S2 : segment res (Z.of_nat n) (slen (line_of n c body)) = c :: body ++ [10]).
  { rewrite (segment_known res (line_of n c body)) by (try assumption; lia).
    rewrite L. replace (Z.of_nat n + (1 + slen body + 1) - Z.of_nat n) with (slen (c :: body ++ [10])) by (unfold slen; cbn [length]; rewrite app_length; cbn [length]; lia).
    rewrite Nat2Z.id. unfold line_of, slen. rewrite Nat2Z.id. rewrite skipn_repeat_app. apply firstn_all. }
  rewrite S1, S2.
  assert (Ne : str_eqb (c :: body ++ [10]) [10] = false).
  { cbn [str_eqb]. unfold first_ok in Hc. apply negb_true_iff in Hc. apply orb_false_iff in Hc as [_ H10]. rewrite H10. reflexivity. }
  rewrite Ne. unfold expandtabs4. rewrite expandtabs_notab by (apply mem_repeat; lia).
  rewrite slen_repeat. assert (prepend <=? Z.of_nat n = false) as -> by (apply Z.leb_gt; lia). reflexivity.
Qed.

(* ---- a bullet line, indented by at most three spaces: everything the readers ask of it ---- *)
Definition bullet_ok (b : Z) : Prop := b = 43 \/ b = 45 \/ b = 42.
Definition bline (k : nat) (b : Z) (pad : nat) (c : Z) (body : str) : str := line_of k b (repeat 32 pad ++ c :: body).

Lemma bline_marker k b pad c body :
  bline k b pad c body = repeat 32 k ++ marker_str (MBullet b) ++ repeat 32 pad ++ c :: body ++ [10].
Proof. unfold bline, line_of. cbn [marker_str app]. rewrite <- app_assoc. reflexivity. Qed.

Lemma bline_iline k b pad c body : bline k b pad c body = iline k b (repeat 32 pad ++ c :: body ++ [10]).
Proof. unfold bline, line_of, iline. rewrite <- app_assoc. reflexivity. Qed.

Definition no_pipe (l : str) : bool := negb (mem 124 l).

Section Bullet.
  Variables (k : nat) (b : Z) (pad : nat) (c : Z) (body : str).
  Hypothesis Hk : (k <= 3)%nat.
  Hypothesis Hb : bullet_ok b.
  Hypothesis Hpad : (1 <= pad <= 4)%nat.
  Hypothesis Hc : first_ok c = true.
  Hypothesis Hns : nonspace c = true.
  Hypothesis Hbc : (b =? c) = false.
  Let L := bline k b pad c body.

  Lemma bullet_ifirst : ifirst_ok b = true.
  Proof. pose proof marker_ifirsts_ok as F. rewrite forallb_forall in F. apply F. destruct Hb as [->|[->| ->]]; cbn; auto 20. Qed.

  Lemma bullet_space : is_space_c b = false.
  Proof. destruct Hb as [->|[->| ->]]; reflexivity. Qed.

  Lemma bline_thematic : thematic_start L = false.
  Proof.
    unfold L, bline, line_of. rewrite <- app_assoc. cbn [app]. apply thematic_marker_line; [exact Hk|exact bullet_space| |exact Hbc].
    unfold nonspace in Hns. apply negb_true_iff in Hns. exact Hns.
  Qed.

  Lemma bline_other types rec k' rest ln st : other_kind k' = true -> start_read types rec k' (L :: rest) ln st = None.
  Proof.
    intros Hk'. unfold L. rewrite bline_iline. apply start_read_other_kind_ind; [exact Hk|exact bullet_ifirst| |exact Hk'].
    rewrite <- bline_iline. exact bline_thematic.
  Qed.

  Lemma bline_parse_marker : parse_marker L = Some (Z.of_nat k, Z.of_nat k + 1 + Z.of_nat pad, [b], c :: body ++ [10]).
  Proof.
    unfold L. rewrite bline_marker.
    rewrite (parse_marker_line_ind k (MBullet b) pad c body Hk Hb Hpad Hns). reflexivity.
  Qed.

  Lemma bline_list_start : list_start L = true.
  Proof. unfold L. rewrite bline_marker. apply (list_start_line_ind k (MBullet b) pad c body Hk Hb); [lia|exact Hc]. Qed.

  Lemma bline_interrupts_paragraph : list_interrupts L = true.
  Proof.
    unfold list_interrupts. rewrite bline_parse_marker.
    rewrite not_blank_first by (unfold nonspace in Hns; apply negb_true_iff in Hns; exact Hns). cbn [negb char_at nth Z.to_nat].
    destruct Hb as [->|[->| ->]]; reflexivity.
  Qed.

  (* nothing but a list interrupts at this line *)
  Lemma bline_no_interrupt types rest : match rest with [] => True | l2 :: _ => no_pipe l2 = true end ->
    any_interrupt types BK_List (L :: rest) = false.
  Proof.
    intros Hr. unfold any_interrupt. apply not_true_iff_false. intros E. apply existsb_exists in E as (k' & _ & E).
    apply andb_true_iff in E as [E Ei]. apply andb_true_iff in E as [Eh Ek].
    set (rec0 := fun (_ : list str) (_ : Z) (_ : pstate) => (@nil pre, false, mkPs true)).
    destruct k'; try discriminate; cbn [interrupts] in Ei.
    - pose proof (bline_other [] rec0 BK_Heading rest 0 (mkPs true) eq_refl) as N. cbn [start_read] in N.
      destruct (heading_start L) as [[[? ?] ?]|]; discriminate.
    - pose proof (bline_other [] rec0 BK_Quote rest 0 (mkPs true) eq_refl) as N. cbn [start_read] in N. rewrite Ei in N.
      destruct (quote_lines [] (L :: rest)) as [? ?]. unfold rec0 in N. discriminate.
    - pose proof (bline_other [] rec0 BK_CodeFence rest 0 (mkPs true) eq_refl) as N. cbn [start_read] in N.
      destruct (codefence_start L) as [[[[? ?] ?] ?]|]; [|discriminate]. destruct (fence_loop _ _ _ _ _). discriminate.
    - rewrite bline_thematic in Ei. discriminate.
    - unfold table_read in Ei. destruct rest as [|l2 more]; cbn [take_while_pipe] in Ei; [discriminate|].
      unfold no_pipe in Hr. apply negb_true_iff in Hr. rewrite Hr in Ei. discriminate.
    - pose proof (bline_other [] rec0 BK_HtmlBlock rest 0 (mkPs true) eq_refl) as N. cbn [start_read] in N.
      destruct (htmlblock_start L) as [[? ?]|]; [|discriminate]. destruct (html_loop _ _ _ _). discriminate.
  Qed.

  (* ... and the item loop of the previous sibling asks only for a thematic break at a marker line *)
  Lemma bline_no_item_interrupt types rest : item_interrupt types (L :: rest) = false.
  Proof. unfold item_interrupt. rewrite bline_parse_marker, bline_thematic. apply andb_false_r. Qed.

  Lemma bline_continuation_low prepend : Z.of_nat k < prepend -> mem 10 body = false -> parse_continuation L prepend = None.
  Proof.
    intros Hp Hb10. unfold L, bline. apply parse_continuation_low; [destruct Hb as [->|[->| ->]]; reflexivity| |exact Hp].
    unfold mem. rewrite existsb_app. fold (mem 10 (repeat 32 pad)). rewrite (mem_repeat 10 32) by lia. cbn [existsb orb].
    unfold first_ok in Hc. apply negb_true_iff in Hc. apply orb_false_iff in Hc as [_ H10]. rewrite Z.eqb_sym, H10. exact Hb10.
  Qed.
End Bullet.
