(* The block tokenizer on the outline lists of Spec/Outline.v (tight nested bullet lists, one
   item per line, sub-items indented inside their item): for every forest - any number of
   items, any depth - it returns exactly the nested pre-token tree written from the forest.
   This is the shape TocRenderer.toc hands to the tokenizer. *)
From Coq Require Import ZArith List Bool Lia.
From Mistletoe Require Import Base.Sx Base.PyStr Base.PyText Gen.GenTables Gen.GenRegex Gen.GenConfig Re.ReMatch Model.Tree Model.Block Model.Build
     Proofs.ReFirst Proofs.Prose Proofs.PlainProse Proofs.ListLaw Proofs.IndentLaw Spec.Fragment Proofs.FragmentP Spec.Outline.
Import ListNotations.
Local Open Scope Z_scope.

Definition title_okb (c : Z) (body : str) : bool := plain_line_b (c :: body) && negb (mem 9 (c :: body)).
Fixpoint owf (n : onode) : bool := match n with ONode c body kids => title_okb c body && forallb owf kids end.

(* ---- the item loop when the next sibling's marker line follows ---- *)
Definition leader_of (mk : Z * Z * str * str) : str := match mk with (_, _, l, _) => l end.

Lemma item_loop_sibling types leader w : forall ls tail buf taken,
  Forall sline_ok ls -> Forall (fun l => l <> SBlank) ls ->
  (tail = [] \/ exists T more mk', tail = T :: more /\ parse_continuation T (Z.of_nat w) = None /\ item_interrupt types tail = false /\
                                   parse_marker T = Some mk' /\ same_marker_type leader (leader_of mk') = true) ->
  item_loop types leader (map (embed_line w) ls ++ tail) (Z.of_nat w) buf taken 0 =
  (rev (rev (map render_line ls) ++ buf), (taken + length ls)%nat, match tail with [] => None | T :: _ => parse_marker T end).
Proof.
  induction ls as [|l ls IH]; intros tail buf taken Hok Hnb Ht.
  - cbn [map app rev length]. rewrite Nat.add_0_r.
    destruct Ht as [->|(T & more & mk' & -> & Hc & Hi & Hm & Hs)]; [reflexivity|].
    cbn [item_loop]. rewrite Hc, Hi, Hm. destruct mk' as [[[i p] other] ct]. cbn [leader_of] in Hs. rewrite Hs. reflexivity.
  - inversion Hok as [|? ? Hl Hls]; subst. inversion Hnb as [|? ? Hn Hnbs]; subst. cbn [map app item_loop].
    destruct l as [|k c body]; [contradiction|]. cbn [embed_line]. destruct Hl as [Hc Hb].
    rewrite parse_continuation_line by (try assumption; lia).
    replace (w + k - Z.to_nat (Z.of_nat w))%nat with k by lia.
    rewrite line_not_nl by exact Hc. rewrite (IH tail _ _ Hls Hnbs Ht).
    cbn [map render_line rev length]. rewrite <- app_assoc. cbn [app]. f_equal. f_equal. lia.
Qed.

Lemma is_blank_iline k m0 t : is_space_c m0 = false -> is_blank (iline k m0 t) = false.
Proof.
  intros H. unfold is_blank, strip, strip_by. fold (lstrip (iline k m0 t)). rewrite lstrip_iline by exact H.
  pose proof (not_blank_first m0 t H) as N. unfold is_blank, strip, strip_by in N. cbn [lstrip_by] in N. rewrite H in N. exact N.
Qed.

Lemma odepth_kid x c body kids f : In x kids -> (odepth (ONode c body kids) <= S f)%nat -> (odepth x <= f)%nat.
Proof.
  intros Hx Hd. cbn [odepth] in Hd. apply le_S_n in Hd. induction kids as [|y r IHr]; [destruct Hx|]. cbn [fold_right] in Hd.
  destruct Hx as [->|Hx]; [lia|apply IHr; [exact Hx|lia]].
Qed.

Section OL.
  Variables (b : Z) (pad sub : nat).
  Hypothesis Hb : bullet_ok b.
  Hypothesis Hpad : (1 <= pad <= 4)%nat.
  Hypothesis Hsub : (sub <= 3)%nat.
  Variable types : list block_kind.
  Hypothesis Hlf : list_first types = true.
  Hypothesis Hpar : In BK_Paragraph types.

  Notation olines := (olines b pad sub).
  Notation oforest := (oforest b pad sub).
  Notation opre := (opre b pad sub).
  Notation oitems := (oitems b pad sub).

  Lemma in_list_types : In BK_List types.
  Proof. clear -Hlf. induction types as [|k ts IH]; [discriminate|]. destruct k; cbn [list_first] in Hlf; try discriminate; try (right; apply IH; exact Hlf). left. reflexivity. Qed.

  (* ---- what a well-formed title gives ---- *)
  Lemma title_facts c body : title_okb c body = true ->
    plain_line (c :: body) /\ first_ok c = true /\ nonspace c = true /\ (b =? c) = false /\ mem 10 body = false /\ mem 124 (c :: body) = false.
  Proof.
    intros H. apply andb_true_iff in H as [H1 H2]. apply plain_line_reflect in H1. pose proof H1 as (Hp & Hf & _ & _). cbn [hd] in Hf.
    pose proof (plain_first_not_space c Hf) as Hs.
    assert (N10 : mem 10 (c :: body) = false) by (apply plain_no; [reflexivity|exact Hp]).
    assert (N124 : mem 124 (c :: body) = false) by (apply plain_no; [reflexivity|exact Hp]).
    apply negb_true_iff in H2. unfold mem in N10, H2. cbn [existsb] in N10, H2. apply orb_false_iff in N10 as [C10 B10]. apply orb_false_iff in H2 as [C9 _].
    split; [exact H1|]. split; [|split; [|split; [|split; [exact B10|exact N124]]]].
    - unfold first_ok. apply negb_true_iff. rewrite (Z.eqb_sym c 9), C9, (Z.eqb_sym c 10), C10.
      destruct (c =? 32) eqn:E; [apply Z.eqb_eq in E; subst c; vm_compute in Hs; discriminate|reflexivity].
    - unfold nonspace. apply negb_true_iff. exact Hs.
    - destruct (b =? c) eqn:E; [|reflexivity]. apply Z.eqb_eq in E. subst c. destruct Hb as [->|[->| ->]]; vm_compute in Hf; discriminate.
  Qed.

  Lemma bullet_first_ok : first_ok b = true.
  Proof. destruct Hb as [->|[->| ->]]; reflexivity. Qed.

  (* ---- the lines of a forest ---- *)
  Lemma text_node k c body kids :
    text_of (olines k (ONode c body kids)) = bline k b pad c body :: map (embed_line (k + 1 + pad)) (oforest sub kids).
  Proof. cbn [Outline.olines text_of map render_line]. f_equal. apply text_embed. Qed.

  Lemma lines_ok : forall f n k, (odepth n <= f)%nat -> owf n = true ->
    Forall sline_ok (olines k n) /\ Forall (fun l => l <> SBlank) (olines k n) /\ Forall (fun l => no_pipe (render_line l) = true) (olines k n).
  Proof.
    induction f as [|f IH]; intros [c body kids] k Hd Hw; [cbn [odepth] in Hd; lia|].
    cbn [owf] in Hw. apply andb_true_iff in Hw as [Ht Hk]. destruct (title_facts c body Ht) as (_ & Hc & _ & _ & B10 & P).
    assert (K : Forall (fun x => Forall sline_ok (olines sub x) /\ Forall (fun l => l <> SBlank) (olines sub x) /\ Forall (fun l => no_pipe (render_line l) = true) (olines sub x)) kids).
    { apply Forall_forall. intros x Hx. rewrite forallb_forall in Hk. apply IH; [|apply Hk; exact Hx].
      eapply odepth_kid; eassumption. }
    cbn [Outline.olines]. repeat split; constructor.
    - split; [exact bullet_first_ok|]. unfold mem. rewrite existsb_app. fold (mem 10 (repeat 32 pad)). rewrite (mem_repeat 10 32) by lia.
      cbn [existsb orb]. unfold first_ok in Hc. apply negb_true_iff in Hc. apply orb_false_iff in Hc as [_ H10]. rewrite Z.eqb_sym, H10. exact B10.
    - apply Forall_forall. intros l Hl. apply in_map_iff in Hl as (y & <- & Hy). apply in_flat_map in Hy as (x & Hx & Hy).
      rewrite Forall_forall in K. destruct (K x Hx) as (A & _ & _). rewrite Forall_forall in A. specialize (A y Hy). destruct y; exact A.
    - discriminate.
    - apply Forall_forall. intros l Hl. apply in_map_iff in Hl as (y & <- & Hy). apply in_flat_map in Hy as (x & Hx & Hy).
      rewrite Forall_forall in K. destruct (K x Hx) as (_ & A & _). rewrite Forall_forall in A. specialize (A y Hy). destruct y; [contradiction|discriminate].
    - unfold no_pipe, render_line, line_of. apply negb_true_iff. unfold mem. rewrite existsb_app. fold (mem 124 (repeat 32 k)). rewrite (mem_repeat 124 32) by lia.
      cbn [existsb orb]. rewrite !existsb_app. fold (mem 124 (repeat 32 pad)). rewrite (mem_repeat 124 32) by lia. fold (mem 124 (c :: body)). rewrite P.
      destruct Hb as [->|[->| ->]]; reflexivity.
    - apply Forall_forall. intros l Hl. apply in_map_iff in Hl as (y & <- & Hy). apply in_flat_map in Hy as (x & Hx & Hy).
      rewrite Forall_forall in K. destruct (K x Hx) as (_ & _ & A). rewrite Forall_forall in A. specialize (A y Hy). destruct y as [|k' c' body']; [reflexivity|].
      cbn [embed_s render_line] in *. unfold no_pipe, line_of in *. apply negb_true_iff in A. apply negb_true_iff.
      unfold mem in *. rewrite existsb_app in *. apply orb_false_iff in A as [_ A]. rewrite A. fold (mem 124 (repeat 32 (k + 1 + pad + k'))). rewrite (mem_repeat 124 32) by lia. reflexivity.
  Qed.

  Definition node_ok (f : nat) (n : onode) : Prop := (odepth n <= f)%nat /\ owf n = true.

  Lemma forest_ok f ns k : Forall (node_ok f) ns ->
    Forall sline_ok (oforest k ns) /\ Forall (fun l => l <> SBlank) (oforest k ns) /\ Forall (fun l => no_pipe l = true) (text_of (oforest k ns)).
  Proof.
    intros H. unfold Outline.oforest. repeat split; apply Forall_forall; intros l Hl.
    - apply in_flat_map in Hl as (x & Hx & Hl). rewrite Forall_forall in H. destruct (H x Hx) as [Hd Hw].
      destruct (lines_ok f x k Hd Hw) as (A & _ & _). rewrite Forall_forall in A. apply A. exact Hl.
    - apply in_flat_map in Hl as (x & Hx & Hl). rewrite Forall_forall in H. destruct (H x Hx) as [Hd Hw].
      destruct (lines_ok f x k Hd Hw) as (_ & A & _). rewrite Forall_forall in A. apply A. exact Hl.
    - unfold text_of in Hl. apply in_map_iff in Hl as (y & <- & Hy). apply in_flat_map in Hy as (x & Hx & Hy). rewrite Forall_forall in H. destruct (H x Hx) as [Hd Hw].
      destruct (lines_ok f x k Hd Hw) as (_ & _ & A). rewrite Forall_forall in A. apply A. exact Hy.
  Qed.

  Lemma olines_length : forall f n k, (odepth n <= f)%nat -> length (olines k n) = osize n.
  Proof.
    induction f as [|f IH]; intros [c body kids] k Hd; [cbn [odepth] in Hd; lia|].
    cbn [Outline.olines osize length]. f_equal. rewrite map_length.
    assert (K : forall x, In x kids -> length (olines sub x) = osize x) by (intros x Hx; apply IH; eapply odepth_kid; eassumption).
    clear -K. induction kids as [|y r IHr]; [reflexivity|]. cbn [flat_map fold_right]. rewrite app_length, (K y (or_introl eq_refl)), IHr; [reflexivity|].
    intros x Hx. apply K. right. exact Hx.
  Qed.

  Lemma oforest_length f ns k : Forall (node_ok f) ns -> length (oforest k ns) = fold_right (fun x m => (osize x + m)%nat) 0%nat ns.
  Proof.
    intros H. induction H as [|x r [Hd _] _ IH]; [reflexivity|]. unfold Outline.oforest in *. cbn [flat_map fold_right].
    rewrite app_length, IH, (olines_length f x k Hd). reflexivity.
  Qed.

  Definition sublist (ln : Z) (kids : list onode) : list pre :=
    match kids with [] => [] | _ => [PList (ln + 1) (oitems sub (ln + 1) kids)] end.

  Lemma items_fix ns z :
    (fix items (ln : Z) (ns : list onode) {struct ns} : list pre :=
       match ns with [] => [] | x :: r => opre sub ln x :: items (ln + Z.of_nat (osize x)) r end) z ns = oitems sub z ns.
  Proof. revert z. induction ns as [|x r IH]; intros z; [reflexivity|]. cbn [Outline.oitems]. rewrite <- IH. reflexivity. Qed.

  Lemma opre_eq k ln c body kids :
    opre k ln (ONode c body kids) =
    PItem ln (PParagraph ln [c :: body ++ [10]] :: sublist ln kids) false (Z.of_nat k) (Z.of_nat (k + 1 + pad)) [b].
  Proof. destruct kids as [|k0 kr]; [reflexivity|]. unfold sublist. rewrite <- items_fix. reflexivity. Qed.

  Definition rec_ok (rec : list str -> Z -> pstate -> list pre * bool * pstate) (n : onode) : Prop :=
    match n with
    | ONode c body kids => forall ln st,
        rec ((c :: body ++ [10]) :: text_of (oforest sub kids)) ln st = (PParagraph ln [c :: body ++ [10]] :: sublist ln kids, false, st)
    end.

  Definition marker_of (k : nat) (n : onode) : Z * Z * str * str :=
    match n with ONode c body _ => (Z.of_nat k, Z.of_nat k + 1 + Z.of_nat pad, [b], c :: body ++ [10]) end.

  Lemma forest_head k x more : text_of (oforest k (x :: more)) =
    match x with ONode c body kids => bline k b pad c body :: (map (embed_line (k + 1 + pad)) (oforest sub kids) ++ text_of (oforest k more)) end.
  Proof. destruct x as [c body kids]. unfold Outline.oforest at 1. cbn [flat_map]. unfold text_of at 1. rewrite map_app. fold (text_of (olines k (ONode c body kids))). rewrite text_node. reflexivity. Qed.

  Section Item.
    Variable rec : list str -> Z -> pstate -> list pre * bool * pstate.

    Lemma read_item_node f k n more ln prev st :
      (k <= 3)%nat -> node_ok f n -> rec_ok rec n -> Forall (node_ok f) more -> (prev = None \/ prev = Some (marker_of k n)) ->
      read_item types rec (text_of (olines k n) ++ text_of (oforest k more)) ln prev st =
      (opre k ln n, osize n, match more with [] => None | x :: _ => Some (marker_of k x) end, st).
    Proof.
      intros Hk [Hd Hw] Hrec Hmore Hprev. destruct n as [c body kids]. cbn [owf] in Hw. apply andb_true_iff in Hw as [Ht Hkids].
      destruct (title_facts c body Ht) as (PL & Hc & Hns & Hbc & B10 & P124).
      rewrite text_node. cbn [app read_item].
      assert (Mk : match prev with Some m => Some m | None => parse_marker (bline k b pad c body) end = Some (marker_of k (ONode c body kids))).
      { destruct Hprev as [->| ->]; [|reflexivity]. apply bline_parse_marker; assumption. }
      rewrite Mk. cbn [marker_of].
      rewrite not_blank_first by (unfold nonspace in Hns; apply negb_true_iff in Hns; exact Hns).
      assert (Kok : Forall (node_ok f) kids).
      { apply Forall_forall. intros x Hx. rewrite forallb_forall in Hkids. split; [|apply Hkids; exact Hx].
        destruct f as [|f']; [cbn [odepth] in Hd; lia|]. apply Nat.le_le_succ_r. eapply odepth_kid; eassumption. }
      destruct (forest_ok f kids sub Kok) as (SK & NB & _).
      replace (Z.of_nat k + 1 + Z.of_nat pad) with (Z.of_nat (k + 1 + pad)) by lia.
      rewrite (item_loop_sibling types [b] (k + 1 + pad) (oforest sub kids) (text_of (oforest k more)) _ _ SK NB).
      - cbn [rev app]. rewrite rev_app_distr, rev_involutive. cbn [rev app].
        fold (text_of (oforest sub kids)). unfold rec_ok in Hrec. rewrite Hrec. rewrite opre_eq.
        cbn [length osize]. rewrite (oforest_length f kids sub Kok). cbn [Nat.add]. f_equal. f_equal.
        destruct more as [|x r]; [reflexivity|]. rewrite forest_head. destruct x as [c' body' kids']. inversion Hmore as [|? ? [_ Hwx] _]; subst.
          cbn [owf] in Hwx. apply andb_true_iff in Hwx as [Htx _]. destruct (title_facts c' body' Htx) as (_ & Hc' & Hns' & Hbc' & _ & _).
        rewrite bline_parse_marker by assumption. reflexivity.
      - destruct more as [|x r]; [left; reflexivity|right]. rewrite forest_head. destruct x as [c' body' kids']. inversion Hmore as [|? ? [Hdx Hwx] Hr]; subst.
        pose proof Hwx as Hwx0. cbn [owf] in Hwx. apply andb_true_iff in Hwx as [Htx _]. destruct (title_facts c' body' Htx) as (_ & Hc' & Hns' & Hbc' & B10' & _).
        eexists. eexists. exists (marker_of k (ONode c' body' kids')). split; [reflexivity|]. split; [|split; [|split]].
        + apply bline_continuation_low; try assumption. lia.
        + apply bline_no_item_interrupt; assumption.
        + apply bline_parse_marker; assumption.
        + cbn [marker_of leader_of]. unfold same_marker_type. cbn [slen length Z.of_nat Pos.of_succ_nat Z.eqb Pos.eqb str_eqb]. rewrite Z.eqb_refl. reflexivity.
    Qed.

    Lemma forest_app k x r : text_of (oforest k (x :: r)) = text_of (olines k x) ++ text_of (oforest k r).
    Proof. unfold Outline.oforest. cbn [flat_map]. unfold text_of. apply map_app. Qed.

    Lemma item_leader_node k ln x : match opre k ln x with PItem _ _ _ _ _ l => l | _ => [] end = [b].
    Proof. destruct x as [c body kids]. rewrite opre_eq. reflexivity. Qed.

    Lemma read_list_forest f k : (k <= 3)%nat -> forall ns, ns <> [] -> Forall (node_ok f) ns -> Forall (rec_ok rec) ns ->
      forall n ln leader nm items_rev consumed st,
      (length ns <= n)%nat ->
      ((leader = None /\ nm = None) \/ (leader = Some [b] /\ nm = Some (marker_of k (hd (ONode 0 [] []) ns)))) ->
      read_list types rec n (text_of (oforest k ns)) ln leader nm items_rev consumed st =
      (rev items_rev ++ oitems k ln ns, (consumed + length (oforest k ns))%nat, st).
    Proof.
      intros Hk. induction ns as [|x r IH]; intros Hne Hok Hrec n ln leader nm items_rev consumed st Hn Hl; [contradiction|].
      inversion Hok as [|? ? Hx Hr]; subst. inversion Hrec as [|? ? Rx Rr]; subst.
      destruct n as [|n']; [cbn [length] in Hn; lia|].
      assert (Sm : same_marker_type [b] [b] = true).
      { unfold same_marker_type. cbn [slen length Z.of_nat Pos.of_succ_nat Z.eqb Pos.eqb str_eqb]. rewrite Z.eqb_refl. reflexivity. }
      assert (Step : read_list types rec (S n') (text_of (oforest k (x :: r))) ln leader nm items_rev consumed st =
                     match r with
                     | [] => (rev (opre k ln x :: items_rev), (consumed + osize x)%nat, st)
                     | _ => read_list types rec n' (skipn (osize x) (text_of (olines k x) ++ text_of (oforest k r))) (ln + nlines (osize x)) (Some [b])
                                      (match r with [] => None | y :: _ => Some (marker_of k y) end) (opre k ln x :: items_rev) (consumed + osize x)%nat st
                     end).
      { cbn [read_list]. rewrite forest_app.
        destruct Hl as [[-> ->]|[-> ->]].
        - rewrite (read_item_node f k x r ln None st Hk Hx Rx Hr) by (left; reflexivity). rewrite item_leader_node. cbn [negb]. destruct r; reflexivity.
        - rewrite (read_item_node f k x r ln _ st Hk Hx Rx Hr) by (right; reflexivity). rewrite item_leader_node, Sm. cbn [negb]. destruct r; reflexivity. }
      rewrite Step. clear Step.
      assert (Ll : length (text_of (olines k x)) = osize x) by (unfold text_of; rewrite map_length; apply (olines_length f); apply Hx).
      destruct r as [|y r'].
      - cbn [rev Outline.oitems]. unfold Outline.oforest. cbn [flat_map]. rewrite !app_nil_r, (olines_length f x k (proj1 Hx)). reflexivity.
      - rewrite skipn_app, skipn_all2 by lia. rewrite Ll, Nat.sub_diag. cbn [skipn app].
        rewrite (IH ltac:(discriminate) Hr Rr n' _ _ _ _ _ st); [| cbn [length] in Hn |- *; lia | right; split; reflexivity].
        cbn [rev Outline.oitems]. rewrite <- app_assoc. cbn [app]. unfold nlines. f_equal. f_equal.
        rewrite (oforest_length f (x :: y :: r') k Hok), (oforest_length f (y :: r') k Hr). cbn [fold_right]. lia.
    Qed.

    Lemma forest_longer f k ns : Forall (node_ok f) ns -> (length ns <= length (oforest k ns))%nat.
    Proof.
      intros H. rewrite (oforest_length f ns k H). clear H. induction ns as [|x r IH]; [reflexivity|]. cbn [length fold_right].
      destruct x as [c body kids]. cbn [osize]. lia.
    Qed.

    Lemma last_fix (items : list pre) :
      Forall (fun p => exists l e i pp ld, p = PItem l e false i pp ld) items ->
      match rev items with
      | PItem l e lo i p ld :: before => rev (PItem l e ((1 <? nlines (length e)) && lo) i p ld :: before)
      | _ => items
      end = items.
    Proof.
      intros H. destruct (rev items) as [|p before] eqn:E; [reflexivity|].
      assert (Hin : In p items) by (apply in_rev; rewrite E; left; reflexivity).
      rewrite Forall_forall in H. destruct (H p Hin) as (l & e & i & pp & ld & ->). rewrite andb_false_r. rewrite <- E. apply rev_involutive.
    Qed.

    Lemma oitems_tight k : forall ns ln, Forall (fun p => exists l e i pp ld, p = PItem l e false i pp ld) (oitems k ln ns).
    Proof. induction ns as [|x r IH]; intros ln; [constructor|]. cbn [Outline.oitems]. constructor; [|apply IH]. destruct x. rewrite opre_eq. repeat eexists. Qed.

    Lemma start_read_forest f k ns ln st : (k <= 3)%nat -> ns <> [] -> Forall (node_ok f) ns -> Forall (rec_ok rec) ns ->
      start_read types rec BK_List (text_of (oforest k ns)) ln st = Some (PList ln (oitems k ln ns), length (oforest k ns), st).
    Proof.
      intros Hk Hne Hok Hrec. destruct ns as [|x r]; [contradiction|].
      pose proof (forest_head k x r) as Eh. destruct x as [c body kids]. inversion Hok as [|? ? [_ Hwx] _]; subst.
      cbn [owf] in Hwx. apply andb_true_iff in Hwx as [Htx _]. destruct (title_facts c body Htx) as (_ & Hc & Hns & Hbc & _ & _).
      rewrite Eh. cbn [start_read]. rewrite bline_list_start by assumption. rewrite <- Eh.
      rewrite (read_list_forest f k Hk _ Hne Hok Hrec); [| |left; split; reflexivity].
      - cbn [rev app Nat.add]. rewrite last_fix by apply oitems_tight. reflexivity.
      - unfold text_of. rewrite map_length. apply le_S. apply (forest_longer f). exact Hok.
    Qed.

    Lemma try_types_forest f k ns ln st : (k <= 3)%nat -> ns <> [] -> Forall (node_ok f) ns -> Forall (rec_ok rec) ns ->
      forall ts, list_first ts = true ->
      try_types types rec ts (text_of (oforest k ns)) ln st = Some (PList ln (oitems k ln ns), length (oforest k ns), st).
    Proof.
      intros Hk Hne Hok Hrec. pose proof (start_read_forest f k ns ln st Hk Hne Hok Hrec) as SR.
      destruct ns as [|x r]; [contradiction|]. pose proof (forest_head k x r) as Eh. destruct x as [c body kids]. inversion Hok as [|? ? [_ Hwx] _]; subst.
      cbn [owf] in Hwx. apply andb_true_iff in Hwx as [Htx _]. destruct (title_facts c body Htx) as (_ & Hc & Hns & Hbc & _ & _).
      induction ts as [|k' ts IH]; intros Hl; [discriminate|]. cbn [try_types].
      destruct (other_kind k') eqn:Ek.
      - rewrite Eh at 1. rewrite bline_other by assumption. apply IH. destruct k'; try discriminate; exact Hl.
      - destruct k'; try discriminate. rewrite SR. reflexivity.
    Qed.

    (* the title line, then (perhaps) the sub-list: the paragraph ends where the list begins *)
    Lemma try_types_title l rest ln st : plain_line l ->
      para_loop types (ps_setext st) rest [l ++ [10]] 1%nat = ([l ++ [10]], 1%nat, false) ->
      forall ts, In BK_Paragraph ts ->
      try_types types rec ts ((l ++ [10]) :: rest) ln st = Some (PParagraph ln [l ++ [10]], 1%nat, st).
    Proof.
      intros PL Hpl. pose proof PL as (Hp & Hf & Hne & Hl). destruct (strip_line l PL) as [_ Hbl].
      destruct l as [|c t]; [contradiction|]. cbn [hd] in Hf. cbn [app] in Hpl, Hbl |- *.
      induction ts as [|k ts IH]; intros Hin; [destruct Hin|].
      cbn [try_types].
      destruct (kind_eqb k BK_Paragraph) eqn:EP.
      - assert (k = BK_Paragraph) by (destruct k; try discriminate; reflexivity). subst k.
        cbn [start_read]. unfold paragraph_start. rewrite Hbl. cbn [negb].
        match goal with |- context [para_loop ?pa ?pb ?pc ?pd ?pe] => replace (para_loop pa pb pc pd pe) with ([c :: t ++ [10]], 1%nat, false) by (symmetry; exact Hpl) end. reflexivity.
      - assert (N : start_read types rec k ((c :: t ++ [10]) :: rest) ln st = None).
        { destruct (non_paragraph_non_table k) eqn:EN.
          - apply block_starts_need_marker; assumption.
          - destruct k; try discriminate. cbn [start_read]. unfold table_start.
            change (c :: t ++ [10]) with ((c :: t) ++ [10]). unfold mem. rewrite existsb_app. fold (mem 124 (c :: t)). rewrite (plain_no 124 (c :: t) eq_refl Hp). reflexivity. }
        rewrite N. apply IH. destruct Hin as [->|Hin]; [destruct BK_Paragraph; discriminate|exact Hin].
    Qed.

    Lemma para_stops_at_list f k ns l setext : (k <= 3)%nat -> Forall (node_ok f) ns ->
      para_loop types setext (text_of (oforest k ns)) [l] 1%nat = ([l], 1%nat, false).
    Proof.
      intros Hk Hok. destruct ns as [|x r]; [reflexivity|]. rewrite forest_head. destruct x as [c body kids]. inversion Hok as [|? ? [_ Hwx] _]; subst.
      cbn [owf] in Hwx. apply andb_true_iff in Hwx as [Htx _]. destruct (title_facts c body Htx) as (_ & Hc & Hns & Hbc & _ & _).
      cbn [para_loop]. rewrite bline_iline, is_blank_iline by (clear -Hb; destruct Hb as [->|[->| ->]]; reflexivity). rewrite <- bline_iline.
      assert (A : any_interrupt types BK_ThematicBreak (bline k b pad c body :: map (embed_line (k + 1 + pad)) (oforest sub kids) ++ text_of (oforest k r)) = true).
      { unfold any_interrupt. apply existsb_exists. exists BK_List. split; [exact in_list_types|]. cbn [has_interrupt kind_eqb negb andb interrupts].
        apply bline_interrupts_paragraph; assumption. }
      rewrite A. reflexivity.
    Qed.
  End Item.

  Lemma dispatch_loop_nil rec n ln acc loose st : dispatch_loop types rec n [] ln acc loose st = (rev acc, loose, st).
  Proof. destruct n; reflexivity. Qed.

  (* ---- the content of an item: its title, then the list of its sub-items ---- *)
  Theorem level : forall f n, node_ok f n -> rec_ok (tokenize_block types f) n.
  Proof.
    induction f as [|f IH]; intros [c body kids] [Hd Hw]; [cbn [odepth] in Hd; lia|].
    intros ln st. pose proof Hw as Hw0. cbn [owf] in Hw. apply andb_true_iff in Hw as [Ht Hkids].
    destruct (title_facts c body Ht) as (PL & _).
    assert (Kok : Forall (node_ok f) kids).
    { apply Forall_forall. intros x Hx. rewrite forallb_forall in Hkids. split; [eapply odepth_kid; eassumption|apply Hkids; exact Hx]. }
    assert (Krec : Forall (rec_ok (tokenize_block types f)) kids).
    { apply Forall_forall. intros x Hx. apply IH. rewrite Forall_forall in Kok. apply Kok. exact Hx. }
    cbn [tokenize_block length dispatch_loop]. change (c :: body ++ [10]) with ((c :: body) ++ [10]).
    rewrite (try_types_title _ (c :: body) _ ln st PL (para_stops_at_list f sub kids _ _ Hsub Kok) types Hpar).
    cbn [skipn]. destruct kids as [|x r].
    - cbn [Outline.oforest flat_map text_of map dispatch_loop sublist rev app]. reflexivity.
    - pose proof (try_types_forest (tokenize_block types f) f sub (x :: r) (ln + nlines 1) st Hsub ltac:(discriminate) Kok Krec types Hlf) as TT.
      assert (El : length (oforest sub (x :: r)) = length (text_of (oforest sub (x :: r)))) by (unfold text_of; symmetry; apply map_length).
      destruct (text_of (oforest sub (x :: r))) as [|l0 lr] eqn:Et.
      { exfalso. pose proof (forest_longer f sub (x :: r) Kok) as G. rewrite El in G. cbn [length] in G. lia. }
      rewrite TT, El. cbn [length skipn]. rewrite skipn_all, dispatch_loop_nil. cbn [rev app sublist]. unfold nlines. cbn [Z.of_nat Pos.of_succ_nat]. reflexivity.
  Qed.

  (* ---- the list itself ---- *)
  Theorem outline_tokenizes f ns ln st : ns <> [] -> Forall (node_ok f) ns -> forall k, (k <= 3)%nat ->
    tokenize_block types (S f) (text_of (oforest k ns)) ln st = ([PList ln (oitems k ln ns)], false, st).
  Proof.
    intros Hne Hok k Hk.
    assert (Hrec : Forall (rec_ok (tokenize_block types f)) ns).
    { apply Forall_forall. intros x Hx. apply level. rewrite Forall_forall in Hok. apply Hok. exact Hx. }
    pose proof (try_types_forest (tokenize_block types f) f k ns ln st Hk Hne Hok Hrec types Hlf) as TT.
    cbn [tokenize_block].
    assert (El : length (oforest k ns) = length (text_of (oforest k ns))) by (unfold text_of; symmetry; apply map_length).
    destruct (text_of (oforest k ns)) as [|l0 lr] eqn:Et.
    { exfalso. pose proof (forest_longer f k ns Hok) as G. rewrite El in G. destruct ns; [contradiction|cbn [length] in G; lia]. }
    cbn [length dispatch_loop]. rewrite TT, El. cbn [length skipn]. rewrite skipn_all. reflexivity.
  Qed.
End OL.

(* ---- the token tree ---- *)
From Mistletoe Require Import Model.CoreTokens Model.Inline.
Section Tok.
  Variables (b : Z) (pad sub : nat).
  Variable span_types : list span_kind.
  Variable keep : bool.
  Variable fn : footnotes.
  Hypothesis Hquiet : forallb kind_quiet (removelast span_types) = true.

  Lemma tight_items k ns : existsb (fun t => match t with ListItem a _ => i_loose a | _ => false end) (map (otok b pad sub k) ns) = false.
  Proof. induction ns as [|[c body kids] r IH]; [reflexivity|]. cbn [map existsb otok i_loose orb]. exact IH. Qed.

  Lemma build_outline : forall f n k ln, (odepth n <= f)%nat -> owf n = true ->
    build span_types keep fn (opre b pad sub k ln n) = Some (otok b pad sub k n).
  Proof.
    induction f as [|f IH]; intros [c body kids] k ln Hd Hw; [cbn [odepth] in Hd; lia|].
    cbn [owf] in Hw. apply andb_true_iff in Hw as [Ht Hkids]. apply andb_true_iff in Ht as [Hpl _]. apply plain_line_reflect in Hpl.
    assert (Items : forall ns z, (forall x, In x ns -> (odepth x <= f)%nat /\ owf x = true) ->
              flat_map (fun e => match build span_types keep fn e with Some t => [t] | None => [] end) (oitems b pad sub sub z ns) = map (otok b pad sub sub) ns).
    { induction ns as [|x r IHr]; intros z Hall; [reflexivity|]. cbn [Outline.oitems flat_map map].
      destruct (Hall x (or_introl eq_refl)) as [Hdx Hwx]. rewrite (IH x sub z Hdx Hwx). cbn [app]. f_equal. apply IHr. intros y Hy. apply Hall. right. exact Hy. }
    rewrite opre_eq. cbn [build flat_map map concat]. rewrite app_nil_r.
    change (c :: body ++ [10]) with ((c :: body) ++ [10]).
    destruct (strip_line (c :: body) Hpl) as [S _]. rewrite S.
    unfold inline. destruct Hpl as (Hp & _ & Hne & _). rewrite tokenize_inner_plain by assumption.
    cbn [otok app]. f_equal. f_equal. f_equal.
    unfold sublist. destruct kids as [|k0 kr]; [reflexivity|]. cbn [flat_map build app].
    rewrite Items by (intros x Hx; rewrite forallb_forall in Hkids; split; [eapply odepth_kid; eassumption|apply Hkids; exact Hx]).
    rewrite tight_items. destruct k0 as [c0 body0 kids0]. cbn [map otok i_leader slen length Z.of_nat Pos.of_succ_nat Z.eqb Pos.eqb]. reflexivity.
  Qed.

  Theorem outline_tokens types f ns ln st k :
    bullet_ok b -> (1 <= pad <= 4)%nat -> (sub <= 3)%nat -> (k <= 3)%nat -> list_first types = true -> In BK_Paragraph types ->
    ns <> [] -> Forall (node_ok f) ns ->
    make_tokens span_types keep fn (fst (fst (tokenize_block types (S f) (text_of (oforest b pad sub k ns)) ln st))) =
    [List None false (map (otok b pad sub k) ns)].
  Proof.
    intros Hb Hpad Hsub Hk Hlf Hpar Hne Hok.
    rewrite (outline_tokenizes b pad sub Hb Hpad Hsub types Hlf Hpar f ns ln st Hne Hok k Hk). cbn [fst]. unfold make_tokens. cbn [flat_map build app].
    assert (Items : forall ns z, Forall (node_ok f) ns ->
              flat_map (fun e => match build span_types keep fn e with Some t => [t] | None => [] end) (oitems b pad sub k z ns) = map (otok b pad sub k) ns).
    { clear -Hquiet. intros ns z H. revert z. induction H as [|x r [Hd Hw] _ IHr]; intros z; [reflexivity|]. cbn [Outline.oitems flat_map map].
      rewrite (build_outline f x k z Hd Hw). cbn [app]. f_equal. apply IHr. }
    rewrite Items by exact Hok. rewrite tight_items.
    destruct ns as [|[c0 body0 kids0] r]; [contradiction|]. cbn [map otok i_leader slen length Z.of_nat Pos.of_succ_nat Z.eqb Pos.eqb]. reflexivity.
  Qed.
End Tok.
