(* C19: what TocRenderer collects, in which order, with which text. *)
From Coq Require Import ZArith List Bool Lia.
From Mistletoe Require Import Base.Sx Base.PyStr Model.Fillers Model.Tree Gen.GenEscapes
     Model.HtmlRenderer Model.Contrib Proofs.HtmlSafe.
Import ListNotations.
Local Open Scope Z_scope.

Definition is_heading (t : tok) : bool :=
  match t with Heading _ _ _ | SetextHeading _ _ _ => true | _ => false end.

(* document order: a node, then its header row (tables), then its children *)
Fixpoint preorder (t : tok) : list tok :=
  let all := flat_map preorder in
  t :: match t with
       | Strong _ ch | Emphasis _ ch | Strikethrough ch | Image _ ch | Link _ ch | AutoLink _ _ ch
       | EscapeSequence ch | Heading _ _ ch | SetextHeading _ _ ch | Quote ch | Paragraph ch
       | List _ _ ch | ListItem _ ch | TableRow _ ch | TableCell _ ch | Document ch => all ch
       | Table _ h ch => match h with Some h' => preorder h' | None => [] end ++ all ch
       | _ => []
       end.

Definition doc_order_headings (t : tok) : list tok := filter is_heading (preorder t).

(* headings occur only where block content is allowed: never below a heading
   or inside an image description (true of every parsed tree: wf_shape) *)
Definition no_heading_below (t : tok) : bool :=
  forallb (fun n => negb (is_heading n)) (preorder t).
Fixpoint headings_ok (t : tok) : bool :=
  let all := forallb headings_ok in
  match t with
  | Heading _ _ ch | SetextHeading _ _ ch | Image _ ch => forallb no_heading_below ch
  | Strong _ ch | Emphasis _ ch | Strikethrough ch | Link _ ch | AutoLink _ _ ch | EscapeSequence ch
  | Quote ch | Paragraph ch | List _ _ ch | ListItem _ ch | TableRow _ ch | TableCell _ ch | Document ch => all ch
  | Table _ h ch => match h with Some h' => headings_ok h' | None => true end && all ch
  | _ => true
  end.

Lemma filter_flat_map {A B} (p : B -> bool) (f : A -> list B) l :
  filter p (flat_map f l) = flat_map (fun x => filter p (f x)) l.
Proof. induction l as [|x l IH]; cbn; [reflexivity|]. now rewrite filter_app, IH. Qed.

Lemma filter_none {A} (p : A -> bool) l : forallb (fun x => negb (p x)) l = true -> filter p l = [].
Proof.
  induction l as [|x l IH]; cbn; intros H; [reflexivity|].
  apply andb_true_iff in H. destruct H as [H1 H2]. apply negb_true_iff in H1. rewrite H1. auto.
Qed.

Lemma flat_map_nil {A B} (f : A -> list B) l : Forall (fun x => f x = []) l -> flat_map f l = [].
Proof. induction 1 as [|x l Hx Hl IH]; cbn; [reflexivity|]. now rewrite Hx, IH. Qed.

Lemma flat_map_ext_in' {A B} (f g : A -> list B) l : Forall (fun x => f x = g x) l -> flat_map f l = flat_map g l.
Proof. induction 1; cbn; congruence. Qed.

Lemma no_heading_render_order t : no_heading_below t = true -> headings_in_render_order t = [].
Proof.
  induction t using tok_ind'; intros Hn; unfold no_heading_below in Hn; cbn [preorder forallb is_heading negb andb] in Hn;
    cbn [headings_in_render_order]; try reflexivity; try discriminate;
    repeat match goal with H : AllP _ _ |- _ => unfold AllP in H end;
    try (rewrite forallb_flat_map in Hn; apply flat_map_nil; apply Forall_forall; intros x Hx;
         rewrite Forall_forall in H; apply H; auto; rewrite forallb_forall in Hn; apply (Hn x Hx)).
  - (* Table *)
    rewrite forallb_app in Hn. apply andb_true_iff in Hn. destruct Hn as [Hh Hc].
    assert (E1 : match h with Some h' => headings_in_render_order h' | None => [] end = []).
    { destruct h as [h'|]; [apply (H h' eq_refl); exact Hh|reflexivity]. }
    rewrite E1. cbn [app]. rewrite forallb_flat_map in Hc. apply flat_map_nil. apply Forall_forall. intros x Hx.
    rewrite Forall_forall in H0. apply H0; auto. rewrite forallb_forall in Hc. apply (Hc x Hx).
Qed.

Lemma no_heading_filter t : no_heading_below t = true -> filter is_heading (preorder t) = [].
Proof. intros H. apply filter_none. exact H. Qed.

Theorem render_order_is_document_order t :
  headings_ok t = true -> headings_in_render_order t = doc_order_headings t.
Proof.
  unfold doc_order_headings.
  induction t using tok_ind'; intros Hk; cbn [headings_ok] in Hk;
    cbn [headings_in_render_order preorder filter is_heading]; try reflexivity;
    repeat match goal with H : AllP _ _ |- _ => unfold AllP in H end;
    try (rewrite filter_flat_map; apply flat_map_ext_in'; apply Forall_forall; intros x Hx;
         rewrite Forall_forall in H; apply H; auto; rewrite forallb_forall in Hk; apply (Hk x Hx)).
  - (* Image: nothing below is a heading *)
    rewrite filter_flat_map. symmetry. apply flat_map_nil. apply Forall_forall. intros x Hx.
    apply no_heading_filter. rewrite forallb_forall in Hk. apply (Hk x Hx).
  - (* Heading *)
    rewrite filter_flat_map.
    assert (E1 : flat_map headings_in_render_order ch = []).
    { apply flat_map_nil. apply Forall_forall. intros x Hx. apply no_heading_render_order.
      rewrite forallb_forall in Hk. apply (Hk x Hx). }
    assert (E2 : flat_map (fun x => filter is_heading (preorder x)) ch = []).
    { apply flat_map_nil. apply Forall_forall. intros x Hx. apply no_heading_filter.
      rewrite forallb_forall in Hk. apply (Hk x Hx). }
    now rewrite E1, E2.
  - rewrite filter_flat_map.
    assert (E1 : flat_map headings_in_render_order ch = []).
    { apply flat_map_nil. apply Forall_forall. intros x Hx. apply no_heading_render_order.
      rewrite forallb_forall in Hk. apply (Hk x Hx). }
    assert (E2 : flat_map (fun x => filter is_heading (preorder x)) ch = []).
    { apply flat_map_nil. apply Forall_forall. intros x Hx. apply no_heading_filter.
      rewrite forallb_forall in Hk. apply (Hk x Hx). }
    now rewrite E1, E2.
  - (* Table *)
    apply andb_true_iff in Hk. destruct Hk as [Hh Hk].
    rewrite filter_app, filter_flat_map. f_equal.
    + destruct h as [h'|]; [apply (H h' eq_refl Hh)|reflexivity].
    + apply flat_map_ext_in'. apply Forall_forall. intros x Hx. rewrite Forall_forall in H0. apply H0; auto.
      rewrite forallb_forall in Hk. apply (Hk x Hx).
Qed.

(* ---- what is collected ---- *)
Theorem toc_collect cfg filters o t :
  headings_ok t = true ->
  toc_headings cfg filters o t =
  filter (qualifies cfg filters) (map (toc_entry o) (doc_order_headings t)).
Proof. intros H. unfold toc_headings. now rewrite render_order_is_document_order. Qed.

Theorem toc_entries_qualify cfg filters o t e :
  In e (toc_headings cfg filters o t) ->
  (toc_omit_title cfg = true -> fst e <> 1) /\ fst e <= toc_depth cfg /\ forall f, In f filters -> f (snd e) = false.
Proof.
  unfold toc_headings. intros H. apply filter_In in H. destruct H as [_ H]. unfold qualifies in H.
  apply negb_true_iff in H. apply orb_false_iff in H. destruct H as [H H3].
  apply orb_false_iff in H. destruct H as [H1 H2]. repeat split.
  - intros Ho E. rewrite Ho, E in H1. discriminate.
  - apply Z.gtb_ltb in H2 || idtac. destruct (Z.gtb_spec (fst e) (toc_depth cfg)); [discriminate|lia].
  - intros f Hf. destruct (f (snd e)) eqn:E; [|reflexivity].
    assert (existsb (fun f => f (snd e)) filters = true) by (apply existsb_exists; eauto). congruence.
Qed.

(* ---- the entry carries the heading's plain text ---- *)
Definition plain_char (c : Z) : bool := negb (mem c [38; 60; 62; 34; 39; 10]).
Definition plain_title (s : str) : bool := forallb plain_char s.

Lemma strip_tags_copy s : forall f rest,
  forallb (fun c => negb (c =? 60)) s = true ->
  strip_tags_fuel (length s + f) (s ++ rest) = s ++ strip_tags_fuel f rest.
Proof.
  induction s as [|c s IH]; intros f rest H; [reflexivity|].
  cbn [forallb] in H. apply andb_true_iff in H. destruct H as [Hc Hs]. apply negb_true_iff in Hc.
  cbn [length Nat.add app strip_tags_fuel]. rewrite Hc. f_equal. now apply IH.
Qed.


Definition sources_ok : bool := forallb (fun c => mem c [38; 60; 62; 34; 39]) (sources html_text_chain).
Definition raw_text_filler_ok : bool :=
  match html_raw_text with Fillers.FEscapeUrl => false | _ => true end.
Lemma toc_side_conditions : sources_ok && raw_text_filler_ok = true.
Proof. vm_compute. reflexivity. Qed.

Lemma plain_not_source s c : plain_title s = true -> In c s -> ~ In c (sources html_text_chain).
Proof.
  intros Hp Hc Hs. pose proof toc_side_conditions as H. apply andb_true_iff in H. destruct H as [H _].
  unfold sources_ok in H. rewrite forallb_forall in H. specialize (H c Hs).
  unfold plain_title in Hp. rewrite forallb_forall in Hp. specialize (Hp c Hc).
  unfold plain_char in Hp. apply negb_true_iff in Hp.
  unfold mem in *. apply existsb_exists in H. destruct H as (x & Hx & E). apply Z.eqb_eq in E. subst x.
  assert (existsb (Z.eqb c) [38; 60; 62; 34; 39; 10] = true).
  { apply existsb_exists. exists c. split; [cbn in *; tauto|apply Z.eqb_refl]. }
  congruence.
Qed.

Lemma flat_map_id (g : Z -> str) s : (forall c, In c s -> g c = [c]) -> flat_map g s = s.
Proof.
  induction s as [|c s IH]; intros H; [reflexivity|]. cbn. rewrite H by (left; reflexivity).
  cbn. f_equal. apply IH. intros; apply H; right; auto.
Qed.

Lemma fill_plain o s : plain_title s = true -> fill o html_raw_text s = s.
Proof.
  intros Hp. pose proof toc_side_conditions as H. apply andb_true_iff in H. destruct H as [_ H].
  unfold raw_text_filler_ok in H. destruct html_raw_text; cbn [fill]; try discriminate; try reflexivity.
  - unfold html_escape. apply flat_map_id. intros c Hc.
    unfold plain_title in Hp. rewrite forallb_forall in Hp. specialize (Hp c Hc).
    unfold plain_char, mem in Hp. cbn [existsb] in Hp. apply negb_true_iff in Hp.
    repeat (apply orb_false_iff in Hp; destruct Hp as [?H Hp]).
    unfold html_escape_char. rewrite H0, H1, H2, H3, H4. reflexivity.
  - unfold escape_html_text. rewrite apply_chain_flat. apply flat_map_id. intros c Hc.
    apply cmap_other. now apply (plain_not_source s).
Qed.

Theorem toc_entry_plain o l c s :
  1 <= l <= 6 -> plain_title s = true ->
  toc_entry o (Heading l c [RawText s]) = (l, s) /\ toc_entry o (SetextHeading l c [RawText s]) = (l, s).
Proof.
  intros Hl Hp.
  assert (Hno : forallb (fun c => negb (c =? 60)) s = true).
  { unfold plain_title in Hp. rewrite forallb_forall in *. intros x Hx. specialize (Hp x Hx).
    unfold plain_char, mem in Hp. cbn [existsb] in Hp. apply negb_true_iff in Hp.
    repeat (apply orb_false_iff in Hp; destruct Hp as [?H Hp]). now rewrite H0. }
  assert (E : forall tagd, In tagd [49; 50; 51; 52; 53; 54] ->
     strip_tags ([60; 104; tagd; 62] ++ s ++ [60; 47; 104; tagd; 62]) = s).
  { intros d Hd. unfold strip_tags.
    assert (Hd10 : (d =? 10) = false) by (cbn in Hd; intuition; subst; reflexivity).
    assert (Hd62 : (d =? 62) = false) by (cbn in Hd; intuition; subst; reflexivity).
    match goal with |- strip_tags_fuel ?n _ = _ => remember n as fuel eqn:Ef end.
    assert (Hf : exists f', fuel = S (length s + S (S f'))).
    { exists 7%nat. subst fuel. rewrite !app_length. cbn. lia. }
    destruct Hf as (f' & ->).
    cbn [app strip_tags_fuel]. change (60 =? 60) with true. cbv iota.
    change (104 =? 10) with false. cbv iota. cbn [find_close]. rewrite Hd62, Hd10.
    change (62 =? 62) with true. cbv iota.
    rewrite strip_tags_copy by exact Hno.
    cbn [strip_tags_fuel]. change (60 =? 60) with true. cbv iota. change (47 =? 10) with false. cbv iota.
    cbn [find_close]. change (104 =? 62) with false. change (104 =? 10) with false. cbv iota.
    rewrite Hd62, Hd10. change (62 =? 62) with true. cbv iota.
    destruct f'; cbn; now rewrite app_nil_r. }
  assert (Hl6 : l = 1 \/ l = 2 \/ l = 3 \/ l = 4 \/ l = 5 \/ l = 6) by lia.
  unfold toc_entry. cbn [heading_level render flat_map]. rewrite app_nil_r.
  unfold wrap, serialize. cbn [flat_map ser_item ser_attrs app]. rewrite !app_nil_r. rewrite fill_plain by exact Hp.
  destruct Hl6 as [H|[H|[H|[H|[H|H]]]]]; subst l;
    (split; f_equal; apply (E _); cbn; tauto).
Qed.
