(* C03 / C16: ONE code span inside a sentence.  core_tokens.code_pattern - a negative look-behind, a greedy run of
   escaped backslashes, the opening run of backticks (group 1), a negative look-ahead, the content (group 2, lazy),
   a negative look-behind, the BACK-REFERENCE to the opening run, a negative look-ahead - evaluated exactly on
   pre `code` post  (one backtick on each side, the content of any length without backtick). *)
From Coq Require Import ZArith List Bool Lia.
From Mistletoe Require Import Base.Sx Base.PyStr Base.PyText Gen.GenTables Gen.GenRegex Gen.GenConfig Re.ReMatch
     Model.SpanTokenizer Model.Tree Model.Unescape Model.CoreTokens Model.Inline Model.Block Model.Build Model.Parser Model.HtmlRenderer
     Proofs.ReFirst Proofs.ReNeeds Proofs.ReExact Proofs.HeadingLaw Proofs.Prose Proofs.PlainProse Proofs.ListLaw Proofs.ProseLines
     Proofs.EmphSimple Proofs.EmphSentence Proofs.RefSentence Proofs.LinkSentence.
Import ListNotations.
Local Open Scope Z_scope.

Definition BQ : re := Lit 96.
Definition CODE_TAIL : re := Seq (Look false true 1%nat BQ) (Seq (Bref 1%nat) (Look true true 0%nat BQ)).
Lemma code_shape :
  re_core_tokens_code_pattern =
    Seq (Look false true 1%nat (Set_ false [CLit 92; CLit 96]))
        (Seq (Rep true 0%nat None (Seq (Lit 92) (Lit 92)))
             (Seq (Grp 1%nat (Rep true 1%nat None BQ)) (Seq (Look true true 0%nat BQ) (Seq (Grp 2%nat (Rep false 1%nat None Any)) CODE_TAIL)))) /\
  fl_core_tokens_code_pattern = mkFlags true false.
Proof. split; reflexivity. Qed.

Lemma eat_run : forall (r : str) s rest, aft s = r ++ rest -> eat r s = Some (adv_run s r rest).
Proof.
  induction r as [|c r IH]; intros s rest Ha.
  - cbn [app] in Ha. cbn [eat]. rewrite <- Ha, adv_run_nil. reflexivity.
  - cbn [app] in Ha. cbn [eat]. rewrite Ha, Z.eqb_refl. rewrite (IH (advance s c (r ++ rest)) rest eq_refl). rewrite adv_run_cons. reflexivity.
Qed.

Lemma rev_repeat_z (x : Z) n : rev (repeat x n) = repeat x n.
Proof.
  induction n as [|n IH]; [reflexivity|]. cbn [repeat rev]. rewrite IH. clear IH.
  induction n as [|n IH]; [reflexivity|]. cbn [repeat app]. rewrite IH. reflexivity.
Qed.

Section CodeMatch.
  Let fl := mkFlags true false.
  Variables (pre code post : str) (n : nat).      (* the span is delimited by n + 1 backticks *)
  Hypothesis Hprev : match rev pre with [] => True | x :: _ => x <> 92 /\ x <> 96 end.
  Hypothesis Hne : code <> [].
  Hypothesis Hcode : mem 96 code = false.
  Hypothesis Hpost : hd 0 post <> 96.

  Let a := slen pre.
  Let bq := repeat 96 (S n).
  Let N := Z.of_nat (S n).
  Definition cs0 : mst := mkMst (rev pre) (bq ++ code ++ bq ++ post) a [].
  Definition cs_end : mst :=
    mkMst (rev bq ++ rev code ++ rev bq ++ rev pre) post (a + N + slen code + N) [(2%nat, (a + N, a + N + slen code)); (1%nat, (a, a + N))].

  Lemma code_hd : exists c t, code = c :: t /\ (c =? 96) = false.
  Proof.
    assert (Hx : exists c t, code = c :: t) by (destruct code as [|c t]; [contradiction|exists c, t; reflexivity]).
    destruct Hx as (c & t & E). exists c, t. split; [exact E|]. pose proof Hcode as M. rewrite E in M. unfold mem in M. cbn [existsb] in M.
    apply orb_false_iff in M as [M _]. rewrite Z.eqb_sym. exact M.
  Qed.

  Lemma m_rep g mn mx r s k : m fl (Rep g mn mx r) s k = loop (m fl r) g mn mx k (repeat 0 mn ++ 0 :: aft s) 0%nat s.
  Proof. reflexivity. Qed.

  Lemma all_any (l : str) : forallb (char_ok fl Any) l = true.
  Proof. induction l as [|c l IH]; [reflexivity|]. cbn [forallb char_ok dotall fl orb]. exact IH. Qed.

  Lemma bq_len : slen bq = N.  Proof. unfold bq, N, slen. rewrite repeat_length. reflexivity. Qed.

  (* the text of the first group, seen from a state j characters into the content *)
  Lemma seg_open (s' : mst) (X : str) : bef s' = rev X ++ rev bq ++ rev pre -> pos s' = a + N + slen X ->
    segment s' a (a + N) = bq.
  Proof.
    intros Hb Hp. unfold segment. rewrite Hp, Hb.
    replace (a + N + slen X - a) with (Z.of_nat (length (rev X ++ rev bq))) by (rewrite app_length, !rev_length; unfold bq, N, slen; rewrite repeat_length; lia).
    rewrite Nat2Z.id. rewrite app_assoc. rewrite firstn_app, Nat.sub_diag, firstn_all. cbn [firstn]. rewrite app_nil_r.
    rewrite rev_app_distr, !rev_involutive.
    replace (a + N - a) with (Z.of_nat (length bq)) by (unfold bq, N; rewrite repeat_length; lia).
    rewrite Nat2Z.id, firstn_app, Nat.sub_diag, firstn_all. cbn [firstn]. apply app_nil_r.
  Qed.

  (* the tail  (?<!`) \1 (?!`)  after j characters of the content: fails inside the content, succeeds at its end *)
  Lemma tail_inside (k : mst -> option mst) j (s1 : mst) : (j < length code)%nat ->
    bef s1 = rev bq ++ rev pre -> aft s1 = code ++ bq ++ post -> pos s1 = a + N -> grp s1 = [(1%nat, (a, a + N))] ->
    m fl CODE_TAIL (set_grp 2 (a + N) (pos (adv_run s1 (firstn j code) (skipn j code ++ bq ++ post))) (adv_run s1 (firstn j code) (skipn j code ++ bq ++ post))) k = None.
  Proof.
    intros Hj Hb Ha Hp Hg.
    set (s2 := adv_run s1 (firstn j code) (skipn j code ++ bq ++ post)).
    set (s3 := set_grp 2 (a + N) (pos s2) s2).
    unfold CODE_TAIL. rewrite m_seq.
    (* whatever the look-behind says, the back-reference fails: the next character is not a backtick *)
    assert (Hnext : exists c t, skipn j code = c :: t /\ (96 =? c) = false).
    { destruct (skipn j code) as [|c t] eqn:E.
      - apply (f_equal (@length Z)) in E. rewrite skipn_length in E. cbn [length] in E. lia.
      - exists c, t. split; [reflexivity|]. assert (Hin : In c code) by (rewrite <- (firstn_skipn j code), E; apply in_or_app; right; left; reflexivity).
        destruct (96 =? c) eqn:Ec; [|reflexivity]. apply Z.eqb_eq in Ec. subst c. exfalso.
        assert (T : mem 96 code = true) by (unfold mem; apply existsb_exists; exists 96; split; [exact Hin|reflexivity]). rewrite T in Hcode. discriminate. }
    destruct Hnext as (c & t & Esk & Hc).
    assert (Bf : forall s', bef s' = bef s3 -> aft s' = aft s3 -> pos s' = pos s3 -> grp s' = grp s3 -> m fl (Seq (Bref 1) (Look true true 0 BQ)) s' k = None).
    { intros s' B1 B2 B3 B4. rewrite m_seq. cbn [m]. rewrite B4. unfold s3, s2, set_grp, adv_run. cbn [grp lookup_grp Nat.eqb]. rewrite Hg. cbn [lookup_grp Nat.eqb].
      assert (Eseg : segment s' a (a + N) = bq).
      { apply (seg_open s' (firstn j code)).
        - rewrite B1. unfold s3, s2, set_grp, adv_run. cbn [bef]. rewrite Hb. reflexivity.
        - rewrite B3. unfold s3, s2, set_grp, adv_run. cbn [pos]. rewrite Hp. reflexivity. }
      rewrite Eseg. unfold bq. cbn [repeat eat]. rewrite B2. unfold s3, s2, set_grp, adv_run. cbn [aft]. rewrite Esk. cbn [app]. rewrite Hc. reflexivity. }
    cbn [m]. destruct (retreat 1 s3) as [s0'|]; [|apply Bf; reflexivity].
    destruct (m fl BQ s0' (fun s' => if pos s' =? pos s3 then Some s' else None)); [reflexivity|]. apply Bf; reflexivity.
  Qed.

  Lemma code_last : exists t x, code = t ++ [x] /\ (x =? 96) = false.
  Proof.
    destruct (exists_last Hne) as (t & x & E). exists t, x. split; [exact E|].
    destruct (x =? 96) eqn:Ex; [|reflexivity]. apply Z.eqb_eq in Ex. subst x. exfalso.
    assert (T : mem 96 code = true) by (unfold mem; apply existsb_exists; exists 96; split; [rewrite E; apply in_or_app; right; left; reflexivity|reflexivity]).
    rewrite T in Hcode. discriminate.
  Qed.

  Lemma tail_end (k : mst -> option mst) v (s1 : mst) :
    bef s1 = rev bq ++ rev pre -> aft s1 = code ++ bq ++ post -> pos s1 = a + N -> grp s1 = [(1%nat, (a, a + N))] ->
    k cs_end = Some v ->
    m fl CODE_TAIL (set_grp 2 (a + N) (pos (adv_run s1 code (bq ++ post))) (adv_run s1 code (bq ++ post))) k = Some v.
  Proof.
    intros Hb Ha Hp Hg Hk.
    set (s3 := set_grp 2 (a + N) (pos (adv_run s1 code (bq ++ post))) (adv_run s1 code (bq ++ post))).
    assert (E3 : s3 = mkMst (rev code ++ rev bq ++ rev pre) (bq ++ post) (a + N + slen code) [(2%nat, (a + N, a + N + slen code)); (1%nat, (a, a + N))]).
    { unfold s3, set_grp, adv_run. cbn [bef aft pos grp]. rewrite Hb, Hp, Hg. reflexivity. }
    destruct code_last as (t & x & Ec & Hx).
    assert (Er : rev code = x :: rev t) by (rewrite Ec, rev_app_distr; reflexivity).
    unfold CODE_TAIL, BQ. rewrite m_seq.
    (* (?<!`) : the last character of the content is not a backtick *)
    assert (L1 : forall k', m fl (Look false true 1 (Lit 96)) s3 k' = k' s3).
    { intros k'. rewrite E3. cbn [m retreat bef]. rewrite Er. cbn [app aft pos grp char_ok]. rewrite Hx. reflexivity. }
    rewrite L1. rewrite m_seq.
    (* the back-reference eats the closing run *)
    assert (Eseg : segment s3 a (a + N) = bq).
    { apply (seg_open s3 code); rewrite E3; reflexivity. }
    assert (L2 : forall k', m fl (Bref 1) s3 k' = k' (adv_run s3 bq post)).
    { intros k'. cbn [m]. rewrite E3 at 1. cbn [grp lookup_grp Nat.eqb]. rewrite Eseg.
      rewrite (eat_run bq s3 post) by (rewrite E3; reflexivity). reflexivity. }
    rewrite L2.
    (* (?!`) *)
    assert (Eend : adv_run s3 bq post = cs_end).
    { rewrite E3. unfold adv_run, cs_end. cbn [bef aft pos grp]. rewrite bq_len. reflexivity. }
    rewrite Eend. cbn [m]. unfold cs_end at 1. cbn [aft].
    destruct post as [|p0 pt]; [exact Hk|]. cbn [hd] in Hpost. apply Z.eqb_neq in Hpost. cbn [char_ok]. rewrite Hpost. exact Hk.
  Qed.

  (* the whole pattern at the opening backtick *)
  Lemma code_match (k : mst -> option mst) v : k cs_end = Some v ->
    m fl re_core_tokens_code_pattern cs0 k = Some v.
  Proof.
    intros Hk. destruct code_shape as [-> _].
    destruct code_hd as (c & t & Ec & Hc).
    rewrite m_seq.
    (* (?<!\\|`) *)
    assert (L1 : forall k', m fl (Look false true 1 (Set_ false [CLit 92; CLit 96])) cs0 k' = k' cs0).
    { intros k'. cbn [m retreat]. unfold cs0 at 1 2. cbn [bef]. destruct (rev pre) as [|x r] eqn:Er; [reflexivity|].
      destruct Hprev as [H1 H2]. apply Z.eqb_neq in H1, H2.
      cbn [aft char_ok existsb citem_match xorb]. rewrite H1, H2. reflexivity. }
    rewrite L1.
    (* (?:\\\\)* *)
    rewrite m_seq.
    assert (L2 : forall k', m fl (Rep true 0 None (Seq (Lit 92) (Lit 92))) cs0 k' = k' cs0).
    { intros k'. cbn [m repeat app]. unfold cs0 at 1. cbn [aft]. cbn [loop Nat.ltb Nat.leb under]. cbn [m]. unfold cs0 at 1. unfold bq. cbn [repeat app aft char_ok Z.eqb Pos.eqb orelse]. reflexivity. }
    rewrite L2.
    (* (`+) *)
    rewrite m_seq, m_grp, m_rep.
    apply greedy_run with (run := bq) (rest := code ++ bq ++ post).
    - reflexivity.
    - rewrite Ec. cbn [app stops BQ char_ok]. exact Hc.
    - reflexivity.
    - unfold bq. apply forallb_forall. intros x Hx. apply repeat_spec in Hx. subst x. reflexivity.
    - unfold bq. rewrite repeat_length. lia.
    - intros x Hx. discriminate.
    - cbn [length repeat app]. unfold cs0. cbn [aft]. rewrite app_length. lia.
    - set (s1 := set_grp 1 (pos cs0) (pos (adv_run cs0 bq (code ++ bq ++ post))) (adv_run cs0 bq (code ++ bq ++ post))).
      assert (Hb1 : bef s1 = rev bq ++ rev pre) by reflexivity.
      assert (Ha1 : aft s1 = code ++ bq ++ post) by reflexivity.
      assert (Hp1 : pos s1 = a + N) by (unfold s1, set_grp, adv_run, cs0; cbn [pos]; rewrite bq_len; reflexivity).
      assert (Hg1 : grp s1 = [(1%nat, (a, a + N))]) by (unfold s1, set_grp, adv_run, cs0; cbn [pos grp]; rewrite bq_len; reflexivity).
      (* (?!`) *)
      rewrite m_seq.
      assert (L3 : forall k', m fl (Look true true 0 BQ) s1 k' = k' s1).
      { intros k'. unfold BQ. cbn [m]. rewrite Ha1, Ec. cbn [app char_ok]. rewrite Hc. reflexivity. }
      rewrite L3.
      (* (.+?) *)
      rewrite m_seq, m_grp, m_rep.
      apply (lazy_run fl Any 1 None _ v (bq ++ post) eq_refl code s1 0%nat _ tt).
      + exact Ha1.
      + apply all_any.
      + intros x Hx. discriminate.
      + cbn [repeat app length]. rewrite Ha1, app_length. cbn [length]. lia.
      + intros j Hj _. rewrite Hp1. apply tail_inside; assumption.
      + destruct code; [contradiction|cbn [length]; lia].
      + rewrite Hp1. apply tail_end; assumption.
      + reflexivity.
  Qed.
End CodeMatch.

Lemma code_nomatch c : (c =? 92) = false -> (c =? 96) = false -> nomatch fl_core_tokens_code_pattern re_core_tokens_code_pattern c = true.
Proof.
  intros H1 H2. destruct code_shape as [-> ->]. unfold nomatch, BQ, CODE_TAIL. cbn [fa fst snd char_ok]. rewrite H1, H2. reflexivity.
Qed.

(* pattern.search skips a prefix none of whose characters can begin a match *)
Lemma search_skip fl r : forall (p : str) fuel s rest, aft s = p ++ rest -> (forall c, In c p -> nomatch fl r c = true) -> (length p <= length fuel)%nat ->
  search_from fl r fuel false s = search_from fl r (skipn (length p) fuel) false (adv_run s p rest).
Proof.
  induction p as [|c p IH]; intros fuel s rest Ha Hn Hf.
  - cbn [length skipn]. cbn [app] in Ha. rewrite <- Ha, adv_run_nil. reflexivity.
  - destruct fuel as [|x fuel]; [cbn [length] in Hf; lia|]. cbn [length skipn]. cbn [app] in Ha.
    cbn [search_from]. rewrite (nomatch_sound fl r c (mkMst (bef s) (aft s) (pos s) []) _ (p ++ rest)); [|apply Hn; left; reflexivity|exact Ha].
    rewrite Ha. rewrite (IH fuel (advance s c (p ++ rest)) rest); [|reflexivity|intros d Hd; apply Hn; right; exact Hd|cbn [length] in Hf; lia].
    rewrite adv_run_cons. reflexivity.
Qed.

(* ---- the scanner with a pending code match ---- *)
Definition not_at (cm : option (mst * mst)) (i : Z) : Prop := match cm with Some (c0, _) => i <> pos c0 | None => True end.

Lemma scan_plain_step_cm fuel s fn pre c post st cm : s = pre ++ c :: post -> inert_char c = true -> clean st -> not_at cm (slen pre) ->
  scan_loop (S fuel) s fn (slen pre) cm st = scan_loop fuel s fn (slen pre + 1) cm st.
Proof.
  intros Es Hc (Hr & He & Hi) Hcm. cbn [scan_loop].
  assert (Hlt : slen pre <? slen s = true) by (apply Z.ltb_lt; rewrite Es, slen_app; unfold slen; cbn [length]; lia).
  assert (Ec : char_at s (slen pre) = c) by (rewrite Es; apply char_at_mid).
  rewrite Hlt. cbn [negb].
  assert (Hat : match cm with Some (c0, _) => slen pre =? pos c0 | None => false end = false).
  { destruct cm as [[c0 c1]|]; [|reflexivity]. apply Z.eqb_neq. exact Hcm. }
  rewrite Hat, Ec.
  unfold inert_char, mem in Hc. cbn [existsb] in Hc. apply negb_true_iff in Hc. repeat (apply orb_false_iff in Hc; destruct Hc as [? Hc]).
  repeat match goal with X : (_ =? c) = false |- _ => rewrite Z.eqb_sym in X end.
  rewrite He, Hr. cbn [negb andb orb].
  repeat match goal with X : (c =? _) = false |- _ => rewrite X end. cbn [andb orb negb].
  destruct st. cbn in *. subst. reflexivity.
Qed.

Lemma scan_plain_seg_cm s fn cm : forall t fuel pre post st, s = pre ++ t ++ post -> forallb inert_char t = true -> clean st ->
  (forall j, slen pre <= j < slen pre + slen t -> not_at cm j) ->
  scan_loop (length t + fuel) s fn (slen pre) cm st = scan_loop fuel s fn (slen pre + slen t) cm st.
Proof.
  induction t as [|c t IH]; intros fuel pre post st Es Ht Hc Hcm.
  - cbn [length Nat.add]. unfold slen at 2. cbn [length Z.of_nat]. rewrite Z.add_0_r. reflexivity.
  - cbn [forallb] in Ht. apply andb_true_iff in Ht as [Hc0 Ht]. cbn [length Nat.add].
    rewrite (scan_plain_step_cm _ s fn pre c (t ++ post) st cm Es Hc0 Hc) by (apply Hcm; unfold slen; cbn [length]; lia).
    replace (slen pre + 1) with (slen (pre ++ [c])) by (rewrite slen_app; reflexivity).
    rewrite (IH fuel (pre ++ [c]) post st); [|rewrite Es, <- app_assoc; reflexivity|exact Ht|exact Hc|].
    + rewrite slen_app. f_equal. unfold slen. cbn [length]. lia.
    + intros j Hj. apply Hcm. rewrite slen_app in Hj. unfold slen in *. cbn [length] in *. lia.
Qed.

(* ---- the sentence  pre `code` post ---- *)
Definition code_text (t : str) : bool := forallb (fun c => negb (mem c triggers_r)) t.
Definition triggers_c : list Z := [92; 126; 60; 10; 36; 38; 123; 124].
Definition kind_quiet_c (kd : span_kind) : bool :=
  match kd with
  | SK_CoreTokens | SK_InlineCode | SK_RawText => true
  | _ => existsb (fun c => needs (fst (re_of kd)) c) triggers_c
  end.

Lemma code_text_no c t : mem c triggers_r = true -> code_text t = true -> mem c t = false.
Proof.
  intros Hc Ht. induction t as [|x r IH]; [reflexivity|]. cbn [code_text forallb] in Ht. apply andb_true_iff in Ht as [Hx Hr].
  unfold mem. cbn [existsb]. fold (mem c r). rewrite (IH Hr), orb_false_r. apply negb_true_iff in Hx.
  destruct (c =? x) eqn:E; [|reflexivity]. apply Z.eqb_eq in E. subst x. rewrite Hc in Hx. discriminate.
Qed.

Section CodeS.
  Variables (pre code post : str) (n : nat) (fn : footnotes).      (* n + 1 backticks on each side *)
  Hypothesis Hpre : plain_text pre = true.
  Hypothesis Hpost : plain_text post = true.
  Hypothesis Hcode : code_text code = true.
  Hypothesis Hne : code <> [].

  Let bq := repeat 96 (S n).
  Let N := Z.of_nat (S n).
  Let s := pre ++ bq ++ code ++ bq ++ post.
  Let a := slen pre.
  Let e := a + N + slen code + N.

  Definition c0 : mst := adv_run (mkMst [] s 0 []) pre (bq ++ code ++ bq ++ post).
  Definition c1 : mst := cs_end pre code post n.

  Lemma c_bq : slen bq = N.  Proof. unfold bq, N, slen. rewrite repeat_length. reflexivity. Qed.
  Lemma c_len : slen s = e + slen post.
  Proof. unfold s, e, a. rewrite !slen_app, c_bq. lia. Qed.

  Lemma c_prev : match rev pre with [] => True | x :: _ => x <> 92 /\ x <> 96 end.
  Proof.
    destruct (rev pre) as [|x r] eqn:Er; [exact I|].
    assert (Hin : In x pre) by (apply in_rev; rewrite Er; left; reflexivity).
    assert (H92 : mem 92 pre = false) by (apply plain_no; [reflexivity|exact Hpre]).
    assert (H96 : mem 96 pre = false) by (apply plain_no; [reflexivity|exact Hpre]).
    split; intros ->.
    - assert (T : mem 92 pre = true) by (unfold mem; apply existsb_exists; exists 92; split; [exact Hin|reflexivity]). rewrite T in H92. discriminate.
    - assert (T : mem 96 pre = true) by (unfold mem; apply existsb_exists; exists 96; split; [exact Hin|reflexivity]). rewrite T in H96. discriminate.
  Qed.

  Lemma c_code96 : mem 96 code = false.
  Proof. apply code_text_no; [reflexivity|exact Hcode]. Qed.

  Lemma c_post96 : hd 0 post <> 96.
  Proof.
    destruct post as [|x r] eqn:Ep; [cbn; lia|]. cbn [hd]. intros ->.
    pose proof (plain_no 96 (96 :: r) eq_refl Hpost) as T. unfold mem in T. cbn [existsb Z.eqb Pos.eqb orb] in T. discriminate.
  Qed.

  Lemma code_found : code_search s 0 = Some (c0, c1).
  Proof.
    unfold code_search, search, seek. change (take 0 s) with (@nil Z). change (drop 0 s) with s. cbn [rev aft].
    rewrite (search_skip _ _ pre s (mkMst [] s 0 []) (bq ++ code ++ bq ++ post)); [|reflexivity| |unfold s; rewrite app_length; lia].
    2:{ intros c Hc. apply code_nomatch.
        - pose proof (plain_no 92 pre eq_refl Hpre) as T. destruct (c =? 92) eqn:E; [|reflexivity]. apply Z.eqb_eq in E. subst c.
          assert (T' : mem 92 pre = true) by (unfold mem; apply existsb_exists; exists 92; split; [exact Hc|reflexivity]). rewrite T' in T. discriminate.
        - pose proof (plain_no 96 pre eq_refl Hpre) as T. destruct (c =? 96) eqn:E; [|reflexivity]. apply Z.eqb_eq in E. subst c.
          assert (T' : mem 96 pre = true) by (unfold mem; apply existsb_exists; exists 96; split; [exact Hc|reflexivity]). rewrite T' in T. discriminate. }
    fold c0.
    assert (E0 : mkMst (bef c0) (aft c0) (pos c0) [] = cs0 pre code post n).
    { unfold c0, cs0, adv_run. cbn [bef aft pos grp]. rewrite app_nil_r. reflexivity. }
    assert (M : forall b0, m fl_core_tokens_code_pattern re_core_tokens_code_pattern (mkMst (bef c0) (aft c0) (pos c0) [])
                  (fun s' => if b0 && (pos s' =? pos c0) then None else Some s') = Some c1 -> True) by (intros; exact I).
    clear M.
    destruct (skipn (length pre) s) as [|x fuel]; cbn [search_from]; rewrite E0;
      destruct code_shape as [_ ->];
      rewrite (code_match pre code post n c_prev Hne c_code96 c_post96 _ c1) by reflexivity; reflexivity.
  Qed.

  Lemma c0_pos : pos c0 = a.  Proof. reflexivity. Qed.
  Lemma c1_pos : pos c1 = e.  Proof. reflexivity. Qed.

  Lemma code_after : code_search s e = None.
  Proof.
    unfold code_search. apply (search_state_none _ _ 96); [vm_compute; reflexivity|]. unfold seek. cbn [aft].
    replace s with ((pre ++ bq ++ code ++ bq) ++ post) by (unfold s; rewrite <- !app_assoc; reflexivity).
    replace e with (slen (pre ++ bq ++ code ++ bq)) by (unfold e, a; rewrite !slen_app, c_bq; lia).
    rewrite drop_app_len. apply plain_no; [reflexivity|exact Hpost].
  Qed.

  Lemma scan_code : scan_loop (S (S (length s))) s fn 0 (Some (c0, c1)) (mkScan [] [] false None false 0 []) = mkScan [] [] false None false 0 [(c0, c1)].
  Proof.
    assert (El : (S (S (length s)) = length pre + S (length post + S (length code + 2 * n + 2)))%nat).
    { unfold s, bq. rewrite !app_length, !repeat_length. lia. }
    rewrite El.
    set (st0 := mkScan [] [] false None false 0 []).
    rewrite (scan_plain_seg_cm s fn (Some (c0, c1)) pre _ [] (bq ++ code ++ bq ++ post) st0 eq_refl (plain_inert pre Hpre)); [|repeat split|].
    2:{ intros j Hj. cbn [not_at]. rewrite c0_pos. unfold a. change (slen []) with 0 in Hj. lia. }
    change (slen [] + slen pre) with a.
    cbn [scan_loop].
    assert (Hlt : a <? slen s = true) by (apply Z.ltb_lt; rewrite c_len; unfold e, N, slen; lia).
    rewrite Hlt. cbn [negb]. rewrite c0_pos, Z.eqb_refl. cbn [st0 sc_run sc_ds sc_ms sc_escaped sc_in_image sc_start sc_code app].
    rewrite c1_pos, code_after.
    set (st2 := mkScan [] [] false None false 0 [(c0, c1)]).
    replace e with (slen (pre ++ bq ++ code ++ bq)) by (unfold e, a; rewrite !slen_app, c_bq; lia).
    rewrite (scan_inert_any s fn post _ (pre ++ bq ++ code ++ bq) [] st2); [|unfold s; rewrite app_nil_r, <- !app_assoc; reflexivity|exact (plain_inert post Hpost)|repeat split].
    replace (slen (pre ++ bq ++ code ++ bq) + slen post) with (slen s) by (rewrite c_len; unfold e, a; rewrite !slen_app, c_bq; lia).
    rewrite scan_end. reflexivity.
  Qed.

  Theorem core_finds_code : find_core_tokens s fn = ([], [(c0, c1)]).
  Proof.
    unfold find_core_tokens. rewrite code_found, scan_code. cbn [sc_ds sc_ms sc_code].
    unfold process_emphasis. change (next_closer 0 []) with (@None Z). destruct (3 * length s + 3)%nat; reflexivity.
  Qed.

  (* ---- the other finders; the candidates; the tokens ---- *)
  Lemma c_no c : mem c triggers_c = true -> mem c s = false.
  Proof.
    intros Hc.
    assert (Ht : mem c triggers = true).
    { unfold mem, triggers_c, triggers in *. cbn [existsb] in *.
      repeat (apply orb_true_iff in Hc; destruct Hc as [Hc|Hc]); try discriminate; rewrite Hc; cbn [orb]; rewrite ?orb_true_r; reflexivity. }
    assert (Hr : mem c triggers_r = true).
    { unfold mem, triggers_c, triggers_r in *. cbn [existsb] in *.
      repeat (apply orb_true_iff in Hc; destruct Hc as [Hc|Hc]); try discriminate; rewrite Hc; cbn [orb]; rewrite ?orb_true_r; reflexivity. }
    assert (C96 : (c =? 96) = false) by (destruct (c =? 96) eqn:E; [apply Z.eqb_eq in E; subst c; vm_compute in Hc; discriminate|reflexivity]).
    assert (Cb : mem c bq = false) by (apply mem_repeat; intros ->; vm_compute in C96; discriminate).
    unfold s, mem. rewrite !existsb_app. fold (mem c pre). fold (mem c code). fold (mem c post). fold (mem c bq).
    rewrite (plain_no c pre Ht Hpre), (plain_no c post Ht Hpost), (code_text_no c code Hr Hcode), Cb. reflexivity.
  Qed.

  Definition is_ci (kd : span_kind) : bool := match kd with SK_CoreTokens | SK_InlineCode => true | _ => false end.

  Lemma find_kind_quiet kd cm : kind_quiet_c kd = true -> is_ci kd = false -> find_kind kd s fn cm = ([], cm).
  Proof.
    intros Hq Hci.
    assert (F : match kd with SK_CoreTokens | SK_InlineCode | SK_RawText => True | _ => finditer (snd (re_of kd)) (fst (re_of kd)) s = [] end).
    { destruct kd; try exact I; cbn [kind_quiet_c] in Hq; apply existsb_exists in Hq as (c & Hin & Hn);
        (apply (finditer_none _ _ c s Hn); apply c_no; unfold mem; apply existsb_exists; exists c; split; [exact Hin|apply Z.eqb_refl]). }
    destruct kd; try discriminate; cbn [find_kind]; try reflexivity; cbn [re_of fst snd] in F |- *; rewrite F; reflexivity.
  Qed.

  Lemma find_all_none : forall ts cm, forallb kind_quiet_c ts = true -> filter is_ci ts = [] -> find_all ts s fn cm = [].
  Proof.
    induction ts as [|kd ts IH]; intros cm Hq Hf; [reflexivity|].
    cbn [forallb] in Hq. apply andb_true_iff in Hq as [Hk Hts]. cbn [filter] in Hf.
    destruct (is_ci kd) eqn:Eci; [discriminate|].
    cbn [find_all]. rewrite (find_kind_quiet kd cm Hk Eci). cbn [app]. apply IH; assumption.
  Qed.

  Lemma find_all_inline : forall ts cm, forallb kind_quiet_c ts = true -> filter is_ci ts = [SK_InlineCode] ->
    find_all ts s fn cm = map (fun p => CRe SK_InlineCode (fst p) (snd p)) cm.
  Proof.
    induction ts as [|kd ts IH]; intros cm Hq Hf; [discriminate|].
    cbn [forallb] in Hq. apply andb_true_iff in Hq as [Hk Hts]. cbn [filter] in Hf.
    destruct (is_ci kd) eqn:Eci.
    - injection Hf as Ek Hf. subst kd. cbn [find_all find_kind]. rewrite (find_all_none ts [] Hts Hf). apply app_nil_r.
    - cbn [find_all]. rewrite (find_kind_quiet kd cm Hk Eci). cbn [app]. apply IH; assumption.
  Qed.

  Lemma find_all_code : forall ts cm, forallb kind_quiet_c ts = true -> filter is_ci ts = [SK_CoreTokens; SK_InlineCode] ->
    find_all ts s fn cm = [CRe SK_InlineCode c0 c1].
  Proof.
    induction ts as [|kd ts IH]; intros cm Hq Hf; [discriminate|].
    cbn [forallb] in Hq. apply andb_true_iff in Hq as [Hk Hts]. cbn [filter] in Hf.
    destruct (is_ci kd) eqn:Eci.
    - injection Hf as Ek Hf. subst kd. cbn [find_all find_kind]. rewrite core_finds_code. cbn [map app].
      rewrite (find_all_inline ts _ Hts Hf). reflexivity.
    - cbn [find_all]. rewrite (find_kind_quiet kd cm Hk Eci). cbn [app]. apply IH; assumption.
  Qed.

  (* the token: the content between the backticks, one space stripped on each side when both are there *)
  Definition code_tok : tok :=
    let padded := negb (isspace_str code) && startswith [32] code && endswith [32] code in
    InlineCode (mkCode bq (if padded then [32] else []) (if padded then removelast (tl code) else code)).

  Lemma c1_g1 : gtext c1 1 = bq.
  Proof.
    unfold gtext, group_text, c1, cs_end. cbn [grp lookup_grp Nat.eqb]. fold a. fold N. fold bq.
    rewrite (seg_open pre n _ (code ++ bq)); [reflexivity| |].
    - cbn [bef]. rewrite rev_app_distr, <- !app_assoc. reflexivity.
    - cbn [pos]. rewrite slen_app, c_bq. fold a. fold N. lia.
  Qed.

  Lemma c1_g2 : gtext c1 2 = code.
  Proof.
    unfold gtext, group_text, c1, cs_end. cbn [grp lookup_grp Nat.eqb]. unfold segment. cbn [pos bef]. fold a. fold N. fold bq.
    replace (a + N + slen code + N - (a + N)) with (Z.of_nat (length (rev bq ++ rev code))) by (rewrite app_length, !rev_length; unfold bq, N, slen; rewrite repeat_length; lia).
    rewrite Nat2Z.id, app_assoc, firstn_app, Nat.sub_diag, firstn_all. cbn [firstn]. rewrite app_nil_r.
    rewrite rev_app_distr, !rev_involutive.
    replace (a + N + slen code - (a + N)) with (Z.of_nat (length code)) by (unfold slen; lia).
    rewrite Nat2Z.id, firstn_app, Nat.sub_diag, firstn_all. cbn [firstn]. apply app_nil_r.
  Qed.

  Lemma replace_none c r (t : str) : mem c t = false -> replace_char c r t = t.
  Proof.
    induction t as [|x t IH]; intros Hm; [reflexivity|]. unfold mem in Hm. cbn [existsb] in Hm. apply orb_false_iff in Hm as [Hx Ht].
    unfold replace_char. cbn [flat_map]. rewrite Z.eqb_sym, Hx. cbn [app]. f_equal. apply IH. exact Ht.
  Qed.

  Theorem tokenize_inner_code types : forallb kind_quiet_c (removelast types) = true ->
    filter is_ci (removelast types) = [SK_CoreTokens; SK_InlineCode] ->
    tokenize_inner types fn s = raw_if pre ++ [code_tok] ++ raw_if post.
  Proof.
    intros Hq Hc. unfold tokenize_inner. rewrite (find_all_code _ [] Hq Hc).
    cbn [number_from map fst snd cand_of sk_parse_group grp_span sk_precedence sk_parse_inner].
    assert (Gs : group_span c1 2 = Some (a + N, a + N + slen code)) by reflexivity.
    rewrite Gs, c0_pos, c1_pos.
    pose proof c_len as Hs.
    unfold tokenize, SpanTokenizer.make_tokens, make_tokens_with.
    cbn [sort_cands fold_right insert_stable buffer_rev eval_loop last_end pc ce mk_rev cs make inner ps pe app rev].
    assert (Gb : (if a >? 0 then [ORaw 0 a] else []) = match pre with [] => [] | _ => [ORaw 0 a] end) by (unfold a; apply gap_before).
    assert (Ga : (if e =? slen s then [] else [ORaw e (slen s)]) = match post with [] => [] | _ => [ORaw e (slen s)] end) by (rewrite Hs; apply gap_after).
    rewrite Gb, Ga. rewrite app_nil_r, rev_app_distr. cbn [rev app]. rewrite <- app_assoc. cbn [app].
    rewrite !map_app. cbn [map build_otok cid src_at Z.to_nat nth build_leaf].
    rewrite c1_g1, c1_g2. rewrite (replace_none 10 [32] code) by (apply code_text_no; [reflexivity|exact Hcode]).
    fold code_tok. f_equal; [|f_equal].
    - apply raw_gap. cbn [build_otok]. f_equal.
      pose proof (substr_mid [] pre (bq ++ code ++ bq ++ post)) as M. cbn [app] in M. unfold slen at 1 2 in M. cbn [length Z.of_nat] in M.
      fold a in M. replace (0 + a) with a in M by lia. unfold s. cbn [app]. rewrite M. apply unescape_plain. exact Hpre.
    - apply raw_gap. cbn [build_otok]. f_equal.
      pose proof (substr_mid (pre ++ bq ++ code ++ bq) post []) as M.
      replace (slen (pre ++ bq ++ code ++ bq)) with e in M by (unfold e, a; rewrite !slen_app, c_bq; lia).
      rewrite app_nil_r in M. replace ((pre ++ bq ++ code ++ bq) ++ post) with s in M by (unfold s; rewrite <- !app_assoc; reflexivity).
      rewrite Hs. rewrite M. apply unescape_plain. exact Hpost.
  Qed.
End CodeS.

(* ---- the statement with computable hypotheses ---- *)
Definition code_spans (types : list span_kind) : bool :=
  forallb kind_quiet_c (removelast types) &&
  match filter is_ci (removelast types) with [SK_CoreTokens; SK_InlineCode] => true | _ => false end.

Definition code_ok (pre code post : str) : bool :=
  plain_text pre && plain_text post && code_text code && (match code with [] => false | _ => true end).

(* the span delimited by n + 1 backticks on each side *)
Definition ticks (n : nat) : str := repeat 96 (S n).
Definition code_of (n : nat) (code : str) : tok :=
  let padded := negb (isspace_str code) && startswith [32] code && endswith [32] code in
  InlineCode (mkCode (ticks n) (if padded then [32] else []) (if padded then removelast (tl code) else code)).

Theorem code_in_sentence types fn n pre code post :
  code_spans types = true -> code_ok pre code post = true ->
  tokenize_inner types fn (pre ++ ticks n ++ code ++ ticks n ++ post) = raw_if pre ++ [code_of n code] ++ raw_if post.
Proof.
  intros Hs Ho. unfold code_spans in Hs. apply andb_true_iff in Hs as [Hq Hc].
  unfold code_ok in Ho. repeat rewrite andb_true_iff in Ho. destruct Ho as [[[H1 H2] H3] H4].
  apply (tokenize_inner_code pre code post n fn H1 H2 H3); [destruct code; [discriminate|discriminate]|exact Hq|].
  destruct (filter _ _) as [|[] [|[] [|? ?]]]; try discriminate. reflexivity.
Qed.

(* the content of a code span may hold every delimiter of the core tokens: it stays text *)
Example code_span_instance :
  (code_ok ($"call ") ($"f(a, *b, **c)[0] _x_ ![i](u)") ($" now.") = true) /\
  (code_of 0 ($" x ") = InlineCode (mkCode [96] [32] ($"x"))) /\ (code_of 1 ($"  ") = InlineCode (mkCode [96; 96] [] ($"  "))) /\
  (code_ok [] ($"a`b") [] = false) /\ (code_ok [] [] [] = false) /\ (code_ok [] ($"a<b") [] = false).
Proof. vm_compute. repeat split; reflexivity. Qed.

Lemma code_span_configs :
  forallb (fun c => code_spans (cfg_span c)) [cfg_html; cfg_html_nohtml; cfg_markdown; cfg_latex; cfg_mathjax; cfg_default] = true.
Proof. vm_compute. reflexivity. Qed.


(* the two attributes of the token, by name *)
Definition code_padded (code : str) : bool := negb (isspace_str code) && startswith [32] code && endswith [32] code.
Definition code_content (code : str) : str := if code_padded code then removelast (tl code) else code.
Lemma code_of_eq n code : code_of n code = InlineCode (mkCode (ticks n) (if code_padded code then [32] else []) (code_content code)).
Proof. reflexivity. Qed.

(* padding and content together are the text between the backticks *)
Lemma code_pad_ok code : (if code_padded code then [32] else []) ++ code_content code ++ (if code_padded code then [32] else []) = code.
Proof.
  unfold code_content. destruct (code_padded code) eqn:Ep; [|rewrite app_nil_r; reflexivity].
  unfold code_padded in Ep. repeat rewrite andb_true_iff in Ep. destruct Ep as [[Hs Hst] Hen].
  destruct code as [|x t]; [discriminate|]. cbn [startswith] in Hst. rewrite andb_true_r in Hst. apply Z.eqb_eq in Hst. subst x.
  assert (Hne : t <> []).
  { intros ->. cbn in Hs. discriminate. }
  destruct (exists_last Hne) as (t' & y & Et). subst t.
  unfold endswith in Hen. cbn [rev] in Hen. rewrite rev_app_distr in Hen. cbn [rev app startswith] in Hen. rewrite andb_true_r in Hen. apply Z.eqb_eq in Hen. subst y.
  cbn [tl]. rewrite removelast_last. reflexivity.
Qed.

Lemma code_content_no c code : mem c code = false -> mem c (code_content code) = false.
Proof.
  intros H. rewrite <- (code_pad_ok code) in H. unfold mem in H. rewrite !existsb_app in H.
  apply orb_false_iff in H as [_ H]. apply orb_false_iff in H as [H _]. exact H.
Qed.
