(* C03 / C16: ONE autolink inside a sentence.  pre <scheme:rest> post - the scheme a letter followed by 1 to 31 letters, digits or
   hyphens, the rest free of white space, angle brackets and trigger characters - tokenizes to the text, one AutoLink holding
   the address, the text.  AutoLink.pattern is evaluated exactly (the greedy bounded scheme, the colon, the lazy rest closed by
   ">"); HtmlSpan.pattern - six alternatives, the first with nested repetitions - is shown to FAIL at the "<": after the tag-like
   scheme no alternative can go on; every other finder is quiet; the scanner of the core tokens finds nothing. *)
From Coq Require Import ZArith List Bool Lia.
From Mistletoe Require Import Base.Sx Base.PyStr Base.PyText Gen.GenTables Gen.GenRegex Gen.GenConfig Re.ReMatch
     Model.SpanTokenizer Model.Tree Model.Unescape Model.CoreTokens Model.Inline Model.Block Model.Build Model.Parser Model.HtmlRenderer
     Proofs.ReFirst Proofs.ReNeeds Proofs.ReExact Proofs.HeadingLaw Proofs.Prose Proofs.PlainProse Proofs.ListLaw Proofs.ProseLines
     Proofs.EmphSimple Proofs.EmphSentence Proofs.RefSentence Proofs.LinkSentence Proofs.CodeSpan Proofs.StrikeSentence Proofs.IndentLaw.
Import ListNotations.
Local Open Scope Z_scope.

(* ---- the shape of HtmlSpan.pattern ---- *)
Definition LBK : re := Look false true 1%nat (Lit 92).
Definition HS_T1 : re := match re_span_token_HtmlSpan_pattern with Alt (Seq _ (Seq _ t)) _ => t | _ => Eps end.
Definition HS_rest (n : nat) : re :=
  match re_span_token_HtmlSpan_pattern with
  | Alt _ (Alt (Seq _ (Seq _ (Seq _ x2))) (Alt (Seq _ (Seq _ (Seq _ x3))) (Alt (Seq _ (Seq _ (Seq _ x4))) (Alt (Seq _ (Seq _ (Seq _ x5))) (Seq _ (Seq _ (Seq _ x6))))))) =>
    match n with 2%nat => x2 | 3%nat => x3 | 4%nat => x4 | 5%nat => x5 | _ => x6 end
  | _ => Eps
  end.
Definition TAGSET : re := Set_ false [CRange 65 90; CRange 97 122; CRange 48 57; CLit 45].
Definition LETTER : re := Set_ false [CRange 65 90; CRange 97 122].
Definition HS_K1 : re := match HS_T1 with Seq _ (Seq _ k) => k | _ => Eps end.

Lemma hs_shape :
  re_span_token_HtmlSpan_pattern =
    Alt (Seq LBK (Seq (Lit 60) (Seq LETTER (Seq (Rep true 0%nat None TAGSET) HS_K1))))
   (Alt (Seq LBK (Seq (Lit 60) (Seq (Lit 47) (HS_rest 2))))
   (Alt (Seq LBK (Seq (Lit 60) (Seq (Lit 33) (HS_rest 3))))
   (Alt (Seq LBK (Seq (Lit 60) (Seq (Lit 63) (HS_rest 4))))
   (Alt (Seq LBK (Seq (Lit 60) (Seq (Lit 33) (HS_rest 5))))
        (Seq LBK (Seq (Lit 60) (Seq (Lit 33) (HS_rest 6)))))))) /\
  fl_span_token_HtmlSpan_pattern = mkFlags true false.
Proof. split; reflexivity. Qed.

Definition SPACESET : re := Set_ false [CCat CatSpace].
Definition HS_ATTR : re := match HS_K1 with Seq (Rep _ _ _ b) _ => b | _ => Eps end.
Lemma hs_k1_shape : HS_K1 = Seq (Rep true 0%nat None HS_ATTR) (Seq (Rep true 0%nat None SPACESET) (Seq (Rep true 0%nat (Some 1%nat) (Lit 47)) (Lit 62))) /\
                    exists rest, HS_ATTR = Seq (Rep true 1%nat None SPACESET) rest.
Proof. split; [reflexivity|]. eexists. reflexivity. Qed.

Section HsFail.
  Let fl := mkFlags true false.

  (* a negative look-behind in front of something that fails *)
  Lemma look_neg_none w r X s k : m fl X s k = None -> m fl (Seq (Look false true w r) X) s k = None.
  Proof.
    intros H. rewrite m_seq. cbn [m].
    destruct (match retreat w s with Some s0 => m fl r s0 (fun s' => if pos s' =? pos s then Some s' else None) | None => None end); [reflexivity|exact H].
  Qed.

  (* a repetition that may run zero times and whose body cannot run *)
  Lemma rep0_skip g mx body s k : (forall k', m fl body s k' = None) -> m fl (Rep g 0 mx body) s k = k s.
  Proof.
    intros Hb. cbn [m repeat app loop Nat.ltb Nat.leb]. rewrite Hb. destruct (under mx 0), g; cbn [orelse]; destruct (k s); reflexivity.
  Qed.

  (* what may follow the tag name: not white space, not "/", not ">" *)
  Definition tail_stop (x : Z) : bool := negb (cat_match CatSpace x) && negb (x =? 47) && negb (x =? 62).

  Lemma hs_k1_none s k x t : aft s = x :: t -> tail_stop x = true -> m fl HS_K1 s k = None.
  Proof.
    intros Ha Hx. unfold tail_stop in Hx. repeat rewrite andb_true_iff in Hx. destruct Hx as [[X1 X2] X3]. apply negb_true_iff in X1, X2, X3.
    destruct hs_k1_shape as [-> [rest Ea]].
    assert (Sp : forall k', m fl SPACESET s k' = None).
    { intros k'. rewrite (m_char fl SPACESET s x t k' eq_refl Ha). unfold SPACESET. cbn [char_ok existsb citem_match xorb]. rewrite X1. reflexivity. }
    rewrite m_seq, rep0_skip.
    2:{ intros k'. rewrite Ea, m_seq. apply m_rep_body_none; [lia|exact Sp]. }
    rewrite m_seq, rep0_skip by exact Sp.
    rewrite m_seq, rep0_skip.
    2:{ intros k'. rewrite (m_char fl (Lit 47) s x t k' eq_refl Ha). cbn [char_ok]. rewrite X2. reflexivity. }
    rewrite (m_char fl (Lit 62) s x t k eq_refl Ha). cbn [char_ok]. rewrite X3. reflexivity.
  Qed.

  (* at "<" followed by a letter and a run of tag characters that ends before such a character, HtmlSpan.pattern fails *)
  Lemma hs_fails s k c0 (run : str) x t : aft s = 60 :: c0 :: run ++ x :: t ->
    char_ok fl LETTER c0 = true -> forallb (char_ok fl TAGSET) run = true -> forallb tail_stop (run ++ [x]) = true -> char_ok fl TAGSET x = false ->
    m fl re_span_token_HtmlSpan_pattern s k = None.
  Proof.
    intros Ha Hc0 Hrun Hstop Hx. destruct hs_shape as [-> _].
    assert (L60 : forall X, m fl X (advance s 60 (c0 :: run ++ x :: t)) k = None -> m fl (Seq LBK (Seq (Lit 60) X)) s k = None).
    { intros X H. unfold LBK. apply look_neg_none. rewrite m_seq, (m_char fl (Lit 60) s 60 _ _ eq_refl Ha). cbn [char_ok Z.eqb Pos.eqb]. exact H. }
    assert (Hc47 : (c0 =? 47) = false /\ (c0 =? 33) = false /\ (c0 =? 63) = false).
    { unfold LETTER in Hc0. cbn [char_ok existsb citem_match xorb] in Hc0. rewrite orb_false_r in Hc0.
      repeat split; (destruct (c0 =? _) eqn:E; [apply Z.eqb_eq in E; subst c0; vm_compute in Hc0; discriminate|reflexivity]). }
    destruct Hc47 as (C47 & C33 & C63).
    assert (Lit2 : forall d X, (c0 =? d) = false -> m fl (Seq (Lit d) X) (advance s 60 (c0 :: run ++ x :: t)) k = None).
    { intros d X Hd. rewrite m_seq. rewrite (m_char fl (Lit d) _ c0 (run ++ x :: t) _ eq_refl) by reflexivity. cbn [char_ok]. rewrite Hd. reflexivity. }
    rewrite m_alt, (L60 _).
    2:{ rewrite m_seq. rewrite (m_char fl LETTER _ c0 (run ++ x :: t) _ eq_refl) by reflexivity. rewrite Hc0.
        rewrite m_seq. apply (m_greedy_none fl TAGSET 0 None _ _ run (x :: t)); [reflexivity|exact Hx|reflexivity|exact Hrun|].
        intros j Hj. destruct (skipn j run ++ x :: t) as [|y t'] eqn:E.
        - destruct (skipn j run); discriminate.
        - apply (hs_k1_none _ _ y t'); [reflexivity|].
          rewrite forallb_forall in Hstop. apply Hstop.
          destruct (skipn j run) as [|z zs] eqn:Es.
          + cbn [app] in E. injection E as Ey _. subst y. apply in_or_app. right. left. reflexivity.
          + cbn [app] in E. injection E as Ey _. subst y. apply in_or_app. left. apply (in_skipn z j). rewrite Es. left. reflexivity. }
    cbn [orelse]. rewrite m_alt, (L60 _ (Lit2 47 _ C47)). cbn [orelse].
    rewrite m_alt, (L60 _ (Lit2 33 _ C33)). cbn [orelse].
    rewrite m_alt, (L60 _ (Lit2 63 _ C63)). cbn [orelse].
    rewrite m_alt, (L60 _ (Lit2 33 _ C33)). cbn [orelse].
    apply (L60 _ (Lit2 33 _ C33)).
  Qed.
End HsFail.

(* ---- AutoLink.pattern ---- *)
Definition SCHEMESET : re := Set_ false [CRange 65 90; CRange 97 122; CRange 48 57; CLit 43; CLit 46; CLit 45].
Definition URLREST : re := Set_ true [CLit 32; CLit 60; CLit 62].
Definition AL_MAIL : re := match re_span_token_AutoLink_pattern with Seq _ (Seq _ (Seq _ (Seq (Grp _ (Alt _ m0)) _))) => m0 | _ => Eps end.
Definition AL_URL : re := Seq LETTER (Seq (Rep true 1%nat (Some 31%nat) SCHEMESET) (Seq (Lit 58) (Rep false 0%nat None URLREST))).
Lemma al_shape :
  re_span_token_AutoLink_pattern =
    Seq LBK (Seq (Rep true 0%nat None (Seq (Lit 92) (Lit 92))) (Seq (Lit 60) (Seq (Grp 1%nat (Alt AL_URL AL_MAIL)) (Lit 62)))) /\
  fl_span_token_AutoLink_pattern = mkFlags false false.
Proof. split; reflexivity. Qed.

Section AlMatch.
  Let fl := mkFlags false false.
  Variables (pre : str) (c0 : Z) (sc r post : str).
  Hypothesis Hprev : match rev pre with [] => True | x :: _ => x <> 92 end.
  Hypothesis Hc0 : char_ok fl LETTER c0 = true.
  Hypothesis Hsc : forallb (char_ok fl SCHEMESET) sc = true.
  Hypothesis Hlen : (1 <= length sc <= 31)%nat.
  Hypothesis Hr : forallb (char_ok fl URLREST) r = true.

  Let a := slen pre.
  Let url := c0 :: sc ++ 58 :: r.
  Definition as0 : mst := mkMst (rev pre) (60 :: url ++ 62 :: post) a [].
  Definition as_end : mst := mkMst (62 :: rev url ++ 60 :: rev pre) post (a + 1 + slen url + 1) [(1%nat, (a + 1, a + 1 + slen url))].

  Lemma al_match (k : mst -> option mst) v : k as_end = Some v -> m fl re_span_token_AutoLink_pattern as0 k = Some v.
  Proof.
    intros Hk. destruct al_shape as [-> _].
    unfold LBK. rewrite m_seq.
    assert (L1 : forall k', m fl (Look false true 1 (Lit 92)) as0 k' = k' as0).
    { intros k'. cbn [m retreat]. unfold as0 at 1 2. cbn [bef]. destruct (rev pre) as [|x rr] eqn:Er; [reflexivity|].
      apply Z.eqb_neq in Hprev. cbn [aft char_ok]. rewrite Hprev. reflexivity. }
    rewrite L1. rewrite m_seq.
    assert (L2 : forall k', m fl (Rep true 0 None (Seq (Lit 92) (Lit 92))) as0 k' = k' as0).
    { intros k'. cbn [m repeat app]. unfold as0 at 1. cbn [aft]. cbn [loop Nat.ltb Nat.leb under]. cbn [m]. unfold as0 at 1. cbn [aft char_ok Z.eqb Pos.eqb orelse]. reflexivity. }
    rewrite L2. rewrite m_seq.
    rewrite (m_char fl (Lit 60) as0 60 (url ++ 62 :: post) _ eq_refl) by reflexivity. cbn [char_ok Z.eqb Pos.eqb].
    set (s1 := advance as0 60 (url ++ 62 :: post)).
    rewrite m_seq, m_grp, m_alt.
    assert (A1 : m fl AL_URL s1 (fun s' => m fl (Lit 62) (set_grp 1 (pos s1) (pos s') s') k) = Some v).
    { unfold AL_URL. rewrite m_seq. rewrite (m_char fl LETTER s1 c0 (sc ++ 58 :: r ++ 62 :: post) _ eq_refl) by (unfold s1, url; cbn [advance aft app]; rewrite <- app_assoc; reflexivity).
      rewrite Hc0. rewrite m_seq.
      match goal with |- m fl (Rep true 1 (Some 31%nat) SCHEMESET) ?st ?kk = _ => set (s2 := st) end.
      change (m fl (Rep true 1 (Some 31%nat) SCHEMESET) s2) with (fun kk => loop (m fl SCHEMESET) true 1 (Some 31%nat) kk (repeat 0 1 ++ 0 :: aft s2) 0%nat s2). cbv beta.
      apply greedy_run with (run := sc) (rest := 58 :: r ++ 62 :: post).
      - reflexivity.
      - reflexivity.
      - reflexivity.
      - exact Hsc.
      - lia.
      - intros x Hx. injection Hx as <-. lia.
      - cbn [repeat app length]. unfold s2. cbn [advance aft]. rewrite app_length. cbn [length]. lia.
      - rewrite m_seq. rewrite (m_char fl (Lit 58) _ 58 (r ++ 62 :: post) _ eq_refl) by reflexivity. cbn [char_ok Z.eqb Pos.eqb].
        match goal with |- m fl (Rep false 0 None URLREST) ?st ?kk = _ => set (s3 := st) end.
        change (m fl (Rep false 0 None URLREST) s3) with (fun kk => loop (m fl URLREST) false 0 None kk (repeat 0 0 ++ 0 :: aft s3) 0%nat s3). cbv beta.
        apply (lazy_run fl URLREST 0 None _ v (62 :: post) eq_refl r s3 0%nat _ tt).
        + reflexivity.
        + exact Hr.
        + intros x Hx. discriminate.
        + cbn [repeat app length]. unfold s3. cbn [advance aft adv_run]. rewrite app_length. cbn [length]. lia.
        + intros j Hj _. cbn beta.
          destruct (skipn j r) as [|y t] eqn:E.
          * apply (f_equal (@length Z)) in E. rewrite skipn_length in E. cbn [length] in E. lia.
          * assert (Hy : char_ok fl URLREST y = true).
            { rewrite forallb_forall in Hr. apply Hr. rewrite <- (firstn_skipn j r), E. apply in_or_app. right. left. reflexivity. }
            rewrite (m_char fl (Lit 62) _ y (t ++ 62 :: post) _ eq_refl) by reflexivity.
            cbn [char_ok]. unfold URLREST in Hy. cbn [char_ok existsb citem_match xorb] in Hy. apply negb_true_iff in Hy. repeat (apply orb_false_iff in Hy; destruct Hy as [? Hy]).
            match goal with X : (y =? 62) = false |- _ => rewrite X end. reflexivity.
        + lia.
        + cbn beta. rewrite (m_char fl (Lit 62) _ 62 post _ eq_refl) by reflexivity. cbn [char_ok Z.eqb Pos.eqb].
          match goal with |- k ?st = _ => replace st with as_end; [exact Hk|] end.
          unfold as_end, advance, set_grp, adv_run, s3, s2, s1, as0, advance, adv_run, url, slen. cbn [bef aft pos grp].
          assert (EL : length (c0 :: sc ++ 58 :: r) = S (length sc + S (length r))) by (cbn [length]; rewrite app_length; reflexivity).
          rewrite EL.
          assert (EB : rev (c0 :: sc ++ 58 :: r) ++ 60 :: rev pre = rev r ++ 58 :: rev sc ++ c0 :: 60 :: rev pre).
          { cbn [rev]. rewrite rev_app_distr. cbn [rev]. rewrite <- !app_assoc. cbn [app]. reflexivity. }
          rewrite EB.
          replace (a + 1 + Z.of_nat (S (length sc + S (length r))) + 1) with (a + 1 + 1 + Z.of_nat (length sc) + 1 + Z.of_nat (length r) + 1) by lia.
          replace (a + 1 + Z.of_nat (S (length sc + S (length r)))) with (a + 1 + 1 + Z.of_nat (length sc) + 1 + Z.of_nat (length r)) by lia.
          reflexivity.
        + reflexivity. }
    rewrite A1. reflexivity.
  Qed.
End AlMatch.

(* ---- first-character analysis of the two patterns ---- *)
Lemma nomatch_seq_lit fl d X c : (c =? d) = false -> nomatch fl (Seq (Lit d) X) c = true.
Proof. intros H. unfold nomatch. cbn [fa char_ok]. destruct (fa fl X c) as [nb sb]. cbn [fst]. rewrite H. reflexivity. Qed.
Lemma nomatch_look_seq fl a n w r Y c : nomatch fl (Seq (Look a n w r) Y) c = nomatch fl Y c.
Proof. unfold nomatch. cbn [fa]. destruct (fa fl Y c) as [nb sb]. reflexivity. Qed.
Lemma nomatch_alt fl a b c : nomatch fl (Alt a b) c = nomatch fl a c && nomatch fl b c.
Proof. unfold nomatch. cbn [fa]. destruct (fa fl a c), (fa fl b c). reflexivity. Qed.

Lemma hs_nomatch c : (c =? 60) = false -> nomatch fl_span_token_HtmlSpan_pattern re_span_token_HtmlSpan_pattern c = true.
Proof.
  intros H. destruct hs_shape as [-> ->]. unfold LBK.
  rewrite !nomatch_alt, !nomatch_look_seq, !(nomatch_seq_lit _ 60 _ c H). reflexivity.
Qed.

Lemma al_nomatch c : (c =? 92) = false -> (c =? 60) = false -> nomatch fl_span_token_AutoLink_pattern re_span_token_AutoLink_pattern c = true.
Proof.
  intros H1 H2. destruct al_shape as [-> ->]. unfold LBK. rewrite nomatch_look_seq.
  unfold nomatch. cbn [fa char_ok]. destruct (fa (mkFlags false false) (Seq (Grp 1 (Alt AL_URL AL_MAIL)) (Lit 62)) c) as [nb sb]. cbn [fst snd]. rewrite H1, H2. reflexivity.
Qed.


(* tag characters are scheme characters, and none of them is white space, "/" or ">" *)
Lemma tag_scheme c : char_ok (mkFlags false false) TAGSET c = true -> char_ok (mkFlags false false) SCHEMESET c = true.
Proof.
  unfold TAGSET, SCHEMESET. cbn [char_ok existsb citem_match]. rewrite !xorb_false_l. intros H.
  repeat (apply orb_true_iff in H; destruct H as [H|H]); try discriminate; rewrite H; rewrite ?orb_true_r; reflexivity.
Qed.

Lemma tag_stop_table : forallb (fun n => implb (char_ok (mkFlags false false) TAGSET (Z.of_nat n)) (tail_stop (Z.of_nat n))) (seq 0 128) = true.
Proof. vm_compute. reflexivity. Qed.

Lemma tag_stop c : char_ok (mkFlags false false) TAGSET c = true -> tail_stop c = true.
Proof.
  intros H.
  assert (Hr : 0 <= c < 128).
  { unfold TAGSET in H. cbn [char_ok existsb citem_match] in H. rewrite xorb_false_l in H.
    repeat (apply orb_true_iff in H; destruct H as [H|H]); try discriminate; try (apply andb_true_iff in H as [A B]; apply Z.leb_le in A, B; lia).
    apply Z.eqb_eq in H. lia. }
  pose proof tag_stop_table as T. rewrite forallb_forall in T. specialize (T (Z.to_nat c)).
  rewrite Z2Nat.id in T by lia. rewrite H in T. apply T. apply in_seq. lia.
Qed.

Definition triggers_a : list Z := [92; 96; 126; 10; 36; 38; 123; 124].
Definition is_auto (kd : span_kind) : bool := match kd with SK_AutoLink => true | _ => false end.
Definition kind_quiet_a (kd : span_kind) : bool :=
  match kd with
  | SK_CoreTokens | SK_InlineCode | SK_RawText | SK_AutoLink | SK_HtmlSpan => true
  | _ => existsb (fun c => needs (fst (re_of kd)) c) triggers_a
  end.

Section AutoS.
  Variables (pre : str) (c0 : Z) (sc r post : str) (fn : footnotes).
  Hypothesis Hpre : plain_text pre = true.
  Hypothesis Hpost : plain_text post = true.
  Hypothesis Hc0 : char_ok (mkFlags false false) LETTER c0 = true.
  Hypothesis Hsc : forallb (char_ok (mkFlags false false) TAGSET) sc = true.
  Hypothesis Hlen : (1 <= length sc <= 31)%nat.
  Hypothesis Hr : forallb (char_ok (mkFlags false false) URLREST) r = true.
  Hypothesis Hrp : plain_text r = true.

  Let url := c0 :: sc ++ 58 :: r.
  Let s := pre ++ [60] ++ url ++ [62] ++ post.
  Let a := slen pre.
  Let e := a + 1 + slen url + 1.

  Definition u0 : mst := adv_run (start_at [] s) pre (60 :: url ++ 62 :: post).
  Definition u1 : mst := as_end pre c0 sc r post.

  Lemma u_len : slen s = e + slen post.
  Proof. unfold s, e, a. rewrite !slen_app. unfold slen. cbn [length]. lia. Qed.

  Lemma u_prev : match rev pre with [] => True | x :: _ => x <> 92 end.
  Proof.
    destruct (rev pre) as [|x rr] eqn:Er; [exact I|].
    assert (Hin : In x pre) by (apply in_rev; rewrite Er; left; reflexivity).
    pose proof (plain_no 92 pre eq_refl Hpre) as H92. intros ->.
    assert (T : mem 92 pre = true) by (unfold mem; apply existsb_exists; exists 92; split; [exact Hin|reflexivity]). rewrite T in H92. discriminate.
  Qed.

  Lemma sc_plain : plain_text sc = true.
  Proof.
    unfold plain_text. apply forallb_forall. intros x Hx. pose proof Hsc as Hs'. rewrite forallb_forall in Hs'. specialize (Hs' x Hx).
    unfold TAGSET in Hs'. cbn [char_ok existsb citem_match] in Hs'. rewrite xorb_false_l in Hs'.
    apply negb_true_iff. unfold mem, triggers. cbn [existsb].
    repeat (apply orb_true_iff in Hs'; destruct Hs' as [Hs'|Hs']); try discriminate;
      try (apply andb_true_iff in Hs' as [A B]; apply Z.leb_le in A, B; repeat (rewrite (proj2 (Z.eqb_neq x _)) by lia); reflexivity).
    apply Z.eqb_eq in Hs'. subst x. reflexivity.
  Qed.

  Lemma c0_plain : mem c0 triggers = false.
  Proof.
    pose proof Hc0 as Hc0'. unfold LETTER in Hc0'. cbn [char_ok existsb citem_match] in Hc0'. rewrite xorb_false_l in Hc0'. unfold mem, triggers. cbn [existsb].
    repeat (apply orb_true_iff in Hc0'; destruct Hc0' as [Hc0'|Hc0']); try discriminate;
      (apply andb_true_iff in Hc0' as [A B]; apply Z.leb_le in A, B; repeat (rewrite (proj2 (Z.eqb_neq c0 _)) by lia); reflexivity).
  Qed.

  Lemma url_plain : plain_text url = true.
  Proof.
    unfold url, plain_text. cbn [forallb]. rewrite c0_plain. cbn [negb andb]. rewrite forallb_app. fold (plain_text sc). rewrite sc_plain. cbn [forallb andb].
    fold (plain_text r). rewrite Hrp. reflexivity.
  Qed.

  (* a character of triggers that is not "<" is absent *)
  Lemma u_no c : mem c triggers = true -> c <> 60 -> mem c s = false.
  Proof.
    intros Hc C60. assert (C62 : (c =? 62) = false) by (destruct (c =? 62) eqn:E; [apply Z.eqb_eq in E; subst c; vm_compute in Hc; discriminate|reflexivity]).
    apply Z.eqb_neq in C60.
    unfold s, mem. rewrite !existsb_app. fold (mem c pre). fold (mem c url). fold (mem c post).
    rewrite (plain_no c pre Hc Hpre), (plain_no c url Hc url_plain), (plain_no c post Hc Hpost). cbn [existsb orb]. rewrite C60, C62. reflexivity.
  Qed.

  Lemma auto_found : finditer fl_span_token_AutoLink_pattern re_span_token_AutoLink_pattern s = [(u0, u1)].
  Proof.
    unfold finditer. cbn [finditer_from].
    assert (Ea : aft (start_at [] s) = s) by reflexivity. rewrite Ea.
    rewrite (search_skip _ _ pre s (start_at [] s) (60 :: url ++ 62 :: post)); [|reflexivity| |unfold s; rewrite app_length; lia].
    2:{ intros c Hc. apply al_nomatch.
        - pose proof (plain_no 92 pre eq_refl Hpre) as T. destruct (c =? 92) eqn:E; [|reflexivity]. apply Z.eqb_eq in E. subst c.
          assert (T' : mem 92 pre = true) by (unfold mem; apply existsb_exists; exists 92; split; [exact Hc|reflexivity]). rewrite T' in T. discriminate.
        - pose proof (plain_no 60 pre eq_refl Hpre) as T. destruct (c =? 60) eqn:E; [|reflexivity]. apply Z.eqb_eq in E. subst c.
          assert (T' : mem 60 pre = true) by (unfold mem; apply existsb_exists; exists 60; split; [exact Hc|reflexivity]). rewrite T' in T. discriminate. }
    fold u0.
    assert (E0 : mkMst (bef u0) (aft u0) (pos u0) [] = as0 pre c0 sc r post).
    { unfold u0, as0, adv_run, start_at. cbn [bef aft pos grp length Z.of_nat]. rewrite app_nil_r. reflexivity. }
    assert (Hscs : forallb (char_ok (mkFlags false false) SCHEMESET) sc = true).
    { apply forallb_forall. intros x Hx. pose proof Hsc as Hs'. rewrite forallb_forall in Hs'. apply tag_scheme. apply Hs'. exact Hx. }
    assert (S1 : search_from fl_span_token_AutoLink_pattern re_span_token_AutoLink_pattern (skipn (length pre) s) false u0 = Some (u0, u1)).
    { destruct (skipn (length pre) s) as [|x fuel]; cbn [search_from]; rewrite E0;
        destruct al_shape as [_ ->];
        rewrite (al_match pre c0 sc r post u_prev Hc0 Hscs Hlen Hr _ u1) by reflexivity; reflexivity. }
    rewrite S1. f_equal.
    apply finditer_from_none. apply (search_none _ _ 60); [vm_compute; reflexivity|].
    cbn [aft u1 as_end]. apply plain_no; [reflexivity|exact Hpost].
  Qed.

  Lemma html_nothing : finditer fl_span_token_HtmlSpan_pattern re_span_token_HtmlSpan_pattern s = [].
  Proof.
    unfold finditer. apply finditer_from_none.
    assert (Ea : aft (start_at [] s) = s) by reflexivity. rewrite Ea.
    rewrite (search_skip _ _ pre s (start_at [] s) (60 :: url ++ 62 :: post)); [|reflexivity| |unfold s; rewrite app_length; lia].
    2:{ intros c Hc. apply hs_nomatch.
        pose proof (plain_no 60 pre eq_refl Hpre) as T. destruct (c =? 60) eqn:E; [|reflexivity]. apply Z.eqb_eq in E. subst c.
        assert (T' : mem 60 pre = true) by (unfold mem; apply existsb_exists; exists 60; split; [exact Hc|reflexivity]). rewrite T' in T. discriminate. }
    fold u0.
    assert (M : forall K, m fl_span_token_HtmlSpan_pattern re_span_token_HtmlSpan_pattern (mkMst (bef u0) (aft u0) (pos u0) []) K = None).
    { intros K. destruct hs_shape as [_ ->]. apply (hs_fails _ K c0 sc 58 (r ++ 62 :: post)).
      - unfold u0, adv_run, start_at, url. cbn [aft app]. rewrite <- app_assoc. reflexivity.
      - exact Hc0.
      - exact Hsc.
      - rewrite forallb_app. apply andb_true_iff. split; [|reflexivity].
        apply forallb_forall. intros x Hx. pose proof Hsc as Hs'. rewrite forallb_forall in Hs'. apply tag_stop. apply Hs'. exact Hx.
      - reflexivity. }
    assert (N : forall fuel, search_from fl_span_token_HtmlSpan_pattern re_span_token_HtmlSpan_pattern fuel false (advance u0 60 (url ++ 62 :: post)) = None).
    { intros fuel. apply (search_none _ _ 60); [vm_compute; reflexivity|]. cbn [aft advance].
      unfold mem. rewrite existsb_app. fold (mem 60 url). rewrite (plain_no 60 url eq_refl url_plain). cbn [existsb Z.eqb Pos.eqb orb]. fold (mem 60 post). apply plain_no; [reflexivity|exact Hpost]. }
    destruct (skipn (length pre) s) as [|x fuel]; cbn [search_from]; rewrite M; [reflexivity|].
    assert (Eb : aft u0 = 60 :: url ++ 62 :: post) by reflexivity. rewrite Eb. apply N.
  Qed.

  Lemma u_no_a c : mem c triggers_a = true -> mem c s = false.
  Proof.
    intros H. apply u_no.
    - unfold mem, triggers_a, triggers in *. cbn [existsb] in *.
      repeat (apply orb_true_iff in H; destruct H as [H|H]); try discriminate; rewrite H; cbn [orb]; rewrite ?orb_true_r; reflexivity.
    - intros ->. vm_compute in H. discriminate.
  Qed.

  Lemma u_inert : forallb inert_char s = true.
  Proof.
    unfold s. rewrite !forallb_app. rewrite (plain_inert pre Hpre), (plain_inert url url_plain), (plain_inert post Hpost). reflexivity.
  Qed.

  Theorem core_nothing_a : find_core_tokens s fn = ([], []).
  Proof.
    unfold find_core_tokens.
    assert (Hc : code_search s 0 = None).
    { unfold code_search. apply (search_state_none _ _ 96); [vm_compute; reflexivity|]. unfold seek. cbn [aft]. apply mem_drop. apply u_no_a. reflexivity. }
    rewrite Hc.
    set (st0 := mkScan [] [] false None false 0 []).
    replace (S (S (length s))) with (length s + 2)%nat by lia.
    pose proof (scan_inert_any s fn s 2 [] [] st0) as T. rewrite app_nil_r in T. cbn [app] in T.
    change (slen []) with 0 in T. rewrite T; [|reflexivity|exact u_inert|repeat split].
    replace (0 + slen s) with (slen s) by lia. rewrite scan_end. cbn [st0 sc_run sc_ds sc_ms sc_code].
    unfold process_emphasis. change (next_closer 0 []) with (@None Z). destruct (3 * length s + 3)%nat; reflexivity.
  Qed.

  Lemma find_all_auto : forall ts, forallb kind_quiet_a ts = true ->
    find_all ts s fn [] = flat_map (fun kd => if is_auto kd then [CRe SK_AutoLink u0 u1] else []) ts.
  Proof.
    induction ts as [|kd ts IH]; intros Hq; [reflexivity|].
    cbn [forallb] in Hq. apply andb_true_iff in Hq as [Hkq Hts]. cbn [find_all flat_map].
    assert (F : match kd with SK_CoreTokens | SK_InlineCode | SK_RawText | SK_AutoLink | SK_HtmlSpan => True | _ => finditer (snd (re_of kd)) (fst (re_of kd)) s = [] end).
    { destruct kd; try exact I; cbn [kind_quiet_a] in Hkq; apply existsb_exists in Hkq as (c & Hin & Hn);
        (apply (finditer_none _ _ c s Hn); apply u_no_a; unfold mem; apply existsb_exists; exists c; split; [exact Hin|apply Z.eqb_refl]). }
    destruct kd; cbn [find_kind is_auto];
      try (rewrite core_nothing_a; cbn [map app]; apply IH; exact Hts);
      try (cbn [map app]; apply IH; exact Hts);
      try (cbn [re_of fst snd]; rewrite auto_found; cbn [map app fst snd]; f_equal; apply IH; exact Hts);
      try (cbn [re_of fst snd]; rewrite html_nothing; cbn [map app]; apply IH; exact Hts);
      (cbn [re_of fst snd] in F |- *; rewrite F; cbn [map app]; apply IH; exact Hts).
  Qed.

  Definition auto_tok : tok := AutoLink url (mem 64 url && negb (mem 58 url)) [RawText url].

  Theorem tokenize_inner_auto types : forallb kind_quiet_a (removelast types) = true ->
    filter is_auto (removelast types) = [SK_AutoLink] ->
    tokenize_inner types fn s = raw_if pre ++ [auto_tok] ++ raw_if post.
  Proof.
    intros Hq Hf. unfold tokenize_inner. rewrite (find_all_auto _ Hq).
    assert (Es : flat_map (fun kd => if is_auto kd then [CRe SK_AutoLink u0 u1] else []) (removelast types) = [CRe SK_AutoLink u0 u1]).
    { clear Hq. revert Hf. generalize (removelast types) as ts.
      assert (G : forall ts n, length (filter is_auto ts) = n ->
                flat_map (fun kd => if is_auto kd then [CRe SK_AutoLink u0 u1] else []) ts = repeat (CRe SK_AutoLink u0 u1) n).
      { induction ts as [|kd ts IH]; intros n Hn; [cbn in Hn; subst n; reflexivity|]. cbn [flat_map filter] in *.
        destruct (is_auto kd); [|cbn [app]; apply IH; exact Hn]. destruct n as [|n]; [discriminate|]. cbn [length] in Hn. cbn [repeat app]. f_equal. apply IH. lia. }
      intros ts H. rewrite (G ts 1%nat) by (rewrite H; reflexivity). reflexivity. }
    rewrite Es.
    cbn [number_from map fst snd cand_of sk_parse_group grp_span sk_precedence sk_parse_inner].
    assert (Gs : group_span u1 1 = Some (a + 1, a + 1 + slen url)) by reflexivity.
    rewrite Gs. assert (P0 : pos u0 = a) by reflexivity. assert (P1 : pos u1 = e) by reflexivity. rewrite P0, P1.
    pose proof u_len as Hs.
    unfold tokenize, SpanTokenizer.make_tokens, make_tokens_with.
    cbn [sort_cands fold_right insert_stable buffer_rev eval_loop last_end pc ce mk_rev cs make inner ps pe app rev].
    assert (Gb : (if a >? 0 then [ORaw 0 a] else []) = match pre with [] => [] | _ => [ORaw 0 a] end) by (unfold a; apply gap_before).
    assert (Ga : (if e =? slen s then [] else [ORaw e (slen s)]) = match post with [] => [] | _ => [ORaw e (slen s)] end) by (rewrite Hs; apply gap_after).
    rewrite Gb, Ga. rewrite app_nil_r, rev_app_distr. cbn [rev app]. rewrite <- app_assoc. cbn [app].
    rewrite !map_app. cbn [map build_otok cid src_at Z.to_nat nth build_leaf].
    assert (G1 : gtext u1 1 = url).
    { unfold gtext, group_text, u1, as_end. cbn [grp lookup_grp Nat.eqb]. unfold segment. cbn [pos bef]. fold a. fold url.
      replace (a + 1 + slen url + 1 - (a + 1)) with (Z.of_nat (length (62 :: rev url))) by (cbn [length]; rewrite rev_length; unfold slen; lia).
      rewrite Nat2Z.id. replace (62 :: rev url ++ 60 :: rev pre) with ((62 :: rev url) ++ 60 :: rev pre) by reflexivity.
      rewrite firstn_app, Nat.sub_diag, firstn_all. cbn [firstn]. rewrite app_nil_r.
      change (62 :: rev url) with ([62] ++ rev url). rewrite rev_app_distr, rev_involutive. cbn [rev app].
      replace (a + 1 + slen url - (a + 1)) with (Z.of_nat (length url)) by (unfold slen; lia).
      rewrite Nat2Z.id, firstn_app, Nat.sub_diag, firstn_all. cbn [firstn]. apply app_nil_r. }
    rewrite G1. fold auto_tok. f_equal; [|f_equal].
    - rewrite ?app_nil_r. apply raw_gap. cbn [build_otok]. f_equal.
      pose proof (substr_mid [] pre ([60] ++ url ++ [62] ++ post)) as M. cbn [app] in M. unfold slen at 1 2 in M. cbn [length Z.of_nat] in M.
      fold a in M. replace (0 + a) with a in M by lia. unfold s. cbn [app]. rewrite M. apply unescape_plain. exact Hpre.
    - apply raw_gap. cbn [build_otok]. f_equal.
      pose proof (substr_mid (pre ++ [60] ++ url ++ [62]) post []) as M.
      replace (slen (pre ++ [60] ++ url ++ [62])) with e in M by (unfold e, a; rewrite !slen_app; unfold slen; cbn [length]; lia).
      rewrite app_nil_r in M. replace ((pre ++ [60] ++ url ++ [62]) ++ post) with s in M by (unfold s; rewrite <- !app_assoc; reflexivity).
      rewrite Hs. rewrite M. apply unescape_plain. exact Hpost.
  Qed.
End AutoS.

(* ---- the statement with computable hypotheses ---- *)
Definition auto_spans (types : list span_kind) : bool :=
  forallb kind_quiet_a (removelast types) && match filter is_auto (removelast types) with [SK_AutoLink] => true | _ => false end.

Definition auto_ok (pre : str) (c0 : Z) (sc r post : str) : bool :=
  plain_text pre && plain_text post && char_ok (mkFlags false false) LETTER c0 && forallb (char_ok (mkFlags false false) TAGSET) sc &&
  Nat.leb 1 (length sc) && Nat.leb (length sc) 31 && forallb (char_ok (mkFlags false false) URLREST) r && plain_text r.

(* a URI autolink: never the mailto form (the address holds a colon) *)
Definition auto_of (url : str) : tok := AutoLink url false [RawText url].

Theorem autolink_in_sentence types fn pre c0 sc r post :
  auto_spans types = true -> auto_ok pre c0 sc r post = true ->
  tokenize_inner types fn (pre ++ [60] ++ (c0 :: sc ++ 58 :: r) ++ [62] ++ post) = raw_if pre ++ [auto_of (c0 :: sc ++ 58 :: r)] ++ raw_if post.
Proof.
  intros Hs Ho. unfold auto_spans in Hs. apply andb_true_iff in Hs as [Hq Hc].
  unfold auto_ok in Ho. repeat rewrite andb_true_iff in Ho. destruct Ho as [[[[[[[H1 H2] H3] H4] H5] H6] H7] H8].
  apply Nat.leb_le in H5, H6.
  rewrite (tokenize_inner_auto pre c0 sc r post fn H1 H2 H3 H4 (conj H5 H6) H7 H8 types Hq).
  - unfold auto_tok, auto_of.
    assert (E : mem 58 (c0 :: sc ++ 58 :: r) = true).
    { unfold mem. cbn [existsb]. rewrite existsb_app. cbn [existsb Z.eqb Pos.eqb]. rewrite !orb_true_r. reflexivity. }
    rewrite E, andb_false_r. reflexivity.
  - destruct (filter _ _) as [|[] [|? ?]]; try discriminate. reflexivity.
Qed.

Example auto_instance :
  (auto_ok ($"see ") 104 ($"ttps") ($"//ex.am/a-b?c=d#e") ($", ok") = true) /\
  (auto_ok [] 109 ($"ailto") ($"me@ex.am") [] = true) /\
  (auto_ok [] 104 ($"ttp") ($"//a b") [] = false) /\ (auto_ok [] 104 [] ($"x") [] = false) /\ (auto_ok [] 49 ($"a") ($"x") [] = false).
Proof. vm_compute. repeat split; reflexivity. Qed.

Lemma auto_configs :
  map (fun c => auto_spans (cfg_span c)) [cfg_html; cfg_html_nohtml; cfg_markdown; cfg_latex; cfg_mathjax; cfg_default] = [true; true; true; true; true; true].
Proof. vm_compute. reflexivity. Qed.
