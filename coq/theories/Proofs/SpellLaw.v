(* the law of C03 on the tree grammar of Spec/Spell.v, as a boolean for kernel evaluation *)
From Coq Require Import ZArith List Bool.
From Mistletoe Require Import Base.Sx Base.PyStr Model.HtmlRenderer Model.Parser Spec.Spell.
Import ListNotations.
Definition spell_law (c : choices) (d : list sblk) : bool :=
  if in_family d then str_eqb (markdown_html (mkHopts false false) true (spell_doc c d)) (html_doc d) else true.
