(* The outline lists of Spec/Outline.v as whole documents: Document(lines) gives the
   tokenizer fuel enough; the HTML renderer model writes the HTML written directly from the
   forest; and the Markdown renderer model writes the lines back (round trip identity). *)
From Coq Require Import ZArith List Bool Lia.
From Mistletoe Require Import Base.Sx Base.PyStr Base.PyText Gen.GenTables Gen.GenConfig Gen.GenEscapes Model.Fillers Model.Tree Model.CoreTokens Model.Block Model.Build
     Model.HtmlRenderer Model.MarkdownRenderer Model.Parser Proofs.Prose Proofs.PlainProse Proofs.ListLaw Proofs.IndentLaw Spec.Fragment Proofs.FragmentP Proofs.FragmentDoc
     Proofs.FragmentHtml Proofs.RoundTrip Spec.Outline Proofs.OutlineP Proofs.TocNest.
Import ListNotations.
Local Open Scope Z_scope.

Section More.
  Variables (b : Z) (pad sub : nat).
  Hypothesis Hb : bullet_ok b.
  Hypothesis Hpad : (1 <= pad <= 4)%nat.
  Hypothesis Hsub : (sub <= 3)%nat.

  Notation olines := (Outline.olines b pad sub).
  Notation oforest := (Outline.oforest b pad sub).
  Notation otok := (Outline.otok b pad sub).

  (* ---- fuel ---- *)
  Lemma deepest_kid kids : kids <> [] -> exists x, In x kids /\ fold_right (fun x m => Nat.max (odepth x) m) 0%nat kids = odepth x.
  Proof.
    induction kids as [|y r IHr]; [contradiction|]. intros _. destruct r as [|z r'].
    - exists y. split; [left; reflexivity|cbn [fold_right]; lia].
    - destruct (IHr ltac:(discriminate)) as (x & Hin & E). cbn [fold_right] in E |- *.
      destruct (Nat.max_spec (odepth y) (Nat.max (odepth z) (fold_right (fun x m => Nat.max (odepth x) m) 0%nat r'))) as [[_ ->]|[_ ->]].
      + exists x. split; [right; exact Hin|exact E].
      + exists y. split; [left; reflexivity|reflexivity].
  Qed.

  Lemma deep_outline_line : forall f n k, (odepth n <= f)%nat -> exists l, In l (olines k n) /\ (k + 2 * odepth n <= weight l)%nat.
  Proof.
    induction f as [|f IH]; intros [c body kids] k Hd; [cbn [odepth] in Hd; lia|].
    destruct kids as [|k0 kr] eqn:Ek.
    - eexists. split; [left; reflexivity|]. cbn [odepth fold_right weight]. rewrite app_length, repeat_length. cbn [length]. lia.
    - rewrite <- Ek in *. assert (Hne : kids <> []) by (rewrite Ek; discriminate).
      destruct (deepest_kid kids Hne) as (x & Hx & E). destruct (IH x sub (odepth_kid _ _ _ _ _ Hx Hd)) as (l & Hl & Wl).
      exists (embed_s (k + 1 + pad) l). split.
      + cbn [Outline.olines]. right. apply in_map. apply in_flat_map. exists x. split; assumption.
      + cbn [odepth]. rewrite E. assert (1 <= odepth x)%nat by (destruct x; cbn [odepth]; lia).
        destruct l as [|k' c' b']; cbn [weight] in Wl; [lia|]. cbn [embed_s weight]. lia.
  Qed.

  Lemma outline_fuel k ns : Forall (fun n => (odepth n <= S (fold_left (fun m l => Nat.max m (length l)) (text_of (oforest k ns)) 0))%nat) ns.
  Proof.
    apply Forall_forall. intros x Hx. destruct (deep_outline_line (odepth x) x k (le_n _)) as (l & Hl & Wl).
    assert (Hin : In (render_line l) (text_of (oforest k ns))).
    { unfold text_of. apply in_map. unfold Outline.oforest. apply in_flat_map. exists x. split; assumption. }
    pose proof (longest_ge (text_of (oforest k ns)) (render_line l) Hin 0%nat) as G.
    assert (1 <= odepth x)%nat by (destruct x; cbn [odepth]; lia). rewrite weight_length in G by lia. lia.
  Qed.

  (* ---- Document(lines) ---- *)
  Theorem outline_document cfg k ns :
    list_first (cfg_block cfg) = true -> In BK_Paragraph (cfg_block cfg) -> forallb kind_quiet (removelast (cfg_span cfg)) = true ->
    (k <= 3)%nat -> ns <> [] -> forallb owf ns = true ->
    fst (fst (parse_lines cfg (text_of (oforest k ns)))) = Document [List None false (map (otok k) ns)].
  Proof.
    intros Hlf Hpar Hq Hk Hne Hw. unfold parse_lines, block_phase, depth_fuel.
    set (f := S (fold_left (fun m l => Nat.max m (length l)) (text_of (oforest k ns)) 0%nat)).
    assert (Hok : Forall (node_ok f) ns).
    { pose proof (outline_fuel k ns) as F. rewrite Forall_forall in F. apply Forall_forall. intros x Hx. split; [apply F; exact Hx|].
      rewrite forallb_forall in Hw. apply Hw. exact Hx. }
    pose proof (outline_tokens b pad sub (cfg_span cfg) (cfg_keep_defs cfg)) as T.
    destruct (tokenize_block (cfg_block cfg) (S f) (text_of (oforest k ns)) 1 (mkPs true)) as [[es lo] st'] eqn:Et.
    specialize (T (footnotes_of es) Hq (cfg_block cfg) f ns 1 (mkPs true) k Hb Hpad Hsub Hk Hlf Hpar Hne Hok). rewrite Et in T. cbn [fst] in T |- *.
    rewrite T. reflexivity.
  Qed.

  (* ---- HTML ---- *)
  Fixpoint html_item (o : hopts) (n : onode) : str :=
    match n with
    | ONode c body kids =>
      $"<li>" ++ escape_html_text o (c :: body) ++
      match kids with [] => [] | _ => [10] ++ $"<ul>" ++ [10] ++ join [10] (map (html_item o) kids) ++ [10] ++ $"</ul>" ++ [10] end ++ $"</li>"
    end.
  Definition html_list (o : hopts) (ns : list onode) : str := $"<ul>" ++ [10] ++ join [10] (map (html_item o) ns) ++ [10] ++ $"</ul>".

  Lemma serialize_join_gen {A} (f : A -> list item) ts :
    serialize (join_items [nl] (map f ts)) = join [10] (map (fun t => serialize (f t)) ts).
  Proof.
    induction ts as [|x r IH]; [reflexivity|]. destruct r as [|y r']; [reflexivity|].
    change (map f (x :: y :: r')) with (f x :: map f (y :: r')).
    change (map (fun t => serialize (f t)) (x :: y :: r')) with (serialize (f x) :: map (fun t => serialize (f t)) (y :: r')).
    cbn [join_items join map] in *. rewrite !serialize_app, IH. reflexivity.
  Qed.

  Lemma html_outline_item o : forall f n k, (odepth n <= f)%nat -> serialize (render o true false (otok k n)) = html_item o n.
  Proof.
    induction f as [|f IH]; intros [c body kids] k Hd; [cbn [odepth] in Hd; lia|].
    cbn [Outline.otok]. rewrite render_item by discriminate.
    destruct kids as [|k0 kr] eqn:Ek.
    - cbn. rewrite ?app_nil_r. reflexivity.
    - rewrite <- Ek in *. assert (Hne : kids <> []) by (rewrite Ek; discriminate).
      assert (Ef : first_is_paragraph (Paragraph [RawText (c :: body)] :: [List None false (map (otok sub) kids)]) = true) by reflexivity.
      assert (El : last_is_paragraph (Paragraph [RawText (c :: body)] :: [List None false (map (otok sub) kids)]) = false) by reflexivity.
      rewrite Ef, El. cbn [andb map join_items]. cbn [render flat_map negb]. rewrite app_nil_r.
      unfold wrap, serialize. cbn [flat_map app]. rewrite !flat_map_app. cbn [flat_map]. rewrite ?flat_map_app, ?app_nil_r. change (flat_map ser_item) with serialize.
      rewrite (serialize_join_gen (render o true false)). rewrite map_map.
      rewrite (map_ext_in _ (html_item o)) by (intros x Hx; apply IH; eapply odepth_kid; eassumption).
      cbn [html_item]. rewrite Ek at 1. rewrite <- Ek. set (J := join [10] (map (html_item o) kids)).
      change (fill o html_raw_text (c :: body)) with (escape_html_text o (c :: body)). set (T := escape_html_text o (c :: body)).
      destruct kids as [|kk kkr]; [contradiction|]. cbn. rewrite ?app_nil_r. repeat (rewrite <- ?app_assoc; cbn [app]). reflexivity.
  Qed.

  Theorem outline_html cfg o k ns :
    list_first (cfg_block cfg) = true -> In BK_Paragraph (cfg_block cfg) -> forallb kind_quiet (removelast (cfg_span cfg)) = true ->
    (k <= 3)%nat -> ns <> [] -> forallb owf ns = true ->
    render_html o (fst (fst (parse_lines cfg (text_of (oforest k ns))))) = html_list o ns ++ [10].
  Proof.
    intros Hlf Hpar Hq Hk Hne Hw. rewrite (outline_document cfg k ns Hlf Hpar Hq Hk Hne Hw).
    assert (E : serialize (render o false false (List None false (map (otok k) ns))) = html_list o ns).
    { cbn [render negb]. unfold wrap, serialize. cbn [flat_map app]. rewrite !flat_map_app. cbn [flat_map]. rewrite ?app_nil_r. change (flat_map ser_item) with serialize.
      rewrite (serialize_join_gen (render o true false)), map_map.
      rewrite (map_ext _ (html_item o)) by (intros x; apply (html_outline_item o (odepth x)); lia).
      unfold html_list. cbn. rewrite ?app_nil_r. repeat (rewrite <- ?app_assoc; cbn [app]). reflexivity. }
    rewrite (render_document_one o _ (tl (html_list o ns))) by (rewrite E; reflexivity). rewrite E. reflexivity.
  Qed.

  (* ---- Markdown: the lines are written back ---- *)
  Lemma md_outline_item : forall f n k, (odepth n <= f)%nat -> owf n = true ->
    block_lines (mkMopts false) None (otok k n) = map bare (olines k n).
  Proof.
    induction f as [|f IH]; intros [c body kids] k Hd Hw; [cbn [odepth] in Hd; lia|].
    cbn [owf] in Hw. apply andb_true_iff in Hw as [Ht Hkids]. apply andb_true_iff in Ht as [Hpl _]. apply plain_line_reflect in Hpl.
    destruct Hpl as (Hp & _ & _ & _).
    assert (Kids : flat_map (block_lines (mkMopts false) None) (map (otok sub) kids) = map bare (oforest sub kids)).
    { unfold Outline.oforest. rewrite flat_map_concat_map, map_map, <- flat_map_concat_map.
      rewrite (TocNest.map_flat_map bare). apply TocNest.flat_map_ext_in. intros x Hx.
      rewrite forallb_forall in Hkids. apply IH; [eapply odepth_kid; eassumption|apply Hkids; exact Hx]. }
    cbn [Outline.otok block_lines normalize_ws i_prepend i_indentation i_leader sub_opt].
    assert (Bl : flat_map (block_lines (mkMopts false) None)
                   (Paragraph [RawText (c :: body)] :: match kids with [] => [] | _ :: _ => [List None false (map (otok sub) kids)] end) =
                 (c :: body) :: map bare (oforest sub kids)).
    { cbn [flat_map block_lines]. unfold span_to_lines. cbn [flat_map frags app fragments_to_lines plain_from ftext Fw].
      rewrite (plain_no 10 (c :: body) eq_refl Hp). cbn [nonempty app]. f_equal.
      destruct kids as [|k0 kr]; [reflexivity|]. cbn [flat_map block_lines]. rewrite app_nil_r. exact Kids. }
    rewrite Bl. cbn [or_blank].
    set (w := (k + 1 + pad)%nat).
    assert (Ew : spaces (Z.of_nat w) = repeat 32 w) by (unfold spaces; rewrite Nat2Z.id; reflexivity).
    assert (Ek : spaces (Z.of_nat k) = repeat 32 k) by (unfold spaces; rewrite Nat2Z.id; reflexivity).
    assert (Ep : spaces (Z.of_nat w - len [b] - Z.of_nat k) = repeat 32 pad) by (unfold spaces, len, w; cbn [length]; f_equal; lia).
    unfold prefix_lines. rewrite Ew, Ek, Ep. destruct w as [|w'] eqn:E0; [lia|].
    cbn [repeat prefix_from]. change (32 :: repeat 32 w') with (repeat 32 (S w')).
    rewrite (prefix_from_false_embed _ (S w') (oforest sub kids) (Nat.lt_0_succ _)).
    cbn [nonempty orb Outline.olines map bare]. f_equal; [rewrite <- !app_assoc; reflexivity|]. unfold Outline.oforest. first [rewrite <- E0; reflexivity|rewrite E0; reflexivity|subst w; rewrite E0; reflexivity].
  Qed.

  Theorem outline_round_trip k ns : (k <= 3)%nat -> ns <> [] -> forallb owf ns = true ->
    render_md (mkMopts false) None (fst (fst (parse_lines cfg_markdown (text_of (oforest k ns))))) = concat (text_of (oforest k ns)).
  Proof.
    intros Hk Hne Hw. rewrite (outline_document cfg_markdown k ns eq_refl) by (try assumption; try reflexivity; vm_compute; auto 20).
    unfold render_md. cbn [is_block block_lines flat_map]. rewrite app_nil_r.
    assert (E : flat_map (block_lines (mkMopts false) None) (map (otok k) ns) = map bare (oforest k ns)).
    { unfold Outline.oforest. rewrite flat_map_concat_map, map_map, <- flat_map_concat_map.
      rewrite (TocNest.map_flat_map bare). apply TocNest.flat_map_ext_in. intros x Hx.
      rewrite forallb_forall in Hw. apply (md_outline_item (odepth x)); [lia|apply Hw; exact Hx]. }
    rewrite E. apply render_lines_bare.
  Qed.
End More.
