(* C09, renderer level: without a line limit the Markdown renderer emits the
   fragment texts verbatim; HTML blocks and rules are reproduced verbatim. *)
From Coq Require Import ZArith List Bool Lia.
From Mistletoe Require Import Base.Sx Base.PyStr Model.Tree Model.MarkdownRenderer.
Import ListNotations.
Local Open Scope Z_scope.

Definition no_nl (s : str) : Prop := mem 10 s = false.

Lemma mem_app c a b : mem c (a ++ b) = mem c a || mem c b.
Proof. unfold mem. apply existsb_app. Qed.

Lemma mem_rev c s : mem c (rev s) = mem c s.
Proof.
  unfold mem. apply eq_true_iff_eq. rewrite !existsb_exists. split; intros (x & Hx & E); exists x; split; auto;
    [now apply in_rev|now apply in_rev in Hx].
Qed.

(* text = pieces joined by newlines *)
Lemma split_nl_aux_join : forall s cur,
  rev cur ++ s = join NL (split_nl_aux cur s) /\ split_nl_aux cur s <> [].
Proof.
  induction s as [|c r IH]; intros cur; cbn [split_nl_aux].
  - split; [cbn; now rewrite app_nil_r|discriminate].
  - destruct (Z.eqb_spec c 10) as [->|Hn].
    + destruct (IH []) as [E Hne]. split; [|discriminate].
      destruct (split_nl_aux [] r) as [|p ps] eqn:Es; [congruence|].
      change (join NL (rev cur :: p :: ps)) with (rev cur ++ NL ++ join NL (p :: ps)).
      rewrite <- E. reflexivity.
    + destruct (IH (c :: cur)) as [E Hne]. split; [|exact Hne].
      rewrite <- E. cbn [rev]. now rewrite <- app_assoc.
Qed.

Lemma split_nl_join s : join NL (split_nl s) = s.
Proof. unfold split_nl. destruct (split_nl_aux_join s []) as [E _]. now rewrite <- E. Qed.

Lemma split_nl_pieces : forall s cur, mem 10 cur = false -> Forall no_nl (split_nl_aux cur s).
Proof.
  induction s as [|c r IH]; intros cur Hc; cbn [split_nl_aux].
  - repeat constructor. unfold no_nl. now rewrite mem_rev.
  - destruct (Z.eqb_spec c 10) as [->|Hn].
    + constructor; [unfold no_nl; now rewrite mem_rev|apply IH; reflexivity].
    + apply IH. unfold mem in *. cbn [existsb]. rewrite Hc, orb_false_r. apply Z.eqb_neq. congruence.
Qed.

Lemma split_nl_single s : mem 10 s = false -> split_nl s = [s].
Proof.
  unfold split_nl. assert (H : forall cur, mem 10 s = false -> split_nl_aux cur s = [rev cur ++ s]).
  { induction s as [|c r IH]; intros cur Hs; cbn [split_nl_aux]; [now rewrite app_nil_r|].
    unfold mem in Hs. cbn [existsb] in Hs. apply orb_false_iff in Hs. destruct Hs as [Hc Hr].
    rewrite Z.eqb_sym in Hc. rewrite Hc. rewrite IH by exact Hr. cbn [rev]. now rewrite <- app_assoc. }
  intros Hs. now rewrite H.
Qed.

(* the text of a line list as the renderer writes it: every line followed by '\n' *)
Definition lines_text (lines : list str) : str := flat_map (fun l => l ++ NL) lines.

(* exactly one final newline: nothing for the empty text, nothing more when the text already ends in one *)
Definition ends_nl (t : str) : bool := match rev t with c :: _ => c =? 10 | [] => false end.
Definition end_nl (t : str) : str := match t with [] => [] | _ => if ends_nl t then t else t ++ NL end.

Lemma ends_nl_app A B : B <> [] -> ends_nl (A ++ B) = ends_nl B.
Proof.
  intros HB. unfold ends_nl. rewrite rev_app_distr. destruct (rev B) as [|x y] eqn:E; [|reflexivity].
  apply (f_equal (@rev Z)) in E. rewrite rev_involutive in E. cbn in E. congruence.
Qed.

Lemma end_nl_app A B : A <> [] -> ends_nl A = true -> end_nl (A ++ B) = A ++ end_nl B.
Proof.
  intros HA HE. destruct B as [|b B].
  - rewrite app_nil_r. unfold end_nl. destruct A; [congruence|]. rewrite HE. now rewrite app_nil_r.
  - unfold end_nl at 1. destruct (A ++ b :: B) eqn:E; [destruct A; discriminate|]. rewrite <- E.
    rewrite ends_nl_app by discriminate. unfold end_nl. destruct (ends_nl (b :: B)); [reflexivity|].
    now rewrite <- app_assoc.
Qed.

Lemma no_nl_ends cur : no_nl cur -> ends_nl cur = false.
Proof.
  unfold no_nl, ends_nl. intros H. rewrite <- mem_rev in H. destruct (rev cur) as [|c r]; [reflexivity|].
  unfold mem in H. cbn [existsb] in H. apply orb_false_iff in H. destruct H as [H _]. now rewrite Z.eqb_sym.
Qed.

Lemma join_removelast rest : rest <> [] -> join NL rest = lines_text (removelast rest) ++ last rest [].
Proof.
  induction rest as [|x r IH]; intros Hn; [congruence|].
  destruct r as [|y r']; [reflexivity|].
  change (join NL (x :: y :: r')) with (x ++ NL ++ join NL (y :: r')).
  rewrite IH by discriminate. cbn [removelast last lines_text flat_map].
  now rewrite <- !app_assoc.
Qed.

Lemma lines_text_app a b : lines_text (a ++ b) = lines_text a ++ lines_text b.
Proof. apply flat_map_app. Qed.

Lemma lines_text_ends l : l <> [] -> ends_nl (lines_text l) = true /\ lines_text l <> [].
Proof.
  intros Hn. destruct (exists_last Hn) as (l' & x & ->). rewrite lines_text_app. cbn [lines_text flat_map].
  rewrite app_nil_r. split.
  - rewrite app_assoc, ends_nl_app by discriminate. reflexivity.
  - intro E. apply app_eq_nil in E. destruct E as [_ E]. apply app_eq_nil in E. destruct E; discriminate.
Qed.

Theorem plain_verbatim : forall frs cur, no_nl cur ->
  lines_text (plain_from cur frs) = end_nl (cur ++ concat (map ftext frs)).
Proof.
  induction frs as [|f r IH]; intros cur Hc; cbn [plain_from map concat].
  - rewrite app_nil_r. destruct cur as [|c cur]; [reflexivity|].
    cbn [nonempty lines_text flat_map]. rewrite app_nil_r. unfold end_nl. now rewrite no_nl_ends.
  - destruct (mem 10 (ftext f)) eqn:Em.
    + destruct (split_nl (ftext f)) as [|first rest] eqn:Es.
      { exfalso. unfold split_nl in Es. destruct (split_nl_aux_join (ftext f) []) as [_ H]. congruence. }
      assert (Hrest : rest <> []).
      { intro; subst rest. pose proof (split_nl_join (ftext f)) as J. rewrite Es in J. cbn in J.
        pose proof (split_nl_pieces (ftext f) [] eq_refl) as P. fold (split_nl (ftext f)) in P. rewrite Es in P.
        inversion P; subst. unfold no_nl in *. congruence. }
      assert (Hlast : no_nl (last rest [])).
      { pose proof (split_nl_pieces (ftext f) [] eq_refl) as P. fold (split_nl (ftext f)) in P. rewrite Es in P.
        inversion P as [|? ? _ Pr]; subst. rewrite Forall_forall in Pr. apply Pr.
        destruct (exists_last Hrest) as (l' & x & ->). rewrite last_last. apply in_or_app. right. left. reflexivity. }
      cbn [lines_text flat_map]. fold (lines_text (removelast rest ++ plain_from (last rest []) r)).
      rewrite lines_text_app, IH by exact Hlast.
      pose proof (split_nl_join (ftext f)) as J. rewrite Es in J.
      assert (J2 : ftext f = first ++ NL ++ lines_text (removelast rest) ++ last rest []).
      { rewrite <- J. destruct rest as [|y r']; [congruence|].
        change (join NL (first :: y :: r')) with (first ++ NL ++ join NL (y :: r')).
        now rewrite join_removelast by discriminate. }
      rewrite J2.
      replace (cur ++ (first ++ NL ++ lines_text (removelast rest) ++ last rest []) ++ concat (map ftext r))
        with (((cur ++ first) ++ NL ++ lines_text (removelast rest)) ++ (last rest [] ++ concat (map ftext r)))
        by (now rewrite <- !app_assoc).
      rewrite (end_nl_app ((cur ++ first) ++ NL ++ lines_text (removelast rest))).
      * now rewrite <- !app_assoc.
      * intro E. apply app_eq_nil in E. destruct E as [_ E]. discriminate.
      * destruct (removelast rest) as [|z zs] eqn:Er.
        -- cbn [lines_text flat_map]. rewrite app_nil_r. rewrite ends_nl_app by discriminate. reflexivity.
        -- rewrite app_assoc. rewrite ends_nl_app; [apply lines_text_ends; discriminate|apply lines_text_ends; discriminate].
    + rewrite IH.
      * now rewrite <- app_assoc.
      * unfold no_nl in *. rewrite mem_app. now rewrite Hc, Em.
Qed.

(* MarkdownRenderer.render without a limit writes the texts of the fragments,
   verbatim, followed by one newline (none for an empty text, no second one) *)
Theorem span_verbatim ch :
  lines_text (span_to_lines None ch) = end_nl (concat (map ftext (flat_map frags ch))).
Proof. unfold span_to_lines. cbn [fragments_to_lines]. now rewrite plain_verbatim by reflexivity. Qed.

(* HTML blocks and thematic breaks are reproduced verbatim *)
Theorem html_block_verbatim o L c : join NL (block_lines o L (HtmlBlock c)) = c.
Proof. cbn [block_lines]. apply split_nl_join. Qed.

Theorem thematic_break_verbatim o L line : block_lines o L (ThematicBreak line) = [line].
Proof. reflexivity. Qed.

(* blank lines and link reference definitions are kept as tokens and written in place, one line each *)
Theorem blank_line_kept o L : block_lines o L BlankLine = [[]].
Proof. reflexivity. Qed.

Theorem definitions_in_place o L ch :
  block_lines o L (LinkRefDefBlock ch) = flat_map (fun c => span_to_lines L [c]) ch.
Proof. reflexivity. Qed.

Example verbatim_example :
  render_md (mkMopts false) None (Paragraph [RawText $"a *b"; LineBreak $"  " false; Emphasis $"_" [RawText $"c"]])
  = $"a *b  " ++ NL ++ $"_c_" ++ NL.
Proof. vm_compute. reflexivity. Qed.
