(* C14, unbounded, for paragraphs of SEVERAL lines: lines free of the trigger characters,
   each beginning with a character that can neither open a block nor be a setext underline
   and none ending in white space, render as one <p> holding the lines, escaped, separated
   by newlines - through the block phase (the paragraph reader goes on over every line), the
   inline phase (the LineBreak pattern finds exactly the newlines - evaluated in the regex
   engine; every other finder finds nothing; the candidates tile the text) and the renderer. *)
From Coq Require Import ZArith List Bool Lia.
From Mistletoe Require Import Base.Sx Base.PyStr Base.PyText Gen.GenTables Gen.GenRegex Gen.GenConfig Re.ReMatch
     Model.SpanTokenizer Model.Tree Model.Unescape Model.CoreTokens Model.Inline Model.Block Model.Build Model.Parser Model.HtmlRenderer
     Proofs.ReFirst Proofs.ReNeeds Proofs.ReExact Proofs.Prose Proofs.PlainProse Proofs.ListLaw.
Import ListNotations.
Local Open Scope Z_scope.

(* ---- the LineBreak pattern finds the next newline ---- *)
Definition LB : re := Seq (Grp 1 (Alt (Rep true 0 None (Lit 32)) (Lit 92))) (Lit 10).
Lemma lb_shape : re_span_token_LineBreak_pattern = LB /\ fl_span_token_LineBreak_pattern = mkFlags false false.
Proof. split; reflexivity. Qed.

(* a stretch of text before a newline: no newline, no backslash, not ending in a space *)
Definition ok_tail (l : str) : Prop := mem 10 l = false /\ mem 92 l = false /\ (l <> [] -> last l 0 <> 32).

Lemma ok_tail_tl c t : ok_tail (c :: t) -> ok_tail t.
Proof.
  intros (A & B & C). unfold mem in *. cbn [existsb] in A, B. apply orb_false_iff in A as [_ A]. apply orb_false_iff in B as [_ B].
  repeat split; try assumption. intros Hne. destruct t as [|d t']; [contradiction|]. apply C. discriminate.
Qed.

Fixpoint span32 (l : str) : str * str :=
  match l with
  | c :: r => if c =? 32 then (32 :: fst (span32 r), snd (span32 r)) else ([], l)
  | [] => ([], [])
  end.
Lemma span32_spec l : l = fst (span32 l) ++ snd (span32 l) /\ fst (span32 l) = repeat 32 (length (fst (span32 l))) /\
                      match snd (span32 l) with d :: _ => (d =? 32) = false | [] => True end.
Proof.
  induction l as [|c r IH]; [cbn; auto|]. cbn [span32]. destruct (c =? 32) eqn:Ec.
  - apply Z.eqb_eq in Ec. subst c. cbn [fst snd] in *. destruct IH as (E & R & N).
    repeat split; [cbn [app]; rewrite <- E; reflexivity|cbn [length repeat]; rewrite <- R; reflexivity|exact N].
  - cbn [fst snd app length repeat]. repeat split. exact Ec.
Qed.

Lemma last_repeat32 n : last (repeat 32 (S n)) 0 = 32.
Proof. induction n as [|n IH]; [reflexivity|]. change (repeat 32 (S (S n))) with (32 :: repeat 32 (S n)). cbn [last]. cbn [repeat] in *. exact IH. Qed.

Section LBsearch.
  Let fl := mkFlags false false.

  (* no match of LB starts inside such a stretch *)
  Lemma lb_none_here c t rest s k : aft s = (c :: t) ++ 10 :: rest -> ok_tail (c :: t) -> m fl LB s k = None.
  Proof.
    intros Ha Hok. destruct (span32_spec (c :: t)) as (E & R & N).
    set (run := fst (span32 (c :: t))) in *. set (l' := snd (span32 (c :: t))) in *.
    destruct Hok as (H10 & H92 & Hlast).
    (* what follows the run of spaces: a character of the stretch that is neither space nor newline *)
    assert (Hl' : exists d t', l' = d :: t' /\ (d =? 32) = false /\ (d =? 10) = false).
    { destruct l' as [|d t'] eqn:El.
      - exfalso. rewrite app_nil_r in E. assert (Hr : run <> []) by (rewrite <- E; discriminate).
        apply (Hlast ltac:(discriminate)). rewrite E, R. destruct (length run) as [|n] eqn:En; [destruct run; [contradiction|discriminate]|].
        apply last_repeat32.
      - exists d, t'. split; [reflexivity|]. split; [exact N|].
        destruct (d =? 10) eqn:Ed; [|reflexivity]. apply Z.eqb_eq in Ed. subst d.
        assert (mem 10 (c :: t) = true) by (rewrite E; unfold mem; rewrite existsb_app; cbn [existsb]; change (10 =? 10) with true; cbn [orb]; apply orb_true_r). congruence. }
    destruct Hl' as (d & t' & El & Hd32 & Hd10).
    assert (Hc92 : (c =? 92) = false).
    { unfold mem in H92. cbn [existsb] in H92. apply orb_false_iff in H92 as [H _]. rewrite Z.eqb_sym. exact H. }
    unfold LB. rewrite m_seq, m_grp, m_alt.
    assert (A1 : m fl (Rep true 0 None (Lit 32)) s (fun s' => m fl (Lit 10) (set_grp 1 (pos s) (pos s') s') k) = None).
    { apply (m_greedy_none fl (Lit 32) 0 None s _ run (d :: t' ++ 10 :: rest)); [reflexivity|exact Hd32| |rewrite R; apply forallb_repeat; reflexivity|].
      - rewrite Ha, E, El, <- app_assoc. reflexivity.
      - intros j Hj. destruct (skipn j run) as [|x r] eqn:Es.
        + cbn [app]. erewrite (m_char fl (Lit 10) _ d _ _ eq_refl); [|reflexivity]. cbn [char_ok]. rewrite Hd10. reflexivity.
        + assert (x = 32) by (apply (repeat_spec (length run) 32 x); rewrite <- R; apply (in_skipn x j); rewrite Es; left; reflexivity). subst x.
          cbn [app]. erewrite (m_char fl (Lit 10) _ 32 _ _ eq_refl); [|reflexivity]. reflexivity. }
    rewrite A1. cbn [orelse]. rewrite (m_char fl (Lit 92) s c (t ++ 10 :: rest) _ eq_refl Ha). cbn [char_ok]. rewrite Hc92. reflexivity.
  Qed.

  (* at the newline the pattern matches it, with an empty first group *)
  Lemma lb_here rest s k : aft s = 10 :: rest ->
    m fl LB s k = k (advance (set_grp 1 (pos s) (pos s) s) 10 rest).
  Proof.
    intros Ha. unfold LB. rewrite m_seq, m_grp, m_alt.
    assert (A1 : forall k', m fl (Rep true 0 None (Lit 32)) s k' = k' s).
    { intros k'. cbn [m repeat app loop Nat.ltb Nat.leb under]. rewrite Ha. cbn [char_ok Z.eqb Pos.eqb orelse]. destruct (k' s); reflexivity. }
    rewrite A1.
    assert (E : m fl (Lit 10) (set_grp 1 (pos s) (pos s) s) k = k (advance (set_grp 1 (pos s) (pos s) s) 10 rest)).
    { rewrite (m_char fl (Lit 10) (set_grp 1 (pos s) (pos s) s) 10 rest _ eq_refl Ha). reflexivity. }
    rewrite E. destruct (k _); [reflexivity|]. cbn [orelse]. rewrite (m_char fl (Lit 92) s 10 rest _ eq_refl Ha). reflexivity.
  Qed.
End LBsearch.

(* ---- search and finditer on lines joined by newlines ---- *)
Definition lb_end (s' : mst) (rest : str) : mst :=
  advance (set_grp 1 (pos s') (pos s') (mkMst (bef s') (aft s') (pos s') [])) 10 rest.

Section LBfind.
  Let fl := mkFlags false false.

  Lemma search_lb : forall l s fuel ma rest, aft s = l ++ 10 :: rest -> ok_tail l -> (length l <= length fuel)%nat ->
    search_from fl LB fuel ma s = Some (adv_run s l (10 :: rest), lb_end (adv_run s l (10 :: rest)) rest).
  Proof.
    induction l as [|c t IH]; intros s fuel ma rest Ha Hok Hf.
    - cbn [app] in Ha. assert (Es : adv_run s [] (10 :: rest) = s) by (rewrite <- Ha; apply adv_run_nil). rewrite Es.
      destruct fuel as [|x fuel']; cbn [search_from];
        rewrite (lb_here rest (mkMst (bef s) (aft s) (pos s) []) _ Ha); cbn [advance set_grp pos];
        (replace (pos s + 1 =? pos s) with false by (symmetry; apply Z.eqb_neq; lia)); rewrite andb_false_r; reflexivity.
    - destruct fuel as [|x fuel']; [cbn [length] in Hf; lia|]. cbn [search_from].
      rewrite (lb_none_here c t rest (mkMst (bef s) (aft s) (pos s) []) _ Ha Hok).
      rewrite Ha. cbn [app]. rewrite (IH (advance s c (t ++ 10 :: rest)) fuel' false rest eq_refl (ok_tail_tl c t Hok)) by (cbn [length] in Hf; lia).
      rewrite adv_run_cons. reflexivity.
  Qed.

  Lemma lb_needs_newline : needs LB 10 = true.
  Proof. reflexivity. Qed.

  Fixpoint newline_positions (p : Z) (ls : list str) : list Z :=
    match ls with
    | l :: ((_ :: _) as r) => (p + slen l) :: newline_positions (p + slen l + 1) r
    | _ => []
    end.

  Definition lb_ok (P : Z) (mm : mst * mst) : Prop :=
    pos (fst mm) = P /\ pos (snd mm) = P + 1 /\ lookup_grp 1 (grp (snd mm)) = Some (P, P).

  Lemma finditer_lb : forall ls s fuel ma, ls <> [] -> aft s = join [10] ls -> Forall ok_tail ls -> (length ls <= S (length fuel))%nat ->
    Forall2 lb_ok (newline_positions (pos s) ls) (finditer_from fl LB fuel ma s).
  Proof.
    induction ls as [|l r IH]; intros s fuel ma Hne Ha Hok Hf; [contradiction|].
    inversion Hok as [|? ? Hl Hr]; subst. destruct r as [|l2 r'].
    - cbn [join] in Ha. cbn [newline_positions].
      assert (N : search_from fl LB (aft s) ma s = None).
      { apply (search_none fl LB 10 lb_needs_newline). rewrite Ha. apply Hl. }
      destruct fuel; cbn [finditer_from]; rewrite N; constructor.
    - assert (Ej : join [10] (l :: l2 :: r') = l ++ 10 :: join [10] (l2 :: r')) by reflexivity. rewrite Ej in Ha.
      destruct fuel as [|x fuel']; [cbn [length] in Hf; lia|]. cbn [finditer_from].
      change (newline_positions (pos s) (l :: l2 :: r')) with ((pos s + slen l) :: newline_positions (pos s + slen l + 1) (l2 :: r')).
      rewrite (search_lb l s (aft s) ma _ Ha Hl) by (rewrite Ha, app_length; lia).
      constructor.
      + unfold lb_ok, lb_end. cbn [fst snd adv_run advance set_grp pos grp lookup_grp Nat.eqb]. repeat split.
      + unfold lb_end. cbn [advance set_grp bef aft pos adv_run].
        replace (pos s + slen l + 1 =? pos s + slen l) with false by (symmetry; apply Z.eqb_neq; lia).
        apply (IH (mkMst (10 :: rev l ++ bef s) (join [10] (l2 :: r')) (pos s + slen l + 1) []) fuel' false); [discriminate|reflexivity|exact Hr|cbn [length] in Hf |- *; lia].
  Qed.
End LBfind.

(* ---- text whose only trigger character is the newline: every finder but LineBreak finds nothing ---- *)
Definition triggers_nl : list Z := [92; 42; 95; 91; 93; 33; 96; 126; 60; 36; 38; 123; 124].
Definition prose_text (s : str) : bool := forallb (fun c => negb (mem c triggers_nl)) s.

Lemma prose_no c s : mem c triggers_nl = true -> prose_text s = true -> mem c s = false.
Proof.
  intros Hc. induction s as [|x s IH]; [reflexivity|].
  cbn [prose_text forallb]. intros H. apply andb_true_iff in H as [Hx Hs].
  unfold mem at 1. cbn [existsb]. fold (mem c s). rewrite (IH Hs), orb_false_r.
  destruct (c =? x) eqn:E; [|reflexivity]. apply Z.eqb_eq in E. subst x. rewrite Hc in Hx. discriminate.
Qed.

Lemma prose_char_at s : prose_text s = true -> forall i, 0 <= i < slen s -> mem (char_at s i) triggers_nl = false.
Proof.
  intros H i Hi. unfold char_at. destruct (i <? 0) eqn:E; [apply Z.ltb_lt in E; lia|].
  unfold prose_text in H. rewrite forallb_forall in H.
  assert (In (nth (Z.to_nat i) s (-1)) s) by (apply nth_In; unfold slen in Hi; lia).
  apply negb_true_iff. apply H. assumption.
Qed.

Lemma plain_is_prose s : plain_text s = true -> prose_text s = true.
Proof.
  unfold plain_text, prose_text. intros H. apply forallb_forall. intros x Hx. rewrite forallb_forall in H. specialize (H x Hx).
  apply negb_true_iff in H. apply negb_true_iff. unfold mem, triggers, triggers_nl in *. cbn [existsb] in *.
  repeat (apply orb_false_iff in H; destruct H as [? H]). repeat (apply orb_false_iff; split; try assumption).
Qed.

Lemma prose_join ls : Forall (fun l => plain_text l = true) ls -> prose_text (join [10] ls) = true.
Proof.
  induction 1 as [|l r Hl _ IH]; [reflexivity|]. destruct r as [|l2 r']; [cbn [join]; apply plain_is_prose; exact Hl|].
  change (join [10] (l :: l2 :: r')) with (l ++ 10 :: join [10] (l2 :: r')). unfold prose_text in *. rewrite forallb_app. cbn [forallb].
  rewrite IH. fold (prose_text l). rewrite (plain_is_prose l Hl). reflexivity.
Qed.

Definition kind_quiet_nl (k : span_kind) : bool :=
  match k with
  | SK_CoreTokens | SK_InlineCode | SK_RawText | SK_LineBreak => true
  | _ => existsb (fun c => needs (fst (re_of k)) c) triggers_nl
  end.

Lemma quiet_finditer_nl k s : kind_quiet_nl k = true -> prose_text s = true ->
  (match k with SK_CoreTokens | SK_InlineCode | SK_RawText | SK_LineBreak => True | _ => finditer (snd (re_of k)) (fst (re_of k)) s = [] end).
Proof.
  intros Hq Hp. destruct k; try exact I; cbn [kind_quiet_nl] in Hq;
    apply existsb_exists in Hq as (c & Hin & Hn);
    (apply (finditer_none _ _ c s Hn); apply prose_no; [|exact Hp];
     unfold mem; apply existsb_exists; exists c; split; [exact Hin|apply Z.eqb_refl]).
Qed.

Lemma code_search_prose s : prose_text s = true -> code_search s 0 = None.
Proof.
  intros Hp. unfold code_search. apply (search_state_none _ _ 96); [vm_compute; reflexivity|].
  unfold seek. cbn [aft]. unfold drop. cbn [Z.to_nat skipn]. apply prose_no; [reflexivity|exact Hp].
Qed.

Lemma scan_prose s fn : prose_text s = true -> forall fuel i st0, 0 <= i ->
  scan_loop fuel s fn i None (mkScan [] [] false None false st0 []) = mkScan [] [] false None false st0 [].
Proof.
  intros Hp. induction fuel as [|fuel IH]; intros i st0 Hi; [reflexivity|].
  cbn [scan_loop]. destruct (i <? slen s) eqn:E; cbn [negb sc_run]; [|reflexivity].
  apply Z.ltb_lt in E. pose proof (prose_char_at s Hp i (conj Hi E)) as Hc.
  set (c := char_at s i) in *. unfold mem, triggers_nl in Hc. cbn [existsb] in Hc.
  repeat (apply orb_false_iff in Hc; destruct Hc as [? Hc]).
  cbn [sc_escaped sc_ds sc_ms sc_in_image sc_start sc_code].
  repeat match goal with X : (c =? _) = false |- _ => rewrite X; clear X end.
  cbn [andb orb negb]. apply IH. lia.
Qed.

Lemma core_prose s fn : prose_text s = true -> find_core_tokens s fn = ([], []).
Proof.
  intros Hp. unfold find_core_tokens. rewrite code_search_prose by exact Hp.
  rewrite scan_prose by (assumption || lia). cbn [sc_ds sc_ms sc_code].
  unfold process_emphasis. cbn [next_closer skipn Z.to_nat next_closer_from]. rewrite emph_none. reflexivity.
Qed.

Definition lb_srcs (s : str) : list csrc :=
  map (fun p => CRe SK_LineBreak (fst p) (snd p)) (finditer fl_span_token_LineBreak_pattern re_span_token_LineBreak_pattern s).

Lemma find_all_prose s fn : prose_text s = true -> forall types, forallb kind_quiet_nl types = true ->
  find_all types s fn [] = flat_map (fun k => match k with SK_LineBreak => lb_srcs s | _ => [] end) types.
Proof.
  intros Hp. induction types as [|k ts IH]; intros Hq; [reflexivity|].
  cbn [forallb] in Hq. apply andb_true_iff in Hq as [Hk Hts].
  cbn [find_all flat_map]. pose proof (quiet_finditer_nl k s Hk Hp) as F.
  destruct k; cbn [find_kind];
    try (rewrite core_prose by exact Hp; cbn [map app]; apply IH; exact Hts);
    try (cbn [map app]; apply IH; exact Hts);
    try (cbn [re_of fst snd] in F |- *; rewrite F; cbn [map app]; apply IH; exact Hts).
  cbn [re_of]. unfold lb_srcs. f_equal. apply IH. exact Hts.
Qed.

(* ---- the span tokenizer on candidates that do not overlap and do not parse their content:
        every candidate becomes a token, the gaps become raw text ---- *)
Fixpoint chain (l : list cand) : Prop :=
  match l with
  | c :: ((d :: _) as r) => ce c <= cs d /\ cs c <= cs d /\ chain r
  | _ => True
  end.

Definition mkpt (c : cand) : ptok := PT c [].
Definition gap (a b : Z) : list otok := if b >? a then [ORaw a b] else [].
Fixpoint body (start : Z) (l : list cand) : list otok :=
  match l with
  | [] => []
  | c :: r => gap start (cs c) ++ OTok c None :: body (ce c) r
  end.
Definition end_of (start : Z) (l : list cand) : Z := match rev l with c :: _ => ce c | [] => start end.

Lemma sort_chain l : chain l -> sort_cands l = l.
Proof.
  induction l as [|c r IH]; [reflexivity|]. intros H. unfold sort_cands in *. cbn [fold_right].
  destruct r as [|d r']; [reflexivity|]. destruct H as (_ & Hcd & Hr). rewrite (IH Hr). cbn [insert_stable].
  assert (cs c <=? cs d = true) as -> by (apply Z.leb_le; exact Hcd). reflexivity.
Qed.

Lemma eval_loop_chain : forall rest prev rbuf, chain (prev :: rest) ->
  (let '(p, b) := eval_loop (PT prev []) rbuf rest in p :: b) = rev (map mkpt (prev :: rest)) ++ rbuf.
Proof.
  induction rest as [|y r IH]; intros prev rbuf H; [reflexivity|].
  destruct H as (Hce & _ & Hr). cbn [eval_loop]. unfold eval_tokens, relation. cbn [pc].
  assert (ce prev <=? cs y = true) as -> by (apply Z.leb_le; exact Hce).
  specialize (IH y (PT prev [] :: rbuf) Hr). rewrite IH. cbn [map rev]. rewrite <- !app_assoc. reflexivity.
Qed.

Lemma buffer_chain l : chain l -> buffer_rev l = rev (map mkpt l).
Proof.
  destruct l as [|c rest]; [reflexivity|]. intros H. unfold buffer_rev. pose proof (eval_loop_chain rest c [] H) as E.
  destruct (eval_loop (PT c []) [] rest) as [p b]. rewrite E, app_nil_r. reflexivity.
Qed.

Lemma body_snoc : forall l start c, body start (l ++ [c]) = body start l ++ gap (end_of start l) (cs c) ++ [OTok c None].
Proof.
  induction l as [|d r IH]; intros start c; [reflexivity|]. cbn [app body]. rewrite IH. rewrite <- !app_assoc. cbn [app]. f_equal. f_equal. f_equal.
  unfold end_of. cbn [rev]. destruct (rev r) as [|z zs] eqn:Er; [reflexivity|reflexivity].
Qed.

Lemma mk_rev_chain : forall l start, Forall (fun c => inner c = false) l ->
  rev (mk_rev make (rev (map mkpt l)) start) = body start l.
Proof.
  induction l as [|c l' IH] using rev_ind; intros start Hin; [reflexivity|].
  apply Forall_app in Hin as [Hl Hc]. inversion Hc as [|? ? Hc1 _]; subst.
  rewrite map_app, rev_app_distr. cbn [map rev app mk_rev]. rewrite body_snoc.
  change (fix go (rl : list ptok) (start0 : Z) {struct rl} : list otok := match rl with [] => [] | t :: rest => make t :: (if cs (pc t) >? match rest with [] => start0 | r :: _ => ce (pc r) end then [ORaw match rest with [] => start0 | r :: _ => ce (pc r) end (cs (pc t))] else []) ++ go rest start0 end)
    with (mk_rev make).
  cbn [rev]. rewrite rev_app_distr. rewrite (IH start Hl). cbn [make mkpt pc]. rewrite Hc1.
  assert (Ee : match rev (map mkpt l') with [] => start | r :: _ => ce (pc r) end = end_of start l').
  { unfold end_of. rewrite <- map_rev. destruct (rev l'); reflexivity. }
  rewrite Ee. unfold gap. destruct (cs c >? end_of start l'); cbn [rev app]; rewrite <- ?app_assoc; reflexivity.
Qed.

Theorem tokenize_chain l len : chain l -> Forall (fun c => inner c = false) l ->
  tokenize l len = body 0 l ++ (if end_of 0 l =? len then [] else [ORaw (end_of 0 l) len]).
Proof.
  intros Hc Hi. unfold tokenize, SpanTokenizer.make_tokens, make_tokens_with. rewrite (sort_chain l Hc), (buffer_chain l Hc).
  rewrite rev_app_distr, (mk_rev_chain l 0 Hi). f_equal.
  assert (El : last_end (rev (map mkpt l)) 0 = end_of 0 l).
  { unfold last_end, end_of. rewrite <- map_rev. destruct (rev l); reflexivity. }
  rewrite El. destruct (end_of 0 l =? len); reflexivity.
Qed.

(* ---- the inline phase on lines joined by newlines ---- *)
Fixpoint prose_toks (ls : list str) : list tok :=
  match ls with
  | [] => []
  | l :: r => RawText l :: match r with [] => [] | _ => LineBreak [] true :: prose_toks r end
  end.

Definition out (start : Z) (l : list cand) (len : Z) : list otok :=
  body start l ++ (if end_of start l =? len then [] else [ORaw (end_of start l) len]).

Lemma end_of_cons start c r : end_of start (c :: r) = end_of (ce c) r.
Proof. unfold end_of. cbn [rev]. destruct (rev r) as [|z zs] eqn:E; [reflexivity|reflexivity]. Qed.

Lemma out_cons start c r len : out start (c :: r) len = gap start (cs c) ++ OTok c None :: out (ce c) r len.
Proof. unfold out. cbn [body]. rewrite end_of_cons, <- app_assoc. reflexivity. Qed.

Fixpoint lbc (i : Z) (ps : list Z) : list cand :=
  match ps with [] => [] | P :: r => mkCand P (P + 1) P (P + 1) 5 false i :: lbc (i + 1) r end.

Definition line_ok (l : str) : Prop := plain_text l = true /\ l <> [] /\ last l 0 <> 32.

Lemma line_ok_tail l : line_ok l -> ok_tail l.
Proof. intros (Hp & _ & Hl). repeat split; [apply plain_no; [reflexivity|exact Hp]|apply plain_no; [reflexivity|exact Hp]|intros _; exact Hl]. Qed.

Lemma substr_mid (pre l post : str) : substr (pre ++ l ++ post) (slen pre) (slen pre + slen l) = l.
Proof.
  unfold substr, slen. replace (Z.to_nat (Z.of_nat (length pre) + Z.of_nat (length l) - Z.of_nat (length pre))) with (length l) by lia.
  rewrite Nat2Z.id, skipn_app, skipn_all, Nat.sub_diag. cbn [skipn app]. rewrite firstn_app, firstn_all, Nat.sub_diag. cbn [firstn]. apply app_nil_r.
Qed.

Lemma unescape_plain l : plain_text l = true -> unescape l = l.
Proof. intros Hp. unfold unescape, unescape_with. rewrite (plain_no 38 l eq_refl Hp). reflexivity. Qed.

Lemma np_increasing : forall ls p, Forall line_ok ls -> chain (lbc 0 (newline_positions p ls)) /\ Forall (fun c => inner c = false) (lbc 0 (newline_positions p ls)).
Proof.
  assert (G : forall ls p i, Forall line_ok ls -> chain (lbc i (newline_positions p ls)) /\ Forall (fun c => inner c = false) (lbc i (newline_positions p ls)) /\
                             (forall c, In c (lbc i (newline_positions p ls)) -> p <= cs c)).
  { induction ls as [|l r IH]; intros p i H; [cbn; repeat split; [constructor|intros c []]|]. inversion H as [|? ? Hl Hr]; subst. destruct r as [|l2 r']; [cbn; repeat split; [constructor|intros c []]|].
    change (newline_positions p (l :: l2 :: r')) with ((p + slen l) :: newline_positions (p + slen l + 1) (l2 :: r')). cbn [lbc].
    destruct (IH (p + slen l + 1) (i + 1) Hr) as (C & Inn & B). assert (0 <= slen l) by (unfold slen; lia). repeat split.
    - destruct (lbc (i + 1) (newline_positions (p + slen l + 1) (l2 :: r'))) as [|d more] eqn:E; [exact Logic.I|].
      cbn [chain ce cs]. specialize (B d (or_introl eq_refl)). repeat split; [lia|lia|exact C].
    - constructor; [reflexivity|exact Inn].
    - intros c [<-|Hc]; [cbn [cs]; lia|specialize (B c Hc); lia]. }
  intros ls p H. destruct (G ls p 0 H) as (A & B & _). split; assumption.
Qed.

Lemma Forall2_nth_error_l {A B} (R : A -> B -> Prop) l l' : Forall2 R l l' -> forall j x, nth_error l j = Some x -> exists y, nth_error l' j = Some y /\ R x y.
Proof.
  induction 1 as [|a b l l' Hab _ IH]; intros j x Hj; [destruct j; discriminate|].
  destruct j as [|j]; [injection Hj as <-; exists b; split; [reflexivity|exact Hab]|]. apply (IH j x Hj).
Qed.

Section Inner.
  Variable types : list span_kind.
  Variable fn : footnotes.
  Hypothesis Hquiet : forallb kind_quiet_nl (removelast types) = true.
  Hypothesis Hlb : filter (fun k => match k with SK_LineBreak => true | _ => false end) (removelast types) = [SK_LineBreak].

  Lemma srcs_prose s : prose_text s = true -> find_all (removelast types) s fn [] = lb_srcs s.
  Proof.
    intros Hp. rewrite (find_all_prose s fn Hp _ Hquiet). clear Hquiet. revert Hlb. generalize (removelast types) as ts.
    assert (G : forall ts n, length (filter (fun k => match k with SK_LineBreak => true | _ => false end) ts) = n ->
              flat_map (fun k => match k with SK_LineBreak => lb_srcs s | _ => [] end) ts = concat (repeat (lb_srcs s) n)).
    { induction ts as [|k ts IH]; intros n Hn; [cbn in Hn; subst n; reflexivity|]. cbn [flat_map filter] in *.
      destruct k; try (cbn [app]; apply IH; exact Hn). destruct n as [|n]; [discriminate|]. cbn [length] in Hn. cbn [repeat concat]. f_equal. apply IH. lia. }
    intros ts H. rewrite (G ts 1%nat) by (rewrite H; reflexivity). cbn [repeat concat]. apply app_nil_r.
  Qed.

  Theorem tokenize_inner_prose ls : ls <> [] -> Forall line_ok ls -> tokenize_inner types fn (join [10] ls) = prose_toks ls.
  Proof.
    intros Hne Hok. set (s := join [10] ls).
    assert (Hp : prose_text s = true) by (apply prose_join; apply Forall_forall; intros l Hl; rewrite Forall_forall in Hok; apply (Hok l Hl)).
    unfold tokenize_inner. rewrite (srcs_prose s Hp). unfold lb_srcs.
    set (ms := finditer fl_span_token_LineBreak_pattern re_span_token_LineBreak_pattern s).
    assert (F2 : Forall2 lb_ok (newline_positions 0 ls) ms).
    { destruct lb_shape as [Sh Fl]. unfold ms, finditer. rewrite Sh, Fl.
      apply (finditer_lb ls (start_at [] s) (0 :: s) false Hne eq_refl).
      - apply Forall_forall. intros l Hl. apply line_ok_tail. rewrite Forall_forall in Hok. apply Hok. exact Hl.
      - cbn [length]. clear -Hne. unfold s. induction ls as [|l r IH]; [contradiction|]. destruct r as [|l2 r']; [cbn [length]; lia|].
        change (join [10] (l :: l2 :: r')) with (l ++ 10 :: join [10] (l2 :: r')). rewrite app_length. cbn [length] in *. specialize (IH ltac:(discriminate)). lia. }
    set (srcs := map (fun p => CRe SK_LineBreak (fst p) (snd p)) ms).
    (* the candidates *)
    assert (Ec : forall i ps mm, Forall2 lb_ok ps mm ->
              map (fun p => cand_of (fst p) (snd p)) (number_from i (map (fun p => CRe SK_LineBreak (fst p) (snd p)) mm)) = lbc i ps).
    { clear. intros i ps mm H. revert i. induction H as [|P [s0 s1] ps mm (H0 & H1 & _) _ IH]; intros i; [reflexivity|].
      cbn [map number_from lbc fst snd cand_of sk_parse_group grp_span sk_precedence sk_parse_inner] in *. rewrite H0, H1, IH. reflexivity. }
    replace (map (fun p => cand_of (fst p) (snd p)) (number_from 0 srcs)) with (lbc 0 (newline_positions 0 ls)) by (symmetry; apply (Ec 0 _ _ F2)).
    destruct (np_increasing ls 0 Hok) as [Hch Hin]. rewrite (tokenize_chain _ _ Hch Hin). fold (out 0 (lbc 0 (newline_positions 0 ls)) (slen s)).
    (* what the sources at the candidates' identities build *)
    assert (Leaf : forall j P, nth_error (newline_positions 0 ls) j = Some P -> build_leaf (src_at srcs (Z.of_nat j)) = LineBreak [] true).
    { intros j P Hj. unfold src_at, srcs. rewrite Nat2Z.id.
      destruct (Forall2_nth_error_l _ _ _ F2 j P Hj) as ([s0 s1] & Hm & (_ & H1 & Hg)).
      rewrite (nth_error_nth _ _ _ (map_nth_error (fun p => CRe SK_LineBreak (fst p) (snd p)) j ms Hm)).
      cbn [build_leaf fst snd]. unfold gtext, group_text. cbn [snd] in Hg. rewrite Hg. unfold segment. rewrite Z.sub_diag. reflexivity. }
    (* induction over the lines, with what has been read so far *)
    assert (G : forall ls' pre i k, ls' <> [] -> Forall line_ok ls' -> s = pre ++ join [10] ls' -> i = Z.of_nat k ->
              (forall j P, nth_error (newline_positions (slen pre) ls') j = Some P -> build_leaf (src_at srcs (Z.of_nat (k + j))) = LineBreak [] true) ->
              map (build_otok s srcs) (out (slen pre) (lbc i (newline_positions (slen pre) ls')) (slen s)) = prose_toks ls').
    { induction ls' as [|l r IH]; intros pre i k Hn Hk Es Ei HL; [contradiction|].
      inversion Hk as [|? ? (Hpl & Hln & _) Hr]; subst. destruct r as [|l2 r'].
      - cbn [join] in Es. cbn [newline_positions lbc prose_toks]. unfold out. cbn [body app end_of rev].
        assert (slen s = slen pre + slen l) by (rewrite Es, slen_app; reflexivity).
        assert (0 < slen l) by (destruct l; [contradiction|unfold slen; cbn [length]; lia]).
        replace (slen pre =? slen s) with false by (symmetry; apply Z.eqb_neq; lia). cbn [map build_otok].
        rewrite H. rewrite Es. rewrite <- (app_nil_r l) at 1. rewrite (substr_mid pre l []). rewrite unescape_plain by exact Hpl. reflexivity.
      - change (join [10] (l :: l2 :: r')) with (l ++ 10 :: join [10] (l2 :: r')) in Es.
        change (newline_positions (slen pre) (l :: l2 :: r')) with ((slen pre + slen l) :: newline_positions (slen pre + slen l + 1) (l2 :: r')) in *.
        cbn [lbc]. rewrite out_cons. cbn [cs ce].
        assert (0 < slen l) by (destruct l; [contradiction|unfold slen; cbn [length]; lia]).
        unfold gap. replace (slen pre + slen l >? slen pre) with true by (symmetry; apply Z.gtb_lt; lia).
        cbn [app map build_otok cid]. rewrite Es at 1. rewrite (substr_mid pre l (10 :: join [10] (l2 :: r'))). rewrite unescape_plain by exact Hpl.
        pose proof (HL 0%nat (slen pre + slen l) eq_refl) as H0. rewrite Nat.add_0_r in H0. rewrite H0. cbn [prose_toks]. f_equal. f_equal.
        assert (Ep : slen (pre ++ l ++ [10]) = slen pre + slen l + 1) by (rewrite !slen_app; unfold slen; cbn [length]; lia).
        rewrite <- Ep. apply (IH (pre ++ l ++ [10]) (Z.of_nat k + 1) (S k)); [discriminate|exact Hr| |lia|].
        + rewrite Es, <- !app_assoc. reflexivity.
        + intros j P Hj. rewrite Ep in Hj. replace (S k + j)%nat with (k + S j)%nat by lia. apply (HL (S j) P). exact Hj. }
    apply (G ls [] 0 0%nat Hne Hok eq_refl eq_refl). intros j P Hj. apply (Leaf j P). exact Hj.
  Qed.
End Inner.

(* the span token lists under which the theorem holds, as one computable condition *)
Definition prose_spans (types : list span_kind) : bool :=
  forallb kind_quiet_nl (removelast types) &&
  match filter (fun k => match k with SK_LineBreak => true | _ => false end) (removelast types) with [SK_LineBreak] => true | _ => false end.

Lemma tokenize_inner_spans types fn ls : prose_spans types = true -> ls <> [] -> Forall line_ok ls ->
  tokenize_inner types fn (join [10] ls) = prose_toks ls.
Proof.
  intros H. unfold prose_spans in H. apply andb_true_iff in H as [Hq Hl].
  assert (Hl' : filter (fun k => match k with SK_LineBreak => true | _ => false end) (removelast types) = [SK_LineBreak]).
  { destruct (filter _ _) as [|[] [|? ?]]; try discriminate. reflexivity. }
  apply (tokenize_inner_prose types fn Hq Hl').
Qed.

(* ---- the block phase: the paragraph reader goes on over every line ---- *)
(* the first character of a continuation line: it can start no block, no list item, and no setext underline *)
Definition cont_first (c : Z) : bool :=
  plain_first c && nomatch fl_block_token_Paragraph_setext_pattern re_block_token_Paragraph_setext_pattern c &&
  nomatch fl_block_token_ListItem_pattern re_block_token_ListItem_pattern c.

Section Para.
  Variable types : list block_kind.

  Lemma plain_no_interrupt c t rest : plain_first c = true ->
    nomatch fl_block_token_ListItem_pattern re_block_token_ListItem_pattern c = true ->
    match rest with [] => True | l2 :: _ => mem 124 l2 = false end ->
    any_interrupt types BK_ThematicBreak ((c :: t) :: rest) = false.
  Proof.
    intros Hf Hli Hr. unfold any_interrupt. apply not_true_iff_false. intros E. apply existsb_exists in E as (k' & _ & E).
    apply andb_true_iff in E as [E Ei]. apply andb_true_iff in E as [Eh Ek].
    set (rec0 := fun (_ : list str) (_ : Z) (_ : pstate) => (@nil pre, false, mkPs true)).
    destruct k'; try discriminate; cbn [interrupts] in Ei.
    - pose proof (block_starts_need_marker [] rec0 BK_Heading c t rest 0 (mkPs true) Hf eq_refl) as N. cbn [start_read] in N.
      destruct (heading_start (c :: t)) as [[[? ?] ?]|]; discriminate.
    - pose proof (block_starts_need_marker [] rec0 BK_Quote c t rest 0 (mkPs true) Hf eq_refl) as N. cbn [start_read] in N. rewrite Ei in N.
      destruct (quote_lines [] ((c :: t) :: rest)) as [? ?]. unfold rec0 in N. discriminate.
    - pose proof (block_starts_need_marker [] rec0 BK_CodeFence c t rest 0 (mkPs true) Hf eq_refl) as N. cbn [start_read] in N.
      destruct (codefence_start (c :: t)) as [[[[? ?] ?] ?]|]; [|discriminate]. destruct (fence_loop _ _ _ _ _). discriminate.
    - unfold list_interrupts, parse_marker in Ei. rewrite (rmatch_plain _ _ c t Hli) in Ei. discriminate.
    - unfold table_read in Ei. destruct rest as [|l2 more]; cbn [take_while_pipe] in Ei; [discriminate|]. rewrite Hr in Ei. discriminate.
    - pose proof (block_starts_need_marker [] rec0 BK_HtmlBlock c t rest 0 (mkPs true) Hf eq_refl) as N. cbn [start_read] in N.
      destruct (htmlblock_start (c :: t)) as [[? ?]|]; [|discriminate]. destruct (html_loop _ _ _ _). discriminate.
  Qed.

  Definition cont_line (l : str) : Prop := plain_line l /\ cont_first (hd 0 l) = true.

  Lemma para_loop_prose setext : forall ls buf taken, Forall cont_line ls ->
    para_loop types setext (map (fun l => l ++ [10]) ls) buf taken = (rev buf ++ map (fun l => l ++ [10]) ls, (taken + length ls)%nat, false).
  Proof.
    induction ls as [|l r IH]; intros buf taken H; [cbn [map para_loop length]; rewrite app_nil_r, Nat.add_0_r; reflexivity|].
    inversion H as [|? ? [PL Hc] Hr]; subst. pose proof PL as (Hp & Hf & Hne & Hl). destruct (strip_line l PL) as [_ Hb].
    destruct l as [|c t]; [contradiction|]. cbn [hd] in Hf, Hc. unfold cont_first in Hc. repeat rewrite andb_true_iff in Hc. destruct Hc as [[_ Hsx] Hli].
    cbn [map para_loop]. rewrite Hb.
    assert (Np : match map (fun l => l ++ [10]) r with [] => True | l2 :: _ => mem 124 l2 = false end).
    { destruct r as [|l2 r']; [exact I|]. cbn [map]. inversion Hr as [|? ? [(Hp2 & _) _] _]; subst.
      unfold mem. rewrite existsb_app. fold (mem 124 l2). rewrite (plain_no 124 l2 eq_refl Hp2). reflexivity. }
    change ((c :: t) ++ [10]) with (c :: t ++ [10]).
    rewrite (plain_no_interrupt c (t ++ [10]) _ Hf Hli Np).
    rewrite (rmatch_plain _ _ c (t ++ [10]) Hsx). rewrite andb_false_r.
    assert (Th : thematic_start (c :: t ++ [10]) = false).
    { pose proof (block_starts_need_marker [] (fun _ _ _ => ([], false, mkPs true)) BK_ThematicBreak c (t ++ [10]) [] 0 (mkPs true) Hf eq_refl) as N.
      cbn [start_read] in N. destruct (thematic_start (c :: t ++ [10])); [discriminate|reflexivity]. }
    rewrite Th. rewrite (IH _ _ Hr). cbn [rev length]. rewrite <- app_assoc. cbn [app]. f_equal. f_equal. lia.
  Qed.
End Para.

Section Blocks.
  Variable types : list block_kind.
  Variable rec : list str -> Z -> pstate -> list pre * bool * pstate.

  Lemma try_types_para_gen l rest ln st buf c : plain_line l ->
    para_loop types (ps_setext st) rest [l ++ [10]] 1%nat = (buf, c, false) ->
    forall ts, In BK_Paragraph ts ->
    try_types types rec ts ((l ++ [10]) :: rest) ln st = Some (PParagraph ln buf, c, st).
  Proof.
    intros PL Hpl. pose proof PL as (Hp & Hf & Hne & Hl). destruct (strip_line l PL) as [_ Hbl].
    destruct l as [|c0 t]; [contradiction|]. cbn [hd] in Hf. cbn [app] in Hpl, Hbl |- *.
    induction ts as [|k ts IH]; intros Hin; [destruct Hin|].
    cbn [try_types].
    destruct (kind_eqb k BK_Paragraph) eqn:EP.
    - assert (k = BK_Paragraph) by (destruct k; try discriminate; reflexivity). subst k.
      cbn [start_read]. unfold paragraph_start. rewrite Hbl. cbn [negb].
      match goal with |- context [para_loop ?pa ?pb ?pc ?pd ?pe] => replace (para_loop pa pb pc pd pe) with (buf, c, false) by (symmetry; exact Hpl) end. reflexivity.
    - assert (N : start_read types rec k ((c0 :: t ++ [10]) :: rest) ln st = None).
      { destruct (non_paragraph_non_table k) eqn:EN.
        - apply block_starts_need_marker; assumption.
        - destruct k; try discriminate. cbn [start_read]. unfold table_start.
          change (c0 :: t ++ [10]) with ((c0 :: t) ++ [10]). unfold mem. rewrite existsb_app. fold (mem 124 (c0 :: t)). rewrite (plain_no 124 (c0 :: t) eq_refl Hp). reflexivity. }
      rewrite N. apply IH. destruct Hin as [->|Hin]; [destruct BK_Paragraph; discriminate|exact Hin].
  Qed.
End Blocks.

Definition nl_lines (ls : list str) : list str := map (fun l => l ++ [10]) ls.

Theorem prose_block types f l ls ln st : In BK_Paragraph types -> plain_line l -> Forall cont_line ls ->
  tokenize_block types (S f) (nl_lines (l :: ls)) ln st = ([PParagraph ln (nl_lines (l :: ls))], false, st).
Proof.
  intros Hpar PL Hc. unfold nl_lines. cbn [map]. set (L := map (fun l0 => l0 ++ [10]) ls).
  assert (EL : @skipn str (length ls) L = []) by (apply skipn_all2; unfold L; rewrite map_length; apply le_n).
  assert (Ell : length L = length ls) by (unfold L; apply map_length).
  pose proof (para_loop_prose types (ps_setext st) ls [l ++ [10]] 1 Hc) as PLoop. cbn [rev app] in PLoop. fold L in PLoop.
  cbn [tokenize_block length dispatch_loop].
  rewrite (try_types_para_gen types (tokenize_block types f) l L ln st _ _ PL PLoop types Hpar).
  change (1 + length ls)%nat with (S (length ls)). cbn [skipn]. rewrite EL. reflexivity.
Qed.

(* ---- the inline content of the paragraph ---- *)
Lemma concat_nl_lines ls : ls <> [] -> concat (nl_lines ls) = join [10] ls ++ [10].
Proof.
  induction ls as [|l r IH]; [contradiction|]. intros _. destruct r as [|l2 r']; [cbn; rewrite app_nil_r; reflexivity|].
  change (nl_lines (l :: l2 :: r')) with ((l ++ [10]) :: nl_lines (l2 :: r')). cbn [concat]. rewrite IH by discriminate.
  change (join [10] (l :: l2 :: r')) with (l ++ [10] ++ join [10] (l2 :: r')). rewrite <- !app_assoc. reflexivity.
Qed.

Lemma lstrip_nonspace c t : is_space_c c = false -> lstrip (c :: t) = c :: t.
Proof. intros H. unfold lstrip. cbn [lstrip_by]. rewrite H. reflexivity. Qed.

Lemma last_app_ne {A} (a b : list A) d : b <> [] -> last (a ++ b) d = last b d.
Proof.
  intros Hb. induction a as [|x a IH]; [reflexivity|]. cbn [app last]. destruct (a ++ b) eqn:E; [destruct a; [contradiction|discriminate]|exact IH].
Qed.

Lemma last_cons_default {A} : forall (r : list A) x d, last (x :: r) d = last r x.
Proof. induction r as [|y r IH]; intros x d; [reflexivity|]. change (last (x :: y :: r) d) with (last (y :: r) d). rewrite (IH y d), (IH y x). reflexivity. Qed.

Lemma last_in {A} : forall (ls : list A) d, In (last ls d) (d :: ls).
Proof. induction ls as [|x r IH]; intros d; [left; reflexivity|]. rewrite last_cons_default. right. apply IH. Qed.

Lemma join_nonempty l ls : l <> [] -> join [10] (l :: ls) <> [].
Proof. intros H. destruct ls; [exact H|]. change (join [10] (l :: l0 :: ls)) with (l ++ 10 :: join [10] (l0 :: ls)). destruct l; discriminate. Qed.

Lemma last_join : forall ls l, Forall (fun x => x <> []) (l :: ls) -> last (join [10] (l :: ls)) 0 = last (last ls l) 0.
Proof.
  induction ls as [|l2 r IH]; intros l H; [reflexivity|]. inversion H as [|? ? Hl Hr]; subst. inversion Hr as [|? ? Hl2 _]; subst.
  change (join [10] (l :: l2 :: r)) with (l ++ 10 :: join [10] (l2 :: r)).
  rewrite last_app_ne by discriminate. change (10 :: join [10] (l2 :: r)) with ([10] ++ join [10] (l2 :: r)).
  rewrite last_app_ne by (apply join_nonempty; exact Hl2). rewrite (IH l2 Hr). rewrite last_cons_default. reflexivity.
Qed.

Lemma strip_prose l ls : plain_line l -> Forall cont_line ls ->
  strip (concat (map lstrip (nl_lines (l :: ls)))) = join [10] (l :: ls).
Proof.
  intros PL Hc.
  assert (Hall : Forall plain_line (l :: ls)) by (constructor; [exact PL|apply Forall_forall; intros x Hx; rewrite Forall_forall in Hc; apply (Hc x Hx)]).
  assert (E1 : map lstrip (nl_lines (l :: ls)) = nl_lines (l :: ls)).
  { unfold nl_lines. rewrite map_map. apply map_ext_in. intros x Hx. rewrite Forall_forall in Hall. destruct (Hall x Hx) as (_ & Hf & Hne & _).
    destruct x as [|c t]; [contradiction|]. cbn [hd] in Hf. cbn [app]. apply lstrip_nonspace. apply plain_first_not_space. exact Hf. }
  rewrite E1, concat_nl_lines by discriminate.
  set (X := join [10] (l :: ls)).
  destruct PL as (_ & Hf & Hne & _). destruct l as [|c t]; [contradiction|]. cbn [hd] in Hf.
  assert (Hx : exists t', X = c :: t') by (unfold X; destruct ls; [exists t; reflexivity|eexists; reflexivity]). destruct Hx as [t' Ex].
  unfold strip, strip_by. fold (lstrip (X ++ [10])). rewrite Ex. cbn [app]. rewrite lstrip_nonspace by (apply plain_first_not_space; exact Hf).
  change (c :: t' ++ [10]) with ((c :: t') ++ [10]). rewrite <- Ex. fold (rstrip (X ++ [10])). apply rstrip_last.
  - rewrite Ex. discriminate.
  - assert (Hn : Forall (fun x : str => x <> []) ((c :: t) :: ls)).
    { apply Forall_forall. intros x Hx. rewrite Forall_forall in Hall. destruct (Hall x Hx) as (_ & _ & Hn & _). exact Hn. }
    pose proof (last_join ls (c :: t) Hn) as LJ. change (join [10] ((c :: t) :: ls)) with X in LJ. rewrite LJ.
    pose proof (last_in ls (c :: t)) as Hin.
    rewrite Forall_forall in Hall. destruct (Hall _ Hin) as (_ & _ & _ & Hl). exact Hl.
Qed.

(* ---- rendering ---- *)
Lemma render_prose_toks o : forall ls, ls <> [] ->
  serialize (flat_map (render o false false) (prose_toks ls)) = join [10] (map (escape_html_text o) ls).
Proof.
  induction ls as [|l r IH]; [contradiction|]. intros _. destruct r as [|l2 r'].
  - cbn [prose_toks flat_map render map join]. unfold serialize. cbn [flat_map ser_item app]. rewrite app_nil_r. reflexivity.
  - change (prose_toks (l :: l2 :: r')) with (RawText l :: LineBreak [] true :: prose_toks (l2 :: r')).
    cbn [flat_map render]. unfold serialize in *. rewrite !flat_map_app. cbn [flat_map ser_item nl app]. rewrite IH by discriminate.
    change (map (escape_html_text o) (l :: l2 :: r')) with (escape_html_text o l :: map (escape_html_text o) (l2 :: r')).
    cbn [join map]. rewrite app_nil_r. reflexivity.
Qed.

Lemma serialize_app_items a b : serialize (a ++ b) = serialize a ++ serialize b.
Proof. apply flat_map_app. Qed.

Definition prose_config (cfg : pconfig) : bool :=
  existsb (fun k => kind_eqb k BK_Paragraph) (cfg_block cfg) && forallb kind_quiet_nl (removelast (cfg_span cfg)) &&
  match filter (fun k => match k with SK_LineBreak => true | _ => false end) (removelast (cfg_span cfg)) with [SK_LineBreak] => true | _ => false end.

Lemma line_ok_of_plain l : plain_line l -> line_ok l.
Proof.
  intros (Hp & _ & Hne & Hl). repeat split; try assumption. intros E. rewrite E in Hl. vm_compute in Hl. discriminate.
Qed.

Theorem prose_paragraph_parses cfg l ls : plain_line l -> Forall cont_line ls -> prose_config cfg = true ->
  fst (fst (parse_lines cfg (nl_lines (l :: ls)))) = Document [Paragraph (prose_toks (l :: ls))].
Proof.
  intros PL Hc Hq. unfold prose_config in Hq. repeat rewrite andb_true_iff in Hq. destruct Hq as [[Hpar Hquiet] Hlb].
  apply in_dec_paragraph in Hpar.
  assert (Hlb' : filter (fun k => match k with SK_LineBreak => true | _ => false end) (removelast (cfg_span cfg)) = [SK_LineBreak]).
  { destruct (filter _ _) as [|[] [|? ?]]; try discriminate. reflexivity. }
  unfold parse_lines, block_phase, depth_fuel. rewrite (prose_block (cfg_block cfg) _ l ls 1 (mkPs true) Hpar PL Hc).
  cbn [fst]. unfold Build.make_tokens. cbn [flat_map build app]. rewrite (strip_prose l ls PL Hc). unfold inline.
  rewrite (tokenize_inner_prose (cfg_span cfg) _ Hquiet Hlb' (l :: ls)); [reflexivity|discriminate|].
  constructor; [apply line_ok_of_plain; exact PL|]. apply Forall_forall. intros x Hx. rewrite Forall_forall in Hc. apply line_ok_of_plain. apply (Hc x Hx).
Qed.

Theorem prose_paragraph_renders cfg o l ls : plain_line l -> Forall cont_line ls -> prose_config cfg = true ->
  render_html o (fst (fst (parse_lines cfg (nl_lines (l :: ls))))) =
  $"<p>" ++ join [10] (map (escape_html_text o) (l :: ls)) ++ $"</p>" ++ [10].
Proof.
  intros PL Hc Hq. rewrite (prose_paragraph_parses cfg l ls PL Hc Hq).
  unfold render_html. cbn [render map join_items]. unfold wrap.
  assert (E : serialize (IOpen $"p" [] :: flat_map (render o false false) (prose_toks (l :: ls)) ++ [IClose $"p"]) =
              $"<p>" ++ join [10] (map (escape_html_text o) (l :: ls)) ++ $"</p>").
  { unfold serialize. cbn [flat_map]. rewrite flat_map_app. fold (serialize (flat_map (render o false false) (prose_toks (l :: ls)))).
    rewrite render_prose_toks by discriminate. cbn. rewrite ?app_nil_r. reflexivity. }
  rewrite E. change ($"<p>" ++ join [10] (map (escape_html_text o) (l :: ls)) ++ $"</p>") with (60 :: ($"p>" ++ join [10] (map (escape_html_text o) (l :: ls)) ++ $"</p>")).
  cbv iota. change (IOpen $"p" [] :: (flat_map (render o false false) (prose_toks (l :: ls)) ++ [IClose $"p"]) ++ [nl])
    with ((IOpen $"p" [] :: flat_map (render o false false) (prose_toks (l :: ls)) ++ [IClose $"p"]) ++ [nl]).
  rewrite serialize_app_items, E. cbn [serialize flat_map ser_item nl app]. rewrite <- !app_assoc. reflexivity.
Qed.

Lemma prose_configs :
  forallb prose_config [cfg_html; cfg_html_nohtml; cfg_markdown; cfg_latex; cfg_mathjax; cfg_default] = true.
Proof. vm_compute. reflexivity. Qed.

Example prose_instance :
  plain_line ($"Of course 2 + 2 = 4 (nearly),") /\ cont_line ($"e.g. 50% @home; see #tag") /\ cont_line ($"and so on: a-b a.b) -1 :-") /\
  ~ cont_line ($"=== underline") /\ ~ cont_line ($"1986. A year") /\
  escape_html_text (mkHopts false false) ($"a > b ""c""") = $"a &gt; b ""c""".
Proof.
  unfold cont_line, plain_line. repeat split; try (vm_compute; congruence); try (vm_compute; reflexivity);
    intros [(H1 & H2 & _) H3]; vm_compute in H1, H2, H3; congruence.
Qed.
