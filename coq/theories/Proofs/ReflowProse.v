(* C10 on paragraphs of plain words, for every maximum line length: the Markdown renderer
   breaks the paragraph into lines that are groups of its words; the reflowed text parses
   to ONE paragraph holding those lines, whose HTML is the original's with some spaces
   turned into newlines (same meaning up to the position of soft line breaks); and
   reflowing it again with the same limit changes nothing. *)
From Coq Require Import ZArith List Bool Lia.
From Mistletoe Require Import Base.Sx Base.PyStr Base.PyText Gen.GenTables Gen.GenConfig Gen.GenEscapes Model.Fillers Model.Tree Model.CoreTokens Model.Block Model.Build
     Model.HtmlRenderer Model.MarkdownRenderer Model.Parser Proofs.Prose Proofs.PlainProse Proofs.ProseLines Proofs.WrapBound Proofs.HtmlSafe.
Import ListNotations.
Local Open Scope Z_scope.

Definition word_okb (w : str) : bool :=
  nonempty w && forallb (fun c => negb (is_space c)) w && plain_text w && cont_first (hd 0 w).

(* ---- splitting at white space ---- *)
Lemma ws_split_word : forall w cur b rest, w <> [] -> forallb (fun c => negb (is_space c)) w = true ->
  ws_split_aux cur b (w ++ rest) = ws_split_aux (rev w ++ cur) false rest.
Proof.
  induction w as [|c t IH]; intros cur b rest Hne Hw; [contradiction|].
  cbn [forallb] in Hw. apply andb_true_iff in Hw as [Hc Ht]. apply negb_true_iff in Hc.
  cbn [app ws_split_aux]. rewrite Hc. destruct t as [|d t'].
  - cbn [app rev]. reflexivity.
  - rewrite (IH (c :: cur) false rest) by (try discriminate; exact Ht). cbn [rev]. rewrite <- !app_assoc. reflexivity.
Qed.

Lemma ws_split_join : forall ws b, ws <> [] -> Forall (fun w => word_okb w = true) ws ->
  ws_split_aux [] b (join SP ws) = ws.
Proof.
  induction ws as [|w r IH]; intros b Hne H; [contradiction|]. inversion H as [|? ? Hw Hr]; subst.
  unfold word_okb in Hw. repeat rewrite andb_true_iff in Hw. destruct Hw as [[[Hn Hs] _] _].
  assert (Hwn : w <> []) by (destruct w; [discriminate|discriminate]).
  destruct r as [|w2 r'].
  - cbn [join]. rewrite <- (app_nil_r w) at 1. rewrite (ws_split_word w [] b [] Hwn Hs). cbn [ws_split_aux]. rewrite app_nil_r, rev_involutive. reflexivity.
  - change (join SP (w :: w2 :: r')) with (w ++ 32 :: join SP (w2 :: r')). rewrite (ws_split_word w [] b _ Hwn Hs).
    cbn [ws_split_aux]. change (is_space 32) with true. cbn iota. rewrite app_nil_r, rev_involutive. f_equal. apply IH; [discriminate|exact Hr].
Qed.

Lemma feed_words : forall items word, word <> [] -> Forall (fun w => w <> []) items ->
  feed_items word false items = (removelast (word :: items), last items word).
Proof.
  induction items as [|it r IH]; intros word Hw H; [reflexivity|]. inversion H as [|? ? Hi Hr]; subst.
  cbn [feed_items]. rewrite (IH it Hi Hr). destruct word as [|c t]; [contradiction|]. cbn [nonempty app].
  rewrite ProseLines.last_cons_default. reflexivity.
Qed.

Lemma words_nonempty ws : Forall (fun w => word_okb w = true) ws -> Forall (fun w : str => w <> []) ws.
Proof.
  intros H. apply Forall_forall. intros w Hw. rewrite Forall_forall in H. specialize (H w Hw).
  unfold word_okb in H. repeat rewrite andb_true_iff in H. destruct H as [[[Hn _] _] _]. destruct w; [discriminate|discriminate].
Qed.

Lemma removelast_last_app {A} (x : A) l : removelast (x :: l) ++ [last l x] = x :: l.
Proof. rewrite <- (ProseLines.last_cons_default l x x). symmetry. apply app_removelast_last. discriminate. Qed.

(* the words of a line of words *)
Lemma make_words_line ws : ws <> [] -> Forall (fun w => word_okb w = true) ws -> make_words [Fw (join SP ws)] = ws.
Proof.
  intros Hne H. unfold make_words. cbn [make_words_from fwrap Fw ftext]. unfold ws_split. rewrite (ws_split_join ws false Hne H).
  destruct ws as [|w r]; [contradiction|]. pose proof (words_nonempty _ H) as Hn. inversion Hn as [|? ? Hw Hr]; subst.
  cbn [feed_items app]. rewrite (feed_words r w Hw Hr). cbn [make_words_from].
  assert (last r w <> []) by (pose proof (ProseLines.last_in r w) as Hin; rewrite Forall_forall in Hn; apply Hn; exact Hin).
  match goal with |- context [nonempty ?x] => assert (En : nonempty x = true) by (change x with (last r w); destruct (last r w); [contradiction|reflexivity]); rewrite En end. apply removelast_last_app.
Qed.

(* ---- the groups ---- *)
Lemma nonempty_join cur : Forall (fun w : str => w <> []) cur -> nonempty (join SP cur) = match cur with [] => false | _ => true end.
Proof. intros H. destruct cur as [|x r]; [reflexivity|]. inversion H; subst. destruct x; [contradiction|]. destruct r; reflexivity. Qed.

Lemma fill_struct_real lim : forall ws cur, Forall (fun w : str => w <> [] /\ is_nl w = false) ws -> Forall (fun w : str => w <> []) cur ->
  concat (fill_struct lim cur ws) = cur ++ ws /\ Forall (fun g => g <> []) (fill_struct lim cur ws).
Proof.
  induction ws as [|w r IH]; intros cur Hws Hcur.
  - cbn [fill_struct]. rewrite (nonempty_join cur Hcur). destruct cur; [split; [reflexivity|constructor]|].
    cbn [concat]. rewrite !app_nil_r. split; [reflexivity|constructor; [discriminate|constructor]].
  - inversion Hws as [|? ? [Hw Hnl] Hr]; subst. cbn [fill_struct]. rewrite Hnl. rewrite (nonempty_join cur Hcur).
    destruct cur as [|c0 cr].
    + cbn [negb]. destruct (IH [w] Hr ltac:(constructor; [exact Hw|constructor])) as [E F]. split; [rewrite E; reflexivity|exact F].
    + cbn [negb]. destruct (len (join SP ((c0 :: cr) ++ [w])) <=? lim).
      * destruct (IH ((c0 :: cr) ++ [w]) Hr) as [E F]; [apply Forall_app; split; [exact Hcur|constructor; [exact Hw|constructor]]|].
        split; [rewrite E, <- app_assoc; reflexivity|exact F].
      * destruct (IH [w] Hr ltac:(constructor; [exact Hw|constructor])) as [E F]. cbn [concat]. rewrite E. split; [reflexivity|constructor; [discriminate|exact F]].
Qed.

Lemma word_not_nl w : word_okb w = true -> w <> [] /\ is_nl w = false.
Proof.
  intros H. unfold word_okb in H. repeat rewrite andb_true_iff in H. destruct H as [[[Hn Hs] _] _].
  split; [destruct w; [discriminate|discriminate]|]. unfold is_nl, NL. destruct w as [|c [|d t]]; try reflexivity; [|cbn [str_eqb]; destruct (c =? 10); reflexivity].
  cbn [forallb] in Hs. apply andb_true_iff in Hs as [Hc _]. destruct (Z.eq_dec c 10) as [->|Hn10]; [vm_compute in Hc; discriminate|].
  unfold NL. cbn [str_eqb]. replace (c =? 10) with false by (symmetry; apply Z.eqb_neq; exact Hn10). reflexivity.
Qed.

(* ---- a line made of plain words is a plain line, and may continue a paragraph ---- *)
Lemma join_sp_nonempty (l : str) ls : l <> [] -> join SP (l :: ls) <> [].
Proof. intros H. destruct ls as [|x r]; [exact H|]. change (join SP (l :: x :: r)) with (l ++ 32 :: join SP (x :: r)). destruct l; discriminate. Qed.

Lemma last_join_sp : forall ls l, Forall (fun x : str => x <> []) (l :: ls) -> last (join SP (l :: ls)) 0 = last (last ls l) 0.
Proof.
  induction ls as [|l2 r IH]; intros l H; [reflexivity|]. inversion H as [|? ? Hl Hr]; subst. inversion Hr as [|? ? Hl2 _]; subst.
  change (join SP (l :: l2 :: r)) with (l ++ 32 :: join SP (l2 :: r)).
  rewrite ProseLines.last_app_ne by discriminate. change (32 :: join SP (l2 :: r)) with ([32] ++ join SP (l2 :: r)).
  assert (Hj : join SP (l2 :: r) <> []) by (apply join_sp_nonempty; exact Hl2).
  rewrite ProseLines.last_app_ne by exact Hj. rewrite (IH l2 Hr). rewrite ProseLines.last_cons_default. reflexivity.
Qed.

Lemma plain_text_app a b : plain_text (a ++ b) = plain_text a && plain_text b.
Proof. unfold plain_text. apply forallb_app. Qed.

Lemma line_of_words g : g <> [] -> Forall (fun w => word_okb w = true) g -> plain_line (join SP g) /\ cont_line (join SP g).
Proof.
  intros Hne H. pose proof (words_nonempty g H) as Hn.
  assert (PT : plain_text (join SP g) = true).
  { clear Hne Hn. induction H as [|w r Hw _ IH]; [reflexivity|]. unfold word_okb in Hw. repeat rewrite andb_true_iff in Hw. destruct Hw as [[_ Hp] _].
    destruct r as [|w2 r']; [exact Hp|]. change (join SP (w :: w2 :: r')) with (w ++ [32] ++ join SP (w2 :: r')). rewrite !plain_text_app, Hp, IH. reflexivity. }
  destruct g as [|w r]; [contradiction|]. inversion H as [|? ? Hw Hr]; subst. inversion Hn as [|? ? Hwn _]; subst.
  unfold word_okb in Hw. repeat rewrite andb_true_iff in Hw. destruct Hw as [[[_ Hs] Hp] Hc].
  assert (Hhd : hd 0 (join SP (w :: r)) = hd 0 w) by (destruct w; [contradiction|]; destruct r; reflexivity).
  assert (Hj : join SP (w :: r) <> []) by (apply join_sp_nonempty; exact Hwn).
  assert (Hlast : is_space_c (last (join SP (w :: r)) 0) = false).
  { rewrite (last_join_sp r w Hn). pose proof (ProseLines.last_in r w) as Hin. rewrite Forall_forall in H. specialize (H _ Hin).
    unfold word_okb in H. repeat rewrite andb_true_iff in H. destruct H as [[[Hne' Hs'] _] _].
    set (lw := last r w) in *. assert (lw <> []) by (destruct lw; [discriminate|discriminate]).
    assert (Hil : In (last lw 0) lw) by (destruct lw as [|c t]; [contradiction|]; pose proof (ProseLines.last_in t c) as X; rewrite <- ProseLines.last_cons_default with (d := 0) in X; exact X).
    rewrite forallb_forall in Hs'. specialize (Hs' _ Hil). apply negb_true_iff in Hs'. exact Hs'. }
  assert (PF : plain_first (hd 0 w) = true) by (unfold cont_first in Hc; repeat rewrite andb_true_iff in Hc; tauto).
  split; [|split].
  - repeat split; [exact PT|rewrite Hhd; exact PF|exact Hj|exact Hlast].
  - repeat split; [exact PT|rewrite Hhd; exact PF|exact Hj|exact Hlast].
  - rewrite Hhd. exact Hc.
Qed.

(* ---- the words of the reflowed paragraph, parsed again ---- *)
Definition lb_frag : frag := mkFrag NL true false.

Lemma ws_split_nl : ws_split NL = [[]; []].
Proof. reflexivity. Qed.

Lemma words_again : forall groups, Forall (fun g => g <> [] /\ Forall (fun w => word_okb w = true) g) groups ->
  make_words_from [] (flat_map frags (prose_toks (map (join SP) groups))) = concat groups.
Proof.
  induction groups as [|g gs IH]; intros H; [reflexivity|]. inversion H as [|? ? [Hg Hw] Hr]; subst.
  cbn [map prose_toks flat_map frags app make_words_from fwrap Fw ftext]. unfold ws_split. rewrite (ws_split_join g false Hg Hw).
  destruct g as [|w r]; [contradiction|]. pose proof (words_nonempty _ Hw) as Hn. inversion Hn as [|? ? Hwn Hrn]; subst.
  cbn [feed_items app]. rewrite (feed_words r w Hwn Hrn).
  assert (Hl : last r w <> []) by (pose proof (ProseLines.last_in r w) as Hin; rewrite Forall_forall in Hn; apply Hn; exact Hin).
  destruct (map (join SP) gs) as [|l2 ls2] eqn:Em.
  - destruct gs; [|discriminate]. cbn [flat_map make_words_from concat]. rewrite app_nil_r.
    match goal with |- context [nonempty ?x] => assert (En : nonempty x = true) by (change x with (last r w); destruct (last r w); [contradiction|reflexivity]); rewrite En end.
    apply removelast_last_app.
  - rewrite <- Em. cbn [flat_map frags app make_words_from fwrap ftext negb]. rewrite ws_split_nl.
    cbn [feed_items]. rewrite !app_nil_r.
    match goal with |- context [nonempty ?x] => assert (En : nonempty x = true) by (change x with (last r w); destruct (last r w); [contradiction|reflexivity]); rewrite En end.
    cbn [app]. pose proof (IH Hr) as IHr. rewrite Em. rewrite IHr. cbn [concat]. transitivity ((removelast (w :: r) ++ [last r w]) ++ concat gs); [rewrite <- app_assoc; reflexivity|f_equal; apply removelast_last_app].
Qed.

(* ---- HTML: escaping distributes; joining the lines by spaces gives back the text ---- *)
Lemma esc_app o a b : escape_html_text o (a ++ b) = escape_html_text o a ++ escape_html_text o b.
Proof. unfold escape_html_text. rewrite !apply_chain_flat. apply flat_map_app. Qed.

Lemma esc_space o : escape_html_text o [32] = [32].
Proof. destruct o as [[] []]; reflexivity. Qed.

Lemma esc_join o (ls : list str) : escape_html_text o (join SP ls) = join SP (map (escape_html_text o) ls).
Proof.
  induction ls as [|l r IH]; [destruct o as [[] []]; reflexivity|]. destruct r as [|l2 r']; [reflexivity|].
  change (join SP (l :: l2 :: r')) with (l ++ SP ++ join SP (l2 :: r')). rewrite !esc_app, IH. unfold SP at 1. rewrite esc_space. reflexivity.
Qed.

Lemma join_app (a b : list str) : a <> [] -> b <> [] -> join SP (a ++ b) = join SP a ++ SP ++ join SP b.
Proof.
  intros Ha Hb. induction a as [|x r IH]; [contradiction|]. destruct r as [|y r'].
  - cbn [app]. destruct b; [contradiction|reflexivity].
  - change ((x :: y :: r') ++ b) with (x :: (y :: r') ++ b). change (join SP (x :: (y :: r') ++ b)) with (x ++ SP ++ join SP ((y :: r') ++ b)).
    rewrite IH by discriminate. change (join SP (x :: y :: r')) with (x ++ SP ++ join SP (y :: r')). rewrite <- !app_assoc. reflexivity.
Qed.

Lemma join_join (groups : list (list str)) : Forall (fun g => g <> []) groups -> join SP (map (join SP) groups) = join SP (concat groups).
Proof.
  induction 1 as [|g gs Hg Hgs IH]; [reflexivity|]. destruct gs as [|g2 gs'].
  - cbn [map join concat]. rewrite app_nil_r. reflexivity.
  - change (join SP (map (join SP) (g :: g2 :: gs'))) with (join SP g ++ SP ++ join SP (map (join SP) (g2 :: gs'))). rewrite IH.
    change (concat (g :: g2 :: gs')) with (g ++ concat (g2 :: gs')). rewrite join_app; [reflexivity|exact Hg|]. inversion Hgs; subst. destruct g2; [contradiction|discriminate].
Qed.

Definition word_lines (lim : Z) (ws : list str) : list str := map (join SP) (fill_struct lim [] ws).

(* ---- the theorem ---- *)
Section Reflow.
  Variables (ws : list str) (lim : Z).
  Hypothesis Hne : ws <> [].
  Hypothesis Hws : Forall (fun w => word_okb w = true) ws.
  Let T := join SP ws.
  Let groups := fill_struct lim [] ws.
  Let out := word_lines lim ws.

  Lemma groups_facts : concat groups = ws /\ Forall (fun g => g <> [] /\ Forall (fun w => word_okb w = true) g) groups /\ groups <> [].
  Proof.
    assert (Hr : Forall (fun w : str => w <> [] /\ is_nl w = false) ws).
    { apply Forall_forall. intros w Hw. rewrite Forall_forall in Hws. apply word_not_nl. apply Hws. exact Hw. }
    destruct (fill_struct_real lim ws [] Hr ltac:(constructor)) as [E F]. fold groups in E, F. cbn [app] in E.
    split; [exact E|]. split.
    - apply Forall_forall. intros g Hg. rewrite Forall_forall in F. split; [apply F; exact Hg|].
      apply Forall_forall. intros w Hw. rewrite Forall_forall in Hws. apply Hws. rewrite <- E. apply in_concat. exists g. split; assumption.
    - intros N. rewrite N in E. cbn in E. congruence.
  Qed.

  Lemma text_line : plain_line T.
  Proof. apply (line_of_words ws Hne Hws). Qed.

  (* the renderer's lines *)
  Lemma reflow_lines : block_lines (mkMopts false) (Some lim) (Paragraph [RawText T]) = out.
  Proof.
    cbn [block_lines]. unfold span_to_lines. cbn [flat_map frags app].
    destruct (wrap_words_preserved [Fw T] lim) as [E _]. rewrite E. unfold T. rewrite (make_words_line ws Hne Hws). reflexivity.
  Qed.

  Lemma out_lines : exists l ls, out = l :: ls /\ plain_line l /\ Forall cont_line ls.
  Proof.
    destruct groups_facts as (_ & F & Hn). unfold out, word_lines. fold groups. destruct groups as [|g gs]; [contradiction|].
    inversion F as [|? ? [Hg Hw] Fr]; subst. exists (join SP g), (map (join SP) gs). split; [reflexivity|]. split; [apply (line_of_words g Hg Hw)|].
    apply Forall_forall. intros x Hx. apply in_map_iff in Hx as (g' & <- & Hg'). rewrite Forall_forall in Fr. destruct (Fr g' Hg') as [A B]. apply (line_of_words g' A B).
  Qed.

  (* parsing the original and the reflowed text *)
  Theorem reflow_parses cfg : quiet_config cfg = true -> prose_config cfg = true ->
    fst (fst (parse_lines cfg [T ++ [10]])) = Document [Paragraph [RawText T]] /\
    fst (fst (parse_lines cfg (nl_lines out))) = Document [Paragraph (prose_toks out)].
  Proof.
    intros Hq Hp. split.
    - rewrite (plain_line_parses cfg T text_line Hq). reflexivity.
    - destruct out_lines as (l & ls & -> & Hl & Hc). apply prose_paragraph_parses; assumption.
  Qed.

  (* same meaning: the HTML of the reflowed text is the original's, with newlines where some of the spaces were *)
  Theorem reflow_same_meaning cfg o : quiet_config cfg = true -> prose_config cfg = true ->
    render_html o (fst (fst (parse_lines cfg [T ++ [10]]))) = $"<p>" ++ escape_html_text o T ++ $"</p>" ++ [10] /\
    render_html o (fst (fst (parse_lines cfg (nl_lines out)))) = $"<p>" ++ join [10] (map (escape_html_text o) out) ++ $"</p>" ++ [10] /\
    join SP (map (escape_html_text o) out) = escape_html_text o T.
  Proof.
    intros Hq Hp. split; [apply plain_line_renders; [exact text_line|exact Hq]|]. split.
    - destruct out_lines as (l & ls & E & Hl & Hc). rewrite E. apply prose_paragraph_renders; assumption.
    - rewrite <- esc_join. f_equal. unfold out, word_lines. fold groups. destruct groups_facts as (E & F & _).
      rewrite join_join; [rewrite E; reflexivity|]. apply Forall_forall. intros g Hg. rewrite Forall_forall in F. apply (F g Hg).
  Qed.

  (* idempotence: reflowing the reflowed paragraph with the same limit gives the same lines *)
  Theorem reflow_idempotent : block_lines (mkMopts false) (Some lim) (Paragraph (prose_toks out)) = out.
  Proof.
    cbn [block_lines]. unfold span_to_lines.
    transitivity (fragments_to_lines (Some lim) [Fw T]).
    - apply wrap_determined_by_words. unfold make_words. unfold out, word_lines. fold groups. destruct groups_facts as (E & F & _).
      rewrite (words_again groups F), E. symmetry. apply (make_words_line ws Hne Hws).
    - pose proof reflow_lines as R. cbn [block_lines] in R. unfold span_to_lines in R. cbn [flat_map frags app] in R. exact R.
  Qed.
End Reflow.
