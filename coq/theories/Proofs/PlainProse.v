(* C14, unbounded: a line of text that contains none of the 14 trigger characters
   \ * _ [ ] ! ` ~ < newline $ & { | , begins with a character that cannot open a block and does
   not end in white space is rendered as exactly that text, HTML-escaped, inside one <p> -
   through the block phase, the inline phase (every span token finder, the delimiter scanner,
   the candidate tiling) and the HTML renderer of the model.  The facts about the regenerated
   patterns enter through two verified analyses: `needs` (each inline pattern consumes its
   trigger character) and `nomatch` (block patterns cannot start with the first character). *)
From Coq Require Import ZArith List Bool Lia.
From Mistletoe Require Import Base.Sx Base.PyStr Base.PyText Gen.GenTables Gen.GenRegex Gen.GenConfig Re.ReMatch
     Model.SpanTokenizer Model.Tree Model.Unescape Model.CoreTokens Model.Inline Model.Block Model.Build Model.Parser Model.HtmlRenderer
     Proofs.ReFirst Proofs.ReNeeds Proofs.Prose.
Import ListNotations.
Local Open Scope Z_scope.

Definition triggers : list Z := [92; 42; 95; 91; 93; 33; 96; 126; 60; 10; 36; 38; 123; 124].
Definition plain_text (s : str) : bool := forallb (fun c => negb (mem c triggers)) s.

Lemma plain_no c s : mem c triggers = true -> plain_text s = true -> mem c s = false.
Proof.
  intros Hc. induction s as [|x s IH]; [reflexivity|].
  cbn [plain_text forallb]. intros H. apply andb_true_iff in H as [Hx Hs].
  unfold mem at 1. cbn [existsb]. fold (mem c s). rewrite (IH Hs), orb_false_r.
  destruct (c =? x) eqn:E; [|reflexivity]. apply Z.eqb_eq in E. subst x. rewrite Hc in Hx. discriminate.
Qed.

Lemma plain_char_at s : plain_text s = true -> forall i, 0 <= i < slen s -> mem (char_at s i) triggers = false.
Proof.
  intros H i Hi. unfold char_at. destruct (i <? 0) eqn:E; [apply Z.ltb_lt in E; lia|].
  unfold plain_text in H. rewrite forallb_forall in H.
  assert (In (nth (Z.to_nat i) s (-1)) s) by (apply nth_In; unfold slen in Hi; lia).
  apply negb_true_iff. apply H. assumption.
Qed.

(* ---- the regex-defined span tokens find nothing ---- *)
Definition kind_quiet (k : span_kind) : bool :=
  match k with
  | SK_CoreTokens | SK_InlineCode | SK_RawText => true
  | _ => existsb (fun c => needs (fst (re_of k)) c) triggers
  end.

Lemma quiet_finditer k s : kind_quiet k = true -> plain_text s = true ->
  (match k with SK_CoreTokens | SK_InlineCode | SK_RawText => True | _ => finditer (snd (re_of k)) (fst (re_of k)) s = [] end).
Proof.
  intros Hq Hp. destruct k; try exact I; cbn [kind_quiet] in Hq;
    apply existsb_exists in Hq as (c & Hin & Hn);
    (apply (finditer_none _ _ c s Hn); apply plain_no; [|exact Hp];
     unfold mem; apply existsb_exists; exists c; split; [exact Hin|apply Z.eqb_refl]).
Qed.

(* ---- the delimiter scanner finds nothing ---- *)
Lemma code_search_plain s : plain_text s = true -> code_search s 0 = None.
Proof.
  intros Hp. unfold code_search. apply (search_state_none _ _ 96); [vm_compute; reflexivity|].
  unfold seek. cbn [aft]. unfold drop. cbn [Z.to_nat skipn]. apply plain_no; [reflexivity|exact Hp].
Qed.

Lemma scan_plain s fn : plain_text s = true -> forall fuel i st0, 0 <= i ->
  scan_loop fuel s fn i None (mkScan [] [] false None false st0 []) = mkScan [] [] false None false st0 [].
Proof.
  intros Hp. induction fuel as [|fuel IH]; intros i st0 Hi; [reflexivity|].
  cbn [scan_loop]. destruct (i <? slen s) eqn:E; cbn [negb sc_run]; [|reflexivity].
  apply Z.ltb_lt in E. pose proof (plain_char_at s Hp i (conj Hi E)) as Hc.
  set (c := char_at s i) in *. unfold mem, triggers in Hc. cbn [existsb] in Hc.
  repeat (apply orb_false_iff in Hc; destruct Hc as [? Hc]).
  cbn [sc_escaped sc_ds sc_ms sc_in_image sc_start sc_code].
  repeat match goal with X : (c =? _) = false |- _ => rewrite X; clear X end.
  cbn [andb orb negb]. apply IH. lia.
Qed.

Lemma emph_none fuel s l ob ds ms : emph_loop fuel s l ob None ds ms = (ds, ms).
Proof. destruct fuel; reflexivity. Qed.

Lemma core_plain s fn : plain_text s = true -> find_core_tokens s fn = ([], []).
Proof.
  intros Hp. unfold find_core_tokens. rewrite code_search_plain by exact Hp.
  rewrite scan_plain by (assumption || lia). cbn [sc_ds sc_ms sc_code].
  unfold process_emphasis. cbn [next_closer skipn Z.to_nat next_closer_from]. rewrite emph_none. reflexivity.
Qed.

(* ---- tokenize_inner ---- *)
Lemma find_all_plain s fn : plain_text s = true -> forall types, forallb kind_quiet types = true -> find_all types s fn [] = [].
Proof.
  intros Hp. induction types as [|k ts IH]; intros Hq; [reflexivity|].
  cbn [forallb] in Hq. apply andb_true_iff in Hq as [Hk Hts].
  cbn [find_all]. pose proof (quiet_finditer k s Hk Hp) as F.
  destruct k; cbn [find_kind];
    try (rewrite core_plain by exact Hp; cbn [map app]; apply IH; exact Hts);
    try (cbn [map app]; apply IH; exact Hts);
    (cbn [re_of fst snd] in F |- *; rewrite F; cbn [map app]; apply IH; exact Hts).
Qed.

Lemma substr_all s : substr s 0 (slen s) = s.
Proof. unfold substr, slen. cbn [Z.to_nat skipn]. rewrite Z.sub_0_r, Nat2Z.id. apply firstn_all. Qed.

Theorem tokenize_inner_plain types fn s :
  plain_text s = true -> s <> [] -> forallb kind_quiet (removelast types) = true ->
  tokenize_inner types fn s = [RawText s].
Proof.
  intros Hp Hne Hq. unfold tokenize_inner. rewrite find_all_plain by assumption.
  cbn [number_from map]. unfold tokenize, SpanTokenizer.make_tokens, make_tokens_with. cbn [sort_cands fold_right buffer_rev last_end mk_rev app].
  destruct (0 =? slen s) eqn:E.
  - apply Z.eqb_eq in E. destruct s; [contradiction|]. unfold slen in E. cbn [length] in E. lia.
  - cbn [rev app map build_otok]. rewrite substr_all. unfold unescape, unescape_with.
    rewrite (plain_no 38 s eq_refl Hp). reflexivity.
Qed.

(* ---- the block phase: one paragraph ---- *)
Lemma rstrip_last s : s <> [] -> is_space_c (last s 0) = false -> rstrip (s ++ [10]) = s.
Proof.
  intros Hne Hl. unfold rstrip, rstrip_by. rewrite rev_app_distr. cbn [rev app lstrip_by].
  replace (is_space_c 10) with true by (vm_compute; reflexivity).
  destruct (rev s) as [|x r] eqn:E.
  - apply (f_equal (@rev Z)) in E. rewrite rev_involutive in E. cbn in E. contradiction.
  - assert (x = last s 0).
    { apply (f_equal (@rev Z)) in E. rewrite rev_involutive in E. rewrite E. cbn [rev]. rewrite last_last. reflexivity. }
    subst x. cbn [lstrip_by]. rewrite Hl. rewrite <- E. apply rev_involutive.
Qed.

Definition plain_line (l : str) : Prop :=
  plain_text l = true /\ plain_first (hd 0 l) = true /\ l <> [] /\ is_space_c (last l 0) = false.

Lemma plain_first_not_space c : plain_first c = true -> is_space_c c = false.
Proof.
  unfold plain_first. intros H. repeat rewrite andb_true_iff in H.
  destruct H as [[[[_ H] _] _] _]. apply negb_true_iff in H. exact H.
Qed.

Lemma strip_line l : plain_line l -> strip (lstrip (l ++ [10])) = l /\ is_blank (l ++ [10]) = false.
Proof.
  intros (Hp & Hf & Hne & Hl). destruct l as [|c t]; [contradiction|]. cbn [hd] in Hf.
  pose proof (plain_first_not_space c Hf) as Hc.
  assert (L : lstrip ((c :: t) ++ [10]) = (c :: t) ++ [10]) by (unfold lstrip; cbn [app lstrip_by]; rewrite Hc; reflexivity).
  assert (S : strip ((c :: t) ++ [10]) = c :: t).
  { unfold strip, strip_by. fold (lstrip ((c :: t) ++ [10])). rewrite L. apply rstrip_last; assumption. }
  split.
  - rewrite L. exact S.
  - unfold is_blank. rewrite S. reflexivity.
Qed.

Section Block.
  Variable types : list block_kind.
  Variable rec : list str -> Z -> pstate -> list pre * bool * pstate.

  Lemma try_types_paragraph l ln st : plain_line l -> forall ts, In BK_Paragraph ts ->
    try_types types rec ts [l ++ [10]] ln st = Some (PParagraph ln [l ++ [10]], 1%nat, st).
  Proof.
    intros PL. pose proof PL as (Hp & Hf & Hne & Hl). destruct (strip_line l PL) as [_ Hb].
    destruct l as [|c t]; [contradiction|]. cbn [hd] in Hf.
    induction ts as [|k ts IH]; intros Hin; [destruct Hin|].
    cbn [try_types].
    destruct (kind_eqb k BK_Paragraph) eqn:EP.
    - assert (k = BK_Paragraph) by (destruct k; try discriminate; reflexivity). subst k.
      cbn [start_read app]. unfold paragraph_start. change ((c :: t) ++ [10]) with (c :: t ++ [10]) in Hb. rewrite Hb.
      cbn [negb para_loop rev app]. reflexivity.
    - assert (N : start_read types rec k [(c :: t) ++ [10]] ln st = None).
      { destruct (non_paragraph_non_table k) eqn:EN.
        - cbn [app]. apply block_starts_need_marker; assumption.
        - destruct k; try discriminate. cbn [start_read app]. unfold table_start.
          change (c :: t ++ [10]) with ((c :: t) ++ [10]). unfold mem. rewrite existsb_app.
          fold (mem 124 (c :: t)). rewrite (plain_no 124 (c :: t) eq_refl Hp). reflexivity. }
      rewrite N. apply IH. destruct Hin as [->|Hin]; [destruct BK_Paragraph; discriminate|exact Hin].
  Qed.
End Block.

Lemma in_dec_paragraph types : existsb (fun k => kind_eqb k BK_Paragraph) types = true -> In BK_Paragraph types.
Proof.
  intros H. apply existsb_exists in H as (k & Hin & Hk). destruct k; try discriminate. exact Hin.
Qed.

Definition quiet_config (cfg : pconfig) : bool :=
  existsb (fun k => kind_eqb k BK_Paragraph) (cfg_block cfg) && forallb kind_quiet (removelast (cfg_span cfg)).

Theorem plain_line_parses cfg l : plain_line l -> quiet_config cfg = true ->
  parse_lines cfg [l ++ [10]] = (Document [Paragraph [RawText l]], [], [1]).
Proof.
  intros PL Hq. apply andb_true_iff in Hq as [Hpar Hsp]. apply in_dec_paragraph in Hpar.
  unfold parse_lines, block_phase, depth_fuel. cbn [tokenize_block length dispatch_loop].
  rewrite (try_types_paragraph _ _ l 1 (mkPs true) PL _ Hpar). cbn [skipn rev app dispatch_loop].
  unfold footnotes_of. cbn [flat_map defs_of app append_footnotes fold_left].
  unfold make_tokens. cbn [flat_map build concat map app lnums].
  destruct (strip_line l PL) as [S _]. rewrite app_nil_r, S.
  pose proof PL as (Hp & _ & Hne & _).
  unfold inline. rewrite tokenize_inner_plain by assumption. reflexivity.
Qed.

(* ---- rendering ---- *)
Lemma render_plain_paragraph o l :
  render_html o (Document [Paragraph [RawText l]]) = $"<p>" ++ escape_html_text o l ++ $"</p>" ++ [10].
Proof. unfold render_html. cbn. rewrite ?app_nil_r. reflexivity. Qed.

Lemma configs_quiet :
  forallb quiet_config [cfg_html; cfg_html_nohtml; cfg_markdown; cfg_latex; cfg_mathjax; cfg_default] = true.
Proof. vm_compute. reflexivity. Qed.

Theorem plain_line_renders cfg o l : plain_line l -> quiet_config cfg = true ->
  render_html o (fst (fst (parse_lines cfg [l ++ [10]]))) = $"<p>" ++ escape_html_text o l ++ $"</p>" ++ [10].
Proof. intros PL Hq. rewrite (plain_line_parses cfg l PL Hq). cbn [fst]. apply render_plain_paragraph. Qed.

(* non-vacuity: "e.g. 2 + 2 = 4 (nearly) #tag 50% @you a-b a.b) -1 :-" is a plain line *)
Example a_plain_line :
  plain_line ($"e.g. 2 + 2 = 4 (nearly) #tag 50% @you a-b a.b) -1 :-") /\
  plain_line ($". x") /\ plain_line ($") x") /\ ~ plain_line ($"1. x") /\ ~ plain_line ($"a *b*").
Proof.
  unfold plain_line. repeat split; try (vm_compute; congruence); try (vm_compute; reflexivity);
    intros (H1 & H2 & _); vm_compute in H1, H2; congruence.
Qed.
