(* C03: thematic breaks.  A line of three or more `-`, `_` or `*` is a thematic break: ThematicBreak.pattern -
   a capture group, a back-reference to it inside a greedy repetition, lazy repetitions of white space - is
   evaluated exactly on it; no block kind tried earlier starts on such a line; the HTML is <hr />. *)
From Coq Require Import ZArith List Bool Lia.
From Mistletoe Require Import Base.Sx Base.PyStr Base.PyText Gen.GenTables Gen.GenRegex Gen.GenConfig Re.ReMatch
     Model.SpanTokenizer Model.Tree Model.Unescape Model.CoreTokens Model.Inline Model.Block Model.Build Model.Parser Model.HtmlRenderer
     Proofs.ReFirst Proofs.ReNeeds Proofs.ReExact Proofs.Prose Proofs.PlainProse Proofs.ListLaw Proofs.IndentLaw Proofs.ProseLines Proofs.SetextLaw.
Import ListNotations.
Local Open Scope Z_scope.

Section Rx.
  Let fl := mkFlags false false.
  Variable c : Z.
  Hypothesis Hc : c = 45 \/ c = 95 \/ c = 42.

  Let B : re := Seq (Bref 1) (Rep false 0 None SPC).

  (* the state after j characters of the run: group 1 holds the first of them *)
  Definition tb_inv (j : nat) (s : mst) : Prop :=
    bef s = repeat c (S j) /\ pos s = Z.of_nat (S j) /\ lookup_grp 1 (grp s) = Some (0, 1).

  Lemma tb_segment j s : tb_inv j s -> segment s 0 1 = [c].
  Proof.
    intros (Hb & Hp & _). rewrite (segment_known s (repeat c (S j))); [reflexivity| | |lia|lia|].
    - rewrite Hb. symmetry. apply rev_repeat.
    - rewrite Hp. unfold slen. rewrite repeat_length. reflexivity.
    - unfold slen. rewrite repeat_length. lia.
  Qed.

  Lemma c_not_nl : (c =? 10) = false.
  Proof. destruct Hc as [->|[->| ->]]; reflexivity. Qed.

  Lemma tb_advance j s rest : tb_inv j s -> aft s = c :: rest -> tb_inv (S j) (advance s c rest).
  Proof.
    intros (Hb & Hp & Hg) Ha. unfold tb_inv, advance. cbn [bef pos grp]. split; [rewrite Hb; reflexivity|]. split; [lia|exact Hg].
  Qed.

  (* a lazy repetition with minimum 0 first tries what follows *)
  Lemma m_lazy_zero r mx s (K : mst -> option mst) v : K s = Some v -> m fl (Rep false 0 mx r) s K = Some v.
  Proof. intros H. cbn [m repeat app loop Nat.ltb]. rewrite H. reflexivity. Qed.

  (* the greedy repetition of (\\1 \\s*?) over the rest of the run *)
  Lemma body_run (k : mst -> option mst) : (forall s', aft s' = [10] -> exists v, k s' = Some v) ->
    forall m0 j s cnt fuel, tb_inv j s -> aft s = repeat c m0 ++ [10] -> (m0 < length fuel)%nat -> (2 <= cnt + m0)%nat ->
    exists v, loop (m fl B) true 2 None k fuel cnt s = Some v.
  Proof.
    intros Hk. induction m0 as [|m0 IH]; intros j s cnt fuel HI Ha Hf Hcnt.
    - cbn [repeat app] in Ha. destruct (Hk s Ha) as [v Hv]. exists v.
      assert (Hge : Nat.ltb cnt 2 = false) by (apply Nat.ltb_ge; lia).
      destruct fuel as [|x fuel]; cbn [loop]; rewrite Hge; [exact Hv|].
      unfold under. unfold B at 1. rewrite m_seq. cbn [m]. destruct HI as (Hb & Hp & Hg). rewrite Hg.
      rewrite (tb_segment j s (conj Hb (conj Hp Hg))). cbn [eat]. rewrite Ha, c_not_nl. cbn [orelse]. exact Hv.
    - change (repeat c (S m0) ++ [10]) with (c :: (repeat c m0 ++ [10])) in Ha.
      destruct fuel as [|x fuel]; [cbn [length] in Hf; lia|]. cbn [loop]. unfold under.
      set (s1 := advance s c (repeat c m0 ++ [10])).
      pose proof (tb_advance j s _ HI Ha) as HI1. fold s1 in HI1.
      destruct (IH (S j) s1 (S cnt) fuel HI1 eq_refl ltac:(cbn [length] in Hf; lia) ltac:(lia)) as [v Hv].
      assert (More : m fl B s (fun s' => if Nat.leb 2 cnt && (pos s' =? pos s) then None else loop (m fl B) true 2 None k fuel (S cnt) s') = Some v).
      { unfold B at 1. rewrite m_seq. cbn [m]. destruct HI as (Hb & Hp & Hg). rewrite Hg.
        rewrite (tb_segment j s (conj Hb (conj Hp Hg))). cbn [eat]. rewrite Ha, Z.eqb_refl. fold s1.
        (* the lazy white space: nothing is tried first *)
        cbn [repeat app loop Nat.ltb Nat.leb].
        assert (Ep : (pos s1 =? pos s) = false) by (unfold s1; cbn [advance pos]; apply Z.eqb_neq; lia).
        rewrite Ep, andb_false_r. fold B. rewrite Hv. reflexivity. }
      exists v. rewrite More. destruct (Nat.ltb cnt 2); reflexivity.
  Qed.

  Theorem thematic_line n : thematic_start (repeat c (S (S (S n))) ++ [10]) = true.
  Proof.
    unfold thematic_start. destruct thematic_shape as [Sh Fl]. unfold rmatch, match_here, start_at. rewrite Sh, Fl.
    cbn [bef aft pos length Z.of_nat]. fold fl. set (line := repeat c (S (S (S n))) ++ [10]). set (s0 := mkMst [] line 0 []).
    assert (C32 : (c =? 32) = false) by (destruct Hc as [->|[->| ->]]; reflexivity).
    assert (K : exists v, m fl (Seq (Grp 1 TB_CLS) (Seq (Rep false 0 None SPC) (Seq (Rep true 2 None (Seq (Bref 1) (Rep false 0 None SPC))) Eol))) s0 (fun s' => Some s') = Some v).
    { rewrite m_seq, m_grp.
      assert (A0 : aft s0 = c :: (repeat c (S (S n)) ++ [10])) by reflexivity.
      rewrite (m_char fl TB_CLS s0 c _ _ eq_refl A0).
      replace (char_ok fl TB_CLS c) with true by (destruct Hc as [->|[->| ->]]; reflexivity).
      set (s1 := set_grp 1 (pos s0) (pos (advance s0 c (repeat c (S (S n)) ++ [10]))) (advance s0 c (repeat c (S (S n)) ++ [10]))).
      assert (I1 : tb_inv 0 s1) by (unfold tb_inv, s1; cbn; repeat split).
      rewrite m_seq.
      assert (L : exists v, m fl (Seq (Rep true 2 None (Seq (Bref 1) (Rep false 0 None SPC))) Eol) s1 (fun s' => Some s') = Some v).
      { rewrite m_seq.
        match goal with |- exists v, m fl (Rep true 2 None ?b) s1 ?KK = Some v =>
          change (exists v, loop (m fl b) true 2 None KK (repeat 0 2 ++ 0 :: aft s1) 0%nat s1 = Some v) end.
        apply (body_run _) with (m0 := S (S n)) (j := 0%nat); [|exact I1|reflexivity| |lia].
        - intros s' A. rewrite m_eol. unfold at_eol. rewrite A. eexists. reflexivity.
        - assert (Hlen : length (repeat c (S (S n)) ++ [10]) = S (S (S n))) by (rewrite app_length, repeat_length; cbn [length]; lia).
          change (aft s1) with (repeat c (S (S n)) ++ [10]). change (repeat 0 2 ++ 0 :: (repeat c (S (S n)) ++ [10])) with (0 :: 0 :: 0 :: (repeat c (S (S n)) ++ [10])).
          cbn [length]. rewrite Hlen. lia. }
      destruct L as [v Hv]. exists v. apply m_lazy_zero. exact Hv. }
    destruct K as [v Hv].
    assert (E0 : adv_run s0 [] line = s0) by (change line with (aft s0); apply adv_run_nil).
    erewrite (m_seq). erewrite (m_greedy fl (Lit 32) 0 (Some 3%nat) s0 _ _ [] line); [reflexivity|reflexivity| |reflexivity|reflexivity|lia|intros x Hx; cbn [length]; lia|].
    - unfold line. cbn [repeat app stops char_ok]. exact C32.
    - rewrite E0. exact Hv.
  Qed.
End Rx.

(* ---- the block phase: nothing tried before ThematicBreak starts on such a line ---- *)
Definition tline (c : Z) (n : nat) : str := repeat c (S (S (S n))) ++ [10].

Definition tb_before (k : block_kind) : bool :=
  match k with
  | BK_HtmlBlock | BK_BlockCode | BK_Heading | BK_Quote | BK_CodeFence | BK_Footnote | BK_LinkReferenceDefinitionBlock | BK_BlankLine => true
  | _ => false
  end.
Fixpoint thematic_first (ts : list block_kind) : bool :=
  match ts with
  | [] => false
  | k :: r => if kind_eqb k BK_ThematicBreak then true else tb_before k && thematic_first r
  end.

Section Blocks.
  Variable types : list block_kind.
  Variable rec : list str -> Z -> pstate -> list pre * bool * pstate.
  Variable c : Z.
  Hypothesis Hc : c = 45 \/ c = 95 \/ c = 42.

  Lemma tline_head n : tline c n = c :: (repeat c (S (S n)) ++ [10]).
  Proof. reflexivity. Qed.

  Lemma tline_other k n rest ln st : tb_before k = true -> start_read types rec k (tline c n :: rest) ln st = None.
  Proof.
    intros Hk. rewrite tline_head. set (t := repeat c (S (S n)) ++ [10]).
    assert (N1 : nomatch fl_block_token_Heading_pattern re_block_token_Heading_pattern c = true) by (destruct Hc as [->|[->| ->]]; vm_compute; reflexivity).
    assert (N2 : nomatch fl_block_token_CodeFence_pattern re_block_token_CodeFence_pattern c = true) by (destruct Hc as [->|[->| ->]]; vm_compute; reflexivity).
    assert (N3 : nomatch fl_block_token_HtmlBlock_multiblock re_block_token_HtmlBlock_multiblock c = true) by (destruct Hc as [->|[->| ->]]; vm_compute; reflexivity).
    assert (N4 : nomatch fl_block_token_HtmlBlock_predefined re_block_token_HtmlBlock_predefined c = true) by (destruct Hc as [->|[->| ->]]; vm_compute; reflexivity).
    assert (N5 : nomatch fl_block_token_HtmlBlock_custom_tag re_block_token_HtmlBlock_custom_tag c = true) by (destruct Hc as [->|[->| ->]]; vm_compute; reflexivity).
    assert (N6 : nomatch fl_markdown_renderer_BlankLine_pattern re_markdown_renderer_BlankLine_pattern c = true) by (destruct Hc as [->|[->| ->]]; vm_compute; reflexivity).
    assert (Sp : is_space_c c = false) by (destruct Hc as [->|[->| ->]]; vm_compute; reflexivity).
    assert (C32 : (c =? 32) = false) by (destruct Hc as [->|[->| ->]]; reflexivity).
    assert (C9 : (c =? 9) = false) by (destruct Hc as [->|[->| ->]]; reflexivity).
    assert (C62 : (62 =? c) = false) by (destruct Hc as [->|[->| ->]]; reflexivity).
    assert (C60 : (60 =? c) = false) by (destruct Hc as [->|[->| ->]]; reflexivity).
    assert (C91 : (91 =? c) = false) by (destruct Hc as [->|[->| ->]]; reflexivity).
    destruct k; try discriminate; cbn [start_read].
    - (* BlockCode *) unfold blockcode_start, tabs_to_spaces_once. change ($"    ") with [32; 32; 32; 32].
      assert (C9' : (9 =? c) = false) by (rewrite Z.eqb_sym; exact C9). assert (C32' : (32 =? c) = false) by (rewrite Z.eqb_sym; exact C32).
      cbn [replace_first startswith]. rewrite C9'. cbn [andb startswith]. rewrite C32'. reflexivity.
    - unfold heading_start. rewrite (rmatch_plain _ _ c t N1). reflexivity.
    - unfold quote_start. cbn [lstrip_set lstrip_by mem existsb]. rewrite C32. cbn [orb]. rewrite Z.sub_diag. cbn [Z.ltb Z.compare startswith]. rewrite C62. reflexivity.
    - unfold codefence_start. rewrite (rmatch_plain _ _ c t N2). reflexivity.
    - unfold footnote_start. rewrite (lstrip_nonspace c t Sp). cbn [startswith]. rewrite C91. reflexivity.
    - unfold htmlblock_start. cbv zeta. rewrite (lstrip_nonspace c t Sp), Z.sub_diag. cbn [Z.leb Z.compare].
      rewrite (rmatch_plain _ _ c t N3).
      assert (S1 : forall p, startswith (60 :: p) (c :: t) = false) by (intros p; cbn [startswith]; rewrite C60; reflexivity).
      change (startswith $"<!--" (c :: t)) with (startswith (60 :: [33; 45; 45]) (c :: t)).
      change (startswith $"<?" (c :: t)) with (startswith (60 :: [63]) (c :: t)).
      change (startswith $"<!" (c :: t)) with (startswith (60 :: [33]) (c :: t)).
      change (startswith $"<![CDATA[" (c :: t)) with (startswith (60 :: [33; 91; 67; 68; 65; 84; 65; 91]) (c :: t)).
      rewrite !S1. cbn [andb]. rewrite (rmatch_plain _ _ c t N4), (rmatch_plain _ _ c t N5). reflexivity.
    - unfold blankline_start. rewrite (rmatch_plain _ _ c t N6). reflexivity.
    - unfold footnote_start. rewrite (lstrip_nonspace c t Sp). cbn [startswith]. rewrite C91. reflexivity.
  Qed.

  Lemma try_types_thematic n rest ln st : forall ts, thematic_first ts = true ->
    try_types types rec ts (tline c n :: rest) ln st = Some (PThematic ln [tline c n], 1%nat, st).
  Proof.
    induction ts as [|k ts IH]; intros H; [discriminate|]. cbn [thematic_first] in H. cbn [try_types].
    destruct (kind_eqb k BK_ThematicBreak) eqn:E.
    - assert (k = BK_ThematicBreak) by (destruct k; try discriminate; reflexivity). subst k.
      cbn [start_read]. unfold tline. rewrite (thematic_line c Hc n). reflexivity.
    - apply andb_true_iff in H as [Hb Hr]. rewrite (tline_other k n rest ln st Hb). apply IH. exact Hr.
  Qed.
End Blocks.

Definition thematic_config (cfg : pconfig) : bool := thematic_first (cfg_block cfg).

Lemma strip_tline c n : (c = 45 \/ c = 95 \/ c = 42) -> strip_set [10] (tline c n) = repeat c (S (S (S n))).
Proof.
  intros Hc. unfold tline, strip_set, strip_by. set (P := fun x : Z => mem x [10]).
  assert (Pc : P c = false) by (unfold P; destruct Hc as [->|[->| ->]]; reflexivity).
  assert (L : lstrip_by P (repeat c (S (S (S n))) ++ [10]) = repeat c (S (S (S n))) ++ [10]) by (cbn [repeat app lstrip_by]; rewrite Pc; reflexivity).
  rewrite L. unfold rstrip_by. rewrite rev_app_distr, rev_repeat. change (rev [10]) with [10].
  change ([10] ++ repeat c (S (S (S n)))) with (10 :: c :: repeat c (S (S n))). cbn [lstrip_by]. replace (P 10) with true by reflexivity. rewrite Pc.
  change (c :: repeat c (S (S n))) with (repeat c (S (S (S n)))). apply rev_repeat.
Qed.

Theorem thematic_break_parses cfg c n : (c = 45 \/ c = 95 \/ c = 42) -> thematic_config cfg = true ->
  parse_lines cfg [tline c n] = (Document [ThematicBreak (repeat c (S (S (S n))))], [], [1]).
Proof.
  intros Hc Hq. unfold parse_lines, block_phase, depth_fuel. cbn [tokenize_block length dispatch_loop].
  rewrite (try_types_thematic (cfg_block cfg) _ c Hc n [] 1 (mkPs true) (cfg_block cfg) Hq). cbn [skipn rev app dispatch_loop].
  unfold footnotes_of. cbn [flat_map defs_of app append_footnotes fold_left].
  unfold make_tokens. cbn [flat_map build concat map app lnums].
  assert (S : strip_set [10] (tline c n) = repeat c (S (S (S n)))).
  { unfold tline, strip_set, strip_by. set (P := fun x : Z => mem x [10]).
    assert (Pc : P c = false) by (unfold P; destruct Hc as [->|[->| ->]]; reflexivity).
    assert (L : lstrip_by P (repeat c (S (S (S n))) ++ [10]) = repeat c (S (S (S n))) ++ [10]) by (cbn [repeat app lstrip_by]; rewrite Pc; reflexivity).
    rewrite L. unfold rstrip_by. rewrite rev_app_distr, rev_repeat. change (rev [10]) with [10].
    change ([10] ++ repeat c (S (S (S n)))) with (10 :: c :: repeat c (S (S n))). cbn [lstrip_by]. replace (P 10) with true by reflexivity. rewrite Pc.
    change (c :: repeat c (S (S n))) with (repeat c (S (S (S n)))). apply rev_repeat. }
  rewrite S. reflexivity.
Qed.

Theorem thematic_break_renders cfg o c n : (c = 45 \/ c = 95 \/ c = 42) -> thematic_config cfg = true ->
  render_html o (fst (fst (parse_lines cfg [tline c n]))) = $"<hr />" ++ [10].
Proof. intros Hc Hq. rewrite (thematic_break_parses cfg c n Hc Hq). reflexivity. Qed.

Lemma thematic_configs : forallb thematic_config [cfg_html; cfg_html_nohtml; cfg_markdown; cfg_latex; cfg_mathjax; cfg_default] = true.
Proof. vm_compute. reflexivity. Qed.
