(* kernel evaluation of prose pass-through (C14) on every single line of 1-3 vocabulary tokens *)
From Coq Require Import ZArith List Bool.
From Mistletoe Require Import Base.Sx Base.PyStr Model.Parser Proofs.Laws Proofs.Prose.
Import ListNotations.
Lemma sweep : forallb (fun l => prose_guarded [l]) (prose_lines12 ++ prose_lines3) = true.
Proof. vm_compute. reflexivity. Qed.
