(* kernel evaluation of prose pass-through (C14) on a quarter of the two-line paragraphs of 1-2 vocabulary tokens per line *)
From Coq Require Import ZArith List Bool.
From Mistletoe Require Import Base.Sx Base.PyStr Model.Parser Proofs.Laws Proofs.Prose.
Import ListNotations.
Lemma sweep : forallb (fun a => forallb (fun b => prose_guarded [a; b]) prose_lines12) (every4 2 prose_lines12) = true.
Proof. vm_compute. reflexivity. Qed.
