(* C07: link reference definitions. *)
From Coq Require Import ZArith List Bool.
From Mistletoe Require Import Base.Sx Base.PyStr Base.PyText Gen.GenConfig Model.Tree Model.CoreTokens Model.Unescape
     Model.Block Model.Build Model.Parser.
Import ListNotations.
Local Open Scope Z_scope.

Definition def := (str * str * str * str * str)%type.
Definition def_label (d : def) : str := match d with (l, _, _, _, _) => l end.
(* what Footnote.append_footnotes stores for a definition *)
Definition def_value (d : def) : str * str :=
  match d with (_, dest, title, _, _) => (escape_strip_std (strip dest), escape_strip_std title) end.

Lemma fn_get_app k fn x v : fn_get k (fn ++ [(x, v)]) =
  match fn_get k fn with Some r => Some r | None => if str_eqb k x then Some v else None end.
Proof.
  induction fn as [|[k' v'] fn IH]; cbn; [reflexivity|].
  destruct (str_eqb k k'); [reflexivity|exact IH].
Qed.

Lemma str_eqb_sym a b : str_eqb a b = str_eqb b a.
Proof.
  destruct (str_eqb a b) eqn:E.
  - apply str_eqb_eq in E. subst. symmetry. apply str_eqb_eq. reflexivity.
  - destruct (str_eqb b a) eqn:E2; [|reflexivity]. apply str_eqb_eq in E2. subst.
    assert (str_eqb a a = true) by (apply str_eqb_eq; reflexivity). congruence.
Qed.

(* the first definition, in document order, whose normalised label is k wins *)
Theorem first_definition_wins : forall defs fn k,
  fn_get k (append_footnotes defs fn) =
  match fn_get k fn with
  | Some v => Some v
  | None => option_map def_value (find (fun d => str_eqb (normalize_label (def_label d)) k) defs)
  end.
Proof.
  unfold append_footnotes. induction defs as [|d defs IH]; intros fn k; cbn [fold_left find option_map].
  - destruct (fn_get k fn); reflexivity.
  - destruct d as [[[[l dest] title] dt] td]. cbn [def_label].
    destruct (fn_get (normalize_label l) fn) eqn:Ek.
    + rewrite IH. destruct (fn_get k fn) eqn:Ekk; [reflexivity|].
      destruct (str_eqb (normalize_label l) k) eqn:E; [|reflexivity].
      apply str_eqb_eq in E. congruence.
    + rewrite IH. rewrite fn_get_app. destruct (fn_get k fn) eqn:Ekk; [reflexivity|].
      rewrite str_eqb_sym. destruct (str_eqb (normalize_label l) k); reflexivity.
Qed.

Corollary document_lookup cfg lines k :
  fn_get k (snd (block_phase cfg lines)) =
  option_map def_value (find (fun d => str_eqb (normalize_label (def_label d)) k)
                             (flat_map defs_of (fst (block_phase cfg lines)))).
Proof.
  unfold block_phase. destruct (tokenize_block _ _ _ _ _) as [[es lo] st]. cbn [fst snd].
  unfold footnotes_of. now rewrite first_definition_wins.
Qed.

(* containers do not hide definitions: document order is the order of the lines *)
Lemma defs_of_containers ln es lo i p ld :
  defs_of (PQuote ln es) = flat_map defs_of es /\ defs_of (PList ln es) = flat_map defs_of es /\
  defs_of (PItem ln es lo i p ld) = flat_map defs_of es.
Proof. repeat split. Qed.

(* two phases: every inline parse of the document sees the complete map *)
Theorem two_phase cfg lines :
  parse_lines cfg lines =
  let '(es, fn) := block_phase cfg lines in
  (Document (make_tokens (cfg_span cfg) (cfg_keep_defs cfg) fn es), fn, flat_map (lnums (cfg_keep_defs cfg)) es).
Proof. reflexivity. Qed.

(* definitions produce no token of their own (outside the Markdown renderer) *)
Fixpoint no_def_token (t : tok) : bool :=
  let all := forallb no_def_token in
  match t with
  | LinkRefDef _ | LinkRefDefBlock _ => false
  | Strong _ ch | Emphasis _ ch | Strikethrough ch | Image _ ch | Link _ ch | AutoLink _ _ ch | EscapeSequence ch
  | Heading _ _ ch | SetextHeading _ _ ch | Quote ch | Paragraph ch | List _ _ ch | ListItem _ ch
  | TableRow _ ch | TableCell _ ch | Document ch => all ch
  | Table _ h ch => match h with Some h' => no_def_token h' | None => true end && all ch
  | _ => true
  end.

Theorem definition_builds_nothing span_types fn ln defs : build span_types false fn (PFootnote ln defs) = None.
Proof. reflexivity. Qed.

Example first_wins_example :
  let defs := [($"Foo", $"/first", [], $"uri", []); ($"FOO", $"/second", [], $"uri", [])] in
  fn_get (normalize_label $"foo") (append_footnotes defs []) = Some ($"/first", []).
Proof. vm_compute. reflexivity. Qed.
