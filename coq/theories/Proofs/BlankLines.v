(* A line of white space only starts no block (for every kind but the Markdown renderer's
   BlankLine): the regex-defined starts by the `needs a non-space character` analysis on the
   regenerated patterns, the others by their string tests.  Hence the dispatch loop passes
   over a run of blank lines without adding an entry. *)
From Coq Require Import ZArith List Bool Lia.
From Mistletoe Require Import Base.Sx Base.PyStr Base.PyText Gen.GenTables Gen.GenRegex Gen.GenConfig Re.ReMatch Model.Block
     Proofs.ReFirst Proofs.ReNeeds Proofs.ReNeedsP Proofs.BlockProgress Proofs.Independence Proofs.Independence2.
Import ListNotations.
Local Open Scope Z_scope.

Lemma blank_all_space line : is_blank line = true -> forallb is_space_c line = true.
Proof. intros H. apply blank_lstrip in H. unfold lstrip in H. apply lstrip_by_nil in H. exact H. Qed.

Lemma blank_patterns :
  needs_nonspace re_block_token_Heading_pattern && needs_nonspace re_block_token_CodeFence_pattern &&
  needs_nonspace re_block_token_ThematicBreak_pattern && needs_nonspace re_block_token_List_pattern = true.
Proof. vm_compute. reflexivity. Qed.

Lemma lstrip_set_space line : forallb is_space_c line = true -> startswith [62] (lstrip_set [32] line) = false.
Proof.
  unfold lstrip_set. induction line as [|c r IH]; intros H; [reflexivity|]. cbn [forallb] in H. apply andb_true_iff in H as [Hc Hr].
  cbn [lstrip_by]. destruct (mem c [32]); [apply IH; exact Hr|]. cbn [startswith].
  destruct (62 =? c) eqn:E; [|reflexivity]. apply Z.eqb_eq in E. subst c. vm_compute in Hc. discriminate.
Qed.

Lemma blank_no_pipe line : forallb is_space_c line = true -> mem 124 line = false.
Proof.
  intros H. unfold mem. apply not_true_iff_false. intros E. apply existsb_exists in E as (x & Hx & Ex). apply Z.eqb_eq in Ex. subst x.
  rewrite forallb_forall in H. specialize (H 124 Hx). vm_compute in H. discriminate.
Qed.

Lemma start_read_blank types rec k line rest ln st :
  is_blank line = true -> kind_eqb k BK_BlankLine = false -> start_read types rec k (line :: rest) ln st = None.
Proof.
  intros Hb Hk. pose proof (blank_all_space line Hb) as Hs. pose proof blank_patterns as P.
  repeat rewrite andb_true_iff in P. destruct P as [[[P1 P2] P3] P4].
  destruct k; try discriminate; cbn [start_read].
  - unfold blockcode_start. rewrite Hb. rewrite andb_false_r. reflexivity.
  - unfold heading_start, rmatch. rewrite (blank_text_no_match _ _ line P1 Hs). reflexivity.
  - unfold quote_start. destruct (3 <? _); [reflexivity|]. rewrite (lstrip_set_space line Hs). reflexivity.
  - unfold codefence_start, rmatch. rewrite (blank_text_no_match _ _ line P2 Hs). reflexivity.
  - unfold thematic_start, rmatch. rewrite (blank_text_no_match _ _ line P3 Hs). reflexivity.
  - unfold list_start, rmatch. rewrite (blank_text_no_match _ _ line P4 Hs). reflexivity.
  - unfold table_start. rewrite (blank_no_pipe line Hs). reflexivity.
  - unfold footnote_start. rewrite (blank_lstrip line Hb). reflexivity.
  - unfold paragraph_start. rewrite Hb. reflexivity.
  - rewrite (htmlblock_not_blank line Hb). reflexivity.
  - unfold footnote_start. rewrite (blank_lstrip line Hb). reflexivity.
Qed.

Lemma try_types_blank types rec line rest ln st : is_blank line = true -> forall ts, no_blankline_kind ts = true ->
  try_types types rec ts (line :: rest) ln st = None.
Proof.
  intros Hb. induction ts as [|k ts IH]; intros H; [reflexivity|]. cbn [no_blankline_kind forallb] in H. apply andb_true_iff in H as [Hk Hr].
  cbn [try_types]. rewrite start_read_blank by (try exact Hb; apply negb_true_iff in Hk; exact Hk). apply IH. exact Hr.
Qed.

(* a run of blank lines adds no entry *)
Lemma dispatch_blanks types rec : no_blankline_kind types = true -> forall X n ln acc lo st,
  has_nonblank X = false -> (length X < n)%nat ->
  fst (fst (dispatch_loop types rec n X ln acc lo st)) = rev acc /\ snd (dispatch_loop types rec n X ln acc lo st) = st.
Proof.
  intros Hn. induction X as [|x X IH]; intros n ln acc lo st Hb Hl.
  - destruct n; split; reflexivity.
  - destruct n as [|n]; [cbn [length] in Hl; lia|]. cbn [has_nonblank existsb] in Hb. apply orb_false_iff in Hb as [Hx Hr]. apply negb_false_iff in Hx.
    cbn [dispatch_loop]. rewrite (try_types_blank types rec x X ln st Hx types Hn). apply IH; [exact Hr|cbn [length] in Hl; lia].
Qed.
