(* C06: the shards together cover every string over {a, space, *, _, .} up to length 7 and
   every string over {a,*} and over {a,_} up to length 12. *)
From Coq Require Import ZArith List Bool.
From Mistletoe Require Import Base.Sx Base.PyStr Proofs.EmphBounded.
From Mistletoe Require Proofs.Emph.UpTo5.
From Mistletoe Require Proofs.Emph.Len6_97.
From Mistletoe Require Proofs.Emph.Len6_32.
From Mistletoe Require Proofs.Emph.Len6_42.
From Mistletoe Require Proofs.Emph.Len6_95.
From Mistletoe Require Proofs.Emph.Len6_46.
From Mistletoe Require Proofs.Emph.Len7_97_97.
From Mistletoe Require Proofs.Emph.Len7_97_32.
From Mistletoe Require Proofs.Emph.Len7_97_42.
From Mistletoe Require Proofs.Emph.Len7_97_95.
From Mistletoe Require Proofs.Emph.Len7_97_46.
From Mistletoe Require Proofs.Emph.Len7_32_97.
From Mistletoe Require Proofs.Emph.Len7_32_32.
From Mistletoe Require Proofs.Emph.Len7_32_42.
From Mistletoe Require Proofs.Emph.Len7_32_95.
From Mistletoe Require Proofs.Emph.Len7_32_46.
From Mistletoe Require Proofs.Emph.Len7_42_97.
From Mistletoe Require Proofs.Emph.Len7_42_32.
From Mistletoe Require Proofs.Emph.Len7_42_42.
From Mistletoe Require Proofs.Emph.Len7_42_95.
From Mistletoe Require Proofs.Emph.Len7_42_46.
From Mistletoe Require Proofs.Emph.Len7_95_97.
From Mistletoe Require Proofs.Emph.Len7_95_32.
From Mistletoe Require Proofs.Emph.Len7_95_42.
From Mistletoe Require Proofs.Emph.Len7_95_95.
From Mistletoe Require Proofs.Emph.Len7_95_46.
From Mistletoe Require Proofs.Emph.Len7_46_97.
From Mistletoe Require Proofs.Emph.Len7_46_32.
From Mistletoe Require Proofs.Emph.Len7_46_42.
From Mistletoe Require Proofs.Emph.Len7_46_95.
From Mistletoe Require Proofs.Emph.Len7_46_46.
From Mistletoe Require Proofs.Emph.Star12.
From Mistletoe Require Proofs.Emph.Under12.
Import ListNotations.
Local Open Scope Z_scope.

Lemma strings_of_length_S alpha n s : In s (strings_of_length alpha (S n)) <-> exists c t, In c alpha /\ In t (strings_of_length alpha n) /\ s = c :: t.
Proof.
  cbn [strings_of_length]. rewrite in_flat_map. split.
  - intros (t & Ht & Hs). apply in_map_iff in Hs. destruct Hs as (c & <- & Hc). eauto.
  - intros (c & t & Hc & Ht & ->). exists t. split; auto. apply in_map_iff. eauto.
Qed.

Lemma alpha5_cases c : In c alpha5 -> c = 97 \/ c = 32 \/ c = 42 \/ c = 95 \/ c = 46.
Proof. cbn. intuition. Qed.

Lemma in_up_to alpha n s : In s (strings_up_to alpha n) <-> exists k, (k <= n)%nat /\ In s (strings_of_length alpha k).
Proof.
  induction n as [|n IH]; cbn [strings_up_to].
  - split; [intros H; exists O; split; auto|intros (k & Hk & H); assert (k = O) by (inversion Hk; auto); subst; exact H].
  - rewrite in_app_iff, IH. split.
    + intros [(k & Hk & H)|H]; [exists k; split; auto|exists (S n); split; auto].
    + intros (k & Hk & H). inversion Hk; subst; [right; exact H|left; exists k; split; auto].
Qed.

Ltac shard_of H := rewrite forallb_forall in H; apply H.

Theorem alpha5_up_to_7 : forall s, In s (strings_up_to alpha5 7) -> agree s = true.
Proof.
  intros s Hs. apply in_up_to in Hs. destruct Hs as (k & Hk & Hs).
  assert (Hc : (k <= 5 \/ k = 6 \/ k = 7)%nat) by (inversion Hk as [|? Hk1]; [auto|inversion Hk1; [auto|left; auto]]).
  destruct Hc as [Hc|[-> | ->]].
  - pose proof Emph.UpTo5.shard as H. shard_of H. apply in_up_to. exists k. split; auto.
  - apply strings_of_length_S in Hs. destruct Hs as (c & t & Hc & Ht & ->).
    apply alpha5_cases in Hc. destruct Hc as [->|[->|[->|[->| ->]]]].
    + pose proof Emph.Len6_97.shard as H. shard_of H. apply in_map_iff. eauto.
    + pose proof Emph.Len6_32.shard as H. shard_of H. apply in_map_iff. eauto.
    + pose proof Emph.Len6_42.shard as H. shard_of H. apply in_map_iff. eauto.
    + pose proof Emph.Len6_95.shard as H. shard_of H. apply in_map_iff. eauto.
    + pose proof Emph.Len6_46.shard as H. shard_of H. apply in_map_iff. eauto.
  - apply strings_of_length_S in Hs. destruct Hs as (c1 & t1 & Hc1 & Ht1 & ->).
    apply strings_of_length_S in Ht1. destruct Ht1 as (c2 & t & Hc2 & Ht & ->).
    apply alpha5_cases in Hc1. apply alpha5_cases in Hc2.
    destruct Hc1 as [->|[->|[->|[->| ->]]]]; destruct Hc2 as [->|[->|[->|[->| ->]]]].
    + pose proof Emph.Len7_97_97.shard as H. shard_of H. apply in_map_iff. eauto.
    + pose proof Emph.Len7_97_32.shard as H. shard_of H. apply in_map_iff. eauto.
    + pose proof Emph.Len7_97_42.shard as H. shard_of H. apply in_map_iff. eauto.
    + pose proof Emph.Len7_97_95.shard as H. shard_of H. apply in_map_iff. eauto.
    + pose proof Emph.Len7_97_46.shard as H. shard_of H. apply in_map_iff. eauto.
    + pose proof Emph.Len7_32_97.shard as H. shard_of H. apply in_map_iff. eauto.
    + pose proof Emph.Len7_32_32.shard as H. shard_of H. apply in_map_iff. eauto.
    + pose proof Emph.Len7_32_42.shard as H. shard_of H. apply in_map_iff. eauto.
    + pose proof Emph.Len7_32_95.shard as H. shard_of H. apply in_map_iff. eauto.
    + pose proof Emph.Len7_32_46.shard as H. shard_of H. apply in_map_iff. eauto.
    + pose proof Emph.Len7_42_97.shard as H. shard_of H. apply in_map_iff. eauto.
    + pose proof Emph.Len7_42_32.shard as H. shard_of H. apply in_map_iff. eauto.
    + pose proof Emph.Len7_42_42.shard as H. shard_of H. apply in_map_iff. eauto.
    + pose proof Emph.Len7_42_95.shard as H. shard_of H. apply in_map_iff. eauto.
    + pose proof Emph.Len7_42_46.shard as H. shard_of H. apply in_map_iff. eauto.
    + pose proof Emph.Len7_95_97.shard as H. shard_of H. apply in_map_iff. eauto.
    + pose proof Emph.Len7_95_32.shard as H. shard_of H. apply in_map_iff. eauto.
    + pose proof Emph.Len7_95_42.shard as H. shard_of H. apply in_map_iff. eauto.
    + pose proof Emph.Len7_95_95.shard as H. shard_of H. apply in_map_iff. eauto.
    + pose proof Emph.Len7_95_46.shard as H. shard_of H. apply in_map_iff. eauto.
    + pose proof Emph.Len7_46_97.shard as H. shard_of H. apply in_map_iff. eauto.
    + pose proof Emph.Len7_46_32.shard as H. shard_of H. apply in_map_iff. eauto.
    + pose proof Emph.Len7_46_42.shard as H. shard_of H. apply in_map_iff. eauto.
    + pose proof Emph.Len7_46_95.shard as H. shard_of H. apply in_map_iff. eauto.
    + pose proof Emph.Len7_46_46.shard as H. shard_of H. apply in_map_iff. eauto.
Qed.

Theorem star_under_up_to_12 : forall s, In s (strings_up_to alpha_star 12) \/ In s (strings_up_to alpha_under 12) -> agree s = true.
Proof.
  intros s [H|H]; [pose proof Emph.Star12.shard as Hs|pose proof Emph.Under12.shard as Hs]; rewrite forallb_forall in Hs; auto.
Qed.
