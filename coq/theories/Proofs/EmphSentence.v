(* C06, unbounded: ONE emphasised phrase inside a sentence.  The text  pre R w R post  - R a run of
   one or two * or _, w and pre, post free of trigger characters, w beginning and ending with a
   character that is neither white space nor punctuation, pre ending (if not empty) and post
   beginning (if not empty) with white space or punctuation - tokenizes to the raw text pre,
   one Emphasis / Strong holding w, the raw text post. *)
From Coq Require Import ZArith List Bool Lia.
From Mistletoe Require Import Base.Sx Base.PyStr Base.PyText Gen.GenTables Gen.GenRegex Gen.GenConfig Re.ReMatch
     Model.SpanTokenizer Model.Tree Model.Unescape Model.CoreTokens Model.Inline Model.Block Model.Build Model.Parser Model.HtmlRenderer
     Proofs.ReFirst Proofs.ReNeeds Proofs.Prose Proofs.PlainProse Proofs.ListLaw Proofs.ProseLines Proofs.EmphSimple.
Import ListNotations.
Local Open Scope Z_scope.

Lemma emph_two_at (s : str) (ch a b : Z) (ty : str) (K : Z) : (ch = 42 \/ ch = 95) -> (K = 1 \/ K = 2) -> 0 <= a ->
  process_emphasis s None [mkDelim (ch :: ty) K K true a (a + K) true true false; mkDelim (ch :: ty) K K true b (b + K) true false true] [] =
  ([], [mkMobj (a + K - K) (b + K) [(a + K - K + K, b + K - K, substr s (a + K - K + K) (b + K - K))] (if K =? 2 then $"Strong" else $"Emphasis") [char_at s (a + K - K)] [] None []]).
Proof.
  intros Hch HK Ha. unfold process_emphasis.
  assert (Hf : exists f', (3 * length s + 3)%nat = S (S f')) by (exists (3 * length s + 1)%nat; lia). destruct Hf as [f' ->].
  destruct a as [|p|p]; [| |lia]; destruct Hch as [->| ->]; destruct HK as [->| ->]; vm_compute; reflexivity.
Qed.

(* scanning inert text from a state with nothing pending leaves the state as it is *)
Definition clean (st : scan) : Prop := sc_run st = None /\ sc_escaped st = false /\ sc_in_image st = false.

Lemma after_inert_clean s st i : clean st -> after_inert s st i = st.
Proof. intros (Hr & He & Hi). unfold after_inert. rewrite Hr. destruct st. cbn in *. subst. reflexivity. Qed.

Lemma scan_inert_any s fn t fuel pre post st : s = pre ++ t ++ post -> forallb inert_char t = true -> clean st ->
  scan_loop (length t + fuel) s fn (slen pre) None st = scan_loop fuel s fn (slen pre + slen t) None st.
Proof.
  intros Es Ht Hc. destruct t as [|c t'].
  - cbn [length Nat.add]. unfold slen at 2. cbn [length Z.of_nat]. rewrite Z.add_0_r. reflexivity.
  - pose proof Hc as (Hr & He & _). rewrite (scan_inert_seg s fn (c :: t') fuel pre post st Es Ht ltac:(discriminate) He); [|unfold run_ok; rewrite Hr; exact I].
    rewrite after_inert_clean by exact Hc. reflexivity.
Qed.

Lemma plain_inert t : plain_text t = true -> forallb inert_char t = true.
Proof.
  intros Hp. apply forallb_forall. intros x Hx. unfold plain_text in Hp. rewrite forallb_forall in Hp. specialize (Hp x Hx).
  apply negb_true_iff in Hp. unfold inert_char. apply negb_true_iff. unfold mem, triggers in *. cbn [existsb] in *.
  repeat (apply orb_false_iff in Hp; destruct Hp as [? Hp]).
  repeat match goal with X : (_ =? _) = false |- _ => rewrite X; clear X end. reflexivity.
Qed.

Definition edge_ok (c : Z) : bool := is_uws c || is_punct c.

Definition raw_if (t : str) : list tok := match t with [] => [] | _ => [RawText t] end.

Lemma gap_before (p : str) (X : list otok) : (if slen p >? 0 then X else []) = match p with [] => [] | _ => X end.
Proof. destruct p; [reflexivity|]. unfold slen. cbn [length]. reflexivity. Qed.

Lemma gap_after (p : str) (x : Z) (X : list otok) : (if x =? x + slen p then [] else X) = match p with [] => [] | _ => X end.
Proof.
  destruct p as [|c t].
  - unfold slen. cbn [length Z.of_nat]. rewrite Z.add_0_r, Z.eqb_refl. reflexivity.
  - replace (x =? x + slen (c :: t)) with false by (symmetry; apply Z.eqb_neq; unfold slen; cbn [length]; lia). reflexivity.
Qed.

Lemma raw_gap (p : str) (f : otok -> tok) (o : otok) : f o = RawText p ->
  map f (rev (match p with [] => [] | _ => [o] end)) = raw_if p.
Proof. intros H. destruct p; [reflexivity|]. cbn [rev app map raw_if]. rewrite H. reflexivity. Qed.

Section Sent.
  Variables (ch : Z) (k : nat) (pre w post : str).
  Hypothesis Hch : ch = 42 \/ ch = 95.
  Hypothesis Hk : (k <= 1)%nat.
  Hypothesis Hw : plain_text w = true.
  Hypothesis Hne : w <> [].
  Hypothesis Hfirst : alnum_like (hd 0 w) = true.
  Hypothesis Hlast : alnum_like (last w 0) = true.
  Hypothesis Hpre : plain_text pre = true.
  Hypothesis Hpost : plain_text post = true.
  Hypothesis Hpe : pre = [] \/ edge_ok (last pre 0) = true.
  Hypothesis Hpo : post = [] \/ edge_ok (hd 0 post) = true.
  Let R := repeat ch (S k).
  Let s := pre ++ R ++ w ++ R ++ post.
  Let K := Z.of_nat (S k).
  Let a := slen pre.
  Let b := a + K + slen w.
  Let e := b + K.

  Lemma sl_s : slen s = e + slen post.
  Proof. unfold s, e, b, a, R, K. rewrite !slen_app, !slen_repeat. lia. Qed.
  Lemma sl_R : slen R = K.  Proof. unfold R, K. apply slen_repeat. Qed.
  Lemma Kp : 0 < K.  Proof. unfold K. lia. Qed.
  Lemma wp : 0 < slen w.  Proof. destruct w; [contradiction|]. unfold slen. cbn [length]. lia. Qed.
  Lemma a0 : 0 <= a.  Proof. unfold a, slen. lia. Qed.
  Lemma p0 : 0 <= slen post.  Proof. unfold slen. lia. Qed.

  Definition E1 : delim := new_delim a (a + K) s.
  Definition E2 : delim := new_delim b e s.

  (* positions of the text *)
  Lemma at_a : char_at s a = ch.
  Proof. unfold s, a, R. cbn [repeat app]. apply char_at_mid. Qed.
  Lemma at_w0 : char_at s (a + K) = hd 0 w.
  Proof.
    destruct w as [|c t] eqn:Ew; [contradiction|]. cbn [hd]. unfold s. rewrite app_assoc.
    replace (a + K) with (slen (pre ++ R)) by (rewrite slen_app, sl_R; reflexivity). cbn [app]. apply char_at_mid.
  Qed.
  Lemma at_wl : char_at s (b - 1) = last w 0.
  Proof.
    destruct (exists_last Hne) as (t & c & Ew). rewrite Ew, last_last. unfold s. rewrite Ew.
    replace (b - 1) with (slen (pre ++ R ++ t)) by (unfold b, a; rewrite Ew, !slen_app, sl_R; unfold slen; cbn [length]; lia).
    replace (pre ++ R ++ (t ++ [c]) ++ R ++ post) with ((pre ++ R ++ t) ++ c :: R ++ post) by (rewrite <- !app_assoc; reflexivity).
    apply char_at_mid.
  Qed.
  Lemma at_b : char_at s b = ch.
  Proof.
    unfold s. replace b with (slen (pre ++ R ++ w)) by (unfold b, a; rewrite !slen_app, sl_R; lia).
    replace (pre ++ R ++ w ++ R ++ post) with ((pre ++ R ++ w) ++ ch :: repeat ch k ++ post) by (unfold R; cbn [repeat]; rewrite <- !app_assoc; reflexivity).
    apply char_at_mid.
  Qed.

  Lemma prev_edge : edge_ok (if 0 <? a then char_at s (a - 1) else 32) = true.
  Proof.
    destruct Hpe as [Ep|Ep].
    - unfold a. rewrite Ep. reflexivity.
    - destruct (exists_last (l := pre)) as (t & c & Et); [intros N; rewrite N in Ep; vm_compute in Ep; discriminate|].
      assert (0 <? a = true) as -> by (apply Z.ltb_lt; unfold a; rewrite Et, slen_app; unfold slen; cbn [length]; lia).
      rewrite Et, last_last in Ep. unfold s. rewrite Et. replace (a - 1) with (slen t) by (unfold a; rewrite Et, slen_app; unfold slen; cbn [length]; lia).
      rewrite <- app_assoc. cbn [app]. rewrite char_at_mid. exact Ep.
  Qed.

  Lemma next_edge : edge_ok (if e <? slen s then char_at s e else 32) = true.
  Proof.
    destruct Hpo as [Ep|Ep].
    - rewrite sl_s, Ep. unfold slen at 1. cbn [length Z.of_nat]. rewrite Z.add_0_r, Z.ltb_irrefl. reflexivity.
    - assert (Hx : exists c t, post = c :: t) by (destruct post as [|c t]; [vm_compute in Ep; discriminate|exists c, t; reflexivity]).
      destruct Hx as (c & t & Et). rewrite Et in Ep. cbn [hd] in Ep.
      assert (e <? slen s = true) as -> by (apply Z.ltb_lt; rewrite sl_s, Et; unfold slen; cbn [length]; lia).
      unfold s. replace e with (slen (pre ++ R ++ w ++ R)) by (unfold e, b, a; rewrite !slen_app, sl_R; lia).
      rewrite Et. replace (pre ++ R ++ w ++ R ++ c :: t) with ((pre ++ R ++ w ++ R) ++ c :: t) by (rewrite <- !app_assoc; reflexivity).
      rewrite char_at_mid. exact Ep.
  Qed.

  (* ---- the two delimiters ---- *)
  Lemma ty_R a0' : a0' = a \/ a0' = b -> substr s a0' (a0' + K) = R.
  Proof.
    intros [->| ->].
    - unfold substr. replace (a + K - a) with (slen R) by (rewrite sl_R; lia). unfold s, a.
      rewrite <- (app_nil_r R) at 2. replace (slen R) with (slen pre + slen R - slen pre) at 1 by lia.
      pose proof (substr_mid pre R (w ++ R ++ post)) as M. unfold substr in M. replace (slen pre + slen R - slen pre) with (slen R) by lia. 
      replace (slen pre + slen R - slen pre) with (slen R) in M by lia. rewrite app_nil_r. exact M.
    - pose proof (substr_mid (pre ++ R ++ w) R post) as M. replace (slen (pre ++ R ++ w)) with b in M by (unfold b, a; rewrite !slen_app, sl_R; lia).
      rewrite sl_R in M. unfold s. replace (pre ++ R ++ w ++ R ++ post) with ((pre ++ R ++ w) ++ R ++ post) by (rewrite <- !app_assoc; reflexivity). exact M.
  Qed.

  Lemma emph_flag : (ch =? 42) || (ch =? 95) = true.
  Proof. destruct Hch as [->| ->]; reflexivity. Qed.

  Lemma E1_eq : E1 = mkDelim (ch :: repeat ch k) K K true a (a + K) true true false.
  Proof.
    pose proof Kp as HK. pose proof wp as Hwp. pose proof sl_s as Hs. pose proof p0 as Hp0. pose proof a0 as Ha0.
    unfold E1, new_delim. rewrite (ty_R a (or_introl eq_refl)). change R with (ch :: repeat ch k). cbv iota. rewrite emph_flag. cbn [andb].
    pose proof Hfirst as HF. unfold alnum_like in HF. apply andb_true_iff in HF as [F1 F2]. apply negb_true_iff in F1, F2.
    pose proof prev_edge as PE. unfold edge_ok in PE.
    assert (L : is_left_delimiter a (a + K) s = true).
    { unfold is_left_delimiter, succeeded_by. assert (a + K <? slen s = true) as -> by (apply Z.ltb_lt; unfold e, b in Hs; lia). rewrite at_w0, F1, F2. reflexivity. }
    assert (Rt : is_right_delimiter a (a + K) s = false).
    { unfold is_right_delimiter, preceded_by, succeeded_by. assert (a + K <? slen s = true) as -> by (apply Z.ltb_lt; unfold e, b in Hs; lia). rewrite at_w0, F1, F2.
      destruct (is_uws (if 0 <? a then char_at s (a - 1) else 32)) eqn:U; [reflexivity|]. cbn [orb] in PE. rewrite PE. reflexivity. }
    assert (Op : is_opener a (a + K) s = true) by (unfold is_opener; rewrite at_a, L, Rt; destruct (ch =? 42); reflexivity).
    assert (Cl : is_closer a (a + K) s = false) by (unfold is_closer; rewrite at_a, L, Rt; destruct (ch =? 42); reflexivity).
    rewrite Op, Cl. f_equal; lia.
  Qed.

  Lemma E2_eq : E2 = mkDelim (ch :: repeat ch k) K K true b (b + K) true false true.
  Proof.
    pose proof Kp as HK. pose proof wp as Hwp. pose proof sl_s as Hs. pose proof p0 as Hp0. pose proof a0 as Ha0.
    unfold E2, new_delim, e. rewrite (ty_R b (or_intror eq_refl)). change R with (ch :: repeat ch k). cbv iota. rewrite emph_flag. cbn [andb].
    pose proof Hlast as HF. unfold alnum_like in HF. apply andb_true_iff in HF as [F1 F2]. apply negb_true_iff in F1, F2.
    pose proof next_edge as NE. unfold edge_ok, e in NE.
    assert (Rt : is_right_delimiter b (b + K) s = true).
    { unfold is_right_delimiter, preceded_by. assert (0 <? b = true) as -> by (apply Z.ltb_lt; unfold b; lia). rewrite at_wl, F1, F2. reflexivity. }
    assert (L : is_left_delimiter b (b + K) s = false).
    { unfold is_left_delimiter, succeeded_by, preceded_by. assert (0 <? b = true) as -> by (apply Z.ltb_lt; unfold b; lia). rewrite at_wl, F1, F2.
      destruct (is_uws (if b + K <? slen s then char_at s (b + K) else 32)) eqn:U; [reflexivity|]. cbn [orb] in NE. rewrite NE. reflexivity. }
    assert (Op : is_opener b (b + K) s = false) by (unfold is_opener; rewrite at_b, L, Rt; destruct (ch =? 42); reflexivity).
    assert (Cl : is_closer b (b + K) s = true) by (unfold is_closer; rewrite at_b, L, Rt; destruct (ch =? 42); reflexivity).
    rewrite Op, Cl. f_equal; lia.
  Qed.

  (* ---- the scanner ---- *)
  Lemma scan_sentence fn : exists st, scan_loop (S (S (length s))) s fn 0 None (mkScan [] [] false None false 0 []) = st /\
                                       sc_ds st = [E1; E2] /\ sc_ms st = [] /\ sc_code st = [].
  Proof.
    pose proof sl_R as HR.
    assert (El : (S (S (length s)) = length pre + (S k + (length w + (S k + (length post + 2)))))%nat).
    { unfold s, R. rewrite !app_length, !repeat_length. lia. }
    rewrite El.
    set (st0 := mkScan [] [] false None false 0 []).
    rewrite (scan_inert_any s fn pre _ [] (R ++ w ++ R ++ post) st0 eq_refl (plain_inert pre Hpre)) by (repeat split).
    change (slen [] + slen pre) with a.
    replace a with (slen pre) at 1 by reflexivity.
    rewrite (scan_run_seg s fn ch Hch k _ pre (w ++ R ++ post) st0 eq_refl eq_refl eq_refl).
    replace (slen pre + Z.of_nat (S k)) with (slen (pre ++ R)) by (rewrite slen_app, HR; reflexivity).
    rewrite (scan_inert_seg s fn w _ (pre ++ R) (R ++ post) (in_run st0 ch (slen pre))); [|unfold s; rewrite <- !app_assoc; reflexivity|exact (plain_inert w Hw)|exact Hne|reflexivity|cbn; exact Hch].
    unfold after_inert, in_run. cbn [sc_run sc_ds sc_ms sc_start sc_code app st0].
    replace (slen (pre ++ R) + slen w) with (slen (pre ++ R ++ w)) by (rewrite !slen_app; lia).
    set (st1 := mkScan [new_delim (slen pre) (slen (pre ++ R)) s] [] false None false (slen pre) []).
    rewrite (scan_run_seg s fn ch Hch k _ (pre ++ R ++ w) post st1); [|unfold s; rewrite <- !app_assoc; reflexivity|reflexivity|reflexivity].
    assert (Eb : slen (pre ++ R ++ w) = b) by (unfold b, a; rewrite !slen_app, HR; lia).
    assert (Ea : slen (pre ++ R) = a + K) by (rewrite slen_app, HR; reflexivity).
    rewrite Eb. change (Z.of_nat (S k)) with K. fold e.
    unfold in_run, st1. cbn [sc_ds sc_ms sc_code]. rewrite Ea. fold a. fold E1.
    assert (Hcase : post = [] \/ post <> []) by (destruct post; [left; reflexivity|right; discriminate]).
    destruct Hcase as [Ep|Ep].
    - assert (Lp : length post = 0%nat) by (rewrite Ep; reflexivity). rewrite Lp. cbn [Nat.add].
      assert (Ee : e = slen s) by (rewrite sl_s, Ep; unfold slen; cbn [length]; lia).
      rewrite Ee. rewrite scan_end. cbn [sc_run sc_ds sc_ms sc_code sc_start]. eexists. split; [reflexivity|]. cbn [sc_ds sc_ms sc_code app].
      rewrite <- Ee. fold E2. repeat split.
    - replace e with (slen (pre ++ R ++ w ++ R)) by (unfold e, b, a; rewrite !slen_app, HR; lia).
      rewrite (scan_inert_seg s fn post 2 (pre ++ R ++ w ++ R) []); [|unfold s; rewrite app_nil_r, <- !app_assoc; reflexivity|apply plain_inert; exact Hpost|exact Ep|reflexivity|cbn; exact Hch].
      replace (slen (pre ++ R ++ w ++ R) + slen post) with (slen s) by (rewrite sl_s; unfold e, b, a; rewrite !slen_app, HR; lia).
      rewrite scan_end. unfold after_inert. cbn [sc_run sc_ds sc_ms sc_code sc_start]. eexists. split; [reflexivity|]. cbn [sc_ds sc_ms sc_code app].
      replace (slen (pre ++ R ++ w ++ R)) with e by (unfold e, b, a; rewrite !slen_app, HR; lia). fold E2. repeat split.
  Qed.

  (* ---- the match, the other finders, the tokens ---- *)
  Definition sent_match : mobj :=
    mkMobj a e [(a + K, b, w)] (if K =? 2 then $"Strong" else $"Emphasis") [ch] [] None [].

  Lemma Kc : K = 1 \/ K = 2.
  Proof. unfold K. destruct k as [|[|k']]; [left; reflexivity|right; reflexivity|lia]. Qed.

  Lemma inner_w : substr s (a + K) b = w.
  Proof.
    pose proof (substr_mid (pre ++ R) w (R ++ post)) as M. replace (slen (pre ++ R)) with (a + K) in M by (rewrite slen_app, sl_R; reflexivity).
    replace (a + K + slen w) with b in M by (unfold b; lia). unfold s. replace (pre ++ R ++ w ++ R ++ post) with ((pre ++ R) ++ w ++ R ++ post) by (rewrite <- !app_assoc; reflexivity). exact M.
  Qed.

  Lemma sentence_match : process_emphasis s None [E1; E2] [] = ([], [sent_match]).
  Proof.
    rewrite E1_eq, E2_eq. rewrite (emph_two_at s ch a b (repeat ch k) K Hch Kc a0).
    unfold sent_match, e. replace (a + K - K) with a by lia. replace (b + K - K) with b by lia. rewrite inner_w, at_a. reflexivity.
  Qed.

  Lemma s_no_code : code_search s 0 = None.
  Proof.
    unfold code_search. apply (search_state_none _ _ 96); [vm_compute; reflexivity|]. unfold seek. cbn [aft]. unfold drop. cbn [Z.to_nat skipn].
    unfold s, mem. rewrite !existsb_app. fold (mem 96 pre). fold (mem 96 R). fold (mem 96 w). fold (mem 96 post).
    rewrite (plain_no 96 pre eq_refl Hpre), (plain_no 96 w eq_refl Hw), (plain_no 96 post eq_refl Hpost).
    unfold R. rewrite (mem_repeat 96 ch) by (destruct Hch as [->| ->]; discriminate). reflexivity.
  Qed.

  Theorem core_finds_sentence fn : find_core_tokens s fn = ([sent_match], []).
  Proof.
    unfold find_core_tokens. rewrite s_no_code. destruct (scan_sentence fn) as (st & -> & Hd & Hm & Hc). rewrite Hd, Hm, Hc, sentence_match. reflexivity.
  Qed.

  Lemma sent_no c : mem c triggers_e = true -> mem c s = false.
  Proof.
    intros Hc.
    assert (P : forall t, plain_text t = true -> mem c t = false).
    { intros t Ht. apply plain_no; [|exact Ht]. unfold mem, triggers_e, triggers in *. cbn [existsb] in *.
      repeat (apply orb_true_iff in Hc; destruct Hc as [Hc|Hc]); try discriminate; rewrite Hc; cbn [orb]; rewrite ?orb_true_r; reflexivity. }
    assert (PR : mem c R = false).
    { unfold R. rewrite (mem_repeat c ch); [reflexivity|]. intros ->. destruct Hch as [->| ->]; vm_compute in Hc; discriminate. }
    unfold s, mem. rewrite !existsb_app. fold (mem c pre). fold (mem c R). fold (mem c w). fold (mem c post).
    rewrite (P pre Hpre), (P w Hw), (P post Hpost), PR. reflexivity.
  Qed.

  Lemma find_all_sentence fn : forall types, forallb kind_quiet_e types = true ->
    find_all types s fn [] = flat_map (fun kd => match kd with SK_CoreTokens => [CCore sent_match] | _ => [] end) types.
  Proof.
    induction types as [|kd ts IH]; intros Hq; [reflexivity|].
    cbn [forallb] in Hq. apply andb_true_iff in Hq as [Hkq Hts]. cbn [find_all flat_map].
    assert (F : match kd with SK_CoreTokens | SK_InlineCode | SK_RawText => True | _ => finditer (snd (re_of kd)) (fst (re_of kd)) s = [] end).
    { destruct kd; try exact I; cbn [kind_quiet_e] in Hkq; apply existsb_exists in Hkq as (c & Hin & Hn);
        (apply (finditer_none _ _ c s Hn); apply sent_no; unfold mem; apply existsb_exists; exists c; split; [exact Hin|apply Z.eqb_refl]). }
    destruct kd; cbn [find_kind];
      try (rewrite core_finds_sentence; cbn [map app]; f_equal; apply IH; exact Hts);
      try (cbn [map app]; apply IH; exact Hts);
      (cbn [re_of fst snd] in F |- *; rewrite F; cbn [map app]; apply IH; exact Hts).
  Qed.

  Definition sent_tok : tok := if K =? 2 then Strong [ch] [RawText w] else Emphasis [ch] [RawText w].

  Theorem tokenize_inner_sentence types fn : forallb kind_quiet_e (removelast types) = true ->
    filter (fun kd => match kd with SK_CoreTokens => true | _ => false end) (removelast types) = [SK_CoreTokens] ->
    tokenize_inner types fn s = raw_if pre ++ [sent_tok] ++ raw_if post.
  Proof.
    intros Hq Hc. unfold tokenize_inner. rewrite (find_all_sentence fn _ Hq).
    assert (Es : flat_map (fun kd => match kd with SK_CoreTokens => [CCore sent_match] | _ => [] end) (removelast types) = [CCore sent_match]).
    { clear Hq. revert Hc. generalize (removelast types) as ts.
      assert (G : forall ts n, length (filter (fun kd => match kd with SK_CoreTokens => true | _ => false end) ts) = n ->
                flat_map (fun kd => match kd with SK_CoreTokens => [CCore sent_match] | _ => [] end) ts = repeat (CCore sent_match) n).
      { induction ts as [|kd ts IH]; intros n Hn; [cbn in Hn; subst n; reflexivity|]. cbn [flat_map filter] in *.
        destruct kd; try (cbn [app]; apply IH; exact Hn). destruct n as [|n]; [discriminate|]. cbn [length] in Hn. cbn [repeat app]. f_equal. apply IH. lia. }
      intros ts H. rewrite (G ts 1%nat) by (rewrite H; reflexivity). reflexivity. }
    rewrite Es. cbn [number_from map fst snd cand_of sk_parse_group field_span sent_match m_fields nth_error m_start m_end sk_precedence sk_parse_inner].
    pose proof Kp as HK. pose proof wp as Hwp. pose proof sl_s as Hs. pose proof a0 as Ha0. pose proof p0 as Hp0.
    unfold tokenize, SpanTokenizer.make_tokens, make_tokens_with.
    cbn [sort_cands fold_right insert_stable buffer_rev eval_loop last_end pc ce mk_rev cs make inner ps pe app rev].
    unfold make_tokens_with. cbn [last_end mk_rev app rev].
    assert (a + K =? b = false) as -> by (apply Z.eqb_neq; unfold b; lia).
    (* the gaps before and after *)
    assert (Gb : (if a >? 0 then [ORaw 0 a] else []) = match pre with [] => [] | _ => [ORaw 0 a] end) by (unfold a; apply gap_before).
    assert (Ga : (if e =? slen s then [] else [ORaw e (slen s)]) = match post with [] => [] | _ => [ORaw e (slen s)] end) by (rewrite Hs; apply gap_after).
    rewrite Gb, Ga. rewrite rev_app_distr. cbn [rev app]. rewrite rev_app_distr. cbn [rev app].
    rewrite !map_app. cbn [map build_otok cid src_at Z.to_nat nth].
    rewrite inner_w, (unescape_plain w Hw).
    assert (Tk : build_inner (CCore sent_match) [RawText w] = sent_tok).
    { unfold sent_tok, sent_match. cbn [build_inner m_type m_delimiter]. clear. destruct (K =? 2); reflexivity. }
    rewrite Tk. rewrite <- app_assoc. cbn [app]. f_equal; [|f_equal].
    - apply raw_gap. cbn [build_otok]. f_equal.
      pose proof (substr_mid [] pre (R ++ w ++ R ++ post)) as M. cbn [app] in M. unfold slen at 1 2 in M. cbn [length Z.of_nat] in M.
      fold s in M. fold a in M. replace (0 + a) with a in M by lia. rewrite M. apply unescape_plain. exact Hpre.
    - apply raw_gap. cbn [build_otok]. f_equal.
      pose proof (substr_mid (pre ++ R ++ w ++ R) post []) as M.
      replace (slen (pre ++ R ++ w ++ R)) with e in M by (unfold e, b, a; rewrite !slen_app, sl_R; lia).
      rewrite app_nil_r in M. replace ((pre ++ R ++ w ++ R) ++ post) with s in M by (unfold s; rewrite <- !app_assoc; reflexivity).
      rewrite Hs. rewrite M. apply unescape_plain. exact Hpost.
  Qed.
End Sent.

(* ---- the closed statement ---- *)
Definition edge_pre (p : str) : bool := match p with [] => true | _ => edge_ok (last p 0) end.
Definition edge_post (p : str) : bool := match p with [] => true | c :: _ => edge_ok c end.
Definition sentence_side (p : str) : bool := plain_text p.

Lemma render_raw_if o (p : str) : serialize (flat_map (render o false false) (raw_if p)) = escape_html_text o p.
Proof.
  destruct p as [|z p]; [|unfold raw_if; cbn [flat_map render]; rewrite app_nil_r; change (fill o GenEscapes.html_raw_text (z :: p)) with (escape_html_text o (z :: p)); unfold serialize; cbn [flat_map ser_item]; apply app_nil_r].
  cbn [raw_if flat_map serialize]. unfold serialize, escape_html_text, apply_chain. cbn [flat_map].
  induction GenEscapes.html_text_chain as [|[[g x] r] c IH]; [reflexivity|]. cbn [fold_left]. destruct (guard_on o g); exact IH.
Qed.

Theorem emphasis_in_sentence types fn o ch (double : bool) pre w post :
  (ch = 42 \/ ch = 95) -> emph_word w = true -> plain_text pre = true -> plain_text post = true ->
  edge_pre pre = true -> edge_post post = true -> emph_spans types = true ->
  let run := if double then [ch; ch] else [ch] in
  let tag := if double then $"strong" else $"em" in
  let s := pre ++ run ++ w ++ run ++ post in
  tokenize_inner types fn s = raw_if pre ++ [if double then Strong [ch] [RawText w] else Emphasis [ch] [RawText w]] ++ raw_if post /\
  serialize (flat_map (render o false false) (tokenize_inner types fn s)) =
    escape_html_text o pre ++ $"<" ++ tag ++ $">" ++ escape_html_text o w ++ $"</" ++ tag ++ $">" ++ escape_html_text o post.
Proof.
  intros Hch Hw Hpre Hpost Hpe Hpo Hs run tag s. unfold emph_word in Hw. repeat rewrite andb_true_iff in Hw. destruct Hw as [[[Hp Hn] Hf] Hl].
  assert (Hne : w <> []) by (destruct w; [discriminate|discriminate]).
  unfold emph_spans in Hs. apply andb_true_iff in Hs as [Hq Hc].
  assert (Hc' : filter (fun kd => match kd with SK_CoreTokens => true | _ => false end) (removelast types) = [SK_CoreTokens]).
  { destruct (filter _ _) as [|[] [|? ?]]; try discriminate. reflexivity. }
  assert (Hpe' : pre = [] \/ edge_ok (last pre 0) = true) by (destruct pre; [left; reflexivity|right; exact Hpe]).
  assert (Hpo' : post = [] \/ edge_ok (hd 0 post) = true) by (destruct post; [left; reflexivity|right; exact Hpo]).
  pose proof (tokenize_inner_sentence ch (if double then 1%nat else 0%nat) pre w post Hch ltac:(destruct double; lia) Hp Hne Hf Hl Hpre Hpost Hpe' Hpo' types fn Hq Hc') as T.
  assert (Er : repeat ch (S (if double then 1%nat else 0%nat)) = run) by (destruct double; reflexivity).
  rewrite Er in T. fold s in T.
  assert (Et : sent_tok ch (if double then 1%nat else 0%nat) w = if double then Strong [ch] [RawText w] else Emphasis [ch] [RawText w]) by (destruct double; reflexivity).
  rewrite Et in T. split; [exact T|].
  rewrite T. rewrite !flat_map_app; unfold serialize at 1; rewrite !flat_map_app; fold (serialize (flat_map (render o false false) (raw_if pre))); fold (serialize (flat_map (render o false false) (raw_if post))); rewrite !render_raw_if. f_equal.
  set (tk := if double then Strong [ch] [RawText w] else Emphasis [ch] [RawText w]).
  assert (M : flat_map ser_item (flat_map (render o false false) [tk]) = $"<" ++ tag ++ $">" ++ escape_html_text o w ++ $"</" ++ tag ++ $">").
  { unfold tk, tag. destruct double; cbn; rewrite ?app_nil_r; reflexivity. }
  rewrite M. rewrite <- !app_assoc. reflexivity.
Qed.

Example sentence_instance :
  let pre := $"this is " in let post := $", and (more) follows" in
  plain_text pre = true /\ plain_text post = true /\ edge_pre pre = true /\ edge_post post = true /\ emph_word ($"really so") = true /\
  edge_post ($"x") = false /\ edge_pre ($"x") = false.
Proof. vm_compute. repeat split; reflexivity. Qed.
