(* C14: a backslash that escapes nothing is ordinary text.  pre \ c post - c not one of the characters EscapeSequence.pattern
   lets a backslash escape, and not a line ending - tokenizes to ONE RawText holding the whole text, backslash included
   (CommonMark 2.4: "Backslashes before other characters are treated as literal backslashes").  EscapeSequence.pattern is
   evaluated at the backslash and fails on c; the scanner of the core tokens steps over both characters; every other finder
   needs a character the text does not hold. *)
From Coq Require Import ZArith List Bool Lia.
From Mistletoe Require Import Base.Sx Base.PyStr Base.PyText Gen.GenTables Gen.GenRegex Gen.GenConfig Re.ReMatch
     Model.SpanTokenizer Model.Tree Model.Unescape Model.CoreTokens Model.Inline Model.Block Model.Build Model.Parser Model.HtmlRenderer
     Proofs.ReFirst Proofs.ReNeeds Proofs.ReExact Proofs.HeadingLaw Proofs.Prose Proofs.PlainProse Proofs.ListLaw Proofs.ProseLines
     Proofs.EmphSimple Proofs.EmphSentence Proofs.RefSentence Proofs.LinkSentence Proofs.CodeSpan Proofs.StrikeSentence Proofs.EscSentence.
Import ListNotations.
Local Open Scope Z_scope.

(* a character after which a backslash stays a backslash *)
Definition lit_char (c : Z) : bool := negb (char_ok (mkFlags false false) ESC_SET c) && negb (mem c triggers).

Section LitS.
  Variables (pre post : str) (c : Z) (fn : footnotes).
  Hypothesis Hpre : plain_text pre = true.
  Hypothesis Hpost : plain_text post = true.
  Hypothesis Hc : lit_char c = true.

  Let fl := mkFlags false false.
  Let s := pre ++ [92; c] ++ post.
  Let a := slen pre.

  Lemma b_len : slen s = a + 1 + 1 + slen post.
  Proof. unfold s, a. rewrite !slen_app. unfold slen. cbn [length]. lia. Qed.

  Lemma b_set : char_ok fl ESC_SET c = false.
  Proof. pose proof Hc as H. unfold lit_char in H. apply andb_true_iff in H as [H _]. apply negb_true_iff in H. exact H. Qed.

  Lemma b_cplain d : mem d triggers = true -> (d =? c) = false.
  Proof.
    intros Hd. destruct (d =? c) eqn:E; [|reflexivity]. apply Z.eqb_eq in E. subst d.
    pose proof Hc as H. unfold lit_char in H. apply andb_true_iff in H as [_ H]. apply negb_true_iff in H. rewrite Hd in H. discriminate.
  Qed.

  (* no trigger character but the backslash *)
  Lemma b_no d : mem d triggers = true -> d <> 92 -> mem d s = false.
  Proof.
    intros Hd D92. apply Z.eqb_neq in D92. unfold s, mem. rewrite !existsb_app. fold (mem d pre). fold (mem d post).
    rewrite (plain_no d pre Hd Hpre), (plain_no d post Hd Hpost). cbn [existsb orb]. rewrite D92, (b_cplain d Hd). reflexivity.
  Qed.

  Lemma b_no_x d : mem d triggers_x = true -> mem d s = false.
  Proof.
    intros Hd. apply b_no.
    - unfold mem, triggers_x, triggers in *. cbn [existsb] in *.
      repeat (apply orb_true_iff in Hd; destruct Hd as [Hd|Hd]); try discriminate; rewrite Hd; cbn [orb]; rewrite ?orb_true_r; reflexivity.
    - intros ->. vm_compute in Hd. discriminate.
  Qed.

  (* EscapeSequence.pattern finds nothing: at the backslash it reads c and fails; there is no other backslash *)
  Lemma esc_nothing : finditer fl_span_token_EscapeSequence_pattern re_span_token_EscapeSequence_pattern s = [].
  Proof.
    unfold finditer. apply finditer_from_none.
    assert (Ea : aft (start_at [] s) = s) by reflexivity. rewrite Ea.
    rewrite (search_skip _ _ pre s (start_at [] s) (92 :: c :: post)); [|reflexivity| |unfold s; rewrite app_length; lia].
    2:{ intros d Hd. apply esc_nomatch.
        pose proof (plain_no 92 pre eq_refl Hpre) as T. destruct (d =? 92) eqn:E; [|reflexivity]. apply Z.eqb_eq in E. subst d.
        assert (T' : mem 92 pre = true) by (unfold mem; apply existsb_exists; exists 92; split; [exact Hd|reflexivity]). rewrite T' in T. discriminate. }
    set (x0 := adv_run (start_at [] s) pre (92 :: c :: post)).
    destruct esc_shape as (-> & Hcr & ->). fold fl.
    assert (M : forall K, m fl (Seq (Lit 92) (Grp 1 ESC_SET)) (mkMst (bef x0) (aft x0) (pos x0) []) K = None).
    { intros K. rewrite m_seq. rewrite (m_char fl (Lit 92) _ 92 (c :: post)) by reflexivity. cbn [char_ok Z.eqb Pos.eqb].
      rewrite m_grp. rewrite (m_char fl ESC_SET _ c post _ Hcr) by reflexivity. rewrite b_set. reflexivity. }
    assert (N : forall fuel, search_from fl (Seq (Lit 92) (Grp 1 ESC_SET)) fuel false (advance x0 92 (c :: post)) = None).
    { intros fuel. apply (search_none fl _ 92); [vm_compute; reflexivity|]. cbn [aft advance].
      unfold mem. cbn [existsb]. rewrite (b_cplain 92 eq_refl). fold (mem 92 post). cbn [orb]. apply plain_no; [reflexivity|exact Hpost]. }
    destruct (skipn (length pre) s) as [|y fuel]; cbn [search_from]; rewrite M; [reflexivity|].
    assert (Eb : aft x0 = 92 :: c :: post) by reflexivity. rewrite Eb. apply N.
  Qed.

  (* the scanner steps over the backslash and the character behind it *)
  Lemma scan_backslash fuel st : clean st ->
    scan_loop (S (S fuel)) s fn a None st = scan_loop fuel s fn (a + 1 + 1) None st.
  Proof.
    intros (Hr & He & Hi).
    assert (H1 : a <? slen s = true) by (apply Z.ltb_lt; rewrite b_len; unfold a, slen; lia).
    assert (H2 : a + 1 <? slen s = true) by (apply Z.ltb_lt; rewrite b_len; unfold a, slen; lia).
    assert (E1 : char_at s a = 92) by (unfold s, a; apply char_at_mid).
    assert (E2 : char_at s (a + 1) = c).
    { replace (a + 1) with (slen (pre ++ [92])) by (unfold a; rewrite slen_app; reflexivity).
      replace s with ((pre ++ [92]) ++ c :: post) by (unfold s; rewrite <- app_assoc; reflexivity). apply char_at_mid. }
    cbn [scan_loop]. rewrite H1. cbn [negb]. rewrite E1, He. cbn [Z.eqb Pos.eqb andb negb].
    rewrite H2. cbn [negb sc_escaped sc_run sc_ds sc_ms sc_in_image sc_start sc_code]. rewrite E2, Hr. cbn [andb negb orb].
    rewrite !andb_false_r. cbn [negb].
    destruct st as [ds0 ms0 esc0 run0 img0 start0 code0]. cbn [sc_run sc_escaped sc_in_image sc_ds sc_ms sc_start sc_code] in *. rewrite Hr, He, Hi. reflexivity.
  Qed.

  Theorem core_nothing_l : find_core_tokens s fn = ([], []).
  Proof.
    unfold find_core_tokens.
    assert (Hcs : code_search s 0 = None).
    { unfold code_search. apply (search_state_none _ _ 96); [vm_compute; reflexivity|]. unfold seek. cbn [aft]. apply mem_drop. apply b_no_x. reflexivity. }
    rewrite Hcs.
    set (st0 := mkScan [] [] false None false 0 []).
    replace (S (S (length s))) with (length pre + S (S (length post + 2)))%nat by (unfold s; rewrite !app_length; cbn [length]; lia).
    rewrite (scan_inert_any s fn pre _ [] ([92; c] ++ post) st0 eq_refl (plain_inert pre Hpre)) by (repeat split).
    change (slen [] + slen pre) with a.
    rewrite scan_backslash by (repeat split).
    replace (a + 1 + 1) with (slen (pre ++ [92; c])) by (unfold a; rewrite slen_app; unfold slen; cbn [length]; lia).
    rewrite (scan_inert_any s fn post _ (pre ++ [92; c]) [] st0); [|unfold s; rewrite app_nil_r, <- app_assoc; reflexivity|exact (plain_inert post Hpost)|repeat split].
    replace (slen (pre ++ [92; c]) + slen post) with (slen s) by (rewrite b_len; unfold a; rewrite slen_app; unfold slen; cbn [length]; lia).
    rewrite scan_end. cbn [st0 sc_run sc_ds sc_ms sc_code].
    unfold process_emphasis. change (next_closer 0 []) with (@None Z). destruct (3 * length s + 3)%nat; reflexivity.
  Qed.

  Lemma find_all_lit : forall ts, forallb kind_quiet_x ts = true -> find_all ts s fn [] = [].
  Proof.
    induction ts as [|kd ts IH]; intros Hq; [reflexivity|].
    cbn [forallb] in Hq. apply andb_true_iff in Hq as [Hkq Hts]. cbn [find_all].
    assert (F : match kd with SK_CoreTokens | SK_InlineCode | SK_RawText | SK_EscapeSequence => True | _ => finditer (snd (re_of kd)) (fst (re_of kd)) s = [] end).
    { destruct kd; try exact I; cbn [kind_quiet_x] in Hkq; apply existsb_exists in Hkq as (d & Hin & Hn);
        (apply (finditer_none _ _ d s Hn); apply b_no_x; unfold mem; apply existsb_exists; exists d; split; [exact Hin|apply Z.eqb_refl]). }
    destruct kd; cbn [find_kind];
      try (rewrite core_nothing_l; cbn [map app]; apply IH; exact Hts);
      try (cbn [map app]; apply IH; exact Hts);
      try (cbn [re_of fst snd]; rewrite esc_nothing; cbn [map app]; apply IH; exact Hts);
      (cbn [re_of fst snd] in F |- *; rewrite F; cbn [map app]; apply IH; exact Hts).
  Qed.

  Theorem tokenize_inner_lit types : forallb kind_quiet_x (removelast types) = true -> tokenize_inner types fn s = [RawText s].
  Proof.
    intros Hq. unfold tokenize_inner. rewrite (find_all_lit _ Hq).
    cbn [number_from map]. unfold tokenize, SpanTokenizer.make_tokens, make_tokens_with. cbn [sort_cands fold_right buffer_rev last_end mk_rev app].
    destruct (0 =? slen s) eqn:E.
    - apply Z.eqb_eq in E. rewrite b_len in E. unfold a, slen in E. lia.
    - cbn [rev app map build_otok]. rewrite substr_all. unfold unescape, unescape_with.
      rewrite (b_no 38 eq_refl ltac:(discriminate)). reflexivity.
  Qed.
End LitS.

Definition lit_ok (pre : str) (c : Z) (post : str) : bool := plain_text pre && plain_text post && lit_char c.
Definition lit_spans (types : list span_kind) : bool := forallb kind_quiet_x (removelast types).

Theorem literal_backslash types fn pre c post :
  lit_spans types = true -> lit_ok pre c post = true ->
  tokenize_inner types fn (pre ++ [92; c] ++ post) = [RawText (pre ++ [92; c] ++ post)].
Proof.
  intros Hs Ho. unfold lit_ok in Ho. repeat rewrite andb_true_iff in Ho. destruct Ho as [[H1 H2] H3].
  apply tokenize_inner_lit; assumption.
Qed.

(* the characters: letters, digits, the space, everything beyond ASCII - and none of the 32 punctuation characters *)
Lemma lit_chars :
  forallb lit_char ($"azAZ09 ") = true /\ lit_char 233 = true /\ lit_char 20013 = true /\
  forallb (fun c => negb (lit_char c)) ($"!""#$%&'()*+,-./:;<=>?@[\]^_`{|}~") = true /\ lit_char 10 = false.
Proof. vm_compute. repeat split; reflexivity. Qed.

Lemma lit_configs :
  map (fun cf => lit_spans (cfg_span cf)) [cfg_html; cfg_html_nohtml; cfg_markdown; cfg_latex; cfg_mathjax; cfg_default] = [true; true; true; true; true; true].
Proof. vm_compute. reflexivity. Qed.
