(* C06, unbounded: NESTED emphasis.  An emphasised phrase whose content is itself a sentence with any number of emphasised
   phrases:   pre  R  h  phrases  z  R  post   - R a run of one or two * or _, h the text before the first inner phrase
   (beginning with a letter-like character, ending in white space or punctuation), the inner phrases as in
   Proofs/EmphPhrases.v, z the text after the last one (ending in a letter-like character).  The scanner leaves the
   delimiter stack  O, o1, c1, ..., on, cn, C;  process_emphasis matches every inner closer with the opener next to it
   and then the outer pair (the inner matches come FIRST in its list); the span tokenizer sorts the outer candidate in front
   and nests the inner ones inside its parse group: one Emphasis / Strong holding the text and the inner phrases. *)
From Coq Require Import ZArith List Bool Lia Permutation.
From Mistletoe Require Import Base.Sx Base.PyStr Base.PyText Gen.GenTables Gen.GenRegex Gen.GenConfig Re.ReMatch
     Model.SpanTokenizer Model.Tree Model.Unescape Model.CoreTokens Model.Inline Model.Block Model.Build Model.Parser Model.HtmlRenderer
     Proofs.ReFirst Proofs.ReNeeds Proofs.Prose Proofs.PlainProse Proofs.ListLaw Proofs.ProseLines Proofs.EmphSimple Proofs.EmphSentence
     Proofs.EmphPairs Proofs.ChainTokens Proofs.EmphPhrases Proofs.MixPhrases.
Import ListNotations.
Local Open Scope Z_scope.

(* ---- process_emphasis on  O :: inner pairs ++ [C] ---- *)
Lemma next_closer_skip O rest : d_close O = false -> next_closer 0 (O :: rest) = next_closer 1 (O :: rest).
Proof. intros H. unfold next_closer. change (Z.to_nat 1) with 1%nat. cbn [Z.to_nat skipn next_closer_from]. rewrite H, andb_false_r. reflexivity. Qed.

Lemma emph_loop_nested s O C : pair_ok (O, C) -> forall pairs fuel ms, Forall pair_ok pairs -> (S (length pairs) <= fuel)%nat ->
  emph_loop fuel s (-1) [] (next_closer 1 (O :: flat pairs ++ [C])) (O :: flat pairs ++ [C]) ms =
  ([], ms ++ map (match_of s) pairs ++ [match_of s (O, C)]).
Proof.
  intros HOC. pose proof HOC as (EO & OO & CO & EC & OC & CC & TyO & NmO & HnO & HsO).
  induction pairs as [|[o c] r IH]; intros fuel ms Hok Hf.
  - cbn [flat flat_map app map]. rewrite <- (next_closer_skip O [C] CO).
    change [O; C] with (flat [(O, C)]). rewrite (emph_loop_pairs s [(O, C)] fuel ms) by (try (constructor; [exact HOC|constructor]); cbn [length] in *; lia).
    reflexivity.
  - inversion Hok as [|? ? Hp Hr]; subst. destruct Hp as (Eo & Oo & Co & Ec & Oc & Cc & Ty & Nm & Hn & Hs).
    destruct fuel as [|fuel']; [cbn [length] in Hf; lia|].
    change (O :: flat ((o, c) :: r) ++ [C]) with (O :: o :: c :: flat r ++ [C]).
    assert (NC : next_closer 1 (O :: o :: c :: flat r ++ [C]) = Some 2).
    { unfold next_closer. change (Z.to_nat 1) with 1%nat. cbn [skipn next_closer_from]. rewrite Eo, Co, Ec, Cc. reflexivity. }
    rewrite NC. cbn [emph_loop]. change (nthd (O :: o :: c :: flat r ++ [C]) 2 dummy) with c.
    assert (MO : matching_opener 2 (O :: o :: c :: flat r ++ [C]) (-1) (ob_get (type0 c, d_open c, d_orig c mod 3) []) = Some 1).
    { unfold matching_opener. change (nthd (O :: o :: c :: flat r ++ [C]) 2 dummy) with c. cbn [ob_get].
      change (Z.to_nat (2 - 1 - -1)) with 2%nat. change (2 - 1) with 1. cbn [matching_opener_down]. change (nthd (O :: o :: c :: flat r ++ [C]) 1 dummy) with o.
      assert (d_start o <? -1 = false) as -> by (apply Z.ltb_ge; lia).
      assert (CB : closed_by o c = true).
      { unfold closed_by. rewrite Ty, Z.eqb_refl. cbn [negb]. rewrite Oo, Co, Oc, Cc. reflexivity. }
      rewrite Eo, Oo, CB. reflexivity. }
    rewrite MO. change (nthd (O :: o :: c :: flat r ++ [C]) 1 dummy) with o.
    assert (EN : (if (2 <=? d_number c) && (2 <=? d_number o) then 2 else 1) = d_number o).
    { rewrite <- Nm. destruct Hn as [-> | ->]; reflexivity. }
    rewrite EN.
    assert (R1 : d_remove o (d_number o) false = None) by (unfold d_remove; rewrite Z.sub_diag; reflexivity).
    assert (R2 : d_remove c (d_number o) true = None) by (unfold d_remove; rewrite Nm, Z.sub_diag; reflexivity).
    rewrite R1, R2.
    change (firstn (Z.to_nat (1 + 1)) (O :: o :: c :: flat r ++ [C]) ++ skipn (Z.to_nat 2) (O :: o :: c :: flat r ++ [C])) with (O :: o :: c :: flat r ++ [C]).
    change (remove_at (O :: o :: c :: flat r ++ [C]) 1) with (O :: c :: flat r ++ [C]). change (1 + 1 - 1) with 1.
    change (remove_at (O :: c :: flat r ++ [C]) 1) with (O :: flat r ++ [C]).
    rewrite (IH fuel' _ Hr ltac:(cbn [length] in Hf; lia)).
    cbn [map match_of]. rewrite <- !app_assoc. reflexivity.
Qed.

Theorem nested_pairs s O C pairs ms : pair_ok (O, C) -> Forall pair_ok pairs -> (S (length pairs) <= 3 * length s + 3)%nat ->
  process_emphasis s None (O :: flat pairs ++ [C]) ms = ([], ms ++ map (match_of s) pairs ++ [match_of s (O, C)]).
Proof.
  intros HOC Hok Hl. unfold process_emphasis. destruct HOC as (EO & OO & CO & Rest).
  rewrite (next_closer_skip O (flat pairs ++ [C]) CO).
  rewrite (emph_loop_nested s O C (conj EO (conj OO (conj CO Rest))) pairs _ ms Hok Hl). reflexivity.
Qed.

(* ---- a run of * or _ between an edge character and a letter-like one ---- *)
Lemma run_opener s a ch k : ch = 42 \/ ch = 95 -> substr s a (a + Z.of_nat (S k)) = repeat ch (S k) -> char_at s a = ch ->
  a + Z.of_nat (S k) < slen s -> alnum_like (char_at s (a + Z.of_nat (S k))) = true ->
  edge_ok (if 0 <? a then char_at s (a - 1) else 32) = true ->
  new_delim a (a + Z.of_nat (S k)) s = mkDelim (ch :: repeat ch k) (Z.of_nat (S k)) (Z.of_nat (S k)) true a (a + Z.of_nat (S k)) true true false.
Proof.
  intros Hch Hty Hat Hlt HF PE. set (K := Z.of_nat (S k)) in *.
  unfold new_delim. rewrite Hty. change (repeat ch (S k)) with (ch :: repeat ch k). cbv iota.
  assert (Ef : (ch =? 42) || (ch =? 95) = true) by (destruct Hch as [->| ->]; reflexivity). rewrite Ef. cbn [andb].
  unfold alnum_like in HF. apply andb_true_iff in HF as [F1 F2]. apply negb_true_iff in F1, F2. unfold edge_ok in PE.
  assert (L : is_left_delimiter a (a + K) s = true).
  { unfold is_left_delimiter, succeeded_by. assert (a + K <? slen s = true) as -> by (apply Z.ltb_lt; exact Hlt). rewrite F1, F2. reflexivity. }
  assert (Rt : is_right_delimiter a (a + K) s = false).
  { unfold is_right_delimiter, preceded_by, succeeded_by. assert (a + K <? slen s = true) as -> by (apply Z.ltb_lt; exact Hlt). rewrite F1, F2.
    destruct (is_uws (if 0 <? a then char_at s (a - 1) else 32)) eqn:U; [reflexivity|]. cbn [orb] in PE. rewrite PE. reflexivity. }
  assert (Op : is_opener a (a + K) s = true) by (unfold is_opener; rewrite Hat, L, Rt; destruct (ch =? 42); reflexivity).
  assert (Cl : is_closer a (a + K) s = false) by (unfold is_closer; rewrite Hat, L, Rt; destruct (ch =? 42); reflexivity).
  rewrite Op, Cl. f_equal; lia.
Qed.

Lemma run_closer s b ch k : ch = 42 \/ ch = 95 -> substr s b (b + Z.of_nat (S k)) = repeat ch (S k) -> char_at s b = ch ->
  0 < b -> alnum_like (char_at s (b - 1)) = true ->
  edge_ok (if b + Z.of_nat (S k) <? slen s then char_at s (b + Z.of_nat (S k)) else 32) = true ->
  new_delim b (b + Z.of_nat (S k)) s = mkDelim (ch :: repeat ch k) (Z.of_nat (S k)) (Z.of_nat (S k)) true b (b + Z.of_nat (S k)) true false true.
Proof.
  intros Hch Hty Hat Hb HF NE. set (K := Z.of_nat (S k)) in *.
  unfold new_delim. rewrite Hty. change (repeat ch (S k)) with (ch :: repeat ch k). cbv iota.
  assert (Ef : (ch =? 42) || (ch =? 95) = true) by (destruct Hch as [->| ->]; reflexivity). rewrite Ef. cbn [andb].
  unfold alnum_like in HF. apply andb_true_iff in HF as [F1 F2]. apply negb_true_iff in F1, F2. unfold edge_ok in NE.
  assert (Rt : is_right_delimiter b (b + K) s = true).
  { unfold is_right_delimiter, preceded_by. assert (0 <? b = true) as -> by (apply Z.ltb_lt; exact Hb). rewrite F1, F2. reflexivity. }
  assert (L : is_left_delimiter b (b + K) s = false).
  { unfold is_left_delimiter, succeeded_by, preceded_by. assert (0 <? b = true) as -> by (apply Z.ltb_lt; exact Hb). rewrite F1, F2.
    destruct (is_uws (if b + K <? slen s then char_at s (b + K) else 32)) eqn:U; [reflexivity|]. cbn [orb] in NE. rewrite NE. reflexivity. }
  assert (Op : is_opener b (b + K) s = false) by (unfold is_opener; rewrite Hat, L, Rt; destruct (ch =? 42); reflexivity).
  assert (Cl : is_closer b (b + K) s = true) by (unfold is_closer; rewrite Hat, L, Rt; destruct (ch =? 42); reflexivity).
  rewrite Op, Cl. f_equal; lia.
Qed.

(* ---- the scanner over the inner phrases, with more text after them ---- *)
Lemma scan_phrases_rest s fn rest : forall ps pre st fuel, s = pre ++ body ps ++ rest -> (pre = [] \/ edge_ok (last pre 0) = true) -> clean st -> Forall phrase_ok ps ->
  exists st', scan_loop (length (body ps) + fuel) s fn (slen pre) None st = scan_loop fuel s fn (slen (pre ++ body ps)) None st' /\ clean st' /\
              sc_ds st' = sc_ds st ++ flat (pairs_at (slen pre) ps) /\ sc_ms st' = sc_ms st /\ sc_code st' = sc_code st.
Proof.
  induction ps as [|[[[ch k] w] t] r IH]; intros pre st fuel Es Hpe Hc Hok.
  - cbn [body length Nat.add]. rewrite app_nil_r. exists st. cbn [pairs_at flat flat_map]. rewrite !app_nil_r. split; [reflexivity|]. split; [exact Hc|]. split; [reflexivity|split; reflexivity].
  - apply Forall_cons_iff in Hok as [Hp Hr]. destruct Hp as (Hch & Hk & Hw & Hne & Hf & Hl & Ht & Htne & Hth & Htl).
    cbn [body] in *. set (R := repeat ch (S k)) in *. set (K := Z.of_nat (S k)).
    assert (HR : slen R = K) by (unfold R, K; apply slen_repeat).
    assert (Es2 : s = pre ++ R ++ w ++ R ++ t ++ body r ++ rest) by (rewrite Es, <- !app_assoc; reflexivity).
    destruct Hc as (Hrun & Hesc & Him).
    replace (length (R ++ w ++ R ++ t ++ body r) + fuel)%nat with (S k + (length w + (S k + (length t + (length (body r) + fuel)))))%nat
      by (unfold R; rewrite !app_length, !repeat_length; lia).
    (* the opening run *)
    rewrite (scan_run_seg s fn ch Hch k _ pre (w ++ R ++ t ++ body r ++ rest) st Es2 Hesc Hrun). fold K.
    replace (slen pre + K) with (slen (pre ++ R)) by (rewrite slen_app, HR; reflexivity).
    (* the word group *)
    rewrite (scan_inert_seg s fn w _ (pre ++ R) (R ++ t ++ body r ++ rest) (in_run st ch (slen pre))); [|rewrite Es2, <- !app_assoc; reflexivity|exact (plain_inert w Hw)|exact Hne|reflexivity|cbn; exact Hch].
    unfold after_inert, in_run. cbn [sc_run sc_ds sc_ms sc_start sc_code].
    set (st1 := mkScan (sc_ds st ++ [new_delim (slen pre) (slen (pre ++ R)) s]) (sc_ms st) false None false (slen pre) (sc_code st)).
    replace (slen (pre ++ R) + slen w) with (slen (pre ++ R ++ w)) by (rewrite !slen_app; lia).
    (* the closing run *)
    rewrite (scan_run_seg s fn ch Hch k _ (pre ++ R ++ w) (t ++ body r ++ rest) st1); [|rewrite Es2, <- !app_assoc; reflexivity|reflexivity|reflexivity].
    fold K. replace (slen (pre ++ R ++ w) + K) with (slen (pre ++ R ++ w ++ R)) by (rewrite !slen_app, HR; lia).
    (* the text after it *)
    rewrite (scan_inert_seg s fn t _ (pre ++ R ++ w ++ R) (body r ++ rest) (in_run st1 ch (slen (pre ++ R ++ w)))); [|rewrite Es2, <- !app_assoc; reflexivity|exact (plain_inert t Ht)|exact Htne|reflexivity|cbn; exact Hch].
    unfold after_inert, in_run, st1. cbn [sc_run sc_ds sc_ms sc_start sc_code].
    replace (slen (pre ++ R ++ w ++ R) + slen t) with (slen (pre ++ R ++ w ++ R ++ t)) by (rewrite !slen_app; lia).
    (* the two delimiters *)
    assert (D1 : new_delim (slen pre) (slen (pre ++ R)) s = mkDelim (ch :: repeat ch k) K K true (slen pre) (slen pre + K) true true false).
    { pose proof (g_E1_eq ch k pre w (t ++ body r ++ rest) Hch Hk Hw Hne Hf Hl Hpe) as E. unfold g_E1 in E. cbv zeta in E. fold R in E. rewrite <- Es2 in E.
      rewrite slen_app, HR. exact E. }
    assert (D2 : new_delim (slen (pre ++ R ++ w)) (slen (pre ++ R ++ w ++ R)) s =
                 mkDelim (ch :: repeat ch k) K K true (slen pre + K + slen w) (slen pre + K + slen w + K) true false true).
    { assert (Hpo : t ++ body r ++ rest = [] \/ edge_ok (hd 0 (t ++ body r ++ rest)) = true) by (right; rewrite hd_app_ne by exact Htne; exact Hth).
      pose proof (g_E2_eq ch k pre w (t ++ body r ++ rest) Hch Hk Hw Hne Hf Hl Hpo) as E. unfold g_E2 in E. cbv zeta in E. fold R in E. rewrite <- Es2 in E.
      replace (slen (pre ++ R ++ w)) with (slen pre + K + slen w) by (rewrite !slen_app, HR; lia).
      replace (slen (pre ++ R ++ w ++ R)) with (slen pre + K + slen w + K) by (rewrite !slen_app, HR; lia). exact E. }
    rewrite D1, D2.
    (* the rest *)
    set (st2 := mkScan ((sc_ds st ++ [mkDelim (ch :: repeat ch k) K K true (slen pre) (slen pre + K) true true false]) ++
                        [mkDelim (ch :: repeat ch k) K K true (slen pre + K + slen w) (slen pre + K + slen w + K) true false true])
                       (sc_ms st) false None false (slen (pre ++ R ++ w)) (sc_code st)).
    assert (Hpe' : pre ++ R ++ w ++ R ++ t = [] \/ edge_ok (last (pre ++ R ++ w ++ R ++ t) 0) = true).
    { right. rewrite !app_assoc. rewrite last_app_ne by exact Htne. exact Htl. }
    destruct (IH (pre ++ R ++ w ++ R ++ t) st2 fuel) as (st' & E' & Hc' & Hd' & Hm' & Hco'); [rewrite Es2, <- !app_assoc; reflexivity|exact Hpe'|repeat split|exact Hr|].
    exists st'. split; [|split; [exact Hc'|split; [|split; [exact Hm'|exact Hco']]]].
    + rewrite E'. f_equal. rewrite <- !app_assoc. reflexivity.
    + rewrite Hd'. unfold st2. cbn [sc_ds pairs_at flat flat_map fst snd app]. fold K.
      replace (slen (pre ++ R ++ w ++ R ++ t)) with (slen pre + K + slen w + K + slen t) by (rewrite !slen_app, HR; lia).
      rewrite <- !app_assoc. reflexivity.
Qed.

(* ---- the nested sentence ---- *)
Section Nest.
  Variables (CH : Z) (KK : nat) (pre h : str) (ps : list phrase) (z post : str) (fn : footnotes).
  Hypothesis HCH : CH = 42 \/ CH = 95.
  Hypothesis HKK : (KK <= 1)%nat.
  Hypothesis Hpre : plain_text pre = true.
  Hypothesis Hpe : pre = [] \/ edge_ok (last pre 0) = true.
  Hypothesis Hh : plain_text h = true.
  Hypothesis Hhne : h <> [].
  Hypothesis Hhf : alnum_like (hd 0 h) = true.
  Hypothesis Hhl : edge_ok (last h 0) = true.
  Hypothesis Hps : Forall phrase_ok ps.
  Hypothesis Hz : plain_text z = true.
  Hypothesis Hzne : z <> [].
  Hypothesis Hzl : alnum_like (last z 0) = true.
  Hypothesis Hpost : plain_text post = true.
  Hypothesis Hpo : post = [] \/ edge_ok (hd 0 post) = true.

  Let R := repeat CH (S KK).
  Let K := Z.of_nat (S KK).
  Let inner := h ++ body ps ++ z.
  Let s := pre ++ R ++ inner ++ R ++ post.
  Let a := slen pre.
  Let b := a + K + slen inner.
  Let e := b + K.

  Definition nO : delim := mkDelim (CH :: repeat CH KK) K K true a (a + K) true true false.
  Definition nC : delim := mkDelim (CH :: repeat CH KK) K K true b (b + K) true false true.
  Definition n_pairs : list (delim * delim) := pairs_at (a + K + slen h) ps.

  Lemma n_R : slen R = K.  Proof. unfold R, K. apply slen_repeat. Qed.
  Lemma n_len : slen s = e + slen post.
  Proof. unfold s, e, b, a. rewrite !slen_app, n_R. lia. Qed.
  Lemma n_K0 : 0 < K.  Proof. unfold K. lia. Qed.
  Lemma n_in0 : 0 < slen inner.
  Proof. unfold inner. rewrite slen_app. unfold slen. destruct h; [contradiction|cbn [length]; lia]. Qed.

  Lemma n_no c : mem c triggers = true -> c <> 42 -> c <> 95 -> mem c s = false.
  Proof.
    intros Hc C1 C2.
    assert (Rn : mem c R = false) by (apply mem_repeat; destruct HCH as [->| ->]; assumption).
    unfold s, inner, mem. rewrite !existsb_app. fold (mem c pre). fold (mem c R). fold (mem c h). fold (mem c (body ps)). fold (mem c z). fold (mem c post).
    rewrite (plain_no c pre Hc Hpre), (plain_no c h Hc Hh), (plain_no c z Hc Hz), (plain_no c post Hc Hpost), (body_no c Hc C1 C2 ps Hps), Rn. reflexivity.
  Qed.

  Lemma n_no_code : code_search s 0 = None.
  Proof.
    unfold code_search. apply (search_state_none _ _ 96); [vm_compute; reflexivity|]. unfold seek. cbn [aft]. unfold drop. cbn [Z.to_nat skipn].
    apply n_no; [reflexivity|discriminate|discriminate].
  Qed.

  (* the two outer delimiters, as the scanner computes them *)
  Lemma n_O_eq : new_delim a (a + K) s = nO.
  Proof.
    unfold nO, K. apply run_opener; [exact HCH| | | | |].
    - fold K. pose proof (substr_mid pre R (inner ++ R ++ post)) as M. rewrite n_R in M. exact M.
    - unfold s, a, R. cbn [repeat app]. apply char_at_mid.
    - fold K. rewrite n_len. unfold e, b. pose proof n_in0. pose proof n_K0. unfold slen. lia.
    - fold K. assert (E : char_at s (a + K) = hd 0 h).
      { destruct h as [|c0 t0] eqn:Eh; [contradiction|]. cbn [hd]. unfold s, inner. rewrite app_assoc.
        replace (a + K) with (slen (pre ++ R)) by (unfold a; rewrite slen_app, n_R; reflexivity). cbn [app]. apply char_at_mid. }
      rewrite E. exact Hhf.
    - destruct Hpe as [Ep|Ep].
      + unfold a. rewrite Ep. reflexivity.
      + destruct (exists_last (l := pre)) as (t & c & Et); [intros N; rewrite N in Ep; vm_compute in Ep; discriminate|].
        assert (0 <? a = true) as -> by (apply Z.ltb_lt; unfold a; rewrite Et, slen_app; unfold slen; cbn [length]; lia).
        rewrite Et, last_last in Ep. unfold s. rewrite Et. replace (a - 1) with (slen t) by (unfold a; rewrite Et, slen_app; unfold slen; cbn [length]; lia).
        rewrite <- app_assoc. cbn [app]. rewrite char_at_mid. exact Ep.
  Qed.

  Lemma n_C_eq : new_delim b e s = nC.
  Proof.
    unfold nC, e, K. apply run_closer; [exact HCH| | | | |].
    - fold K. pose proof (substr_mid (pre ++ R ++ inner) R post) as M. rewrite n_R in M.
      replace (slen (pre ++ R ++ inner)) with b in M by (unfold b, a; rewrite !slen_app, n_R; lia).
      unfold s. replace (pre ++ R ++ inner ++ R ++ post) with ((pre ++ R ++ inner) ++ R ++ post) by (rewrite <- !app_assoc; reflexivity). exact M.
    - unfold s. replace b with (slen (pre ++ R ++ inner)) by (unfold b, a; rewrite !slen_app, n_R; lia).
      replace (pre ++ R ++ inner ++ R ++ post) with ((pre ++ R ++ inner) ++ CH :: repeat CH KK ++ post) by (unfold R; cbn [repeat]; rewrite <- !app_assoc; reflexivity).
      apply char_at_mid.
    - unfold b, a. pose proof n_in0. pose proof n_K0. unfold slen at 1. lia.
    - assert (E : char_at s (b - 1) = last z 0).
      { destruct (exists_last Hzne) as (t & c & Ez). rewrite Ez, last_last. unfold s, inner. rewrite Ez.
        replace (b - 1) with (slen (pre ++ R ++ h ++ body ps ++ t)) by (unfold b, a, inner; rewrite Ez, !slen_app, n_R; unfold slen; cbn [length]; lia).
        replace (pre ++ R ++ (h ++ body ps ++ t ++ [c]) ++ R ++ post) with ((pre ++ R ++ h ++ body ps ++ t) ++ c :: R ++ post) by (rewrite <- !app_assoc; reflexivity).
        apply char_at_mid. }
      rewrite E. exact Hzl.
    - fold K. fold e. destruct Hpo as [Ep|Ep].
      + rewrite n_len, Ep. unfold slen at 1. cbn [length Z.of_nat]. rewrite Z.add_0_r, Z.ltb_irrefl. reflexivity.
      + assert (Hx : exists c t, post = c :: t) by (destruct post as [|c t]; [vm_compute in Ep; discriminate|exists c, t; reflexivity]).
        destruct Hx as (c & t & Et). rewrite Et in Ep. cbn [hd] in Ep.
        assert (e <? slen s = true) as -> by (apply Z.ltb_lt; rewrite n_len, Et; unfold slen; cbn [length]; lia).
        unfold s. replace e with (slen (pre ++ R ++ inner ++ R)) by (unfold e, b, a; rewrite !slen_app, n_R; lia).
        rewrite Et. replace (pre ++ R ++ inner ++ R ++ c :: t) with ((pre ++ R ++ inner ++ R) ++ c :: t) by (rewrite <- !app_assoc; reflexivity).
        rewrite char_at_mid. exact Ep.
  Qed.

  (* ---- the scanner: O, the inner pairs, C ---- *)
  Lemma scan_nested : exists st, scan_loop (S (S (length s))) s fn 0 None (mkScan [] [] false None false 0 []) = st /\
                                 sc_ds st = nO :: flat n_pairs ++ [nC] /\ sc_ms st = [] /\ sc_code st = [].
  Proof.
    set (st0 := mkScan [] [] false None false 0 []).
    assert (El : (S (S (length s)) = length pre + (S KK + (length h + (length (body ps) + (length z + (S KK + (length post + 2)))))))%nat).
    { unfold s, inner, R. rewrite !app_length, !repeat_length. lia. }
    rewrite El.
    (* the text before *)
    rewrite (scan_inert_any s fn pre _ [] (R ++ inner ++ R ++ post) st0 eq_refl (plain_inert pre Hpre)) by (repeat split).
    change (slen [] + slen pre) with a.
    (* the opening run *)
    rewrite (scan_run_seg s fn CH HCH KK _ pre (inner ++ R ++ post) st0 eq_refl eq_refl eq_refl). fold K. fold a.
    replace (a + K) with (slen (pre ++ R)) by (unfold a; rewrite slen_app, n_R; reflexivity).
    (* the text after it *)
    rewrite (scan_inert_seg s fn h _ (pre ++ R) (body ps ++ z ++ R ++ post) (in_run st0 CH a)); [|unfold s, inner; rewrite <- !app_assoc; reflexivity|exact (plain_inert h Hh)|exact Hhne|reflexivity|cbn; exact HCH].
    unfold after_inert, in_run. cbn [st0 sc_run sc_ds sc_ms sc_start sc_code app].
    replace (slen (pre ++ R)) with (a + K) by (unfold a; rewrite slen_app, n_R; reflexivity).
    rewrite n_O_eq.
    set (st1 := mkScan [nO] [] false None false a []).
    replace (a + K + slen h) with (slen (pre ++ R ++ h)) by (unfold a; rewrite !slen_app, n_R; lia).
    (* the inner phrases *)
    assert (Hpe1 : pre ++ R ++ h = [] \/ edge_ok (last (pre ++ R ++ h) 0) = true).
    { right. rewrite !app_assoc. rewrite last_app_ne by exact Hhne. exact Hhl. }
    destruct (scan_phrases_rest s fn (z ++ R ++ post) ps (pre ++ R ++ h) st1 (length z + (S KK + (length post + 2)))) as (st2 & E2 & (Hr2 & He2 & Hi2) & Hd2 & Hm2 & Hc2);
      [unfold s, inner; rewrite <- !app_assoc; reflexivity|exact Hpe1|repeat split|exact Hps|].
    rewrite E2.
    (* the text after the last one *)
    rewrite (scan_inert_any s fn z _ ((pre ++ R ++ h) ++ body ps) (R ++ post) st2); [|unfold s, inner; rewrite <- !app_assoc; reflexivity|exact (plain_inert z Hz)|repeat split; assumption].
    replace (slen ((pre ++ R ++ h) ++ body ps) + slen z) with b by (unfold b, a, inner; rewrite !slen_app, n_R; lia).
    (* the closing run *)
    replace b with (slen (pre ++ R ++ inner)) by (unfold b, a; rewrite !slen_app, n_R; lia).
    rewrite (scan_run_seg s fn CH HCH KK _ (pre ++ R ++ inner) post st2); [|unfold s; rewrite <- !app_assoc; reflexivity|exact He2|exact Hr2].
    fold K. replace (slen (pre ++ R ++ inner)) with b by (unfold b, a; rewrite !slen_app, n_R; lia).
    fold e.
    assert (Hds : sc_ds st2 = nO :: flat n_pairs).
    { rewrite Hd2. unfold st1. cbn [sc_ds app]. unfold n_pairs. replace (slen (pre ++ R ++ h)) with (a + K + slen h) by (unfold a; rewrite !slen_app, n_R; lia). reflexivity. }
    assert (Hms : sc_ms st2 = []) by (rewrite Hm2; reflexivity).
    assert (Hcs : sc_code st2 = []) by (rewrite Hc2; reflexivity).
    (* the text after, or the end *)
    assert (Hcase : post = [] \/ post <> []) by (destruct post; [left; reflexivity|right; discriminate]).
    destruct Hcase as [Ep|Ep].
    - assert (Lp : length post = 0%nat) by (rewrite Ep; reflexivity). rewrite Lp. cbn [Nat.add].
      assert (Ee : e = slen s) by (rewrite n_len, Ep; unfold slen; cbn [length]; lia).
      rewrite Ee. rewrite scan_end. unfold in_run. cbn [sc_run sc_ds sc_ms sc_start sc_code sc_escaped sc_in_image].
      rewrite <- Ee. rewrite n_C_eq. eexists. split; [reflexivity|]. cbn [sc_ds sc_ms sc_code]. rewrite Hds, Hms, Hcs. repeat split.
    - replace e with (slen (pre ++ R ++ inner ++ R)) by (unfold e, b, a; rewrite !slen_app, n_R; lia).
      rewrite (scan_inert_seg s fn post _ (pre ++ R ++ inner ++ R) [] (in_run st2 CH b)); [|unfold s; rewrite app_nil_r, <- !app_assoc; reflexivity|exact (plain_inert post Hpost)|exact Ep|reflexivity|cbn; exact HCH].
      unfold after_inert, in_run. cbn [sc_run sc_ds sc_ms sc_start sc_code].
      replace (slen (pre ++ R ++ inner ++ R)) with e by (unfold e, b, a; rewrite !slen_app, n_R; lia).
      rewrite n_C_eq.
      replace (e + slen post) with (slen s) by (rewrite n_len; reflexivity).
      rewrite scan_end. cbn [sc_run]. eexists. split; [reflexivity|]. cbn [sc_ds sc_ms sc_code]. rewrite Hds, Hms, Hcs. repeat split.
  Qed.

  Lemma n_pair_ok : pair_ok (nO, nC).
  Proof.
    unfold pair_ok, nO, nC. cbn [d_emph d_open d_close d_number d_start type0 d_type].
    assert (HK : K = 1 \/ K = 2) by (unfold K; destruct KK as [|[|k']]; [left; reflexivity|right; reflexivity|lia]).
    repeat split; try reflexivity; try exact HK. unfold a, slen. lia.
  Qed.

  Theorem core_finds_nested : find_core_tokens s fn = (map (match_of s) n_pairs ++ [match_of s (nO, nC)], []).
  Proof.
    unfold find_core_tokens. rewrite n_no_code.
    destruct scan_nested as (st & -> & Hd & Hm & Hc). rewrite Hd, Hm, Hc.
    rewrite (nested_pairs s nO nC n_pairs [] n_pair_ok).
    - reflexivity.
    - apply pairs_ok; [unfold a, slen; pose proof n_K0; lia|exact Hps].
    - unfold n_pairs. rewrite pairs_length. pose proof (body_length ps). unfold s, inner. rewrite !app_length. lia.
  Qed.
End Nest.

(* ---- the span tokenizer on an outer candidate that holds a chain of inner ones in its parse group ---- *)
Lemma nest_loop outer : inner outer = true ->
  forall ys done lo, sincr lo ys -> (match rev done with [] => True | l :: _ => ce l <= lo end) ->
    ps outer <= lo -> Forall (fun y => ce y <= pe outer) ys -> pe outer <= ce outer ->
    eval_loop (PT outer (rev (map mkpt done))) [] ys = (PT outer (rev (map mkpt (done ++ ys))), []).
Proof.
  intros Hin. induction ys as [|y r IH]; intros done lo Hs Hd Hlo Hall Hpe; [rewrite app_nil_r; reflexivity|].
  destruct Hs as (H1 & H2 & H3). inversion Hall as [|? ? Hy Hr]; subst.
  cbn [eval_loop]. unfold eval_tokens. cbn [pc].
  assert (Rel : relation outer y = R2).
  { unfold relation. assert (ce outer <=? cs y = false) as -> by (apply Z.leb_gt; lia).
    assert (ce outer >=? ce y = true) as -> by (apply Z.geb_le; lia).
    assert (ps outer <=? cs y = true) as -> by (apply Z.leb_le; lia).
    assert (pe outer >=? ce y = true) as -> by (apply Z.geb_le; lia). reflexivity. }
  rewrite Rel.
  assert (AC : append_child (PT outer (rev (map mkpt done))) y = PT outer (rev (map mkpt (done ++ [y])))).
  { cbn [append_child]. rewrite Hin. rewrite map_app, rev_app_distr. cbn [map rev app mkpt].
    destruct (rev (map mkpt done)) as [|l rest] eqn:E; [reflexivity|].
    assert (El : exists l0, rev done = l0 :: match rev done with _ :: t => t | [] => [] end /\ l = mkpt l0).
    { rewrite <- map_rev in E. destruct (rev done) as [|l0 t0]; [discriminate|]. cbn [map] in E. injection E as E1 E2. exists l0. split; [reflexivity|symmetry; exact E1]. }
    destruct El as (l0 & Er & ->). rewrite Er in Hd. cbn [pc mkpt].
    assert (relation l0 y = R0) as -> by (unfold relation; assert (ce l0 <=? cs y = true) as -> by (apply Z.leb_le; lia); reflexivity).
    reflexivity. }
  rewrite AC. rewrite (IH (done ++ [y]) (ce y) H3); [rewrite <- app_assoc; reflexivity| |lia|exact Hr|exact Hpe].
  rewrite rev_app_distr. cbn [rev app]. lia.
Qed.

Lemma make_chain_children (l : list cand) p q : make_tokens_with make (rev (map mkpt l)) p q = out_g p l q.
Proof.
  unfold make_tokens_with, out_g. rewrite rev_app_distr, (mk_rev_chain_g l p). f_equal.
  assert (El : last_end (rev (map mkpt l)) p = end_of p l).
  { unfold last_end, end_of. rewrite <- map_rev. destruct (rev l); reflexivity. }
  rewrite El. destruct (end_of p l =? q); reflexivity.
Qed.

Theorem tokenize_nested cands outer inners len : sort_cands cands = outer :: inners -> inner outer = true ->
  sincr (ps outer) inners -> Forall (fun y => ce y <= pe outer) inners -> pe outer <= ce outer ->
  tokenize cands len = gap 0 (cs outer) ++ [OTok outer (Some (out_g (ps outer) inners (pe outer)))] ++ (if ce outer =? len then [] else [ORaw (ce outer) len]).
Proof.
  intros Es Hin Hs Hall Hpe. unfold tokenize, SpanTokenizer.make_tokens. rewrite Es. cbn [buffer_rev].
  pose proof (nest_loop outer Hin inners [] (ps outer) Hs I (Z.le_refl _) Hall Hpe) as L. cbn [map rev app] in L. rewrite L.
  unfold make_tokens_with. cbn [last_end pc mk_rev]. cbn [make]. rewrite Hin. rewrite make_chain_children.
  unfold gap. rewrite rev_app_distr. cbn [rev app]. rewrite app_nil_r.
  destruct (cs outer >? 0); destruct (ce outer =? len); cbn [rev app]; reflexivity.
Qed.

(* ---- the tokens inside the outer phrase ---- *)
Fixpoint nest_toks (g : str) (ps : list phrase) (zz : str) : list tok :=
  match ps with
  | [] => raw_if (g ++ zz)
  | (ch, k, w, t) :: r => raw_if g ++ (if Z.of_nat (S k) =? 2 then Strong [ch] [RawText w] else Emphasis [ch] [RawText w]) :: nest_toks t r zz
  end.

Lemma plain_app2 (x y : str) : plain_text x = true -> plain_text y = true -> plain_text (x ++ y) = true.
Proof. intros Hx Hy. unfold plain_text in *. rewrite forallb_app, Hx, Hy. reflexivity. Qed.

Lemma phrases_tokens_in s srcs zz tail more : forall ps p0 gtxt done,
  s = p0 ++ gtxt ++ body ps ++ zz ++ tail -> plain_text gtxt = true -> plain_text zz = true -> Forall phrase_ok ps ->
  srcs = done ++ map CCore (map (match_of s) (pairs_at (slen (p0 ++ gtxt)) ps)) ++ more ->
  map (build_otok s srcs) (out_g (slen p0) (cands_from (Z.of_nat (length done)) (map (match_of s) (pairs_at (slen (p0 ++ gtxt)) ps))) (slen (p0 ++ gtxt ++ body ps ++ zz))) =
  nest_toks gtxt ps zz.
Proof.
  induction ps as [|[[[ch k] w] t] r IH]; intros p0 gtxt done Es Hg Hzz Hok Hsrc.
  - cbn [pairs_at map cands_from number_from nest_toks]. unfold cands_from. cbn [map number_from]. unfold out_g. cbn [body_g app]. unfold end_of. cbn [rev].
    cbn [body app] in *.
    replace (slen (p0 ++ gtxt ++ zz)) with (slen p0 + slen (gtxt ++ zz)) by (rewrite !slen_app; lia).
    assert (Eg : (if slen p0 =? slen p0 + slen (gtxt ++ zz) then [] else [ORaw (slen p0) (slen p0 + slen (gtxt ++ zz))]) = match gtxt ++ zz with [] => [] | _ => [ORaw (slen p0) (slen p0 + slen (gtxt ++ zz))] end).
    { destruct (gtxt ++ zz) as [|c g']; [unfold slen at 2; cbn [length Z.of_nat]; rewrite Z.add_0_r, Z.eqb_refl; reflexivity|].
      assert (slen p0 =? slen p0 + slen (c :: g') = false) as -> by (apply Z.eqb_neq; unfold slen; cbn [length]; lia). reflexivity. }
    rewrite Eg. apply (raw_gap_tok s srcs p0 (gtxt ++ zz) tail); [rewrite Es, <- !app_assoc; reflexivity|apply plain_app2; assumption].
  - apply Forall_cons_iff in Hok as [Hp Hr]. destruct Hp as (Hch & Hk & Hw & Hne & Hf & Hl & Ht & Htne & Hth & Htl).
    set (K := Z.of_nat (S k)). set (R := repeat ch (S k)).
    assert (HR : slen R = K) by (unfold R, K; apply slen_repeat).
    assert (HK : 0 < K) by (unfold K; lia).
    assert (Hwp : 0 < slen w) by (unfold slen; destruct (length w) eqn:Elw; [apply length_zero_iff_nil in Elw; contradiction|lia]).
    set (a := slen (p0 ++ gtxt)) in *.
    set (b := a + K + slen w).
    cbn [pairs_at map] in *. fold K in Hsrc |- *. fold b in Hsrc |- *.
    set (o := mkDelim (ch :: repeat ch k) K K true a (a + K) true true false) in *.
    set (c := mkDelim (ch :: repeat ch k) K K true b (b + K) true false true) in *.
    set (m1 := match_of s (o, c)) in *.
    assert (Em1 : m1 = mkMobj a (b + K) [(a + K, b, substr s (a + K) b)] (if K =? 2 then $"Strong" else $"Emphasis") [char_at s a] [] None []).
    { unfold m1, match_of, o, c. cbn [d_number d_end d_start]. replace (a + K - K) with a by lia. replace (b + K - K) with b by lia. reflexivity. }
    unfold cands_from. cbn [map number_from fst snd]. fold (cands_from (Z.of_nat (length done) + 1) (map (match_of s) (pairs_at (b + K + slen t) r))).
    rewrite out_g_cons.
    assert (Ec : cand_of (Z.of_nat (length done)) (CCore m1) = mkCand a (b + K) (a + K) b 3 true (Z.of_nat (length done))).
    { rewrite Em1. reflexivity. }
    rewrite Ec. cbn [cs ce]. rewrite leaf_otok_inner by reflexivity. cbn [SpanTokenizer.ps pe].
    assert (a + K =? b = false) as -> by (apply Z.eqb_neq; unfold b; lia).
    assert (Esb : s = p0 ++ gtxt ++ R ++ w ++ R ++ t ++ body r ++ zz ++ tail) by (rewrite Es; cbn [body]; fold R; rewrite <- !app_assoc; reflexivity).
    assert (Es' : s = (p0 ++ gtxt ++ R ++ w ++ R) ++ t ++ body r ++ zz ++ tail) by (rewrite Esb, <- !app_assoc; reflexivity).
    assert (Ea : slen (p0 ++ gtxt ++ R ++ w ++ R) = b + K) by (unfold b, a; rewrite !slen_app, HR; lia).
    assert (Einner : substr s (a + K) b = w).
    { pose proof (substr_mid (p0 ++ gtxt ++ R) w (R ++ t ++ body r ++ zz ++ tail)) as M.
      replace (slen (p0 ++ gtxt ++ R)) with (a + K) in M by (unfold a; rewrite !slen_app, HR; lia).
      replace (a + K + slen w) with b in M by reflexivity.
      replace ((p0 ++ gtxt ++ R) ++ w ++ R ++ t ++ body r ++ zz ++ tail) with s in M by (rewrite Esb, <- !app_assoc; reflexivity). exact M. }
    assert (Echar : char_at s a = ch).
    { rewrite Esb. unfold R. cbn [repeat]. rewrite app_assoc. unfold a. cbn [app]. apply char_at_mid. }
    assert (Eat : slen ((p0 ++ gtxt ++ R ++ w ++ R) ++ t) = b + K + slen t) by (rewrite slen_app, Ea; reflexivity).
    assert (H4 : srcs = (done ++ [CCore m1]) ++ map CCore (map (match_of s) (pairs_at (slen ((p0 ++ gtxt ++ R ++ w ++ R) ++ t)) r)) ++ more)
      by (rewrite Eat, Hsrc, <- app_assoc; reflexivity).
    pose proof (IH (p0 ++ gtxt ++ R ++ w ++ R) t (done ++ [CCore m1]) Es' Ht Hzz Hr H4) as IH'.
    rewrite Eat, Ea in IH'. rewrite app_length in IH'. cbn [length] in IH'. replace (Z.of_nat (length done + 1)) with (Z.of_nat (length done) + 1) in IH' by lia.
    replace (slen ((p0 ++ gtxt ++ R ++ w ++ R) ++ t ++ body r ++ zz)) with (slen (p0 ++ gtxt ++ body ((ch, k, w, t) :: r) ++ zz)) in IH'
      by (cbn [body]; fold R; rewrite <- !app_assoc; reflexivity).
    assert (Eraw : map (build_otok s srcs) (gap (slen p0) a) = raw_if gtxt).
    { unfold gap, a. rewrite slen_app, gap_raw. apply (raw_gap_tok s srcs p0 gtxt (body ((ch, k, w, t) :: r) ++ zz ++ tail)); [exact Es|exact Hg]. }
    assert (Tk : build_inner (CCore m1) [RawText w] = (if K =? 2 then Strong [ch] [RawText w] else Emphasis [ch] [RawText w])).
    { rewrite Em1, Echar. cbn [build_inner m_type m_delimiter]. destruct (K =? 2); reflexivity. }
    rewrite map_app. cbn [map nest_toks]. fold K.
    f_equal; [exact Eraw|]. f_equal; [|exact IH'].
    cbn [build_otok cid]. rewrite Hsrc. cbn [map app]. rewrite src_at_app. cbn [map build_otok]. rewrite Einner, (unescape_plain w Hw). exact Tk.
Qed.

(* the inner candidates: strictly increasing from their first position, all inside the text they cover *)
Lemma inner_cands_sincr s : forall ps a0 i, Forall phrase_ok ps -> 0 <= a0 -> sincr a0 (cands_from i (map (match_of s) (pairs_at a0 ps))).
Proof.
  induction ps as [|[[[ch k] w] t] r IH]; intros a0 i Hok Ha; [exact I|].
  apply Forall_cons_iff in Hok as [Hp Hr]. cbn [pairs_at map]. unfold cands_from. cbn [map number_from fst snd].
  fold (cands_from (i + 1) (map (match_of s) (pairs_at (a0 + Z.of_nat (S k) + slen w + Z.of_nat (S k) + slen t) r))).
  specialize (IH (a0 + Z.of_nat (S k) + slen w + Z.of_nat (S k) + slen t) (i + 1) Hr ltac:(unfold slen; lia)).
  cbn [sincr cand_of match_of field_span sk_parse_group nth_error m_fields m_start m_end cs ce d_number d_end d_start].
  split; [lia|]. split; [unfold slen; lia|].
  destruct (cands_from (i + 1) (map (match_of s) (pairs_at (a0 + Z.of_nat (S k) + slen w + Z.of_nat (S k) + slen t) r))) as [|c0 l'] eqn:E; [exact I|].
  destruct IH as (H1 & H2 & H3). cbn [sincr]. split; [unfold slen in *; lia|]. split; assumption.
Qed.

Lemma inner_cands_end s : forall ps a0 i, Forall phrase_ok ps -> Forall (fun y => ce y <= a0 + slen (body ps)) (cands_from i (map (match_of s) (pairs_at a0 ps))).
Proof.
  induction ps as [|[[[ch k] w] t] r IH]; intros a0 i Hok; [constructor|].
  apply Forall_cons_iff in Hok as [Hp Hr]. cbn [pairs_at map body]. unfold cands_from. cbn [map number_from fst snd].
  fold (cands_from (i + 1) (map (match_of s) (pairs_at (a0 + Z.of_nat (S k) + slen w + Z.of_nat (S k) + slen t) r))).
  rewrite !slen_app, !slen_repeat. constructor.
  - cbn [cand_of match_of field_span sk_parse_group nth_error m_fields m_start m_end cs ce d_number d_end d_start]. unfold slen. lia.
  - specialize (IH (a0 + Z.of_nat (S k) + slen w + Z.of_nat (S k) + slen t) (i + 1) Hr).
    apply Forall_forall. intros y Hy. rewrite Forall_forall in IH. specialize (IH y Hy). lia.
Qed.

Lemma sincr_weaken lo lo' l : lo <= lo' -> sincr lo' l -> sincr lo l.
Proof. intros H. destruct l as [|c r]; [trivial|]. cbn [sincr]. intros (H1 & H2 & H3). repeat split; try assumption. lia. Qed.

Lemma incr_cons_sincr o lo l : cs o <= lo -> sincr lo l -> incr (o :: l).
Proof. intros H Hs. destruct l as [|c r]; [exact I|]. pose proof (sincr_incr lo _ Hs) as Hi. destruct Hs as (H1 & _). split; [lia|exact Hi]. Qed.

Section NestTok.
  Variables (CH : Z) (KK : nat) (pre h : str) (ps : list phrase) (z post : str) (fn : footnotes) (types : list span_kind).
  Hypothesis HCH : CH = 42 \/ CH = 95.
  Hypothesis HKK : (KK <= 1)%nat.
  Hypothesis Hpre : plain_text pre = true.
  Hypothesis Hpe : pre = [] \/ edge_ok (last pre 0) = true.
  Hypothesis Hh : plain_text h = true.
  Hypothesis Hhne : h <> [].
  Hypothesis Hhf : alnum_like (hd 0 h) = true.
  Hypothesis Hhl : edge_ok (last h 0) = true.
  Hypothesis Hps : Forall phrase_ok ps.
  Hypothesis Hz : plain_text z = true.
  Hypothesis Hzne : z <> [].
  Hypothesis Hzl : alnum_like (last z 0) = true.
  Hypothesis Hpost : plain_text post = true.
  Hypothesis Hpo : post = [] \/ edge_ok (hd 0 post) = true.
  Hypothesis Hq : forallb kind_quiet_e (removelast types) = true.
  Hypothesis Hc : filter (fun kd => match kd with SK_CoreTokens => true | _ => false end) (removelast types) = [SK_CoreTokens].

  Let R := repeat CH (S KK).
  Let K := Z.of_nat (S KK).
  Let inner := h ++ body ps ++ z.
  Let s := pre ++ R ++ inner ++ R ++ post.
  Let a := slen pre.
  Let b := a + K + slen inner.
  Let e := b + K.
  Let prs := n_pairs KK pre h ps.
  Let MO := match_of s (nO CH KK pre, nC CH KK pre h ps z).
  Let ms := map (match_of s) prs ++ [MO].

  Lemma nt_no_e c : mem c triggers_e = true -> mem c s = false.
  Proof.
    intros H. apply (n_no CH KK pre h ps z post HCH Hpre Hh Hps Hz Hpost).
    - unfold mem, triggers_e, triggers in *. cbn [existsb] in *.
      repeat (apply orb_true_iff in H; destruct H as [H|H]); try discriminate; rewrite H; cbn [orb]; rewrite ?orb_true_r; reflexivity.
    - intros ->. vm_compute in H. discriminate.
    - intros ->. vm_compute in H. discriminate.
  Qed.

  Lemma find_all_nested : forall ts, forallb kind_quiet_e ts = true ->
    find_all ts s fn [] = flat_map (fun kd => match kd with SK_CoreTokens => map CCore ms | _ => [] end) ts.
  Proof.
    induction ts as [|kd ts IH]; intros Hq'; [reflexivity|].
    cbn [forallb] in Hq'. apply andb_true_iff in Hq' as [Hkq Hts]. cbn [find_all flat_map].
    assert (F : match kd with SK_CoreTokens | SK_InlineCode | SK_RawText => True | _ => finditer (snd (re_of kd)) (fst (re_of kd)) s = [] end).
    { destruct kd; try exact I; cbn [kind_quiet_e] in Hkq; apply existsb_exists in Hkq as (c & Hin & Hn);
        (apply (finditer_none _ _ c s Hn); apply nt_no_e; unfold mem; apply existsb_exists; exists c; split; [exact Hin|apply Z.eqb_refl]). }
    destruct kd; cbn [find_kind];
      try (unfold s, inner, R; rewrite (core_finds_nested CH KK pre h ps z post fn HCH HKK Hpre Hpe Hh Hhne Hhf Hhl Hps Hz Hzne Hzl Hpost Hpo); cbn [map app fst snd]; f_equal; apply IH; exact Hts);
      try (cbn [map app]; apply IH; exact Hts);
      (cbn [re_of fst snd] in F |- *; rewrite F; cbn [map app]; apply IH; exact Hts).
  Qed.

  Definition nest_wrap (ch : list tok) : tok := if K =? 2 then Strong [CH] ch else Emphasis [CH] ch.

  Theorem tokenize_inner_nested : tokenize_inner types fn s = raw_if pre ++ [nest_wrap (nest_toks h ps z)] ++ raw_if post.
  Proof.
    unfold tokenize_inner. rewrite (find_all_nested _ Hq).
    assert (Es : flat_map (fun kd => match kd with SK_CoreTokens => map CCore ms | _ => [] end) (removelast types) = map CCore ms).
    { clear Hq. revert Hc. generalize (removelast types) as ts.
      assert (G : forall ts n, length (filter (fun kd => match kd with SK_CoreTokens => true | _ => false end) ts) = n ->
                flat_map (fun kd => match kd with SK_CoreTokens => map CCore ms | _ => [] end) ts = concat (repeat (map CCore ms) n)).
      { induction ts as [|kd ts IH]; intros n Hn; [cbn in Hn; subst n; reflexivity|]. cbn [flat_map filter] in *.
        destruct kd; try (cbn [app]; apply IH; exact Hn). destruct n as [|n]; [discriminate|]. cbn [length] in Hn. cbn [repeat concat]. f_equal. apply IH. lia. }
      intros ts H. rewrite (G ts 1%nat) by (rewrite H; reflexivity). cbn [repeat concat]. apply app_nil_r. }
    rewrite Es. fold (cands_from 0 ms).
    (* the candidates: the inner ones, then the outer one *)
    set (ims := map (match_of s) prs).
    set (inners := cands_from 0 ims).
    set (N := Z.of_nat (length ims)).
    assert (Ecands : cands_from 0 ms = inners ++ [mkCand a e (a + K) b 3 true N]).
    { unfold ms. rewrite cands_from_app. fold ims. fold inners. f_equal. unfold cands_from. cbn [map number_from fst snd]. fold N.
      unfold MO, match_of, nO, nC. cbn [cand_of field_span sk_parse_group nth_error m_fields m_start m_end d_number d_end d_start sk_precedence sk_parse_inner].
      fold K. fold a. fold inner. fold b. f_equal. f_equal; unfold e; lia. }
    set (outer := mkCand a e (a + K) b 3 true N) in *.
    assert (HK0 : 0 < K) by (unfold K; lia).
    assert (HR : slen R = K) by (unfold R, K; apply slen_repeat).
    assert (Ha0 : 0 <= a) by (unfold a, slen; lia).
    assert (Hs1 : sincr (a + K + slen h) inners).
    { unfold inners, ims, prs, n_pairs. fold a. fold K. apply inner_cands_sincr; [exact Hps|unfold slen; lia]. }
    assert (Hs0 : sincr (a + K) inners) by (apply (sincr_weaken _ (a + K + slen h)); [unfold slen; lia|exact Hs1]).
    assert (Hend : Forall (fun y => ce y <= b) inners).
    { unfold inners, ims, prs, n_pairs. fold a. fold K. pose proof (inner_cands_end s ps (a + K + slen h) 0 Hps) as F.
      apply Forall_forall. intros y Hy. rewrite Forall_forall in F. specialize (F y Hy). unfold b, inner. rewrite !slen_app. unfold slen in *. lia. }
    assert (Esort : sort_cands (cands_from 0 ms) = outer :: inners).
    { rewrite Ecands. apply sort_to.
      - apply Permutation_sym, Permutation_cons_append.
      - apply (incr_cons_sincr outer (a + K + slen h)); [cbn [cs outer]; unfold slen; lia|exact Hs1].
      - cbn [map]. constructor; [|apply (sincr_nodup (a + K + slen h)); exact Hs1].
        intros Hin. apply in_map_iff in Hin as (x & Ex & Hx). pose proof (sincr_lower _ _ Hs1) as F. rewrite Forall_forall in F. specialize (F x Hx).
        cbn [cs outer] in Ex. unfold slen in *. lia. }
    assert (Hin0 : 0 < slen inner).
    { unfold inner. rewrite slen_app. unfold slen. destruct (length h) eqn:El; [apply length_zero_iff_nil in El; contradiction|lia]. }
    rewrite (tokenize_nested (cands_from 0 ms) outer inners (slen s) Esort eq_refl); [|exact Hs0|exact Hend|cbn [pe ce outer]; unfold e; lia].
    cbn [cs ce SpanTokenizer.ps pe outer].
    assert (Hl : slen s = e + slen post) by (unfold s, e, b, a; rewrite !slen_app, HR; lia).
    (* the three parts *)
    rewrite !map_app. cbn [map build_otok cid outer].
    assert (E1 : map (build_otok s (map CCore ms)) (gap 0 a) = raw_if pre).
    { unfold gap. replace a with (0 + slen pre) by (unfold a; lia). rewrite gap_raw.
      pose proof (raw_gap_tok s (map CCore ms) [] pre (R ++ inner ++ R ++ post) eq_refl Hpre) as T. cbn [app] in T. unfold slen at 1 2 in T. cbn [length Z.of_nat] in T. exact T. }
    assert (E3 : map (build_otok s (map CCore ms)) (if e =? slen s then [] else [ORaw e (slen s)]) = raw_if post).
    { rewrite Hl. assert (Eg : (if e =? e + slen post then [] else [ORaw e (e + slen post)]) = match post with [] => [] | _ => [ORaw e (e + slen post)] end) by apply gap_after.
      rewrite Eg. pose proof (raw_gap_tok s (map CCore ms) (pre ++ R ++ inner ++ R) post [] ) as T.
      replace (slen (pre ++ R ++ inner ++ R)) with e in T by (unfold e, b, a; rewrite !slen_app, HR; lia).
      apply T; [unfold s; rewrite app_nil_r, <- !app_assoc; reflexivity|exact Hpost]. }
    rewrite E1, E3. f_equal. f_equal.
    (* the outer token and its children *)
    assert (Esrc : src_at (map CCore ms) N = CCore MO).
    { unfold ms. rewrite map_app. cbn [map]. unfold N. fold ims. rewrite <- (map_length CCore ims). apply src_at_app. }
    rewrite Esrc.
    assert (Ech : map (build_otok s (map CCore ms)) (out_g (a + K) inners b) = nest_toks h ps z).
    { pose proof (phrases_tokens_in s (map CCore ms) z (R ++ post) [CCore MO] ps (pre ++ R) h []) as T.
      replace (slen (pre ++ R)) with (a + K) in T by (unfold a; rewrite slen_app, HR; reflexivity).
      replace (slen ((pre ++ R) ++ h)) with (a + K + slen h) in T by (unfold a; rewrite !slen_app, HR; lia).
      replace (slen ((pre ++ R) ++ h ++ body ps ++ z)) with b in T by (unfold b, a, inner; rewrite !slen_app, HR; lia).
      cbn [length Z.of_nat app] in T. apply T; [unfold s, inner; rewrite <- !app_assoc; reflexivity|exact Hh|exact Hz|exact Hps|].
      unfold ms, ims, prs, n_pairs. fold a. fold K. rewrite map_app. reflexivity. }
    rewrite Ech.
    assert (Echar : char_at s a = CH) by (unfold s, a, R; cbn [repeat app]; apply char_at_mid).
    unfold MO, match_of, nO, nC. cbn [d_number d_end d_start]. fold K. fold a.
    replace (a + K - K) with a by lia. rewrite Echar. cbn [build_inner m_type m_delimiter]. unfold nest_wrap. destruct (K =? 2); reflexivity.
  Qed.
End NestTok.

(* ---- the statement with computable hypotheses ---- *)
Definition nest_text (CH : Z) (KK : nat) (pre h : str) (ps : list phrase) (z post : str) : str :=
  pre ++ repeat CH (S KK) ++ (h ++ body ps ++ z) ++ repeat CH (S KK) ++ post.

Definition nest_ok (CH : Z) (KK : nat) (pre h : str) (ps : list phrase) (z post : str) : bool :=
  ((CH =? 42) || (CH =? 95)) && Nat.leb KK 1 &&
  plain_text pre && edge_pre pre &&
  plain_text h && (match h with [] => false | _ => true end) && alnum_like (hd 0 h) && edge_ok (last h 0) &&
  forallb phrase_okb ps &&
  plain_text z && (match z with [] => false | _ => true end) && alnum_like (last z 0) &&
  plain_text post && edge_post post.

Definition nest_of (CH : Z) (KK : nat) (h : str) (ps : list phrase) (z : str) : tok :=
  if Z.of_nat (S KK) =? 2 then Strong [CH] (nest_toks h ps z) else Emphasis [CH] (nest_toks h ps z).

Theorem nested_emphasis types fn CH KK pre h ps z post :
  emph_spans types = true -> nest_ok CH KK pre h ps z post = true ->
  tokenize_inner types fn (nest_text CH KK pre h ps z post) = raw_if pre ++ [nest_of CH KK h ps z] ++ raw_if post.
Proof.
  intros Hs Ho. unfold emph_spans in Hs. apply andb_true_iff in Hs as [Hq Hc].
  unfold nest_ok in Ho. repeat rewrite andb_true_iff in Ho.
  destruct Ho as [[[[[[[[[[[[[H1 H2] H3] H4] H5] H6] H7] H8] H9] H10] H11] H12] H13] H14].
  apply (tokenize_inner_nested CH KK pre h ps z post fn types).
  - apply orb_true_iff in H1 as [E|E]; apply Z.eqb_eq in E; [left|right]; exact E.
  - apply Nat.leb_le. exact H2.
  - exact H3.
  - unfold edge_pre in H4. destruct pre; [left; reflexivity|right; exact H4].
  - exact H5.
  - destruct h; [discriminate|discriminate].
  - exact H7.
  - exact H8.
  - apply Forall_forall. intros p Hp. rewrite forallb_forall in H9. apply phrase_okb_spec. apply H9. exact Hp.
  - exact H10.
  - destruct z; [discriminate|discriminate].
  - exact H12.
  - exact H13.
  - unfold edge_post in H14. destruct post as [|c t]; [left; reflexivity|right; exact H14].
  - exact Hq.
  - destruct (filter _ _) as [|[] [|? ?]]; try discriminate. reflexivity.
Qed.

Example nested_instance :
  let ps := [(95, 0%nat, $"two", $" and "); (42, 1%nat, $"three words", $", ")] in
  nest_ok 42 0 ($"Say ") ($"one ") ps ($"four") ($".") = true /\
  nest_text 42 0 ($"Say ") ($"one ") ps ($"four") ($".") = $"Say *one _two_ and **three words**, four*." /\
  nest_of 42 0 ($"one ") ps ($"four") =
    Emphasis [42] [RawText ($"one "); Emphasis [95] [RawText ($"two")]; RawText ($" and "); Strong [42] [RawText ($"three words")]; RawText ($", four")] /\
  nest_ok 42 0 ($"Say ") ($"one") ps ($"four") ($".") = false.
Proof. vm_compute. repeat split; reflexivity. Qed.
