(* kernel evaluation of one shard of the finite domain of C06 (see Proofs/EmphBounded.v) *)
From Coq Require Import ZArith List Bool.
From Mistletoe Require Import Proofs.EmphBounded.
Import ListNotations.
Local Open Scope Z_scope.
Lemma shard : forallb agree (map (fun s => 42 :: 97 :: s) (strings_of_length alpha5 5)) = true.
Proof. vm_compute. reflexivity. Qed.
