(* C03 / C06 / C16, unbounded: sentences that MIX any number of emphasised phrases and inline links, in any order.
   The text is t0 followed by segments, each an emphasised phrase  R w R  or a link  [w](d)  and the text after it.
   The scanner leaves the delimiters of the phrases on the stack while the links are matched on the way (find_link_image
   works on the bracket on top of the stack and leaves the emphasis delimiters below it alone); process_emphasis then
   pairs the phrases; the candidates arrive as "all links, then all emphases" and Python's stable sort puts them into
   source order (Proofs/ChainTokens.v: sort_to); the candidate tokenizer turns them into the tokens in that order. *)
From Coq Require Import ZArith List Bool Lia Permutation.
From Mistletoe Require Import Base.Sx Base.PyStr Base.PyText Gen.GenTables Gen.GenRegex Gen.GenConfig Re.ReMatch
     Model.SpanTokenizer Model.Tree Model.Unescape Model.CoreTokens Model.Inline
     Proofs.ReFirst Proofs.ReNeeds Proofs.Prose Proofs.PlainProse Proofs.ListLaw Proofs.ProseLines Proofs.EmphSimple Proofs.EmphSentence
     Proofs.RefSentence Proofs.LinkSentence Proofs.ChainTokens Proofs.EmphPairs Proofs.EmphPhrases Proofs.LinkPhrases.
Import ListNotations.
Local Open Scope Z_scope.

Inductive mseg :=
| MEm (ch : Z) (k : nat) (w t : str)       (* a run of S k times ch, w, the run again, then the text t *)
| MLk (w d t : str).                       (* [w](d), then the text t *)

Definition mseg_ok (g : mseg) : Prop :=
  match g with
  | MEm ch k w t => phrase_ok (ch, k, w, t)
  | MLk w d t => lseg_ok (w, d, t) /\ (t = [] \/ edge_ok (last t 0) = true)
  end.

Definition mtext (g : mseg) : str :=
  match g with
  | MEm ch k w t => repeat ch (S k) ++ w ++ repeat ch (S k) ++ t
  | MLk w d t => [91] ++ w ++ [93; 40] ++ d ++ [41] ++ t
  end.
Fixpoint mbody (gs : list mseg) : str := match gs with [] => [] | g :: r => mtext g ++ mbody r end.

Definition mlen (g : mseg) : Z := slen (mtext g).

(* what the scanner leaves behind: the delimiter pairs of the phrases, the matches of the links *)
Fixpoint mpairs (a : Z) (gs : list mseg) : list (delim * delim) :=
  match gs with
  | [] => []
  | MEm ch k w t :: r =>
    let K := Z.of_nat (S k) in let b := a + K + slen w in
    (mkDelim (ch :: repeat ch k) K K true a (a + K) true true false, mkDelim (ch :: repeat ch k) K K true b (b + K) true false true)
      :: mpairs (a + mlen (MEm ch k w t)) r
  | MLk w d t :: r => mpairs (a + mlen (MLk w d t)) r
  end.
Fixpoint mlinks (a : Z) (gs : list mseg) : list mobj :=
  match gs with
  | [] => []
  | MEm ch k w t :: r => mlinks (a + mlen (MEm ch k w t)) r
  | MLk w d t :: r => mk_ilink a w d :: mlinks (a + mlen (MLk w d t)) r
  end.

Fixpoint msteps (gs : list mseg) : nat :=
  match gs with
  | [] => 0%nat
  | MEm ch k w t :: r => (S k + (length w + (S k + (length t + msteps r))))%nat
  | MLk w d t :: r => (S (length w + S (length t + msteps r)))%nat
  end.

(* the delimiters below a bracket are those of emphasised phrases *)
Definition no_bracket_types (ds : list delim) : Prop := Forall (fun d => str_eqb (d_type d) ($"[") = false) ds.

Lemma deactivate_none ds : no_bracket_types ds -> deactivate ds (Z.of_nat (length ds)) = ds.
Proof.
  intros H. unfold deactivate. rewrite Nat2Z.id, firstn_all, skipn_all, app_nil_r.
  induction ds as [|d r IH]; [reflexivity|]. inversion H as [|? ? Hd Hr]; subst. cbn [map]. rewrite Hd, (IH Hr). reflexivity.
Qed.

Lemma flat_pairs_types : forall gs a, Forall mseg_ok gs -> no_bracket_types (flat (mpairs a gs)).
Proof.
  induction gs as [|[ch k w t|w d t] r IH]; intros a Hok; [constructor| |].
  - apply Forall_cons_iff in Hok as [Hp Hr]. destruct Hp as (Hch & _). cbn [mpairs flat flat_map fst snd app]. fold (flat (mpairs (a + mlen (MEm ch k w t)) r)).
    constructor; [cbn [d_type]; destruct Hch as [->| ->]; reflexivity|]. constructor; [cbn [d_type]; destruct Hch as [->| ->]; reflexivity|]. apply IH. exact Hr.
  - apply Forall_cons_iff in Hok as [_ Hr]. cbn [mpairs]. apply IH. exact Hr.
Qed.

(* find_link_image on the bracket that lies on top of a stack of emphasis delimiters *)
Lemma find_ilink_stack pre w d post fn D ms : forallb dest_char d = true -> d <> [] -> no_bracket_types D ->
  let s := pre ++ [91] ++ w ++ [93; 40] ++ d ++ [41] ++ post in
  find_link_image s (slen pre + 1 + slen w) (D ++ [LD pre]) ms fn = (slen pre + 1 + slen w + 2 + slen d, D, ms ++ [mk_ilink (slen pre) w d]).
Proof.
  intros Hd Hdne HD s. unfold find_link_image.
  assert (El : length (D ++ [LD pre]) = S (length D)) by (rewrite app_length; cbn [length]; lia). rewrite El.
  replace (Z.of_nat (S (length D)) - 1) with (Z.of_nat (length D)) by lia.
  cbn [find_li_down].
  assert (En : nthd (D ++ [LD pre]) (Z.of_nat (length D)) dummy = LD pre).
  { unfold nthd. rewrite Nat2Z.id, app_nth2 by lia. rewrite Nat.sub_diag. reflexivity. }
  rewrite En. change (is_bracket (LD pre)) with true. cbn [d_active LD negb]. cbv iota.
  pose proof (ilink_found pre w d post fn Hd Hdne) as F. cbv zeta in F. fold s in F. rewrite F.
  assert (PE : process_emphasis s (Some (Z.of_nat (length D))) (D ++ [LD pre]) ms = (D, ms)).
  { unfold process_emphasis.
    assert (NC : next_closer (Z.of_nat (length D)) (D ++ [LD pre]) = None).
    { unfold next_closer. rewrite Nat2Z.id, skipn_app, skipn_all, Nat.sub_diag. reflexivity. }
    rewrite NC. destruct (3 * length s + 3)%nat; cbn [emph_loop]; rewrite Nat2Z.id, firstn_app, firstn_all, Nat.sub_diag; cbn [firstn]; rewrite app_nil_r; reflexivity. }
  rewrite PE. change (str_eqb (d_type (LD pre)) ($"[")) with true. cbv iota. rewrite (deactivate_none D HD).
  rewrite the_ilink_at. unfold mk_ilink, link_mobj. cbn [m_end]. f_equal. f_equal. lia.
Qed.

Lemma scan_link_step_stack s fn pre w d post st fuel :
  s = pre ++ [91] ++ w ++ [93; 40] ++ d ++ [41] ++ post -> plain_text w = true -> forallb dest_char d = true -> d <> [] ->
  clean st -> no_bracket_types (sc_ds st) -> (forall i, code_search s i = None) ->
  scan_loop (S (length w + S fuel)) s fn (slen pre) None st =
  scan_loop fuel s fn (slen pre + 1 + slen w + 2 + slen d + 1) None
            (mkScan (sc_ds st) (sc_ms st ++ [mk_ilink (slen pre) w d]) false None false (sc_start st) (sc_code st)).
Proof.
  intros Es Hw Hd Hdne Hc Hds Hcode.
  rewrite (scan_bracket_step _ s fn pre (w ++ [93; 40] ++ d ++ [41] ++ post) st Es Hc).
  pose proof (LD_eq pre w d post) as HD. cbv zeta in HD. rewrite <- Es in HD. rewrite HD. clear HD.
  set (st1 := mkScan (sc_ds st ++ [LD pre]) (sc_ms st) false None false (sc_start st) (sc_code st)).
  replace (slen pre + 1) with (slen (pre ++ [91])) by (rewrite slen_app; reflexivity).
  rewrite (scan_inert_any s fn w _ (pre ++ [91]) ([93; 40] ++ d ++ [41] ++ post) st1); [|rewrite Es, <- !app_assoc; reflexivity|exact (plain_inert w Hw)|repeat split].
  replace (slen (pre ++ [91]) + slen w) with (slen pre + 1 + slen w) by (rewrite slen_app; unfold slen; cbn [length]; lia).
  cbn [scan_loop].
  assert (Hlen : slen s = slen pre + 1 + slen w + 2 + slen d + 1 + slen post) by (rewrite Es, !slen_app; unfold slen; cbn [length]; lia).
  assert (Hlt : slen pre + 1 + slen w <? slen s = true) by (apply Z.ltb_lt; rewrite Hlen; unfold slen; lia).
  rewrite Hlt. cbn [negb].
  pose proof (l_at_b pre w d post) as HB. cbv zeta in HB. rewrite <- Es in HB. rewrite HB. clear HB.
  cbn [st1 sc_escaped sc_run sc_ds sc_ms sc_in_image sc_start sc_code andb negb orb Z.eqb Pos.eqb].
  pose proof (find_ilink_stack pre w d post fn (sc_ds st) (sc_ms st) Hd Hdne Hds) as F. cbv zeta in F. rewrite <- Es in F. rewrite F. clear F.
  rewrite Hcode. reflexivity.
Qed.

Lemma edge_paren : edge_ok 41 = true.
Proof. vm_compute. reflexivity. Qed.

Lemma scan_mixed s fn : (forall i, code_search s i = None) -> forall gs pre st fuel, s = pre ++ mbody gs -> (pre = [] \/ edge_ok (last pre 0) = true) ->
  clean st -> no_bracket_types (sc_ds st) -> Forall mseg_ok gs ->
  exists st', scan_loop (msteps gs + fuel) s fn (slen pre) None st = scan_loop fuel s fn (slen s) None st' /\ clean st' /\
              sc_ds st' = sc_ds st ++ flat (mpairs (slen pre) gs) /\ sc_ms st' = sc_ms st ++ mlinks (slen pre) gs /\ sc_code st' = sc_code st.
Proof.
  intros Hcode. induction gs as [|[ch k w t|w d t] r IH]; intros pre st fuel Es Hpe Hc Hnb Hok.
  - cbn [mbody msteps Nat.add mpairs mlinks flat flat_map]. cbn [mbody] in Es. rewrite app_nil_r in Es. rewrite Es. exists st. rewrite !app_nil_r.
    split; [reflexivity|]. split; [exact Hc|]. split; [reflexivity|split; reflexivity].
  - (* an emphasised phrase *)
    apply Forall_cons_iff in Hok as [Hp Hr]. destruct Hp as (Hch & Hk & Hw & Hne & Hf & Hl & Ht & Htne & Hth & Htl).
    cbn [mbody mtext msteps] in *. rewrite <- !app_assoc in Es.
    set (R := repeat ch (S k)) in *. set (K := Z.of_nat (S k)).
    assert (HR : slen R = K) by (unfold R, K; apply slen_repeat).
    destruct Hc as (Hrun & Hesc & Him).
    replace (S k + (length w + (S k + (length t + msteps r))) + fuel)%nat with (S k + (length w + (S k + (length t + (msteps r + fuel)))))%nat by lia.
    rewrite (scan_run_seg s fn ch Hch k _ pre (w ++ R ++ t ++ mbody r) st Es Hesc Hrun). fold K.
    replace (slen pre + K) with (slen (pre ++ R)) by (rewrite slen_app, HR; reflexivity).
    rewrite (scan_inert_seg s fn w _ (pre ++ R) (R ++ t ++ mbody r) (in_run st ch (slen pre))); [|rewrite Es, <- !app_assoc; reflexivity|exact (plain_inert w Hw)|exact Hne|reflexivity|cbn; exact Hch].
    unfold after_inert, in_run. cbn [sc_run sc_ds sc_ms sc_start sc_code].
    set (st1 := mkScan (sc_ds st ++ [new_delim (slen pre) (slen (pre ++ R)) s]) (sc_ms st) false None false (slen pre) (sc_code st)).
    replace (slen (pre ++ R) + slen w) with (slen (pre ++ R ++ w)) by (rewrite !slen_app; lia).
    rewrite (scan_run_seg s fn ch Hch k _ (pre ++ R ++ w) (t ++ mbody r) st1); [|rewrite Es, <- !app_assoc; reflexivity|reflexivity|reflexivity].
    fold K. replace (slen (pre ++ R ++ w) + K) with (slen (pre ++ R ++ w ++ R)) by (rewrite !slen_app, HR; lia).
    rewrite (scan_inert_seg s fn t _ (pre ++ R ++ w ++ R) (mbody r) (in_run st1 ch (slen (pre ++ R ++ w)))); [|rewrite Es, <- !app_assoc; reflexivity|exact (plain_inert t Ht)|exact Htne|reflexivity|cbn; exact Hch].
    unfold after_inert, in_run, st1. cbn [sc_run sc_ds sc_ms sc_start sc_code].
    replace (slen (pre ++ R ++ w ++ R) + slen t) with (slen (pre ++ R ++ w ++ R ++ t)) by (rewrite !slen_app; lia).
    assert (D1 : new_delim (slen pre) (slen (pre ++ R)) s = mkDelim (ch :: repeat ch k) K K true (slen pre) (slen pre + K) true true false).
    { pose proof (g_E1_eq ch k pre w (t ++ mbody r) Hch Hk Hw Hne Hf Hl Hpe) as E. unfold g_E1 in E. cbv zeta in E. fold R in E. rewrite <- Es in E.
      rewrite slen_app, HR. exact E. }
    assert (D2 : new_delim (slen (pre ++ R ++ w)) (slen (pre ++ R ++ w ++ R)) s =
                 mkDelim (ch :: repeat ch k) K K true (slen pre + K + slen w) (slen pre + K + slen w + K) true false true).
    { assert (Hpo : t ++ mbody r = [] \/ edge_ok (hd 0 (t ++ mbody r)) = true) by (right; rewrite hd_app_ne by exact Htne; exact Hth).
      pose proof (g_E2_eq ch k pre w (t ++ mbody r) Hch Hk Hw Hne Hf Hl Hpo) as E. unfold g_E2 in E. cbv zeta in E. fold R in E. rewrite <- Es in E.
      replace (slen (pre ++ R ++ w)) with (slen pre + K + slen w) by (rewrite !slen_app, HR; lia).
      replace (slen (pre ++ R ++ w ++ R)) with (slen pre + K + slen w + K) by (rewrite !slen_app, HR; lia). exact E. }
    rewrite D1, D2.
    set (o := mkDelim (ch :: repeat ch k) K K true (slen pre) (slen pre + K) true true false).
    set (c := mkDelim (ch :: repeat ch k) K K true (slen pre + K + slen w) (slen pre + K + slen w + K) true false true).
    set (st2 := mkScan ((sc_ds st ++ [o]) ++ [c]) (sc_ms st) false None false (slen (pre ++ R ++ w)) (sc_code st)).
    assert (Hpe' : pre ++ R ++ w ++ R ++ t = [] \/ edge_ok (last (pre ++ R ++ w ++ R ++ t) 0) = true).
    { right. rewrite !app_assoc. rewrite last_app_ne by exact Htne. exact Htl. }
    assert (Hnb2 : no_bracket_types ((sc_ds st ++ [o]) ++ [c])).
    { apply Forall_app. split; [apply Forall_app; split; [exact Hnb|]|]; (constructor; [cbn [d_type o c]; destruct Hch as [->| ->]; reflexivity|constructor]). }
    destruct (IH (pre ++ R ++ w ++ R ++ t) st2 fuel) as (st' & E' & Hc' & Hd' & Hm' & Hco'); [rewrite Es, <- !app_assoc; reflexivity|exact Hpe'|repeat split|exact Hnb2|exact Hr|].
    exists st'. split; [exact E'|]. split; [exact Hc'|]. split; [|split; [|exact Hco']].
    + rewrite Hd'. unfold st2. cbn [sc_ds mpairs flat flat_map fst snd app]. fold K.
      assert (Ea : slen (pre ++ R ++ w ++ R ++ t) = slen pre + mlen (MEm ch k w t)).
      { unfold mlen. cbn [mtext]. fold R. rewrite !slen_app. lia. }
      rewrite Ea. fold o. fold c. fold (flat (mpairs (slen pre + mlen (MEm ch k w t)) r)). rewrite <- !app_assoc. reflexivity.
    + rewrite Hm'. unfold st2. cbn [sc_ms mlinks].
      assert (Ea : slen (pre ++ R ++ w ++ R ++ t) = slen pre + mlen (MEm ch k w t)).
      { unfold mlen. cbn [mtext]. fold R. rewrite !slen_app. lia. }
      rewrite Ea. reflexivity.
  - (* a link *)
    apply Forall_cons_iff in Hok as [[(Hw & Hwne & Hd & Hdne & Ht) Hte] Hr].
    cbn [mbody mtext msteps] in *. rewrite <- !app_assoc in Es.
    replace (S (length w + S (length t + msteps r)) + fuel)%nat with (S (length w + S (length t + (msteps r + fuel))))%nat by lia.
    rewrite (scan_link_step_stack s fn pre w d (t ++ mbody r) st _ Es Hw Hd Hdne Hc Hnb Hcode).
    set (st1 := mkScan (sc_ds st) (sc_ms st ++ [mk_ilink (slen pre) w d]) false None false (sc_start st) (sc_code st)).
    set (pre1 := pre ++ [91] ++ w ++ [93; 40] ++ d ++ [41]).
    assert (E1 : slen pre + 1 + slen w + 2 + slen d + 1 = slen pre1) by (unfold pre1; rewrite !slen_app; unfold slen; cbn [length]; lia).
    rewrite E1.
    rewrite (scan_inert_any s fn t _ pre1 (mbody r) st1); [|rewrite Es; unfold pre1; rewrite <- !app_assoc; reflexivity|exact (plain_inert t Ht)|repeat split].
    replace (slen pre1 + slen t) with (slen (pre1 ++ t)) by (rewrite slen_app; reflexivity).
    assert (Hpe' : pre1 ++ t = [] \/ edge_ok (last (pre1 ++ t) 0) = true).
    { right. destruct Hte as [->|Hte].
      - rewrite app_nil_r. unfold pre1. rewrite !app_assoc. rewrite last_last. exact edge_paren.
      - assert (Htne : t <> []) by (intros E; rewrite E in Hte; vm_compute in Hte; discriminate).
        rewrite last_app_ne by exact Htne. exact Hte. }
    destruct (IH (pre1 ++ t) st1 fuel) as (st' & E' & Hc' & Hd' & Hm' & Hco'); [rewrite Es; unfold pre1; rewrite <- !app_assoc; reflexivity|exact Hpe'|repeat split|exact Hnb|exact Hr|].
    assert (Ea : slen (pre1 ++ t) = slen pre + mlen (MLk w d t)).
    { unfold mlen, pre1. cbn [mtext]. rewrite !slen_app. unfold slen. cbn [length]. lia. }
    exists st'. split; [exact E'|]. split; [exact Hc'|]. split; [|split; [|exact Hco']].
    + rewrite Hd'. unfold st1. cbn [sc_ds mpairs]. rewrite Ea. reflexivity.
    + rewrite Hm'. unfold st1. cbn [sc_ms mlinks]. rewrite Ea, <- app_assoc. reflexivity.
Qed.

Lemma mbody_no c : mem c triggers_r = true -> forall gs, Forall mseg_ok gs -> mem c (mbody gs) = false.
Proof.
  intros Hc. assert (C6 : c <> 91 /\ c <> 93 /\ c <> 40 /\ c <> 41 /\ c <> 42 /\ c <> 95) by (repeat split; intros ->; vm_compute in Hc; discriminate).
  assert (P : forall t, plain_text t = true -> mem c t = false).
  { intros t Ht. apply plain_no; [|exact Ht]. unfold mem, triggers_r, triggers in *. cbn [existsb] in *.
    repeat (apply orb_true_iff in Hc; destruct Hc as [Hc|Hc]); try discriminate; rewrite Hc; cbn [orb]; rewrite ?orb_true_r; reflexivity. }
  destruct C6 as (C1 & C2 & C3 & C4 & C5 & C7).
  induction gs as [|[ch k w t|w d t] r IH]; intros Hok; [reflexivity| |].
  - apply Forall_cons_iff in Hok as [Hp Hr]. destruct Hp as (Hch & _ & Hw & _ & _ & _ & Ht & _).
    cbn [mbody mtext]. unfold mem. rewrite !existsb_app. fold (mem c (repeat ch (S k))). fold (mem c w). fold (mem c t). fold (mem c (mbody r)).
    rewrite (P w Hw), (P t Ht), (IH Hr). rewrite (mem_repeat c ch) by (destruct Hch as [->| ->]; assumption). reflexivity.
  - apply Forall_cons_iff in Hok as [[(Hw & _ & Hd & _ & Ht) _] Hr].
    cbn [mbody mtext]. unfold mem. rewrite !existsb_app. fold (mem c w). fold (mem c d). fold (mem c t). fold (mem c (mbody r)).
    rewrite (P w Hw), (P t Ht), (dest_no c d Hc Hd), (IH Hr). cbn [existsb orb].
    apply Z.eqb_neq in C1, C2, C3, C4. rewrite C1, C2, C3, C4. reflexivity.
Qed.

Lemma msteps_bound gs : (msteps gs <= length (mbody gs))%nat.
Proof.
  induction gs as [|[ch k w t|w d t] r IH]; [cbn; lia| |]; cbn [msteps mbody mtext]; rewrite !app_length, ?repeat_length; cbn [length]; lia.
Qed.

Lemma mpairs_ok : forall gs a, 0 <= a -> Forall mseg_ok gs -> Forall pair_ok (mpairs a gs).
Proof.
  induction gs as [|[ch k w t|w d t] r IH]; intros a Ha Hok; [constructor| |].
  - apply Forall_cons_iff in Hok as [Hp Hr]. destruct Hp as (Hch & Hk & _). cbn [mpairs]. constructor.
    + cbn [pair_ok d_emph d_open d_close d_number d_start type0 d_type].
      assert (HK : Z.of_nat (S k) = 1 \/ Z.of_nat (S k) = 2) by (destruct k as [|[|k']]; [left; reflexivity|right; reflexivity|lia]).
      repeat split; try reflexivity; try lia; exact HK.
    + apply IH; [unfold mlen, slen; lia|exact Hr].
  - apply Forall_cons_iff in Hok as [_ Hr]. cbn [mpairs]. apply IH; [unfold mlen, slen; lia|exact Hr].
Qed.

Lemma mpairs_length : forall gs a, (length (mpairs a gs) <= length (mbody gs))%nat.
Proof.
  induction gs as [|[ch k w t|w d t] r IH]; intros a; [cbn; lia| |]; cbn [mpairs mbody mtext length]; rewrite !app_length, ?repeat_length; specialize (IH (a + mlen (MEm ch k w t))) || specialize (IH (a + mlen (MLk w d t))); cbn [length]; lia.
Qed.

Section Sentence.
  Variables (t0 : str) (gs : list mseg) (fn : footnotes).
  Hypothesis Ht0 : plain_text t0 = true.
  Hypothesis He0 : t0 = [] \/ edge_ok (last t0 0) = true.
  Hypothesis Hgs : Forall mseg_ok gs.
  Let s := t0 ++ mbody gs.

  Lemma mx_no c : mem c triggers_r = true -> mem c s = false.
  Proof.
    intros H. unfold s, mem. rewrite existsb_app. fold (mem c t0). fold (mem c (mbody gs)). rewrite (mbody_no c H gs Hgs).
    assert (P : mem c t0 = false).
    { apply plain_no; [|exact Ht0]. unfold mem, triggers_r, triggers in *. cbn [existsb] in *.
      repeat (apply orb_true_iff in H; destruct H as [H|H]); try discriminate; rewrite H; cbn [orb]; rewrite ?orb_true_r; reflexivity. }
    rewrite P. reflexivity.
  Qed.

  Lemma mx_no_code i : code_search s i = None.
  Proof.
    unfold code_search. apply (search_state_none _ _ 96); [vm_compute; reflexivity|]. unfold seek. cbn [aft]. apply mem_drop. apply mx_no. reflexivity.
  Qed.

  Definition mx_links : list mobj := mlinks (slen t0) gs.
  Definition mx_emphs : list mobj := map (match_of s) (mpairs (slen t0) gs).

  Theorem core_finds_mixed : find_core_tokens s fn = (mx_links ++ mx_emphs, []).
  Proof.
    unfold find_core_tokens. rewrite mx_no_code.
    set (st0 := mkScan [] [] false None false 0 []).
    pose proof (msteps_bound gs) as Hb.
    assert (El : exists extra, (S (S (length s)) = length t0 + (msteps gs + S extra))%nat).
    { exists (S (length (mbody gs) - msteps gs))%nat. unfold s. rewrite app_length. lia. }
    destruct El as (extra & El). rewrite El.
    rewrite (scan_inert_any s fn t0 _ [] (mbody gs) st0 eq_refl (plain_inert t0 Ht0)) by (repeat split).
    change (slen [] + slen t0) with (slen t0).
    destruct (scan_mixed s fn mx_no_code gs t0 st0 (S extra) eq_refl He0 ltac:(repeat split) ltac:(constructor) Hgs) as (st' & E & (Hr & He & Hi) & Hd & Hm & Hco).
    rewrite E, scan_end, Hr, Hd, Hm, Hco. cbn [st0 sc_ds sc_ms sc_code app]. fold mx_links.
    rewrite (sequential_pairs s (mpairs (slen t0) gs) mx_links).
    - reflexivity.
    - apply mpairs_ok; [unfold slen; lia|exact Hgs].
    - pose proof (mpairs_length gs (slen t0)). unfold s. rewrite app_length. lia.
  Qed.
End Sentence.

(* ---- the candidates: as the finders deliver them (all links, then all emphases), and in source order ---- *)
Definition lcand (a : Z) (w d : str) (id : Z) : cand :=
  let b := a + 1 + slen w in mkCand a (b + 2 + slen d + 1) (a + 1) b 3 true id.
Definition ecand (a : Z) (k : nat) (w : str) (id : Z) : cand :=
  let K := Z.of_nat (S k) in let b := a + K + slen w in mkCand a (b + K) (a + K) b 3 true id.

Fixpoint lcands (li a : Z) (gs : list mseg) : list cand :=
  match gs with
  | [] => []
  | MEm ch k w t :: r => lcands li (a + mlen (MEm ch k w t)) r
  | MLk w d t :: r => lcand a w d li :: lcands (li + 1) (a + mlen (MLk w d t)) r
  end.
Fixpoint ecands (ei a : Z) (gs : list mseg) : list cand :=
  match gs with
  | [] => []
  | MEm ch k w t :: r => ecand a k w ei :: ecands (ei + 1) (a + mlen (MEm ch k w t)) r
  | MLk w d t :: r => ecands ei (a + mlen (MLk w d t)) r
  end.
Fixpoint mcands (li ei a : Z) (gs : list mseg) : list cand :=
  match gs with
  | [] => []
  | MEm ch k w t :: r => ecand a k w ei :: mcands li (ei + 1) (a + mlen (MEm ch k w t)) r
  | MLk w d t :: r => lcand a w d li :: mcands (li + 1) ei (a + mlen (MLk w d t)) r
  end.

Lemma cands_from_app i l1 l2 : cands_from i (l1 ++ l2) = cands_from i l1 ++ cands_from (i + Z.of_nat (length l1)) l2.
Proof.
  revert i. induction l1 as [|x r IH]; intros i; [cbn [app length Z.of_nat]; rewrite Z.add_0_r; reflexivity|].
  specialize (IH (i + 1)). unfold cands_from in *. cbn [app map number_from fst snd]. f_equal. rewrite IH. f_equal.
  replace (i + Z.of_nat (length (x :: r))) with (i + 1 + Z.of_nat (length r)) by (cbn [length]; lia). reflexivity.
Qed.

Lemma lcands_eq : forall gs li a, cands_from li (mlinks a gs) = lcands li a gs.
Proof.
  induction gs as [|[ch k w t|w d t] r IH]; intros li a; [reflexivity| |]; cbn [mlinks lcands].
  - apply IH.
  - unfold cands_from. cbn [map number_from fst snd]. fold (cands_from (li + 1) (mlinks (a + mlen (MLk w d t)) r)). rewrite IH. f_equal.
    all: try (unfold lcand, mk_ilink, link_mobj; cbn [cand_of field_span sk_parse_group nth_error m_fields m_start m_end sk_precedence sk_parse_inner]; f_equal; lia).
Qed.

Lemma ecands_eq s : forall gs ei a, cands_from ei (map (match_of s) (mpairs a gs)) = ecands ei a gs.
Proof.
  induction gs as [|[ch k w t|w d t] r IH]; intros ei a; [reflexivity| |]; cbn [mpairs map ecands].
  - unfold cands_from. cbn [map number_from fst snd]. fold (cands_from (ei + 1) (map (match_of s) (mpairs (a + mlen (MEm ch k w t)) r))). rewrite IH. f_equal.
    all: try (unfold ecand, match_of; cbn [cand_of field_span sk_parse_group nth_error m_fields m_start m_end sk_precedence sk_parse_inner d_number d_end d_start]; f_equal; lia).
  - apply IH.
Qed.

Lemma mcands_perm : forall gs li ei a, Permutation (lcands li a gs ++ ecands ei a gs) (mcands li ei a gs).
Proof.
  induction gs as [|[ch k w t|w d t] r IH]; intros li ei a; [apply Permutation_refl| |]; cbn [lcands ecands mcands].
  - apply Permutation_sym, Permutation_cons_app, Permutation_sym, IH.
  - cbn [app]. apply perm_skip, IH.
Qed.

(* in source order the starts increase strictly, every candidate ends before the next begins *)
Fixpoint sincr (lo : Z) (l : list cand) : Prop :=
  match l with [] => True | c :: r => lo <= cs c /\ cs c < ce c /\ sincr (ce c) r end.

Lemma sincr_lower lo l : sincr lo l -> Forall (fun c => lo <= cs c) l.
Proof.
  revert lo. induction l as [|c r IH]; intros lo H; [constructor|]. destruct H as (H1 & H2 & H3). constructor; [exact H1|].
  specialize (IH _ H3). apply Forall_forall. intros x Hx. rewrite Forall_forall in IH. specialize (IH x Hx). lia.
Qed.
Lemma sincr_chain lo l : sincr lo l -> chain l.
Proof.
  revert lo. induction l as [|c r IH]; intros lo H; [exact I|]. destruct H as (H1 & H2 & H3). destruct r as [|d r']; [exact I|].
  pose proof H3 as (H4 & _). cbn [chain]. split; [exact H4|]. split; [lia|]. apply (IH _ H3).
Qed.
Lemma sincr_incr lo l : sincr lo l -> incr l.
Proof.
  revert lo. induction l as [|c r IH]; intros lo H; [exact I|]. destruct H as (H1 & H2 & H3). destruct r as [|d r']; [exact I|].
  pose proof H3 as (H4 & _). cbn [incr]. split; [lia|]. apply (IH _ H3).
Qed.
Lemma sincr_nodup lo l : sincr lo l -> NoDup (map cs l).
Proof.
  revert lo. induction l as [|c r IH]; intros lo H; [constructor|]. destruct H as (H1 & H2 & H3). cbn [map]. constructor; [|apply (IH _ H3)].
  intros Hin. apply in_map_iff in Hin as (x & Ex & Hx). pose proof (sincr_lower _ _ H3) as F. rewrite Forall_forall in F. specialize (F x Hx). lia.
Qed.

Lemma mcands_sincr : forall gs li ei a, Forall mseg_ok gs -> 0 <= a -> sincr a (mcands li ei a gs).
Proof.
  induction gs as [|[ch k w t|w d t] r IH]; intros li ei a Hok Ha; [exact I| |]; apply Forall_cons_iff in Hok as [Hp Hr]; cbn [mcands sincr].
  - unfold ecand. cbn [cs ce]. split; [lia|]. split; [unfold slen; lia|].
    assert (E : a + mlen (MEm ch k w t) = a + Z.of_nat (S k) + slen w + Z.of_nat (S k) + slen t) by (unfold mlen; cbn [mtext]; rewrite !slen_app, !slen_repeat; lia).
    specialize (IH li (ei + 1) (a + mlen (MEm ch k w t)) Hr ltac:(unfold mlen, slen; lia)).
    eapply (fun H => H) in IH. revert IH. rewrite E. intros IH.
    clear -IH. revert IH. generalize (mcands li (ei + 1) (a + Z.of_nat (S k) + slen w + Z.of_nat (S k) + slen t) r). intros l Hl.
    destruct l as [|c0 l']; [exact I|]. destruct Hl as (H1 & H2 & H3). cbn [sincr]. split; [unfold slen in *; lia|]. split; assumption.
  - unfold lcand. cbn [cs ce]. split; [lia|]. split; [unfold slen; lia|].
    assert (E : a + mlen (MLk w d t) = a + 1 + slen w + 2 + slen d + 1 + slen t) by (unfold mlen; cbn [mtext]; rewrite !slen_app; unfold slen; cbn [length]; lia).
    specialize (IH (li + 1) ei (a + mlen (MLk w d t)) Hr ltac:(unfold mlen, slen; lia)).
    revert IH. rewrite E. generalize (mcands (li + 1) ei (a + 1 + slen w + 2 + slen d + 1 + slen t) r). intros l Hl.
    destruct l as [|c0 l']; [exact I|]. destruct Hl as (H1 & H2 & H3). cbn [sincr]. split; [unfold slen in *; lia|]. split; assumption.
Qed.

Lemma tokenize_sorted l l' len : sort_cands l = l' -> chain l' ->
  tokenize l len = body_g 0 l' ++ (if end_of 0 l' =? len then [] else [ORaw (end_of 0 l') len]).
Proof.
  intros Hs Hc. rewrite <- (tokenize_chain_g l' len Hc). unfold tokenize. rewrite Hs, (sort_chain l' Hc). reflexivity.
Qed.

(* ---- the tokens ---- *)
Definition mix_toks (gs : list mseg) : list tok :=
  flat_map (fun g => match g with
                     | MEm ch k w t => [(if Z.of_nat (S k) =? 2 then Strong [ch] [RawText w] else Emphasis [ch] [RawText w]); RawText t]
                     | MLk w d t => ilink_of w d :: raw_if t
                     end) gs.

Lemma src_at_mid (A B : list csrc) x : src_at (A ++ x :: B) (Z.of_nat (length A)) = x.
Proof. apply src_at_app. Qed.

Lemma mixed_tokens s srcs N : forall gs p0 gtxt L1 E1,
  s = p0 ++ gtxt ++ mbody gs -> plain_text gtxt = true -> Forall mseg_ok gs ->
  length (L1 ++ mlinks (slen (p0 ++ gtxt)) gs) = N ->
  srcs = map CCore (L1 ++ mlinks (slen (p0 ++ gtxt)) gs) ++ map CCore (E1 ++ map (match_of s) (mpairs (slen (p0 ++ gtxt)) gs)) ->
  map (build_otok s srcs) (out_g (slen p0) (mcands (Z.of_nat (length L1)) (Z.of_nat (N + length E1)) (slen (p0 ++ gtxt)) gs) (slen s)) =
  raw_if gtxt ++ mix_toks gs.
Proof.
  induction gs as [|[ch k w t|w d t] r IH]; intros p0 gtxt L1 E1 Es Hg Hok HN Hsrc.
  - cbn [mcands mix_toks flat_map]. rewrite app_nil_r. unfold out_g. cbn [body_g app]. unfold end_of. cbn [rev].
    cbn [mbody] in Es. rewrite app_nil_r in Es.
    assert (El : slen s = slen p0 + slen gtxt) by (rewrite Es, slen_app; reflexivity). rewrite El.
    assert (Eg : (if slen p0 =? slen p0 + slen gtxt then [] else [ORaw (slen p0) (slen p0 + slen gtxt)]) = match gtxt with [] => [] | _ => [ORaw (slen p0) (slen p0 + slen gtxt)] end).
    { destruct gtxt as [|c g']; [unfold slen at 2; cbn [length Z.of_nat]; rewrite Z.add_0_r, Z.eqb_refl; reflexivity|].
      assert (slen p0 =? slen p0 + slen (c :: g') = false) as -> by (apply Z.eqb_neq; unfold slen; cbn [length]; lia). reflexivity. }
    rewrite Eg. apply (raw_gap_tok s srcs p0 gtxt []); [rewrite app_nil_r; exact Es|exact Hg].
  - (* an emphasised phrase *)
    apply Forall_cons_iff in Hok as [Hp Hr]. destruct Hp as (Hch & Hk & Hw & Hne & Hf & Hl & Ht & Htne & Hth & Htl).
    set (K := Z.of_nat (S k)). set (R := repeat ch (S k)).
    assert (HR : slen R = K) by (unfold R, K; apply slen_repeat).
    assert (HK : 0 < K) by (unfold K; lia).
    assert (Hwp : 0 < slen w) by (unfold slen; destruct (length w) eqn:Elw; [apply length_zero_iff_nil in Elw; contradiction|lia]).
    set (a := slen (p0 ++ gtxt)) in *. set (b := a + K + slen w).
    assert (Eml : a + mlen (MEm ch k w t) = b + K + slen t) by (unfold mlen, b; cbn [mtext]; fold R; rewrite !slen_app, HR; lia).
    cbn [mcands mpairs mlinks map] in *. rewrite Eml in *. fold K in Hsrc |- *. fold b in Hsrc |- *.
    set (o := mkDelim (ch :: repeat ch k) K K true a (a + K) true true false) in *.
    set (c := mkDelim (ch :: repeat ch k) K K true b (b + K) true false true) in *.
    set (m1 := match_of s (o, c)) in *.
    assert (Em1 : m1 = mkMobj a (b + K) [(a + K, b, substr s (a + K) b)] (if K =? 2 then $"Strong" else $"Emphasis") [char_at s a] [] None []).
    { unfold m1, match_of, o, c. cbn [d_number d_end d_start]. replace (a + K - K) with a by lia. replace (b + K - K) with b by lia. reflexivity. }
    rewrite out_g_cons. unfold ecand. fold K. fold b. cbn [cs ce]. rewrite leaf_otok_inner by reflexivity. cbn [ps pe].
    assert (a + K =? b = false) as -> by (apply Z.eqb_neq; unfold b; lia).
    set (pre1 := p0 ++ gtxt ++ R ++ w ++ R).
    assert (Es' : s = pre1 ++ t ++ mbody r) by (rewrite Es; cbn [mbody mtext]; fold R; unfold pre1; rewrite <- !app_assoc; reflexivity).
    assert (Ea : slen pre1 = b + K) by (unfold pre1, b, a; rewrite !slen_app, HR; lia).
    assert (Einner : substr s (a + K) b = w).
    { pose proof (substr_mid (p0 ++ gtxt ++ R) w (R ++ t ++ mbody r)) as M.
      replace (slen (p0 ++ gtxt ++ R)) with (a + K) in M by (unfold a; rewrite !slen_app, HR; lia).
      replace (a + K + slen w) with b in M by reflexivity.
      replace ((p0 ++ gtxt ++ R) ++ w ++ R ++ t ++ mbody r) with s in M by (rewrite Es; cbn [mbody mtext]; fold R; rewrite <- !app_assoc; reflexivity). exact M. }
    assert (Echar : char_at s a = ch).
    { rewrite Es. cbn [mbody mtext]. fold R. unfold R. cbn [repeat]. rewrite <- !app_assoc. rewrite app_assoc. unfold a. cbn [app]. apply char_at_mid. }
    assert (Eat : slen (pre1 ++ t) = b + K + slen t) by (rewrite slen_app, Ea; reflexivity).
    assert (HN' : length (L1 ++ mlinks (slen (pre1 ++ t)) r) = N) by (rewrite Eat; exact HN).
    assert (H4 : srcs = map CCore (L1 ++ mlinks (slen (pre1 ++ t)) r) ++ map CCore ((E1 ++ [m1]) ++ map (match_of s) (mpairs (slen (pre1 ++ t)) r)))
      by (rewrite Eat, Hsrc, <- (app_assoc E1); reflexivity).
    pose proof (IH pre1 t L1 (E1 ++ [m1]) Es' Ht Hr HN' H4) as IH'.
    rewrite Eat, Ea in IH'. rewrite app_length in IH'. cbn [length] in IH'.
    replace (Z.of_nat (N + (length E1 + 1))) with (Z.of_nat (N + length E1) + 1) in IH' by lia.
    rewrite map_app. cbn [map]. rewrite IH'.
    cbn [mix_toks flat_map app]. fold (mix_toks r).
    assert (Eraw : map (build_otok s srcs) (gap (slen p0) a) = raw_if gtxt).
    { unfold gap, a. rewrite slen_app, gap_raw. apply (raw_gap_tok s srcs p0 gtxt (mbody (MEm ch k w t :: r)) Es Hg). }
    rewrite Eraw. f_equal. cbn [map build_otok cid].
    assert (Esrc : src_at srcs (Z.of_nat (N + length E1)) = CCore m1).
    { rewrite Hsrc. rewrite (map_app CCore E1). cbn [map]. rewrite app_assoc.
      set (A := map CCore (L1 ++ mlinks (b + K + slen t) r) ++ map CCore E1).
      replace (N + length E1)%nat with (length A) by (unfold A; rewrite app_length, !map_length; lia).
      apply src_at_mid. }
    rewrite Esrc. rewrite Einner, (unescape_plain w Hw). cbn [map build_otok].
    assert (Tk : build_inner (CCore m1) [RawText w] = (if K =? 2 then Strong [ch] [RawText w] else Emphasis [ch] [RawText w])).
    { rewrite Em1, Echar. cbn [build_inner m_type m_delimiter]. destruct (K =? 2); reflexivity. }
    rewrite Tk. unfold raw_if. destruct t as [|c0 t']; [contradiction|]. reflexivity.
  - (* a link *)
    apply Forall_cons_iff in Hok as [[(Hw & Hwne & Hd & Hdne & Ht) Hte] Hr].
    assert (Hwp : 0 < slen w) by (unfold slen; destruct (length w) eqn:Elw; [apply length_zero_iff_nil in Elw; contradiction|lia]).
    set (a := slen (p0 ++ gtxt)) in *.
    set (b := a + 1 + slen w). set (de := b + 2 + slen d).
    assert (Eml : a + mlen (MLk w d t) = de + 1 + slen t) by (unfold mlen, de, b; cbn [mtext]; rewrite !slen_app; unfold slen; cbn [length]; lia).
    cbn [mcands mpairs mlinks map] in *. rewrite Eml in *.
    set (m1 := mk_ilink a w d) in *.
    rewrite out_g_cons. unfold lcand. fold b. fold de. cbn [cs ce]. rewrite leaf_otok_inner by reflexivity. cbn [ps pe].
    assert (a + 1 =? b = false) as -> by (apply Z.eqb_neq; unfold b; lia).
    set (pre1 := p0 ++ gtxt ++ [91] ++ w ++ [93; 40] ++ d ++ [41]).
    assert (Es' : s = pre1 ++ t ++ mbody r) by (rewrite Es; cbn [mbody mtext]; unfold pre1; rewrite <- !app_assoc; reflexivity).
    assert (Ea : slen pre1 = de + 1) by (unfold pre1, de, b, a; rewrite !slen_app; unfold slen; cbn [length]; lia).
    assert (Einner : substr s (a + 1) b = w).
    { pose proof (substr_mid (p0 ++ gtxt ++ [91]) w ([93; 40] ++ d ++ [41] ++ t ++ mbody r)) as M.
      replace (slen (p0 ++ gtxt ++ [91])) with (a + 1) in M by (unfold a; rewrite !slen_app; unfold slen; cbn [length]; lia).
      replace (a + 1 + slen w) with b in M by reflexivity.
      replace ((p0 ++ gtxt ++ [91]) ++ w ++ [93; 40] ++ d ++ [41] ++ t ++ mbody r) with s in M by (rewrite Es; cbn [mbody mtext]; rewrite <- !app_assoc; reflexivity). exact M. }
    assert (Eat : slen (pre1 ++ t) = de + 1 + slen t) by (rewrite slen_app, Ea; reflexivity).
    assert (HN' : length ((L1 ++ [m1]) ++ mlinks (slen (pre1 ++ t)) r) = N) by (rewrite Eat, <- app_assoc; exact HN).
    assert (H4 : srcs = map CCore ((L1 ++ [m1]) ++ mlinks (slen (pre1 ++ t)) r) ++ map CCore (E1 ++ map (match_of s) (mpairs (slen (pre1 ++ t)) r)))
      by (rewrite Eat, Hsrc, <- (app_assoc L1); reflexivity).
    pose proof (IH pre1 t (L1 ++ [m1]) E1 Es' Ht Hr HN' H4) as IH'.
    rewrite Eat, Ea in IH'. rewrite app_length in IH'. cbn [length] in IH'.
    replace (Z.of_nat (length L1 + 1)) with (Z.of_nat (length L1) + 1) in IH' by lia.
    rewrite map_app. cbn [map]. rewrite IH'.
    cbn [mix_toks flat_map app]. fold (mix_toks r).
    assert (Eraw : map (build_otok s srcs) (gap (slen p0) a) = raw_if gtxt).
    { unfold gap, a. rewrite slen_app, gap_raw. apply (raw_gap_tok s srcs p0 gtxt (mbody (MLk w d t :: r)) Es Hg). }
    rewrite Eraw. f_equal. cbn [map build_otok cid].
    assert (Esrc : src_at srcs (Z.of_nat (length L1)) = CCore m1).
    { rewrite Hsrc. rewrite (map_app CCore L1). cbn [map]. rewrite <- app_assoc. cbn [app].
      replace (length L1) with (length (map CCore L1)) by apply map_length. apply src_at_mid. }
    rewrite Esrc. rewrite Einner, (unescape_plain w Hw). cbn [map build_otok].
    assert (Tk : build_inner (CCore m1) [RawText w] = ilink_of w d).
    { unfold m1, mk_ilink, link_mobj, ilink_of. cbn [build_inner m_type m_delimiter field_text m_fields nth_error pred m_dest_type m_label m_title_delim].
      change (str_eqb ($"Link") ($"Strong")) with false. change (str_eqb ($"Link") ($"Emphasis")) with false. change (str_eqb ($"Link") ($"Image")) with false. cbv iota.
      rewrite (dest_clean d Hd Hdne). f_equal. }
    rewrite Tk. rewrite <- ?app_assoc. reflexivity.
Qed.

Section Tokens.
  Variables (t0 : str) (gs : list mseg) (fn : footnotes) (types : list span_kind).
  Hypothesis Ht0 : plain_text t0 = true.
  Hypothesis He0 : t0 = [] \/ edge_ok (last t0 0) = true.
  Hypothesis Hgs : Forall mseg_ok gs.
  Hypothesis Hq : forallb kind_quiet_r (removelast types) = true.
  Hypothesis Hc : filter (fun kd => match kd with SK_CoreTokens => true | _ => false end) (removelast types) = [SK_CoreTokens].
  Let s := t0 ++ mbody gs.
  Let ms := mx_links t0 gs ++ mx_emphs t0 gs.

  Lemma find_all_mixed : forall ts, forallb kind_quiet_r ts = true ->
    find_all ts s fn [] = flat_map (fun kd => match kd with SK_CoreTokens => map CCore ms | _ => [] end) ts.
  Proof.
    induction ts as [|kd ts IH]; intros Hq'; [reflexivity|].
    cbn [forallb] in Hq'. apply andb_true_iff in Hq' as [Hkq Hts]. cbn [find_all flat_map].
    assert (F : match kd with SK_CoreTokens | SK_InlineCode | SK_RawText => True | _ => finditer (snd (re_of kd)) (fst (re_of kd)) s = [] end).
    { destruct kd; try exact I; cbn [kind_quiet_r] in Hkq; apply existsb_exists in Hkq as (c & Hin & Hn);
        (apply (finditer_none _ _ c s Hn); apply (mx_no t0 gs Ht0 Hgs); unfold mem; apply existsb_exists; exists c; split; [exact Hin|apply Z.eqb_refl]). }
    destruct kd; cbn [find_kind];
      try (unfold s; rewrite (core_finds_mixed t0 gs fn Ht0 He0 Hgs); cbn [map app fst snd]; fold s; fold ms; f_equal; apply IH; exact Hts);
      try (cbn [map app]; apply IH; exact Hts);
      (cbn [re_of fst snd] in F |- *; rewrite F; cbn [map app]; apply IH; exact Hts).
  Qed.

  Theorem tokenize_inner_mixed : tokenize_inner types fn s = raw_if t0 ++ mix_toks gs.
  Proof.
    unfold tokenize_inner. rewrite (find_all_mixed _ Hq).
    assert (Es : flat_map (fun kd => match kd with SK_CoreTokens => map CCore ms | _ => [] end) (removelast types) = map CCore ms).
    { clear Hq. revert Hc. generalize (removelast types) as ts.
      assert (G : forall ts n, length (filter (fun kd => match kd with SK_CoreTokens => true | _ => false end) ts) = n ->
                flat_map (fun kd => match kd with SK_CoreTokens => map CCore ms | _ => [] end) ts = concat (repeat (map CCore ms) n)).
      { induction ts as [|kd ts IH]; intros n Hn; [cbn in Hn; subst n; reflexivity|]. cbn [flat_map filter] in *.
        destruct kd; try (cbn [app]; apply IH; exact Hn). destruct n as [|n]; [discriminate|]. cbn [length] in Hn. cbn [repeat concat]. f_equal. apply IH. lia. }
      intros ts H. rewrite (G ts 1%nat) by (rewrite H; reflexivity). cbn [repeat concat]. apply app_nil_r. }
    rewrite Es. fold (cands_from 0 ms).
    set (a := slen t0). set (N := length (mx_links t0 gs)).
    (* the candidates as delivered, and in source order *)
    assert (Ecands : cands_from 0 ms = lcands 0 a gs ++ ecands (Z.of_nat N) a gs).
    { unfold ms. rewrite cands_from_app. unfold mx_links, mx_emphs. fold a. rewrite (lcands_eq gs 0 a). fold s. rewrite (ecands_eq s gs _ a). reflexivity. }
    assert (Hs : sincr a (mcands 0 (Z.of_nat N) a gs)) by (apply mcands_sincr; [exact Hgs|unfold a, slen; lia]).
    assert (Esort : sort_cands (cands_from 0 ms) = mcands 0 (Z.of_nat N) a gs).
    { apply sort_to; [rewrite Ecands; apply mcands_perm|apply (sincr_incr a); exact Hs|apply (sincr_nodup a); exact Hs]. }
    rewrite (tokenize_sorted _ _ (slen s) Esort (sincr_chain a _ Hs)).
    fold (out_g 0 (mcands 0 (Z.of_nat N) a gs) (slen s)).
    pose proof (mixed_tokens s (map CCore ms) N gs [] t0 [] [] eq_refl Ht0 Hgs eq_refl) as T.
    cbn [app length] in T. rewrite Nat.add_0_r in T.
    apply T. unfold ms, mx_links, mx_emphs. rewrite map_app. reflexivity.
  Qed.
End Tokens.

(* ---- the statement with computable hypotheses ---- *)
Definition mseg_okb (g : mseg) : bool :=
  match g with
  | MEm ch k w t => phrase_okb (ch, k, w, t)
  | MLk w d t => lseg_okb (w, d, t) && (match t with [] => true | _ => edge_ok (last t 0) end)
  end.

Lemma mseg_okb_spec g : mseg_okb g = true -> mseg_ok g.
Proof.
  destruct g as [ch k w t|w d t]; cbn [mseg_okb mseg_ok]; intros H.
  - apply phrase_okb_spec. exact H.
  - apply andb_true_iff in H as [H1 H2]. split.
    + unfold lseg_okb in H1. repeat rewrite andb_true_iff in H1. destruct H1 as [[[[A B] C] D] E]. repeat split; try assumption; [destruct w; discriminate|destruct d; discriminate].
    + destruct t; [left; reflexivity|right; exact H2].
Qed.

Definition mixed_ok (t0 : str) (gs : list mseg) : bool :=
  plain_text t0 && (match t0 with [] => true | _ => edge_ok (last t0 0) end) && forallb mseg_okb gs.

Theorem mixed_phrases types fn t0 gs :
  ref_spans types = true -> mixed_ok t0 gs = true ->
  tokenize_inner types fn (t0 ++ mbody gs) = raw_if t0 ++ mix_toks gs.
Proof.
  intros Hs Ho. unfold ref_spans in Hs. apply andb_true_iff in Hs as [Hq Hc].
  unfold mixed_ok in Ho. repeat rewrite andb_true_iff in Ho. destruct Ho as [[H1 H2] H3].
  apply tokenize_inner_mixed; try assumption.
  - destruct t0; [left; reflexivity|right; exact H2].
  - apply Forall_forall. intros g Hg. rewrite forallb_forall in H3. apply mseg_okb_spec. apply H3. exact Hg.
  - destruct (filter _ _) as [|[] [|? ?]]; try discriminate. reflexivity.
Qed.

Example mixed_instance :
  let gs := [MEm 42 0 ($"one") ($" and "); MLk ($"a link") ($"http://x.y/z_1") ($", then "); MEm 95 1 ($"two words") ($" "); MLk ($"3") ($"#f") []; MEm 42 1 ($"x") ($".")] in
  (mixed_ok ($"Say ") gs = true) /\ (mbody gs = $"*one* and [a link](http://x.y/z_1), then __two words__ [3](#f)**x**.") /\
  (mixed_ok ($"Say ") [MLk ($"3") ($"#f") ($"x"); MEm 42 1 ($"x") ($".")] = false).
Proof. vm_compute. repeat split; reflexivity. Qed.
