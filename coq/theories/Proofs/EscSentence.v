(* C03 / C16: ONE backslash escape inside a sentence.  pre \c post - c a punctuation character that EscapeSequence.pattern
   accepts and that no other span finder needs, pre and post free of trigger characters - tokenizes to the text, one
   EscapeSequence holding c as raw text, the text: the pattern evaluated exactly, pattern.finditer finding this one match, the
   scanner of the core tokens taking the backslash as an escape (so that an escaped * or _ or [ starts nothing), the candidate
   tokenizer. *)
From Coq Require Import ZArith List Bool Lia.
From Mistletoe Require Import Base.Sx Base.PyStr Base.PyText Gen.GenTables Gen.GenRegex Gen.GenConfig Re.ReMatch
     Model.SpanTokenizer Model.Tree Model.Unescape Model.CoreTokens Model.Inline Model.Block Model.Build Model.Parser Model.HtmlRenderer
     Proofs.ReFirst Proofs.ReNeeds Proofs.ReExact Proofs.HeadingLaw Proofs.Prose Proofs.PlainProse Proofs.ListLaw Proofs.ProseLines
     Proofs.EmphSimple Proofs.EmphSentence Proofs.RefSentence Proofs.LinkSentence Proofs.CodeSpan Proofs.StrikeSentence.
Import ListNotations.
Local Open Scope Z_scope.

Definition ESC_SET : re := match re_span_token_EscapeSequence_pattern with Seq _ (Grp _ r) => r | _ => Eps end.
Lemma esc_shape : re_span_token_EscapeSequence_pattern = Seq (Lit 92) (Grp 1%nat ESC_SET) /\ is_char_re ESC_SET = true /\
                  fl_span_token_EscapeSequence_pattern = mkFlags false false.
Proof. repeat split; reflexivity. Qed.

Definition triggers_x : list Z := [96; 126; 60; 10; 36; 38; 123; 124].
(* the characters the theorem speaks about: escapable, and needed by no other finder *)
Definition esc_char (c : Z) : bool := char_ok (mkFlags false false) ESC_SET c && negb (mem c triggers_x).

Definition is_esc (kd : span_kind) : bool := match kd with SK_EscapeSequence => true | _ => false end.
Definition kind_quiet_x (kd : span_kind) : bool :=
  match kd with
  | SK_CoreTokens | SK_InlineCode | SK_RawText | SK_EscapeSequence => true
  | _ => existsb (fun c => needs (fst (re_of kd)) c) triggers_x
  end.

Lemma esc_nomatch c : (c =? 92) = false -> nomatch fl_span_token_EscapeSequence_pattern re_span_token_EscapeSequence_pattern c = true.
Proof. intros H. destruct esc_shape as (-> & _ & ->). unfold nomatch. cbn [fa fst snd char_ok]. rewrite H. reflexivity. Qed.

Section EscS.
  Variables (pre post : str) (c : Z) (fn : footnotes).
  Hypothesis Hpre : plain_text pre = true.
  Hypothesis Hpost : plain_text post = true.
  Hypothesis Hc : esc_char c = true.

  Let fl := mkFlags false false.
  Let s := pre ++ [92; c] ++ post.
  Let a := slen pre.

  Definition x0 : mst := adv_run (start_at [] s) pre (92 :: c :: post).
  Definition x1 : mst := mkMst (c :: 92 :: rev pre) post (a + 1 + 1) [(1%nat, (a + 1, a + 1 + 1))].

  Lemma x_len : slen s = a + 1 + 1 + slen post.
  Proof. unfold s, a. rewrite !slen_app. unfold slen. cbn [length]. lia. Qed.

  Lemma x_set : char_ok fl ESC_SET c = true.
  Proof. unfold esc_char in Hc. apply andb_true_iff in Hc as [H _]. exact H. Qed.

  Lemma x_cno d : mem d triggers_x = true -> (d =? c) = false.
  Proof.
    intros Hd. unfold esc_char in Hc. apply andb_true_iff in Hc as [_ H]. apply negb_true_iff in H.
    destruct (d =? c) eqn:E; [|reflexivity]. apply Z.eqb_eq in E. subst d. rewrite Hd in H. discriminate.
  Qed.

  Lemma esc_found : finditer fl_span_token_EscapeSequence_pattern re_span_token_EscapeSequence_pattern s = [(x0, x1)].
  Proof.
    unfold finditer. cbn [finditer_from].
    assert (Ea : aft (start_at [] s) = s) by reflexivity. rewrite Ea.
    rewrite (search_skip _ _ pre s (start_at [] s) (92 :: c :: post)); [|reflexivity| |unfold s; rewrite app_length; lia].
    2:{ intros d Hd. apply esc_nomatch.
        pose proof (plain_no 92 pre eq_refl Hpre) as T. destruct (d =? 92) eqn:E; [|reflexivity]. apply Z.eqb_eq in E. subst d.
        assert (T' : mem 92 pre = true) by (unfold mem; apply existsb_exists; exists 92; split; [exact Hd|reflexivity]). rewrite T' in T. discriminate. }
    fold x0.
    assert (S1 : search_from fl_span_token_EscapeSequence_pattern re_span_token_EscapeSequence_pattern (skipn (length pre) s) false x0 = Some (x0, x1)).
    { destruct esc_shape as (-> & Hcr & ->).
      assert (M : m fl (Seq (Lit 92) (Grp 1 ESC_SET)) (mkMst (bef x0) (aft x0) (pos x0) []) (fun s' => if false && (pos s' =? pos x0) then None else Some s') = Some x1).
      { rewrite m_seq. rewrite (m_char fl (Lit 92) _ 92 (c :: post)) by reflexivity. cbn [char_ok Z.eqb Pos.eqb].
        rewrite m_grp. rewrite (m_char fl ESC_SET _ c post _ Hcr) by reflexivity. rewrite x_set.
        cbn [andb]. unfold x1, x0, adv_run, start_at, set_grp, advance. cbn [bef aft pos grp length Z.of_nat]. rewrite app_nil_r. reflexivity. }
      destruct (skipn (length pre) s) as [|y fuel]; cbn [search_from]; fold fl; rewrite M; reflexivity. }
    rewrite S1. f_equal.
    apply finditer_from_none. apply (search_none _ _ 92); [vm_compute; reflexivity|].
    cbn [aft x1]. apply plain_no; [reflexivity|exact Hpost].
  Qed.

  Lemma x0_pos : pos x0 = a.  Proof. reflexivity. Qed.

  Lemma x_no d : mem d triggers_x = true -> mem d s = false.
  Proof.
    intros Hd.
    assert (Ht : mem d triggers = true).
    { unfold mem, triggers_x, triggers in *. cbn [existsb] in *.
      repeat (apply orb_true_iff in Hd; destruct Hd as [Hd|Hd]); try discriminate; rewrite Hd; cbn [orb]; rewrite ?orb_true_r; reflexivity. }
    assert (C92 : (d =? 92) = false) by (destruct (d =? 92) eqn:E; [apply Z.eqb_eq in E; subst d; vm_compute in Hd; discriminate|reflexivity]).
    unfold s, mem. rewrite !existsb_app. fold (mem d pre). fold (mem d post).
    rewrite (plain_no d pre Ht Hpre), (plain_no d post Ht Hpost). cbn [existsb orb]. rewrite C92, (x_cno d Hd). reflexivity.
  Qed.

  (* ---- the scanner: the backslash escapes the character after it ---- *)
  Lemma scan_escape fuel st : clean st ->
    scan_loop (S (S fuel)) s fn a None st = scan_loop fuel s fn (a + 1 + 1) None st.
  Proof.
    intros (Hr & He & Hi).
    assert (H1 : a <? slen s = true) by (apply Z.ltb_lt; rewrite x_len; unfold a, slen; lia).
    assert (H2 : a + 1 <? slen s = true) by (apply Z.ltb_lt; rewrite x_len; unfold a, slen; lia).
    assert (E1 : char_at s a = 92) by (unfold s, a; apply char_at_mid).
    assert (E2 : char_at s (a + 1) = c).
    { replace (a + 1) with (slen (pre ++ [92])) by (unfold a; rewrite slen_app; reflexivity).
      replace s with ((pre ++ [92]) ++ c :: post) by (unfold s; rewrite <- app_assoc; reflexivity). apply char_at_mid. }
    cbn [scan_loop]. rewrite H1. cbn [negb]. rewrite E1, He. cbn [Z.eqb Pos.eqb andb negb].
    rewrite H2. cbn [negb sc_escaped sc_run sc_ds sc_ms sc_in_image sc_start sc_code]. rewrite E2, Hr. cbn [andb negb orb].
    rewrite !andb_false_r. cbn [negb].
    destruct st as [ds0 ms0 esc0 run0 img0 start0 code0]. cbn [sc_run sc_escaped sc_in_image sc_ds sc_ms sc_start sc_code] in *. rewrite Hr, He, Hi. reflexivity.
  Qed.

  Theorem core_finds_nothing_x : find_core_tokens s fn = ([], []).
  Proof.
    unfold find_core_tokens.
    assert (Hcs : code_search s 0 = None).
    { unfold code_search. apply (search_state_none _ _ 96); [vm_compute; reflexivity|]. unfold seek. cbn [aft]. apply mem_drop. apply x_no. reflexivity. }
    rewrite Hcs.
    set (st0 := mkScan [] [] false None false 0 []).
    replace (S (S (length s))) with (length pre + S (S (length post + 2)))%nat by (unfold s; rewrite !app_length; cbn [length]; lia).
    rewrite (scan_inert_any s fn pre _ [] ([92; c] ++ post) st0 eq_refl (plain_inert pre Hpre)) by (repeat split).
    change (slen [] + slen pre) with a.
    rewrite scan_escape by (repeat split).
    replace (a + 1 + 1) with (slen (pre ++ [92; c])) by (unfold a; rewrite slen_app; unfold slen; cbn [length]; lia).
    rewrite (scan_inert_any s fn post _ (pre ++ [92; c]) [] st0); [|unfold s; rewrite app_nil_r, <- app_assoc; reflexivity|exact (plain_inert post Hpost)|repeat split].
    replace (slen (pre ++ [92; c]) + slen post) with (slen s) by (rewrite x_len; unfold a; rewrite slen_app; unfold slen; cbn [length]; lia).
    rewrite scan_end. cbn [st0 sc_run sc_ds sc_ms sc_code].
    unfold process_emphasis. change (next_closer 0 []) with (@None Z). destruct (3 * length s + 3)%nat; reflexivity.
  Qed.

  Lemma find_all_esc : forall ts, forallb kind_quiet_x ts = true ->
    find_all ts s fn [] = flat_map (fun kd => if is_esc kd then [CRe SK_EscapeSequence x0 x1] else []) ts.
  Proof.
    induction ts as [|kd ts IH]; intros Hq; [reflexivity|].
    cbn [forallb] in Hq. apply andb_true_iff in Hq as [Hkq Hts]. cbn [find_all flat_map].
    assert (F : match kd with SK_CoreTokens | SK_InlineCode | SK_RawText | SK_EscapeSequence => True | _ => finditer (snd (re_of kd)) (fst (re_of kd)) s = [] end).
    { destruct kd; try exact I; cbn [kind_quiet_x] in Hkq; apply existsb_exists in Hkq as (d & Hin & Hn);
        (apply (finditer_none _ _ d s Hn); apply x_no; unfold mem; apply existsb_exists; exists d; split; [exact Hin|apply Z.eqb_refl]). }
    destruct kd; cbn [find_kind is_esc];
      try (rewrite core_finds_nothing_x; cbn [map app]; apply IH; exact Hts);
      try (cbn [map app]; apply IH; exact Hts);
      try (cbn [re_of fst snd]; rewrite esc_found; cbn [map app fst snd]; f_equal; apply IH; exact Hts);
      (cbn [re_of fst snd] in F |- *; rewrite F; cbn [map app]; apply IH; exact Hts).
  Qed.

  Theorem tokenize_inner_esc types : forallb kind_quiet_x (removelast types) = true ->
    filter is_esc (removelast types) = [SK_EscapeSequence] ->
    tokenize_inner types fn s = raw_if pre ++ [EscapeSequence [RawText [c]]] ++ raw_if post.
  Proof.
    intros Hq Hf. unfold tokenize_inner. rewrite (find_all_esc _ Hq).
    assert (Es : flat_map (fun kd => if is_esc kd then [CRe SK_EscapeSequence x0 x1] else []) (removelast types) = [CRe SK_EscapeSequence x0 x1]).
    { clear Hq. revert Hf. generalize (removelast types) as ts.
      assert (G : forall ts n, length (filter is_esc ts) = n ->
                flat_map (fun kd => if is_esc kd then [CRe SK_EscapeSequence x0 x1] else []) ts = repeat (CRe SK_EscapeSequence x0 x1) n).
      { induction ts as [|kd ts IH]; intros n Hn; [cbn in Hn; subst n; reflexivity|]. cbn [flat_map filter] in *.
        destruct (is_esc kd); [|cbn [app]; apply IH; exact Hn]. destruct n as [|n]; [discriminate|]. cbn [length] in Hn. cbn [repeat app]. f_equal. apply IH. lia. }
      intros ts H. rewrite (G ts 1%nat) by (rewrite H; reflexivity). reflexivity. }
    rewrite Es.
    cbn [number_from map fst snd cand_of sk_parse_group grp_span sk_precedence sk_parse_inner].
    assert (Gs : group_span x1 1 = Some (a + 1, a + 1 + 1)) by reflexivity.
    rewrite Gs, x0_pos. cbn [pos x1].
    pose proof x_len as Hs.
    unfold tokenize, SpanTokenizer.make_tokens, make_tokens_with.
    cbn [sort_cands fold_right insert_stable buffer_rev eval_loop last_end pc ce mk_rev cs make inner ps pe app rev].
    assert (Gb : (if a >? 0 then [ORaw 0 a] else []) = match pre with [] => [] | _ => [ORaw 0 a] end) by (unfold a; apply gap_before).
    assert (Ga : (if a + 1 + 1 =? slen s then [] else [ORaw (a + 1 + 1) (slen s)]) = match post with [] => [] | _ => [ORaw (a + 1 + 1) (slen s)] end) by (rewrite Hs; apply gap_after).
    rewrite Gb, Ga. rewrite app_nil_r, rev_app_distr. cbn [rev app]. rewrite <- app_assoc. cbn [app].
    rewrite !map_app. cbn [map build_otok cid src_at Z.to_nat nth build_leaf].
    assert (G1 : gtext x1 1 = [c]).
    { unfold gtext, group_text, x1. cbn [grp lookup_grp Nat.eqb]. unfold segment. cbn [pos bef].
      replace (a + 1 + 1 - (a + 1)) with 1 by lia. cbn [Z.to_nat Pos.to_nat Pos.iter_op Nat.add firstn rev app]. reflexivity. }
    rewrite G1. f_equal; [|f_equal].
    - rewrite ?app_nil_r. apply raw_gap. cbn [build_otok]. f_equal.
      pose proof (substr_mid [] pre ([92; c] ++ post)) as M. cbn [app] in M. unfold slen at 1 2 in M. cbn [length Z.of_nat] in M.
      fold a in M. replace (0 + a) with a in M by lia. unfold s. cbn [app]. rewrite M. apply unescape_plain. exact Hpre.
    - apply raw_gap. cbn [build_otok]. f_equal.
      pose proof (substr_mid (pre ++ [92; c]) post []) as M.
      replace (slen (pre ++ [92; c])) with (a + 1 + 1) in M by (unfold a; rewrite slen_app; unfold slen; cbn [length]; lia).
      rewrite app_nil_r in M. replace ((pre ++ [92; c]) ++ post) with s in M by (unfold s; rewrite <- app_assoc; reflexivity).
      rewrite Hs. rewrite M. apply unescape_plain. exact Hpost.
  Qed.
End EscS.

(* ---- the statement with computable hypotheses ---- *)
Definition esc_spans (types : list span_kind) : bool :=
  forallb kind_quiet_x (removelast types) && match filter is_esc (removelast types) with [SK_EscapeSequence] => true | _ => false end.

Definition esc_ok (pre : str) (c : Z) (post : str) : bool := plain_text pre && plain_text post && esc_char c.

Theorem escape_in_sentence types fn pre c post :
  esc_spans types = true -> esc_ok pre c post = true ->
  tokenize_inner types fn (pre ++ [92; c] ++ post) = raw_if pre ++ [EscapeSequence [RawText [c]]] ++ raw_if post.
Proof.
  intros Hs Ho. unfold esc_spans in Hs. apply andb_true_iff in Hs as [Hq Hc].
  unfold esc_ok in Ho. repeat rewrite andb_true_iff in Ho. destruct Ho as [[H1 H2] H3].
  apply (tokenize_inner_esc pre post c fn H1 H2 H3); [exact Hq|].
  destruct (filter _ _) as [|[] [|? ?]]; try discriminate. reflexivity.
Qed.

(* the escapable characters the theorem covers: all ASCII punctuation but ` ~ < $ & { | *)
Example esc_instance :
  (filter esc_char (map Z.of_nat (seq 0 128)) = map (fun c => c) ($"!" ++ [34] ++ $"#%'()*+,-./:;=>?@[\]^_}")) /\
  (esc_ok ($"not ") 42 ($"emphasis") = true) /\ (esc_ok [] 96 [] = false) /\ (esc_ok [] 97 [] = false).
Proof. vm_compute. repeat split; reflexivity. Qed.

Lemma esc_configs :
  map (fun c => esc_spans (cfg_span c)) [cfg_html; cfg_html_nohtml; cfg_markdown; cfg_latex; cfg_mathjax; cfg_default] = [true; true; true; true; true; true].
Proof. vm_compute. reflexivity. Qed.
