(* The `start` predicates of the block model (Model/Block.v) ARE the `start` methods regenerated
   from mistletoe/block_token.py (and markdown_renderer.BlankLine) on this run
   (Gen/GenBlockStart.v, written by harness/gen/gen_blockstart.py from the source text): equal on
   every line.  For Heading and CodeFence the equality covers the class attributes `start` leaves
   behind for `read` (level / content / closing_sequence; _open_info). *)
From Coq Require Import ZArith List Bool.
From Mistletoe Require Import Base.Sx Base.PyStr Base.PyText Re.ReMatch Gen.GenTables Gen.GenRegex Model.Block Gen.GenBlockStart.
Import ListNotations.
Local Open Scope Z_scope.

Lemma str_eqb_nil (x : str) : str_eqb x [] = match x with [] => true | _ => false end.
Proof. destruct x; reflexivity. Qed.

Lemma quote_start_regen line : g_Quote_start line = quote_start line.
Proof. reflexivity. Qed.
Lemma paragraph_start_regen line : g_Paragraph_start line = paragraph_start line.
Proof. unfold g_Paragraph_start, paragraph_start, is_blank. rewrite str_eqb_nil. reflexivity. Qed.
Lemma blockcode_start_regen line : g_BlockCode_start line = blockcode_start line.
Proof. unfold g_BlockCode_start, blockcode_start, is_blank, tabs_to_spaces_once. rewrite str_eqb_nil. reflexivity. Qed.
Lemma table_start_regen line : g_Table_start line = table_start line.
Proof. reflexivity. Qed.
Lemma footnote_start_regen line : g_Footnote_start line = footnote_start line.
Proof. reflexivity. Qed.
Lemma thematic_start_regen line : g_ThematicBreak_start line = thematic_start line.
Proof. reflexivity. Qed.
Lemma list_start_regen line : g_List_start line = list_start line.
Proof. reflexivity. Qed.
Lemma blankline_start_regen line : g_BlankLine_start line = blankline_start line.
Proof. reflexivity. Qed.
Lemma heading_start_regen line : g_Heading_start line = heading_start line.
Proof.
  unfold g_Heading_start, heading_start. destruct (rmatch _ _ line) as [m|]; [|reflexivity].
  cbv zeta. destruct (strip (gtxt m 2)) as [|c t]; [reflexivity|]. destruct (forallb (Z.eqb 35) (c :: t)); reflexivity.
Qed.
Lemma codefence_start_regen line : g_CodeFence_start line = codefence_start line.
Proof.
  unfold g_CodeFence_start, codefence_start. destruct (rmatch _ _ line) as [m|]; [|reflexivity].
  cbv zeta. destruct ((char_at (gtxt m 2) 0 =? 96) && mem 96 (gtxt m 3)); reflexivity.
Qed.

Lemma parse_marker_regen line : g_ListItem_parse_marker line = parse_marker line.
Proof.
  unfold g_ListItem_parse_marker, parse_marker. destruct (rmatch _ _ line) as [m|]; [|reflexivity].
  cbv zeta. destruct (4 <? _); reflexivity.
Qed.
Lemma parse_continuation_regen line prepend : g_ListItem_parse_continuation line prepend = parse_continuation line prepend.
Proof. reflexivity. Qed.
Lemma list_interrupts_regen line : g_List_check_interrupts_paragraph line = list_interrupts line.
Proof.
  unfold g_List_check_interrupts_paragraph, list_interrupts. rewrite parse_marker_regen.
  destruct (parse_marker line) as [[[[i p] leader] content]|]; [|reflexivity].
  unfold is_blank. rewrite str_eqb_nil. unfold str_in. cbn [existsb]. rewrite orb_false_r, orb_assoc. reflexivity.
Qed.

Theorem list_markers_regenerated : forall line prepend,
  g_ListItem_parse_marker line = parse_marker line /\ g_ListItem_parse_continuation line prepend = parse_continuation line prepend /\
  g_List_check_interrupts_paragraph line = list_interrupts line.
Proof. intros. split; [apply parse_marker_regen|]. split; [apply parse_continuation_regen|apply list_interrupts_regen]. Qed.

Lemma htmlblock_start_regen line : g_HtmlBlock_start line = htmlblock_start line.
Proof.
  unfold g_HtmlBlock_start, htmlblock_start. cbv zeta. destruct (4 <=? _); [reflexivity|].
  destruct (rmatch re_block_token_HtmlBlock_multiblock _ _) as [m|]; [reflexivity|].
  destruct (startswith _ (lstrip line)); [reflexivity|]. destruct (startswith _ (lstrip line)); [reflexivity|].
  destruct (startswith _ (lstrip line) && _); [reflexivity|]. destruct (startswith _ (lstrip line)); [reflexivity|].
  destruct (rmatch re_block_token_HtmlBlock_predefined _ _) as [m|].
  - destruct (str_in _ html_tags); [reflexivity|]. destruct (rmatch re_block_token_HtmlBlock_custom_tag _ _); reflexivity.
  - destruct (rmatch re_block_token_HtmlBlock_custom_tag _ _); reflexivity.
Qed.

Theorem block_starts_regenerated : forall line,
  g_Quote_start line = quote_start line /\ g_Paragraph_start line = paragraph_start line /\
  g_BlockCode_start line = blockcode_start line /\ g_Table_start line = table_start line /\
  g_Footnote_start line = footnote_start line /\ g_ThematicBreak_start line = thematic_start line /\
  g_List_start line = list_start line /\ g_BlankLine_start line = blankline_start line /\
  g_Heading_start line = heading_start line /\ g_CodeFence_start line = codefence_start line /\ g_HtmlBlock_start line = htmlblock_start line.
Proof.
  intros line.
  split; [apply quote_start_regen|]. split; [apply paragraph_start_regen|]. split; [apply blockcode_start_regen|].
  split; [apply table_start_regen|]. split; [apply footnote_start_regen|]. split; [apply thematic_start_regen|].
  split; [apply list_start_regen|]. split; [apply blankline_start_regen|]. split; [apply heading_start_regen|]. split; [apply codefence_start_regen|apply htmlblock_start_regen].
Qed.
