(* The hypothesis of C08's vocabulary theorem (heading levels in range) holds for every tree the
   parser model produces: the HTML theorems therefore hold for every input text, not only for
   well-attributed trees. *)
From Coq Require Import ZArith List Bool Lia.
From Mistletoe Require Import Base.Sx Base.PyStr Model.Tree Model.HtmlRenderer Model.Parser Spec.HtmlSpec Proofs.HtmlSafe Proofs.Shape.
Import ListNotations.
Local Open Scope Z_scope.

Lemma all_attrs ch : Forall (fun t => wf_shape t = true -> wf_attrs t = true) ch -> forallb wf_shape ch = true -> forallb wf_attrs ch = true.
Proof.
  induction 1 as [|x l Hx _ IH]; [reflexivity|]. cbn [forallb]. intros H. apply andb_true_iff in H as [H1 H2].
  rewrite (Hx H1), (IH H2). reflexivity.
Qed.

Lemma shape_attrs : forall t, wf_shape t = true -> wf_attrs t = true.
Proof.
  induction t using tok_ind'; intros Hs; cbn [wf_shape] in Hs; cbn [wf_attrs]; try reflexivity;
    repeat (apply andb_true_iff in Hs; destruct Hs as [Hs ?]);
    try (apply all_attrs; assumption).
  - (* AutoLink: a single raw text *) destruct ch as [|[] [|]]; try discriminate; reflexivity.
  - (* EscapeSequence *) destruct ch as [|[] [|]]; try discriminate; reflexivity.
  - (* Heading *) rewrite Hs. match goal with X : (l <=? 6) = true |- _ => rewrite X end. cbn [andb]. apply all_attrs; assumption.
  - (* SetextHeading *) rewrite Hs. match goal with X : (l <=? 2) = true |- _ => apply Z.leb_le in X end.
    assert (l <=? 6 = true) as -> by (apply Z.leb_le; lia). cbn [andb]. apply all_attrs; assumption.
  - (* Table *) apply andb_true_iff. split; [|apply all_attrs; assumption].
    destruct h as [h'|]; [|reflexivity]. apply andb_true_iff in Hs as [_ Hh]. apply (H h' eq_refl Hh).
Qed.

Theorem parsed_attrs cfg lines : wf_attrs (fst (fst (parse_lines cfg lines))) = true.
Proof. apply shape_attrs. apply parse_well_shaped. Qed.

Theorem parsed_items_ok cfg lines o sup hdr :
  Forall (fun i => item_okb i = true) (render o sup hdr (fst (fst (parse_lines cfg lines)))).
Proof. apply render_items_ok. apply parsed_attrs. Qed.
