(* C14: the bounded sweep assembled from its shards; non-vacuity of the inertness predicate *)
From Coq Require Import ZArith List Bool Lia.
From Mistletoe Require Import Base.Sx Base.PyStr Base.PyText Model.HtmlRenderer Model.Parser Proofs.Laws Proofs.Prose Proofs.IndepP.
From Mistletoe Require Proofs.ProseSweep.One Proofs.ProseSweep.Two0 Proofs.ProseSweep.Two1 Proofs.ProseSweep.Two2 Proofs.ProseSweep.Two3.
Import ListNotations.
Local Open Scope Z_scope.

Definition prose_family (lines : list str) : Prop :=
  (exists l, lines = [l] /\ In l (prose_lines12 ++ prose_lines3)) \/
  (exists a b, lines = [a; b] /\ In a prose_lines12 /\ In b prose_lines12).

Lemma bounded_prose lines : prose_family lines -> inert_text lines = true -> prose_law (mkHopts false false) lines = true.
Proof.
  intros F Hi.
  assert (G : prose_guarded lines = true).
  { destruct F as [(l & -> & Hl)|(a & b & -> & Ha & Hb)].
    - pose proof One.sweep as S. rewrite forallb_forall in S. exact (S l Hl).
    - destruct (every4_cover prose_lines12 a Ha) as [H|[H|[H|H]]];
        [pose proof Two0.sweep as S|pose proof Two1.sweep as S|pose proof Two2.sweep as S|pose proof Two3.sweep as S];
        rewrite forallb_forall in S; specialize (S a H); rewrite forallb_forall in S; exact (S b Hb). }
  unfold prose_guarded in G. rewrite Hi in G. exact G.
Qed.

(* how much of the family passes the predicate, and that live text is rejected by it *)
Example inert_counts :
  length (filter (fun l => inert_text [l]) (prose_lines12 ++ prose_lines3)) = 2172%nat /\
  inert_text [ $". a"; $") b_c & ]" ] = true /\
  inert_text [ $"1. a" ] = false /\ inert_text [ $"a"; $"-" ] = false /\ inert_text [ $"* a" ] = false /\
  inert_text [ $"a *b* c" ] = false /\ inert_text [ $"[ a ]" ] = false /\ inert_text [ $"# a" ] = false.
Proof. vm_compute. repeat split; reflexivity. Qed.
