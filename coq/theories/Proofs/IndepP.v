(* C05: the bounded sweep assembled from its shards, configuration facts, non-vacuity *)
From Coq Require Import ZArith List Bool Lia.
From Mistletoe Require Import Base.Sx Base.PyStr Base.PyText Gen.GenConfig Model.Tree Model.CoreTokens Model.Block Model.Build
     Model.Parser Model.DocLines Proofs.Laws Proofs.Independence.
From Mistletoe Require Proofs.Indep.Sweep0 Proofs.Indep.Sweep1 Proofs.Indep.Sweep2 Proofs.Indep.Sweep3.
Import ListNotations.
Local Open Scope Z_scope.

Lemma every4_cover_aux {A} : forall n (l : list A) x, (length l <= n)%nat -> In x l ->
  In x (every4 0 l) \/ In x (every4 1 l) \/ In x (every4 2 l) \/ In x (every4 3 l).
Proof.
  induction n as [|n IH]; intros l x Hl Hx.
  - destruct l; [destruct Hx|cbn [length] in Hl; lia].
  - destruct l as [|a [|b [|c [|d r]]]].
    + destruct Hx.
    + left. exact Hx.
    + left. exact Hx.
    + left. exact Hx.
    + cbn [In] in Hx. cbn [every4 nth In].
      destruct Hx as [<-|[<-|[<-|[<-|Hx]]]]; try tauto.
      destruct (IH r x (ltac:(cbn [length] in Hl; lia)) Hx) as [H|[H|[H|H]]]; tauto.
Qed.
Lemma every4_cover {A} (l : list A) x : In x l ->
  In x (every4 0 l) \/ In x (every4 1 l) \/ In x (every4 2 l) \/ In x (every4 3 l).
Proof. apply (every4_cover_aux (length l)). lia. Qed.

Lemma bounded_pairs a b : In a indep_As -> In b indep_Bs -> independence_premises cfg_html a b = true ->
  independence_law cfg_html a b = true.
Proof.
  intros Ha Hb Hp.
  assert (G : independence_guarded cfg_html a b = true).
  { destruct (every4_cover indep_As a Ha) as [H|[H|[H|H]]];
      [pose proof Sweep0.sweep as S|pose proof Sweep1.sweep as S|pose proof Sweep2.sweep as S|pose proof Sweep3.sweep as S];
      rewrite forallb_forall in S; specialize (S a H); rewrite forallb_forall in S; exact (S b Hb). }
  unfold independence_guarded in G. rewrite Hp in G. exact G.
Qed.

Lemma configs_without_blankline :
  forallb (fun c => no_blankline_kind (cfg_block c)) [cfg_html; cfg_html_nohtml; cfg_latex; cfg_mathjax; cfg_default] = true.
Proof. vm_compute. reflexivity. Qed.

(* non-vacuity: a four-line text (heading, blank, quote with a lazy line) meets the hypothesis of the theorem,
   and the sweep contains pairs whose A holds a code fence or a list before its closed last block *)
Example closed_run_somewhere :
  let A := [ $"# h" ++ [10]; [10]; $"> q" ++ [10]; $"p" ++ [10] ] in
  closed_run block_types_html (tokenize_block block_types_html 5) (S (length A)) A 1 (mkPs true) = true.
Proof. vm_compute. reflexivity. Qed.

Example sweep_has_open_blocks_before_closed_last :
  existsb (fun a => str_eqb a ($"`" ++ [10] ++ $"-" ++ [10] ++ $"a" ++ [10]) && independence_premises cfg_html a $"    a") indep_As = false \/
  existsb (fun a => independence_premises cfg_html a $"    a" &&
                    match parse_lines cfg_html (doc_lines_of_str a) with
                    | (Document (List _ _ _ :: _ :: _), _, _) => true | _ => false end) indep_As = true.
Proof. right. vm_compute. reflexivity. Qed.
