(* C03 / C16: ONE inline link whose destination is written BETWEEN ANGLE BRACKETS, inside a sentence.  pre [w](<dest>) post - the
   destination may hold spaces and parentheses - tokenizes to the text, one Link (dest_type angle_uri) holding w, the text.  The "<"
   is where AutoLink.pattern and HtmlSpan.pattern begin: both are PROVED TO FAIL there (the destination begins with a character that
   is neither a letter nor "/", "!", "?", and holds no "@": the e-mail alternative's greedy local part is followed by no "@" wherever it
   stops), so the core scanner's link is the only candidate; match_link_dest's loop for the angle form (dest_angle) runs to the ">". *)
From Coq Require Import ZArith List Bool Lia.
From Mistletoe Require Import Base.Sx Base.PyStr Base.PyText Gen.GenTables Gen.GenRegex Gen.GenConfig Re.ReMatch
     Model.SpanTokenizer Model.Tree Model.Unescape Model.CoreTokens Model.Inline Model.Block Model.Build Model.Parser Model.HtmlRenderer
     Proofs.ReFirst Proofs.ReNeeds Proofs.ReExact Proofs.HeadingLaw Proofs.Prose Proofs.PlainProse Proofs.ListLaw Proofs.ProseLines
     Proofs.EmphSimple Proofs.EmphSentence Proofs.RefSentence Proofs.LinkSentence Proofs.CodeSpan Proofs.StrikeSentence Proofs.IndentLaw Proofs.AutoLinkSentence.
Import ListNotations.
Local Open Scope Z_scope.

(* a greedy repetition of a one-character class fails when what follows fails wherever the repetition could stop *)
Lemma greedy_none_all fl r mn mx k : is_char_re r = true ->
  forall fuel s cnt, (forall j, (j <= length (aft s))%nat -> k (adv_run s (firstn j (aft s)) (skipn j (aft s))) = None) ->
  loop (m fl r) true mn mx k fuel cnt s = None.
Proof.
  intros Hr. induction fuel as [|x fuel IH]; intros s cnt Hk.
  - cbn [loop]. destruct (Nat.ltb cnt mn); [reflexivity|].
    specialize (Hk 0%nat (Nat.le_0_l _)). cbn [firstn skipn] in Hk. rewrite adv_run_nil in Hk. exact Hk.
  - cbn [loop].
    assert (K0 : k s = None).
    { specialize (Hk 0%nat (Nat.le_0_l _)). cbn [firstn skipn] in Hk. rewrite adv_run_nil in Hk. exact Hk. }
    assert (More : (if under mx cnt then m fl r s (fun s' => if Nat.leb mn cnt && (pos s' =? pos s) then None else loop (m fl r) true mn mx k fuel (S cnt) s') else None) = None).
    { destruct (under mx cnt); [|reflexivity]. destruct (aft s) as [|c t] eqn:Ha.
      - apply m_char_nil; assumption.
      - rewrite (m_char fl r s c t _ Hr Ha). destruct (char_ok fl r c); [|reflexivity].
        destruct (Nat.leb mn cnt && _); [reflexivity|].
        apply IH. intros j Hj. cbn [advance aft] in Hj |- *.
        specialize (Hk (S j) (le_n_S _ _ Hj)). cbn [firstn skipn] in Hk.
        rewrite <- adv_run_cons in Hk. rewrite firstn_skipn in Hk. exact Hk. }
    rewrite More. destruct (Nat.ltb cnt mn); [reflexivity|]. cbn [orelse]. exact K0.
Qed.

Definition LOCALSET : re := match AL_MAIL with Seq (Rep _ _ _ c) _ => c | _ => Eps end.
Lemma al_mail_shape : exists rest, AL_MAIL = Seq (Rep true 1%nat None LOCALSET) (Seq (Lit 64) rest).
Proof. eexists. reflexivity. Qed.

(* look_neg_none and rep0_skip of AutoLinkSentence.v for any flags *)
Lemma look_neg_none_f fl w r X s k : m fl X s k = None -> m fl (Seq (Look false true w r) X) s k = None.
Proof.
  intros H. rewrite m_seq. cbn [m].
  destruct (match retreat w s with Some s0 => m fl r s0 (fun s' => if pos s' =? pos s then Some s' else None) | None => None end); [reflexivity|exact H].
Qed.
Lemma rep0_skip_f fl g mx body s k : (forall k', m fl body s k' = None) -> m fl (Rep g 0 mx body) s k = k s.
Proof.
  intros Hb. cbn [m repeat app loop Nat.ltb Nat.leb]. rewrite Hb. destruct (under mx 0), g; cbn [orelse]; destruct (k s); reflexivity.
Qed.

Section AngFail.
  (* AutoLink.pattern at a "<" that is followed by something other than a letter, in a text without "@" *)
  Lemma al_fails s k c0 t : aft s = 60 :: c0 :: t -> char_ok (mkFlags false false) LETTER c0 = false -> mem 64 (c0 :: t) = false ->
    m (mkFlags false false) re_span_token_AutoLink_pattern s k = None.
  Proof.
    intros Ha Hc0 H64. destruct al_shape as [-> _]. set (fl := mkFlags false false).
    unfold LBK. apply look_neg_none_f.
    rewrite m_seq, rep0_skip_f.
    2:{ intros k'. rewrite m_seq, (m_char fl (Lit 92) s 60 (c0 :: t) _ eq_refl Ha). reflexivity. }
    rewrite m_seq, (m_char fl (Lit 60) s 60 (c0 :: t) _ eq_refl Ha). cbn [char_ok Z.eqb Pos.eqb].
    set (s1 := advance s 60 (c0 :: t)).
    rewrite m_seq, m_grp, m_alt.
    assert (A1 : forall K, m fl AL_URL s1 K = None).
    { intros K. unfold AL_URL. rewrite m_seq, (m_char fl LETTER s1 c0 t _ eq_refl eq_refl). fold fl in Hc0. rewrite Hc0. reflexivity. }
    rewrite A1. cbn [orelse].
    destruct al_mail_shape as [rest ->]. rewrite m_seq.
    match goal with |- m fl (Rep true 1 None LOCALSET) ?st ?kk = _ =>
      change (m fl (Rep true 1 None LOCALSET) st kk) with (loop (m fl LOCALSET) true 1 None kk (repeat 0 1 ++ 0 :: aft st) 0%nat st) end.
    apply greedy_none_all; [reflexivity|].
    intros j Hj. cbv beta. rewrite m_seq.
    destruct (skipn j (aft s1)) as [|y r] eqn:E.
    - apply m_char_nil; [reflexivity|reflexivity].
    - rewrite (m_char fl (Lit 64) _ y r _ eq_refl) by reflexivity. cbn [char_ok].
      assert (Hy : In y (c0 :: t)) by (apply (in_skipn y j); change (c0 :: t) with (aft s1); rewrite E; left; reflexivity).
      destruct (y =? 64) eqn:Ey; [|reflexivity]. apply Z.eqb_eq in Ey. subst y.
      assert (T : mem 64 (c0 :: t) = true) by (unfold mem; apply existsb_exists; exists 64; split; [exact Hy|reflexivity]).
      rewrite T in H64. discriminate.
  Qed.

  (* HtmlSpan.pattern at a "<" followed by something that begins none of its six alternatives *)
  Lemma hs_fails_first s k c0 t : aft s = 60 :: c0 :: t ->
    char_ok (mkFlags true false) LETTER c0 = false -> (c0 =? 47) = false -> (c0 =? 33) = false -> (c0 =? 63) = false ->
    m (mkFlags true false) re_span_token_HtmlSpan_pattern s k = None.
  Proof.
    intros Ha Hc0 C47 C33 C63. destruct hs_shape as [-> _]. set (fl := mkFlags true false).
    assert (L60 : forall X, m fl X (advance s 60 (c0 :: t)) k = None -> m fl (Seq LBK (Seq (Lit 60) X)) s k = None).
    { intros X H. unfold LBK. apply look_neg_none_f. rewrite m_seq, (m_char fl (Lit 60) s 60 _ _ eq_refl Ha). cbn [char_ok Z.eqb Pos.eqb]. exact H. }
    assert (Lit2 : forall d X, (c0 =? d) = false -> m fl (Seq (Lit d) X) (advance s 60 (c0 :: t)) k = None).
    { intros d X Hd. rewrite m_seq. rewrite (m_char fl (Lit d) _ c0 t _ eq_refl) by reflexivity. cbn [char_ok]. rewrite Hd. reflexivity. }
    rewrite m_alt, (L60 _).
    2:{ rewrite m_seq. rewrite (m_char fl LETTER _ c0 t _ eq_refl) by reflexivity. fold fl in Hc0. rewrite Hc0. reflexivity. }
    cbn [orelse]. rewrite m_alt, (L60 _ (Lit2 47 _ C47)). cbn [orelse].
    rewrite m_alt, (L60 _ (Lit2 33 _ C33)). cbn [orelse].
    rewrite m_alt, (L60 _ (Lit2 63 _ C63)). cbn [orelse].
    rewrite m_alt, (L60 _ (Lit2 33 _ C33)). cbn [orelse].
    apply (L60 _ (Lit2 33 _ C33)).
  Qed.
End AngFail.

(* ---- a finder whose pattern begins at "<" finds nothing in a text whose only "<" is one where the pattern fails ---- *)
Lemma finder_nothing fl r (p rest : str) :
  (forall c, In c p -> nomatch fl r c = true) ->
  (forall K, m fl r (mkMst (rev p) (60 :: rest) (slen p) []) K = None) ->
  needs r 60 = true -> mem 60 rest = false ->
  finditer fl r (p ++ 60 :: rest) = [].
Proof.
  intros Hp Hm Hn Hr. unfold finditer. apply finditer_from_none.
  set (s := p ++ 60 :: rest).
  assert (Ea : aft (start_at [] s) = s) by reflexivity. rewrite Ea.
  rewrite (search_skip fl r p s (start_at [] s) (60 :: rest)); [|reflexivity|exact Hp|unfold s; rewrite app_length; lia].
  set (u0 := adv_run (start_at [] s) p (60 :: rest)).
  assert (E0 : mkMst (bef u0) (aft u0) (pos u0) [] = mkMst (rev p) (60 :: rest) (slen p) []).
  { unfold u0, adv_run, start_at. cbn [bef aft pos grp]. rewrite app_nil_r. reflexivity. }
  assert (N : forall fuel, search_from fl r fuel false (advance u0 60 rest) = None).
  { intros fuel. apply (search_none fl r 60 Hn). cbn [aft advance]. exact Hr. }
  destruct (skipn (length p) s) as [|x fuel]; cbn [search_from]; rewrite E0, Hm; [reflexivity|].
  assert (Eb : aft u0 = 60 :: rest) by reflexivity. rewrite Eb. apply N.
Qed.

Definition is_letter (c : Z) : bool := ((65 <=? c) && (c <=? 90)) || ((97 <=? c) && (c <=? 122)).
Lemma letter_ok fl c : char_ok fl LETTER c = is_letter c.
Proof. unfold LETTER, is_letter. cbn [char_ok existsb citem_match]. rewrite xorb_false_l, orb_false_r. reflexivity. Qed.

(* a character of a destination between angle brackets *)
Definition adest_char (c : Z) : bool := negb (mem c triggers_a) && negb (c =? 60) && negb (c =? 62) && negb (c =? 64).
(* ... and its first character: what begins neither an autolink nor an HTML span, nor is stripped *)
Definition afirst (c : Z) : bool := negb (is_letter c) && negb (c =? 47) && negb (c =? 33) && negb (c =? 63) && negb (is_space_c c).

Lemma adest_no c d : mem c triggers_a = true \/ c = 60 \/ c = 62 \/ c = 64 -> forallb adest_char d = true -> mem c d = false.
Proof.
  intros Hc. induction d as [|x r IH]; [reflexivity|]. cbn [forallb]. intros H. apply andb_true_iff in H as [Hx Hr].
  unfold mem. cbn [existsb]. fold (mem c r). rewrite (IH Hr), orb_false_r.
  unfold adest_char in Hx. repeat rewrite andb_true_iff in Hx. destruct Hx as [[[H1 H2] H3] H4]. apply negb_true_iff in H1, H2, H3, H4.
  destruct (c =? x) eqn:E; [|reflexivity]. apply Z.eqb_eq in E. subst x.
  destruct Hc as [Hc|[->|[->| ->]]]; [rewrite Hc in H1; discriminate|discriminate|discriminate|discriminate].
Qed.

(* match_link_dest's loop over a destination in angle brackets *)
Lemma dest_angle_run : forall d i rest, forallb adest_char d = true -> dest_angle (d ++ 62 :: rest) i false = Some (i + slen d).
Proof.
  induction d as [|c d IH]; intros i rest H.
  - cbn [app dest_angle]. change (62 =? 92) with false. change (62 =? 10) with false. change (62 =? 60) with false. change (62 =? 62) with true.
    cbn [andb orb negb]. unfold slen. cbn [length Z.of_nat]. f_equal. lia.
  - cbn [forallb] in H. apply andb_true_iff in H as [Hc Hd]. unfold adest_char in Hc. repeat rewrite andb_true_iff in Hc. destruct Hc as [[[H1 H2] H3] H4].
    apply negb_true_iff in H1, H2, H3, H4.
    assert (H92 : c =? 92 = false) by (unfold mem, triggers_a in H1; cbn [existsb] in H1; apply orb_false_iff in H1 as [H1 _]; exact H1).
    assert (H10 : c =? 10 = false) by (unfold mem, triggers_a in H1; cbn [existsb] in H1; repeat (apply orb_false_iff in H1; destruct H1 as [? H1]); assumption).
    cbn [app dest_angle]. rewrite H92, H10, H2, H3. cbn [andb orb].
    rewrite (IH (i + 1) rest Hd). f_equal. unfold slen. cbn [length]. lia.
Qed.

Module Ang.
Section AngS.
  Variables (pre w : str) (c0 : Z) (d post : str) (fn : footnotes).
  Hypothesis Hpre : plain_text pre = true.
  Hypothesis Hw : plain_text w = true.
  Hypothesis Hpost : plain_text post = true.
  Hypothesis Hp64 : mem 64 post = false.
  Hypothesis Hwne : w <> [].
  Hypothesis Hc0 : afirst c0 = true.
  Hypothesis Hd : forallb adest_char (c0 :: d) = true.
  Hypothesis Hlast : is_space_c (last (c0 :: d) 0) = false.

  Let dest := c0 :: d.
  Let blob := [60] ++ dest ++ [62].
  Let s := pre ++ [91] ++ w ++ [93; 40] ++ blob ++ [41] ++ post.
  Let a := slen pre.
  Let b := a + 1 + slen w.
  Let off := b + 2.
  Let dg := off + 1 + slen dest.
  Let de := dg + 1.

  Lemma l_len : slen s = de + 1 + slen post.
  Proof. unfold s, blob, de, dg, off, b, a. rewrite !slen_app. unfold slen. cbn [length]. lia. Qed.
  Lemma l_a0 : 0 <= a.  Proof. unfold a, slen. lia. Qed.
  Lemma l_w0 : 0 < slen w.
  Proof. unfold slen. destruct (length w) eqn:El; [apply length_zero_iff_nil in El; contradiction|lia]. Qed.
  Lemma l_d0 : 0 < slen dest.  Proof. unfold dest, slen. cbn [length]. lia. Qed.
  Lemma l_p0 : 0 <= slen post.  Proof. unfold slen. lia. Qed.

  Lemma s_at_b : s = (pre ++ [91] ++ w) ++ 93 :: (40 :: blob ++ [41] ++ post).
  Proof. unfold s. rewrite <- !app_assoc. reflexivity. Qed.
  Lemma s_at_p : s = (pre ++ [91] ++ w ++ [93]) ++ 40 :: (blob ++ [41] ++ post).
  Proof. unfold s. rewrite <- !app_assoc. reflexivity. Qed.
  Lemma s_at_off : s = (pre ++ [91] ++ w ++ [93; 40]) ++ 60 :: (dest ++ 62 :: 41 :: post).
  Proof. unfold s, blob. rewrite <- !app_assoc. reflexivity. Qed.
  Lemma s_at_dest : s = (pre ++ [91] ++ w ++ [93; 40; 60]) ++ dest ++ 62 :: (41 :: post).
  Proof. unfold s, blob. rewrite <- !app_assoc. reflexivity. Qed.
  Lemma s_at_de : s = (pre ++ [91] ++ w ++ [93; 40] ++ blob) ++ 41 :: post.
  Proof. unfold s. rewrite <- !app_assoc. reflexivity. Qed.

  Lemma len_b : slen (pre ++ [91] ++ w) = b.
  Proof. unfold b, a. rewrite !slen_app. unfold slen. cbn [length]. lia. Qed.
  Lemma len_p : slen (pre ++ [91] ++ w ++ [93]) = b + 1.
  Proof. unfold b, a. rewrite !slen_app. unfold slen. cbn [length]. lia. Qed.
  Lemma len_off : slen (pre ++ [91] ++ w ++ [93; 40]) = off.
  Proof. unfold off, b, a. rewrite !slen_app. unfold slen. cbn [length]. lia. Qed.
  Lemma len_dest : slen (pre ++ [91] ++ w ++ [93; 40; 60]) = off + 1.
  Proof. unfold off, b, a. rewrite !slen_app. unfold slen. cbn [length]. lia. Qed.
  Lemma len_de : slen (pre ++ [91] ++ w ++ [93; 40] ++ blob) = de.
  Proof. unfold de, dg, off, b, a, blob. rewrite !slen_app. unfold slen. cbn [length]. lia. Qed.

  Lemma l_at_b : char_at s b = 93.
  Proof. rewrite s_at_b, <- len_b. apply char_at_mid. Qed.
  Lemma l_at_p : char_at s (b + 1) = 40.
  Proof. rewrite s_at_p, <- len_p. apply char_at_mid. Qed.
  Lemma l_at_off : char_at s off = 60.
  Proof. rewrite s_at_off, <- len_off. apply char_at_mid. Qed.
  Lemma l_at_de : char_at s de = 41.
  Proof. rewrite s_at_de, <- len_de. apply char_at_mid. Qed.

  Lemma l_paren : follows s b 40 = true.
  Proof.
    unfold follows. rewrite l_at_p. assert (b + 1 <? slen s = true) as -> by (apply Z.ltb_lt; rewrite l_len; unfold de, dg, off; pose proof l_d0; pose proof l_p0; lia). reflexivity.
  Qed.

  Lemma l_inner_w : substr s (a + 1) b = w.
  Proof.
    pose proof (substr_mid (pre ++ [91]) w ([93; 40] ++ blob ++ [41] ++ post)) as M.
    replace (slen (pre ++ [91])) with (a + 1) in M by (rewrite slen_app; reflexivity).
    replace (a + 1 + slen w) with b in M by (unfold b; lia).
    unfold s. replace (pre ++ [91] ++ w ++ [93; 40] ++ blob ++ [41] ++ post) with ((pre ++ [91]) ++ w ++ [93; 40] ++ blob ++ [41] ++ post) by (rewrite <- !app_assoc; reflexivity). exact M.
  Qed.

  Lemma l_bracket_text : substr s a (a + 1) = [91].
  Proof. pose proof (substr_mid pre [91] (w ++ [93; 40] ++ blob ++ [41] ++ post)) as M. fold a in M. exact M. Qed.

  Lemma l_dest_text : substr s (off + 1) dg = dest.
  Proof.
    pose proof (substr_mid (pre ++ [91] ++ w ++ [93; 40; 60]) dest (62 :: (41 :: post))) as M. rewrite len_dest in M. fold dg in M.
    rewrite s_at_dest. exact M.
  Qed.

  Definition LD : delim := mkDelim [91] 1 1 true a (a + 1) false false false.
  Lemma LD_eq : new_delim a (a + 1) s = LD.
  Proof. unfold new_delim. rewrite l_bracket_text. cbn [andb]. unfold LD. f_equal; lia. Qed.

  Lemma dest_found : match_link_dest s (b + 1) = Some (off, de, dest).
  Proof.
    unfold match_link_dest.
    assert (Esh : shift_whitespace s (b + 1 + 1) = off).
    { unfold shift_whitespace. replace (b + 1 + 1) with off by (unfold off; lia). rewrite s_at_off at 1. rewrite <- len_off at 1. rewrite drop_app_len.
      apply shift_ws_stop; [reflexivity|discriminate]. }
    rewrite Esh.
    assert (off =? slen s = false) as -> by (apply Z.eqb_neq; rewrite l_len; unfold de, dg; pose proof l_d0; pose proof l_p0; lia).
    rewrite l_at_off. cbn [Z.eqb Pos.eqb].
    assert (Edrop : drop (off + 1) s = dest ++ 62 :: (41 :: post)) by (rewrite s_at_dest at 1; rewrite <- len_dest; apply drop_app_len).
    rewrite Edrop, (dest_angle_run dest (off + 1) _ Hd). fold dg. rewrite l_dest_text. reflexivity.
  Qed.

  Lemma title_found : match_link_title s de = Some (de, de, []).
  Proof.
    unfold match_link_title.
    assert (Esh : shift_whitespace s de = de).
    { unfold shift_whitespace. rewrite s_at_de at 1. rewrite <- len_de at 1. rewrite drop_app_len. apply shift_ws_stop; [reflexivity|discriminate]. }
    rewrite Esh.
    assert (de =? slen s = false) as -> by (apply Z.eqb_neq; rewrite l_len; pose proof l_p0; lia).
    rewrite l_at_de. reflexivity.
  Qed.

  Definition the_ilink : mobj :=
    link_mobj false a (de + 1) (a + 1, b, w) (off, de, dest) (de, de, []) $"angle_uri" None [].

  Lemma ilink_found : match_link_image s b LD fn = Some the_ilink.
  Proof.
    unfold match_link_image. cbn [LD d_type d_start d_number].
    rewrite l_paren, l_inner_w, dest_found, title_found.
    assert (Esh : shift_whitespace s de = de).
    { unfold shift_whitespace. rewrite s_at_de at 1. rewrite <- len_de at 1. rewrite drop_app_len. apply shift_ws_stop; [reflexivity|discriminate]. }
    rewrite Esh.
    assert (de <? slen s = true) as -> by (apply Z.ltb_lt; rewrite l_len; pose proof l_p0; lia).
    rewrite l_at_de. cbn [andb Z.eqb Pos.eqb].
    rewrite l_at_off. assert (off <? de = true) as -> by (apply Z.ltb_lt; unfold de, dg; pose proof l_d0; lia).
    cbn [andb Z.eqb Pos.eqb]. rewrite Z.ltb_irrefl. reflexivity.
  Qed.

  Lemma find_ilink : find_link_image s b [LD] [] fn = (de, [], [the_ilink]).
  Proof.
    unfold find_link_image. change (Z.of_nat (length [LD]) - 1) with 0. change (length [LD]) with 1%nat.
    cbn [find_li_down]. change (nthd [LD] 0 dummy) with LD.
    change (is_bracket LD) with true. cbn [d_active LD negb]. cbv iota. rewrite ilink_found.
    assert (PE : process_emphasis s (Some 0) [LD] [] = ([], [])).
    { unfold process_emphasis. change (next_closer 0 [LD]) with (@None Z). destruct (3 * length s + 3)%nat; reflexivity. }
    rewrite PE. change (str_eqb (d_type LD) ($"[")) with true. cbv iota. unfold deactivate. cbn [Z.to_nat firstn skipn map app].
    unfold the_ilink, link_mobj. cbn [m_end]. replace (de + 1 - 1) with de by lia. reflexivity.
  Qed.

  Lemma ta_triggers c : mem c triggers_a = true -> mem c triggers = true.
  Proof.
    intros Hc. unfold mem, triggers_a, triggers in *. cbn [existsb] in *.
    repeat (apply orb_true_iff in Hc; destruct Hc as [Hc|Hc]); try discriminate; rewrite Hc; cbn [orb]; rewrite ?orb_true_r; reflexivity.
  Qed.

  Lemma l_no c : mem c triggers_a = true -> mem c s = false.
  Proof.
    intros Hc.
    assert (P : forall t, plain_text t = true -> mem c t = false) by (intros t Ht; apply plain_no; [apply ta_triggers; exact Hc|exact Ht]).
    assert (C4 : c <> 91 /\ c <> 93 /\ c <> 40 /\ c <> 41 /\ c <> 60 /\ c <> 62).
    { repeat split; intros ->; vm_compute in Hc; discriminate. }
    assert (PD : mem c dest = false) by (apply adest_no; [left; exact Hc|exact Hd]).
    unfold s, blob, mem. rewrite !existsb_app. fold (mem c pre). fold (mem c w). fold (mem c dest). fold (mem c post).
    rewrite (P pre Hpre), (P w Hw), (P post Hpost), PD. cbn [existsb orb].
    destruct C4 as (C1 & C2 & C3 & C5 & C6 & C7). apply Z.eqb_neq in C1, C2, C3, C5, C6, C7. rewrite C1, C2, C3, C5, C6, C7. reflexivity.
  Qed.

  Lemma l_no_code i : code_search s i = None.
  Proof.
    unfold code_search. apply (search_state_none _ _ 96); [vm_compute; reflexivity|]. unfold seek. cbn [aft].
    apply mem_drop. apply l_no. reflexivity.
  Qed.

  (* ---- the scanner ---- *)
  Lemma scan_ilink : exists st, scan_loop (S (S (length s))) s fn 0 None (mkScan [] [] false None false 0 []) = st /\
                                sc_ds st = [] /\ sc_ms st = [the_ilink] /\ sc_code st = [].
  Proof.
    assert (El : (S (S (length s)) = length pre + S (length w + S (length blob + 2 + (length post + 2))))%nat).
    { unfold s. rewrite !app_length. cbn [length]. lia. }
    rewrite El.
    set (st0 := mkScan [] [] false None false 0 []).
    rewrite (scan_inert_any s fn pre _ [] ([91] ++ w ++ [93; 40] ++ blob ++ [41] ++ post) st0 eq_refl (plain_inert pre Hpre)) by (repeat split).
    change (slen [] + slen pre) with (slen pre).
    rewrite (scan_bracket_step _ s fn pre (w ++ [93; 40] ++ blob ++ [41] ++ post) st0 eq_refl) by (repeat split).
    fold a. rewrite LD_eq. cbn [st0 sc_ds sc_ms sc_start sc_code app].
    set (st1 := mkScan [LD] [] false None false 0 []).
    replace (a + 1) with (slen (pre ++ [91])) by (rewrite slen_app; reflexivity).
    rewrite (scan_inert_any s fn w _ (pre ++ [91]) ([93; 40] ++ blob ++ [41] ++ post) st1); [|unfold s; rewrite <- !app_assoc; reflexivity|exact (plain_inert w Hw)|repeat split].
    replace (slen (pre ++ [91]) + slen w) with b by (unfold b, a; rewrite slen_app; unfold slen; cbn [length]; lia).
    (* the closing bracket *)
    cbn [scan_loop].
    assert (Hlt : b <? slen s = true) by (apply Z.ltb_lt; rewrite l_len; unfold de, dg, off; pose proof l_p0; pose proof l_d0; lia).
    rewrite Hlt. cbn [negb]. rewrite l_at_b. cbn [st1 sc_escaped sc_run sc_ds sc_ms sc_in_image sc_start sc_code andb negb orb Z.eqb Pos.eqb].
    rewrite find_ilink. rewrite l_no_code.
    set (st2 := mkScan [] [the_ilink] false None false 0 []).
    assert (Hcase : post = [] \/ post <> []) by (destruct post; [left; reflexivity|right; discriminate]).
    destruct Hcase as [Ep|Ep].
    - assert (Lp : length post = 0%nat) by (rewrite Ep; reflexivity). rewrite Lp.
      assert (Ee : de + 1 = slen s) by (rewrite l_len, Ep; unfold slen; cbn [length]; lia).
      rewrite Ee. replace (length blob + 2 + (0 + 2))%nat with (S (length blob + 3)) by lia. rewrite scan_end. cbn [st2 sc_run]. eexists. split; [reflexivity|]. repeat split.
    - replace (de + 1) with (slen (pre ++ [91] ++ w ++ [93; 40] ++ blob ++ [41])) by (rewrite <- len_de, !slen_app; unfold slen; cbn [length]; lia).
      replace (length blob + 2 + (length post + 2))%nat with (length post + (length blob + 4))%nat by lia.
      rewrite (scan_inert_any s fn post _ (pre ++ [91] ++ w ++ [93; 40] ++ blob ++ [41]) [] st2); [|unfold s; rewrite app_nil_r, <- !app_assoc; reflexivity|exact (plain_inert post Hpost)|repeat split].
      replace (slen (pre ++ [91] ++ w ++ [93; 40] ++ blob ++ [41]) + slen post) with (slen s) by (rewrite l_len, <- len_de, !slen_app; unfold slen; cbn [length]; lia).
      replace (length blob + 4)%nat with (S (length blob + 3)) by lia.
      rewrite scan_end. cbn [st2 sc_run]. eexists. split; [reflexivity|]. repeat split.
  Qed.

  Theorem core_finds_ilink : find_core_tokens s fn = ([the_ilink], []).
  Proof.
    unfold find_core_tokens. rewrite l_no_code. destruct scan_ilink as (st & -> & Hds & Hm & Hc). rewrite Hds, Hm, Hc.
    unfold process_emphasis. change (next_closer 0 []) with (@None Z). destruct (3 * length s + 3)%nat; reflexivity.
  Qed.

  (* ---- the two finders that begin at "<" ---- *)
  Let p0 := pre ++ [91] ++ w ++ [93; 40].
  Let rest0 := dest ++ 62 :: 41 :: post.
  Lemma s_split : s = p0 ++ 60 :: rest0.
  Proof. unfold s, p0, rest0, blob. rewrite <- !app_assoc. reflexivity. Qed.

  Lemma p0_chars c : In c p0 -> (c =? 92) = false /\ (c =? 60) = false.
  Proof.
    intros Hin.
    assert (G : forall x, mem x triggers = true -> (x =? 91) = false -> (x =? 93) = false -> (x =? 40) = false -> (c =? x) = false).
    { intros x Hx X1 X2 X3. destruct (c =? x) eqn:E; [|reflexivity]. apply Z.eqb_eq in E. subst c. exfalso.
      unfold p0 in Hin. repeat (apply in_app_or in Hin; destruct Hin as [Hin|Hin]).
      - pose proof (plain_no x pre Hx Hpre) as T. assert (T' : mem x pre = true) by (unfold mem; apply existsb_exists; exists x; split; [exact Hin|apply Z.eqb_refl]). rewrite T' in T. discriminate.
      - destruct Hin as [<-|[]]. discriminate.
      - pose proof (plain_no x w Hx Hw) as T. assert (T' : mem x w = true) by (unfold mem; apply existsb_exists; exists x; split; [exact Hin|apply Z.eqb_refl]). rewrite T' in T. discriminate.
      - destruct Hin as [<-|[<-|[]]]; discriminate. }
    split; apply G; reflexivity.
  Qed.

  Lemma rest0_no60 : mem 60 rest0 = false.
  Proof.
    unfold rest0, mem. rewrite existsb_app. fold (mem 60 dest). rewrite (adest_no 60 dest (or_intror (or_introl eq_refl)) Hd). cbn [existsb orb Z.eqb Pos.eqb].
    fold (mem 60 post). apply plain_no; [reflexivity|exact Hpost].
  Qed.

  Lemma c0_facts : is_letter c0 = false /\ (c0 =? 47) = false /\ (c0 =? 33) = false /\ (c0 =? 63) = false /\ is_space_c c0 = false.
  Proof.
    pose proof Hc0 as H. unfold afirst in H. repeat rewrite andb_true_iff in H. destruct H as [[[[H1 H2] H3] H4] H5].
    apply negb_true_iff in H1, H2, H3, H4, H5. tauto.
  Qed.

  Lemma auto_nothing : finditer fl_span_token_AutoLink_pattern re_span_token_AutoLink_pattern s = [].
  Proof.
    rewrite s_split. destruct al_shape as [_ Efl]. rewrite Efl. apply finder_nothing.
    - intros c Hc. destruct (p0_chars c Hc) as [A B]. pose proof (al_nomatch c A B) as T. rewrite Efl in T. exact T.
    - intros K. apply (al_fails _ K c0 (d ++ 62 :: 41 :: post)); [reflexivity| |].
      + rewrite letter_ok. apply c0_facts.
      + change (c0 :: d ++ 62 :: 41 :: post) with (dest ++ 62 :: 41 :: post). unfold mem. rewrite existsb_app. fold (mem 64 dest).
        rewrite (adest_no 64 dest (or_intror (or_intror (or_intror eq_refl))) Hd). cbn [existsb orb Z.eqb Pos.eqb]. exact Hp64.
    - vm_compute. reflexivity.
    - exact rest0_no60.
  Qed.

  Lemma html_nothing : finditer fl_span_token_HtmlSpan_pattern re_span_token_HtmlSpan_pattern s = [].
  Proof.
    rewrite s_split. destruct hs_shape as [_ Efl]. rewrite Efl. apply finder_nothing.
    - intros c Hc. destruct (p0_chars c Hc) as [A B]. pose proof (hs_nomatch c B) as T. rewrite Efl in T. exact T.
    - intros K. destruct c0_facts as (F1 & F2 & F3 & F4 & _).
      apply (hs_fails_first _ K c0 (d ++ 62 :: 41 :: post)); [reflexivity|rewrite letter_ok; exact F1|exact F2|exact F3|exact F4].
    - vm_compute. reflexivity.
    - exact rest0_no60.
  Qed.

  Lemma find_all_ilink : forall types, forallb kind_quiet_a types = true ->
    find_all types s fn [] = flat_map (fun kd => match kd with SK_CoreTokens => [CCore the_ilink] | _ => [] end) types.
  Proof.
    induction types as [|kd ts IH]; intros Hq; [reflexivity|].
    cbn [forallb] in Hq. apply andb_true_iff in Hq as [Hkq Hts]. cbn [find_all flat_map].
    assert (F : match kd with SK_CoreTokens | SK_InlineCode | SK_RawText | SK_AutoLink | SK_HtmlSpan => True | _ => finditer (snd (re_of kd)) (fst (re_of kd)) s = [] end).
    { destruct kd; try exact I; cbn [kind_quiet_a] in Hkq; apply existsb_exists in Hkq as (c & Hin & Hn);
        (apply (finditer_none _ _ c s Hn); apply l_no; unfold mem; apply existsb_exists; exists c; split; [exact Hin|apply Z.eqb_refl]). }
    destruct kd; cbn [find_kind];
      try (rewrite core_finds_ilink; cbn [map app]; f_equal; apply IH; exact Hts);
      try (cbn [map app]; apply IH; exact Hts);
      try (cbn [re_of fst snd]; rewrite auto_nothing; cbn [map app]; apply IH; exact Hts);
      try (cbn [re_of fst snd]; rewrite html_nothing; cbn [map app]; apply IH; exact Hts);
      (cbn [re_of fst snd] in F |- *; rewrite F; cbn [map app]; apply IH; exact Hts).
  Qed.

  Definition ilink_tok : tok := Link (mkLink (escape_strip (strip dest)) (escape_strip []) $"angle_uri" None []) [RawText w].

  Theorem tokenize_inner_ilink types : forallb kind_quiet_a (removelast types) = true ->
    filter (fun kd => match kd with SK_CoreTokens => true | _ => false end) (removelast types) = [SK_CoreTokens] ->
    tokenize_inner types fn s = raw_if pre ++ [ilink_tok] ++ raw_if post.
  Proof.
    intros Hq Hc. unfold tokenize_inner. rewrite (find_all_ilink _ Hq).
    assert (Es : flat_map (fun kd => match kd with SK_CoreTokens => [CCore the_ilink] | _ => [] end) (removelast types) = [CCore the_ilink]).
    { clear Hq. revert Hc. generalize (removelast types) as ts.
      assert (G : forall ts n, length (filter (fun kd => match kd with SK_CoreTokens => true | _ => false end) ts) = n ->
                flat_map (fun kd => match kd with SK_CoreTokens => [CCore the_ilink] | _ => [] end) ts = repeat (CCore the_ilink) n).
      { induction ts as [|kd ts IH]; intros n Hn; [cbn in Hn; subst n; reflexivity|]. cbn [flat_map filter] in *.
        destruct kd; try (cbn [app]; apply IH; exact Hn). destruct n as [|n]; [discriminate|]. cbn [length] in Hn. cbn [repeat app]. f_equal. apply IH. lia. }
      intros ts H. rewrite (G ts 1%nat) by (rewrite H; reflexivity). reflexivity. }
    rewrite Es.
    cbn [number_from map fst snd cand_of sk_parse_group field_span the_ilink link_mobj m_fields nth_error m_start m_end sk_precedence sk_parse_inner].
    pose proof l_len as Hs. pose proof l_a0 as Ha0. pose proof l_p0 as Hp0. pose proof l_w0 as Hw0. pose proof l_d0 as Hd0.
    unfold tokenize, SpanTokenizer.make_tokens, make_tokens_with.
    cbn [sort_cands fold_right insert_stable buffer_rev eval_loop last_end pc ce mk_rev cs make inner ps pe app rev].
    unfold make_tokens_with. cbn [last_end mk_rev app rev].
    assert (a + 1 =? b = false) as -> by (apply Z.eqb_neq; unfold b; lia).
    assert (Gb : (if a >? 0 then [ORaw 0 a] else []) = match pre with [] => [] | _ => [ORaw 0 a] end) by (unfold a; apply gap_before).
    assert (Ga : (if de + 1 =? slen s then [] else [ORaw (de + 1) (slen s)]) = match post with [] => [] | _ => [ORaw (de + 1) (slen s)] end) by (rewrite Hs; apply gap_after).
    rewrite Gb, Ga. rewrite rev_app_distr. cbn [rev app]. rewrite rev_app_distr. cbn [rev app].
    rewrite !map_app. cbn [map build_otok cid src_at Z.to_nat nth].
    rewrite l_inner_w, (unescape_plain w Hw).
    assert (Tk : build_inner (CCore the_ilink) [RawText w] = ilink_tok) by reflexivity.
    rewrite Tk. rewrite <- app_assoc. cbn [app]. f_equal; [|f_equal].
    - apply raw_gap. cbn [build_otok]. f_equal.
      pose proof (substr_mid [] pre ([91] ++ w ++ [93; 40] ++ blob ++ [41] ++ post)) as M. cbn [app] in M. unfold slen at 1 2 in M. cbn [length Z.of_nat] in M.
      fold a in M. replace (0 + a) with a in M by lia. unfold s. cbn [app]. rewrite M. apply unescape_plain. exact Hpre.
    - apply raw_gap. cbn [build_otok]. f_equal.
      pose proof (substr_mid (pre ++ [91] ++ w ++ [93; 40] ++ blob ++ [41]) post []) as M.
      replace (slen (pre ++ [91] ++ w ++ [93; 40] ++ blob ++ [41])) with (de + 1) in M by (rewrite <- len_de, !slen_app; unfold slen; cbn [length]; lia).
      rewrite app_nil_r in M. replace ((pre ++ [91] ++ w ++ [93; 40] ++ blob ++ [41]) ++ post) with s in M by (unfold s; rewrite <- !app_assoc; reflexivity).
      rewrite Hs. rewrite M. apply unescape_plain. exact Hpost.
  Qed.
End AngS.
End Ang.

(* ---- the statement with computable hypotheses ---- *)
Definition alink_ok (pre w : str) (c0 : Z) (d post : str) : bool :=
  plain_text pre && plain_text w && plain_text post && negb (mem 64 post) && (match w with [] => false | _ => true end) &&
  afirst c0 && forallb adest_char (c0 :: d) && negb (is_space_c (last (c0 :: d) 0)).

Definition alink_of (w dest : str) : tok := Link (mkLink dest [] $"angle_uri" None []) [RawText w].

Theorem angle_link_in_sentence types fn pre w c0 d post :
  ref_spans types = true -> auto_spans types = true -> alink_ok pre w c0 d post = true ->
  tokenize_inner types fn (pre ++ [91] ++ w ++ [93; 40] ++ [60] ++ (c0 :: d) ++ [62] ++ [41] ++ post) = raw_if pre ++ [alink_of w (c0 :: d)] ++ raw_if post.
Proof.
  intros Hs Ha Ho. unfold ref_spans in Hs. apply andb_true_iff in Hs as [_ Hc]. unfold auto_spans in Ha. apply andb_true_iff in Ha as [Hq _].
  unfold alink_ok in Ho. repeat rewrite andb_true_iff in Ho. destruct Ho as [[[[[[[H1 H2] H3] H4] H5] H6] H7] H8].
  apply negb_true_iff in H4, H8.
  assert (Hwne : w <> []) by (destruct w; [discriminate|discriminate]).
  assert (Hc' : filter (fun kd => match kd with SK_CoreTokens => true | _ => false end) (removelast types) = [SK_CoreTokens]).
  { destruct (filter _ _) as [|[] [|? ?]]; try discriminate. reflexivity. }
  pose proof (Ang.tokenize_inner_ilink pre w c0 d post fn H1 H2 H3 H4 Hwne H6 H7 types Hq Hc') as T.
  replace (pre ++ [91] ++ w ++ [93; 40] ++ [60] ++ (c0 :: d) ++ [62] ++ [41] ++ post)
    with (pre ++ [91] ++ w ++ [93; 40] ++ ([60] ++ (c0 :: d) ++ [62]) ++ [41] ++ post) by (rewrite <- !app_assoc; reflexivity).
  rewrite T. unfold Ang.ilink_tok, alink_of.
  assert (F5 : is_space_c c0 = false).
  { unfold afirst in H6. repeat rewrite andb_true_iff in H6. destruct H6 as [_ H6]. apply negb_true_iff in H6. exact H6. }
  rewrite (strip_solid c0 d F5 H8).
  rewrite (escape_strip_quiet (c0 :: d)); [reflexivity| |]; (apply adest_no; [left; reflexivity|exact H7]).
Qed.

Example angle_instance :
  (alink_ok ($"see ") ($"the site") 46 ($"/my docs/a (b).html") ($", ok") = true) /\
  (alink_ok [] ($"x") 35 ($"part one") [] = true) /\ (alink_ok [] ($"x") 50 ($"024/q r") ($".") = true) /\
  (alink_ok [] ($"x") 104 ($"ttp://a b") [] = false) /\ (alink_ok [] ($"x") 47 ($"a") [] = false) /\ (alink_ok [] ($"x") 46 ($"/a ") [] = false) /\
  (alink_ok [] ($"x") 46 ($"/a@b") [] = false) /\ (alink_ok [] ($"x") 46 ($"/a>b") [] = false) /\ (alink_ok [] ($"x") 46 ($"/a") ($" me@ex.am") = false).
Proof. vm_compute. repeat split; reflexivity. Qed.
