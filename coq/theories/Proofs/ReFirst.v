(* A first-character analysis of regular expressions, proved sound against the
   backtracking matcher of Re/ReMatch.v.

     nomatch r c = true  ->  on every state whose next character is c, matching r
                             fails whatever the continuation is
     stuck r c   = true  ->  on such a state, r consults its continuation only on
                             states with the same remaining text (r consumes nothing)

   The block-structure theorems (C04, C05, C14) use it to show, for the patterns
   REGENERATED from /repo, that a line beginning with a given character cannot open
   a given kind of block: the side conditions are evaluated by vm_compute on
   Gen/GenRegex.v, so a pattern edited to accept such a line breaks them. *)
From Coq Require Import ZArith List Bool Lia.
From Mistletoe Require Import Base.Sx Gen.GenTables Re.ReMatch.
Import ListNotations.
Local Open Scope Z_scope.

Section First.
  Variable fl : flags.

  (* (nomatch, stuck) *)
  Fixpoint fa (r : re) (c : Z) : bool * bool :=
    match r with
    | Eps | Bol | Eol | Look _ _ _ _ => (false, true)
    | Lit _ | NotLit _ | Any | Set_ _ _ => let b := negb (char_ok fl r c) in (b, b)
    | Seq a b =>
      let '(na, sa) := fa a c in
      let '(nb, sb) := fa b c in
      (na || (sa && nb), na || (sa && sb))
    | Alt a b =>
      let '(na, sa) := fa a c in
      let '(nb, sb) := fa b c in
      (na && nb, sa && sb)
    | Rep _ mn _ r' => let '(n, s) := fa r' c in ((match mn with O => false | S _ => true end) && n, s)
    | Grp _ r' => fa r' c
    | Bref _ => (false, false)
    end.

  Definition nomatch (r : re) (c : Z) : bool := fst (fa r c).
  Definition stuck (r : re) (c : Z) : bool := snd (fa r c).

  Lemma orelse_none {A} (y : unit -> option A) : orelse None y = y tt.
  Proof. reflexivity. Qed.

  (* a continuation that always fails makes the match fail *)
  Lemma loop_none body g mn mx k :
    (forall s k', (forall s', k' s' = None) -> body s k' = None) ->
    (forall s', k s' = None) ->
    forall fuel cnt s, loop body g mn mx k fuel cnt s = None.
  Proof.
    intros Hb Hk. induction fuel as [|x fuel IH]; intros cnt s; cbn [loop].
    - destruct (Nat.ltb cnt mn); [reflexivity|apply Hk].
    - assert (More : (if under mx cnt
                      then body s (fun s' => if Nat.leb mn cnt && (pos s' =? pos s) then None else loop body g mn mx k fuel (S cnt) s')
                      else None) = None).
      { destruct (under mx cnt); [|reflexivity]. apply Hb. intros s'. destruct (Nat.leb mn cnt && (pos s' =? pos s)); [reflexivity|apply IH]. }
      destruct (Nat.ltb cnt mn); [exact More|].
      destruct g; rewrite More.
      + apply Hk.
      + rewrite Hk. reflexivity.
  Qed.

  Lemma m_none : forall r s k, (forall s', k s' = None) -> m fl r s k = None.
  Proof.
    induction r as [|c|c| |neg items|a IHa b IHb|a IHa b IHb|g mn mx r IHr|n r IHr|n|ahead neg w r IHr| |]; intros s k Hk; cbn [m].
    - apply Hk.
    - destruct (aft s) as [|d t]; [reflexivity|]. destruct (char_ok fl (Lit c) d); [apply Hk|reflexivity].
    - destruct (aft s) as [|d t]; [reflexivity|]. destruct (char_ok fl (NotLit c) d); [apply Hk|reflexivity].
    - destruct (aft s) as [|d t]; [reflexivity|]. destruct (char_ok fl Any d); [apply Hk|reflexivity].
    - destruct (aft s) as [|d t]; [reflexivity|]. destruct (char_ok fl (Set_ neg items) d); [apply Hk|reflexivity].
    - apply IHa. intros s'. apply IHb. exact Hk.
    - rewrite IHa by exact Hk. rewrite orelse_none. apply IHb. exact Hk.
    - apply loop_none; [|exact Hk]. intros s0 k' Hk'. apply IHr. exact Hk'.
    - apply IHr. intros s'. apply Hk.
    - destruct (lookup_grp n (grp s)) as [[a b]|]; [|reflexivity]. destruct (eat (segment s a b) s); [apply Hk|reflexivity].
    - destruct (if ahead then _ else _); destruct neg; try reflexivity; apply Hk.
    - destruct (at_bol fl s); [apply Hk|reflexivity].
    - destruct (at_eol fl s); [apply Hk|reflexivity].
  Qed.

  (* the loop consults k only on states with the same remaining text, if its body does *)
  Lemma loop_stuck body g mn mx k k' (rest : str) :
    (forall s k1 k2, aft s = rest -> (forall s', aft s' = rest -> k1 s' = k2 s') -> body s k1 = body s k2) ->
    (forall s', aft s' = rest -> k s' = k' s') ->
    forall fuel cnt s, aft s = rest -> loop body g mn mx k fuel cnt s = loop body g mn mx k' fuel cnt s.
  Proof.
    intros Hb Hk. induction fuel as [|x fuel IH]; intros cnt s Hs; cbn [loop].
    - destruct (Nat.ltb cnt mn); [reflexivity|apply Hk; exact Hs].
    - assert (More : (if under mx cnt
                      then body s (fun s' => if Nat.leb mn cnt && (pos s' =? pos s) then None else loop body g mn mx k fuel (S cnt) s')
                      else None) =
                     (if under mx cnt
                      then body s (fun s' => if Nat.leb mn cnt && (pos s' =? pos s) then None else loop body g mn mx k' fuel (S cnt) s')
                      else None)).
      { destruct (under mx cnt); [|reflexivity]. apply Hb; [exact Hs|]. intros s' Hs'.
        destruct (Nat.leb mn cnt && (pos s' =? pos s)); [reflexivity|apply IH; exact Hs']. }
      destruct (Nat.ltb cnt mn); [exact More|].
      destruct g; rewrite More, (Hk s Hs); reflexivity.
  Qed.

  Definition nomatch_at (r : re) (c : Z) : Prop :=
    forall s k t, aft s = c :: t -> m fl r s k = None.
  Definition stuck_at (r : re) (c : Z) : Prop :=
    forall s k k' t, aft s = c :: t -> (forall s', aft s' = c :: t -> k s' = k' s') -> m fl r s k = m fl r s k'.

  Lemma nomatch_stuck r c : nomatch_at r c -> stuck_at r c.
  Proof. intros H s k k' t Hs _. rewrite (H s k t Hs), (H s k' t Hs). reflexivity. Qed.

  Lemma char_case r c :
    (forall s k, m fl r s k = match aft s with d :: t => if char_ok fl r d then k (advance s d t) else None | [] => None end) ->
    (negb (char_ok fl r c) = true -> nomatch_at r c) /\ (negb (char_ok fl r c) = true -> stuck_at r c).
  Proof.
    intros Hm. assert (N : negb (char_ok fl r c) = true -> nomatch_at r c).
    { intros H s k t Hs. rewrite Hm, Hs. apply negb_true_iff in H. rewrite H. reflexivity. }
    split; [exact N|]. intros H. apply nomatch_stuck. apply N. exact H.
  Qed.

  Theorem fa_sound : forall r c,
    (nomatch r c = true -> nomatch_at r c) /\ (stuck r c = true -> stuck_at r c).
  Proof.
    unfold nomatch, stuck.
    induction r as [|d|d| |neg items|a IHa b IHb|a IHa b IHb|g mn mx r IHr|n r IHr|n|ahead neg w r IHr| |]; intros c; cbn [fa fst snd].
    - split; [discriminate|]. intros _ s k k' t Hs Hk. cbn [m]. apply Hk. exact Hs.
    - apply char_case. reflexivity.
    - apply char_case. reflexivity.
    - apply char_case. reflexivity.
    - apply char_case. reflexivity.
    - destruct (IHa c) as [Na Sa]. destruct (IHb c) as [Nb Sb].
      destruct (fa a c) as [na sa]. destruct (fa b c) as [nb sb]. cbn [fst snd] in *.
      assert (NN : na || sa && nb = true -> nomatch_at (Seq a b) c).
      { intros H s k t Hs. cbn [m]. apply orb_true_iff in H as [H|H].
        - apply (Na H s _ t Hs).
        - apply andb_true_iff in H as [H1 H2].
          rewrite (Sa H1 s _ (fun _ => None) t Hs).
          + apply m_none. reflexivity.
          + intros s' Hs'. apply (Nb H2 s' k t Hs'). }
      split; [exact NN|].
      intros H. apply orb_true_iff in H as [H|H].
      + apply nomatch_stuck. apply NN. rewrite H. reflexivity.
      + apply andb_true_iff in H as [H1 H2]. intros s k k' t Hs Hk. cbn [m].
        apply (Sa H1 s _ _ t Hs). intros s' Hs'. apply (Sb H2 s' k k' t Hs'). exact Hk.
    - destruct (IHa c) as [Na Sa]. destruct (IHb c) as [Nb Sb].
      destruct (fa a c) as [na sa]. destruct (fa b c) as [nb sb]. cbn [fst snd] in *.
      split; intros H; apply andb_true_iff in H as [H1 H2].
      + intros s k t Hs. cbn [m]. rewrite (Na H1 s k t Hs). rewrite orelse_none. apply (Nb H2 s k t Hs).
      + intros s k k' t Hs Hk. cbn [m]. rewrite (Sa H1 s k k' t Hs Hk), (Sb H2 s k k' t Hs Hk). reflexivity.
    - destruct (IHr c) as [Nr Sr]. destruct (fa r c) as [nr sr]. cbn [fst snd] in *.
      split.
      + intros H. apply andb_true_iff in H as [H1 H2]. destruct mn as [|mn]; [discriminate|].
        intros s k t Hs. cbn [m repeat app loop]. replace (Nat.ltb 0 (S mn)) with true by reflexivity.
        destruct (under mx 0); [|reflexivity]. apply (Nr H2 s _ t Hs).
      + intros H s k k' t Hs Hk. cbn [m].
        apply (loop_stuck (m fl r) g mn mx k k' (c :: t)); [|exact Hk|exact Hs].
        intros s0 k1 k2 Hs0 Hk12. apply (Sr H s0 k1 k2 t Hs0). exact Hk12.
    - destruct (IHr c) as [Nr Sr]. split.
      + intros H s k t Hs. cbn [m]. apply (Nr H s _ t Hs).
      + intros H s k k' t Hs Hk. cbn [m]. apply (Sr H s _ _ t Hs). intros s' Hs'. apply Hk. exact Hs'.
    - split; discriminate.
    - split; [discriminate|]. intros _ s k k' t Hs Hk. cbn [m].
      destruct (if ahead then _ else _); destruct neg; try reflexivity; apply Hk; exact Hs.
    - split; [discriminate|]. intros _ s k k' t Hs Hk. cbn [m]. destruct (at_bol fl s); [apply Hk; exact Hs|reflexivity].
    - split; [discriminate|]. intros _ s k k' t Hs Hk. cbn [m]. destruct (at_eol fl s); [apply Hk; exact Hs|reflexivity].
  Qed.

  Corollary nomatch_sound r c s k t : nomatch r c = true -> aft s = c :: t -> m fl r s k = None.
  Proof. intros H Hs. exact (proj1 (fa_sound r c) H s k t Hs). Qed.

  (* the entry points, on text that begins with c *)
  Corollary match_here_none r c t bef0 : nomatch r c = true -> match_here fl r (start_at bef0 (c :: t)) = None.
  Proof. intros H. unfold match_here. eapply nomatch_sound; [exact H|reflexivity]. Qed.
  Corollary fullmatch_here_none r c t bef0 : nomatch r c = true -> fullmatch_here fl r (start_at bef0 (c :: t)) = None.
  Proof. intros H. unfold fullmatch_here. eapply nomatch_sound; [exact H|reflexivity]. Qed.
End First.
