(* C05, extension of Proofs/Independence.v: the blocks of A before its (closed) last block may
   also be indented code, fenced code and HTML blocks - each such reader, when a non-blank
   line of A follows what it consumed, has stopped at a line of A and so cannot see what
   follows A.  (Lists before the last block are still outside the theorem.) *)
From Coq Require Import ZArith List Bool Lia.
From Mistletoe Require Import Base.Sx Base.PyStr Base.PyText Gen.GenTables Gen.GenRegex Gen.GenConfig Re.ReMatch
     Model.CoreTokens Model.Block Proofs.BlockProgress Proofs.LineTags Proofs.Independence.
Import ListNotations.
Local Open Scope Z_scope.

Definition has_nonblank (l : list str) : bool := existsb (fun x => negb (is_blank x)) l.

Definition leafy_pre (p : pre) : bool :=
  match p with PBlockCode _ _ | PCodeFence _ _ _ _ _ _ | PHtmlBlock _ _ => true | _ => false end.
Definition leafy_kind (k : block_kind) : bool :=
  match k with BK_BlockCode | BK_CodeFence | BK_HtmlBlock => true | _ => false end.

(* what is required of one step of the loop over A: a closed block, or a leaf block after which A goes on *)
Definition step_ok (p : pre) (c : nat) (X : list str) : bool :=
  closed_pre p || (leafy_pre p && has_nonblank (skipn c X)).

Lemma skipn_step {A} (c tk : nat) (l : A) (Y : list A) :
  (tk + 1 <= c)%nat -> skipn (c - tk) (l :: Y) = skipn (c - (tk + 1)) Y.
Proof. intros H. replace (c - tk)%nat with (S (c - (tk + 1)))%nat by lia. reflexivity. Qed.

Section Readers.
  Variable B : list str.

  Lemma blockcode_loop_app : forall Y buf tk tr r c,
    (tr <= tk)%nat -> blockcode_loop Y buf tk tr = (r, c) -> has_nonblank (skipn (c - tk) Y) = true ->
    blockcode_loop (Y ++ NL :: B) buf tk tr = (r, c).
  Proof.
    induction Y as [|l Y IH]; intros buf tk tr r c Ht H Hn.
    - destruct (c - tk)%nat; discriminate.
    - cbn [app blockcode_loop] in *. destruct (is_blank l) eqn:Eb.
      + apply IH; [destruct (str_eqb l [10]); lia|exact H|].
        destruct (Nat.le_gt_cases (tk + 1) c) as [Hc|Hc].
        * rewrite skipn_step in Hn by exact Hc. replace (c - S tk)%nat with (c - (tk + 1))%nat by lia. exact Hn.
        * replace (c - tk)%nat with 0%nat in Hn by lia. replace (c - S tk)%nat with 0%nat by lia.
          cbn [skipn has_nonblank existsb] in *. rewrite Eb in Hn. exact Hn.
      + destruct (negb (startswith $"    " (tabs_to_spaces_once l))); [exact H|].
        pose proof (blockcode_loop_progress _ _ _ _ _ _ (Nat.le_0_l _) H) as P.
        apply IH; [lia|exact H|]. rewrite skipn_step in Hn by lia. replace (c - S tk)%nat with (c - (tk + 1))%nat by lia. exact Hn.
  Qed.

  Lemma fence_loop_app : forall Y indent leader buf tk r c,
    fence_loop Y indent leader buf tk = (r, c) -> has_nonblank (skipn (c - tk) Y) = true ->
    fence_loop (Y ++ NL :: B) indent leader buf tk = (r, c).
  Proof.
    induction Y as [|l Y IH]; intros indent leader buf tk r c H Hn.
    - destruct (c - tk)%nat; discriminate.
    - cbn [app fence_loop] in *. destruct (_ && _); [exact H|].
      pose proof (fence_loop_progress _ _ _ _ _ _ _ H) as P.
      apply IH; [exact H|]. rewrite skipn_step in Hn by lia. replace (c - S tk)%nat with (c - (tk + 1))%nat by lia. exact Hn.
  Qed.

  Lemma html_loop_app : forall Y ec buf tk r c,
    html_loop Y ec buf tk = (r, c) -> (ec = None \/ has_nonblank (skipn (c - tk) Y) = true) ->
    html_loop (Y ++ NL :: B) ec buf tk = (r, c).
  Proof.
    induction Y as [|l Y IH]; intros ec buf tk r c H Hn.
    - cbn [app html_loop] in *. destruct ec as [e|].
      + destruct Hn as [Hn|Hn]; [discriminate|]. destruct (c - tk)%nat; discriminate.
      + rewrite nl_blank. exact H.
    - cbn [app html_loop] in *. destruct ec as [e|].
      + destruct (contains e (casefold l)); [exact H|].
        pose proof (html_loop_progress _ _ _ _ _ _ H) as P.
        apply IH; [exact H|]. destruct Hn as [Hn|Hn]; [discriminate|]. right.
        rewrite skipn_step in Hn by lia. replace (c - S tk)%nat with (c - (tk + 1))%nat by lia. exact Hn.
      + destruct (is_blank l); [exact H|]. apply IH; [exact H|left; reflexivity].
  Qed.

  (* how many lines these readers consume *)
  Lemma blockcode_loop_bound : forall Y buf tk tr r c, blockcode_loop Y buf tk tr = (r, c) -> (c <= tk + length Y)%nat.
  Proof.
    induction Y as [|l Y IH]; intros buf tk tr r c H; cbn [blockcode_loop length] in *.
    - injection H as _ <-. lia.
    - destruct (is_blank l); [apply IH in H; lia|].
      destruct (negb _); [injection H as _ <-; lia|apply IH in H; lia].
  Qed.
  Lemma fence_loop_bound : forall Y indent leader buf tk r c, fence_loop Y indent leader buf tk = (r, c) -> (c <= tk + length Y)%nat.
  Proof.
    induction Y as [|l Y IH]; intros indent leader buf tk r c H; cbn [fence_loop length] in *.
    - injection H as _ <-. lia.
    - destruct (_ && _); [injection H as _ <-; lia|apply IH in H; lia].
  Qed.
  Lemma html_loop_bound : forall Y ec buf tk r c, html_loop Y ec buf tk = (r, c) -> (c <= tk + length Y)%nat.
  Proof.
    induction Y as [|l Y IH]; intros ec buf tk r c H; cbn [html_loop length] in *.
    - injection H as _ <-. lia.
    - destruct ec as [e|].
      + destruct (contains e (casefold l)); [injection H as _ <-; lia|apply IH in H; lia].
      + destruct (is_blank l); [injection H as _ <-; lia|apply IH in H; lia].
  Qed.
End Readers.

Section Level.
  Variable types : list block_kind.
  Variable rec : list str -> Z -> pstate -> list pre * bool * pstate.
  Variable B : list str.

  Lemma start_read_leafy k after ln st p c st' :
    start_read types rec k after ln st = Some (p, c, st') -> leafy_pre p = true -> leafy_kind k = true.
  Proof.
    destruct after as [|x X]; [discriminate|]. intros H Hp.
    destruct k; try reflexivity; cbn [start_read] in H; exfalso.
    - destruct (heading_start x) as [[[? ?] ?]|]; [|discriminate]. injection H as <- _ _. discriminate.
    - destruct (quote_start x); [|discriminate]. destruct (quote_lines types (x :: X)).
      destruct (rec _ _ _) as [[? ?] ?]. injection H as <- _ _. discriminate.
    - destruct (thematic_start x); [|discriminate]. injection H as <- _ _. discriminate.
    - destruct (list_start x); [|discriminate]. destruct (read_list _ _ _ (x :: X) _ _ _ _ _ _) as [[? ?] ?]. injection H as <- _ _. discriminate.
    - destruct (table_start x); [|discriminate]. destruct (table_read (x :: X)); [|discriminate]. injection H as <- _ _. discriminate.
    - destruct (footnote_start x); [|discriminate]. destruct (footnote_read (x :: X)) as [[? ?]|]; [|discriminate]. injection H as <- _ _. discriminate.
    - destruct (paragraph_start x); [|discriminate]. destruct (para_loop _ _ _ _ _) as [[? ?] []]; injection H as <- _ _; discriminate.
    - destruct (blankline_start x); [|discriminate]. injection H as <- _ _. discriminate.
    - destruct (footnote_start x); [|discriminate]. destruct (footnote_read (x :: X)) as [[? ?]|]; [|discriminate]. injection H as <- _ _. discriminate.
  Qed.

  Lemma start_read_leaf_app k x X ln st p c st' :
    leafy_kind k = true -> start_read types rec k (x :: X) ln st = Some (p, c, st') -> has_nonblank (skipn c (x :: X)) = true ->
    start_read types rec k (x :: X ++ NL :: B) ln st = Some (p, c, st') /\ (c <= length (x :: X))%nat /\ st' = st.
  Proof.
    intros Hk H Hn. destruct k; try discriminate; cbn [start_read] in *.
    - destruct (blockcode_start x); [|discriminate].
      unfold blockcode_read in *. destruct (blockcode_loop (x :: X) [] 0 0) as [buf n] eqn:E.
      injection H as <- <- <-.
      change (x :: X ++ NL :: B) with ((x :: X) ++ NL :: B).
      rewrite (blockcode_loop_app B (x :: X) [] 0%nat 0%nat buf n (Nat.le_refl _) E) by (rewrite Nat.sub_0_r; exact Hn).
      apply blockcode_loop_bound in E. repeat split; [cbn [length] in *; lia].
    - destruct (codefence_start x) as [[[[indent leader] info] lang]|]; [|discriminate].
      destruct (fence_loop X indent leader [] 1%nat) as [buf n] eqn:E. injection H as <- <- <-.
      pose proof (fence_loop_progress _ _ _ _ _ _ _ E) as P.
      assert (Hn' : has_nonblank (skipn (n - 1) X) = true).
      { destruct n as [|n]; [lia|]. cbn [skipn] in Hn. replace (S n - 1)%nat with n by lia. exact Hn. }
      rewrite (fence_loop_app B X indent leader [] 1%nat buf n E Hn').
      apply fence_loop_bound in E. repeat split; [cbn [length] in *; lia].
    - destruct (htmlblock_start x) as [[kk ec]|]; [|discriminate].
      destruct (html_loop (x :: X) ec [] 0%nat) as [buf n] eqn:E. injection H as <- <- <-.
      change (x :: X ++ NL :: B) with ((x :: X) ++ NL :: B).
      rewrite (html_loop_app B (x :: X) ec [] 0%nat buf n E) by (right; rewrite Nat.sub_0_r; exact Hn).
      apply html_loop_bound in E. repeat split; [cbn [length] in *; lia].
  Qed.

  Lemma try_types_app2 x X ln st : forall ts,
    (forall p c st', try_types types rec ts (x :: X) ln st = Some (p, c, st') -> step_ok p c (x :: X) = true ->
       try_types types rec ts (x :: X ++ NL :: B) ln st = Some (p, c, st') /\ (c <= length (x :: X))%nat /\ (st = mkPs true -> st' = mkPs true)) /\
    (try_types types rec ts (x :: X) ln st = None -> try_types types rec ts (x :: X ++ NL :: B) ln st = None).
  Proof.
    induction ts as [|k ts [IH1 IH2]]; cbn [try_types]; [split; [discriminate|trivial]|].
    destruct (start_read types rec k (x :: X) ln st) as [[[p0 c0] st0]|] eqn:E.
    - split; [|discriminate]. intros p c st' H Hp. injection H as -> -> ->.
      unfold step_ok in Hp. apply orb_true_iff in Hp as [Hp|Hp].
      + pose proof (start_read_closed _ _ _ _ _ _ _ _ _ E Hp) as Hk.
        rewrite start_read_app by exact Hk. rewrite E.
        destruct (start_read_bound _ _ _ _ _ _ _ _ _ E Hk) as [Hb Hs]. auto.
      + apply andb_true_iff in Hp as [Hl Hn].
        pose proof (start_read_leafy _ _ _ _ _ _ _ E Hl) as Hk.
        destruct (start_read_leaf_app k x X ln st p c st' Hk E Hn) as (E' & Hb & ->).
        rewrite E'. auto.
    - rewrite (start_read_none_app _ _ _ _ _ _ _ _ E). split; assumption.
  Qed.

  Fixpoint stable_run (n : nat) (A : list str) (ln : Z) (st : pstate) : bool :=
    match n with
    | O => true
    | S n' =>
      match A with
      | [] => true
      | _ :: rest =>
        match try_types types rec types A ln st with
        | Some (p, c, st') =>
          step_ok p c A && (match c with O => false | _ => stable_run n' (skipn c A) (ln + nlines c) st' end)
        | None => stable_run n' rest (ln + 1) st
        end
      end
    end.

  Lemma dispatch_app2 : forall n A ln acc lo st m,
    (length A < n)%nat -> (length (A ++ NL :: B) < m)%nat -> stable_run n A ln st = true ->
    let R := dispatch_loop types rec n A ln acc lo st in
    dispatch_loop types rec m (A ++ NL :: B) ln acc lo st =
    dispatch_loop types rec m (NL :: B) (ln + nlines (length A)) (rev (fst (fst R))) (snd (fst R)) (snd R) /\
    (st = mkPs true -> snd R = mkPs true).
  Proof.
    induction n as [|n IH]; intros A ln acc lo st m Hn Hm Hc; [lia|].
    destruct A as [|x X].
    - cbv zeta. cbn [app length nlines Z.of_nat]. rewrite dispatch_nil. cbn [fst snd]. rewrite rev_involutive, Z.add_0_r. split; [reflexivity|trivial].
    - destruct m as [|m]; [cbn [length] in Hm; lia|].
      cbn [stable_run] in Hc. cbv zeta. set (K := dispatch_loop types rec (S m) (NL :: B)). cbn [dispatch_loop app].
      destruct (try_types_app2 x X ln st types) as [T1 T2].
      destruct (try_types types rec types (x :: X) ln st) as [[[p c] st']|] eqn:E.
      + apply andb_true_iff in Hc as [Hp Hc]. destruct c as [|c]; [discriminate|].
        destruct (T1 _ _ _ eq_refl Hp) as (E' & Hb & Hs). rewrite E'.
        assert (Esk : skipn (S c) (x :: X ++ NL :: B) = skipn (S c) (x :: X) ++ NL :: B).
        { change (x :: X ++ NL :: B) with ((x :: X) ++ NL :: B). rewrite skipn_app.
          replace (S c - length (x :: X))%nat with 0%nat by lia. reflexivity. }
        rewrite Esk.
        assert (Hl : (length (skipn (S c) (x :: X)) = length (x :: X) - S c)%nat) by apply skipn_length.
        assert (P1 : (length (skipn (S c) (x :: X)) < n)%nat) by (cbn [length] in *; lia).
        assert (P2 : (length (skipn (S c) (x :: X) ++ NL :: B) < m)%nat) by (rewrite app_length in *; cbn [length] in *; lia).
        destruct (IH (skipn (S c) (x :: X)) (ln + nlines (S c)) (p :: acc) lo st' m P1 P2 Hc) as [IHa IHb].
        cbv zeta in IHa, IHb. rewrite IHa. split.
        * rewrite (fuel_suffices types rec m (S m)) by (rewrite app_length in P2; cbn [length] in *; lia).
          subst K. f_equal. unfold nlines. rewrite Hl. cbn [length] in *. lia.
        * intros Hst. apply IHb. apply Hs. exact Hst.
      + rewrite (T2 eq_refl).
        assert (P1 : (length X < n)%nat) by (cbn [length] in *; lia).
        assert (P2 : (length (X ++ NL :: B) < m)%nat) by (rewrite app_length in *; cbn [length] in *; lia).
        destruct (IH X (ln + 1) acc true st m P1 P2 Hc) as [IHa IHb].
        cbv zeta in IHa, IHb. rewrite IHa. split; [|exact IHb].
        rewrite (fuel_suffices types rec m (S m)) by (rewrite app_length in P2; cbn [length] in *; lia).
        subst K. f_equal. unfold nlines. cbn [length]. lia.
  Qed.
End Level.

Theorem stable_blocks_independent types f A B :
  no_blankline_kind types = true ->
  stable_run types (tokenize_block types f) (S (length A)) A 1 (mkPs true) = true ->
  entries (tokenize_block types (S f) (A ++ NL :: B) 1 (mkPs true)) =
  entries (tokenize_block types (S f) A 1 (mkPs true)) ++
  map (shift_pre (Z.of_nat (length A) + 1)) (entries (tokenize_block types (S f) B 1 (mkPs true))).
Proof.
  intros Hnb Hc. cbn [tokenize_block].
  set (rec := tokenize_block types f).
  destruct (dispatch_app2 types rec B (S (length A)) A 1 [] false (mkPs true) (S (length (A ++ NL :: B)))) as [E Est];
    [lia|lia|exact Hc|].
  cbv zeta in E, Est. rewrite E. specialize (Est eq_refl).
  destruct (dispatch_loop types rec (S (length A)) A 1 [] false (mkPs true)) as [[esA loA] stA] eqn:EA.
  cbn [fst snd] in *. subst stA.
  rewrite dispatch_nl by exact Hnb.
  destruct (dispatch_acc types rec (length (A ++ NL :: B)) B (1 + nlines (length A) + 1) (rev esA) true (mkPs true)) as [Eacc _].
  rewrite Eacc, rev_involutive. unfold entries at 2. cbn [fst]. f_equal.
  destruct (dispatch_loose_irrelevant types rec (length (A ++ NL :: B)) B (1 + nlines (length A) + 1) [] true false (mkPs true)) as [El _].
  rewrite El.
  rewrite <- (fuel_suffices types rec (S (length B)) (length (A ++ NL :: B)) B) by (rewrite ?app_length; cbn [length]; lia).
  replace (1 + nlines (length A) + 1) with (1 + (Z.of_nat (length A) + 1)) by (unfold nlines; lia).
  pose proof (dispatch_shift types (Z.of_nat (length A) + 1) rec) as DS.
  assert (RS : forall buf ln st, rec buf (ln + (Z.of_nat (length A) + 1)) st = shift_res (Z.of_nat (length A) + 1) (rec buf ln st)).
  { intros. apply tokenize_shift. }
  specialize (DS RS (S (length B)) B 1 [] false (mkPs true)). cbn [map] in DS. rewrite DS.
  destruct (dispatch_loop types rec (S (length B)) B 1 [] false (mkPs true)) as [[esB loB] stB]. reflexivity.
Qed.

(* non-vacuity: code fence, HTML comment block and indented code before a closing paragraph *)
Example stable_run_somewhere :
  let A := [ $"```" ++ [10]; $"x" ++ [10]; [10]; $"y" ++ [10]; $"```" ++ [10]; $"<!-- c" ++ [10]; [10]; $"-->" ++ [10];
             $"    code" ++ [10]; [10]; $"para" ++ [10] ] in
  stable_run block_types_html (tokenize_block block_types_html 5) (S (length A)) A 1 (mkPs true) = true /\
  closed_run block_types_html (tokenize_block block_types_html 5) (S (length A)) A 1 (mkPs true) = false.
Proof. vm_compute. split; reflexivity. Qed.

(* ---- lists: a list that was ended by a line of A (not by the end of A) cannot see what follows A ---- *)
Section Lists.
  Variable types : list block_kind.
  Variable B : list str.

  (* item_loop ends by running out of lines *)
  Fixpoint item_runs_off (leader : str) (after : list str) (prepend : Z) (newlines : nat) : bool :=
    match after with
    | [] => true
    | next_line :: r =>
      match parse_continuation next_line prepend with
      | Some cont => item_runs_off leader r prepend (if str_eqb cont [10] then S newlines else O)
      | None =>
        if item_interrupt types after then false
        else match parse_marker next_line with
             | Some _ => false
             | None => match newlines with
                       | O => item_runs_off leader r prepend (if str_eqb next_line [10] then 1%nat else O)
                       | _ => false
                       end
             end
      end
    end.

  Lemma item_loop_stable leader : forall Y prepend buf tk nl,
    item_runs_off leader Y prepend nl = false ->
    item_loop types leader (Y ++ NL :: B) prepend buf tk nl = item_loop types leader Y prepend buf tk nl.
  Proof.
    induction Y as [|l Y IH]; intros prepend buf tk nl H; [discriminate|].
    cbn [app item_loop item_runs_off] in *.
    destruct (parse_continuation l prepend) as [cont|].
    - rewrite IH by exact H. reflexivity.
    - assert (EI : item_interrupt types (l :: Y ++ NL :: B) = item_interrupt types (l :: Y)).
      { unfold item_interrupt. destruct (parse_marker l); [reflexivity|apply any_interrupt_app]. }
      rewrite EI.
      destruct (item_interrupt types (l :: Y)); [reflexivity|].
      destruct (parse_marker l) as [[[[? ?] other] ?]|]; [reflexivity|].
      destruct nl; [|reflexivity]. rewrite IH by exact H. reflexivity.
  Qed.

  Lemma count_blank_app r : has_nonblank r = true -> count_blank (r ++ NL :: B) = count_blank r /\
                                                   skipn (count_blank r) (r ++ NL :: B) = skipn (count_blank r) r ++ NL :: B /\
                                                   skipn (count_blank r) r <> [].
  Proof.
    induction r as [|x r IH]; [discriminate|]. cbn [has_nonblank existsb app count_blank]. intros H.
    destruct (is_blank x) eqn:E.
    - cbn [negb orb] in H. destruct (IH H) as (A1 & A2 & A3). rewrite A1. cbn [skipn]. auto.
    - cbn [skipn]. repeat split; discriminate.
  Qed.

  Variable rec : list str -> Z -> pstate -> list pre * bool * pstate.

  (* ListItem.read ends by running out of lines *)
  Definition read_item_runs_off (after : list str) (prev : option (Z * Z * str * str)) : bool :=
    match after with
    | [] => true
    | line :: r =>
      match (match prev with Some m => Some m | None => parse_marker line end) with
      | None => false
      | Some (indentation, prepend, leader, content) =>
        if is_blank content then
          match count_blank r with
          | S _ => negb (has_nonblank r)
          | O => item_runs_off leader r (indentation + slen leader + 1) 0
          end
        else item_runs_off leader r prepend 0
      end
    end.

  Lemma read_item_stable x X ln prev st :
    read_item_runs_off (x :: X) prev = false ->
    read_item types rec (x :: X ++ NL :: B) ln prev st = read_item types rec (x :: X) ln prev st.
  Proof.
    unfold read_item_runs_off, read_item.
    destruct (match prev with Some m => Some m | None => parse_marker x end) as [[[[ind pp] ld] ct]|]; [|reflexivity].
    destruct (is_blank ct).
    - destruct (count_blank X) as [|n] eqn:Ec.
      + intros H. assert (Ec' : count_blank (X ++ NL :: B) = 0%nat).
        { destruct X as [|y Y]; [discriminate|]. cbn [app count_blank] in *. destruct (is_blank y); [discriminate|reflexivity]. }
        rewrite Ec'. rewrite item_loop_stable by exact H. reflexivity.
      + intros H. apply negb_false_iff in H. destruct (count_blank_app X H) as (A1 & A2 & A3).
        rewrite A1, Ec. rewrite Ec in A2, A3. rewrite A2.
        destruct (skipn (S n) X) as [|z zs]; [contradiction|]. reflexivity.
    - intros H. rewrite item_loop_stable by exact H. reflexivity.
  Qed.
End Lists.

Section Lists2.
  Variable types : list block_kind.
  Variable rec : list str -> Z -> pstate -> list pre * bool * pstate.
  Variable B : list str.

  Lemma count_blank_le r : (count_blank r <= length r)%nat.
  Proof. induction r as [|x r IH]; cbn [count_blank length]; [lia|]. destruct (is_blank x); lia. Qed.

  Lemma read_item_bound x X ln prev st it taken nm st' :
    read_item types rec (x :: X) ln prev st = (it, taken, nm, st') -> (taken <= length (x :: X))%nat.
  Proof.
    unfold read_item.
    destruct (match prev with Some m => Some m | None => parse_marker x end) as [[[[ind pp] ld] ct]|]; [|intros H; injection H as _ <- _ _; cbn [length]; lia].
    destruct (is_blank ct).
    - destruct (count_blank X) as [|n] eqn:Ec.
      + destruct (item_loop types ld X _ [] 1%nat 0%nat) as [[buf tk] nm0] eqn:E. destruct (rec buf (ln + 1) st) as [[es lo] s2].
        intros H. injection H as _ <- _ _.
        apply item_loop_aligned in E; [|cbn [length]; lia|lia]. cbn [length] in *. lia.
      + intros H. injection H as _ <- _ _. pose proof (count_blank_le X). cbn [length]. lia.
    - destruct (item_loop types ld X pp [ct] 1%nat 0%nat) as [[buf tk] nm0] eqn:E. destruct (rec buf ln st) as [[es lo] s2].
      intros H. injection H as _ <- _ _.
      apply item_loop_aligned in E; [|cbn [length]; lia|lia]. cbn [length] in *. lia.
  Qed.

  (* List.read ends by running out of lines *)
  Fixpoint list_runs_off (n : nat) (after : list str) (ln : Z) (leader : option str) (nm : option (Z * Z * str * str)) (st : pstate) : bool :=
    match n with
    | O => false
    | S n' =>
      match after with
      | [] => true
      | _ :: _ =>
        let '(item, taken, nm', st') := read_item types rec after ln nm st in
        let item_leader := match item with PItem _ _ _ _ _ l => l | _ => [] end in
        let ok := match leader with None => true | Some l => same_marker_type l item_leader end in
        (* an item of another list type is not taken: the list was ended by that line *)
        if negb ok then false
        else if read_item_runs_off types after nm then true
        else match nm' with
             | None => false
             | Some _ => list_runs_off n' (skipn taken after) (ln + nlines taken)
                                       (match leader with None => Some item_leader | Some _ => leader end) nm' st'
             end
      end
    end.

  (* the leader of the item ListItem.read returns comes from the marker alone *)
  Definition item_leader_of (p : pre) : list Z := match p return list Z with PItem _ _ _ _ _ l => l | _ => @nil Z end.
  Lemma read_item_leader x X Y ln nm st :
    item_leader_of (fst (fst (fst (read_item types rec (x :: X) ln nm st)))) =
    item_leader_of (fst (fst (fst (read_item types rec (x :: Y) ln nm st)))).
  Proof.
    unfold read_item. destruct (match nm with Some m => Some m | None => parse_marker x end) as [[[[ind pp] ld] ct]|]; [|reflexivity].
    destruct (is_blank ct).
    - destruct (count_blank X), (count_blank Y); cbn [fst item_leader_of];
        repeat match goal with |- context [item_loop ?a ?b ?c ?d ?e ?f ?g] => destruct (item_loop a b c d e f g) as [[? ?] ?] end;
        repeat match goal with |- context [rec ?a ?b ?c] => destruct (rec a b c) as [[? ?] ?] end; reflexivity.
    - repeat match goal with |- context [item_loop ?a ?b ?c ?d ?e ?f ?g] => destruct (item_loop a b c d e f g) as [[? ?] ?] end;
        repeat match goal with |- context [rec ?a ?b ?c] => destruct (rec a b c) as [[? ?] ?] end; reflexivity.
  Qed.

  Lemma read_list_stable : forall n after ln leader nm items consumed st,
    list_runs_off n after ln leader nm st = false ->
    read_list types rec n (after ++ NL :: B) ln leader nm items consumed st = read_list types rec n after ln leader nm items consumed st.
  Proof.
    induction n as [|n IH]; intros after ln leader nm items consumed st H; [reflexivity|].
    cbn [list_runs_off] in H. destruct after as [|x X]; [discriminate|].
    cbn [read_list]. change ((x :: X) ++ NL :: B) with (x :: X ++ NL :: B).
    pose proof (read_item_leader x (X ++ NL :: B) X ln nm st) as L.
    destruct (read_item types rec (x :: X ++ NL :: B) ln nm st) as [[[item2 taken2] nm2] st2] eqn:Ei2.
    destruct (read_item types rec (x :: X) ln nm st) as [[[item taken] nm'] st'] eqn:Ei.
    cbn [fst] in L. cbv beta iota zeta.
    unfold item_leader_of in L.
    rewrite L.
    destruct (negb _); [reflexivity|].
    destruct (read_item_runs_off types (x :: X) nm) eqn:Er; [discriminate|].
    rewrite (read_item_stable types B rec x X ln nm st Er), Ei in Ei2. injection Ei2 as <- <- <- <-.
    destruct nm' as [mk|]; [|reflexivity].
    pose proof (read_item_bound x X ln nm st _ _ _ _ Ei) as Hb.
    change (x :: X ++ NL :: B) with ((x :: X) ++ NL :: B). rewrite skipn_app.
    replace (taken - length (x :: X))%nat with 0%nat by lia. cbn [skipn]. apply IH. exact H.
  Qed.
End Lists2.

Section Lists3.
  Variable types : list block_kind.
  Variable rec : list str -> Z -> pstate -> list pre * bool * pstate.

  Lemma skipn_len_lt {A} (l : list A) k : (1 <= k)%nat -> l <> [] -> (length (skipn k l) < length l)%nat.
  Proof. intros Hk Hl. rewrite skipn_length. destruct l; [contradiction|cbn [length]; lia]. Qed.

  (* neither fuel is what ends the loop over the items *)
  Lemma read_list_fuel : forall n m after ln leader nm items consumed st,
    (length after < n)%nat -> (n <= m)%nat ->
    read_list types rec n after ln leader nm items consumed st = read_list types rec m after ln leader nm items consumed st.
  Proof.
    induction n as [|n IH]; intros m after ln leader nm items consumed st Hn Hm; [lia|].
    destruct m as [|m]; [lia|]. cbn [read_list].
    destruct (read_item types rec after ln nm st) as [[[item taken] nm'] st'] eqn:Ei.
    destruct (negb _); [reflexivity|]. destruct nm' as [mk|]; [|reflexivity].
    destruct after as [|x X].
    - cbn [read_item] in Ei. injection Ei as _ _ E _. discriminate.
    - pose proof (read_item_progress types rec x X ln nm st _ _ _ _ Ei) as Hp.
      apply IH; [|lia]. pose proof (skipn_len_lt (x :: X) taken Hp (ltac:(discriminate))). lia.
  Qed.

  Lemma list_runs_off_fuel : forall n m after ln leader nm st,
    (length after < n)%nat -> (n <= m)%nat ->
    list_runs_off types rec n after ln leader nm st = list_runs_off types rec m after ln leader nm st.
  Proof.
    induction n as [|n IH]; intros m after ln leader nm st Hn Hm; [lia|].
    destruct m as [|m]; [lia|]. cbn [list_runs_off].
    destruct (read_item_runs_off types after nm); [reflexivity|].
    destruct (read_item types rec after ln nm st) as [[[item taken] nm'] st'] eqn:Ei.
    destruct (negb _); [reflexivity|]. destruct nm' as [mk|]; [|reflexivity].
    destruct after as [|x X].
    - cbn [read_item] in Ei. injection Ei as _ _ E _. discriminate.
    - pose proof (read_item_progress types rec x X ln nm st _ _ _ _ Ei) as Hp.
      apply IH; [|lia]. pose proof (skipn_len_lt (x :: X) taken Hp (ltac:(discriminate))). lia.
  Qed.

  Lemma read_list_bound : forall n after ln leader nm items consumed st its c st',
    read_list types rec n after ln leader nm items consumed st = (its, c, st') -> (c <= consumed + length after)%nat.
  Proof.
    induction n as [|n IH]; intros after ln leader nm items consumed st its c st' H; cbn [read_list] in H.
    - injection H as _ <- _. lia.
    - destruct (read_item types rec after ln nm st) as [[[item taken] nm'] s1] eqn:Ei.
      assert (Hb : (taken <= length after)%nat).
      { destruct after as [|x X]; [cbn [read_item] in Ei; injection Ei as _ <- _ _; lia|].
        eapply read_item_bound. exact Ei. }
      destruct (negb _); [injection H as _ <- _; lia|].
      destruct nm' as [mk|]; [|injection H as _ <- _; lia].
      apply IH in H. rewrite skipn_length in H. lia.
  Qed.

  Variable B : list str.

  Definition is_plist (p : pre) : bool := match p with PList _ _ => true | _ => false end.

  Lemma start_read_list_app x X ln st :
    list_runs_off types rec (S (length (x :: X))) (x :: X) ln None None st = false ->
    start_read types rec BK_List (x :: X ++ NL :: B) ln st = start_read types rec BK_List (x :: X) ln st /\
    (forall p c st', start_read types rec BK_List (x :: X) ln st = Some (p, c, st') -> (c <= length (x :: X))%nat).
  Proof.
    intros H. cbn [start_read]. destruct (list_start x); [|split; [reflexivity|discriminate]].
    set (M := S (length (x :: X ++ NL :: B))).
    assert (HM : (S (length (x :: X)) <= M)%nat) by (unfold M; cbn [length]; rewrite app_length; lia).
    assert (E : read_list types rec M (x :: X ++ NL :: B) ln None None [] 0%nat st =
                read_list types rec (S (length (x :: X))) (x :: X) ln None None [] 0%nat st).
    { change (x :: X ++ NL :: B) with ((x :: X) ++ NL :: B).
      rewrite (read_list_stable types rec B M (x :: X) ln None None [] 0%nat st).
      - symmetry. apply read_list_fuel; [lia|exact HM].
      - rewrite <- (list_runs_off_fuel (S (length (x :: X))) M) by (lia || exact HM). exact H. }
    rewrite E.
    destruct (read_list types rec (S (length (x :: X))) (x :: X) ln None None [] 0%nat st) as [[items c] st'] eqn:Er.
    split; [reflexivity|]. intros p c0 st0 H0. injection H0 as _ <- _.
    apply read_list_bound in Er. lia.
  Qed.
End Lists3.

Section Level3.
  Variable types : list block_kind.
  Variable rec : list str -> Z -> pstate -> list pre * bool * pstate.
  Variable B : list str.

  (* one step of the loop over A: a closed block; a leaf block after which A goes on; a list ended by a line of A *)
  Definition step_ok3 (p : pre) (c : nat) (X : list str) (ln : Z) (st : pstate) : bool :=
    closed_pre p || (leafy_pre p && has_nonblank (skipn c X)) ||
    (is_plist p && negb (list_runs_off types rec (S (length X)) X ln None None st)).

  Lemma start_read_plist k after ln st p c st' :
    start_read types rec k after ln st = Some (p, c, st') -> is_plist p = true -> k = BK_List.
  Proof.
    destruct after as [|x X]; [discriminate|]. intros H Hp.
    destruct k; try reflexivity; cbn [start_read] in H; exfalso.
    - destruct (blockcode_start x); [|discriminate]. destruct (blockcode_read (x :: X)). injection H as <- _ _. discriminate.
    - destruct (heading_start x) as [[[? ?] ?]|]; [|discriminate]. injection H as <- _ _. discriminate.
    - destruct (quote_start x); [|discriminate]. destruct (quote_lines types (x :: X)).
      destruct (rec _ _ _) as [[? ?] ?]. injection H as <- _ _. discriminate.
    - destruct (codefence_start x) as [[[[i l] f] g]|]; [|discriminate]. destruct (fence_loop X i l [] 1%nat). injection H as <- _ _. discriminate.
    - destruct (thematic_start x); [|discriminate]. injection H as <- _ _. discriminate.
    - destruct (table_start x); [|discriminate]. destruct (table_read (x :: X)); [|discriminate]. injection H as <- _ _. discriminate.
    - destruct (footnote_start x); [|discriminate]. destruct (footnote_read (x :: X)) as [[? ?]|]; [|discriminate]. injection H as <- _ _. discriminate.
    - destruct (paragraph_start x); [|discriminate]. destruct (para_loop _ _ _ _ _) as [[? ?] []]; injection H as <- _ _; discriminate.
    - destruct (htmlblock_start x) as [[? e]|]; [|discriminate]. destruct (html_loop (x :: X) e [] 0%nat). injection H as <- _ _. discriminate.
    - destruct (blankline_start x); [|discriminate]. injection H as <- _ _. discriminate.
    - destruct (footnote_start x); [|discriminate]. destruct (footnote_read (x :: X)) as [[? ?]|]; [|discriminate]. injection H as <- _ _. discriminate.
  Qed.

  Lemma try_types_app3 x X ln st : forall ts,
    (forall p c st', try_types types rec ts (x :: X) ln st = Some (p, c, st') -> step_ok3 p c (x :: X) ln st = true ->
       try_types types rec ts (x :: X ++ NL :: B) ln st = Some (p, c, st') /\ (c <= length (x :: X))%nat) /\
    (try_types types rec ts (x :: X) ln st = None -> try_types types rec ts (x :: X ++ NL :: B) ln st = None).
  Proof.
    induction ts as [|k ts [IH1 IH2]]; cbn [try_types]; [split; [discriminate|trivial]|].
    destruct (start_read types rec k (x :: X) ln st) as [[[p0 c0] st0]|] eqn:E.
    - split; [|discriminate]. intros p c st' H Hp. injection H as -> -> ->.
      unfold step_ok3 in Hp. apply orb_true_iff in Hp as [Hp|Hp]; [apply orb_true_iff in Hp as [Hp|Hp]|].
      + pose proof (start_read_closed _ _ _ _ _ _ _ _ _ E Hp) as Hk.
        rewrite start_read_app by exact Hk. rewrite E.
        destruct (start_read_bound _ _ _ _ _ _ _ _ _ E Hk) as [Hb _]. auto.
      + apply andb_true_iff in Hp as [Hl Hn].
        pose proof (start_read_leafy _ _ _ _ _ _ _ _ _ E Hl) as Hk.
        destruct (start_read_leaf_app types rec B k x X ln st p c st' Hk E Hn) as (E' & Hb & _).
        rewrite E'. auto.
      + apply andb_true_iff in Hp as [Hl Hn]. apply negb_true_iff in Hn.
        pose proof (start_read_plist _ _ _ _ _ _ _ E Hl) as ->.
        destruct (start_read_list_app types rec B x X ln st Hn) as [E' Hb].
        rewrite E', E. split; [reflexivity|]. apply (Hb _ _ _ E).
    - rewrite (start_read_none_app _ _ _ _ _ _ _ _ E). split; assumption.
  Qed.

  Fixpoint stable_run3 (n : nat) (A : list str) (ln : Z) (st : pstate) : bool :=
    match n with
    | O => true
    | S n' =>
      match A with
      | [] => true
      | _ :: rest =>
        match try_types types rec types A ln st with
        | Some (p, c, st') =>
          step_ok3 p c A ln st && (match c with O => false | _ => stable_run3 n' (skipn c A) (ln + nlines c) st' end)
        | None => stable_run3 n' rest (ln + 1) st
        end
      end
    end.

  Lemma dispatch_app3 : forall n A ln acc lo st m,
    (length A < n)%nat -> (length (A ++ NL :: B) < m)%nat -> stable_run3 n A ln st = true ->
    let R := dispatch_loop types rec n A ln acc lo st in
    dispatch_loop types rec m (A ++ NL :: B) ln acc lo st =
    dispatch_loop types rec m (NL :: B) (ln + nlines (length A)) (rev (fst (fst R))) (snd (fst R)) (snd R).
  Proof.
    induction n as [|n IH]; intros A ln acc lo st m Hn Hm Hc; [lia|].
    destruct A as [|x X].
    - cbv zeta. cbn [app length nlines Z.of_nat]. rewrite dispatch_nil. cbn [fst snd]. rewrite rev_involutive, Z.add_0_r. reflexivity.
    - destruct m as [|m]; [cbn [length] in Hm; lia|].
      cbn [stable_run3] in Hc. cbv zeta. set (K := dispatch_loop types rec (S m) (NL :: B)). cbn [dispatch_loop app].
      destruct (try_types_app3 x X ln st types) as [T1 T2].
      destruct (try_types types rec types (x :: X) ln st) as [[[p c] st']|] eqn:E.
      + apply andb_true_iff in Hc as [Hp Hc]. destruct c as [|c]; [discriminate|].
        destruct (T1 _ _ _ eq_refl Hp) as (E' & Hb). rewrite E'.
        assert (Esk : skipn (S c) (x :: X ++ NL :: B) = skipn (S c) (x :: X) ++ NL :: B).
        { change (x :: X ++ NL :: B) with ((x :: X) ++ NL :: B). rewrite skipn_app.
          replace (S c - length (x :: X))%nat with 0%nat by lia. reflexivity. }
        rewrite Esk.
        assert (Hl : (length (skipn (S c) (x :: X)) = length (x :: X) - S c)%nat) by apply skipn_length.
        assert (P1 : (length (skipn (S c) (x :: X)) < n)%nat) by (cbn [length] in *; lia).
        assert (P2 : (length (skipn (S c) (x :: X) ++ NL :: B) < m)%nat) by (rewrite app_length in *; cbn [length] in *; lia).
        pose proof (IH (skipn (S c) (x :: X)) (ln + nlines (S c)) (p :: acc) lo st' m P1 P2 Hc) as IHa.
        cbv zeta in IHa. rewrite IHa.
        rewrite (fuel_suffices types rec m (S m)) by (rewrite app_length in P2; cbn [length] in *; lia).
        subst K. f_equal. unfold nlines. rewrite Hl. cbn [length] in *. lia.
      + rewrite (T2 eq_refl).
        assert (P1 : (length X < n)%nat) by (cbn [length] in *; lia).
        assert (P2 : (length (X ++ NL :: B) < m)%nat) by (rewrite app_length in *; cbn [length] in *; lia).
        pose proof (IH X (ln + 1) acc true st m P1 P2 Hc) as IHa.
        cbv zeta in IHa. rewrite IHa.
        rewrite (fuel_suffices types rec m (S m)) by (rewrite app_length in P2; cbn [length] in *; lia).
        subst K. f_equal. unfold nlines. cbn [length]. lia.
  Qed.
End Level3.

(* the blocks of A + blank line + B are those of A, then those of B read from the state A leaves behind *)
Theorem any_blocks_independent types f A B st :
  no_blankline_kind types = true ->
  stable_run3 types (tokenize_block types f) (S (length A)) A 1 st = true ->
  let '(esA, _, stA) := tokenize_block types (S f) A 1 st in
  entries (tokenize_block types (S f) (A ++ NL :: B) 1 st) =
  esA ++ map (shift_pre (Z.of_nat (length A) + 1)) (entries (tokenize_block types (S f) B 1 stA)).
Proof.
  intros Hnb Hc. cbn [tokenize_block].
  set (rec := tokenize_block types f).
  pose proof (dispatch_app3 types rec B (S (length A)) A 1 [] false st (S (length (A ++ NL :: B))) (ltac:(lia)) (ltac:(lia)) Hc) as E.
  cbv zeta in E. rewrite E.
  destruct (dispatch_loop types rec (S (length A)) A 1 [] false st) as [[esA loA] stA] eqn:EA.
  cbn [fst snd] in *.
  rewrite dispatch_nl by exact Hnb.
  destruct (dispatch_acc types rec (length (A ++ NL :: B)) B (1 + nlines (length A) + 1) (rev esA) true stA) as [Eacc _].
  rewrite Eacc, rev_involutive. f_equal.
  destruct (dispatch_loose_irrelevant types rec (length (A ++ NL :: B)) B (1 + nlines (length A) + 1) [] true false stA) as [El _].
  rewrite El.
  rewrite <- (fuel_suffices types rec (S (length B)) (length (A ++ NL :: B)) B) by (rewrite ?app_length; cbn [length]; lia).
  replace (1 + nlines (length A) + 1) with (1 + (Z.of_nat (length A) + 1)) by (unfold nlines; lia).
  pose proof (dispatch_shift types (Z.of_nat (length A) + 1) rec) as DS.
  assert (RS : forall buf ln st, rec buf (ln + (Z.of_nat (length A) + 1)) st = shift_res (Z.of_nat (length A) + 1) (rec buf ln st)).
  { intros. apply tokenize_shift. }
  specialize (DS RS (S (length B)) B 1 [] false stA). cbn [map] in DS. rewrite DS.
  destruct (dispatch_loop types rec (S (length B)) B 1 [] false stA) as [[esB loB] stB]. reflexivity.
Qed.

(* non-vacuity: a list before a closing paragraph; the list is ended by the paragraph's line *)
Example stable_run3_somewhere :
  let A := [ $"- a" ++ [10]; $"- b" ++ [10]; $"  c" ++ [10]; [10]; $"para" ++ [10] ] in
  stable_run3 block_types_html (tokenize_block block_types_html 5) (S (length A)) A 1 (mkPs true) = true /\
  stable_run block_types_html (tokenize_block block_types_html 5) (S (length A)) A 1 (mkPs true) = false.
Proof. vm_compute. split; reflexivity. Qed.
