(* C05, extension of Proofs/Independence.v: the blocks of A before its (closed) last block may
   also be indented code, fenced code and HTML blocks - each such reader, when a non-blank
   line of A follows what it consumed, has stopped at a line of A and so cannot see what
   follows A.  (Lists before the last block are still outside the theorem.) *)
From Coq Require Import ZArith List Bool Lia.
From Mistletoe Require Import Base.Sx Base.PyStr Base.PyText Gen.GenTables Gen.GenRegex Gen.GenConfig Re.ReMatch
     Model.CoreTokens Model.Block Proofs.BlockProgress Proofs.LineTags Proofs.Independence.
Import ListNotations.
Local Open Scope Z_scope.

Definition has_nonblank (l : list str) : bool := existsb (fun x => negb (is_blank x)) l.

Definition leafy_pre (p : pre) : bool :=
  match p with PBlockCode _ _ | PCodeFence _ _ _ _ _ _ | PHtmlBlock _ _ => true | _ => false end.
Definition leafy_kind (k : block_kind) : bool :=
  match k with BK_BlockCode | BK_CodeFence | BK_HtmlBlock => true | _ => false end.

(* what is required of one step of the loop over A: a closed block, or a leaf block after which A goes on *)
Definition step_ok (p : pre) (c : nat) (X : list str) : bool :=
  closed_pre p || (leafy_pre p && has_nonblank (skipn c X)).

Lemma skipn_step {A} (c tk : nat) (l : A) (Y : list A) :
  (tk + 1 <= c)%nat -> skipn (c - tk) (l :: Y) = skipn (c - (tk + 1)) Y.
Proof. intros H. replace (c - tk)%nat with (S (c - (tk + 1)))%nat by lia. reflexivity. Qed.

Section Readers.
  Variable B : list str.

  Lemma blockcode_loop_app : forall Y buf tk tr r c,
    (tr <= tk)%nat -> blockcode_loop Y buf tk tr = (r, c) -> has_nonblank (skipn (c - tk) Y) = true ->
    blockcode_loop (Y ++ NL :: B) buf tk tr = (r, c).
  Proof.
    induction Y as [|l Y IH]; intros buf tk tr r c Ht H Hn.
    - destruct (c - tk)%nat; discriminate.
    - cbn [app blockcode_loop] in *. destruct (is_blank l) eqn:Eb.
      + apply IH; [destruct (str_eqb l [10]); lia|exact H|].
        destruct (Nat.le_gt_cases (tk + 1) c) as [Hc|Hc].
        * rewrite skipn_step in Hn by exact Hc. replace (c - S tk)%nat with (c - (tk + 1))%nat by lia. exact Hn.
        * replace (c - tk)%nat with 0%nat in Hn by lia. replace (c - S tk)%nat with 0%nat by lia.
          cbn [skipn has_nonblank existsb] in *. rewrite Eb in Hn. exact Hn.
      + destruct (negb (startswith $"    " (tabs_to_spaces_once l))); [exact H|].
        pose proof (blockcode_loop_progress _ _ _ _ _ _ (Nat.le_0_l _) H) as P.
        apply IH; [lia|exact H|]. rewrite skipn_step in Hn by lia. replace (c - S tk)%nat with (c - (tk + 1))%nat by lia. exact Hn.
  Qed.

  Lemma fence_loop_app : forall Y indent leader buf tk r c,
    fence_loop Y indent leader buf tk = (r, c) -> has_nonblank (skipn (c - tk) Y) = true ->
    fence_loop (Y ++ NL :: B) indent leader buf tk = (r, c).
  Proof.
    induction Y as [|l Y IH]; intros indent leader buf tk r c H Hn.
    - destruct (c - tk)%nat; discriminate.
    - cbn [app fence_loop] in *. destruct (_ && _); [exact H|].
      pose proof (fence_loop_progress _ _ _ _ _ _ _ H) as P.
      apply IH; [exact H|]. rewrite skipn_step in Hn by lia. replace (c - S tk)%nat with (c - (tk + 1))%nat by lia. exact Hn.
  Qed.

  Lemma html_loop_app : forall Y ec buf tk r c,
    html_loop Y ec buf tk = (r, c) -> (ec = None \/ has_nonblank (skipn (c - tk) Y) = true) ->
    html_loop (Y ++ NL :: B) ec buf tk = (r, c).
  Proof.
    induction Y as [|l Y IH]; intros ec buf tk r c H Hn.
    - cbn [app html_loop] in *. destruct ec as [e|].
      + destruct Hn as [Hn|Hn]; [discriminate|]. destruct (c - tk)%nat; discriminate.
      + rewrite nl_blank. exact H.
    - cbn [app html_loop] in *. destruct ec as [e|].
      + destruct (contains e (casefold l)); [exact H|].
        pose proof (html_loop_progress _ _ _ _ _ _ H) as P.
        apply IH; [exact H|]. destruct Hn as [Hn|Hn]; [discriminate|]. right.
        rewrite skipn_step in Hn by lia. replace (c - S tk)%nat with (c - (tk + 1))%nat by lia. exact Hn.
      + destruct (is_blank l); [exact H|]. apply IH; [exact H|left; reflexivity].
  Qed.

  (* how many lines these readers consume *)
  Lemma blockcode_loop_bound : forall Y buf tk tr r c, blockcode_loop Y buf tk tr = (r, c) -> (c <= tk + length Y)%nat.
  Proof.
    induction Y as [|l Y IH]; intros buf tk tr r c H; cbn [blockcode_loop length] in *.
    - injection H as _ <-. lia.
    - destruct (is_blank l); [apply IH in H; lia|].
      destruct (negb _); [injection H as _ <-; lia|apply IH in H; lia].
  Qed.
  Lemma fence_loop_bound : forall Y indent leader buf tk r c, fence_loop Y indent leader buf tk = (r, c) -> (c <= tk + length Y)%nat.
  Proof.
    induction Y as [|l Y IH]; intros indent leader buf tk r c H; cbn [fence_loop length] in *.
    - injection H as _ <-. lia.
    - destruct (_ && _); [injection H as _ <-; lia|apply IH in H; lia].
  Qed.
  Lemma html_loop_bound : forall Y ec buf tk r c, html_loop Y ec buf tk = (r, c) -> (c <= tk + length Y)%nat.
  Proof.
    induction Y as [|l Y IH]; intros ec buf tk r c H; cbn [html_loop length] in *.
    - injection H as _ <-. lia.
    - destruct ec as [e|].
      + destruct (contains e (casefold l)); [injection H as _ <-; lia|apply IH in H; lia].
      + destruct (is_blank l); [injection H as _ <-; lia|apply IH in H; lia].
  Qed.
End Readers.

Section Level.
  Variable types : list block_kind.
  Variable rec : list str -> Z -> pstate -> list pre * bool * pstate.
  Variable B : list str.

  Lemma start_read_leafy k after ln st p c st' :
    start_read types rec k after ln st = Some (p, c, st') -> leafy_pre p = true -> leafy_kind k = true.
  Proof.
    destruct after as [|x X]; [discriminate|]. intros H Hp.
    destruct k; try reflexivity; cbn [start_read] in H; exfalso.
    - destruct (heading_start x) as [[[? ?] ?]|]; [|discriminate]. injection H as <- _ _. discriminate.
    - destruct (quote_start x); [|discriminate]. destruct (quote_lines types (x :: X)).
      destruct (rec _ _ _) as [[? ?] ?]. injection H as <- _ _. discriminate.
    - destruct (thematic_start x); [|discriminate]. injection H as <- _ _. discriminate.
    - destruct (list_start x); [|discriminate]. destruct (read_list _ _ _ (x :: X) _ _ _ _ _ _) as [[? ?] ?]. injection H as <- _ _. discriminate.
    - destruct (table_start x); [|discriminate]. destruct (table_read (x :: X)); [|discriminate]. injection H as <- _ _. discriminate.
    - destruct (footnote_start x); [|discriminate]. destruct (footnote_read (x :: X)) as [[? ?]|]; [|discriminate]. injection H as <- _ _. discriminate.
    - destruct (paragraph_start x); [|discriminate]. destruct (para_loop _ _ _ _ _) as [[? ?] []]; injection H as <- _ _; discriminate.
    - destruct (blankline_start x); [|discriminate]. injection H as <- _ _. discriminate.
    - destruct (footnote_start x); [|discriminate]. destruct (footnote_read (x :: X)) as [[? ?]|]; [|discriminate]. injection H as <- _ _. discriminate.
  Qed.

  Lemma start_read_leaf_app k x X ln st p c st' :
    leafy_kind k = true -> start_read types rec k (x :: X) ln st = Some (p, c, st') -> has_nonblank (skipn c (x :: X)) = true ->
    start_read types rec k (x :: X ++ NL :: B) ln st = Some (p, c, st') /\ (c <= length (x :: X))%nat /\ st' = st.
  Proof.
    intros Hk H Hn. destruct k; try discriminate; cbn [start_read] in *.
    - destruct (blockcode_start x); [|discriminate].
      unfold blockcode_read in *. destruct (blockcode_loop (x :: X) [] 0 0) as [buf n] eqn:E.
      injection H as <- <- <-.
      change (x :: X ++ NL :: B) with ((x :: X) ++ NL :: B).
      rewrite (blockcode_loop_app B (x :: X) [] 0%nat 0%nat buf n (Nat.le_refl _) E) by (rewrite Nat.sub_0_r; exact Hn).
      apply blockcode_loop_bound in E. repeat split; [cbn [length] in *; lia].
    - destruct (codefence_start x) as [[[[indent leader] info] lang]|]; [|discriminate].
      destruct (fence_loop X indent leader [] 1%nat) as [buf n] eqn:E. injection H as <- <- <-.
      pose proof (fence_loop_progress _ _ _ _ _ _ _ E) as P.
      assert (Hn' : has_nonblank (skipn (n - 1) X) = true).
      { destruct n as [|n]; [lia|]. cbn [skipn] in Hn. replace (S n - 1)%nat with n by lia. exact Hn. }
      rewrite (fence_loop_app B X indent leader [] 1%nat buf n E Hn').
      apply fence_loop_bound in E. repeat split; [cbn [length] in *; lia].
    - destruct (htmlblock_start x) as [[kk ec]|]; [|discriminate].
      destruct (html_loop (x :: X) ec [] 0%nat) as [buf n] eqn:E. injection H as <- <- <-.
      change (x :: X ++ NL :: B) with ((x :: X) ++ NL :: B).
      rewrite (html_loop_app B (x :: X) ec [] 0%nat buf n E) by (right; rewrite Nat.sub_0_r; exact Hn).
      apply html_loop_bound in E. repeat split; [cbn [length] in *; lia].
  Qed.

  Lemma try_types_app2 x X ln st : forall ts,
    (forall p c st', try_types types rec ts (x :: X) ln st = Some (p, c, st') -> step_ok p c (x :: X) = true ->
       try_types types rec ts (x :: X ++ NL :: B) ln st = Some (p, c, st') /\ (c <= length (x :: X))%nat /\ (st = mkPs true -> st' = mkPs true)) /\
    (try_types types rec ts (x :: X) ln st = None -> try_types types rec ts (x :: X ++ NL :: B) ln st = None).
  Proof.
    induction ts as [|k ts [IH1 IH2]]; cbn [try_types]; [split; [discriminate|trivial]|].
    destruct (start_read types rec k (x :: X) ln st) as [[[p0 c0] st0]|] eqn:E.
    - split; [|discriminate]. intros p c st' H Hp. injection H as -> -> ->.
      unfold step_ok in Hp. apply orb_true_iff in Hp as [Hp|Hp].
      + pose proof (start_read_closed _ _ _ _ _ _ _ _ _ E Hp) as Hk.
        rewrite start_read_app by exact Hk. rewrite E.
        destruct (start_read_bound _ _ _ _ _ _ _ _ _ E Hk) as [Hb Hs]. auto.
      + apply andb_true_iff in Hp as [Hl Hn].
        pose proof (start_read_leafy _ _ _ _ _ _ _ E Hl) as Hk.
        destruct (start_read_leaf_app k x X ln st p c st' Hk E Hn) as (E' & Hb & ->).
        rewrite E'. auto.
    - rewrite (start_read_none_app _ _ _ _ _ _ _ _ E). split; assumption.
  Qed.

  Fixpoint stable_run (n : nat) (A : list str) (ln : Z) (st : pstate) : bool :=
    match n with
    | O => true
    | S n' =>
      match A with
      | [] => true
      | _ :: rest =>
        match try_types types rec types A ln st with
        | Some (p, c, st') =>
          step_ok p c A && (match c with O => false | _ => stable_run n' (skipn c A) (ln + nlines c) st' end)
        | None => stable_run n' rest (ln + 1) st
        end
      end
    end.

  Lemma dispatch_app2 : forall n A ln acc lo st m,
    (length A < n)%nat -> (length (A ++ NL :: B) < m)%nat -> stable_run n A ln st = true ->
    let R := dispatch_loop types rec n A ln acc lo st in
    dispatch_loop types rec m (A ++ NL :: B) ln acc lo st =
    dispatch_loop types rec m (NL :: B) (ln + nlines (length A)) (rev (fst (fst R))) (snd (fst R)) (snd R) /\
    (st = mkPs true -> snd R = mkPs true).
  Proof.
    induction n as [|n IH]; intros A ln acc lo st m Hn Hm Hc; [lia|].
    destruct A as [|x X].
    - cbv zeta. cbn [app length nlines Z.of_nat]. rewrite dispatch_nil. cbn [fst snd]. rewrite rev_involutive, Z.add_0_r. split; [reflexivity|trivial].
    - destruct m as [|m]; [cbn [length] in Hm; lia|].
      cbn [stable_run] in Hc. cbv zeta. set (K := dispatch_loop types rec (S m) (NL :: B)). cbn [dispatch_loop app].
      destruct (try_types_app2 x X ln st types) as [T1 T2].
      destruct (try_types types rec types (x :: X) ln st) as [[[p c] st']|] eqn:E.
      + apply andb_true_iff in Hc as [Hp Hc]. destruct c as [|c]; [discriminate|].
        destruct (T1 _ _ _ eq_refl Hp) as (E' & Hb & Hs). rewrite E'.
        assert (Esk : skipn (S c) (x :: X ++ NL :: B) = skipn (S c) (x :: X) ++ NL :: B).
        { change (x :: X ++ NL :: B) with ((x :: X) ++ NL :: B). rewrite skipn_app.
          replace (S c - length (x :: X))%nat with 0%nat by lia. reflexivity. }
        rewrite Esk.
        assert (Hl : (length (skipn (S c) (x :: X)) = length (x :: X) - S c)%nat) by apply skipn_length.
        assert (P1 : (length (skipn (S c) (x :: X)) < n)%nat) by (cbn [length] in *; lia).
        assert (P2 : (length (skipn (S c) (x :: X) ++ NL :: B) < m)%nat) by (rewrite app_length in *; cbn [length] in *; lia).
        destruct (IH (skipn (S c) (x :: X)) (ln + nlines (S c)) (p :: acc) lo st' m P1 P2 Hc) as [IHa IHb].
        cbv zeta in IHa, IHb. rewrite IHa. split.
        * rewrite (fuel_suffices types rec m (S m)) by (rewrite app_length in P2; cbn [length] in *; lia).
          subst K. f_equal. unfold nlines. rewrite Hl. cbn [length] in *. lia.
        * intros Hst. apply IHb. apply Hs. exact Hst.
      + rewrite (T2 eq_refl).
        assert (P1 : (length X < n)%nat) by (cbn [length] in *; lia).
        assert (P2 : (length (X ++ NL :: B) < m)%nat) by (rewrite app_length in *; cbn [length] in *; lia).
        destruct (IH X (ln + 1) acc true st m P1 P2 Hc) as [IHa IHb].
        cbv zeta in IHa, IHb. rewrite IHa. split; [|exact IHb].
        rewrite (fuel_suffices types rec m (S m)) by (rewrite app_length in P2; cbn [length] in *; lia).
        subst K. f_equal. unfold nlines. cbn [length]. lia.
  Qed.
End Level.

Theorem stable_blocks_independent types f A B :
  no_blankline_kind types = true ->
  stable_run types (tokenize_block types f) (S (length A)) A 1 (mkPs true) = true ->
  entries (tokenize_block types (S f) (A ++ NL :: B) 1 (mkPs true)) =
  entries (tokenize_block types (S f) A 1 (mkPs true)) ++
  map (shift_pre (Z.of_nat (length A) + 1)) (entries (tokenize_block types (S f) B 1 (mkPs true))).
Proof.
  intros Hnb Hc. cbn [tokenize_block].
  set (rec := tokenize_block types f).
  destruct (dispatch_app2 types rec B (S (length A)) A 1 [] false (mkPs true) (S (length (A ++ NL :: B)))) as [E Est];
    [lia|lia|exact Hc|].
  cbv zeta in E, Est. rewrite E. specialize (Est eq_refl).
  destruct (dispatch_loop types rec (S (length A)) A 1 [] false (mkPs true)) as [[esA loA] stA] eqn:EA.
  cbn [fst snd] in *. subst stA.
  rewrite dispatch_nl by exact Hnb.
  destruct (dispatch_acc types rec (length (A ++ NL :: B)) B (1 + nlines (length A) + 1) (rev esA) true (mkPs true)) as [Eacc _].
  rewrite Eacc, rev_involutive. unfold entries at 2. cbn [fst]. f_equal.
  destruct (dispatch_loose_irrelevant types rec (length (A ++ NL :: B)) B (1 + nlines (length A) + 1) [] true false (mkPs true)) as [El _].
  rewrite El.
  rewrite <- (fuel_suffices types rec (S (length B)) (length (A ++ NL :: B)) B) by (rewrite ?app_length; cbn [length]; lia).
  replace (1 + nlines (length A) + 1) with (1 + (Z.of_nat (length A) + 1)) by (unfold nlines; lia).
  pose proof (dispatch_shift types (Z.of_nat (length A) + 1) rec) as DS.
  assert (RS : forall buf ln st, rec buf (ln + (Z.of_nat (length A) + 1)) st = shift_res (Z.of_nat (length A) + 1) (rec buf ln st)).
  { intros. apply tokenize_shift. }
  specialize (DS RS (S (length B)) B 1 [] false (mkPs true)). cbn [map] in DS. rewrite DS.
  destruct (dispatch_loop types rec (S (length B)) B 1 [] false (mkPs true)) as [[esB loB] stB]. reflexivity.
Qed.

(* non-vacuity: code fence, HTML comment block and indented code before a closing paragraph *)
Example stable_run_somewhere :
  let A := [ $"```" ++ [10]; $"x" ++ [10]; [10]; $"y" ++ [10]; $"```" ++ [10]; $"<!-- c" ++ [10]; [10]; $"-->" ++ [10];
             $"    code" ++ [10]; [10]; $"para" ++ [10] ] in
  stable_run block_types_html (tokenize_block block_types_html 5) (S (length A)) A 1 (mkPs true) = true /\
  closed_run block_types_html (tokenize_block block_types_html 5) (S (length A)) A 1 (mkPs true) = false.
Proof. vm_compute. split; reflexivity. Qed.
