(* C19, the nesting of the table of contents: TocRenderer.toc writes one line per collected
   heading, "    " * (level - base) + "- " + title, and re-tokenizes them.  For every list of
   headings that forms an outline (first heading at the shallowest level, levels never
   deepen by more than one) and whose titles are plain lines, the list that comes back is
   nested exactly according to heading level: it is the forest the outline denotes. *)
From Coq Require Import ZArith List Bool Lia.
From Mistletoe Require Import Base.Sx Base.PyStr Base.PyText Gen.GenTables Gen.GenConfig Model.Tree Model.CoreTokens Model.Block Model.Build Model.Parser
     Model.HtmlRenderer Model.Contrib Proofs.Prose Proofs.PlainProse Proofs.ListLaw Proofs.IndentLaw Spec.Fragment Proofs.FragmentP Proofs.FragmentDoc Spec.Outline Proofs.OutlineP.
Import ListNotations.
Local Open Scope Z_scope.

(* ---- a forest and the (level, title) list it denotes ---- *)
Fixpoint flatten (lvl : Z) (n : onode) : list (Z * str) :=
  match n with ONode c body kids => (lvl, c :: body) :: flat_map (flatten (lvl + 1)) kids end.
Definition flatten_forest (lvl : Z) (ns : list onode) : list (Z * str) := flat_map (flatten lvl) ns.

(* the lines of the table of contents, directly *)
Fixpoint tlines_at (i : nat) (n : onode) : list str :=
  match n with ONode c body kids => line_of i 45 (32 :: c :: body) :: flat_map (tlines_at (i + 4)) kids end.

Notation olines := (Outline.olines 45 1 2).
Notation oforest := (Outline.oforest 45 1 2).
Notation otok := (Outline.otok 45 1 2).

Lemma concat_spaces n : concat (repeat ($" ") n) = repeat 32 n.
Proof. induction n as [|n IH]; [reflexivity|]. cbn [repeat concat app]. rewrite IH. reflexivity. Qed.

Lemma toc_line_at lvl d t : toc_line lvl (lvl + Z.of_nat d, t) = line_of (4 * d) 45 (32 :: t).
Proof.
  unfold toc_line. cbn [fst snd]. replace (4 * (lvl + Z.of_nat d - lvl)) with (Z.of_nat (4 * d)) by lia.
  rewrite Nat2Z.id, concat_spaces. unfold line_of. reflexivity.
Qed.

Lemma flat_map_ext_in {A B} (f g : A -> list B) l : (forall x, In x l -> f x = g x) -> flat_map f l = flat_map g l.
Proof. induction l as [|x r IH]; intros H; [reflexivity|]. cbn [flat_map]. rewrite (H x (or_introl eq_refl)), IH; [reflexivity|]. intros y Hy. apply H. right. exact Hy. Qed.

Lemma map_flat_map {A B C} (g : B -> C) (f : A -> list B) l : map g (flat_map f l) = flat_map (fun x => map g (f x)) l.
Proof. induction l as [|x r IH]; [reflexivity|]. cbn [flat_map]. rewrite map_app, IH. reflexivity. Qed.

Lemma toc_lines_tree lvl : forall f n d, (odepth n <= f)%nat ->
  map (toc_line lvl) (flatten (lvl + Z.of_nat d) n) = tlines_at (4 * d) n.
Proof.
  induction f as [|f IH]; intros [c body kids] d Hd; [cbn [odepth] in Hd; lia|].
  cbn [flatten map tlines_at]. rewrite toc_line_at. f_equal. rewrite map_flat_map. apply flat_map_ext_in. intros x Hx.
  replace (lvl + Z.of_nat d + 1) with (lvl + Z.of_nat (S d)) by lia. rewrite (IH x (S d)) by (eapply odepth_kid; eassumption).
  f_equal. lia.
Qed.

Lemma embed_embed e w l : embed_line e (embed_s w l) = embed_line (e + w) l.
Proof. destruct l as [|k c body]; [reflexivity|]. cbn [embed_s embed_line]. f_equal. lia. Qed.

Lemma spelled_tree : forall f n e, (odepth n <= f)%nat -> map (embed_line e) (olines 2 n) = tlines_at (e + 2) n.
Proof.
  induction f as [|f IH]; intros [c body kids] e Hd; [cbn [odepth] in Hd; lia|].
  cbn [Outline.olines map embed_line tlines_at repeat app]. f_equal. rewrite map_map.
  rewrite (map_ext _ (embed_line (e + 4))) by (intros l; rewrite embed_embed; f_equal; lia).
  rewrite map_flat_map. apply flat_map_ext_in. intros x Hx. rewrite (IH x (e + 4)%nat) by (eapply odepth_kid; eassumption). f_equal. lia.
Qed.

Lemma spelled_top f n : (odepth n <= f)%nat -> text_of (olines 0 n) = tlines_at 0 n.
Proof.
  destruct n as [c body kids]. intros Hd. cbn [Outline.olines text_of map render_line tlines_at repeat app]. f_equal.
  rewrite map_map. rewrite (map_ext _ (embed_line 2)) by (intros [|k c' b']; reflexivity).
  rewrite map_flat_map. apply flat_map_ext_in. intros x Hx. destruct f as [|f]; [cbn [odepth] in Hd; lia|].
  rewrite (spelled_tree f x 2) by (eapply odepth_kid; eassumption). reflexivity.
Qed.

(* ---- base_level of a forest's entries ---- *)
Lemma flatten_levels lvl : forall f n e, (odepth n <= f)%nat -> In e (flatten lvl n) -> lvl <= fst e.
Proof.
  intros f. revert lvl. induction f as [|f IH]; intros lvl [c body kids] e Hd Hin; [cbn [odepth] in Hd; lia|].
  cbn [flatten] in Hin. destruct Hin as [<-|Hin]; [cbn; lia|]. apply in_flat_map in Hin as (x & Hx & Hin).
  specialize (IH (lvl + 1) x e (odepth_kid _ _ _ _ _ Hx Hd) Hin). lia.
Qed.

Lemma fold_min_ge (l : list (Z * str)) a lvl : lvl <= a -> (forall e, In e l -> lvl <= fst e) -> lvl <= fold_left (fun m x => Z.min m (fst x)) l a.
Proof. revert a. induction l as [|x r IH]; intros a Ha H; [exact Ha|]. cbn [fold_left]. apply IH; [|intros e He; apply H; right; exact He]. specialize (H x (or_introl eq_refl)). lia. Qed.
Lemma fold_min_le (l : list (Z * str)) a : fold_left (fun m x => Z.min m (fst x)) l a <= a.
Proof. revert a. induction l as [|x r IH]; intros a; [cbn; lia|]. cbn [fold_left]. specialize (IH (Z.min a (fst x))). lia. Qed.

Definition fdepth (ns : list onode) : nat := fold_right (fun x m => Nat.max (odepth x) m) 0%nat ns.
Lemma fdepth_in x ns : In x ns -> (odepth x <= fdepth ns)%nat.
Proof. induction ns as [|y r IH]; [intros []|]. cbn [fdepth fold_right]. intros [->|H]; [lia|specialize (IH H); unfold fdepth in IH; lia]. Qed.

Lemma base_of_forest lvl ns : ns <> [] -> base_level (flatten_forest lvl ns) = lvl.
Proof.
  intros Hne. destruct ns as [|[c body kids] r]; [contradiction|]. unfold flatten_forest. cbn [flat_map flatten app base_level fst].
  apply Z.le_antisymm; [apply fold_min_le|]. apply fold_min_ge; [lia|]. intros e He. apply in_app_or in He as [He|He].
  - apply in_flat_map in He as (x & Hx & He). pose proof (flatten_levels (lvl + 1) (odepth x) x e (le_n _) He). lia.
  - apply in_flat_map in He as (x & Hx & He). apply (flatten_levels lvl (odepth x) x e (le_n _) He).
Qed.

Theorem toc_lines_forest lvl ns : ns <> [] -> toc_lines (flatten_forest lvl ns) = text_of (oforest 0 ns).
Proof.
  intros Hne. unfold toc_lines. rewrite (base_of_forest lvl ns Hne). unfold flatten_forest, Outline.oforest, text_of.
  rewrite !map_flat_map. apply flat_map_ext_in. intros x Hx.
  pose proof (toc_lines_tree lvl (odepth x) x 0 (le_n _)) as A. replace (lvl + Z.of_nat 0) with lvl in A by lia. rewrite A.
  symmetry. apply (spelled_top (odepth x)). lia.
Qed.

(* ---- the depth fuel of the tokenizer suffices ---- *)
Lemma deep_toc_line : forall f n i, (odepth n <= f)%nat -> exists l, In l (tlines_at i n) /\ (i + 4 * (odepth n - 1) + 4 <= length l)%nat.
Proof.
  induction f as [|f IH]; intros [c body kids] i Hd; [cbn [odepth] in Hd; lia|].
  destruct kids as [|k0 kr] eqn:Ek.
  - exists (line_of i 45 (32 :: c :: body)). split; [left; reflexivity|]. cbn [odepth fold_right]. unfold line_of.
    rewrite app_length, repeat_length. cbn [length]. rewrite app_length. cbn [length]. lia.
  - rewrite <- Ek in *.
    assert (Hne : kids <> []) by (rewrite Ek; discriminate).
    assert (D : exists x, In x kids /\ fold_right (fun x m => Nat.max (odepth x) m) 0%nat kids = odepth x).
    { clear -Hne. induction kids as [|y r IHr]; [contradiction|]. destruct r as [|z r'].
      - exists y. split; [left; reflexivity|cbn [fold_right]; lia].
      - destruct (IHr ltac:(discriminate)) as (x & Hin & E). cbn [fold_right] in E |- *.
        destruct (Nat.max_spec (odepth y) (Nat.max (odepth z) (fold_right (fun x m => Nat.max (odepth x) m) 0%nat r'))) as [[_ ->]|[_ ->]].
        + exists x. split; [right; exact Hin|exact E].
        + exists y. split; [left; reflexivity|reflexivity]. }
    destruct D as (x & Hx & E). destruct (IH x (i + 4)%nat (odepth_kid _ _ _ _ _ Hx Hd)) as (l & Hl & Wl).
    exists l. split; [right; apply in_flat_map; exists x; split; assumption|]. cbn [odepth]. rewrite E.
    assert (1 <= odepth x)%nat by (destruct x; cbn [odepth]; lia). lia.
Qed.

Lemma toc_fuel ns : ns <> [] -> Forall (fun n => (odepth n <= S (fold_left (fun m l => Nat.max m (length l)) (text_of (oforest 0 ns)) 0))%nat) ns.
Proof.
  intros _. apply Forall_forall. intros x Hx.
  destruct (deep_toc_line (odepth x) x 0 (le_n _)) as (l & Hl & Wl).
  assert (Hin : In l (text_of (oforest 0 ns))).
  { unfold Outline.oforest, text_of. rewrite map_flat_map. apply in_flat_map. exists x. split; [exact Hx|].
    fold (text_of (olines 0 x)). rewrite (spelled_top (odepth x) x (le_n _)). exact Hl. }
  pose proof (longest_ge (text_of (oforest 0 ns)) l Hin 0%nat) as G.
  assert (1 <= odepth x)%nat by (destruct x; cbn [odepth]; lia). lia.
Qed.

(* ---- the table of contents of a forest ---- *)
Theorem toc_of_forest fn lvl ns : ns <> [] -> forallb owf ns = true ->
  toc_tokens fn (toc_lines (flatten_forest lvl ns)) = [List None false (map (otok 0) ns)].
Proof.
  intros Hne Hw. rewrite (toc_lines_forest lvl ns Hne). unfold toc_tokens, depth_fuel.
  set (f := S (fold_left (fun m l => Nat.max m (length l)) (text_of (oforest 0 ns)) 0%nat)).
  assert (Hok : Forall (node_ok f) ns).
  { pose proof (toc_fuel ns Hne) as F. rewrite Forall_forall in F. apply Forall_forall. intros x Hx. split; [apply F; exact Hx|].
    rewrite forallb_forall in Hw. apply Hw. exact Hx. }
  pose proof (outline_tokens 45 1 2 span_types_html false fn eq_refl block_types_html f ns 1 (mkPs true) 0
                (or_intror (or_introl eq_refl)) ltac:(lia) ltac:(lia) ltac:(lia) eq_refl) as T.
  destruct (tokenize_block block_types_html (S f) (text_of (oforest 0 ns)) 1 (mkPs true)) as [[es lo] st'].
  cbn [fst] in T. apply T; [|exact Hne|exact Hok]. vm_compute. auto 20.
Qed.

(* ---- from a list of headings to the forest it denotes ---- *)
Fixpoint parse_at (fuel : nat) (d : Z) (es : list (Z * str)) : list onode * list (Z * str) :=
  match fuel with
  | O => ([], es)
  | S fuel' =>
    match es with
    | (lv, c :: body) :: r =>
      if lv =? d then
        let kr := parse_at fuel' (d + 1) r in
        let sr := parse_at fuel' d (snd kr) in
        (ONode c body (fst kr) :: fst sr, snd sr)
      else ([], es)
    | _ => ([], es)
    end
  end.

Definition forest_of (hs : list (Z * str)) : list onode := fst (parse_at (S (length hs)) (base_level hs) hs).

Fixpoint stepwise (es : list (Z * str)) : Prop :=
  match es with
  | e1 :: ((e2 :: _) as r) => fst e2 <= fst e1 + 1 /\ stepwise r
  | _ => True
  end.
Definition head_le (d : Z) (es : list (Z * str)) : Prop := match es with [] => True | e :: _ => fst e <= d end.
Definition head_lt (d : Z) (es : list (Z * str)) : Prop := match es with [] => True | e :: _ => fst e < d end.
Definition titled (es : list (Z * str)) : Prop := Forall (fun e => snd e <> []) es.

Lemma stepwise_tail e r : stepwise (e :: r) -> stepwise r.
Proof. destruct r as [|e2 r']; [intros _; exact I|]. intros [_ H]. exact H. Qed.

Lemma stepwise_app_r a b : stepwise (a ++ b) -> stepwise b.
Proof. induction a as [|x r IH]; [auto|]. intros H. apply IH. change ((x :: r) ++ b) with (x :: (r ++ b)) in H. eapply stepwise_tail. exact H. Qed.

Lemma parse_ok : forall fuel d es, (length es < fuel)%nat -> stepwise es -> head_le d es -> titled es ->
  flatten_forest d (fst (parse_at fuel d es)) ++ snd (parse_at fuel d es) = es /\ head_lt d (snd (parse_at fuel d es)).
Proof.
  induction fuel as [|fuel IH]; intros d es Hl Hs Hh Ht; [lia|].
  destruct es as [|[lv t] r]; [split; [reflexivity|exact I]|].
  inversion Ht as [|? ? Ht1 Htr]; subst. cbn [snd] in Ht1. destruct t as [|c body]; [contradiction|].
  cbn [parse_at]. destruct (lv =? d) eqn:E.
  - apply Z.eqb_eq in E. subst lv. cbn [length] in Hl.
    assert (Hr : head_le (d + 1) r) by (destruct r as [|e2 r']; [exact I|destruct Hs as [H _]; cbn [fst] in H |- *; exact H]).
    destruct (IH (d + 1) r ltac:(lia) (stepwise_tail _ _ Hs) Hr Htr) as [E1 L1].
    set (kr := parse_at fuel (d + 1) r) in *.
    assert (Len : (length (snd kr) <= length r)%nat) by (pose proof (f_equal (@length (Z * str)) E1) as EL; rewrite app_length in EL; lia).
    assert (S1 : stepwise (snd kr)) by (apply (stepwise_app_r (flatten_forest (d + 1) (fst kr))); rewrite E1; eapply stepwise_tail; exact Hs).
    assert (H1 : head_le d (snd kr)) by (destruct (snd kr) as [|e r']; [exact I|cbn in L1 |- *; lia]).
    assert (T1 : titled (snd kr)).
    { unfold titled in *. rewrite <- E1 in Htr. apply Forall_app in Htr. apply Htr. }
    destruct (IH d (snd kr) ltac:(lia) S1 H1 T1) as [E2 L2].
    set (sr := parse_at fuel d (snd kr)) in *. cbn [fst snd]. split; [|exact L2].
    unfold flatten_forest in *. cbn [flat_map flatten]. rewrite <- !app_assoc. cbn [app]. f_equal. rewrite E2. exact E1.
  - cbn [fst snd flatten_forest flat_map app]. split; [reflexivity|]. cbn in Hh |- *. apply Z.eqb_neq in E. lia.
Qed.

(* the outline condition of the property: the first heading is at the shallowest level, levels never deepen by more than one *)
Fixpoint stepwiseb (es : list (Z * str)) : bool :=
  match es with
  | e1 :: ((e2 :: _) as r) => (fst e2 <=? fst e1 + 1) && stepwiseb r
  | _ => true
  end.
Definition outline_okb (hs : list (Z * str)) : bool :=
  match hs with
  | [] => false
  | e :: _ => forallb (fun x => fst e <=? fst x) hs && stepwiseb hs
  end.
Definition titles_okb (hs : list (Z * str)) : bool :=
  forallb (fun e => match snd e with c :: body => title_okb c body | [] => false end) hs.

Lemma stepwise_reflect es : stepwiseb es = true -> stepwise es.
Proof.
  induction es as [|e1 r IH]; [intros _; exact I|]. destruct r as [|e2 r']; [intros _; exact I|]. cbn [stepwiseb stepwise].
  intros H. apply andb_true_iff in H as [H1 H2]. apply Z.leb_le in H1. split; [exact H1|apply IH; exact H2].
Qed.

Lemma base_of_outline e r : forallb (fun x => fst e <=? fst x) (e :: r) = true -> base_level (e :: r) = fst e.
Proof.
  intros H. cbn [base_level]. apply Z.le_antisymm; [apply fold_min_le|]. apply fold_min_ge; [lia|].
  intros x Hx. rewrite forallb_forall in H. apply Z.leb_le. apply H. right. exact Hx.
Qed.

Theorem forest_of_outline hs : outline_okb hs = true -> titles_okb hs = true ->
  forest_of hs <> [] /\ flatten_forest (base_level hs) (forest_of hs) = hs.
Proof.
  intros Ho Ht. destruct hs as [|e r]; [discriminate|]. cbn [outline_okb] in Ho. apply andb_true_iff in Ho as [Hmin Hstep].
  pose proof (base_of_outline e r Hmin) as Eb. unfold forest_of. rewrite Eb.
  assert (Tt : titled (e :: r)).
  { apply Forall_forall. intros x Hx. unfold titles_okb in Ht. rewrite forallb_forall in Ht. specialize (Ht x Hx). destruct (snd x); [discriminate|discriminate]. }
  destruct (parse_ok (S (length (e :: r))) (fst e) (e :: r) ltac:(lia) (stepwise_reflect _ Hstep) ltac:(cbn; lia) Tt) as [E L].
  set (pr := parse_at (S (length (e :: r))) (fst e) (e :: r)) in *.
  assert (R : snd pr = []).
  { destruct (snd pr) as [|x rest] eqn:Er; [reflexivity|]. exfalso. cbn in L.
    assert (Hin : In x (e :: r)) by (rewrite <- E; apply in_or_app; right; left; reflexivity).
    rewrite forallb_forall in Hmin. specialize (Hmin x Hin). apply Z.leb_le in Hmin. lia. }
  rewrite R, app_nil_r in E. split; [|exact E].
  intros N. rewrite N in E. discriminate.
Qed.

Lemma owf_titles lvl : forall f n, (odepth n <= f)%nat -> titles_okb (flatten lvl n) = true -> owf n = true.
Proof.
  intros f. revert lvl. induction f as [|f IH]; intros lvl [c body kids] Hd Ht; [cbn [odepth] in Hd; lia|].
  unfold titles_okb in Ht. cbn [flatten forallb snd] in Ht. apply andb_true_iff in Ht as [H1 H2]. cbn [owf]. rewrite H1. cbn [andb].
  apply forallb_forall. intros x Hx. apply (IH (lvl + 1) x (odepth_kid _ _ _ _ _ Hx Hd)).
  unfold titles_okb. apply forallb_forall. intros e He. rewrite forallb_forall in H2. apply H2. apply in_flat_map. exists x. split; assumption.
Qed.

(* ---- C19: the table of contents is nested according to heading level ---- *)
Theorem toc_nested fn hs : outline_okb hs = true -> titles_okb hs = true ->
  flatten_forest (base_level hs) (forest_of hs) = hs /\
  toc_tokens fn (toc_lines hs) = [List None false (map (otok 0) (forest_of hs))].
Proof.
  intros Ho Ht. destruct (forest_of_outline hs Ho Ht) as [Hne E]. split; [exact E|].
  rewrite <- E at 1. apply toc_of_forest; [exact Hne|].
  apply forallb_forall. intros x Hx. apply (owf_titles (base_level hs) (odepth x) x (le_n _)).
  unfold titles_okb in *. apply forallb_forall. intros e He. rewrite forallb_forall in Ht. apply Ht. rewrite <- E.
  unfold flatten_forest. apply in_flat_map. exists x. split; assumption.
Qed.

Example toc_instance :
  let hs := [(2, $"Intro"); (3, $"Why"); (3, $"How so"); (4, $"Details"); (2, $"Usage"); (3, $"API")] in
  outline_okb hs = true /\ titles_okb hs = true /\
  forest_of hs = [ONode 73 $"ntro" [ONode 87 $"hy" []; ONode 72 $"ow so" [ONode 68 $"etails" []]]; ONode 85 $"sage" [ONode 65 $"PI" []]] /\
  toc_lines hs = [ $"- Intro" ++ [10]; $"    - Why" ++ [10]; $"    - How so" ++ [10]; $"        - Details" ++ [10]; $"- Usage" ++ [10]; $"    - API" ++ [10] ].
Proof. vm_compute. repeat split; reflexivity. Qed.
