(* The flanking predicates, follows, is_control_char and Delimiter.closed_by of the hand-written
   model (Model/CoreTokens.v) ARE the functions regenerated from mistletoe/core_tokens.py on this
   run (Gen/GenCore.v, written by harness/gen/gen_core.py from the source text): equal on every
   argument.  The theorems about flanking and the rule of three are thereby theorems about what
   the source says now; a change to one of these functions breaks these equalities. *)
From Coq Require Import ZArith List Bool.
From Mistletoe Require Import Base.Sx Base.PyStr Base.PyText Model.CoreTokens Gen.GenCore.
Import ListNotations.
Local Open Scope Z_scope.

Lemma preceded_by_regen start s p : g_preceded_by start s p = preceded_by start s p.
Proof. reflexivity. Qed.
Lemma succeeded_by_regen e s p : g_succeeded_by e s p = succeeded_by e s p.
Proof. reflexivity. Qed.
Lemma is_left_delimiter_regen a b s : g_is_left_delimiter a b s = is_left_delimiter a b s.
Proof. reflexivity. Qed.
Lemma is_right_delimiter_regen a b s : g_is_right_delimiter a b s = is_right_delimiter a b s.
Proof. reflexivity. Qed.
Lemma is_opener_regen a b s : g_is_opener a b s = is_opener a b s.
Proof. reflexivity. Qed.
Lemma is_closer_regen a b s : g_is_closer a b s = is_closer a b s.
Proof. reflexivity. Qed.
Lemma is_control_char_regen c : g_is_control_char c = is_control_char c.
Proof. reflexivity. Qed.
Lemma follows_regen s i c : g_follows s i c = follows s i c.
Proof. reflexivity. Qed.
Lemma closed_by_regen o c : g_closed_by o c = closed_by o c.
Proof. reflexivity. Qed.

Theorem core_functions_regenerated :
  (forall a b s, g_is_opener a b s = is_opener a b s /\ g_is_closer a b s = is_closer a b s /\
                 g_is_left_delimiter a b s = is_left_delimiter a b s /\ g_is_right_delimiter a b s = is_right_delimiter a b s) /\
  (forall i s p, g_preceded_by i s p = preceded_by i s p /\ g_succeeded_by i s p = succeeded_by i s p) /\
  (forall s i c, g_follows s i c = follows s i c) /\ (forall c, g_is_control_char c = is_control_char c) /\
  (forall o c, g_closed_by o c = closed_by o c).
Proof.
  split; [intros a b s; repeat split; reflexivity|]. split; [intros i s p; split; reflexivity|].
  split; [intros; reflexivity|]. split; intros; reflexivity.
Qed.

(* ---- the scanning loops of the inline-link parser: shift_whitespace, match_link_dest, match_link_title ----
   Each `for i, c in enumerate(string[E:], start=E)` loop of the source is a Fixpoint over the suffix in Gen/GenCore.v;
   the hand-written scanners of the model (shift_ws_aux, dest_angle, dest_plain, title_scan) compute the same thing.
   The index arguments are those the callers pass: inside the string. *)
From Coq Require Import Lia.

Lemma shift_loop_regen s idx : forall l i, i + slen l = slen s -> g_shift_whitespace_loop1 l i s idx = shift_ws_aux l i.
Proof.
  induction l as [|c r IH]; intros i H; cbn [g_shift_whitespace_loop1 shift_ws_aux].
  - unfold slen in *. cbn [length] in H. lia.
  - destruct (is_ws c); cbn [negb]; [|reflexivity]. apply IH. unfold slen in *. cbn [length] in H. lia.
Qed.

Lemma slen_drop i s : 0 <= i <= slen s -> i + slen (drop i s) = slen s.
Proof. intros H. unfold slen, drop in *. rewrite skipn_length. lia. Qed.

Lemma shift_whitespace_regen s i : 0 <= i <= slen s -> g_shift_whitespace s i = shift_whitespace s i.
Proof. intros H. unfold g_shift_whitespace, shift_whitespace. apply shift_loop_regen. apply slen_drop. exact H. Qed.

Lemma dest_angle_regen s off : forall l i esc,
  g_match_link_dest_loop1 l i s off esc = match dest_angle l i esc with Some j => Some (off, j + 1, substr s (off + 1) j) | None => None end.
Proof.
  induction l as [|c r IH]; intros i esc; cbn [g_match_link_dest_loop1 dest_angle]; [reflexivity|].
  destruct ((c =? 92) && negb esc); [apply IH|].
  destruct ((c =? 10) || (c =? 60) && negb esc); [reflexivity|].
  destruct ((c =? 62) && negb esc); [reflexivity|].
  destruct esc; apply IH.
Qed.

Lemma dest_plain_regen s off : forall l i esc count, count <> 0 ->
  g_match_link_dest_loop2 l i s off esc count = match dest_plain l i esc count with Some j => Some (off, j, substr s off j) | None => None end.
Proof.
  induction l as [|c r IH]; intros i esc count Hc; cbn [g_match_link_dest_loop2 dest_plain]; [reflexivity|].
  assert (E0 : (count =? 0) = false) by (apply Z.eqb_neq; exact Hc).
  destruct ((c =? 92) && negb esc).
  - rewrite E0. apply IH. exact Hc.
  - destruct (is_ws c); [reflexivity|]. destruct esc; cbn [negb].
    + change (g_is_control_char c) with (is_control_char c). destruct (is_control_char c); [reflexivity|]. rewrite E0. apply IH. exact Hc.
    + destruct (c =? 40).
      * destruct (count + 1 =? 0) eqn:E; [reflexivity|]. apply IH. apply Z.eqb_neq. exact E.
      * destruct (c =? 41).
        -- destruct (count - 1 =? 0) eqn:E; [reflexivity|]. apply IH. apply Z.eqb_neq. exact E.
        -- rewrite E0. apply IH. exact Hc.
Qed.

Lemma title_scan_regen1 s off : forall l i closing esc,
  g_match_link_title_loop1 l i s off closing esc = match title_scan l i closing esc with Some j => Some (off, j + 1, substr s (off + 1) j) | None => None end.
Proof.
  induction l as [|c r IH]; intros i closing esc; cbn [g_match_link_title_loop1 title_scan]; [reflexivity|].
  destruct ((c =? 92) && negb esc); [apply IH|]. destruct ((c =? closing) && negb esc); [reflexivity|]. destruct esc; apply IH.
Qed.
Lemma title_scan_regen2 s off : forall l i closing esc,
  g_match_link_title_loop2 l i s off closing esc = match title_scan l i closing esc with Some j => Some (off, j + 1, substr s (off + 1) j) | None => None end.
Proof.
  induction l as [|c r IH]; intros i closing esc; cbn [g_match_link_title_loop2 title_scan]; [reflexivity|].
  destruct ((c =? 92) && negb esc); [apply IH|]. destruct ((c =? closing) && negb esc); [reflexivity|]. destruct esc; apply IH.
Qed.
Lemma title_scan_regen3 s off : forall l i closing esc,
  g_match_link_title_loop3 l i s off closing esc = match title_scan l i closing esc with Some j => Some (off, j + 1, substr s (off + 1) j) | None => None end.
Proof.
  induction l as [|c r IH]; intros i closing esc; cbn [g_match_link_title_loop3 title_scan]; [reflexivity|].
  destruct ((c =? 92) && negb esc); [apply IH|]. destruct ((c =? closing) && negb esc); [reflexivity|]. destruct esc; apply IH.
Qed.

Theorem match_link_dest_regen s offset : 0 <= offset + 1 <= slen s -> g_match_link_dest s offset = match_link_dest s offset.
Proof.
  intros H. unfold g_match_link_dest, match_link_dest. cbv zeta. rewrite (shift_whitespace_regen s (offset + 1) H).
  destruct (shift_whitespace s (offset + 1) =? slen s); [reflexivity|].
  destruct (char_at s (shift_whitespace s (offset + 1)) =? 60).
  - apply dest_angle_regen.
  - apply dest_plain_regen. discriminate.
Qed.

Theorem match_link_title_regen s offset : 0 <= offset <= slen s -> g_match_link_title s offset = match_link_title s offset.
Proof.
  intros H. unfold g_match_link_title, match_link_title. cbv zeta. rewrite (shift_whitespace_regen s offset H).
  set (off := shift_whitespace s offset).
  destruct (off =? slen s); [reflexivity|].
  destruct (char_at s off =? 41); [reflexivity|].
  destruct (char_at s off =? 34); [cbn [Z.eqb]; apply title_scan_regen1|].
  destruct (char_at s off =? 39); [cbn [Z.eqb]; apply title_scan_regen2|].
  destruct (char_at s off =? 40); [cbn [Z.eqb]; apply title_scan_regen3|reflexivity].
Qed.

(* ---- the scanners of link reference definitions: block_token.Footnote.match_link_label / _dest / _title ----
   (the plain-destination loop ends by `break` at white space or by exhaustion, and the code after it reads the loop
   index: the translation passes the index to a definition of its own, i - 1 when the loop ran out) *)
From Mistletoe Require Import Model.Block.

Lemma fn_label_regen s offset : forall l i start esc,
  g_fn_match_link_label_loop1 l i s offset start esc =
  match fn_label_scan l i offset start esc with
  | Some (st, en) => let label := substr s (st + 1) en in if negb (is_blank label) then Some (st, en + 1, label) else None
  | None => None
  end.
Proof.
  induction l as [|c r IH]; intros i start esc; cbn [g_fn_match_link_label_loop1 fn_label_scan]; [reflexivity|]. cbv zeta beta.
  destruct esc.
  - destruct ((start =? -1) && negb ((c =? 32) && (i - offset <? 3))); [reflexivity|apply IH].
  - destruct (c =? 92).
    + destruct ((start =? -1) && negb ((c =? 32) && (i - offset <? 3))); [reflexivity|apply IH].
    + destruct (c =? 91).
      * destruct (start =? -1); [|reflexivity]. destruct ((i =? -1) && negb ((c =? 32) && (i - offset <? 3))); [reflexivity|apply IH].
      * destruct (c =? 93); [reflexivity|]. destruct ((start =? -1) && negb ((c =? 32) && (i - offset <? 3))); [reflexivity|apply IH].
Qed.

Theorem fn_match_label_regen s offset : g_fn_match_link_label s offset = fn_match_label s offset.
Proof.
  unfold g_fn_match_link_label, fn_match_label. cbv zeta. rewrite fn_label_regen.
  destruct (fn_label_scan (drop offset s) offset offset (-1) false) as [[st en]|]; reflexivity.
Qed.

Lemma fn_dest_angle_regen s off : forall l i esc,
  g_fn_match_link_dest_loop1 l i s off esc = match fn_dest_angle l i esc with Some j => Some (off, j + 1, substr s (off + 1) j) | None => None end.
Proof.
  induction l as [|c r IH]; intros i esc; cbn [g_fn_match_link_dest_loop1 fn_dest_angle]; [reflexivity|].
  destruct ((c =? 92) && negb esc); [apply IH|].
  destruct ((c =? 10) || (c =? 60) && negb esc); [reflexivity|].
  destruct ((c =? 62) && negb esc); [reflexivity|].
  destruct esc; apply IH.
Qed.

Lemma fn_dest_plain_regen s off : forall l i esc count,
  g_fn_match_link_dest_loop2 l i s off esc count =
  match fn_dest_plain l i esc count with
  | Some (j, cnt) => if negb (cnt =? 0) then None else Some (off, j, substr s off j)
  | None => None
  end.
Proof.
  induction l as [|c r IH]; intros i esc count; cbn [g_fn_match_link_dest_loop2 fn_dest_plain]; [reflexivity|].
  destruct ((c =? 92) && negb esc); [apply IH|].
  destruct (is_ws c); [reflexivity|]. destruct esc; cbn [negb].
  - change (g_is_control_char c) with (is_control_char c). destruct (is_control_char c); [reflexivity|apply IH].
  - destruct (c =? 40); [apply IH|]. destruct (c =? 41); apply IH.
Qed.

Theorem fn_match_dest_regen s offset : g_fn_match_link_dest s offset = fn_match_dest s offset.
Proof.
  unfold g_fn_match_link_dest, fn_match_dest. cbv zeta. destruct (char_at s offset =? 60).
  - apply fn_dest_angle_regen.
  - rewrite fn_dest_plain_regen. destruct (fn_dest_plain (drop offset s) offset false 0) as [[j cnt]|]; reflexivity.
Qed.

Lemma fn_title_regen1 s off : forall l i closing esc,
  g_fn_match_link_title_loop1 l i s off closing esc = match title_scan l i closing esc with Some j => Some (off, j + 1, substr s (off + 1) j) | None => None end.
Proof.
  induction l as [|c r IH]; intros i closing esc; cbn [g_fn_match_link_title_loop1 title_scan]; [reflexivity|].
  destruct ((c =? 92) && negb esc); [apply IH|]. destruct ((c =? closing) && negb esc); [reflexivity|]. destruct esc; apply IH.
Qed.
Lemma fn_title_regen2 s off : forall l i closing esc,
  g_fn_match_link_title_loop2 l i s off closing esc = match title_scan l i closing esc with Some j => Some (off, j + 1, substr s (off + 1) j) | None => None end.
Proof.
  induction l as [|c r IH]; intros i closing esc; cbn [g_fn_match_link_title_loop2 title_scan]; [reflexivity|].
  destruct ((c =? 92) && negb esc); [apply IH|]. destruct ((c =? closing) && negb esc); [reflexivity|]. destruct esc; apply IH.
Qed.
Lemma fn_title_regen3 s off : forall l i closing esc,
  g_fn_match_link_title_loop3 l i s off closing esc = match title_scan l i closing esc with Some j => Some (off, j + 1, substr s (off + 1) j) | None => None end.
Proof.
  induction l as [|c r IH]; intros i closing esc; cbn [g_fn_match_link_title_loop3 title_scan]; [reflexivity|].
  destruct ((c =? 92) && negb esc); [apply IH|]. destruct ((c =? closing) && negb esc); [reflexivity|]. destruct esc; apply IH.
Qed.

Theorem fn_match_title_regen s offset : g_fn_match_link_title s offset = fn_match_title s offset.
Proof.
  unfold g_fn_match_link_title, fn_match_title. cbv zeta. destruct (offset =? slen s); [reflexivity|].
  destruct (char_at s offset =? 34); [cbn [Z.eqb]; apply fn_title_regen1|].
  destruct (char_at s offset =? 39); [cbn [Z.eqb]; apply fn_title_regen2|].
  destruct (char_at s offset =? 40); [cbn [Z.eqb]; apply fn_title_regen3|reflexivity].
Qed.
