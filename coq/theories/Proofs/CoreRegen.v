(* The flanking predicates, follows, is_control_char and Delimiter.closed_by of the hand-written
   model (Model/CoreTokens.v) ARE the functions regenerated from mistletoe/core_tokens.py on this
   run (Gen/GenCore.v, written by harness/gen/gen_core.py from the source text): equal on every
   argument.  The theorems about flanking and the rule of three are thereby theorems about what
   the source says now; a change to one of these functions breaks these equalities. *)
From Coq Require Import ZArith List Bool.
From Mistletoe Require Import Base.Sx Base.PyStr Base.PyText Model.CoreTokens Gen.GenCore.
Import ListNotations.
Local Open Scope Z_scope.

Lemma preceded_by_regen start s p : g_preceded_by start s p = preceded_by start s p.
Proof. reflexivity. Qed.
Lemma succeeded_by_regen e s p : g_succeeded_by e s p = succeeded_by e s p.
Proof. reflexivity. Qed.
Lemma is_left_delimiter_regen a b s : g_is_left_delimiter a b s = is_left_delimiter a b s.
Proof. reflexivity. Qed.
Lemma is_right_delimiter_regen a b s : g_is_right_delimiter a b s = is_right_delimiter a b s.
Proof. reflexivity. Qed.
Lemma is_opener_regen a b s : g_is_opener a b s = is_opener a b s.
Proof. reflexivity. Qed.
Lemma is_closer_regen a b s : g_is_closer a b s = is_closer a b s.
Proof. reflexivity. Qed.
Lemma is_control_char_regen c : g_is_control_char c = is_control_char c.
Proof. reflexivity. Qed.
Lemma follows_regen s i c : g_follows s i c = follows s i c.
Proof. reflexivity. Qed.
Lemma closed_by_regen o c : g_closed_by o c = closed_by o c.
Proof. reflexivity. Qed.

Theorem core_functions_regenerated :
  (forall a b s, g_is_opener a b s = is_opener a b s /\ g_is_closer a b s = is_closer a b s /\
                 g_is_left_delimiter a b s = is_left_delimiter a b s /\ g_is_right_delimiter a b s = is_right_delimiter a b s) /\
  (forall i s p, g_preceded_by i s p = preceded_by i s p /\ g_succeeded_by i s p = succeeded_by i s p) /\
  (forall s i c, g_follows s i c = follows s i c) /\ (forall c, g_is_control_char c = is_control_char c) /\
  (forall o c, g_closed_by o c = closed_by o c).
Proof.
  split; [intros a b s; repeat split; reflexivity|]. split; [intros i s p; split; reflexivity|].
  split; [intros; reflexivity|]. split; intros; reflexivity.
Qed.
