(* Exact evaluation of the backtracking matcher on the simple shapes the list patterns are
   made of: a character class, a greedy repetition of a character class over a maximal run,
   alternatives whose first branch cannot start, capture groups; and what a finished match
   holds in its groups when the whole prefix read so far is known. *)
From Coq Require Import ZArith List Bool Lia.
From Mistletoe Require Import Base.Sx Base.PyStr Base.PyText Gen.GenTables Re.ReMatch Proofs.ReFirst.
Import ListNotations.
Local Open Scope Z_scope.

Definition is_char_re (r : re) : bool :=
  match r with Lit _ | NotLit _ | Any | Set_ _ _ => true | _ => false end.

(* the state after reading `run` *)
Definition adv_run (s : mst) (run rest : str) : mst :=
  mkMst (rev run ++ bef s) rest (pos s + slen run) (grp s).

Lemma adv_run_nil s : adv_run s [] (aft s) = s.
Proof. destruct s. unfold adv_run, slen. cbn. f_equal. lia. Qed.

Lemma adv_run_cons s c run rest : adv_run (advance s c (run ++ rest)) run rest = adv_run s (c :: run) rest.
Proof.
  unfold adv_run, advance, slen. cbn [bef aft pos grp rev length]. f_equal.
  - rewrite <- app_assoc. reflexivity.
  - lia.
Qed.

Section Exact.
  Variable fl : flags.

  Lemma m_char r s c t k : is_char_re r = true -> aft s = c :: t ->
    m fl r s k = if char_ok fl r c then k (advance s c t) else None.
  Proof. intros Hr Ha. destruct r; try discriminate; cbn [m]; rewrite Ha; reflexivity. Qed.

  Lemma m_char_nil r s k : is_char_re r = true -> aft s = [] -> m fl r s k = None.
  Proof. intros Hr Ha. destruct r; try discriminate; cbn [m]; rewrite Ha; reflexivity. Qed.

  Definition stops (r : re) (rest : str) : Prop := match rest with [] => True | c :: _ => char_ok fl r c = false end.

  (* a greedy repetition over a maximal run of the class, when what follows accepts that run *)
  Lemma greedy_run r mn mx k v rest : is_char_re r = true -> stops r rest ->
    forall run s cnt fuel,
      aft s = run ++ rest -> forallb (char_ok fl r) run = true ->
      (mn <= cnt + length run)%nat -> (forall x, mx = Some x -> (cnt + length run <= x)%nat) ->
      (length run < length fuel)%nat ->
      k (adv_run s run rest) = Some v ->
      loop (m fl r) true mn mx k fuel cnt s = Some v.
  Proof.
    intros Hr Hst. induction run as [|c run IH]; intros s cnt fuel Ha Hall Hmn Hmx Hf Hk.
    - cbn [app] in Ha. assert (Es : adv_run s [] rest = s) by (rewrite <- Ha; apply adv_run_nil). rewrite Es in Hk.
      destruct fuel as [|x fuel]; [cbn [length] in Hf; lia|]. cbn [loop].
      assert (More : (if under mx cnt then m fl r s (fun s' => if Nat.leb mn cnt && (pos s' =? pos s) then None else loop (m fl r) true mn mx k fuel (S cnt) s') else None) = None).
      { destruct (under mx cnt); [|reflexivity]. destruct rest as [|d t].
        - apply m_char_nil; assumption.
        - rewrite (m_char r s d t _ Hr Ha). cbn [stops] in Hst. rewrite Hst. reflexivity. }
      rewrite More. assert (Nat.ltb cnt mn = false) as -> by (apply Nat.ltb_ge; cbn [length] in Hmn; lia).
      cbn [orelse]. exact Hk.
    - cbn [app] in Ha. cbn [forallb] in Hall. apply andb_true_iff in Hall as [Hc Hall].
      destruct fuel as [|x fuel]; [cbn [length] in Hf; lia|]. cbn [loop].
      assert (Eu : under mx cnt = true).
      { unfold under. destruct mx as [xm|]; [|reflexivity]. apply Nat.ltb_lt. specialize (Hmx xm eq_refl). cbn [length] in Hmx. lia. }
      rewrite Eu. rewrite (m_char r s c (run ++ rest) _ Hr Ha), Hc.
      assert (Ep : (pos (advance s c (run ++ rest)) =? pos s) = false) by (cbn [advance pos]; apply Z.eqb_neq; lia).
      rewrite Ep, andb_false_r.
      assert (R : loop (m fl r) true mn mx k fuel (S cnt) (advance s c (run ++ rest)) = Some v).
      { assert (G1 : (mn <= S cnt + length run)%nat) by (cbn [length] in Hmn; lia).
        assert (G2 : forall xm, mx = Some xm -> (S cnt + length run <= xm)%nat) by (intros xm Hx; specialize (Hmx xm Hx); cbn [length] in Hmx; lia).
        assert (G3 : (length run < length fuel)%nat) by (cbn [length] in Hf; lia).
        assert (G4 : k (adv_run (advance s c (run ++ rest)) run rest) = Some v) by (rewrite adv_run_cons; exact Hk).
        exact (IH (advance s c (run ++ rest)) (S cnt) fuel eq_refl Hall G1 G2 G3 G4). }
      rewrite R. destruct (Nat.ltb cnt mn); reflexivity.
  Qed.

  Corollary m_greedy r mn mx s k v run rest : is_char_re r = true -> stops r rest ->
    aft s = run ++ rest -> forallb (char_ok fl r) run = true ->
    (mn <= length run)%nat -> (forall x, mx = Some x -> (length run <= x)%nat) ->
    k (adv_run s run rest) = Some v ->
    m fl (Rep true mn mx r) s k = Some v.
  Proof.
    intros Hr Hst Ha Hall Hmn Hmx Hk. cbn [m].
    apply (greedy_run r mn mx k v rest Hr Hst run s 0%nat).
    - exact Ha.
    - exact Hall.
    - lia.
    - intros x Hx. specialize (Hmx x Hx). lia.
    - rewrite app_length, repeat_length. cbn [length]. rewrite Ha, app_length. lia.
    - exact Hk.
  Qed.

  (* ... and when what follows rejects every prefix of the run, the repetition fails *)
  Lemma greedy_none r mn mx k rest : is_char_re r = true -> stops r rest ->
    forall fuel run s cnt,
      aft s = run ++ rest -> forallb (char_ok fl r) run = true ->
      (forall j, (j <= length run)%nat -> k (adv_run s (firstn j run) (skipn j run ++ rest)) = None) ->
      loop (m fl r) true mn mx k fuel cnt s = None.
  Proof.
    intros Hr Hst. induction fuel as [|x fuel IH]; intros run s cnt Ha Hall Hk.
    - cbn [loop]. destruct (Nat.ltb cnt mn); [reflexivity|].
      specialize (Hk 0%nat (Nat.le_0_l _)). cbn [firstn skipn] in Hk. rewrite <- Ha, adv_run_nil in Hk. exact Hk.
    - cbn [loop].
      assert (K0 : k s = None).
      { specialize (Hk 0%nat (Nat.le_0_l _)). cbn [firstn skipn] in Hk. rewrite <- Ha, adv_run_nil in Hk. exact Hk. }
      assert (More : (if under mx cnt then m fl r s (fun s' => if Nat.leb mn cnt && (pos s' =? pos s) then None else loop (m fl r) true mn mx k fuel (S cnt) s') else None) = None).
      { destruct (under mx cnt); [|reflexivity]. destruct run as [|c run].
        - cbn [app] in Ha. destruct rest as [|d t]; [apply m_char_nil; assumption|].
          rewrite (m_char r s d t _ Hr Ha). cbn [stops] in Hst. rewrite Hst. reflexivity.
        - cbn [app] in Ha. cbn [forallb] in Hall. apply andb_true_iff in Hall as [Hc Hall].
          rewrite (m_char r s c (run ++ rest) _ Hr Ha), Hc.
          destruct (Nat.leb mn cnt && _); [reflexivity|].
          apply (IH run (advance s c (run ++ rest)) (S cnt) eq_refl Hall).
          intros j Hj. specialize (Hk (S j) (le_n_S _ _ Hj)). cbn [firstn skipn] in Hk.
          rewrite <- adv_run_cons in Hk.
          replace (firstn j run ++ skipn j run ++ rest) with (run ++ rest) in Hk by (rewrite app_assoc, firstn_skipn; reflexivity).
          exact Hk. }
      rewrite More. destruct (Nat.ltb cnt mn); [reflexivity|]. cbn [orelse]. exact K0.
  Qed.

  Corollary m_greedy_none r mn mx s k run rest : is_char_re r = true -> stops r rest ->
    aft s = run ++ rest -> forallb (char_ok fl r) run = true ->
    (forall j, (j <= length run)%nat -> k (adv_run s (firstn j run) (skipn j run ++ rest)) = None) ->
    m fl (Rep true mn mx r) s k = None.
  Proof. intros Hr Hst Ha Hall Hk. cbn [m]. eapply greedy_none; eassumption. Qed.

  Lemma m_seq a b s k : m fl (Seq a b) s k = m fl a s (fun s' => m fl b s' k).
  Proof. reflexivity. Qed.
  Lemma m_grp n r s k : m fl (Grp n r) s k = m fl r s (fun s' => k (set_grp n (pos s) (pos s') s')).
  Proof. reflexivity. Qed.
  Lemma m_alt a b s k : m fl (Alt a b) s k = orelse (m fl a s k) (fun _ => m fl b s k).
  Proof. reflexivity. Qed.
  Lemma m_eol s k : m fl Eol s k = if at_eol fl s then k s else None.
  Proof. reflexivity. Qed.

  Lemma m_alt_second a b s k c t : nomatch fl a c = true -> aft s = c :: t -> m fl (Alt a b) s k = m fl b s k.
  Proof. intros Hn Ha. cbn [m]. rewrite (nomatch_sound fl a c s k t Hn Ha). reflexivity. Qed.
End Exact.

Lemma at_eol_not_nl fl s c r : aft s = c :: r -> (c =? 10) = false -> at_eol fl s = false.
Proof.
  intros Ha Hc. unfold at_eol. rewrite Ha.
  destruct c as [|p|p]; try (rewrite andb_false_r; reflexivity).
  do 4 (destruct p as [p|p|]; try (rewrite andb_false_r; reflexivity)); discriminate.
Qed.

(* ---- what the groups of a finished match hold, when everything read so far is known ---- *)
Lemma segment_known s l a b : bef s = rev l -> pos s = slen l -> 0 <= a -> a <= b -> b <= slen l ->
  segment s a b = firstn (Z.to_nat (b - a)) (skipn (Z.to_nat a) l).
Proof.
  intros Hb Hp Ha Hab Hbl. unfold segment. rewrite Hb, Hp. f_equal.
  unfold slen in *.
  replace (Z.to_nat (Z.of_nat (length l) - a)) with (length l - Z.to_nat a)%nat by lia.
  rewrite <- (rev_length l) at 1. rewrite <- skipn_rev. rewrite rev_involutive. reflexivity.
Qed.
