(* Proofs about Model/LatexRenderer.v over ALL token trees. *)
From Coq Require Import ZArith List Bool Lia.
From Mistletoe Require Import Base.Sx Base.PyStr Model.Fillers Model.Tree Gen.GenLatex
     Model.LatexRenderer Spec.HtmlSpec Spec.LatexSpec Proofs.HtmlSafe.
Import ListNotations.
Local Open Scope Z_scope.

(* ------------------------------------------------------------------ *)
(* escaped text *)

Lemma strip_prefix_spec p s r : strip_prefix p s = Some r -> s = p ++ r.
Proof.
  revert s; induction p as [|x p IH]; intros s H; cbn in *.
  - now inversion H.
  - destruct s as [|y s]; [discriminate|]. destruct (Z.eqb_spec x y); [|discriminate].
    subst. f_equal. auto.
Qed.

Lemma escb_sound fuel : forall s, escb fuel s = true -> Esc s.
Proof.
  induction fuel as [|f IH]; intros s H; [discriminate|].
  destruct s as [|c r]; [constructor|]. cbn [escb] in H.
  destruct (Z.eqb_spec c 92).
  - subst. apply existsb_exists in H. destruct H as (e & He & H).
    destruct (strip_prefix e r) as [rest|] eqn:E; [|discriminate].
    apply strip_prefix_spec in E. subst r. apply Esc_seq; auto.
  - apply andb_true_iff in H. destruct H as [H1 H2]. apply negb_true_iff in H1.
    apply Esc_plain; auto.
Qed.

Lemma Esc_app a b : Esc a -> Esc b -> Esc (a ++ b).
Proof.
  induction 1; intros Hb; cbn; auto.
  - apply Esc_plain; auto.
  - rewrite <- app_assoc. apply Esc_seq; auto.
Qed.

Lemma Esc_flat_map (g : Z -> str) s : (forall c, Esc (g c)) -> Esc (flat_map g s).
Proof. intros Hg. induction s; cbn; [constructor|apply Esc_app; auto]. Qed.

Fixpoint keys (l : list (Z * str)) : list Z := match l with [] => [] | (k, _) :: r => k :: keys r end.

Lemma assoc_none c l : ~ In c (keys l) -> assoc c l = None.
Proof.
  induction l as [|[k v] l IH]; cbn; intros H; [reflexivity|].
  destruct (Z.eqb_spec c k); [subst; tauto|]. apply IH. tauto.
Qed.

Definition table_ok : bool :=
  forallb (fun c => latex_escapedb (latex_escape_char c)) (keys latex_text_table ++ specials).

Lemma latex_escape_Esc s : table_ok = true -> Esc (latex_escape s).
Proof.
  intros H. apply Esc_flat_map. intros c. unfold table_ok in H. rewrite forallb_forall in H.
  destruct (in_dec Z.eq_dec c (keys latex_text_table ++ specials)) as [Hi|Hn].
  - apply (escb_sound _ _ (H c Hi)).
  - unfold latex_escape_char. rewrite assoc_none by (intro; apply Hn; apply in_or_app; auto).
    apply Esc_plain; [|constructor].
    unfold is_special, mem. apply not_true_is_false. intro Hm. apply existsb_exists in Hm.
    destruct Hm as (x & Hx & E). apply Z.eqb_eq in E. subst. apply Hn. apply in_or_app. auto.
Qed.

(* ------------------------------------------------------------------ *)
(* URL arguments *)

Lemma UrlOk_app a b : UrlOk a -> UrlOk b -> UrlOk (a ++ b).
Proof. induction 1; intros; cbn; auto; [apply UrlOk_plain|apply UrlOk_esc]; auto. Qed.

Lemma urlb_sound_n n : forall s, (length s <= n)%nat -> urlb s = true -> UrlOk s.
Proof.
  induction n as [|n IH]; intros s Hl H.
  - destruct s; [constructor|cbn in Hl; lia].
  - destruct s as [|c r]; [constructor|]. cbn in H, Hl.
    destruct (Z.eqb_spec c 92).
    + destruct r as [|c2 r2]; [discriminate|]. apply andb_true_iff in H. destruct H as [H1 H2].
      subst. apply UrlOk_esc.
      * apply orb_true_iff in H1. destruct H1 as [H1|H1]; apply Z.eqb_eq in H1; auto.
      * apply IH; auto. cbn in Hl. lia.
    + apply andb_true_iff in H. destruct H as [H1 H2]. apply UrlOk_plain; auto. apply IH; auto. lia.
Qed.
Lemma urlb_sound s : urlb s = true -> UrlOk s.
Proof. apply (urlb_sound_n (length s)). lia. Qed.

(* sequential single-character replacements = one per-character map *)
Definition lchain_apply (ch : list (Z * str)) (s : str) : str :=
  fold_left (fun acc e => replace_char (fst e) (snd e) acc) ch s.
Definition lcmap (ch : list (Z * str)) (x : Z) : str := lchain_apply ch [x].

Lemma lchain_flat ch : forall s, lchain_apply ch s = flat_map (lcmap ch) s.
Proof.
  induction ch as [|e ch IH]; intros s.
  - unfold lcmap, lchain_apply. cbn. induction s; cbn; congruence.
  - unfold lchain_apply in *. cbn [fold_left]. rewrite IH. unfold replace_char at 1.
    rewrite flat_map_flat_map. apply flat_map_ext. intros x.
    unfold lcmap at 2. unfold lchain_apply. cbn [fold_left]. rewrite IH.
    unfold replace_char. cbn. now rewrite app_nil_r.
Qed.

Definition range16 : list Z := [0;1;2;3;4;5;6;7;8;9;10;11;12;13;14;15].
Fixpoint upto (n : nat) : list Z := match n with O => [] | S k => upto k ++ [Z.of_nat k] end.

Lemma upto_in n c : 0 <= c < Z.of_nat n -> In c (upto n).
Proof.
  induction n as [|n IH]; intros H; [lia|]. cbn. apply in_or_app.
  destruct (Z.eq_dec c (Z.of_nat n)); [right; cbn; auto|left; apply IH; lia].
Qed.

Definition url_ok : bool :=
  forallb (fun c => urlb (flat_map (lcmap latex_url_chain) (quote_char latex_url_safe c))) (upto 128) &&
  forallb (fun d1 => forallb (fun d2 =>
     urlb (flat_map (lcmap latex_url_chain) [37; hex_digit d1; hex_digit d2])) range16) range16.

Lemma range16_in d : 0 <= d < 16 -> In d range16.
Proof. intros H. assert (d = 0 \/ d = 1 \/ d = 2 \/ d = 3 \/ d = 4 \/ d = 5 \/ d = 6 \/ d = 7 \/ d = 8 \/ d = 9 \/
  d = 10 \/ d = 11 \/ d = 12 \/ d = 13 \/ d = 14 \/ d = 15) by lia. cbn. intuition. Qed.

Lemma latex_escape_url_ok s : url_ok = true -> UrlOk (latex_escape_url s).
Proof.
  intros H. unfold url_ok in H. apply andb_true_iff in H. destruct H as [H1 H2].
  rewrite forallb_forall in H1, H2.
  unfold latex_escape_url. fold (lchain_apply latex_url_chain (quote latex_url_safe s)).
  rewrite lchain_flat. unfold quote. rewrite flat_map_flat_map.
  induction s as [|c s IH]; cbn [flat_map]; [constructor|]. apply UrlOk_app; [|exact IH]. clear IH.
  destruct (Z_lt_ge_dec c 0) as [Hneg|Hpos]; [|destruct (Z_lt_ge_dec c 128) as [Hlt|Hge]].
  3:{ (* encoded *)
    unfold quote_char. destruct (Z.ltb_spec c 128); [lia|]. cbn [andb].
    rewrite flat_map_flat_map. generalize (utf8 c). intros bs.
    induction bs as [|b bs IHb]; cbn [flat_map]; [constructor|]. apply UrlOk_app; [|exact IHb].
    apply urlb_sound. unfold pct.
    assert (Hd1 : In ((b / 16) mod 16) range16) by (apply range16_in; apply Z.mod_pos_bound; lia).
    assert (Hd2 : In (b mod 16) range16) by (apply range16_in; apply Z.mod_pos_bound; lia).
    specialize (H2 _ Hd1). rewrite forallb_forall in H2. exact (H2 _ Hd2). }
  2:{ apply urlb_sound. apply H1. apply upto_in. lia. }
  (* negative numbers are not code points; quote_char encodes them like any other non-safe value *)
  unfold quote_char. assert (Hs : always_safe c || mem c latex_url_safe = false).
  { apply orb_false_iff. split.
    - unfold always_safe, is_alnum_ascii.
      repeat match goal with |- context [?a <=? ?b] => destruct (Z.leb_spec a b); try lia end;
      repeat match goal with |- context [?a =? ?b] => destruct (Z.eqb_spec a b); try lia end; reflexivity.
    - unfold mem. apply not_true_is_false. intro Hm. apply existsb_exists in Hm. destruct Hm as (x & Hx & E).
      apply Z.eqb_eq in E. subst x.
      assert (Hall : forallb (fun x => 0 <=? x) latex_url_safe = true) by (vm_compute; reflexivity).
      rewrite forallb_forall in Hall. specialize (Hall _ Hx). apply Z.leb_le in Hall. lia. }
  rewrite Hs, andb_false_r.
  rewrite flat_map_flat_map. generalize (utf8 c). intros bs.
  induction bs as [|b bs IHb]; cbn [flat_map]; [constructor|]. apply UrlOk_app; [|exact IHb].
  apply urlb_sound. unfold pct.
  assert (Hd1 : In ((b / 16) mod 16) range16) by (apply range16_in; apply Z.mod_pos_bound; lia).
  assert (Hd2 : In (b mod 16) range16) by (apply range16_in; apply Z.mod_pos_bound; lia).
  specialize (H2 _ Hd1). rewrite forallb_forall in H2. exact (H2 _ Hd2).
Qed.

(* ------------------------------------------------------------------ *)
(* items *)

Definition litem_ok (i : litem) : Prop :=
  match i with
  | LText s => Esc s
  | LCmd s => no_braceb s = true
  | LUrl s => UrlOk s
  | LArg s => plain_argb s = true
  | _ => True
  end.

(* the recorded findings: attributes that the templates write raw *)
Fixpoint kf_free (t : tok) : bool :=
  let all := forallb kf_free in
  match t with
  | Image a _ => plain_argb (l_target a)
  | CodeFence a => plain_argb (f_language a)
  | Strong _ ch | Emphasis _ ch | Strikethrough ch | Link _ ch
  | AutoLink _ _ ch | EscapeSequence ch | Heading _ _ ch | SetextHeading _ _ ch
  | Quote ch | Paragraph ch | List _ _ ch | ListItem _ ch
  | TableRow _ ch | TableCell _ ch | Document ch => all ch
  | Table _ h ch => match h with Some h' => kf_free h' | None => true end && all ch
  | _ => true
  end.

Definition hole_ok (f : filler) : bool :=
  match f with FEscapeUrl => url_ok | FEscapeText => table_ok | _ => false end.

Definition latex_side_conditions : bool :=
  table_ok && url_ok && hole_ok latex_link_target && hole_ok latex_autolink_target.

Lemma latex_side_conditions_hold : latex_side_conditions = true.
Proof. vm_compute. reflexivity. Qed.

Lemma lsc : table_ok = true /\ url_ok = true /\ hole_ok latex_link_target = true /\ hole_ok latex_autolink_target = true.
Proof.
  pose proof latex_side_conditions_hold as H. unfold latex_side_conditions in H.
  rewrite !andb_true_iff in H. tauto.
Qed.

Lemma lfill_ok f s : hole_ok f = true -> litem_ok (lfill f s).
Proof.
  destruct f; cbn [hole_ok lfill litem_ok]; intros H; try discriminate.
  - now apply latex_escape_url_ok.
  - now apply latex_escape_Esc.
Qed.

(* raw holes: harmless exactly when the attribute is plain *)
Lemma lfill_raw_ok f s : plain_argb s = true -> hole_ok f = true \/ f = FRaw \/ f = FHtmlEscape -> litem_ok (lfill f s).
Proof.
  intros Hp [H|[H|H]]; [now apply lfill_ok|subst; exact Hp|subst; exact Hp].
Qed.

Definition all_lok (l : list litem) : Prop := Forall litem_ok l.
Lemma lok_app a b : all_lok a -> all_lok b -> all_lok (a ++ b).
Proof. intros; apply Forall_app; auto. Qed.
Lemma lok_flat {A} (f : A -> list litem) ch : Forall (fun c => all_lok (f c)) ch -> all_lok (flat_map f ch).
Proof. induction 1; cbn; [constructor|apply lok_app; auto]. Qed.

Lemma lok_one i : litem_ok i -> all_lok [i].
Proof. intros; repeat constructor; auto. Qed.
Lemma lok_cons i l : litem_ok i -> all_lok l -> all_lok (i :: l).
Proof. intros; constructor; auto. Qed.
Lemma lok_group l : all_lok l -> all_lok (group l).
Proof. intros H. unfold group. apply lok_cons; [exact I|]. apply lok_app; [auto|apply lok_one; exact I]. Qed.

Ltac lih IH Hwf :=
  match goal with
  | |- Forall _ ?ch =>
    apply Forall_forall; intros ?c ?Hc;
    rewrite Forall_forall in IH; apply IH; auto;
    try (rewrite forallb_forall in Hwf; apply Hwf; auto)
  end.

Local Arguments lfill : simpl never.
Local Arguments no_braceb : simpl never.

Lemma no_brace_join sep l :
  no_braceb sep = true -> Forall (fun x => no_braceb x = true) l -> no_braceb (join sep l) = true.
Proof.
  intros Hs. induction 1 as [|x l Hx Hl IH]; [reflexivity|].
  destruct l as [|y l]; [exact Hx|].
  change (join sep (x :: y :: l)) with (x ++ sep ++ join sep (y :: l)).
  unfold no_braceb in *. rewrite !forallb_app. rewrite Hx, Hs, IH. reflexivity.
Qed.

Lemma align_letters_ok ca : no_braceb (join $" " (map align_letter ca)) = true.
Proof.
  apply no_brace_join; [reflexivity|]. apply Forall_forall. intros x Hx. apply in_map_iff in Hx.
  destruct Hx as (a & <- & _). destruct a as [[|[p|p|]|p]|]; reflexivity.
Qed.

Theorem lrender_items_ok t : kf_free t = true -> all_lok (lrender t).
Proof.
  destruct lsc as (Htab & Hurl & Hlt & Hat).
  induction t using tok_ind'; intros Hwf; cbn [lrender]; cbn [kf_free] in Hwf;
    repeat match goal with H : AllP _ _ |- _ => unfold AllP in H end;
    try (unfold cmd1; apply lok_cons; [reflexivity|]; apply lok_group; apply lok_flat; lih H Hwf; fail).
  - apply lok_one. cbn. now apply latex_escape_Esc.
  - (* InlineCode *) destruct (find_delim _); apply lok_one; exact I.
  - (* Image *)
    apply lok_cons; [reflexivity|]. apply lok_app; [|apply lok_one; reflexivity].
    apply lok_group. apply lok_one.
    destruct latex_image_src; [exact Hwf|exact Hwf|apply lfill_ok; cbn; exact Hurl|apply lfill_ok; cbn; exact Htab].
  - (* Link *)
    apply lok_cons; [reflexivity|]. apply lok_app; apply lok_group.
    + apply lok_one. now apply lfill_ok.
    + apply lok_flat. lih H Hwf.
  - (* AutoLink *)
    apply lok_cons; [reflexivity|]. apply lok_group. apply lok_one. now apply lfill_ok.
  - apply lok_flat. lih H Hwf.
  - destruct s; apply lok_one; reflexivity.
  - constructor.
  - apply lok_one. exact I.
  - (* Heading *)
    apply lok_cons; [destruct (l =? 1); [reflexivity|destruct (l =? 2); reflexivity]|].
    apply lok_app; [|apply lok_one; reflexivity]. apply lok_group. apply lok_flat. lih H Hwf.
  - apply lok_cons; [destruct (l =? 1); [reflexivity|destruct (l =? 2); reflexivity]|].
    apply lok_app; [|apply lok_one; reflexivity]. apply lok_group. apply lok_flat. lih H Hwf.
  - (* Quote *)
    apply lok_app; [repeat constructor|]. apply lok_app; [|repeat constructor]. apply lok_flat. lih H Hwf.
  - apply lok_cons; [reflexivity|]. apply lok_app; [|apply lok_one; reflexivity]. apply lok_flat. lih H Hwf.
  - (* BlockCode *)
    apply lok_cons; [reflexivity|]. apply lok_cons; [exact I|]. apply lok_cons; [reflexivity|].
    apply lok_cons.
    { destruct latex_code_language; [reflexivity|reflexivity|apply lfill_ok; cbn; exact Hurl|apply lfill_ok; cbn; exact Htab]. }
    repeat (apply lok_cons; [try reflexivity; try exact I|]). constructor.
  - (* CodeFence *)
    apply lok_cons; [reflexivity|]. apply lok_cons; [exact I|]. apply lok_cons; [reflexivity|].
    apply lok_cons.
    { destruct latex_code_language; [exact Hwf|exact Hwf|apply lfill_ok; cbn; exact Hurl|apply lfill_ok; cbn; exact Htab]. }
    repeat (apply lok_cons; [try reflexivity; try exact I|]). constructor.
  - (* List *)
    apply lok_app; [repeat constructor|]. apply lok_app; [|repeat constructor]. apply lok_flat. lih H Hwf.
  - apply lok_cons; [reflexivity|]. apply lok_app; [|apply lok_one; reflexivity]. apply lok_flat. lih H Hwf.
  - (* Table *)
    apply andb_true_iff in Hwf. destruct Hwf as [Hh Hwf].
    apply lok_app; [repeat constructor|]. apply lok_app.
    { destruct ca as [|[a|] [|b ca]]; try (apply lok_group; apply lok_one; apply align_letters_ok). constructor. }
    apply lok_app; [apply lok_one; reflexivity|]. apply lok_app.
    { destruct h as [h'|]; [|constructor]. apply lok_app; [eauto|apply lok_one; reflexivity]. }
    apply lok_app; [|repeat constructor]. apply lok_flat. lih H0 Hwf.
  - (* TableRow *)
    apply lok_app; [|apply lok_one; reflexivity].
    induction ch as [|c ch IHc]; [constructor|].
    inversion H; subst. cbn [forallb] in Hwf. apply andb_true_iff in Hwf. destruct Hwf as [Hc Hwf].
    destruct ch as [|c2 ch]; [auto|].
    apply lok_app; [auto|]. apply lok_cons; [reflexivity|]. apply IHc; auto.
  - apply lok_flat. lih H Hwf.
  - apply lok_one. reflexivity.
  - constructor.
  - apply lok_flat. lih H Hwf.
  - constructor.
  - constructor.
  - constructor.
Qed.

(* ---- groups and environments are properly nested ---- *)
Inductive lbal : list litem -> Prop :=
| lbal_nil : lbal []
| lbal_leaf i : (match i with LOpen | LClose | LBegin _ | LEnd _ => False | _ => True end) -> lbal [i]
| lbal_group l : lbal l -> lbal (LOpen :: l ++ [LClose])
| lbal_env e l : lbal l -> lbal (LBegin e :: l ++ [LEnd e])
| lbal_app a b : lbal a -> lbal b -> lbal (a ++ b).

Lemma lbal_sound l : lbal l -> forall st r, lbalanced_from st (l ++ r) = lbalanced_from st r.
Proof.
  induction 1 as [|i Hi|l Hl IH|e l Hl IH|a b Ha IHa Hb IHb]; intros st r.
  - reflexivity.
  - destruct i; cbn; tauto || reflexivity.
  - cbn. rewrite <- app_assoc. rewrite IH. reflexivity.
  - cbn. rewrite <- app_assoc. rewrite IH. cbn. now rewrite str_eqb_refl.
  - rewrite <- app_assoc. now rewrite IHa, IHb.
Qed.

Lemma lbal_balancedb l : lbal l -> lbalancedb l = true.
Proof. intros H. unfold lbalancedb. rewrite <- (app_nil_r l). rewrite (lbal_sound l H). reflexivity. Qed.

Lemma lbal_flat {A} (f : A -> list litem) ch : Forall (fun c => lbal (f c)) ch -> lbal (flat_map f ch).
Proof. induction 1; cbn; [constructor|apply lbal_app; auto]. Qed.
Lemma lbal_cons i l : (match i with LOpen | LClose | LBegin _ | LEnd _ => False | _ => True end) -> lbal l -> lbal (i :: l).
Proof. intros Hi Hl. change (i :: l) with ([i] ++ l). apply lbal_app; [apply lbal_leaf; auto|auto]. Qed.
Lemma lbal_snoc i l : (match i with LOpen | LClose | LBegin _ | LEnd _ => False | _ => True end) -> lbal l -> lbal (l ++ [i]).
Proof. intros Hi Hl. apply lbal_app; [auto|apply lbal_leaf; auto]. Qed.
Lemma lbal_group' l : lbal l -> lbal (group l).
Proof. apply lbal_group. Qed.
Lemma lbal_env2 e l : lbal l -> lbal ([LBegin e; lnl] ++ l ++ [LEnd e; lnl]).
Proof.
  intros H. change ([LBegin e; lnl] ++ l ++ [LEnd e; lnl]) with ((LBegin e :: (lnl :: l) ++ [LEnd e]) ++ [lnl]) || idtac.
  replace ([LBegin e; lnl] ++ l ++ [LEnd e; lnl]) with ((LBegin e :: (lnl :: l) ++ [LEnd e]) ++ [lnl]).
  - apply lbal_snoc; [exact I|]. apply lbal_env. apply lbal_cons; [exact I|auto].
  - cbn. rewrite <- app_assoc. reflexivity.
Qed.

Ltac bih := (eapply Forall_impl; [|eassumption]); cbn; auto.

Lemma lfill_leaf f s : match lfill f s with LOpen | LClose | LBegin _ | LEnd _ => False | _ => True end.
Proof. destruct f; exact I. Qed.

Theorem lrender_balanced t : lbal (lrender t).
Proof.
  induction t using tok_ind'; cbn [lrender];
    repeat match goal with H : AllP _ _ |- _ => unfold AllP in H end;
    try (unfold cmd1; apply lbal_cons; [exact I|]; apply lbal_group'; apply lbal_flat; bih; fail);
    try (apply lbal_leaf; exact I); try apply lbal_nil.
  - destruct (find_delim _); apply lbal_leaf; exact I.
  - apply lbal_cons; [exact I|]. apply lbal_snoc; [exact I|]. apply lbal_group'. apply lbal_leaf. apply lfill_leaf.
  - apply lbal_cons; [exact I|]. apply lbal_app; apply lbal_group'; [apply lbal_leaf; apply lfill_leaf|apply lbal_flat; bih].
  - apply lbal_cons; [exact I|]. apply lbal_group'. apply lbal_leaf. apply lfill_leaf.
  - apply lbal_flat; bih.
  - destruct s; apply lbal_leaf; exact I.
  - apply lbal_cons; [exact I|]. apply lbal_snoc; [exact I|]. apply lbal_group'. apply lbal_flat; bih.
  - apply lbal_cons; [exact I|]. apply lbal_snoc; [exact I|]. apply lbal_group'. apply lbal_flat; bih.
  - apply lbal_env2. apply lbal_flat; bih.
  - apply lbal_cons; [exact I|]. apply lbal_snoc; [exact I|]. apply lbal_flat; bih.
  - (* BlockCode *)
    apply lbal_cons; [exact I|].
    change ([LBegin $"lstlisting"; LCmd $"[language="; lfill latex_code_language []; LCmd ($"]" ++ [10]); LVerb c; LEnd $"lstlisting"; lnl])
      with ((LBegin $"lstlisting" :: [LCmd $"[language="; lfill latex_code_language []; LCmd ($"]" ++ [10]); LVerb c] ++ [LEnd $"lstlisting"]) ++ [lnl]).
    apply lbal_snoc; [exact I|]. apply lbal_env.
    repeat (apply lbal_cons; [try exact I; try apply lfill_leaf|]). constructor.
  - apply lbal_cons; [exact I|].
    change ([LBegin $"lstlisting"; LCmd $"[language="; lfill latex_code_language (f_language a); LCmd ($"]" ++ [10]); LVerb (f_content a); LEnd $"lstlisting"; lnl])
      with ((LBegin $"lstlisting" :: [LCmd $"[language="; lfill latex_code_language (f_language a); LCmd ($"]" ++ [10]); LVerb (f_content a)] ++ [LEnd $"lstlisting"]) ++ [lnl]).
    apply lbal_snoc; [exact I|]. apply lbal_env.
    repeat (apply lbal_cons; [try exact I; try apply lfill_leaf|]). constructor.
  - apply lbal_env2. apply lbal_flat; bih.
  - apply lbal_cons; [exact I|]. apply lbal_snoc; [exact I|]. apply lbal_flat; bih.
  - (* Table *)
    set (mid := match ca with [None] => [] | _ => group [LCmd (join $" " (map align_letter ca))] end).
    set (hd := match h with Some h' => lrender h' ++ [LCmd ($"\hline" ++ [10])] | None => [] end).
    replace ([LBegin $"tabular"] ++ mid ++ [lnl] ++ hd ++ flat_map lrender ch ++ [LEnd $"tabular"; lnl])
      with ((LBegin $"tabular" :: (mid ++ [lnl] ++ hd ++ flat_map lrender ch) ++ [LEnd $"tabular"]) ++ [lnl]).
    2:{ cbn [app]. repeat (rewrite <- ?app_assoc; cbn [app]). reflexivity. }
    apply lbal_snoc; [exact I|]. apply lbal_env.
    apply lbal_app.
    { subst mid. destruct ca as [|[a|] [|b ca]]; try (apply lbal_group'; apply lbal_leaf; exact I). constructor. }
    apply lbal_cons; [exact I|]. apply lbal_app.
    { subst hd. destruct h as [h'|]; [|constructor]. apply lbal_snoc; [exact I|]. eauto. }
    apply lbal_flat; bih.
  - (* TableRow *)
    apply lbal_snoc; [exact I|].
    induction ch as [|c ch IHc]; [constructor|]. inversion H; subst.
    destruct ch as [|c2 ch]; [auto|]. apply lbal_app; [auto|]. apply lbal_cons; [exact I|]. apply IHc; auto.
  - apply lbal_flat; bih.
  - apply lbal_flat; bih.
Qed.

Lemma usepackage_ok p : no_braceb p = true -> all_lok (usepackage p) /\ lbal (usepackage p).
Proof.
  intros Hp. unfold usepackage. split.
  - apply lok_cons; [destruct (str_eqb p _); reflexivity|]. apply lok_app; [|apply lok_one; reflexivity].
    apply lok_group. apply lok_one. exact Hp.
  - apply lbal_cons; [exact I|]. apply lbal_snoc; [exact I|]. apply lbal_group'. apply lbal_leaf. exact I.
Qed.

Lemma pkgs_names t : Forall (fun p => no_braceb p = true) (pkgs t).
Proof.
  induction t using tok_ind'; cbn [pkgs];
    repeat match goal with H : AllP _ _ |- _ => unfold AllP in H end;
    try (repeat constructor; fail);
    try (match goal with |- Forall _ (flat_map _ _) => idtac | |- Forall _ (_ :: flat_map _ _) => constructor; [reflexivity|] end;
         apply Forall_flat_map; auto; fail).
  - apply Forall_app. split.
    + destruct h as [h'|]; [eauto|constructor].
    + apply Forall_flat_map; auto.
Qed.

Lemma dedup_sub seen l : incl (dedup seen l) l.
Proof.
  revert seen; induction l as [|x l IH]; intros seen; cbn; [apply incl_refl|].
  destruct (existsb _ seen).
  - apply incl_tl. apply IH.
  - apply incl_cons; [left; reflexivity|]. apply incl_tl. apply IH.
Qed.

Theorem render_latex_items_ok t : kf_free t = true -> all_lok (render_latex_items t) /\ lbal (render_latex_items t).
Proof.
  intros Hk. destruct t; try (split; [now apply lrender_items_ok|apply lrender_balanced]).
  unfold render_latex_items.
  assert (Hp : Forall (fun p => no_braceb p = true) (dedup [] (pkgs (Document ch)))).
  { apply Forall_forall. intros p Hp. pose proof (pkgs_names (Document ch)) as Hn.
    rewrite Forall_forall in Hn. apply Hn. eapply dedup_sub; eauto. }
  split.
  - apply lok_cons; [reflexivity|]. apply lok_app; [apply lok_group; apply lok_one; reflexivity|].
    apply lok_app; [apply lok_one; reflexivity|]. apply lok_app.
    + apply lok_flat. eapply Forall_impl; [|exact Hp]. intros p H. apply usepackage_ok; auto.
    + apply lok_app; [repeat constructor|]. apply lok_app; [now apply lrender_items_ok|repeat constructor].
  - apply lbal_cons; [exact I|]. apply lbal_app; [apply lbal_group'; apply lbal_leaf; exact I|].
    apply lbal_cons; [exact I|]. apply lbal_app.
    + apply lbal_flat. eapply Forall_impl; [|exact Hp]. intros p H. apply usepackage_ok; auto.
    + apply lbal_env2. apply lrender_balanced.
Qed.

(* the \verb delimiter does not occur in the content it delimits *)
Theorem verb_delimiter_free content d : find_delim content = Some d -> mem d content = false.
Proof.
  unfold find_delim. intros H. apply find_some in H. destruct H as [_ H]. now apply negb_true_iff in H.
Qed.

(* the recorded findings are real: raw attributes break the structure *)
Definition kf_witness_image : tok := Document [Paragraph [Image (mkLink $"b}c" [] [] None []) [RawText $"a"]]].
Definition kf_witness_language : tok := Document [CodeFence (mkFence 0 $"```" $"a]b{" $"a]b{" $"x")].

Theorem kf_raw_args_refuted :
  kf_free kf_witness_image = false /\
  (exists s, render_latex kf_witness_image = Some s /\ check_latex s <> 0) /\
  kf_free kf_witness_language = false /\
  (exists s, render_latex kf_witness_language = Some s /\ check_latex s <> 0).
Proof.
  split; [reflexivity|]. split.
  - eexists. split; [vm_compute; reflexivity|]. vm_compute. discriminate.
  - split; [reflexivity|]. eexists. split; [vm_compute; reflexivity|]. vm_compute. discriminate.
Qed.

Example latex_example :
  render_latex (Document [Paragraph [RawText ($"a\{ b_c ^ 100% $x & #")]]) =
  Some ($"\documentclass{article}" ++ [10] ++ $"\begin{document}" ++ [10; 10] ++
        $"a\textbackslash{}\{ b\_c \^{} 100\% \$x \& \#" ++ [10] ++ $"\end{document}" ++ [10]).
Proof. vm_compute. reflexivity. Qed.
