(* C03 / C08 / C16: ONE inline HTML tag inside a sentence.  pre <name> post - the name a letter followed by letters, digits or hyphens -
   tokenizes, WITH HtmlSpan among the span types, to the text, one HtmlSpan holding "<name>" as it stands, the text; WITHOUT HtmlSpan (the
   renderers that do not pass HTML through) to one RawText holding everything, so that the renderer's escaping sees the "<".
   HtmlSpan.pattern is evaluated exactly on its first alternative (the tag name, no attribute, no white space, no "/", the ">");
   AutoLink.pattern is PROVED TO FAIL at the same "<" (after a tag-like name no ":" follows wherever the bounded greedy scheme stops;
   the e-mail alternative meets no "@"). *)
From Coq Require Import ZArith List Bool Lia.
From Mistletoe Require Import Base.Sx Base.PyStr Base.PyText Gen.GenTables Gen.GenRegex Gen.GenConfig Re.ReMatch
     Model.SpanTokenizer Model.Tree Model.Unescape Model.CoreTokens Model.Inline Model.Block Model.Build Model.Parser Model.HtmlRenderer
     Proofs.ReFirst Proofs.ReNeeds Proofs.ReExact Proofs.HeadingLaw Proofs.Prose Proofs.PlainProse Proofs.ListLaw Proofs.ProseLines
     Proofs.EmphSimple Proofs.EmphSentence Proofs.RefSentence Proofs.LinkSentence Proofs.CodeSpan Proofs.StrikeSentence Proofs.IndentLaw
     Proofs.AutoLinkSentence Proofs.AngleLink.
Import ListNotations.
Local Open Scope Z_scope.

(* a negative look-behind for a backslash passes when the character before is no backslash *)
Lemma look_back_pass fl X s k : match bef s with [] => True | x :: _ => x <> 92 end ->
  m fl (Seq (Look false true 1 (Lit 92)) X) s k = m fl X s k.
Proof.
  intros H. rewrite m_seq. cbn [m retreat]. destruct (bef s) as [|x rr] eqn:Er; [reflexivity|].
  apply Z.eqb_neq in H. cbn [aft char_ok]. rewrite H. reflexivity.
Qed.

Section HsMatch.
  Let fl := mkFlags true false.
  Variables (pre : str) (c0 : Z) (run post : str).
  Hypothesis Hprev : match rev pre with [] => True | x :: _ => x <> 92 end.
  Hypothesis Hc0 : char_ok fl LETTER c0 = true.
  Hypothesis Hrun : forallb (char_ok fl TAGSET) run = true.

  Let a := slen pre.
  Let tag := 60 :: c0 :: run ++ [62].
  Definition hs0 : mst := mkMst (rev pre) (tag ++ post) a [].
  Definition hs_end : mst := mkMst (62 :: rev run ++ c0 :: 60 :: rev pre) post (a + 1 + 1 + slen run + 1) [].

  Lemma hs_match (k : mst -> option mst) v : k hs_end = Some v -> m fl re_span_token_HtmlSpan_pattern hs0 k = Some v.
  Proof.
    intros Hk. destruct hs_shape as [-> _]. rewrite m_alt.
    assert (A1 : m fl (Seq LBK (Seq (Lit 60) (Seq LETTER (Seq (Rep true 0 None TAGSET) HS_K1)))) hs0 k = Some v).
    { unfold LBK. rewrite look_back_pass by exact Hprev.
      rewrite m_seq, (m_char fl (Lit 60) hs0 60 (c0 :: run ++ 62 :: post) _ eq_refl) by (unfold hs0, tag; cbn [aft app]; rewrite <- app_assoc; reflexivity).
      cbn [char_ok Z.eqb Pos.eqb].
      rewrite m_seq, (m_char fl LETTER _ c0 (run ++ 62 :: post) _ eq_refl) by reflexivity. rewrite Hc0.
      rewrite m_seq.
      apply (m_greedy fl TAGSET 0 None _ _ v run (62 :: post)); [reflexivity|reflexivity|reflexivity|exact Hrun|lia|intros x Hx; discriminate|].
      set (s2 := adv_run (advance (advance hs0 60 (c0 :: run ++ 62 :: post)) c0 (run ++ 62 :: post)) run (62 :: post)).
      assert (Ha2 : aft s2 = 62 :: post) by reflexivity.
      destruct hs_k1_shape as [-> [rest Ea]].
      assert (Sp : forall k', m fl SPACESET s2 k' = None) by (intros k'; rewrite (m_char fl SPACESET s2 62 post k' eq_refl Ha2); reflexivity).
      rewrite m_seq, rep0_skip.
      2:{ intros k'. fold fl. rewrite Ea, m_seq. apply m_rep_body_none; [lia|exact Sp]. }
      rewrite m_seq, rep0_skip by exact Sp.
      rewrite m_seq, rep0_skip.
      2:{ intros k'. fold fl. rewrite (m_char fl (Lit 47) s2 62 post k' eq_refl Ha2). reflexivity. }
      rewrite (m_char fl (Lit 62) s2 62 post k eq_refl Ha2). cbn [char_ok Z.eqb Pos.eqb].
      match goal with |- k ?st = _ => replace st with hs_end; [exact Hk|] end.
      unfold hs_end, s2, adv_run, advance, hs0. cbn [bef aft pos grp]. unfold slen.
      reflexivity. }
    rewrite A1. reflexivity.
  Qed.
End HsMatch.

(* AutoLink.pattern at the "<" of a tag: no ":" after the name, no "@" anywhere behind *)
Lemma al_fails_tag s k c0 (run : str) x t : aft s = 60 :: c0 :: run ++ x :: t ->
  forallb (char_ok (mkFlags false false) TAGSET) run = true -> char_ok (mkFlags false false) SCHEMESET x = false -> (x =? 58) = false ->
  mem 64 (c0 :: run ++ x :: t) = false ->
  m (mkFlags false false) re_span_token_AutoLink_pattern s k = None.
Proof.
  intros Ha Hrun Hx Hx58 H64. destruct al_shape as [-> _]. set (fl := mkFlags false false).
  unfold LBK. apply look_neg_none_f.
  rewrite m_seq, rep0_skip_f.
  2:{ intros k'. rewrite m_seq, (m_char fl (Lit 92) s 60 _ _ eq_refl Ha). reflexivity. }
  rewrite m_seq, (m_char fl (Lit 60) s 60 _ _ eq_refl Ha). cbn [char_ok Z.eqb Pos.eqb].
  set (s1 := advance s 60 (c0 :: run ++ x :: t)).
  rewrite m_seq, m_grp, m_alt.
  assert (A1 : forall K, m fl AL_URL s1 K = None).
  { intros K. unfold AL_URL. rewrite m_seq, (m_char fl LETTER s1 c0 (run ++ x :: t) _ eq_refl eq_refl).
    destruct (char_ok fl LETTER c0); [|reflexivity]. rewrite m_seq.
    apply (m_greedy_none fl SCHEMESET 1 (Some 31%nat) _ _ run (x :: t)); [reflexivity|exact Hx|reflexivity| |].
    - apply forallb_forall. intros y Hy. rewrite forallb_forall in Hrun. apply tag_scheme. apply Hrun. exact Hy.
    - intros j Hj. rewrite m_seq. destruct (skipn j run ++ x :: t) as [|y t'] eqn:E; [destruct (skipn j run); discriminate|].
      rewrite (m_char fl (Lit 58) _ y t' _ eq_refl) by reflexivity. cbn [char_ok].
      assert (Hy : (y =? 58) = false).
      { destruct (skipn j run) as [|z zs] eqn:Es; cbn [app] in E; injection E as Ey _; subst y; [exact Hx58|].
        assert (Hz : In z run) by (apply (in_skipn z j); rewrite Es; left; reflexivity).
        rewrite forallb_forall in Hrun. specialize (Hrun z Hz). unfold TAGSET in Hrun. cbn [char_ok existsb citem_match] in Hrun. rewrite xorb_false_l in Hrun.
        repeat (apply orb_true_iff in Hrun; destruct Hrun as [Hrun|Hrun]); try discriminate;
          try (apply andb_true_iff in Hrun as [A B]; apply Z.leb_le in A, B; apply Z.eqb_neq; lia).
        apply Z.eqb_eq in Hrun. subst z. reflexivity. }
      rewrite Hy. reflexivity. }
  rewrite A1. cbn [orelse].
  destruct al_mail_shape as [rest ->]. rewrite m_seq.
  match goal with |- m fl (Rep true 1 None LOCALSET) ?st ?kk = _ =>
    change (m fl (Rep true 1 None LOCALSET) st kk) with (loop (m fl LOCALSET) true 1 None kk (repeat 0 1 ++ 0 :: aft st) 0%nat st) end.
  apply greedy_none_all; [reflexivity|].
  intros j Hj. cbv beta. rewrite m_seq.
  destruct (skipn j (aft s1)) as [|y r] eqn:E.
  - apply m_char_nil; [reflexivity|reflexivity].
  - rewrite (m_char fl (Lit 64) _ y r _ eq_refl) by reflexivity. cbn [char_ok].
    assert (Hy : In y (c0 :: run ++ x :: t)) by (apply (in_skipn y j); change (c0 :: run ++ x :: t) with (aft s1); rewrite E; left; reflexivity).
    destruct (y =? 64) eqn:Ey; [|reflexivity]. apply Z.eqb_eq in Ey. subst y.
    assert (T : mem 64 (c0 :: run ++ x :: t) = true) by (unfold mem; apply existsb_exists; exists 64; split; [exact Hy|reflexivity]).
    rewrite T in H64. discriminate.
Qed.

Definition is_hs (kd : span_kind) : bool := match kd with SK_HtmlSpan => true | _ => false end.

Section HtmlS.
  Variables (pre : str) (c0 : Z) (run post : str) (fn : footnotes).
  Hypothesis Hpre : plain_text pre = true.
  Hypothesis Hpost : plain_text post = true.
  Hypothesis Hp64 : mem 64 post = false.
  Hypothesis Hc0 : is_letter c0 = true.
  Hypothesis Hrun : forallb (char_ok (mkFlags false false) TAGSET) run = true.

  Let tag := 60 :: c0 :: run ++ [62].
  Let s := pre ++ tag ++ post.
  Let a := slen pre.
  Let e := a + 1 + 1 + slen run + 1.

  Definition h0 : mst := adv_run (start_at [] s) pre (tag ++ post).
  Definition h1 : mst := hs_end pre c0 run post.

  Lemma h_len : slen s = e + slen post.
  Proof. unfold s, tag, e, a. rewrite !slen_app. unfold slen. cbn [length]. rewrite app_length. cbn [length]. lia. Qed.

  Lemma h_prev : match rev pre with [] => True | x :: _ => x <> 92 end.
  Proof.
    destruct (rev pre) as [|x rr] eqn:Er; [exact I|].
    assert (Hin : In x pre) by (apply in_rev; rewrite Er; left; reflexivity).
    pose proof (plain_no 92 pre eq_refl Hpre) as H92. intros ->.
    assert (T : mem 92 pre = true) by (unfold mem; apply existsb_exists; exists 92; split; [exact Hin|reflexivity]). rewrite T in H92. discriminate.
  Qed.

  Lemma run_plain : plain_text run = true.
  Proof.
    unfold plain_text. apply forallb_forall. intros x Hx. pose proof Hrun as Hs'. rewrite forallb_forall in Hs'. specialize (Hs' x Hx).
    unfold TAGSET in Hs'. cbn [char_ok existsb citem_match] in Hs'. rewrite xorb_false_l in Hs'.
    apply negb_true_iff. unfold mem, triggers. cbn [existsb].
    repeat (apply orb_true_iff in Hs'; destruct Hs' as [Hs'|Hs']); try discriminate;
      try (apply andb_true_iff in Hs' as [A B]; apply Z.leb_le in A, B; repeat (rewrite (proj2 (Z.eqb_neq x _)) by lia); reflexivity).
    apply Z.eqb_eq in Hs'. subst x. reflexivity.
  Qed.

  Lemma c0_plain_h : mem c0 triggers = false.
  Proof.
    pose proof Hc0 as H. unfold is_letter in H. unfold mem, triggers. cbn [existsb].
    apply orb_true_iff in H as [H|H]; apply andb_true_iff in H as [A B]; apply Z.leb_le in A, B; repeat (rewrite (proj2 (Z.eqb_neq c0 _)) by lia); reflexivity.
  Qed.

  Lemma name_plain : plain_text (c0 :: run) = true.
  Proof. unfold plain_text. cbn [forallb]. rewrite c0_plain_h. cbn [negb andb]. exact run_plain. Qed.

  Lemma h_no c : mem c triggers = true -> c <> 60 -> mem c s = false.
  Proof.
    intros Hc C60. assert (C62 : (c =? 62) = false) by (destruct (c =? 62) eqn:E; [apply Z.eqb_eq in E; subst c; vm_compute in Hc; discriminate|reflexivity]).
    apply Z.eqb_neq in C60.
    unfold s, tag, mem. change (60 :: c0 :: run ++ [62]) with ([60] ++ (c0 :: run) ++ [62]). rewrite !existsb_app. fold (mem c pre). fold (mem c (c0 :: run)). fold (mem c post).
    rewrite (plain_no c pre Hc Hpre), (plain_no c (c0 :: run) Hc name_plain), (plain_no c post Hc Hpost). cbn [existsb orb]. rewrite C60, C62. reflexivity.
  Qed.

  Lemma h_no_a c : mem c triggers_a = true -> mem c s = false.
  Proof.
    intros H. apply h_no.
    - unfold mem, triggers_a, triggers in *. cbn [existsb] in *.
      repeat (apply orb_true_iff in H; destruct H as [H|H]); try discriminate; rewrite H; cbn [orb]; rewrite ?orb_true_r; reflexivity.
    - intros ->. vm_compute in H. discriminate.
  Qed.

  Lemma pre_no60 c : In c pre -> (c =? 92) = false /\ (c =? 60) = false.
  Proof.
    intros Hin. assert (G : forall x, mem x triggers = true -> (c =? x) = false).
    { intros x Hx. destruct (c =? x) eqn:E; [|reflexivity]. apply Z.eqb_eq in E. subst c.
      pose proof (plain_no x pre Hx Hpre) as T. assert (T' : mem x pre = true) by (unfold mem; apply existsb_exists; exists x; split; [exact Hin|apply Z.eqb_refl]). rewrite T' in T. discriminate. }
    split; apply G; reflexivity.
  Qed.

  Lemma rest_no60 : mem 60 (c0 :: run ++ 62 :: post) = false.
  Proof.
    change (c0 :: run ++ 62 :: post) with ((c0 :: run) ++ 62 :: post). unfold mem. rewrite existsb_app. fold (mem 60 (c0 :: run)).
    rewrite (plain_no 60 _ eq_refl name_plain). cbn [existsb orb Z.eqb Pos.eqb]. fold (mem 60 post). apply plain_no; [reflexivity|exact Hpost].
  Qed.

  (* HtmlSpan.pattern finds the tag, once *)
  Lemma html_found : finditer fl_span_token_HtmlSpan_pattern re_span_token_HtmlSpan_pattern s = [(h0, h1)].
  Proof.
    unfold finditer. cbn [finditer_from].
    assert (Ea : aft (start_at [] s) = s) by reflexivity. rewrite Ea.
    rewrite (search_skip _ _ pre s (start_at [] s) (tag ++ post)); [|reflexivity| |unfold s; rewrite app_length; lia].
    2:{ intros c Hc. apply hs_nomatch. apply (pre_no60 c Hc). }
    fold h0.
    assert (E0 : mkMst (bef h0) (aft h0) (pos h0) [] = hs0 pre c0 run post).
    { unfold h0, hs0, adv_run, start_at. cbn [bef aft pos grp length Z.of_nat]. rewrite app_nil_r. reflexivity. }
    assert (S1 : search_from fl_span_token_HtmlSpan_pattern re_span_token_HtmlSpan_pattern (skipn (length pre) s) false h0 = Some (h0, h1)).
    { destruct hs_shape as [_ Efl].
      destruct (skipn (length pre) s) as [|x fuel]; cbn [search_from]; rewrite E0, Efl;
        rewrite (hs_match pre c0 run post h_prev ltac:(rewrite letter_ok; exact Hc0) Hrun _ h1) by reflexivity; reflexivity. }
    rewrite S1. f_equal.
    apply finditer_from_none. apply (search_none _ _ 60); [vm_compute; reflexivity|].
    cbn [aft h1 hs_end]. apply plain_no; [reflexivity|exact Hpost].
  Qed.

  (* AutoLink.pattern finds nothing *)
  Lemma auto_nothing_h : finditer fl_span_token_AutoLink_pattern re_span_token_AutoLink_pattern s = [].
  Proof.
    replace s with (pre ++ 60 :: (c0 :: run ++ 62 :: post)) by (unfold s, tag; cbn [app]; rewrite <- app_assoc; reflexivity).
    destruct al_shape as [_ Efl]. rewrite Efl. apply finder_nothing.
    - intros c Hc. destruct (pre_no60 c Hc) as [A B]. pose proof (al_nomatch c A B) as T. rewrite Efl in T. exact T.
    - intros K. apply (al_fails_tag _ K c0 run 62 post); [reflexivity|exact Hrun|reflexivity|reflexivity|].
      change (c0 :: run ++ 62 :: post) with ((c0 :: run) ++ 62 :: post). unfold mem. rewrite existsb_app. fold (mem 64 (c0 :: run)). fold (mem 64 (62 :: post)).
      assert (N : mem 64 (c0 :: run) = false).
      { unfold mem. cbn [existsb]. pose proof Hc0 as H. unfold is_letter in H.
        assert ((64 =? c0) = false) as -> by (apply Z.eqb_neq; apply orb_true_iff in H as [H|H]; apply andb_true_iff in H as [A B]; apply Z.leb_le in A, B; lia).
        cbn [orb]. destruct (existsb (Z.eqb 64) run) eqn:E; [|reflexivity]. apply existsb_exists in E as (y & Hy & Ey). apply Z.eqb_eq in Ey. subst y.
        pose proof Hrun as Hr. rewrite forallb_forall in Hr. specialize (Hr 64 Hy). vm_compute in Hr. discriminate. }
      rewrite N. unfold mem. cbn [existsb orb Z.eqb Pos.eqb]. exact Hp64.
    - vm_compute. reflexivity.
    - exact rest_no60.
  Qed.

  Lemma h_inert : forallb inert_char s = true.
  Proof.
    unfold s, tag. change (60 :: c0 :: run ++ [62]) with ([60] ++ (c0 :: run) ++ [62]). rewrite !forallb_app.
    rewrite (plain_inert pre Hpre), (plain_inert (c0 :: run) name_plain), (plain_inert post Hpost). reflexivity.
  Qed.

  Theorem core_nothing_h : find_core_tokens s fn = ([], []).
  Proof.
    unfold find_core_tokens.
    assert (Hc : code_search s 0 = None).
    { unfold code_search. apply (search_state_none _ _ 96); [vm_compute; reflexivity|]. unfold seek. cbn [aft]. apply mem_drop. apply h_no_a. reflexivity. }
    rewrite Hc.
    set (st0 := mkScan [] [] false None false 0 []).
    replace (S (S (length s))) with (length s + 2)%nat by lia.
    pose proof (scan_inert_any s fn s 2 [] [] st0) as T. rewrite app_nil_r in T. cbn [app] in T.
    change (slen []) with 0 in T. rewrite T; [|reflexivity|exact h_inert|repeat split].
    replace (0 + slen s) with (slen s) by lia. rewrite scan_end. cbn [st0 sc_run sc_ds sc_ms sc_code].
    unfold process_emphasis. change (next_closer 0 []) with (@None Z). destruct (3 * length s + 3)%nat; reflexivity.
  Qed.

  Lemma find_all_html : forall ts, forallb kind_quiet_a ts = true ->
    find_all ts s fn [] = flat_map (fun kd => if is_hs kd then [CRe SK_HtmlSpan h0 h1] else []) ts.
  Proof.
    induction ts as [|kd ts IH]; intros Hq; [reflexivity|].
    cbn [forallb] in Hq. apply andb_true_iff in Hq as [Hkq Hts]. cbn [find_all flat_map].
    assert (F : match kd with SK_CoreTokens | SK_InlineCode | SK_RawText | SK_AutoLink | SK_HtmlSpan => True | _ => finditer (snd (re_of kd)) (fst (re_of kd)) s = [] end).
    { destruct kd; try exact I; cbn [kind_quiet_a] in Hkq; apply existsb_exists in Hkq as (c & Hin & Hn);
        (apply (finditer_none _ _ c s Hn); apply h_no_a; unfold mem; apply existsb_exists; exists c; split; [exact Hin|apply Z.eqb_refl]). }
    destruct kd; cbn [find_kind is_hs];
      try (rewrite core_nothing_h; cbn [map app]; apply IH; exact Hts);
      try (cbn [map app]; apply IH; exact Hts);
      try (cbn [re_of fst snd]; rewrite auto_nothing_h; cbn [map app]; apply IH; exact Hts);
      try (cbn [re_of fst snd]; rewrite html_found; cbn [map app fst snd]; f_equal; apply IH; exact Hts);
      (cbn [re_of fst snd] in F |- *; rewrite F; cbn [map app]; apply IH; exact Hts).
  Qed.

  (* with HtmlSpan among the types: the tag as it stands *)
  Theorem tokenize_inner_html types : forallb kind_quiet_a (removelast types) = true ->
    filter is_hs (removelast types) = [SK_HtmlSpan] ->
    tokenize_inner types fn s = raw_if pre ++ [HtmlSpan tag] ++ raw_if post.
  Proof.
    intros Hq Hf. unfold tokenize_inner. rewrite (find_all_html _ Hq).
    assert (Es : flat_map (fun kd => if is_hs kd then [CRe SK_HtmlSpan h0 h1] else []) (removelast types) = [CRe SK_HtmlSpan h0 h1]).
    { clear Hq. revert Hf. generalize (removelast types) as ts.
      assert (G : forall ts n, length (filter is_hs ts) = n ->
                flat_map (fun kd => if is_hs kd then [CRe SK_HtmlSpan h0 h1] else []) ts = repeat (CRe SK_HtmlSpan h0 h1) n).
      { induction ts as [|kd ts IH]; intros n Hn; [cbn in Hn; subst n; reflexivity|]. cbn [flat_map filter] in *.
        destruct (is_hs kd); [|cbn [app]; apply IH; exact Hn]. destruct n as [|n]; [discriminate|]. cbn [length] in Hn. cbn [repeat app]. f_equal. apply IH. lia. }
      intros ts H. rewrite (G ts 1%nat) by (rewrite H; reflexivity). reflexivity. }
    rewrite Es.
    cbn [number_from map fst snd cand_of sk_parse_group grp_span sk_precedence sk_parse_inner].
    assert (P0 : pos h0 = a) by reflexivity. assert (P1 : pos h1 = e) by reflexivity. rewrite P0, P1.
    pose proof h_len as Hs.
    unfold tokenize, SpanTokenizer.make_tokens, make_tokens_with.
    cbn [sort_cands fold_right insert_stable buffer_rev eval_loop last_end pc ce mk_rev cs make inner ps pe app rev].
    assert (Gb : (if a >? 0 then [ORaw 0 a] else []) = match pre with [] => [] | _ => [ORaw 0 a] end) by (unfold a; apply gap_before).
    assert (Ga : (if e =? slen s then [] else [ORaw e (slen s)]) = match post with [] => [] | _ => [ORaw e (slen s)] end) by (rewrite Hs; apply gap_after).
    rewrite Gb, Ga. rewrite ?app_nil_r, rev_app_distr. cbn [rev app]. rewrite <- ?app_assoc. cbn [app].
    rewrite !map_app. cbn [map build_otok cid src_at Z.to_nat nth build_leaf].
    assert (G1 : whole_text h0 h1 = tag).
    { unfold whole_text, h1, hs_end, segment. cbn [pos bef]. rewrite P0. fold a.
      replace (a + 1 + 1 + slen run + 1 - a) with (Z.of_nat (length (62 :: rev run ++ [c0; 60]))) by (cbn [length]; rewrite app_length, rev_length; unfold slen; cbn [length]; lia).
      rewrite Nat2Z.id. replace (62 :: rev run ++ c0 :: 60 :: rev pre) with ((62 :: rev run ++ [c0; 60]) ++ rev pre) by (cbn [app]; rewrite <- app_assoc; reflexivity).
      rewrite firstn_app, Nat.sub_diag, firstn_all. cbn [firstn]. rewrite app_nil_r.
      change (62 :: rev run ++ [c0; 60]) with ([62] ++ rev run ++ [c0; 60]). rewrite !rev_app_distr, rev_involutive. cbn [rev app].
      unfold tag. apply firstn_all2. cbn [length]. rewrite !app_length, rev_length. cbn [length]. lia. }
    rewrite G1. f_equal; [|f_equal].
    - apply raw_gap. cbn [build_otok]. f_equal.
      pose proof (substr_mid [] pre (tag ++ post)) as M. cbn [app] in M. unfold slen at 1 2 in M. cbn [length Z.of_nat] in M.
      fold a in M. replace (0 + a) with a in M by lia. unfold s. rewrite M. apply unescape_plain. exact Hpre.
    - apply raw_gap. cbn [build_otok]. f_equal.
      pose proof (substr_mid (pre ++ tag) post []) as M.
      replace (slen (pre ++ tag)) with e in M by (unfold e, a, tag; rewrite !slen_app; unfold slen; cbn [length]; rewrite app_length; cbn [length]; lia).
      rewrite app_nil_r in M. replace ((pre ++ tag) ++ post) with s in M by (unfold s; rewrite <- !app_assoc; reflexivity).
      rewrite Hs. rewrite M. apply unescape_plain. exact Hpost.
  Qed.

  (* without HtmlSpan: nothing is found, the text stays one RawText *)
  Theorem tokenize_inner_nohtml types : forallb kind_quiet_a (removelast types) = true -> filter is_hs (removelast types) = [] ->
    tokenize_inner types fn s = [RawText s].
  Proof.
    intros Hq Hf. unfold tokenize_inner. rewrite (find_all_html _ Hq).
    assert (Es : flat_map (fun kd => if is_hs kd then [CRe SK_HtmlSpan h0 h1] else []) (removelast types) = []).
    { clear Hq. revert Hf. generalize (removelast types) as ts. induction ts as [|kd ts IH]; intros H; [reflexivity|]. cbn [flat_map filter] in *.
      destruct (is_hs kd); [discriminate|]. cbn [app]. apply IH. exact H. }
    rewrite Es. cbn [number_from map]. unfold tokenize, SpanTokenizer.make_tokens, make_tokens_with. cbn [sort_cands fold_right buffer_rev last_end mk_rev app].
    destruct (0 =? slen s) eqn:E.
    - apply Z.eqb_eq in E. rewrite h_len in E. unfold e, a, slen in E. lia.
    - cbn [rev app map build_otok]. rewrite substr_all. unfold unescape, unescape_with.
      rewrite (h_no 38 eq_refl ltac:(discriminate)). reflexivity.
  Qed.
End HtmlS.

(* ---- the statements with computable hypotheses ---- *)
Definition html_ok (pre : str) (c0 : Z) (run post : str) : bool :=
  plain_text pre && plain_text post && negb (mem 64 post) && is_letter c0 && forallb (char_ok (mkFlags false false) TAGSET) run.
Definition html_spans (types : list span_kind) : bool :=
  forallb kind_quiet_a (removelast types) && match filter is_hs (removelast types) with [SK_HtmlSpan] => true | _ => false end.
Definition nohtml_spans (types : list span_kind) : bool :=
  forallb kind_quiet_a (removelast types) && match filter is_hs (removelast types) with [] => true | _ => false end.

Theorem html_span_in_sentence types fn pre c0 run post :
  html_spans types = true -> html_ok pre c0 run post = true ->
  tokenize_inner types fn (pre ++ (60 :: c0 :: run ++ [62]) ++ post) = raw_if pre ++ [HtmlSpan (60 :: c0 :: run ++ [62])] ++ raw_if post.
Proof.
  intros Hs Ho. unfold html_spans in Hs. apply andb_true_iff in Hs as [Hq Hc].
  unfold html_ok in Ho. repeat rewrite andb_true_iff in Ho. destruct Ho as [[[[H1 H2] H3] H4] H5]. apply negb_true_iff in H3.
  apply tokenize_inner_html; try assumption. destruct (filter _ _) as [|[] [|? ?]]; try discriminate. reflexivity.
Qed.

Theorem html_tag_without_html_spans types fn pre c0 run post :
  nohtml_spans types = true -> html_ok pre c0 run post = true ->
  tokenize_inner types fn (pre ++ (60 :: c0 :: run ++ [62]) ++ post) = [RawText (pre ++ (60 :: c0 :: run ++ [62]) ++ post)].
Proof.
  intros Hs Ho. unfold nohtml_spans in Hs. apply andb_true_iff in Hs as [Hq Hc].
  unfold html_ok in Ho. repeat rewrite andb_true_iff in Ho. destruct Ho as [[[[H1 H2] H3] H4] H5]. apply negb_true_iff in H3.
  apply tokenize_inner_nohtml; try assumption. destruct (filter _ _); [reflexivity|discriminate].
Qed.

Example html_span_instance :
  (html_ok ($"so ") 98 [] ($" bold") = true) /\ (html_ok [] 109 ($"y-widget2") ($".") = true) /\
  (html_ok [] 49 [] [] = false) /\ (html_ok [] 98 ($" x") [] = false) /\ (html_ok [] 98 [] ($" me@ex.am") = false) /\
  map (fun c => html_spans (cfg_span c)) [cfg_html; cfg_html_nohtml; cfg_markdown; cfg_latex; cfg_mathjax; cfg_default] = [true; false; true; false; true; false] /\
  map (fun c => nohtml_spans (cfg_span c)) [cfg_html; cfg_html_nohtml; cfg_markdown; cfg_latex; cfg_mathjax; cfg_default] = [false; true; false; true; false; true].
Proof. vm_compute. repeat split; reflexivity. Qed.
