(* C10: the wrapping core of the Markdown renderer, for ALL fragment lists,
   ALL limits and all trees. *)
From Coq Require Import ZArith List Bool Lia.
From Mistletoe Require Import Base.Sx Base.PyStr Model.Tree Model.MarkdownRenderer.
Import ListNotations.
Local Open Scope Z_scope.

(* ---- every line fits the limit or is one single word ---- *)
Lemma fill_bound lim ws0 : 0 <= lim -> forall ws cur line,
  (len cur <= lim \/ In cur ws0) -> incl ws ws0 ->
  In line (fill_from lim cur ws) -> len line <= lim \/ In line ws0.
Proof.
  intros Hl. induction ws as [|w r IH]; intros cur line Hc Hi Hin; cbn [fill_from] in Hin.
  - destruct (nonempty cur); [|contradiction]. destruct Hin as [<-|[]]. exact Hc.
  - assert (Hr : incl r ws0) by (intros x Hx; apply Hi; right; exact Hx).
    assert (Hw : In w ws0) by (apply Hi; left; reflexivity).
    destruct (is_nl w).
    + destruct Hin as [<-|Hin]; [exact Hc|]. apply (IH [] line); auto; try (left; cbn; lia).
    + destruct (nonempty cur); cbn [negb] in Hin.
      * destruct (Z.leb_spec (len (cur ++ [32] ++ w)) lim).
        -- apply (IH (cur ++ [32] ++ w) line); auto.
        -- destruct Hin as [<-|Hin]; [exact Hc|]. apply (IH w line); auto.
      * apply (IH w line); auto.
Qed.

Theorem wrap_bound frs lim line : 0 <= lim ->
  In line (fragments_to_lines (Some lim) frs) -> len line <= lim \/ In line (make_words frs).
Proof.
  intros Hl Hin. cbn [fragments_to_lines] in Hin.
  apply (fill_bound lim (make_words frs) Hl (make_words frs) [] line); [left; cbn; lia|apply incl_refl|exact Hin].
Qed.

(* ---- lines as groups of words ---- *)
Definition SP : str := [32].

Fixpoint fill_struct (lim : Z) (cur : list str) (ws : list str) : list (list str) :=
  match ws with
  | [] => if nonempty (join SP cur) then [cur] else []
  | w :: r =>
    if is_nl w then cur :: fill_struct lim [] r
    else if negb (nonempty (join SP cur)) then fill_struct lim [w] r
    else let test := cur ++ [w] in
         if len (join SP test) <=? lim then fill_struct lim test r else cur :: fill_struct lim [w] r
  end.

Lemma join_snoc' sep (l : list str) w : l <> [] -> join sep (l ++ [w]) = join sep l ++ sep ++ w.
Proof.
  induction l as [|x l IH]; intros Hn; [congruence|].
  destruct l as [|y l]; [reflexivity|].
  change (join sep ((x :: y :: l) ++ [w])) with (x ++ sep ++ join sep ((y :: l) ++ [w])).
  rewrite IH by discriminate. change (join sep (x :: y :: l)) with (x ++ sep ++ join sep (y :: l)).
  now rewrite <- !app_assoc.
Qed.

Lemma join_nonempty_cur cur : nonempty (join SP cur) = true -> cur <> [].
Proof. destruct cur; [discriminate|discriminate]. Qed.

Theorem fill_struct_ok lim : forall ws cur,
  fill_from lim (join SP cur) ws = map (join SP) (fill_struct lim cur ws).
Proof.
  induction ws as [|w r IH]; intros cur; cbn [fill_from fill_struct].
  - destruct (nonempty (join SP cur)); reflexivity.
  - destruct (is_nl w).
    + cbn [map]. f_equal. apply (IH []).
    + destruct (nonempty (join SP cur)) eqn:E; cbn [negb].
      * assert (Ej : join SP (cur ++ [w]) = join SP cur ++ [32] ++ w)
          by (apply join_snoc'; now apply join_nonempty_cur).
        rewrite Ej. destruct (len (join SP cur ++ [32] ++ w) <=? lim).
        -- rewrite <- Ej. apply IH.
        -- cbn [map]. f_equal. apply (IH [w]).
      * apply (IH [w]).
Qed.

Definition real_word (w : str) : bool := nonempty w && negb (is_nl w).

Lemma join_empty_words cur : nonempty (join SP cur) = false -> filter nonempty cur = [].
Proof.
  destruct cur as [|x [|y l]]; cbn; intros H; [reflexivity| |].
  - destruct x; [reflexivity|discriminate].
  - destruct x; discriminate.
Qed.

(* nothing is dropped, added or reordered: the non-empty words of the lines, in
   order, are exactly the non-empty words that are not hard-break markers *)
Theorem fill_words_preserved lim : forall ws cur,
  filter nonempty (concat (fill_struct lim cur ws)) = filter nonempty cur ++ filter real_word ws.
Proof.
  induction ws as [|w r IH]; intros cur; cbn [fill_struct filter].
  - rewrite app_nil_r. destruct (nonempty (join SP cur)) eqn:E.
    + cbn. now rewrite app_nil_r.
    + cbn. symmetry. now apply join_empty_words.
  - unfold real_word at 1. destruct (is_nl w) eqn:En.
    + rewrite andb_false_r. cbn [concat]. rewrite filter_app, IH. reflexivity.
    + rewrite andb_true_r. destruct (nonempty (join SP cur)) eqn:E; cbn [negb].
      * destruct (len (join SP (cur ++ [w])) <=? lim).
        -- rewrite IH, filter_app. cbn [filter]. destruct (nonempty w); cbn; rewrite <- ?app_assoc; reflexivity.
        -- cbn [concat]. rewrite filter_app, IH. cbn [filter]. destruct (nonempty w); reflexivity.
      * rewrite IH. rewrite (join_empty_words cur E). cbn [filter app]. destruct (nonempty w); reflexivity.
Qed.

Theorem wrap_words_preserved frs lim :
  fragments_to_lines (Some lim) frs = map (join SP) (fill_struct lim [] (make_words frs)) /\
  filter nonempty (concat (fill_struct lim [] (make_words frs))) = filter real_word (make_words frs).
Proof.
  split.
  - cbn [fragments_to_lines]. exact (fill_struct_ok lim (make_words frs) []).
  - exact (fill_words_preserved lim (make_words frs) []).
Qed.

(* the lines depend on the fragments only through their words *)
Theorem wrap_determined_by_words frs1 frs2 lim :
  make_words frs1 = make_words frs2 -> fragments_to_lines (Some lim) frs1 = fragments_to_lines (Some lim) frs2.
Proof. intros H. cbn [fragments_to_lines]. now rewrite H. Qed.

(* ---- blocks that are not re-broken ---- *)
Definition fixed_kind (t : tok) : bool :=
  match t with Heading _ _ _ | CodeFence _ | BlockCode _ | HtmlBlock _ | Table _ _ _ | ThematicBreak _ | BlankLine => true | _ => false end.

Theorem not_rebroken o L t : fixed_kind t = true -> block_lines o L t = block_lines o None t.
Proof. destruct t; cbn [fixed_kind]; intros H; try discriminate; reflexivity. Qed.

(* ---- container prefixes ---- *)
Lemma prefix_from_lines first p q lines line :
  In line (prefix_from first p q lines) -> line = [] \/ exists l, In l lines /\ (line = p ++ l \/ line = q ++ l).
Proof.
  revert first. induction lines as [|l r IH]; intros first Hin; cbn [prefix_from] in Hin; [contradiction|].
  destruct Hin as [<-|Hin].
  - destruct (nonempty l || negb (isspace _)); [|left; reflexivity]. right. exists l. split; [left; reflexivity|].
    destruct first; auto.
  - destruct (IH false Hin) as [H|(l' & Hl & H)]; [left; exact H|]. right. exists l'. split; [right; exact Hl|exact H].
Qed.

Lemma prefix_from_length first p q lines : length (prefix_from first p q lines) = length lines.
Proof. revert first. induction lines; intros; cbn; auto. Qed.

(* a quote hands its children the limit minus 2 and puts exactly "> " in front of their lines *)
Theorem quote_budget o L ch line :
  In line (block_lines o (Some L) (Quote ch)) ->
  line = [] \/ exists l, In l (flat_map (block_lines o (Some (L - 2))) ch) /\ line = $"> " ++ l.
Proof.
  cbn [block_lines sub_opt]. unfold prefix_lines. intros H.
  apply prefix_from_lines in H. destruct H as [H|(l & Hl & [H|H])]; [left; exact H| |]; right; exists l; auto.
Qed.

(* a list item hands its children the limit minus the content offset and puts a
   prefix of exactly that width in front of their lines *)
Theorem list_item_budget o L a ch line :
  let prepend := if normalize_ws o then len (i_leader a) + 1 else i_prepend a in
  let indentation := if normalize_ws o then 0 else i_indentation a in
  0 <= indentation -> len (i_leader a) + indentation <= prepend ->
  In line (block_lines o (Some L) (ListItem a ch)) ->
  line = [] \/ exists pre l, In l (or_blank (flat_map (block_lines o (Some (L - prepend))) ch)) /\
                             line = pre ++ l /\ len pre = prepend.
Proof.
  intros prepend indentation Hi Hp H. cbn [block_lines sub_opt] in H. fold prepend indentation in H.
  unfold prefix_lines in H.
  set (p := spaces indentation ++ i_leader a ++ spaces (prepend - len (i_leader a) - indentation)) in *.
  assert (Hlenp : len p = prepend).
  { unfold p, len. rewrite !app_length. unfold spaces. rewrite !repeat_length. unfold len in Hp. lia. }
  assert (Hlens : len (spaces prepend) = prepend).
  { unfold len, spaces. rewrite repeat_length. unfold len in Hp. lia. }
  destruct (spaces prepend) as [|c s] eqn:E.
  - apply prefix_from_lines in H. destruct H as [H|(l & Hl & H)]; [left; exact H|]. right.
    exists p, l. split; [exact Hl|]. split; [destruct H; exact H|exact Hlenp].
  - apply prefix_from_lines in H. destruct H as [H|(l & Hl & [H|H])]; [left; exact H| |]; right.
    + exists p, l. auto.
    + exists (c :: s), l. auto.
Qed.

Example wrap_example :
  fragments_to_lines (Some 7) [Fw $"aa bb  cc"; F $"`x y`"; Fw $" dd"] = [$"aa bb"; $"cc`x y`"; $"dd"] /\
  make_words [Fw $"aa bb  cc"; F $"`x y`"; Fw $" dd"] = [$"aa"; $"bb"; $"cc`x y`"; $"dd"].
Proof. vm_compute. split; reflexivity. Qed.
