(* C03 / C16: ONE image inside a sentence.  pre ![w](dest) post - as Proofs/LinkSentence.v for the inline link, with the
   scanner's two steps at "!" and "[" (the image flag, the two-character delimiter), match_link_image on that delimiter, no
   deactivation of earlier brackets, and the Image token holding w as its description. *)
From Coq Require Import ZArith List Bool Lia.
From Mistletoe Require Import Base.Sx Base.PyStr Base.PyText Gen.GenTables Gen.GenRegex Gen.GenConfig Re.ReMatch
     Model.SpanTokenizer Model.Tree Model.Unescape Model.CoreTokens Model.Inline Model.Block Model.Build Model.Parser Model.HtmlRenderer
     Proofs.ReFirst Proofs.ReNeeds Proofs.Prose Proofs.PlainProse Proofs.ListLaw Proofs.ProseLines Proofs.EmphSimple Proofs.EmphSentence Proofs.RefSentence Proofs.LinkSentence.
Import ListNotations.
Local Open Scope Z_scope.

(* the scanner at "![" : the image flag, then ONE delimiter for the two characters *)
Lemma scan_bang_bracket fuel s fn pre post st : s = pre ++ 33 :: 91 :: post -> clean st ->
  scan_loop (S (S fuel)) s fn (slen pre) None st =
  scan_loop fuel s fn (slen pre + 2) None
            (mkScan (sc_ds st ++ [new_delim (slen pre) (slen pre + 2) s]) (sc_ms st) false None false (sc_start st) (sc_code st)).
Proof.
  intros Es (Hr & He & Hi).
  assert (H1 : slen pre <? slen s = true) by (apply Z.ltb_lt; rewrite Es, slen_app; unfold slen; cbn [length]; lia).
  assert (H2 : slen pre + 1 <? slen s = true) by (apply Z.ltb_lt; rewrite Es, slen_app; unfold slen; cbn [length]; lia).
  assert (E1 : char_at s (slen pre) = 33) by (rewrite Es; apply char_at_mid).
  assert (E2 : char_at s (slen pre + 1) = 91).
  { replace (slen pre + 1) with (slen (pre ++ [33])) by (rewrite slen_app; reflexivity).
    rewrite Es. replace (pre ++ 33 :: 91 :: post) with ((pre ++ [33]) ++ 91 :: post) by (rewrite <- app_assoc; reflexivity). apply char_at_mid. }
  cbn [scan_loop]. rewrite H1. cbn [negb]. rewrite E1, He, Hr. cbn [Z.eqb Pos.eqb andb negb orb].
  rewrite H2. cbn [negb sc_escaped sc_run sc_ds sc_ms sc_in_image sc_start sc_code]. rewrite E2. cbn [Z.eqb Pos.eqb andb negb orb].
  replace (slen pre + 1 - 1) with (slen pre) by lia. replace (slen pre + 1 + 1) with (slen pre + 2) by lia. reflexivity.
Qed.

Module Img.
Section ImgS.
  Variables (pre w dest post : str) (fn : footnotes).
  Hypothesis Hpre : plain_text pre = true.
  Hypothesis Hw : plain_text w = true.
  Hypothesis Hpost : plain_text post = true.
  Hypothesis Hwne : w <> [].
  Hypothesis Hd : forallb dest_char dest = true.
  Hypothesis Hdne : dest <> [].

  Let s := pre ++ [33; 91] ++ w ++ [93; 40] ++ dest ++ [41] ++ post.
  Let a := slen pre.
  Let b := a + 2 + slen w.
  Let off := b + 2.
  Let de := off + slen dest.

  Lemma l_len : slen s = de + 1 + slen post.
  Proof. unfold s, de, off, b, a. rewrite !slen_app. unfold slen. cbn [length]. lia. Qed.
  Lemma l_a0 : 0 <= a.  Proof. unfold a, slen. lia. Qed.
  Lemma l_w0 : 0 < slen w.
  Proof. unfold slen. destruct (length w) eqn:El; [apply length_zero_iff_nil in El; contradiction|lia]. Qed.
  Lemma l_d0 : 0 < slen dest.
  Proof. unfold slen. destruct (length dest) eqn:El; [apply length_zero_iff_nil in El; contradiction|lia]. Qed.
  Lemma l_p0 : 0 <= slen post.  Proof. unfold slen. lia. Qed.

  (* the text split at the places the scanners look at *)
  Lemma s_at_b : s = (pre ++ [33; 91] ++ w) ++ 93 :: (40 :: dest ++ [41] ++ post).
  Proof. unfold s. rewrite <- !app_assoc. reflexivity. Qed.
  Lemma s_at_p : s = (pre ++ [33; 91] ++ w ++ [93]) ++ 40 :: (dest ++ [41] ++ post).
  Proof. unfold s. rewrite <- !app_assoc. reflexivity. Qed.
  Lemma s_at_off : s = (pre ++ [33; 91] ++ w ++ [93; 40]) ++ dest ++ 41 :: post.
  Proof. unfold s. rewrite <- !app_assoc. reflexivity. Qed.
  Lemma s_at_de : s = (pre ++ [33; 91] ++ w ++ [93; 40] ++ dest) ++ 41 :: post.
  Proof. unfold s. rewrite <- !app_assoc. reflexivity. Qed.

  Lemma len_b : slen (pre ++ [33; 91] ++ w) = b.
  Proof. unfold b, a. rewrite !slen_app. unfold slen. cbn [length]. lia. Qed.
  Lemma len_p : slen (pre ++ [33; 91] ++ w ++ [93]) = b + 1.
  Proof. unfold b, a. rewrite !slen_app. unfold slen. cbn [length]. lia. Qed.
  Lemma len_off : slen (pre ++ [33; 91] ++ w ++ [93; 40]) = off.
  Proof. unfold off, b, a. rewrite !slen_app. unfold slen. cbn [length]. lia. Qed.
  Lemma len_de : slen (pre ++ [33; 91] ++ w ++ [93; 40] ++ dest) = de.
  Proof. unfold de, off, b, a. rewrite !slen_app. unfold slen. cbn [length]. lia. Qed.

  Lemma l_at_b : char_at s b = 93.
  Proof. rewrite s_at_b, <- len_b. apply char_at_mid. Qed.
  Lemma l_at_p : char_at s (b + 1) = 40.
  Proof. rewrite s_at_p, <- len_p. apply char_at_mid. Qed.
  Lemma l_at_de : char_at s de = 41.
  Proof. rewrite s_at_de, <- len_de. apply char_at_mid. Qed.

  Lemma dest_first : exists c r, dest = c :: r /\ is_ws c = false /\ (c =? 60) = false.
  Proof.
    assert (Hcase : exists c r, dest = c :: r) by (destruct dest as [|c r]; [contradiction|exists c, r; reflexivity]).
    destruct Hcase as (c & r & E). exists c, r. split; [exact E|]. pose proof Hd as H. rewrite E in H. cbn [forallb] in H. apply andb_true_iff in H as [Hc _].
    unfold dest_char in Hc. repeat rewrite andb_true_iff in Hc. destruct Hc as [[[[H1 _] _] H4] _]. apply negb_true_iff in H1, H4. split; [exact H1|].
    unfold mem, triggers_r in H4. cbn [existsb] in H4. repeat (apply orb_false_iff in H4; destruct H4 as [? H4]).
    assumption.
  Qed.

  Lemma l_paren : follows s b 40 = true.
  Proof.
    unfold follows. rewrite l_at_p. assert (b + 1 <? slen s = true) as -> by (apply Z.ltb_lt; rewrite l_len; unfold de, off; pose proof l_d0; pose proof l_p0; lia). reflexivity.
  Qed.

  Lemma l_inner_w : substr s (a + 2) b = w.
  Proof.
    pose proof (substr_mid (pre ++ [33; 91]) w ([93; 40] ++ dest ++ [41] ++ post)) as M.
    replace (slen (pre ++ [33; 91])) with (a + 2) in M by (rewrite slen_app; reflexivity).
    replace (a + 2 + slen w) with b in M by (unfold b; lia).
    unfold s. replace (pre ++ [33; 91] ++ w ++ [93; 40] ++ dest ++ [41] ++ post) with ((pre ++ [33; 91]) ++ w ++ [93; 40] ++ dest ++ [41] ++ post) by (rewrite <- !app_assoc; reflexivity). exact M.
  Qed.

  Lemma l_bracket_text : substr s a (a + 2) = [33; 91].
  Proof. pose proof (substr_mid pre [33; 91] (w ++ [93; 40] ++ dest ++ [41] ++ post)) as M. fold a in M. exact M. Qed.

  Lemma l_dest_text : substr s off de = dest.
  Proof.
    pose proof (substr_mid (pre ++ [33; 91] ++ w ++ [93; 40]) dest ([41] ++ post)) as M. rewrite len_off in M. fold de in M.
    rewrite s_at_off. exact M.
  Qed.

  Definition LD : delim := mkDelim [33; 91] 2 2 true a (a + 2) false false false.
  Lemma LD_eq : new_delim a (a + 2) s = LD.
  Proof. unfold new_delim. rewrite l_bracket_text. cbn [andb]. unfold LD. f_equal; lia. Qed.

  Lemma dest_found : match_link_dest s (b + 1) = Some (off, de, dest).
  Proof.
    destruct dest_first as (c & r & Ed & Hws & H60).
    unfold match_link_dest.
    assert (Esh : shift_whitespace s (b + 1 + 1) = off).
    { unfold shift_whitespace. replace (b + 1 + 1) with off by (unfold off; lia). rewrite s_at_off at 1. rewrite <- len_off at 1. rewrite drop_app_len.
      apply shift_ws_stop; [rewrite Ed; exact Hws|rewrite Ed; discriminate]. }
    rewrite Esh.
    assert (off =? slen s = false) as -> by (apply Z.eqb_neq; rewrite l_len; unfold de; pose proof l_d0; pose proof l_p0; lia).
    assert (Ec : char_at s off = c).
    { rewrite s_at_off, Ed. rewrite <- len_off. cbn [app]. apply char_at_mid. }
    rewrite Ec, H60.
    assert (Edrop : drop off s = dest ++ 41 :: post) by (rewrite s_at_off at 1; rewrite <- len_off; apply drop_app_len).
    rewrite Edrop, (dest_plain_run dest off post Hd). fold de. rewrite l_dest_text. reflexivity.
  Qed.

  Lemma title_found : match_link_title s de = Some (de, de, []).
  Proof.
    unfold match_link_title.
    assert (Esh : shift_whitespace s de = de).
    { unfold shift_whitespace. rewrite s_at_de at 1. rewrite <- len_de at 1. rewrite drop_app_len. apply shift_ws_stop; [reflexivity|discriminate]. }
    rewrite Esh.
    assert (de =? slen s = false) as -> by (apply Z.eqb_neq; rewrite l_len; pose proof l_p0; lia).
    rewrite l_at_de. reflexivity.
  Qed.

  Definition the_ilink : mobj :=
    link_mobj true a (de + 1) (a + 2, b, w) (off, de, dest) (de, de, []) $"uri" None [].

  Lemma ilink_found : match_link_image s b LD fn = Some the_ilink.
  Proof.
    destruct dest_first as (c & r & Ed & Hws & H60).
    unfold match_link_image. cbn [LD d_type d_start d_number].
    rewrite l_paren, l_inner_w, dest_found, title_found.
    assert (Esh : shift_whitespace s de = de).
    { unfold shift_whitespace. rewrite s_at_de at 1. rewrite <- len_de at 1. rewrite drop_app_len. apply shift_ws_stop; [reflexivity|discriminate]. }
    rewrite Esh.
    assert (de <? slen s = true) as -> by (apply Z.ltb_lt; rewrite l_len; pose proof l_p0; lia).
    rewrite l_at_de. cbn [andb Z.eqb Pos.eqb].
    assert (Ec : char_at s off = c) by (rewrite s_at_off, Ed; rewrite <- len_off; cbn [app]; apply char_at_mid).
    rewrite Ec, H60. rewrite andb_false_r. rewrite Z.ltb_irrefl. reflexivity.
  Qed.

  Lemma find_ilink : find_link_image s b [LD] [] fn = (de, [], [the_ilink]).
  Proof.
    unfold find_link_image. change (Z.of_nat (length [LD]) - 1) with 0. change (length [LD]) with 1%nat.
    cbn [find_li_down]. change (nthd [LD] 0 dummy) with LD.
    change (is_bracket LD) with true. cbn [d_active LD negb]. cbv iota. rewrite ilink_found.
    assert (PE : process_emphasis s (Some 0) [LD] [] = ([], [])).
    { unfold process_emphasis. change (next_closer 0 [LD]) with (@None Z). destruct (3 * length s + 3)%nat; reflexivity. }
    rewrite PE. change (str_eqb (d_type LD) ($"[")) with false. cbv iota.
    unfold the_ilink, link_mobj. cbn [m_end]. replace (de + 1 - 1) with de by lia. reflexivity.
  Qed.

  Lemma l_no c : mem c triggers_r = true -> mem c s = false.
  Proof.
    intros Hc.
    assert (P : forall t, plain_text t = true -> mem c t = false).
    { intros t Ht. apply plain_no; [|exact Ht]. unfold mem, triggers_r, triggers in *. cbn [existsb] in *.
      repeat (apply orb_true_iff in Hc; destruct Hc as [Hc|Hc]); try discriminate; rewrite Hc; cbn [orb]; rewrite ?orb_true_r; reflexivity. }
    assert (C33 : (c =? 33) = false) by (destruct (c =? 33) eqn:E; [apply Z.eqb_eq in E; subst c; vm_compute in Hc; discriminate|reflexivity]).
    assert (C4 : c <> 91 /\ c <> 93 /\ c <> 40 /\ c <> 41).
    { repeat split; intros ->; vm_compute in Hc; discriminate. }
    assert (PD : mem c dest = false).
    { clear -Hd Hc. induction dest as [|x r IH]; [reflexivity|]. cbn [forallb] in Hd. apply andb_true_iff in Hd as [Hx Hr].
      unfold mem. cbn [existsb]. fold (mem c r). rewrite (IH Hr), orb_false_r.
      unfold dest_char in Hx. repeat rewrite andb_true_iff in Hx. destruct Hx as [[_ H4] _]. apply negb_true_iff in H4.
      destruct (c =? x) eqn:E; [|reflexivity]. apply Z.eqb_eq in E. subst x. rewrite Hc in H4. discriminate. }
    unfold s, mem. rewrite !existsb_app. fold (mem c pre). fold (mem c w). fold (mem c dest). fold (mem c post).
    rewrite (P pre Hpre), (P w Hw), (P post Hpost), PD. cbn [existsb orb].
    destruct C4 as (C1 & C2 & C3 & C5). apply Z.eqb_neq in C1, C2, C3, C5. rewrite C33, C1, C2, C3, C5. reflexivity.
  Qed.

  Lemma l_no_code i : code_search s i = None.
  Proof.
    unfold code_search. apply (search_state_none _ _ 96); [vm_compute; reflexivity|]. unfold seek. cbn [aft].
    apply mem_drop. apply l_no. reflexivity.
  Qed.

  (* ---- the scanner ---- *)
  Lemma scan_ilink : exists st, scan_loop (S (S (length s))) s fn 0 None (mkScan [] [] false None false 0 []) = st /\
                                sc_ds st = [] /\ sc_ms st = [the_ilink] /\ sc_code st = [].
  Proof.
    assert (El : (S (S (length s)) = length pre + S (S (length w + S (length dest + 2 + (length post + 2)))))%nat).
    { unfold s. rewrite !app_length. cbn [length]. lia. }
    rewrite El.
    set (st0 := mkScan [] [] false None false 0 []).
    rewrite (scan_inert_any s fn pre _ [] ([33; 91] ++ w ++ [93; 40] ++ dest ++ [41] ++ post) st0 eq_refl (plain_inert pre Hpre)) by (repeat split).
    change (slen [] + slen pre) with (slen pre).
    rewrite (scan_bang_bracket _ s fn pre (w ++ [93; 40] ++ dest ++ [41] ++ post) st0 eq_refl) by (repeat split).
    fold a. rewrite LD_eq. cbn [st0 sc_ds sc_ms sc_start sc_code app].
    set (st1 := mkScan [LD] [] false None false 0 []).
    replace (a + 2) with (slen (pre ++ [33; 91])) by (rewrite slen_app; reflexivity).
    rewrite (scan_inert_any s fn w _ (pre ++ [33; 91]) ([93; 40] ++ dest ++ [41] ++ post) st1); [|unfold s; rewrite <- !app_assoc; reflexivity|exact (plain_inert w Hw)|repeat split].
    replace (slen (pre ++ [33; 91]) + slen w) with b by (unfold b, a; rewrite slen_app; unfold slen; cbn [length]; lia).
    (* the closing bracket *)
    cbn [scan_loop].
    assert (Hlt : b <? slen s = true) by (apply Z.ltb_lt; rewrite l_len; unfold de, off; pose proof l_p0; pose proof l_d0; lia).
    rewrite Hlt. cbn [negb]. rewrite l_at_b. cbn [st1 sc_escaped sc_run sc_ds sc_ms sc_in_image sc_start sc_code andb negb orb Z.eqb Pos.eqb].
    rewrite find_ilink. rewrite l_no_code.
    set (st2 := mkScan [] [the_ilink] false None false 0 []).
    assert (Hcase : post = [] \/ post <> []) by (destruct post; [left; reflexivity|right; discriminate]).
    destruct Hcase as [Ep|Ep].
    - assert (Lp : length post = 0%nat) by (rewrite Ep; reflexivity). rewrite Lp.
      assert (Ee : de + 1 = slen s) by (rewrite l_len, Ep; unfold slen; cbn [length]; lia).
      rewrite Ee. replace (length dest + 2 + (0 + 2))%nat with (S (length dest + 3)) by lia. rewrite scan_end. cbn [st2 sc_run]. eexists. split; [reflexivity|]. repeat split.
    - replace (de + 1) with (slen (pre ++ [33; 91] ++ w ++ [93; 40] ++ dest ++ [41])) by (unfold de, off, b, a; rewrite !slen_app; unfold slen; cbn [length]; lia).
      replace (length dest + 2 + (length post + 2))%nat with (length post + (length dest + 4))%nat by lia.
      rewrite (scan_inert_any s fn post _ (pre ++ [33; 91] ++ w ++ [93; 40] ++ dest ++ [41]) [] st2); [|unfold s; rewrite app_nil_r, <- !app_assoc; reflexivity|exact (plain_inert post Hpost)|repeat split].
      replace (slen (pre ++ [33; 91] ++ w ++ [93; 40] ++ dest ++ [41]) + slen post) with (slen s) by (rewrite l_len; unfold de, off, b, a; rewrite !slen_app; unfold slen; cbn [length]; lia).
      replace (length dest + 4)%nat with (S (length dest + 3)) by lia.
      rewrite scan_end. cbn [st2 sc_run]. eexists. split; [reflexivity|]. repeat split.
  Qed.

  Theorem core_finds_ilink : find_core_tokens s fn = ([the_ilink], []).
  Proof.
    unfold find_core_tokens. rewrite l_no_code. destruct scan_ilink as (st & -> & Hds & Hm & Hc). rewrite Hds, Hm, Hc.
    unfold process_emphasis. change (next_closer 0 []) with (@None Z). destruct (3 * length s + 3)%nat; reflexivity.
  Qed.

  Lemma find_all_ilink : forall types, forallb kind_quiet_r types = true ->
    find_all types s fn [] = flat_map (fun kd => match kd with SK_CoreTokens => [CCore the_ilink] | _ => [] end) types.
  Proof.
    induction types as [|kd ts IH]; intros Hq; [reflexivity|].
    cbn [forallb] in Hq. apply andb_true_iff in Hq as [Hkq Hts]. cbn [find_all flat_map].
    assert (F : match kd with SK_CoreTokens | SK_InlineCode | SK_RawText => True | _ => finditer (snd (re_of kd)) (fst (re_of kd)) s = [] end).
    { destruct kd; try exact I; cbn [kind_quiet_r] in Hkq; apply existsb_exists in Hkq as (c & Hin & Hn);
        (apply (finditer_none _ _ c s Hn); apply l_no; unfold mem; apply existsb_exists; exists c; split; [exact Hin|apply Z.eqb_refl]). }
    destruct kd; cbn [find_kind];
      try (rewrite core_finds_ilink; cbn [map app]; f_equal; apply IH; exact Hts);
      try (cbn [map app]; apply IH; exact Hts);
      (cbn [re_of fst snd] in F |- *; rewrite F; cbn [map app]; apply IH; exact Hts).
  Qed.

  Definition ilink_tok : tok := Image (mkLink (escape_strip (strip dest)) (escape_strip []) $"uri" None []) [RawText w].

  Theorem tokenize_inner_ilink types : forallb kind_quiet_r (removelast types) = true ->
    filter (fun kd => match kd with SK_CoreTokens => true | _ => false end) (removelast types) = [SK_CoreTokens] ->
    tokenize_inner types fn s = raw_if pre ++ [ilink_tok] ++ raw_if post.
  Proof.
    intros Hq Hc. unfold tokenize_inner. rewrite (find_all_ilink _ Hq).
    assert (Es : flat_map (fun kd => match kd with SK_CoreTokens => [CCore the_ilink] | _ => [] end) (removelast types) = [CCore the_ilink]).
    { clear Hq. revert Hc. generalize (removelast types) as ts.
      assert (G : forall ts n, length (filter (fun kd => match kd with SK_CoreTokens => true | _ => false end) ts) = n ->
                flat_map (fun kd => match kd with SK_CoreTokens => [CCore the_ilink] | _ => [] end) ts = repeat (CCore the_ilink) n).
      { induction ts as [|kd ts IH]; intros n Hn; [cbn in Hn; subst n; reflexivity|]. cbn [flat_map filter] in *.
        destruct kd; try (cbn [app]; apply IH; exact Hn). destruct n as [|n]; [discriminate|]. cbn [length] in Hn. cbn [repeat app]. f_equal. apply IH. lia. }
      intros ts H. rewrite (G ts 1%nat) by (rewrite H; reflexivity). reflexivity. }
    rewrite Es.
    cbn [number_from map fst snd cand_of sk_parse_group field_span the_ilink link_mobj m_fields nth_error m_start m_end sk_precedence sk_parse_inner].
    pose proof l_len as Hs. pose proof l_a0 as Ha0. pose proof l_p0 as Hp0. pose proof l_w0 as Hw0. pose proof l_d0 as Hd0.
    unfold tokenize, SpanTokenizer.make_tokens, make_tokens_with.
    cbn [sort_cands fold_right insert_stable buffer_rev eval_loop last_end pc ce mk_rev cs make inner ps pe app rev].
    unfold make_tokens_with. cbn [last_end mk_rev app rev].
    assert (a + 2 =? b = false) as -> by (apply Z.eqb_neq; unfold b; lia).
    assert (Gb : (if a >? 0 then [ORaw 0 a] else []) = match pre with [] => [] | _ => [ORaw 0 a] end) by (unfold a; apply gap_before).
    assert (Ga : (if de + 1 =? slen s then [] else [ORaw (de + 1) (slen s)]) = match post with [] => [] | _ => [ORaw (de + 1) (slen s)] end) by (rewrite Hs; apply gap_after).
    rewrite Gb, Ga. rewrite rev_app_distr. cbn [rev app]. rewrite rev_app_distr. cbn [rev app].
    rewrite !map_app. cbn [map build_otok cid src_at Z.to_nat nth].
    rewrite l_inner_w, (unescape_plain w Hw).
    assert (Tk : build_inner (CCore the_ilink) [RawText w] = ilink_tok) by reflexivity.
    rewrite Tk. rewrite <- app_assoc. cbn [app]. f_equal; [|f_equal].
    - apply raw_gap. cbn [build_otok]. f_equal.
      pose proof (substr_mid [] pre ([33; 91] ++ w ++ [93; 40] ++ dest ++ [41] ++ post)) as M. cbn [app] in M. unfold slen at 1 2 in M. cbn [length Z.of_nat] in M.
      fold a in M. replace (0 + a) with a in M by lia. unfold s. cbn [app]. rewrite M. apply unescape_plain. exact Hpre.
    - apply raw_gap. cbn [build_otok]. f_equal.
      pose proof (substr_mid (pre ++ [33; 91] ++ w ++ [93; 40] ++ dest ++ [41]) post []) as M.
      replace (slen (pre ++ [33; 91] ++ w ++ [93; 40] ++ dest ++ [41])) with (de + 1) in M by (unfold de, off, b, a; rewrite !slen_app; unfold slen; cbn [length]; lia).
      rewrite app_nil_r in M. replace ((pre ++ [33; 91] ++ w ++ [93; 40] ++ dest ++ [41]) ++ post) with s in M by (unfold s; rewrite <- !app_assoc; reflexivity).
      rewrite Hs. rewrite M. apply unescape_plain. exact Hpost.
  Qed.
End ImgS.
End Img.

Definition image_of (w dest : str) : tok := Image (mkLink dest [] $"uri" None []) [RawText w].

Theorem image_in_sentence types fn pre w dest post :
  ref_spans types = true -> ilink_ok pre w dest post = true ->
  tokenize_inner types fn (pre ++ [33; 91] ++ w ++ [93; 40] ++ dest ++ [41] ++ post) = raw_if pre ++ [image_of w dest] ++ raw_if post.
Proof.
  intros Hs Ho. unfold ref_spans in Hs. apply andb_true_iff in Hs as [Hq Hc].
  unfold ilink_ok in Ho. repeat rewrite andb_true_iff in Ho. destruct Ho as [[[[[H1 H2] H3] H4] H5] H6].
  assert (Hdne : dest <> []) by (destruct dest; [discriminate|discriminate]).
  rewrite (Img.tokenize_inner_ilink pre w dest post fn H1 H2 H3); [|destruct w; [discriminate|discriminate]|exact H5|exact Hdne|exact Hq|].
  - unfold Img.ilink_tok, image_of. rewrite (dest_clean dest H5 Hdne). reflexivity.
  - destruct (filter _ _) as [|[] [|? ?]]; try discriminate. reflexivity.
Qed.
