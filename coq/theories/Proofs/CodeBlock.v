(* C03: an indented code block, any number of lines.  Lines that begin with four spaces and are not blank are
   read by BlockCode alone: HtmlBlock.start refuses four columns of indentation, BlockCode.start sees the four
   spaces, BlockCode.read strips exactly them from every line and goes on to the end; the token holds the lines
   with one final newline and the HTML renderer writes <pre><code> + the escaped text + </code></pre>. *)
From Coq Require Import ZArith List Bool Lia.
From Mistletoe Require Import Base.Sx Base.PyStr Base.PyText Gen.GenTables Gen.GenRegex Gen.GenConfig Gen.GenEscapes Re.ReMatch
     Model.Tree Model.CoreTokens Model.Block Model.Build Model.Parser Model.HtmlRenderer
     Proofs.ListLaw Proofs.PlainProse Proofs.ProseLines.
Import ListNotations.
Local Open Scope Z_scope.

Definition SP4 : str := [32; 32; 32; 32].

(* the text of a code line after its four spaces *)
Definition code_text (l : str) : Prop := is_blank l = false /\ mem 10 l = false /\ mem 9 l = false.
Definition code_line (l : str) : str := SP4 ++ l ++ [10].

Lemma lstrip_by_app_all p a b : forallb p a = true -> lstrip_by p (a ++ b) = lstrip_by p b.
Proof. induction a as [|c a IH]; intros H; [reflexivity|]. cbn [forallb] in H. apply andb_true_iff in H as [Hc Ha]. cbn [app lstrip_by]. rewrite Hc. apply IH. exact Ha. Qed.

Lemma replace_first_notab s : mem 9 s = false -> replace_first [9] SP4 s = s.
Proof.
  induction s as [|c s IH]; intros H; [reflexivity|]. unfold mem in H. cbn [existsb] in H. apply orb_false_iff in H as [Hc Hs].
  cbn [replace_first]. assert (startswith [9] (c :: s) = false) as ->.
  { cbn [startswith]. rewrite Hc. reflexivity. }
  f_equal. apply IH. exact Hs.
Qed.

Lemma startswith_app p x : startswith p (p ++ x) = true.
Proof. induction p as [|c p IH]; [reflexivity|]. cbn [app startswith]. rewrite Z.eqb_refl. exact IH. Qed.

Section Lines.
  Variable types : list block_kind.
  Variable rec : list str -> Z -> pstate -> list pre * bool * pstate.

  Lemma code_line_not_blank l : code_text l -> is_blank (code_line l) = false.
  Proof.
    intros (Hb & _). unfold code_line, is_blank, strip, strip_by in *.
    assert (E : lstrip_by is_space_c (SP4 ++ l ++ [10]) = lstrip_by is_space_c (l ++ [10])) by (apply lstrip_by_app_all; vm_compute; reflexivity).
    rewrite E.
    (* l is not blank: its own strip is not empty, and stripping l ++ newline gives the same *)
    destruct (lstrip_by is_space_c l) as [|c r] eqn:El; [unfold rstrip_by in Hb; cbn in Hb; discriminate|].
    assert (E2 : lstrip_by is_space_c (l ++ [10]) = (c :: r) ++ [10]).
    { clear -El. revert El. induction l as [|x l IH]; intros El; [discriminate|]. cbn [app lstrip_by] in *. destruct (is_space_c x); [apply IH; exact El|]. injection El as <- <-. reflexivity. }
    rewrite E2. unfold rstrip_by in *. rewrite rev_app_distr. change (rev [10]) with [10]. change ([10] ++ rev (c :: r)) with (10 :: rev (c :: r)).
    set (X := rev (c :: r)) in *. cbn [lstrip_by]. replace (is_space_c 10) with true by (vm_compute; reflexivity).
    destruct (lstrip_by is_space_c X) as [|y ys] eqn:Er; [cbn in Hb; discriminate|].
    destruct (rev (y :: ys)) eqn:Ex; [|reflexivity]. apply (f_equal (@length Z)) in Ex. rewrite rev_length in Ex. discriminate.
  Qed.

  Lemma code_line_start l : code_text l -> blockcode_start (code_line l) = true.
  Proof.
    intros H. pose proof H as (_ & _ & H9). unfold blockcode_start. rewrite (code_line_not_blank l H). cbn [negb]. rewrite andb_true_r.
    unfold tabs_to_spaces_once. change ($"    ") with SP4. rewrite replace_first_notab.
    - unfold code_line. apply startswith_app.
    - unfold code_line, mem. rewrite !existsb_app. fold (mem 9 l). rewrite H9. reflexivity.
  Qed.

  Lemma code_line_strip l : blockcode_strip (code_line l) = l ++ [10].
  Proof. reflexivity. Qed.

  Lemma blockcode_loop_code : forall ls buf taken, Forall code_text ls ->
    blockcode_loop (map code_line ls) buf taken 0 = (rev buf ++ map (fun l => l ++ [10]) ls, (taken + length ls)%nat).
  Proof.
    induction ls as [|l ls IH]; intros buf taken H.
    - cbn [map blockcode_loop skipn length]. rewrite app_nil_r, Nat.sub_0_r, Nat.add_0_r. reflexivity.
    - inversion H as [|? ? Hl Hr]; subst. cbn [map blockcode_loop].
      rewrite (code_line_not_blank l Hl).
      pose proof (code_line_start l Hl) as Hs. unfold blockcode_start in Hs. apply andb_true_iff in Hs as [Hs _]. rewrite Hs. cbn [negb].
      rewrite code_line_strip, (IH _ _ Hr). cbn [rev length]. rewrite <- app_assoc. cbn [app]. f_equal. lia.
  Qed.

  Lemma htmlblock_indented l : htmlblock_start (code_line l) = None.
  Proof.
    unfold htmlblock_start. cbv zeta.
    assert (4 <=? slen (code_line l) - slen (lstrip (code_line l)) = true) as ->; [|reflexivity].
    apply Z.leb_le. unfold code_line, lstrip.
    rewrite (lstrip_by_app_all is_space_c SP4 (l ++ [10])) by (vm_compute; reflexivity).
    assert (slen (lstrip_by is_space_c (l ++ [10])) <= slen (l ++ [10])).
    { generalize (l ++ [10]). induction l0 as [|x r IHr]; [cbn; lia|]. cbn [lstrip_by]. destruct (is_space_c x); [unfold slen in *; cbn [length]; lia|lia]. }
    unfold slen in *. rewrite !app_length in *. cbn [length SP4] in *. lia.
  Qed.

  (* the kinds tried before BlockCode: none, or HtmlBlock only *)
  Definition code_first (ts : list block_kind) : bool :=
    match ts with BK_BlockCode :: _ => true | BK_HtmlBlock :: BK_BlockCode :: _ => true | _ => false end.

  Lemma try_types_code l ls ln st : code_first types = true -> Forall code_text (l :: ls) ->
    try_types types rec types (map code_line (l :: ls)) ln st = Some (PBlockCode ln (map (fun x => x ++ [10]) (l :: ls)), S (length ls), st).
  Proof.
    intros Hf H. inversion H as [|? ? Hl Hr]; subst.
    assert (R : start_read types rec BK_BlockCode (map code_line (l :: ls)) ln st = Some (PBlockCode ln (map (fun x => x ++ [10]) (l :: ls)), S (length ls), st)).
    { cbn [map start_read]. rewrite (code_line_start l Hl). unfold blockcode_read.
      pose proof (blockcode_loop_code (l :: ls) [] 0%nat H) as E. cbn [map rev app length Nat.add] in E. rewrite E. reflexivity. }
    destruct types as [|k1 ts]; [discriminate|]. destruct k1; try discriminate.
    - cbn [try_types]. rewrite R. reflexivity.
    - destruct ts as [|k2 ts']; [discriminate|]. destruct k2; try discriminate. cbn [try_types].
      assert (N : start_read (BK_HtmlBlock :: BK_BlockCode :: ts') rec BK_HtmlBlock (map code_line (l :: ls)) ln st = None).
      { cbn [map start_read]. rewrite htmlblock_indented. reflexivity. }
      rewrite N, R. reflexivity.
  Qed.
End Lines.

Theorem code_block types f l ls ln st : code_first types = true -> Forall code_text (l :: ls) ->
  tokenize_block types (S f) (map code_line (l :: ls)) ln st = ([PBlockCode ln (map (fun x => x ++ [10]) (l :: ls))], false, st).
Proof.
  intros Hf H. set (L := map code_line (l :: ls)).
  assert (EL : @skipn str (S (length ls)) L = []) by (apply skipn_all2; unfold L; rewrite map_length; cbn [length]; apply le_n).
  unfold L at 1. cbn [map]. cbn [tokenize_block length dispatch_loop].
  change (code_line l :: map code_line ls) with (map code_line (l :: ls)).
  rewrite (try_types_code types (tokenize_block types f) l ls ln st Hf H). fold L. rewrite EL.
  destruct (length (map code_line ls)); reflexivity.
Qed.

(* the content of the token: the lines joined, one final newline *)
Lemma strip_nl_lines l ls : Forall code_text (l :: ls) ->
  strip_set [10] (concat (map (fun x => x ++ [10]) (l :: ls))) = join [10] (l :: ls).
Proof.
  intros H. change (map (fun x : str => x ++ [10]) (l :: ls)) with (nl_lines (l :: ls)). rewrite concat_nl_lines by discriminate.
  set (J := join [10] (l :: ls)).
  assert (Hne : forall x, In x (l :: ls) -> x <> [] /\ mem 10 x = false).
  { intros x Hx. rewrite Forall_forall in H. destruct (H x Hx) as (Hb & H10 & _). split; [|exact H10]. intros ->. vm_compute in Hb. discriminate. }
  (* first character of J *)
  destruct (Hne l (or_introl eq_refl)) as [Hl Hl10]. destruct l as [|c t]; [contradiction|].
  assert (Hc : (c =? 10) = false) by (unfold mem in Hl10; cbn [existsb] in Hl10; apply orb_false_iff in Hl10 as [A _]; rewrite Z.eqb_sym; exact A).
  assert (EJ : exists t', J = c :: t') by (unfold J; destruct ls; [exists t; reflexivity|eexists; reflexivity]). destruct EJ as [t' EJ].
  unfold strip_set, strip_by, lstrip_by. rewrite EJ. cbn [app]. fold lstrip_by.
  assert (mem c [10] = false) as -> by (unfold mem; cbn [existsb]; rewrite Hc; reflexivity).
  change (c :: t' ++ [10]) with ((c :: t') ++ [10]). rewrite <- EJ.
  (* last character of J *)
  assert (Hn : Forall (fun x : str => x <> []) ((c :: t) :: ls)) by (apply Forall_forall; intros x Hx; apply (Hne x Hx)).
  pose proof (last_join ls (c :: t) Hn) as LJ. change (join [10] ((c :: t) :: ls)) with J in LJ.
  assert (G : forall x : str, In x ((c :: t) :: ls) -> (last x 0 =? 10) = false).
  { intros x Hx. destruct (Hne x Hx) as [Hlast_ne Hlast10]. destruct (exists_last Hlast_ne) as (p & z & Ex). rewrite Ex in Hlast10 |- *. rewrite last_last.
    unfold mem in Hlast10. rewrite existsb_app in Hlast10. cbn [existsb] in Hlast10. apply orb_false_iff in Hlast10 as [_ A].
    apply orb_false_iff in A as [A _]. rewrite Z.eqb_sym. exact A. }
  assert (Hlc : (last J 0 =? 10) = false) by (rewrite LJ; apply G; apply last_in).
  assert (HJne : J <> []) by (rewrite EJ; discriminate).
  destruct (exists_last HJne) as (p & z & Ep). rewrite Ep in Hlc. rewrite last_last in Hlc.
  unfold rstrip_by. rewrite rev_app_distr. change (rev [10]) with [10]. change ([10] ++ rev J) with (10 :: rev J).
  assert (ER : rev J = z :: rev p) by (rewrite Ep, rev_app_distr; reflexivity).
  rewrite ER. cbn [lstrip_by]. unfold mem. cbn [existsb]. rewrite Z.eqb_refl. cbn [orb].
  rewrite Hlc. cbn [orb]. rewrite <- ER. apply rev_involutive.
Qed.

Definition code_config (cfg : pconfig) : bool := code_first (cfg_block cfg).

Theorem indented_code_parses cfg l ls : Forall code_text (l :: ls) -> code_config cfg = true ->
  parse_lines cfg (map code_line (l :: ls)) = (Document [BlockCode (join [10] (l :: ls) ++ [10])], [], [1]).
Proof.
  intros H Hc. unfold parse_lines, block_phase, depth_fuel. rewrite (code_block (cfg_block cfg) _ l ls 1 (mkPs true) Hc H).
  unfold footnotes_of. cbn [flat_map defs_of app append_footnotes fold_left].
  unfold make_tokens. cbn [flat_map build concat app lnums]. rewrite (strip_nl_lines l ls H). reflexivity.
Qed.

Theorem indented_code_renders cfg o l ls : Forall code_text (l :: ls) -> code_config cfg = true ->
  render_html o (fst (fst (parse_lines cfg (map code_line (l :: ls))))) =
  $"<pre><code>" ++ escape_html_text o (join [10] (l :: ls) ++ [10]) ++ $"</code></pre>" ++ [10].
Proof.
  intros H Hc. rewrite (indented_code_parses cfg l ls H Hc). cbn [fst]. unfold render_html. cbn. rewrite ?app_nil_r. reflexivity.
Qed.

Lemma code_configs : forallb code_config [cfg_html; cfg_html_nohtml; cfg_latex; cfg_mathjax; cfg_default] = true /\ code_config cfg_markdown = false.
Proof. vm_compute. split; reflexivity. Qed.

Example code_instance :
  Forall code_text [$"def f(x):"; $"    return <x> & 1"; $"- not a list"; $"> not a quote"; $"# not a heading"] /\
  ~ code_text ($"  ") /\ code_line ($"x = 1") = $"    x = 1" ++ [10].
Proof.
  split; [|split; [intros (H & _); vm_compute in H; discriminate|reflexivity]].
  repeat constructor; vm_compute; reflexivity.
Qed.
