(* C15: the three ways of supplying a text give the same line list. *)
From Coq Require Import ZArith List Bool Lia.
From Mistletoe Require Import Base.Sx Base.PyStr Model.DocLines.
Import ListNotations.
Local Open Scope Z_scope.

Lemma only_lf_split cur s : only_lf s = true -> splitlines_aux cur s = split_keep_aux cur s.
Proof.
  revert cur. induction s as [|c r IH]; intros cur H; [reflexivity|].
  cbn [only_lf forallb] in H. apply andb_true_iff in H. destruct H as [Hc Hr].
  cbn [splitlines_aux split_keep_aux].
  destruct (Z.eqb_spec c 13) as [->|Hn13]; [discriminate|].
  destruct (Z.eqb_spec c 10) as [->|Hn10].
  - cbn. f_equal. now apply IH.
  - cbn in Hc. apply negb_true_iff in Hc. rewrite Hc. now apply IH.
Qed.

Theorem str_eq_file s : only_lf s = true -> doc_lines_of_str s = doc_lines_of_file s.
Proof. intros H. unfold doc_lines_of_str, doc_lines_of_file, splitlines_keep, split_keep_lf. now rewrite only_lf_split. Qed.

(* ---- list of terminator-free lines ---- *)
Definition no_lf (s : str) : Prop := Forall (fun c => c <> 10) s.

Lemma ends_with_lf_snoc s : ends_with_lf (s ++ [10]) = true.
Proof. unfold ends_with_lf. now rewrite rev_app_distr. Qed.

Lemma add_nl_terminated s : add_nl (s ++ [10]) = s ++ [10].
Proof. unfold add_nl. now rewrite ends_with_lf_snoc. Qed.

Lemma add_nl_plain s : no_lf s -> add_nl s = s ++ [10].
Proof.
  intros H. unfold add_nl, ends_with_lf. destruct (rev s) as [|c r] eqn:E; [reflexivity|].
  assert (In c s) by (apply in_rev; rewrite E; left; reflexivity).
  unfold no_lf in H. rewrite Forall_forall in H. specialize (H c H0).
  destruct c as [|p|p]; try reflexivity.
  repeat (destruct p as [p|p|]; try reflexivity); congruence.
Qed.

Lemma no_lf_rev s : no_lf s -> no_lf (rev s).
Proof. unfold no_lf. rewrite !Forall_forall. intros H c Hc. apply H. now apply in_rev. Qed.

(* with an accumulator free of '\n' and a non-empty remaining text that does not
   end in '\n', both splittings agree after newline completion *)
Lemma split_agree s : forall cur,
  no_lf cur -> (s <> [] \/ cur <> []) -> ends_with_lf s = false ->
  map add_nl (split_aux cur s) = map add_nl (split_keep_aux cur s).
Proof.
  induction s as [|c r IH]; intros cur Hc Hne He.
  - cbn. destruct cur as [|x cur]; [destruct Hne; congruence|]. reflexivity.
  - cbn [split_aux split_keep_aux]. destruct (Z.eqb_spec c 10) as [->|Hn].
    + cbn [map]. f_equal.
      * cbn [rev]. rewrite add_nl_terminated. apply add_nl_plain. now apply no_lf_rev.
      * assert (r <> []) by (intro; subst; discriminate).
        apply IH; [constructor|left; auto|].
        unfold ends_with_lf in *. cbn [rev] in He. destruct (rev r) as [|x y] eqn:E.
        -- apply (f_equal (@rev Z)) in E. rewrite rev_involutive in E. cbn in E. congruence.
        -- cbn in He. exact He.
    + apply IH.
      * constructor; auto.
      * right. discriminate.
      * unfold ends_with_lf in *. cbn [rev] in He. destruct (rev r) as [|x y]; [reflexivity|]. cbn in He. exact He.
Qed.

Theorem list_without_ends_eq_file s :
  s <> [] -> ends_with_lf s = false ->
  doc_lines_of_list (split_lf s) = doc_lines_of_file s.
Proof.
  intros Hne He. unfold doc_lines_of_list, doc_lines_of_file, doc_lines_of_list, split_lf, split_keep_lf.
  apply split_agree; [constructor|left; auto|auto].
Qed.

(* ---- a final newline does not matter ---- *)
Lemma split_keep_final s : forall cur,
  (s <> [] \/ cur <> []) -> ends_with_lf s = false -> no_lf cur ->
  map add_nl (split_keep_aux cur (s ++ [10])) = map add_nl (split_keep_aux cur s).
Proof.
  induction s as [|c r IH]; intros cur Hne He Hc.
  - cbn. destruct cur as [|x cur]; [destruct Hne; congruence|].
    cbn [map]. f_equal. change (rev (x :: cur) ++ [10]) with (rev (x :: cur) ++ [10]).
    rewrite add_nl_terminated. symmetry. apply add_nl_plain. apply no_lf_rev. exact Hc.
  - cbn [app split_keep_aux]. destruct (Z.eqb_spec c 10) as [->|Hn].
    + cbn [map]. f_equal.
      assert (r <> []) by (intro; subst; discriminate).
      apply IH; [left; auto| |constructor].
      unfold ends_with_lf in *. cbn [rev] in He. destruct (rev r) as [|x y] eqn:E.
      * apply (f_equal (@rev Z)) in E. rewrite rev_involutive in E. cbn in E. congruence.
      * cbn in He. exact He.
    + apply IH; [right; discriminate| |constructor; auto].
      unfold ends_with_lf in *. cbn [rev] in He. destruct (rev r) as [|x y]; [reflexivity|]. cbn in He. exact He.
Qed.

Lemma only_lf_app s : only_lf s = true -> only_lf (s ++ [10]) = true.
Proof. unfold only_lf. intros H. rewrite forallb_app, H. reflexivity. Qed.

Theorem final_newline_irrelevant s :
  only_lf s = true -> s <> [] -> ends_with_lf s = false ->
  doc_lines_of_str (s ++ [10]) = doc_lines_of_str s.
Proof.
  intros Ho Hne He. rewrite !str_eq_file by (auto using only_lf_app).
  unfold doc_lines_of_file, doc_lines_of_list, split_keep_lf. apply split_keep_final; [left; auto|auto|constructor].
Qed.

(* the side condition is needed: a form feed is a line boundary for
   str.splitlines but not for a file *)
Theorem only_lf_needed :
  exists s, only_lf s = false /\ doc_lines_of_str s <> doc_lines_of_file s.
Proof. exists [97; 12; 98]. split; [reflexivity|]. vm_compute. discriminate. Qed.

(* the empty text is the one place where a final newline is visible in the
   line list: '' gives no line, '\n' gives one blank line *)
Theorem empty_vs_newline : doc_lines_of_str [] = [] /\ doc_lines_of_str [10] = [[10]].
Proof. split; reflexivity. Qed.

Example lines_example :
  doc_lines_of_str ($"a" ++ [10] ++ $"b") = [$"a" ++ [10]; $"b" ++ [10]] /\
  doc_lines_of_list (split_lf ($"a" ++ [10] ++ $"b")) = [$"a" ++ [10]; $"b" ++ [10]].
Proof. split; reflexivity. Qed.
