(* C03 on the fragment, for whole documents: Document(lines) gives the block tokenizer enough
   fuel for every tree of the fragment (a tree nested d deep has a line of at least d + 2
   characters, and the fuel is the length of the longest line plus two), so the theorems about
   tokenize_block lift to parse_lines: the document parsed from the spelled text holds exactly
   the token tree it was written from, for each renderer's token sets. *)
From Coq Require Import ZArith List Bool Lia.
From Mistletoe Require Import Base.Sx Base.PyStr Base.PyText Gen.GenTables Gen.GenConfig Model.Tree Model.CoreTokens Model.Block Model.Build
     Model.Parser Proofs.PlainProse Proofs.Prose Proofs.ProseLines Proofs.ListLaw Proofs.FenceLaw Spec.Fragment Proofs.FragmentP Proofs.EmphSimple Proofs.InertProse Proofs.RefSentence Proofs.CodeSpan Proofs.LeafSpans.
Import ListNotations.
Local Open Scope Z_scope.

(* ---- the fuel Document gives the block tokenizer is enough for every tree of the fragment:
        a tree nested d deep has a line at least d + 2 characters long ---- *)
Definition weight (l : sline) : nat := match l with SBlank => 0%nat | SLine k _ body => S (k + length body) end.

Lemma weight_length l : (1 <= weight l)%nat -> length (render_line l) = S (weight l).
Proof.
  destruct l as [|k c body]; cbn [weight]; [lia|]. intros _. cbn [render_line]. unfold line_of.
  rewrite !app_length, repeat_length. cbn [length]. rewrite app_length. cbn [length]. lia.
Qed.

Lemma deepest_child ts : ts <> [] -> exists t, In t ts /\ fold_right (fun t m => Nat.max (depth t) m) 0%nat ts = depth t.
Proof.
  induction ts as [|x r IH]; [contradiction|]. intros _. destruct r as [|y r'].
  - exists x. split; [left; reflexivity|]. cbn [fold_right]. lia.
  - destruct (IH ltac:(discriminate)) as (t & Hin & E). cbn [fold_right] in E |- *.
    destruct (Nat.max_spec (depth x) (Nat.max (depth y) (fold_right (fun t m => Nat.max (depth t) m) 0%nat r'))) as [[_ ->]|[_ ->]].
    + exists t. split; [right; exact Hin|exact E].
    + exists x. split; [left; reflexivity|reflexivity].
Qed.

Lemma in_join_blank (ls : list (list sline)) x l : In x ls -> In l x -> In l (join_blank ls).
Proof.
  intros Hx Hl. destruct ls as [|a r]; [destruct Hx|]. unfold join_blank. apply in_or_app. destruct Hx as [->|Hx]; [left; exact Hl|right].
  apply in_flat_map. exists x. split; [exact Hx|right; exact Hl].
Qed.

Lemma item_deep_line f (IH : forall t, (depth t <= f)%nat -> wf_b t = true -> exists l, In l (spell t) /\ (S (depth t) <= weight l)%nat) mk pad ts :
  (S (fold_right (fun t m => Nat.max (depth t) m) 0%nat ts) <= S f)%nat ->
  marker_okb mk && Nat.leb 1 pad && Nat.leb pad 4 && seq_ok_b ts && forallb wf_b ts && good_b (join_blank (map spell ts)) &&
    negb (thematic_start (item_first_line mk pad (join_blank (map spell ts)))) = true ->
  exists l, In l (item_lines mk pad (join_blank (map spell ts))) /\ (S (S (fold_right (fun t m => Nat.max (depth t) m) 0%nat ts)) <= weight l)%nat.
Proof.
  intros Hd Hw. repeat rewrite andb_true_iff in Hw. destruct Hw as [[[[[[Hmk Hp1] Hp4] Hs] Hall] Hg] Hth].
  apply marker_ok_reflect in Hmk. apply Nat.leb_le in Hp1.
  assert (Hne : ts <> []) by (destruct ts; [discriminate|discriminate]).
  destruct (deepest_child ts Hne) as (t' & Hin & E).
  rewrite forallb_forall in Hall.
  destruct (IH t' (depth_children _ _ _ Hin Hd) (Hall t' Hin)) as (l & Hl & Wl).
  assert (Hj : In l (join_blank (map spell ts))) by (eapply in_join_blank; [apply in_map; exact Hin|exact Hl]).
  destruct (good_lines _ Hg) as (c0 & body0 & rest & El & _).
  destruct (marker_first mk Hmk) as (m0 & mr & Em & _).
  rewrite E, El in *. unfold item_lines. rewrite Em.
  destruct Hj as [<-|Hj].
  - eexists. split; [left; reflexivity|]. cbn [weight] in Wl |- *. rewrite !app_length, repeat_length. cbn [length]. lia.
  - exists (embed_s (length (m0 :: mr) + pad) l). split; [right; apply in_map; exact Hj|].
    destruct l as [|k c body]; cbn [weight] in Wl; [lia|]. cbn [embed_s weight length]. lia.
Qed.

Lemma deep_line : forall f t, (depth t <= f)%nat -> wf_b t = true -> exists l, In l (spell t) /\ (S (depth t) <= weight l)%nat.
Proof.
  induction f as [|f IH].
  - intros t Hd Hw.
    destruct t as [c body more|ch n content|ts|mk pad ts|mk pad ts bl next|lv hc hb|rc rn|e0 epre ech edbl ew epost|l0 lpre lw ldest lpost|s0 st0' sgs|k0 kpre kn kcode kpost|b0 bbody bk bmore|o0 opre ox opost]; [| |cbn [depth] in Hd; lia|cbn [depth] in Hd; lia|cbn [depth] in Hd; lia| | | | | | | |].
    + exists (SLine 0 c body). split; [left; reflexivity|cbn [depth weight]; lia].
    + exists (SLine 0 ch (repeat ch (n - 1))). split; [left; reflexivity|cbn [depth weight]; lia].
    + eexists. split; [left; reflexivity|cbn [depth weight]; lia].
    + eexists. split; [left; reflexivity|cbn [depth weight]; lia].
    + eexists. split; [left; reflexivity|cbn [depth weight]; lia].
    + eexists. split; [left; reflexivity|cbn [depth weight]; lia].
    + eexists. split; [left; reflexivity|cbn [depth weight]; lia].
    + eexists. split; [left; reflexivity|cbn [depth weight]; lia].
    + destruct bmore; eexists; (split; [left; reflexivity|cbn [depth weight]; lia]).
    + eexists. split; [left; reflexivity|cbn [depth weight]; lia].
  - intros t. induction t as [c body more|ch n content|ts|mk pad ts|mk pad ts bl next IHn|lv hc hb|rc rn|e0 epre ech edbl ew epost|l0 lpre lw ldest lpost|s0 st0' sgs|k0 kpre kn kcode kpost|b0 bbody bk bmore|o0 opre ox opost]; intros Hd Hw.
    + exists (SLine 0 c body). split; [left; reflexivity|cbn [depth weight]; lia].
    + exists (SLine 0 ch (repeat ch (n - 1))). split; [left; reflexivity|cbn [depth weight]; lia].
    + cbn [wf_b] in Hw. repeat rewrite andb_true_iff in Hw. destruct Hw as [[Hs Hall] Hg].
      assert (Hne : ts <> []) by (destruct ts; [discriminate|discriminate]).
      destruct (deepest_child ts Hne) as (t' & Hin & E).
      rewrite forallb_forall in Hall.
      destruct (IH t' (depth_children _ _ _ Hin Hd) (Hall t' Hin)) as (l & Hl & Wl).
      exists (quote_s l). split.
      * cbn [spell]. apply in_map. eapply in_join_blank; [apply in_map; exact Hin|exact Hl].
      * cbn [depth]. rewrite E. destruct l as [|k c body]; cbn [weight] in Wl; [lia|].
        cbn [quote_s weight length]. rewrite app_length, repeat_length. cbn [length]. lia.
    + cbn [wf_b] in Hw. cbn [depth] in Hd. destruct (item_deep_line f IH mk pad ts Hd Hw) as (l & Hl & Wl).
      exists l. split; [exact Hl|cbn [depth]; exact Wl].
    + cbn [wf_b] in Hw. repeat rewrite andb_true_iff in Hw. destruct Hw as [[[Hw _] _] Hwn]. cbn [depth] in Hd |- *.
      destruct (Nat.max_spec (S (fold_right (fun t m => Nat.max (depth t) m) 0%nat ts)) (depth next)) as [[Hlt ->]|[Hge ->]].
      * destruct (IHn ltac:(lia) Hwn) as (l & Hl & Wl). exists l. split; [|exact Wl]. cbn [spell]. apply in_or_app. right. apply in_or_app. right. exact Hl.
      * assert (Hw' : marker_okb mk && Nat.leb 1 pad && Nat.leb pad 4 && seq_ok_b ts && forallb wf_b ts && good_b (join_blank (map spell ts)) &&
                      negb (thematic_start (item_first_line mk pad (join_blank (map spell ts)))) = true) by (repeat rewrite andb_true_iff; exact Hw).
        destruct (item_deep_line f IH mk pad ts ltac:(lia) Hw') as (l & Hl & Wl).
        exists l. split; [|exact Wl]. cbn [spell]. apply in_or_app. left. exact Hl.
    + eexists. split; [left; reflexivity|cbn [depth weight]; lia].
    + eexists. split; [left; reflexivity|cbn [depth weight]; lia].
    + eexists. split; [left; reflexivity|cbn [depth weight]; lia].
    + eexists. split; [left; reflexivity|cbn [depth weight]; lia].
    + eexists. split; [left; reflexivity|cbn [depth weight]; lia].
    + eexists. split; [left; reflexivity|cbn [depth weight]; lia].
    + destruct bmore; eexists; (split; [left; reflexivity|cbn [depth weight]; lia]).
    + eexists. split; [left; reflexivity|cbn [depth weight]; lia].
Qed.

Lemma longest_ge (lines : list str) l : In l lines -> forall a, (length l <= fold_left (fun m x => Nat.max m (length x)) lines a)%nat.
Proof.
  assert (Mono : forall (ls : list str) a, (a <= fold_left (fun m x => Nat.max m (length x)) ls a)%nat).
  { induction ls as [|x r IH]; intros a; cbn [fold_left]; [lia|]. specialize (IH (Nat.max a (length x))). lia. }
  induction lines as [|x r IH]; intros Hin a; [destruct Hin|]. cbn [fold_left]. destruct Hin as [->|Hin].
  - specialize (Mono r (Nat.max a (length l))). lia.
  - apply IH. exact Hin.
Qed.

Theorem fuel_suffices t : wf_b t = true -> (S (depth t) <= depth_fuel (text_of (spell t)))%nat.
Proof.
  intros Hw. destruct (deep_line (depth t) t (le_n _) Hw) as (l & Hl & Wl).
  unfold depth_fuel. pose proof (longest_ge (text_of (spell t)) (render_line l) (in_map _ _ _ Hl) 0%nat) as G.
  rewrite weight_length in G by lia. lia.
Qed.


(* Document(lines) on the spelled text of a tree *)
Theorem fragment_document cfg t :
  fragment_config (cfg_block cfg) = true -> prose_spans (cfg_span cfg) = true -> emph_spans (cfg_span cfg) = true ->
  inert_spans (cfg_span cfg) = true -> leaf_spans (cfg_span cfg) = true -> wf_b t = true ->
  fst (fst (parse_lines cfg (text_of (spell t)))) = Document [tok_of false t].
Proof.
  intros Hc Hq He Hi Hr Hw. pose proof (fuel_suffices t Hw) as Hf.
  unfold parse_lines, block_phase.
  destruct (depth_fuel (text_of (spell t))) as [|f] eqn:Ef; [lia|].
  rewrite (fragment_tree_cfg (cfg_block cfg) t f 1 (mkPs true) Hc Hw ltac:(lia)). cbn [fst].
  unfold Build.make_tokens. cbn [flat_map].
  rewrite (build_fragment (cfg_span cfg) (cfg_keep_defs cfg) _ false Hq He Hi Hr (footnotes_of_fragment false t 1) f t 1 ltac:(lia) Hw). reflexivity.
Qed.

Theorem fragment_document_markdown t :
  wf_b t = true -> fst (fst (parse_lines cfg_markdown (text_of (spell t)))) = Document [tok_of true t].
Proof.
  intros Hw. pose proof (fuel_suffices t Hw) as Hf.
  unfold parse_lines, block_phase. cbn [cfg_block cfg_span cfg_keep_defs cfg_markdown].
  destruct (depth_fuel (text_of (spell t))) as [|f] eqn:Ef; [lia|].
  rewrite (fragment_tree_markdown t f 1 (mkPs true) Hw ltac:(lia)). cbn [fst].
  unfold Build.make_tokens. cbn [flat_map].
  rewrite (build_fragment span_types_markdown true _ true eq_refl eq_refl eq_refl eq_refl (footnotes_of_fragment true t 1) f t 1 ltac:(lia) Hw). reflexivity.
Qed.

(* ---- a whole document: a sequence of blocks separated by blank lines ---- *)
Definition seq_depth (ts : list ftree) : nat := fold_right (fun t m => Nat.max (depth t) m) 0%nat ts.

Theorem fuel_suffices_seq ts : ts <> [] -> forallb wf_b ts = true -> (S (seq_depth ts) <= depth_fuel (text_of (join_blank (map spell ts))))%nat.
Proof.
  intros Hne Hall. destruct (deepest_child ts Hne) as (t & Hin & E). unfold seq_depth. rewrite E.
  rewrite forallb_forall in Hall. destruct (deep_line (depth t) t (le_n _) (Hall t Hin)) as (l & Hl & Wl).
  assert (Hj : In l (join_blank (map spell ts))) by (eapply in_join_blank; [apply in_map; exact Hin|exact Hl]).
  unfold depth_fuel. pose proof (longest_ge (text_of (join_blank (map spell ts))) (render_line l) (in_map _ _ _ Hj) 0%nat) as G.
  rewrite weight_length in G by lia. lia.
Qed.

Lemma seq_depth_all ts f : (seq_depth ts <= f)%nat -> Forall (fun t => (depth t <= f)%nat) ts.
Proof.
  unfold seq_depth. induction ts as [|t r IH]; intros H; [constructor|]. cbn [fold_right] in H. constructor; [lia|apply IH; lia].
Qed.

Theorem fragment_seq_document cfg ts :
  fragment_config (cfg_block cfg) = true -> prose_spans (cfg_span cfg) = true -> emph_spans (cfg_span cfg) = true ->
  inert_spans (cfg_span cfg) = true -> leaf_spans (cfg_span cfg) = true -> seq_ok_b ts = true -> forallb wf_b ts = true ->
  fst (fst (parse_lines cfg (text_of (join_blank (map spell ts))))) = Document (tok_seq false ts).
Proof.
  intros Hc Hq He Hi Hr Hs Hw.
  assert (Hne : ts <> []) by (destruct ts; [discriminate|discriminate]).
  pose proof (fuel_suffices_seq ts Hne Hw) as Hf.
  unfold parse_lines, block_phase.
  destruct (depth_fuel (text_of (join_blank (map spell ts)))) as [|f] eqn:Ef; [lia|].
  rewrite (fragment_seq_cfg (cfg_block cfg) ts f 1 (mkPs true) Hc Hs Hw (seq_depth_all ts f ltac:(lia))). cbn [fst].
  unfold Build.make_tokens.
  rewrite (build_seq (cfg_span cfg) (cfg_keep_defs cfg) _ false Hq He Hi Hr (footnotes_of_seq false ts 1) ts 1 Hw). reflexivity.
Qed.

Theorem fragment_seq_document_markdown ts :
  seq_ok_b ts = true -> forallb wf_b ts = true ->
  fst (fst (parse_lines cfg_markdown (text_of (join_blank (map spell ts))))) = Document (tok_seq true ts).
Proof.
  intros Hs Hw.
  assert (Hne : ts <> []) by (destruct ts; [discriminate|discriminate]).
  pose proof (fuel_suffices_seq ts Hne Hw) as Hf.
  unfold parse_lines, block_phase. cbn [cfg_block cfg_span cfg_keep_defs cfg_markdown].
  destruct (depth_fuel (text_of (join_blank (map spell ts)))) as [|f] eqn:Ef; [lia|].
  rewrite (fragment_seq_markdown ts f 1 (mkPs true) Hs Hw (seq_depth_all ts f ltac:(lia))). cbn [fst].
  unfold Build.make_tokens.
  rewrite (build_seq span_types_markdown true _ true eq_refl eq_refl eq_refl eq_refl (footnotes_of_seq true ts 1) ts 1 Hw). reflexivity.
Qed.

Lemma document_configs :
  forallb (fun c => fragment_config (cfg_block c) && prose_spans (cfg_span c) && emph_spans (cfg_span c) && inert_spans (cfg_span c) && leaf_spans (cfg_span c))
          [cfg_html; cfg_html_nohtml; cfg_latex; cfg_mathjax; cfg_default] = true.
Proof. vm_compute. reflexivity. Qed.
