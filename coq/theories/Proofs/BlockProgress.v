(* C01: the dispatch loop of the block tokenizer always makes progress. *)
From Coq Require Import ZArith List Bool Lia.
From Mistletoe Require Import Base.Sx Base.PyStr Base.PyText Gen.GenConfig Model.Tree Model.CoreTokens Model.Block
     Model.HtmlRenderer Model.LatexRenderer Model.MarkdownRenderer.
Import ListNotations.
Local Open Scope Z_scope.

Lemma lstrip_by_head p s c r : lstrip_by p s = c :: r -> p c = false.
Proof.
  induction s as [|x s IH]; cbn; [discriminate|]. destruct (p x) eqn:E; [exact IH|]. intros H. inversion H; subst. exact E.
Qed.

Lemma lstrip_by_nil p s : lstrip_by p s = [] -> forallb p s = true.
Proof. induction s as [|x s IH]; cbn; [reflexivity|]. destruct (p x); [exact IH|discriminate]. Qed.

Lemma blank_lstrip line : is_blank line = true -> lstrip line = [].
Proof.
  unfold is_blank, strip, strip_by, rstrip_by, lstrip. destruct (rev (lstrip_by is_space_c (rev (lstrip_by is_space_c line)))) eqn:E; [|discriminate].
  intros _. apply (f_equal (@rev Z)) in E. rewrite rev_involutive in E. cbn in E. apply lstrip_by_nil in E.
  destruct (lstrip_by is_space_c line) as [|c r] eqn:El; [reflexivity|].
  apply lstrip_by_head in El. rewrite forallb_forall in E. specialize (E c). rewrite <- in_rev in E.
  rewrite E in El; [discriminate|left; reflexivity].
Qed.

(* no HTML block starts on an empty (stripped) line: the three regenerated patterns evaluated on '' *)
Lemma html_patterns_need_text :
  rmatch GenRegex.re_block_token_HtmlBlock_multiblock GenRegex.fl_block_token_HtmlBlock_multiblock [] = None /\
  rmatch GenRegex.re_block_token_HtmlBlock_predefined GenRegex.fl_block_token_HtmlBlock_predefined [] = None /\
  rmatch GenRegex.re_block_token_HtmlBlock_custom_tag GenRegex.fl_block_token_HtmlBlock_custom_tag [] = None.
Proof. vm_compute. repeat split. Qed.

Lemma htmlblock_not_blank line : is_blank line = true -> htmlblock_start line = None.
Proof.
  intros Hb. unfold htmlblock_start. rewrite (blank_lstrip line Hb).
  destruct (4 <=? slen line - slen []); [reflexivity|].
  destruct html_patterns_need_text as (H1 & H2 & H3). rewrite H1. cbn [startswith s2l]. rewrite H2, H3. reflexivity.
Qed.

Section Level.
  Variable types : list block_kind.
  Variable rec : list str -> Z -> pstate -> list pre * bool * pstate.

  (* the loop's own fuel (S (length lines)) is never what ends it: more fuel changes nothing *)
  Lemma fuel_suffices n : forall m after ln acc loose st,
    (length after < n)%nat -> (n <= m)%nat ->
    dispatch_loop types rec n after ln acc loose st = dispatch_loop types rec m after ln acc loose st.
  Proof.
    induction n as [|n IH]; intros m after ln acc loose st Hn Hm; [lia|].
    destruct m as [|m]; [lia|]. cbn [dispatch_loop].
    destruct after as [|line rest]; [reflexivity|].
    destruct (try_types types rec types (line :: rest) ln st) as [[[p c] s1]|].
    - destruct c as [|c']; [reflexivity|]. apply IH; [|lia].
      rewrite skipn_length. cbn [length] in *. lia.
    - apply IH; [cbn [length] in Hn; lia|lia].
  Qed.

  (* ---- every reader consumes at least one line ---- *)
  Lemma blockcode_loop_progress : forall after buf taken trailing b c,
    (trailing <= taken)%nat -> blockcode_loop after buf taken trailing = (b, c) -> (taken - trailing <= c)%nat.
  Proof.
    induction after as [|line r IH]; intros buf taken trailing b c Ht H; cbn [blockcode_loop] in H.
    - inversion H; subst. lia.
    - destruct (is_blank line).
      + apply IH in H; [|destruct (str_eqb line [10]); lia]. destruct (str_eqb line [10]); lia.
      + destruct (negb _); [inversion H; subst; lia|]. apply IH in H; lia.
  Qed.

  Lemma blockcode_progress line rest b c :
    blockcode_start line = true -> blockcode_read (line :: rest) = (b, c) -> (1 <= c)%nat.
  Proof.
    unfold blockcode_start, blockcode_read. intros Hs H. apply andb_true_iff in Hs. destruct Hs as [Hs1 Hs2].
    apply negb_true_iff in Hs2. cbn [blockcode_loop] in H. rewrite Hs2, Hs1 in H. cbn [negb] in H.
    apply blockcode_loop_progress in H; lia.
  Qed.

  Lemma fence_loop_progress : forall after indent leader buf taken b c,
    fence_loop after indent leader buf taken = (b, c) -> (taken <= c)%nat.
  Proof.
    induction after as [|line r IH]; intros indent leader buf taken b c H; cbn [fence_loop] in H.
    - inversion H; subst. lia.
    - destruct (_ && _); [inversion H; subst; lia|]. apply IH in H. lia.
  Qed.

  Lemma html_loop_progress : forall after ec buf taken b c, html_loop after ec buf taken = (b, c) -> (taken <= c)%nat.
  Proof.
    induction after as [|line r IH]; intros ec buf taken b c H; cbn [html_loop] in H.
    - inversion H; subst. lia.
    - destruct ec as [e|].
      + destruct (contains e (casefold line)); [inversion H; subst; lia|]. apply IH in H. lia.
      + destruct (is_blank line); [inversion H; subst; lia|]. apply IH in H. lia.
  Qed.

  Lemma para_loop_progress : forall after setext buf taken b c s,
    para_loop types setext after buf taken = (b, c, s) -> (taken <= c)%nat.
  Proof.
    induction after as [|line r IH]; intros setext buf taken b c s H; cbn [para_loop] in H.
    - inversion H; subst. lia.
    - repeat match type of H with (if ?x then _ else _) = _ => destruct x end;
        try (inversion H; subst; lia). apply IH in H. lia.
  Qed.

  Lemma quote_loop_progress : forall after buf taken f cc b r c,
    quote_loop types after buf taken f cc b = (r, c) -> (taken <= c)%nat.
  Proof.
    induction after as [|line rest IH]; intros buf taken f cc b r c H; cbn [quote_loop] in H.
    - inversion H; subst. lia.
    - repeat match type of H with (if ?x then _ else _) = _ => destruct x end;
        try (inversion H; subst; lia); apply IH in H; lia.
  Qed.

  Lemma read_item_progress line rest ln prev st it taken nm st' :
    read_item types rec (line :: rest) ln prev st = (it, taken, nm, st') -> (1 <= taken)%nat.
  Proof.
    unfold read_item.
    destruct (match prev with Some m => Some m | None => parse_marker line end) as [[[[ind pp] ld] ct]|]; [|intros H; inversion H; lia].
    destruct (is_blank ct).
    - destruct (count_blank rest); [|intros H; inversion H; lia].
      destruct (item_loop types _ rest _ [] 1 0) as [[buf tk] nm0] eqn:E. destruct (rec buf (ln + 1) st) as [[es lo] s2].
      intros H. inversion H; subst.
      (* taken >= 1: the loop starts at 1 and only backsteps over a newline it has counted *)
      clear - E. revert E. generalize (ind + slen ld + 1). intros prepend E.
      assert (G : forall after buf_rev tk0 nl b t n, (nl <= length buf_rev)%nat -> tk0 = S (length buf_rev) ->
                   item_loop types ld after prepend buf_rev tk0 nl = (b, t, n) -> (1 <= t)%nat).
      { induction after as [|l r IH]; intros buf_rev tk0 nl b t n Hn Hinv H; cbn [item_loop] in H; cbv zeta in H.
        - inversion H; subst. destruct nl; lia.
        - destruct (parse_continuation l prepend) as [cont|].
          + apply IH in H; auto; cbn [length]; destruct (str_eqb cont [10]); lia.
          + destruct (item_interrupt types (l :: r)); [inversion H; subst; destruct nl; lia|].
            destruct (parse_marker l) as [[[[? ?] other] ?]|]; [destruct (same_marker_type ld other); inversion H; subst; try lia; destruct nl; lia|].
            destruct nl; [|inversion H; subst; lia].
            apply IH in H; auto; cbn [length]; destruct (str_eqb l [10]); lia. }
      apply G in E; auto; cbn; lia.
    - destruct (item_loop types _ rest pp [ct] 1 0) as [[buf tk] nm0] eqn:E. destruct (rec buf ln st) as [[es lo] s2].
      intros H. inversion H; subst. clear - E.
      assert (G : forall after buf_rev tk0 nl b t n, (nl < length buf_rev)%nat -> tk0 = length buf_rev ->
                   item_loop types ld after pp buf_rev tk0 nl = (b, t, n) -> (1 <= t)%nat).
      { induction after as [|l r IH]; intros buf_rev tk0 nl b t n Hn Hinv H; cbn [item_loop] in H; cbv zeta in H.
        - inversion H; subst. destruct nl; lia.
        - destruct (parse_continuation l pp) as [cont|].
          + apply IH in H; auto; cbn [length]; destruct (str_eqb cont [10]); lia.
          + destruct (item_interrupt types (l :: r)); [inversion H; subst; destruct nl; lia|].
            destruct (parse_marker l) as [[[[? ?] other] ?]|]; [destruct (same_marker_type ld other); inversion H; subst; try lia; destruct nl; lia|].
            destruct nl; [|inversion H; subst; lia].
            apply IH in H; auto; cbn [length]; destruct (str_eqb l [10]); lia. }
      apply G in E; auto; cbn; lia.
  Qed.

  Lemma read_list_mono n : forall after ln leader nm items consumed st its c st',
    read_list types rec n after ln leader nm items consumed st = (its, c, st') -> (consumed <= c)%nat.
  Proof.
    induction n as [|n IH]; intros after ln leader nm items consumed st its c st' H; cbn [read_list] in H.
    - inversion H; subst. lia.
    - destruct (read_item types rec after ln nm st) as [[[it taken] nm'] s1].
      destruct (negb _); [inversion H; subst; lia|].
      destruct nm'; [apply IH in H; lia|inversion H; subst; lia].
  Qed.

  Lemma read_list_progress n line rest ln nm st its c st' :
    read_list types rec (S n) (line :: rest) ln None nm [] 0 st = (its, c, st') -> (1 <= c)%nat.
  Proof.
    cbn [read_list]. destruct (read_item types rec (line :: rest) ln nm st) as [[[it taken] nm'] s1] eqn:E.
    apply read_item_progress in E. cbn [negb].
    destruct nm'; intros H; [apply read_list_mono in H; lia|inversion H; subst; lia].
  Qed.

  Definition is_definition_kind (k : block_kind) : bool :=
    match k with BK_Footnote | BK_LinkReferenceDefinitionBlock => true | _ => false end.

  Theorem readers_progress k after ln st p c st' :
    is_definition_kind k = false ->
    start_read types rec k after ln st = Some (p, c, st') -> (1 <= c)%nat.
  Proof.
    intros Hk. unfold start_read. destruct after as [|line rest]; [discriminate|].
    destruct k; try discriminate; intros H.
    - destruct (blockcode_start line) eqn:Es; [|discriminate].
      destruct (blockcode_read (line :: rest)) as [b c0] eqn:E. inversion H; subst. eapply blockcode_progress; eauto.
    - destruct (heading_start line) as [[[a b] d]|]; inversion H; lia.
    - destruct (quote_start line); [|discriminate].
      destruct (quote_lines types (line :: rest)) as [b c0] eqn:E. destruct (rec b ln (mkPs false)) as [[es lo] s2].
      inversion H; subst. unfold quote_lines in E. apply quote_loop_progress in E. lia.
    - destruct (codefence_start line) as [[[[a b] d] e]|]; [|discriminate].
      destruct (fence_loop rest a b [] 1) as [bb c0] eqn:E. inversion H; subst. apply fence_loop_progress in E. lia.
    - destruct (thematic_start line); inversion H; lia.
    - destruct (list_start line); [|discriminate].
      destruct (read_list types rec (S (length (line :: rest))) (line :: rest) ln None None [] 0 st) as [[its c0] s2] eqn:E.
      inversion H; subst. eapply read_list_progress; eauto.
    - destruct (table_start line); [|discriminate]. destruct (table_read (line :: rest)) as [buf|] eqn:E; [|discriminate].
      inversion H; subst. unfold table_read in E. destruct (take_while_pipe rest) as [|second l]; [discriminate|].
      match type of E with match ?x with _ => _ end = _ => destruct x end; inversion E; subst. cbn. lia.
    - destruct (paragraph_start line); [|discriminate].
      destruct (para_loop types (ps_setext st) rest [line] 1) as [[b c0] s] eqn:E. inversion H; subst.
      apply para_loop_progress in E. lia.
    - destruct (htmlblock_start line) as [[kk ec]|] eqn:Es; [|discriminate].
      destruct (html_loop (line :: rest) ec [] 0) as [b c0] eqn:E. inversion H; subst.
      (* the first line is always taken: with an end condition unconditionally, without one because it is not blank *)
      cbn [html_loop] in E. destruct ec as [e|].
      + destruct (contains e (casefold line)); [inversion E; lia|apply html_loop_progress in E; lia].
      + destruct (is_blank line) eqn:Eb; [|apply html_loop_progress in E; lia].
        rewrite (htmlblock_not_blank line Eb) in Es. discriminate.
    - destruct (blankline_start line); inversion H; lia.
  Qed.
End Level.
